/-
C04, faithfulness of the XMI writer on the flat fragment (`Properties/C04Faithful.lean`): two CASes that are written
to the same document have the same content.

Method.  The content of what the reader builds is a function of the document and of the *length* of the heap it
appends to.  The layers of the round trip (`RoundTripPost`, `RoundTripBuild`) know the heap that was written (`H`)
only through its length and through what it holds at the collected addresses; the first pass (`RoundTripPass1`) is
redone here over an arbitrary base heap `hb` of the length of `H`.  Both written heaps are extended to a common
length (`H₁ ++ H₂` and `H₂ ++ H₁`: every hypothesis about the written heap is monotone under extension, and the
document does not change), and the document is loaded over one base heap of that length.  The two loads are then the
same computation, and the two round-trip statements compose.
-/
import CassisModel.Proofs.RoundTrip
import CassisModel.Proofs.RoundTripDemo

namespace Cassis.Xmi
open Cassis.TS Cassis.Traverse Cassis.Lex

namespace Faithful

/-! ### extending the written heap -/

theorem get_append {H : Heap} (J : Heap) {a : Nat} {o : Obj} (h : H[a]? = some o) : (H ++ J)[a]? = some o := by
  have hlt : a < H.length := by
    rcases Nat.lt_or_ge a H.length with h' | h'
    · exact h'
    · rw [List.getElem?_eq_none h'] at h; cases h
  rw [List.getElem?_append_left hlt]
  exact h

theorem xidOf_append {H : Heap} (J : Heap) {a : Nat} {x : Int} (h : xidOf H a = some x) :
    xidOf (H ++ J) a = some x := by
  unfold xidOf at h ⊢
  cases ho : H[a]? with
  | none => rw [ho] at h; cases h
  | some o => rw [get_append J ho]; rw [ho] at h; exact h

theorem slot_append {H : Heap} (J : Heap) {a : Nat} {o : Obj} (h : H[a]? = some o) (n : String) :
    slot (H ++ J) a n = slot H a n := by
  unfold slot Traverse.slot
  rw [get_append J h, h]

theorem flatFeat_append {K : Consts} {ts : TypeSystem} {c : Cas} {ci : Nat} {H : Heap} (J : Heap) {isAnn : Bool}
    {o : Obj} {f : Feature} (h : FlatFeat K ts c ci H isAnn o f) : FlatFeat K ts c ci (H ++ J) isAnn o f := by
  obtain ⟨h1, h2, h3, h4, h5, h6, h7, h8, h9, h10, h11, v, hv, hcase⟩ := h
  refine ⟨h1, h2, h3, h4, h5, h6, h7, h8, h9, h10, h11, v, hv, ?_⟩
  rcases hcase with hs | hp | ⟨g1, g2, g3, g4, g5, g6, g7, hr⟩
  · exact Or.inl hs
  · exact Or.inr (Or.inl hp)
  · refine Or.inr (Or.inr ⟨g1, g2, g3, g4, g5, g6, g7, ?_⟩)
    rcases hr with hn | ⟨b, hb, hsome, hne⟩
    · exact Or.inl hn
    · obtain ⟨x, hx⟩ := Option.isSome_iff_exists.1 hsome
      refine Or.inr ⟨b, hb, ?_, ?_⟩
      · rw [xidOf_append J hx]; rfl
      · rw [xidOf_append J hx, ← hx]; exact hne

theorem flatFs_append {K : Consts} {ts : TypeSystem} {c : Cas} {ci : Nat} {H : Heap} (J : Heap) {a : Nat}
    (h : FlatFs K ts c ci H a) : FlatFs K ts c ci (H ++ J) a := by
  obtain ⟨o, t, ho, h2, h3, h4, h5, h6, h7, h8, h9, h10, h11, h12, h13, hfeat, hann⟩ := h
  exact ⟨o, t, get_append J ho, h2, h3, h4, h5, h6, h7, h8, h9, h10, h11, h12, h13,
    fun f hf => flatFeat_append J (hfeat f hf), hann⟩

theorem lok_append {K : Consts} {ts : TypeSystem} {c : Cas} {ci : Nat} {H : Heap} (J : Heap) {L : List (Int × Nat)}
    (hL : LOk K ts c ci H L) : LOk K ts c ci (H ++ J) L := by
  refine ⟨fun q hq => flatFs_append J (hL.flat q hq),
    fun q hq => ⟨xidOf_append J (hL.ids q hq).1, (hL.ids q hq).2⟩, hL.nodup, ?_, hL.members⟩
  intro q hq o ho n b hb
  obtain ⟨o', _, ho', _⟩ := hL.flat q hq
  have e : o = o' := by
    have := get_append J ho'
    rw [ho] at this
    exact Option.some.inj this
  subst e
  obtain ⟨x, hx, hxl⟩ := hL.closed q hq o ho' n b hb
  exact ⟨x, xidOf_append J hx, hxl⟩

theorem membersOk_append {c : Cas} {H : Heap} (J : Heap) (h : MembersOk c H) : MembersOk c (H ++ J) := by
  intro nv hnv
  obtain ⟨h1, h2⟩ := h nv hnv
  refine ⟨?_, ?_⟩
  · intro e he
    obtain ⟨o, k, ho, hk⟩ := h1 e he
    exact ⟨o, k, get_append J ho, hk⟩
  · intro e1 he1 e2 he2 o1 o2 k1 k2 ho1 ho2 hty hk1 hk2
    obtain ⟨p1, _, hp1, _⟩ := h1 e1 he1
    obtain ⟨p2, _, hp2, _⟩ := h1 e2 he2
    have g1 : H[e1.oid]? = some o1 := by
      have := get_append J hp1
      rw [ho1] at this
      rw [hp1]; exact this.symm
    have g2 : H[e2.oid]? = some o2 := by
      have := get_append J hp2
      rw [ho2] at this
      rw [hp2]; exact this.symm
    exact h2 e1 he1 e2 he2 o1 o2 k1 k2 g1 g2 hty hk1 hk2

theorem hmem_append {c : Cas} {H : Heap} (J : Heap) (hmok : MembersOk c H)
    (hmem : ∀ nv ∈ c.views, ∀ e ∈ Index.all nv.2.idx, slot H e.oid "sofa" ≠ some .none) :
    ∀ nv ∈ c.views, ∀ e ∈ Index.all nv.2.idx, slot (H ++ J) e.oid "sofa" ≠ some .none := by
  intro nv hnv e he
  obtain ⟨o, _, ho, _⟩ := (hmok nv hnv).1 e he
  rw [slot_append J ho]
  exact hmem nv hnv e he

theorem exp1_append (cass : List Cas) {H : Heap} (J : Heap) (isAnn : Bool) (o : Obj) (n : String) (v : Val)
    (hv : ∀ b, v = .ref b → ∃ x, xidOf H b = some x) :
    exp1 cass (H ++ J) isAnn o n v = exp1 cass H isAnn o n v := by
  cases v with
  | ref b =>
    obtain ⟨x, hx⟩ := hv b rfl
    simp only [exp1, hx, xidOf_append J hx]
  | _ => rfl

theorem Trip.imp {P P' : Int × Nat → XElem → Obj → Prop} :
    ∀ {L : List (Int × Nat)} {es : List XElem} {objs : List Obj},
    Trip P L es objs → (∀ q ∈ L, ∀ e o, P q e o → P' q e o) → Trip P' L es objs
  | [], [], [], _, _ => trivial
  | q :: L, e :: es, o :: objs, h, hi =>
    ⟨hi q List.mem_cons_self e o h.1,
      Trip.imp (L := L) (es := es) (objs := objs) h.2 (fun q' hq' => hi q' (List.mem_cons_of_mem _ hq'))⟩
  | [], [], _ :: _, h, _ => by cases h
  | [], _ :: _, _, h, _ => by cases h
  | _ :: _, [], _, h, _ => by cases h
  | _ :: _, _ :: _, [], h, _ => by cases h

theorem elemOk_append {K : Consts} {ts : TypeSystem} {cass : List Cas} {c : Cas} {ci : Nat} {H : Heap} (J : Heap)
    {L : List (Int × Nat)} (hL : LOk K ts c ci H L) (tsIdx : Nat) (q : Int × Nat) (hq : q ∈ L) (e : XElem) (o1 : Obj)
    (h : ElemOk K ts cass H tsIdx q e o1) : ElemOk K ts cass (H ++ J) tsIdx q e o1 := by
  obtain ⟨h1, h2, h3, o, ho, r1, r2, r3, r4⟩ := h
  refine ⟨h1, h2, h3, o, get_append J ho, r1, r2, r3, ?_⟩
  intro n v hv
  rw [r4 n v hv]
  congr 1
  unfold E1
  symm
  apply exp1_append
  intro b hb
  subst hb
  obtain ⟨x, hx, _⟩ := hL.closed q hq o ho n b hv
  exact ⟨x, hx⟩

theorem members_in {K : Consts} {ts : TypeSystem} {c : Cas} {ci : Nat} {H : Heap} {L : List (Int × Nat)}
    (hL : LOk K ts c ci H L) {nv : String × View} (hnv : nv ∈ c.views) {e : Index.Entry}
    (he : e ∈ Index.all nv.2.idx) : ∃ o, H[e.oid]? = some o := by
  obtain ⟨x, hx⟩ := hL.members nv hnv e he
  obtain ⟨o, _, ho, _⟩ := hL.flat _ hx
  exact ⟨o, ho⟩

theorem filterMap_congr' {α β} {f g : α → Option β} : ∀ {l : List α}, (∀ a ∈ l, f a = g a) → l.filterMap f = l.filterMap g
  | [], _ => rfl
  | a :: l, h => by
    rw [List.filterMap_cons, List.filterMap_cons, h a List.mem_cons_self,
      filterMap_congr' (l := l) (fun b hb => h b (List.mem_cons_of_mem _ hb))]

theorem renderView_append {H : Heap} (J : Heap) {v : View} (h : ∀ e ∈ Index.all v.idx, ∃ o, H[e.oid]? = some o) :
    renderView (H ++ J) v = renderView H v := by
  have e : (Index.all v.idx).filterMap (fun e => ((H ++ J)[e.oid]?).bind (·.xid)) =
      (Index.all v.idx).filterMap (fun e => (H[e.oid]?).bind (·.xid)) := by
    apply filterMap_congr'
    intro e he
    obtain ⟨o, ho⟩ := h e he
    rw [get_append J ho, ho]
  unfold renderView
  simp only [e]

theorem viewContent_append {H : Heap} (J : Heap) {nv : String × View}
    (h : ∀ e ∈ Index.all nv.2.idx, ∃ o, H[e.oid]? = some o) : viewContent (H ++ J) nv = viewContent H nv := by
  have e : (Index.all nv.2.idx).filterMap (fun e => xidOf (H ++ J) e.oid) =
      (Index.all nv.2.idx).filterMap (fun e => xidOf H e.oid) := by
    apply filterMap_congr'
    intro e he
    obtain ⟨o, ho⟩ := h e he
    unfold xidOf
    rw [get_append J ho, ho]
  unfold viewContent
  rw [e]

theorem featContent_append {K : Consts} {ts : TypeSystem} {c : Cas} {ci : Nat} {H : Heap} (J : Heap)
    {L : List (Int × Nat)} (hL : LOk K ts c ci H L) {q : Int × Nat} (hq : q ∈ L) (n : String) :
    featContent (H ++ J) q.2 n = featContent H q.2 n := by
  obtain ⟨o, _, ho, _⟩ := hL.flat q hq
  unfold featContent
  rw [slot_append J ho]
  cases hv : slot H q.2 n with
  | none => rfl
  | some v =>
    rw [Option.getD_some]
    cases v with
    | ref b =>
      have hv' : alistGet? o.slots n = some (.ref b) := by
        unfold slot Traverse.slot at hv
        rw [ho] at hv
        exact hv
      obtain ⟨x, hx, _⟩ := hL.closed q hq o ho n b hv'
      simp only [dvalOf, hx, xidOf_append J hx]
    | _ => rfl

/-! ### the first pass over a base heap of the length of the written heap -/

/-- `pass1_flat` with the document given by its parts and the reader starting from any heap as long as `H` -/
theorem pass1_flat_base (K : Consts) (ts : TypeSystem) (cass : List Cas) (c : Cas) (H hb : Heap)
    (L : List (Int × Nat)) (tsIdx : Nat) (doc : XDoc) (es : List XElem) (objs : List Obj)
    (hnd : (c.views.map (·.2.sofa.xid)).Nodup) (hnull : NullOk ts)
    (hnodup : (L.map (·.1)).Nodup) (hne0 : ∀ q ∈ L, q.1 ≠ 0)
    (htrip : Trip (ElemOk K ts cass H tsIdx) L es objs)
    (hdoc : doc = [{ ty := NULL_T, attrs := [(ID, "0")] }] ++ es ++ c.views.map (fun p => renderSofa p.2.sofa) ++
      c.views.map (fun p => renderView H p.2))
    (hlen : hb.length = H.length) :
    ∃ (na : Int → Nat) (p : Pass1), pass1 K ts tsIdx false doc { heap := hb } = .ok p ∧
      NaOk H.length L na ∧ P1Spec ts cass c H L na p := by
  obtain ⟨o0, h0ty, h0x, h0s, h0p⟩ := null_elem K ts tsIdx hnull
  have hstep0 := step1_fs K ts tsIdx { ty := NULL_T, attrs := [(ID, "0")] } { heap := hb } o0 0
    (by decide) (by decide) (h0p hb) (by intro h; cases h)
  obtain ⟨m1, hrun1⟩ := pass1_fs K ts cass H tsIdx
    (c.views.map (fun p => renderSofa p.2.sofa) ++ (c.views.map (fun p => renderView H p.2) ++ [])) L es objs
    { heap := hb ++ [o0], fss := [] ++ [((0 : Int), hb.length)], maxId := max 0 0 } htrip hnodup
    (by
      intro q hq
      simp only [List.nil_append, List.map_cons, List.map_nil, List.mem_singleton]
      exact hne0 q hq)
  obtain ⟨m2, m2', hrun2⟩ := pass1_sofa_list K ts tsIdx (c.views.map (fun p => renderView H p.2) ++ []) c.views
    { heap := (hb ++ [o0]) ++ objs, fss := ([] ++ [((0 : Int), hb.length)]) ++ addrsFrom (hb ++ [o0]).length L,
      maxId := m1 }
    hnd (by intro nv _ h; cases h)
  have hrun3 := pass1_view_list K ts tsIdx H [] c.views
    { heap := (hb ++ [o0]) ++ objs, fss := ([] ++ [((0 : Int), hb.length)]) ++ addrsFrom (hb ++ [o0]).length L,
      sofas := [] ++ c.views.map (fun nv => (nv.2.sofa.xid, psofaOf nv)), maxId := m2, maxNum := m2' }
    hnd (by intro nv _ h; cases h)
  refine ⟨fun x => hb.length + 1 + posOf x L,
    { heap := (hb ++ [o0]) ++ objs, fss := ([] ++ [((0 : Int), hb.length)]) ++ addrsFrom (hb ++ [o0]).length L,
      sofas := [] ++ c.views.map (fun nv => (nv.2.sofa.xid, psofaOf nv)),
      views := [] ++ c.views.map (fun nv => (nv.2.sofa.xid, pviewOf H nv)), maxId := m2, maxNum := m2' }, ?_, ?_, ?_⟩
  · rw [hdoc, List.append_assoc, List.append_assoc, List.singleton_append, pass1_cons, hstep0]
    show pass1 K ts tsIdx false _ _ = _
    rw [← List.append_nil (c.views.map (fun p => renderView H p.2))]
    exact hrun1.trans (hrun2.trans (hrun3.trans (pass1_nil K ts tsIdx false _)))
  · rw [← hlen]
    refine ⟨?_, ?_⟩
    · intro q hq q' hq' h
      exact posOf_inj L q.1 q'.1 (List.mem_map_of_mem hq) (List.mem_map_of_mem hq') (by omega)
    · intro q _
      show hb.length < hb.length + 1 + posOf q.1 L
      omega
  · refine ⟨?_, ?_, ?_, rfl, ?_, ?_, ?_⟩
    · show ([] ++ [((0 : Int), hb.length)]) ++ addrsFrom (hb ++ [o0]).length L = _
      rw [addrsFrom_eq L _ hnodup, List.length_append, List.length_singleton, ← hlen]
      rfl
    · show [] ++ c.views.map (fun nv => (nv.2.sofa.xid, psofaOf nv)) = _
      rfl
    · show [] ++ c.views.map (fun nv => (nv.2.sofa.xid, pviewOf H nv)) = _
      rfl
    · show ((hb ++ [o0]) ++ objs).length = _
      rw [List.length_append, List.length_append, List.length_singleton, htrip.length, hlen]
    · refine ⟨o0, ?_, h0ty, h0x, h0s⟩
      show ((hb ++ [o0]) ++ objs)[H.length]? = some o0
      rw [← hlen, List.append_assoc, List.getElem?_append_right (Nat.le_refl _), Nat.sub_self]
      rfl
    · intro q hq
      obtain ⟨e, o1, hget, _, _, _, o, ho, hrel⟩ := htrip.get hnodup q hq
      refine ⟨o, o1, ho, ?_, hrel⟩
      show ((hb ++ [o0]) ++ objs)[hb.length + 1 + posOf q.1 L]? = some o1
      rw [List.getElem?_append_right (by rw [List.length_append, List.length_singleton]; omega),
        List.length_append, List.length_singleton]
      rw [show hb.length + 1 + posOf q.1 L - (hb.length + 1) = posOf q.1 L by omega]
      exact hget

/-- the three passes of the reader over a base heap `hb` of the length of the written heap `H` -/
theorem core_base (K : Consts) (ts : TypeSystem) (cass : List Cas) (ci : Nat) (c : Cas) (hp0 H hb : Heap)
    (L : List (Int × Nat)) (tsIdx ci' : Nat) (doc : XDoc) (es : List XElem) (objs : List Obj)
    (hc : cass[ci]? = some c) (hwf : RTWf c hp0) (hnull : NullOk ts) (hL : LOk K ts c ci H L)
    (htrip : Trip (ElemOk K ts cass H tsIdx) L es objs)
    (hdoc : doc = [{ ty := NULL_T, attrs := [(ID, "0")] }] ++ es ++ c.views.map (fun p => renderSofa p.2.sofa) ++
      c.views.map (fun p => renderView H p.2))
    (hlen : hb.length = H.length)
    (hmem : ∀ nv ∈ c.views, ∀ e ∈ Index.all nv.2.idx, slot H e.oid "sofa" ≠ some .none)
    (hmok : MembersOk c H) :
    ∃ (na : Int → Nat) (p : Pass1) (ld : Loaded),
      pass1 K ts tsIdx false doc { heap := hb } = .ok p ∧
      loadXmi K ts tsIdx ci' false hb doc = .ok ld ∧
      P1Spec ts cass c H L na p ∧
      HeapRel H L na (E3 H na ci') ld.heap ∧
      ld.cas.views.map (viewContent ld.heap) = c.views.map (viewContent H) := by
  obtain ⟨na, p, hp1, hna, hs1⟩ :=
    pass1_flat_base K ts cass c H hb L tsIdx doc es objs hwf.sofa_ids_nodup hnull hL.nodup
      (fun q hq => (hL.ids q hq).2) htrip hdoc hlen
  obtain ⟨hp2, hpost, hlen2, hnull2, hrel2⟩ :=
    postAll_flat K ts cass ci c hp0 H L na tsIdx ci' p hc hwf hnull hL hna hs1
  obtain ⟨ld, hbuild, hrel3, hviews, _⟩ :=
    buildCas_flat_strong K ts cass ci c hp0 H L na ci' p hp2 hc hwf hnull hL hna hs1 hmem hmok hlen2 hnull2 hrel2
  have hload : loadXmi K ts tsIdx ci' false hb doc = .ok ld := by
    unfold loadXmi
    simp only [hp1, hpost, bind, Except.bind]
    exact hbuild
  exact ⟨na, p, ld, hp1, hload, hs1, hrel3, hviews⟩

/-- the round trip of a CAS written in `H`, the document being read over a base heap as long as an extension
    `H ++ J` of `H` -/
theorem concl_pad (K : Consts) (ts : TypeSystem) (cass : List Cas) (ci : Nat) (c : Cas) (hp0 H J hb : Heap)
    (L : List (Int × Nat)) (tsIdx ci' : Nat) (doc : XDoc) (es : List XElem)
    (hc : cass[ci]? = some c) (hwf : RTWf c hp0) (hnull : NullOk ts) (hL : LOk K ts c ci H L)
    (hr : renderAll K ts cass H L = .ok es)
    (hdoc : doc = [{ ty := NULL_T, attrs := [(ID, "0")] }] ++ es ++ c.views.map (fun p => renderSofa p.2.sofa) ++
      c.views.map (fun p => renderView H p.2))
    (hlen : hb.length = H.length + J.length)
    (hmem : ∀ nv ∈ c.views, ∀ e ∈ Index.all nv.2.idx, slot H e.oid "sofa" ≠ some .none)
    (hmok : MembersOk c H) :
    ∃ (p : Pass1) (ld : Loaded),
      pass1 K ts tsIdx false doc { heap := hb } = .ok p ∧
      loadXmi K ts tsIdx ci' false hb doc = .ok ld ∧
      p.fss.map (·.1) = 0 :: L.map (·.1) ∧
      (∀ q ∈ L, ∃ (a' : Nat) (o o' : Obj), lookupFs p.fss q.1 = .ok a' ∧
          H[q.2]? = some o ∧ ld.heap[a']? = some o' ∧ o'.ty = o.ty ∧
          ∀ t : TypeRec, find? ts o.ty = some t → ∀ f ∈ allFeatures t,
            featContent ld.heap a' f.name = featContent H q.2 f.name) ∧
      ld.cas.views.map (viewContent ld.heap) = c.views.map (viewContent H) := by
  obtain ⟨es', objs, hes, htrip⟩ :=
    renderAll_trip K ts cass c ci H tsIdx hc L hL.flat (fun q hq => (hL.ids q hq).1)
  rw [hr] at hes
  cases hes
  have htrip' : Trip (ElemOk K ts cass (H ++ J) tsIdx) L es objs :=
    Trip.imp htrip (fun q hq e o h => elemOk_append J hL tsIdx q hq e o h)
  have hL' := lok_append J hL
  have hviewsEq : c.views.map (fun p => renderView H p.2) = c.views.map (fun p => renderView (H ++ J) p.2) := by
    apply List.map_congr_left
    intro nv hnv
    exact (renderView_append J (fun e he => members_in hL hnv he)).symm
  rw [hviewsEq] at hdoc
  obtain ⟨na, p, ld, hp1, hload, hs1, hrel3, hviews⟩ :=
    core_base K ts cass ci c hp0 (H ++ J) hb L tsIdx ci' doc es objs hc hwf hnull hL' htrip' hdoc
      (by rw [hlen, List.length_append]) (hmem_append J hmok hmem) (membersOk_append J hmok)
  have hxid : ∀ q ∈ L, xidOf ld.heap (na q.1) = some q.1 := by
    intro q hq
    obtain ⟨o, o', _, ho', _, hx, _⟩ := hrel3 q hq
    unfold xidOf; rw [ho']; exact hx
  refine ⟨p, ld, hp1, hload, ?_, ?_, ?_⟩
  · rw [hs1.fss]
    simp only [List.map_cons, List.map_map]
    rfl
  · intro q hq
    obtain ⟨o, o', ho, ho', hty, hx, _, hslots⟩ := hrel3 q hq
    obtain ⟨oH, _, hoH, _⟩ := hL.flat q hq
    have eo : o = oH := by
      have := get_append J hoH
      rw [ho] at this
      exact Option.some.inj this
    subst eo
    have hqm : q.1 ∈ L.map (·.1) := List.mem_map.mpr ⟨q, hq, rfl⟩
    refine ⟨na q.1, o, o', ?_, hoH, ho', hty, ?_⟩
    · rw [hs1.fss]
      exact lookupFs_fss_na na _ _ q.1 hqm (hL.ids q hq).2
    · intro t ht f hf
      rw [← featContent_append J hL hq f.name]
      obtain ⟨o2, t2, ho2, ht2, _, _, _, _, _, _, _, _, _, _, _, hfeat, _⟩ := hL'.flat q hq
      rw [ho] at ho2; cases ho2
      rw [ht] at ht2; cases ht2
      have hff := hfeat f hf
      obtain ⟨_, _, _, _, _, _, _, _, _, _, _, v, hv, _⟩ := hfeat f hf
      have h1 : featContent (H ++ J) q.2 f.name = dvalOf (H ++ J) v := by
        unfold featContent slot Traverse.slot
        rw [ho]; simp only [Option.bind_some, hv, Option.getD_some]
      have h2 : featContent ld.heap (na q.1) f.name = dvalOf ld.heap (exp3 (H ++ J) na ci' v) := by
        unfold featContent slot Traverse.slot
        rw [ho']; simp only [Option.bind_some, hslots f.name v hv, Option.getD_some, E3]
      rw [h1, h2]
      apply dval_exp3 hff v hv
      intro b hb
      subst hb
      obtain ⟨x, hxb, hxl⟩ := hL'.closed q hq o ho f.name b hv
      exact ⟨x, hxb, hxid (x, b) hxl⟩
  · rw [hviews]
    apply List.map_congr_left
    intro nv hnv
    exact viewContent_append J (fun e he => members_in hL hnv he)

end Faithful

/-- **faithfulness of the XMI writer on the flat fragment**: the same document, hence the same content -/
theorem saveXmi_faithful_flat_aux (K : Consts) (ts : TypeSystem)
    (cass₁ cass₂ : List Cas) (ci₁ ci₂ : Nat) (c₁ c₂ : Cas) (hp₁ hp₂ : Heap) (doc : XDoc) (st₁ st₂ : St)
    (hnull : NullOk ts)
    (hc₁ : cass₁[ci₁]? = some c₁) (hwf₁ : RTWf c₁ hp₁) (hsave₁ : saveXmi K ts cass₁ ci₁ hp₁ = .ok (doc, st₁))
    (hflat₁ : ∀ q ∈ st₁.allFs, FlatFs K ts c₁ ci₁ st₁.heap q.2)
    (_hdis₁ : ∀ q ∈ st₁.allFs, ∀ nv ∈ c₁.views, q.1 ≠ nv.2.sofa.xid)
    (hmem₁ : ∀ nv ∈ c₁.views, ∀ e ∈ Index.all nv.2.idx, slot st₁.heap e.oid "sofa" ≠ some .none)
    (hmok₁ : MembersOk c₁ st₁.heap)
    (hc₂ : cass₂[ci₂]? = some c₂) (hwf₂ : RTWf c₂ hp₂) (hsave₂ : saveXmi K ts cass₂ ci₂ hp₂ = .ok (doc, st₂))
    (hflat₂ : ∀ q ∈ st₂.allFs, FlatFs K ts c₂ ci₂ st₂.heap q.2)
    (_hdis₂ : ∀ q ∈ st₂.allFs, ∀ nv ∈ c₂.views, q.1 ≠ nv.2.sofa.xid)
    (hmem₂ : ∀ nv ∈ c₂.views, ∀ e ∈ Index.all nv.2.idx, slot st₂.heap e.oid "sofa" ≠ some .none)
    (hmok₂ : MembersOk c₂ st₂.heap) :
    (sortById st₁.allFs).map (·.1) = (sortById st₂.allFs).map (·.1) ∧
    (∀ q₁ ∈ st₁.allFs, ∀ q₂ ∈ st₂.allFs, q₁.1 = q₂.1 →
      ∃ o₁ o₂ : Obj, st₁.heap[q₁.2]? = some o₁ ∧ st₂.heap[q₂.2]? = some o₂ ∧ o₁.ty = o₂.ty ∧
        ∀ t : TypeRec, find? ts o₁.ty = some t → ∀ f ∈ allFeatures t,
          featContent st₁.heap q₁.2 f.name = featContent st₂.heap q₂.2 f.name) ∧
    c₁.views.map (viewContent st₁.heap) = c₂.views.map (viewContent st₂.heap) := by
  have hL₁ := lok_of_save hc₁ hwf₁ hsave₁ hflat₁
  have hL₂ := lok_of_save hc₂ hwf₂ hsave₂ hflat₂
  obtain ⟨es₁, hr₁, hdoc₁⟩ := saveXmi_doc K ts cass₁ ci₁ c₁ hp₁ doc st₁ hc₁ hsave₁
  obtain ⟨es₂, hr₂, hdoc₂⟩ := saveXmi_doc K ts cass₂ ci₂ c₂ hp₂ doc st₂ hc₂ hsave₂
  -- both documents are read over the same base heap, as long as both extended heaps
  obtain ⟨p, ld, hp1, hload, hf₁, hq₁, hv₁⟩ :=
    Faithful.concl_pad K ts cass₁ ci₁ c₁ hp₁ st₁.heap st₂.heap (st₁.heap ++ st₂.heap) (sortById st₁.allFs) 0 0 doc es₁
      hc₁ hwf₁ hnull hL₁ hr₁ hdoc₁ (by rw [List.length_append]) hmem₁ hmok₁
  obtain ⟨p', ld', hp1', hload', hf₂, hq₂, hv₂⟩ :=
    Faithful.concl_pad K ts cass₂ ci₂ c₂ hp₂ st₂.heap st₁.heap (st₁.heap ++ st₂.heap) (sortById st₂.allFs) 0 0 doc es₂
      hc₂ hwf₂ hnull hL₂ hr₂ hdoc₂ (by rw [List.length_append, Nat.add_comm]) hmem₂ hmok₂
  rw [hp1] at hp1'
  cases hp1'
  rw [hload] at hload'
  cases hload'
  refine ⟨?_, ?_, ?_⟩
  · rw [hf₁] at hf₂
    exact (List.cons.inj hf₂).2
  · intro q₁ hm₁ q₂ hm₂ hid
    obtain ⟨a₁, o₁, o₁', hl₁, ho₁, ho₁', hty₁, hfc₁⟩ := hq₁ q₁ (mem_sortById.mpr hm₁)
    obtain ⟨a₂, o₂, o₂', hl₂, ho₂, ho₂', hty₂, hfc₂⟩ := hq₂ q₂ (mem_sortById.mpr hm₂)
    rw [hid, hl₂] at hl₁
    cases hl₁
    rw [ho₂'] at ho₁'
    cases ho₁'
    have hty : o₁.ty = o₂.ty := hty₁.symm.trans hty₂
    refine ⟨o₁, o₂, ho₁, ho₂, hty, ?_⟩
    intro t ht f hf
    exact (hfc₁ t ht f hf).symm.trans (hfc₂ t (by rw [← hty]; exact ht) f hf)
  · rw [← hv₁, hv₂]

/-! ### Non-vacuity: the instance of `Proofs/RoundTripDemo.lean` against itself -/

example : ∃ (doc : XDoc) (st : St),
    saveXmi Demo.K Demo.demoTS [Demo.demo.1] 0 Demo.demo.2 = .ok (doc, st) ∧
    (sortById st.allFs).map (·.1) = (sortById st.allFs).map (·.1) ∧
    Demo.demo.1.views.map (viewContent st.heap) = Demo.demo.1.views.map (viewContent st.heap) := by
  obtain ⟨doc, st, hs, hc, hwf, hn, hf, hd, hm, hmo⟩ := Demo.demo_hyps
  obtain ⟨h1, _, h3⟩ := saveXmi_faithful_flat_aux Demo.K Demo.demoTS [Demo.demo.1] [Demo.demo.1] 0 0 Demo.demo.1 Demo.demo.1
    Demo.demo.2 Demo.demo.2 doc st st hn hc hwf hs hf hd hm hmo hc hwf hs hf hd hm hmo
  exact ⟨doc, st, hs, h1, h3⟩

end Cassis.Xmi
