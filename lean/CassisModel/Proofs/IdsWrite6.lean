/-
C09, document level (6): no false alarm.  With ids below the generator (`IdsBelow`, the C09 state invariant), id
generation on and all reachable structures `Expandable`, the traversal succeeds unless two different reachable
structures carry one id: the `ValueError` is raised exactly for a reachable duplicate.
-/
import CassisModel.Proofs.IdsWrite2

namespace Cassis.Traverse
open Cassis.TS

/-- what the run knows about ids: relation to the initial heap, ids below the generator, and every id assigned
    during the run is registered in `allFs` -/
structure NInv (hp0 : Heap) (nx0 : Int) (s : St) : Prop where
  fut : Fut hp0 nx0 s.heap s.nextXid
  below : IdsBelow s.heap s.nextXid
  assigned : ∀ a x, xidOf hp0 a = none → xidOf s.heap a = some x → (x, a) ∈ s.allFs

theorem ninv_step (K : Consts) (ts : TypeSystem) (o : Opts) (hp0 : Heap) (nx0 : Int) (lf : Nat) (s : St) (a : Nat)
    (rest : List Nat) (s' : St) (hpos : 0 < s.nextXid) (ni : NInv hp0 nx0 s)
    (h : step K ts o lf s a rest = .ok s') : NInv hp0 nx0 s' := by
  obtain ⟨f1, b1⟩ := step_fut K ts o lf s a rest s' hpos ni.below h
  refine ⟨ni.fut.trans f1, b1, ?_⟩
  obtain ⟨ob, x, hob, hstep, _, hcase⟩ := step_cases K ts o lf s a rest s' h
  have hsub : ∀ p, p ∈ s.allFs → p ∈ s'.allFs := by
    intro p hp
    rcases hcase with ⟨hall, _⟩ | ⟨_, _, _, _, _, _, hall, _⟩
    · rw [hall]; exact hp
    · rw [hall]; exact List.mem_append_left _ hp
  intro c y hc0 hc'
  rcases hstep with ⟨_, hheap⟩ | ⟨_, hx, hheap⟩
  · rw [hheap] at hc'
    exact hsub _ (ni.assigned c y hc0 hc')
  · by_cases hac : a = c
    · subst hac
      rw [hheap, xidOf_set_self hob] at hc'
      cases hc'
      rcases hcase with ⟨hall, _, _, hwhy⟩ | ⟨_, _, _, _, _, _, hall, _⟩
      · rcases hwhy with h0 | ⟨y, hy, rfl⟩
        · omega
        · rw [hall, ← hx]; exact hy
      · rw [hall, hx]
        exact List.mem_append_right _ (List.mem_singleton.mpr rfl)
    · rw [hheap, xidOf_set_ne _ hac] at hc'
      exact hsub _ (ni.assigned c y hc0 hc')

/-- a failing `stepCore` on an expandable structure is the duplicate report -/
theorem stepCore_error_dup (K : Consts) (ts : TypeSystem) (o : Opts) (hp0 : Heap) (lf : Nat) (s : St) (a : Nat)
    (rest : List Nat) (x : Int) (ty : String) (hslot : ∀ b n, slot s.heap b n = slot hp0 b n)
    (t : TypeRec) (r : List Nat × Nat) (ht : getType ts ty = .ok t) (hn : nodeSuccs K ts o hp0 [] lf a t = .ok r)
    (e : Err) (h : stepCore K ts o lf s a rest x ty = .error e) :
    x ≠ 0 ∧ ∃ b, (x, b) ∈ s.allFs ∧ b ≠ a := by
  unfold stepCore at h
  rw [ht] at h
  simp only [nodeSuccs_filter K ts o s.heap hp0 hslot _ lf a t, hn, filt] at h
  split at h
  · cases h
  · rename_i hx0
    refine ⟨by simpa using hx0, ?_⟩
    split at h
    · rename_i y b hf
      split at h
      · cases h
      · rename_i hba
        have hm := List.mem_of_find?_eq_some hf
        have hy : y = x := by simpa using List.find?_some hf
        rw [hy] at hm
        exact ⟨b, hm, by simpa using hba⟩
    · cases h

theorem step_no_dup_error (K : Consts) (ts : TypeSystem) (o : Opts) (hp0 : Heap) (nx0 : Int) (lf n0 : Nat)
    (seeds : List Nat) (s : St) (a : Nat) (rest : List Nat) (hgen : o.generateIds = true)
    (hb0 : IdsBelow hp0 nx0) (hnd : ¬ ReachableDuplicate K ts o hp0 seeds) (hlf : lf = hp0.length + 1)
    (inv : Inv K ts o hp0 lf n0 s) (r : RInv K ts o hp0 lf seeds s) (ni : NInv hp0 nx0 s)
    (ho : s.openl = a :: rest) (hexp : Expandable K ts o hp0 lf a) (e : Err) :
    step K ts o lf s a rest ≠ .error e := by
  intro h
  obtain ⟨ob0, hob0, hcase⟩ := hexp
  obtain ⟨ob, hob, hty, _, hxid⟩ := inv.shape.2 a ob0 hob0
  have hslot : ∀ b n, slot s.heap b n = slot hp0 b n := fun b n => inv.shape.slot b n
  have hra : Reach K ts o hp0 lf seeds a :=
    Reach.back inv.shape (r.sound a (Or.inr (by rw [ho]; exact List.mem_cons_self)))
  cases hx : ob.xid with
  | some x =>
    rw [step_some K ts o lf s a rest ob x hob hx] at h
    rcases hcase with h0 | ⟨t, r0, ht, hn⟩
    · have := hxid (by rw [h0]; exact fun e => nomatch e)
      rw [h0, hx] at this
      cases this
      unfold stepCore at h
      simp at h
    · obtain ⟨hx0, b, hm, hba⟩ :=
        stepCore_error_dup K ts o hp0 lf s a rest x ob.ty hslot t r0 (by rw [hty]; exact ht) hn e h
      have hxa : xidOf s.heap a = some x := by unfold xidOf; rw [hob]; exact hx
      have hxb : xidOf s.heap b = some x := inv.link x b hm
      have hrb : Reach K ts o hp0 lf seeds b :=
        Reach.back inv.shape (r.sound b (Or.inl (List.mem_map.mpr ⟨(x, b), hm, rfl⟩)))
      -- `a` carried `x` from the start: otherwise it is registered under `x`, like `b`
      cases ha0 : xidOf hp0 a with
      | none => exact hba (key_unique inv.nodupK hm (ni.assigned a x ha0 hxa))
      | some ya =>
        have e1 := inv.shape.xidOf ha0
        rw [hxa] at e1
        cases e1
        cases hb0' : xidOf hp0 b with
        | none =>
          have h1 := ni.fut.fresh b x hb0' hxb
          have h2 := (idsBelow_iff hp0 nx0).mp hb0 a x ha0
          omega
        | some yb =>
          have e2 := inv.shape.xidOf hb0'
          rw [hxb] at e2
          cases e2
          subst hlf
          exact hnd ⟨a, b, x, fun e => hba e.symm, hx0, hra, hrb, ha0, hb0'⟩
  | none =>
    rw [step_none K ts o lf s a rest ob hob hx (by have := r.pos; omega)] at h
    rw [if_pos hgen] at h
    rcases hcase with h0 | ⟨t, r0, ht, hn⟩
    · have := hxid (by rw [h0]; exact fun e => nomatch e)
      rw [h0, hx] at this
      cases this
    · have hslot' : ∀ b n, slot (s.heap.set a { ob with xid := some s.nextXid }) b n = slot hp0 b n :=
        fun b n => (slot_set_xid hob _ b n).trans (hslot b n)
      obtain ⟨_, b, hm, _⟩ := stepCore_error_dup K ts o hp0 lf
        { s with nextXid := s.nextXid + 1, heap := s.heap.set a { ob with xid := some s.nextXid } }
        a rest s.nextXid ob.ty hslot' t r0 (by rw [hty]; exact ht) hn e h
      have hxb : xidOf s.heap b = some s.nextXid := inv.link _ b hm
      have := (idsBelow_iff s.heap s.nextXid).mp ni.below b _ hxb
      omega

theorem run_no_error (K : Consts) (ts : TypeSystem) (o : Opts) (hp0 : Heap) (nx0 : Int) (n0 : Nat) (seeds : List Nat)
    (hgen : o.generateIds = true) (hb0 : IdsBelow hp0 nx0) (hnd : ¬ ReachableDuplicate K ts o hp0 seeds)
    (hsafe : ∀ c, Reach K ts o hp0 (hp0.length + 1) seeds c → Expandable K ts o hp0 (hp0.length + 1) c)
    (f : Nat) (s : St) (inv : Inv K ts o hp0 (hp0.length + 1) n0 s) (r : RInv K ts o hp0 (hp0.length + 1) seeds s)
    (ni : NInv hp0 nx0 s) (hf : n0 + totalOut K ts o hp0 (hp0.length + 1) ≤ f + s.pops) (e : Err) :
    run K ts o (hp0.length + 1) f s ≠ .error e := by
  induction f generalizing s with
  | zero =>
    intro h
    unfold run at h
    have h1 := inv.count
    have h2 := inv.pot
    have : s.openl.length = 0 := by omega
    have : s.openl = [] := List.eq_nil_of_length_eq_zero this
    rw [this] at h
    cases h
  | succ f ih =>
    intro h
    unfold run at h
    split at h
    · cases h
    · rename_i a rest ho
      cases hs : step K ts o (hp0.length + 1) s a rest with
      | error e' =>
        have hra : Reach K ts o s.heap (hp0.length + 1) seeds a := r.sound a (Or.inr (by rw [ho]; exact List.mem_cons_self))
        exact step_no_dup_error K ts o hp0 nx0 _ n0 seeds s a rest hgen hb0 hnd rfl inv r ni ho
          (hsafe a (Reach.back inv.shape hra)) e' hs
      | ok s1 =>
        rw [hs] at h
        obtain ⟨inv1, hp1⟩ := inv_step K ts o hp0 _ n0 s a rest s1 ho inv hs
        exact ih s1 inv1 (rinv_step K ts o hp0 _ n0 seeds s a rest s1 ho inv r hs)
          (ninv_step K ts o hp0 nx0 _ s a rest s1 r.pos ni hs) (by rw [hp1]; omega) h

theorem findAllFs_ok_of_no_duplicate_aux (K : Consts) (ts : TypeSystem) (o : Opts) (hp : Heap) (nx : Int)
    (seeds : List Nat) (hnx : 0 < nx) (hgen : o.generateIds = true) (hb : IdsBelow hp nx)
    (hsafe : ∀ c, Reach K ts o hp (hp.length + 1) seeds c → Expandable K ts o hp (hp.length + 1) c)
    (hnd : ¬ ReachableDuplicate K ts o hp seeds) : ∃ st, findAllFs K ts o hp nx seeds = .ok st := by
  cases h : findAllFs K ts o hp nx seeds with
  | ok st => exact ⟨st, rfl⟩
  | error e =>
    exfalso
    refine run_no_error K ts o hp nx seeds.length seeds hgen hb hnd hsafe _ _ (inv_init K ts o hp _ nx seeds)
      (rinv_init K ts o hp _ nx seeds hnx) ⟨Fut.refl _ _, hb, ?_⟩ (Nat.le_refl _) e h
    intro a x h0 h1
    rw [h0] at h1
    cases h1

/-- **the duplicate report is exact** -/
theorem findAllFs_ok_iff_aux (K : Consts) (ts : TypeSystem) (o : Opts) (hp : Heap) (nx : Int)
    (seeds : List Nat) (hnx : 0 < nx) (hgen : o.generateIds = true) (hb : IdsBelow hp nx)
    (hsafe : ∀ c, Reach K ts o hp (hp.length + 1) seeds c → Expandable K ts o hp (hp.length + 1) c) :
    (∃ st, findAllFs K ts o hp nx seeds = .ok st) ↔ ¬ ReachableDuplicate K ts o hp seeds := by
  constructor
  · rintro ⟨st, h⟩ hd
    exact findAllFs_duplicate_not_ok_aux K ts o hp nx seeds hnx hd st h
  · exact findAllFs_ok_of_no_duplicate_aux K ts o hp nx seeds hnx hgen hb hsafe

end Cassis.Traverse
