/-
Proof of `Properties/C13FeatInv.lean`: every successful merge keeps the feature bookkeeping invariant `FeatInv`
(C11) — including the merges that re-parent a type together with its subtypes (parts A–D).
-/
import CassisModel.Proofs.MergeFeatInvD

namespace Cassis.TS

theorem featInv_addOwnFeatures (name : String) : ∀ (fs : List Feature) (ts ts' : TypeSystem),
    Consistent ts → FeatInv ts → addOwnFeatures ts name fs = .ok ts' → FeatInv ts' := by
  intro fs
  induction fs with
  | nil => intro ts ts' _ hf h; simp only [addOwnFeatures] at h; cases h; exact hf
  | cons f fs ih =>
    intro ts ts' hc hf h
    simp only [addOwnFeatures] at h
    split at h
    · cases h
    · rename_i ts1 h1
      exact ih ts1 ts' (consistent_addFeature_aux ts ts1 name _ hc h1) (featInv_addFeature_aux ts ts1 name _ hc hf h1) h

theorem featInv_processDecl (K : Consts) (s s' : MState) (d : Decl) (hc : Consistent s.ts) (hf : FeatInv s.ts)
    (h : processDecl K s d = .ok s') : FeatInv s'.ts := by
  cases hx : hasExact s.ts d.name with
  | false =>
    obtain ⟨ts1, h1, h2⟩ := processDecl_new_aux K s s' d hx h
    exact featInv_addOwnFeatures _ _ _ _ (consistent_createType_aux K _ _ _ _ _ hc hx h1)
      (featInv_createType_aux K _ _ _ _ _ hc hf hx h1) h2
  | true =>
    obtain ⟨ex, he⟩ := (hasExact_iff_find _ _).mp hx
    rcases processDecl_ex_cases K s s' d ex he h with ⟨_, ha⟩ | ⟨hne, hsub, ts1, hr, ha⟩ | ⟨_, _, _, ha⟩
    · exact featInv_addOwnFeatures _ _ _ _ hc hf ha
    · obtain ⟨hs, ns, hns, _⟩ := reparent_ok _ _ _ _ _ hr
      have hsup : ex.super = some (ex.super.getD "") := by
        cases hsx : ex.super with
        | some o => rfl
        | none =>
          have := hc.onlyRoot ex (find?_mem he) hsx
          rw [find?_name he] at this
          rw [this, subsumes_top] at hs; cases hs
      have hrego : hasExact s.ts (ex.super.getD "") = true := hc.superReg ex (find?_mem he) _ hsup
      have hregn : hasExact s.ts d.super = true := (hasExact_iff_find _ _).mpr ⟨ns, hns⟩
      have hanc : Anc s.ts (ex.super.getD "") d.super :=
        (subsumes_iff_ancestor_aux s.ts hc _ _ hrego hregn).mp hsub
      have hc1 := consistent_reparent _ _ _ _ _ ex hc he rfl hne hr
      have hf1 := featInv_reparent _ _ _ _ _ ex hc hf he hsup hne hanc hr
      exact featInv_addOwnFeatures _ _ _ _ hc1 hf1 ha
    · exact featInv_addOwnFeatures _ _ _ _ hc hf ha

theorem featInv_mergeRound (K : Consts) : ∀ (ds : List Decl) (s s' : MState) (n n' : Nat),
    Consistent s.ts → FeatInv s.ts → mergeRound K ds s n = .ok (s', n') → FeatInv s'.ts := by
  intro ds
  induction ds with
  | nil => intro s s' n n' _ hf h; simp only [mergeRound] at h; cases h; exact hf
  | cons d ds ih =>
    intro s s' n n' hc hf h
    simp only [mergeRound] at h
    split at h
    · split at h
      · cases h
      · rename_i s1 hp
        exact ih s1 s' _ n' (consistent_processDecl K s s1 d hc hp) (featInv_processDecl K s s1 d hc hf hp) h
    · exact ih s s' n n' hc hf h

theorem featInv_mergeLoop (K : Consts) (decls : List Decl) : ∀ (fuel : Nat) (s s' : MState),
    Consistent s.ts → FeatInv s.ts → mergeLoop K decls fuel s = .ok s' → FeatInv s'.ts := by
  intro fuel
  induction fuel with
  | zero => intro s s' _ _ h; simp only [mergeLoop] at h; cases h
  | succ fuel ih =>
    intro s s' hc hf h
    simp only [mergeLoop] at h
    split at h
    · cases h
    · rename_i s1 n hr
      have hc1 := consistent_mergeRound K decls s s1 0 n hc hr
      have hf1 := featInv_mergeRound K decls s s1 0 n hc hf hr
      split at h
      · cases h; exact hf1
      · exact ih s1 s' hc1 hf1 h

theorem merge_featInv_aux (K : Consts) (base ts' : TypeSystem) (decls : List Decl)
    (hc : Consistent base) (hf : FeatInv base) (h : mergeDecls K base decls = .ok ts') : FeatInv ts' := by
  obtain ⟨s', hs, rfl⟩ := mergeDecls_ok K base ts' decls h
  exact featInv_mergeLoop K decls _ _ s' hc hf hs

end Cassis.TS
