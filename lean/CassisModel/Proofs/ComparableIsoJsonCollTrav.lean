/-
C20 across the JSON round trip, whole format, layer 3b: the two default traversals `cas_to_comparable_text` runs — on the
original heap `hp` (result `std`; it assigns ids of its own, in its own order, to the structures it collects) and on the
loaded heap `HF` — against the structures `L` the JSON writer collected (in `H`, the heap after *its* id assignment).

* `DCtx.sub`: the default traversal of the original collects structures of `L` only;
* `DCtx.key`: in the heap it leaves behind, a collected structure shares its id with no other structure of `L`;
* `DCtx.traversal`: the default traversal of the loaded CAS succeeds without touching the heap and collects exactly the
  counterparts of what the default traversal of the original collects.
-/
import CassisModel.Proofs.ComparableIsoJsonCollNode
import CassisModel.Proofs.ComparableIsoJsonCollRun
import CassisModel.Proofs.RoundTripJsonFixTrav
import CassisModel.Proofs.RoundTripFixTrav

namespace Cassis.Comparable
open Cassis.TS Cassis.Traverse Cassis.Xmi Cassis.Json Cassis.Json.CC

/-- the situation after `saveJson` (`H`, `L`), `loadJson` (`HF`, `c'`) and the default traversal of the original (`std`) -/
structure DCtx (K : Consts) (ts : TypeSystem) (c : Cas) (ci : Nat) (hp H : Heap) (L : List (Int × Nat)) (ci' : Nat)
    (HF : Heap) (c' : Cas) (std : St) : Prop where
  jw : JW K ts c ci H L ci' HF
  wf : RTWf c hp
  shape : SameShape hp H
  views : ViewsRelJ H (naOf H L) c.views c'.views
  run : findAllFs K ts {} hp c.nextXid (defaultSeeds c) = .ok std

section
variable {K : Consts} {ts : TypeSystem} {c : Cas} {ci : Nat} {hp H : Heap} {L : List (Int × Nat)} {ci' : Nat}
  {HF : Heap} {c' : Cas} {std : St}

theorem inL_pair {b : Nat} (h : InL H L b) : ∃ q ∈ L, q.2 = b ∧ xidOf H b = some q.1 := by
  obtain ⟨y, hy, hyl⟩ := h
  exact ⟨(y, b), hyl, rfl, hy⟩

/-- the successors of a collected structure (default options) are collected structures -/
theorem JW.succsOf_inL (x : JW K ts c ci H L ci' HF) {q : Int × Nat} (hq : q ∈ L) {lf b : Nat}
    (hb : b ∈ succsOf K ts {} H lf q.2) : InL H L b := by
  obtain ⟨o, _, ho, _⟩ := x.obj hq
  unfold succsOf at hb
  rw [ho] at hb
  simp only at hb
  cases ht : getType ts o.ty with
  | error e => rw [ht] at hb; cases hb
  | ok t =>
    rw [ht] at hb
    simp only at hb
    cases hn : nodeSuccs K ts {} H [] lf q.2 t with
    | error e => rw [hn] at hb; cases hb
    | ok r =>
      rw [hn] at hb
      exact (x.sim_node hq ho ht (Nat.le_refl lf) (ps := r.1) (n := r.2) hn).1 b hb

theorem DCtx.shapeD (X : DCtx K ts c ci hp H L ci' HF c' std) : SameShape hp std.heap :=
  (findAllFs_inv K ts {} hp c.nextXid _ std X.run).1.shape

theorem DCtx.len (X : DCtx K ts c ci hp H L ci' HF c' std) : H.length = hp.length := X.shape.1

/-- `succsOf` in the three heaps of the written side -/
theorem DCtx.succs_H (X : DCtx K ts c ci hp H L ci' HF c' std) (lf a : Nat) :
    succsOf K ts {} std.heap lf a = succsOf K ts {} H lf a := by
  rw [succsOf_shape K ts {} X.shapeD, succsOf_shape K ts {} X.shape]

theorem DCtx.fut (X : DCtx K ts c ci hp H L ci' HF c' std) : Fut hp c.nextXid std.heap std.nextXid := by
  have h := X.run
  unfold findAllFs at h
  exact (run_fut K ts {} _ _ { heap := hp, nextXid := c.nextXid, openl := defaultSeeds c } std X.wf.next_pos
    X.wf.ids_below h).1

/-- no structure carries the id 0 after the default traversal -/
theorem DCtx.nonnull (X : DCtx K ts c ci hp H L ci' HF c' std) (a : Nat) : xidOf std.heap a ≠ some 0 := by
  have hfut := X.fut
  intro h
  cases hx : xidOf hp a with
  | none =>
    have := hfut.fresh a 0 hx h
    have := X.wf.next_pos
    omega
  | some y =>
    rw [hfut.shape.xidOf hx] at h
    cases h
    unfold xidOf at hx
    cases hob : hp[a]? with
    | none => rw [hob] at hx; cases hx
    | some ob =>
      rw [hob] at hx
      have := X.wf.ids_pos a ob 0 hob hx
      omega

/-- **the default traversal of the original collects structures of `L` only** -/
theorem DCtx.reach_inL (X : DCtx K ts c ci hp H L ci' HF c' std) {a : Nat}
    (hr : Reach K ts {} std.heap (hp.length + 1) (defaultSeeds c) a) : InL H L a := by
  induction hr with
  | seed a hs =>
    obtain ⟨nv, hnv, ha⟩ := List.mem_flatMap.mp (show a ∈ defaultSeeds c from hs)
    obtain ⟨e, he, rfl⟩ := List.mem_map.mp ha
    obtain ⟨y, hy⟩ := X.jw.lok.members nv hnv e he
    exact ⟨y, (X.jw.lok.ids _ hy).1, hy⟩
  | step a b _ _ hsucc ih =>
    obtain ⟨q, hq, rfl, _⟩ := inL_pair ih
    rw [X.succs_H] at hsucc
    exact X.jw.succsOf_inL hq hsucc

theorem DCtx.sub (X : DCtx K ts c ci hp H L ci' HF c' std) {a : Nat} (ha : a ∈ std.allFs.map (·.2)) : InL H L a :=
  X.reach_inL (findAllFs_sound_aux K ts {} hp c.nextXid _ std X.wf.next_pos X.run a ha)

/-- the successor computation of a collected structure succeeds in `H` -/
theorem DCtx.succ_ok (X : DCtx K ts c ci hp H L ci' HF c' std) {a : Nat} (ha : a ∈ std.allFs.map (·.2)) :
    ∃ (o : Obj) (t : TypeRec) (ps : List Nat) (n : Nat), H[a]? = some o ∧ getType ts o.ty = .ok t ∧
      nodeSuccs K ts {} H [] (hp.length + 1) a t = .ok (ps, n) := by
  obtain ⟨p, hp1, rfl⟩ := List.mem_map.mp ha
  obtain ⟨ob, t, r, hob, ht, hn⟩ :=
    (findAllFs_cinv K ts {} hp c.nextXid _ std X.wf.next_pos X.run).succ p.1 p.2 hp1
  obtain ⟨o, ho, hty, _⟩ := X.shape.2 p.2 ob hob
  refine ⟨o, t, r.1, r.2, ho, by rw [hty]; exact ht, ?_⟩
  rw [nodeSuccs_nil_eq K ts {} H hp (fun a n => X.shape.slot a n)]
  exact hn

/-- **ids after the default traversal**: a collected structure shares its id with no other structure of `L` -/
theorem DCtx.key (X : DCtx K ts c ci hp H L ci' HF c' std) {q : Int × Nat} (hq : q ∈ L) {b : Nat}
    (hb : b ∈ std.allFs.map (·.2)) (h : xidOf std.heap b = xidOf std.heap q.2) : b = q.2 := by
  obtain ⟨inv, _⟩ := findAllFs_inv K ts {} hp c.nextXid _ std X.run
  have cinv := findAllFs_cinv K ts {} hp c.nextXid _ std X.wf.next_pos X.run
  have hfut := X.fut
  have hbelow := (idsBelow_iff hp c.nextXid).mp X.wf.ids_below
  obtain ⟨p, hp1, rfl⟩ := List.mem_map.mp hb
  have hxb : xidOf std.heap p.2 = some p.1 := inv.link p.1 p.2 hp1
  rw [hxb] at h
  by_cases hqa : q.2 ∈ std.allFs.map (·.2)
  · obtain ⟨p', hp1', hp2'⟩ := List.mem_map.mp hqa
    have hxq : xidOf std.heap p'.2 = some p'.1 := inv.link p'.1 p'.2 hp1'
    rw [← hp2', hxq] at h
    have e : p.1 = p'.1 := Option.some.inj h
    rw [pair_eq_of_nodup_fst _ inv.nodupK p hp1 p' hp1' e, hp2']
  · -- `q.2` is not collected: it keeps its old id, which is below the generator
    have hold : xidOf hp q.2 = some p.1 := by rw [← cinv.untouched q.2 hqa]; exact h.symm
    have hlt := hbelow q.2 p.1 hold
    cases hxp : xidOf hp p.2 with
    | none =>
      have := hfut.fresh p.2 p.1 hxp hxb
      omega
    | some y =>
      have e : y = p.1 := by
        have := hfut.shape.xidOf hxp
        rw [hxb] at this
        exact (Option.some.inj this).symm
      subst e
      -- both carry the id in `hp`, hence in `H`, where the ids of `L` are pairwise different
      have h1 : xidOf H p.2 = some p.1 := X.shape.xidOf hxp
      have h2 : xidOf H q.2 = some p.1 := X.shape.xidOf hold
      obtain ⟨q', hq', hq2', hx'⟩ := inL_pair (X.sub hb)
      rw [h1] at hx'
      have e1 : q'.1 = q.1 := by
        have := (X.jw.lok.ids q hq).1
        rw [h2] at this
        rw [← Option.some.inj hx', Option.some.inj this]
      rw [← hq2', pair_eq_of_nodup_fst L X.jw.lok.nodup q' hq' q hq e1]

/-! ### seeds -/

theorem DCtx.seed_fwd (X : DCtx K ts c ci hp H L ci' HF c' std) {a : Nat} (ha : a ∈ defaultSeeds c') :
    ∃ q ∈ L, a = naOf H L q.1 ∧ q.2 ∈ defaultSeeds c := by
  unfold defaultSeeds at ha
  obtain ⟨nv', hnv', ha⟩ := List.mem_flatMap.mp ha
  obtain ⟨nv, hnv, hr⟩ := viewsRelJ_bwd H _ _ _ X.views nv' hnv'
  have hperm := hr.2.2
  have := hperm.mem_iff.mp ha
  obtain ⟨m, hm, rfl⟩ := List.mem_map.mp this
  obtain ⟨e0, he0, hx0⟩ := mem_members.mp hm
  obtain ⟨y, hy⟩ := X.jw.lok.members nv hnv e0 he0
  have := (X.jw.lok.ids _ hy).1
  rw [show ((y, e0.oid) : Int × Nat).2 = e0.oid from rfl, hx0] at this
  cases this
  refine ⟨_, hy, rfl, ?_⟩
  unfold defaultSeeds
  exact List.mem_flatMap.mpr ⟨nv, hnv, List.mem_map.mpr ⟨e0, he0, rfl⟩⟩

theorem DCtx.seed_bwd (X : DCtx K ts c ci hp H L ci' HF c' std) {q : Int × Nat} (hq : q ∈ L)
    (ha : q.2 ∈ defaultSeeds c) : naOf H L q.1 ∈ defaultSeeds c' := by
  unfold defaultSeeds at ha ⊢
  obtain ⟨nv, hnv, ha⟩ := List.mem_flatMap.mp ha
  obtain ⟨e, he, he2⟩ := List.mem_map.mp ha
  obtain ⟨nv', hnv', hr⟩ := viewsRelJ_fwd H _ _ _ X.views nv hnv
  have hperm := hr.2.2
  refine List.mem_flatMap.mpr ⟨nv', hnv', hperm.mem_iff.mpr ?_⟩
  refine List.mem_map.mpr ⟨q.1, mem_members.mpr ⟨e, he, ?_⟩, rfl⟩
  rw [he2]
  exact (X.jw.lok.ids q hq).1

/-- new addresses are pairwise different -/
theorem JW.na_inj (x : JW K ts c ci H L ci' HF) {q q' : Int × Nat} (hq : q ∈ L) (hq' : q' ∈ L)
    (e : naOf H L q.1 = naOf H L q'.1) : q = q' := by
  have h := xid_new x.rel hq
  rw [e, xid_new x.rel hq'] at h
  exact pair_eq_of_nodup_fst L x.lok.nodup q hq q' hq' (Option.some.inj h).symm

theorem JW.phi (x : JW K ts c ci H L ci' HF) {q : Int × Nat} (hq : q ∈ L) :
    phiOf H (naOf H L) q.2 = naOf H L q.1 := phiOf_inL (x.lok.ids q hq).1

/-! ### the default traversal of the loaded CAS -/

/-- the structures the default traversal of the loaded CAS may touch: the counterparts of what the default traversal
    of the original collects -/
def ImgD (H : Heap) (L : List (Int × Nat)) (std : St) (a' : Nat) : Prop :=
  ∃ q ∈ L, q.2 ∈ std.allFs.map (·.2) ∧ a' = naOf H L q.1

theorem DCtx.collected_of_reach (X : DCtx K ts c ci hp H L ci' HF c' std) {a : Nat}
    (hr : Reach K ts {} std.heap (hp.length + 1) (defaultSeeds c) a) : a ∈ std.allFs.map (·.2) :=
  findAllFs_complete_aux K ts {} hp c.nextXid _ std X.wf.next_pos X.run a hr (X.nonnull a)

/-- the successors of a collected structure, on both sides -/
theorem DCtx.succs_both (X : DCtx K ts c ci hp H L ci' HF c' std) {q : Int × Nat} (hq : q ∈ L)
    (ha : q.2 ∈ std.allFs.map (·.2)) :
    ∃ (o' : Obj) (t : TypeRec) (ps : List Nat) (n : Nat), HF[naOf H L q.1]? = some o' ∧ o'.xid = some q.1 ∧
      getType ts o'.ty = .ok t ∧
      nodeSuccs K ts {} HF [] (HF.length + 1) (naOf H L q.1) t = .ok (ps.map (phiOf H (naOf H L)), n) ∧
      succsOf K ts {} std.heap (hp.length + 1) q.2 = ps ∧
      (∀ b ∈ ps, InL H L b ∧ b ∈ std.allFs.map (·.2)) := by
  obtain ⟨o, t, ps, n, ho, ht, hn⟩ := X.succ_ok ha
  obtain ⟨o1, o', ho1, ho', hty, hxid⟩ := X.jw.obj hq
  rw [ho] at ho1; cases ho1
  have hle : hp.length + 1 ≤ HF.length + 1 := by
    have := len_lt X.jw.rel hq
    have := X.len
    omega
  obtain ⟨s1, s2⟩ := X.jw.sim_node hq ho ht hle hn
  have hs : succsOf K ts {} std.heap (hp.length + 1) q.2 = ps := by
    rw [X.succs_H]; exact succsOf_eq K ts {} ho ht hn
  refine ⟨o', t, ps, n, ho', hxid, by rw [hty]; exact ht, s2, hs, fun b hb => ⟨s1 b hb, ?_⟩⟩
  obtain ⟨p, hp1, hp2⟩ := List.mem_map.mp ha
  exact findAllFs_closed_aux K ts {} hp c.nextXid _ std X.wf.next_pos X.run p.1 q.2 b (by rw [← hp2]; exact hp1)
    (by rw [hs]; exact hb) (X.nonnull b)

/-- **the default traversal of the loaded CAS** -/
theorem DCtx.traversal (X : DCtx K ts c ci hp H L ci' HF c' std) (hnx : 0 < c'.nextXid) :
    ∃ st' : St, findAllFs K ts {} HF c'.nextXid (defaultSeeds c') = .ok st' ∧ st'.heap = HF ∧
      (st'.allFs.map (·.2)).Perm ((std.allFs.map (·.2)).map (phiOf H (naOf H L))) := by
  obtain ⟨st', hfa, hheap, hsub⟩ := findAllFs_succeeds K ts {} HF c'.nextXid (defaultSeeds c') (ImgD H L std)
    (by
      intro a ha
      obtain ⟨q, hq, rfl, hs⟩ := X.seed_fwd ha
      exact ⟨q, hq, X.collected_of_reach (.seed _ hs), rfl⟩)
    (by
      rintro a ⟨q, hq, hqa, rfl⟩
      obtain ⟨o', t, ps, n, ho', hxid, hty, hns, _, hps⟩ := X.succs_both hq hqa
      refine ⟨o', q.1, t, ho', hxid, hty, fun allFs => ⟨(ps.map (phiOf H (naOf H L))).filter (keep HF allFs), n, ?_,
        fun b hb => ?_⟩⟩
      · rw [nodeSuccs_filter K ts {} HF HF (fun _ _ => rfl), hns]
        rfl
      · obtain ⟨b0, hb0, rfl⟩ := List.mem_map.mp (List.mem_filter.mp hb).1
        obtain ⟨h1, h2⟩ := hps b0 hb0
        obtain ⟨q', hq', rfl, _⟩ := inL_pair h1
        exact ⟨q', hq', h2, X.jw.phi hq'⟩)
    (by
      rintro a b ⟨q, hq, _, rfl⟩ ⟨q', hq', _, rfl⟩ h
      rw [xid_new X.jw.rel hq, xid_new X.jw.rel hq'] at h
      rw [Option.some.inj h])
  refine ⟨st', hfa, hheap, ?_⟩
  obtain ⟨inv', _⟩ := findAllFs_inv K ts {} HF c'.nextXid _ st' hfa
  obtain ⟨inv, _⟩ := findAllFs_inv K ts {} hp c.nextXid _ std X.run
  -- the counterparts of the collected structures are reachable in the loaded heap
  have hreach : ∀ a, Reach K ts {} std.heap (hp.length + 1) (defaultSeeds c) a →
      ∀ q ∈ L, q.2 = a → Reach K ts {} HF (HF.length + 1) (defaultSeeds c') (naOf H L q.1) := by
    intro a hr
    induction hr with
    | seed a hs =>
      intro q hq hqa
      exact .seed _ (X.seed_bwd hq (by rw [hqa]; exact hs))
    | step a b hra _ hsucc ih =>
      intro qb hqb hqb2
      obtain ⟨qa, hqa, hqa2, _⟩ := inL_pair (X.reach_inL hra)
      have hcol : qa.2 ∈ std.allFs.map (·.2) := by rw [hqa2]; exact X.collected_of_reach hra
      obtain ⟨o', t, ps, n, ho', hxid, hty, hns, hs, _⟩ := X.succs_both hqa hcol
      refine .step (naOf H L qa.1) _ (ih qa hqa hqa2) ?_ ?_
      · rw [xid_new X.jw.rel hqa]
        intro e
        exact (X.jw.lok.ids qa hqa).2 (Option.some.inj e)
      · rw [succsOf_eq K ts {} ho' hty hns, ← X.jw.phi hqb, hqb2]
        refine List.mem_map_of_mem ?_
        rw [← hs, hqa2]
        exact hsucc
  have hnd' : (st'.allFs.map (·.2)).Nodup := inv'.nodupA
  have hinj : ∀ a ∈ std.allFs.map (·.2), ∀ b ∈ std.allFs.map (·.2),
      phiOf H (naOf H L) a = phiOf H (naOf H L) b → a = b := by
    intro a ha b hb e
    obtain ⟨qa, hqa, rfl, _⟩ := inL_pair (X.sub ha)
    obtain ⟨qb, hqb, rfl, _⟩ := inL_pair (X.sub hb)
    rw [X.jw.phi hqa, X.jw.phi hqb] at e
    rw [X.jw.na_inj hqa hqb e]
  have hnd : ((std.allFs.map (·.2)).map (phiOf H (naOf H L))).Nodup := by
    have h1 : (std.allFs.map (·.2)).Nodup := inv.nodupA
    unfold List.Nodup at h1 ⊢
    rw [List.pairwise_map]
    exact h1.imp_of_mem (fun ha hb hne e => hne (hinj _ ha _ hb e))
  rw [List.perm_ext_iff_of_nodup hnd' hnd]
  intro a'
  constructor
  · intro ha'
    obtain ⟨r, hr, rfl⟩ := List.mem_map.mp ha'
    obtain ⟨q, hq, hqa, e⟩ := hsub r hr
    rw [e, ← X.jw.phi hq]
    exact List.mem_map_of_mem hqa
  · intro ha'
    obtain ⟨a, ha, rfl⟩ := List.mem_map.mp ha'
    obtain ⟨q, hq, rfl, _⟩ := inL_pair (X.sub ha)
    rw [X.jw.phi hq]
    have hr := hreach q.2 (findAllFs_sound_aux K ts {} hp c.nextXid _ std X.wf.next_pos X.run q.2 ha) q hq rfl
    rw [← hheap] at hr
    have hx : xidOf st'.heap (naOf H L q.1) ≠ some 0 := by
      rw [hheap, xid_new X.jw.rel hq]
      intro e
      exact (X.jw.lok.ids q hq).2 (Option.some.inj e)
    exact findAllFs_complete_aux K ts {} HF c'.nextXid _ st' hnx hfa _ (by rw [hheap] at hr ⊢; exact hr) hx

end

end Cassis.Comparable
