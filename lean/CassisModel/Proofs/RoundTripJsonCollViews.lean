/-
JSON round trip with collections, layer V: the views pass of the reader (`viewsPass` / `addJMembers`).

A generalised copy of `RoundTripJsonViews.lean` (from `ObjRel.slot_map` on): `LOkJ` / `E3J` in place of `LOk` / `E3`.
The generic lemmas and the definitions `ownOf`, `writeBack`, `MSInv`, … are those of the flat proof (`JV`).
-/
import CassisModel.Proofs.RoundTripJsonCollDefs

namespace Cassis.Json
open Cassis.TS Cassis.Traverse Cassis.Lex Cassis.Xmi

namespace JVC
open Cassis.Xmi.RTB Cassis.Json.JV

/-! ### the new object against the old one -/

theorem ObjRel.slot_map {H : Heap} {na : Int → Nat} {ci' : Nat} {o o' : Obj} {x : Int}
    (h : ObjRel (E3J H na ci' o) o o' x) (n : String) :
    alistGet? o'.slots n = (alistGet? o.slots n).map (exp3J H na ci') := by
  cases hv : alistGet? o.slots n with
  | none =>
    have : alistGet? o'.slots n = none := by
      rw [aget_none_iff] at hv ⊢
      rw [h.2.2.1]; exact hv
    rw [this]; rfl
  | some v =>
    rw [h.2.2.2 n v hv]; rfl

/-- the sort key of the new object: `Cas.entryOf` succeeds on the old object, so `begin` / `end` (when both are there)
    are integers or `None`, which `exp3J` leaves alone -/
theorem entryOf_relJ (H : Heap) (na : Int → Nat) (ci' : Nat) {o o2 : Obj} {a a2 : Nat} {k : Index.Entry}
    (hb : alistGet? o2.slots "begin" = (alistGet? o.slots "begin").map (exp3J H na ci'))
    (he : alistGet? o2.slots "end" = (alistGet? o.slots "end").map (exp3J H na ci'))
    (hk : Cas.entryOf o a = .ok k) : Cas.entryOf o2 a2 = .ok { k with oid := a2 } := by
  unfold Cas.entryOf at hk ⊢
  rw [hb, he]
  cases h1 : alistGet? o.slots "begin" with
  | none =>
    rw [h1] at hk
    simp only [Option.map_none] at hk ⊢
    cases hk; rfl
  | some vb =>
    cases h2 : alistGet? o.slots "end" with
    | none =>
      rw [h1, h2] at hk
      simp only [Option.map_none, Option.map_some] at hk ⊢
      cases hk; rfl
    | some ve =>
      rw [h1, h2] at hk
      simp only [Option.map_some] at hk ⊢
      cases vb <;> cases ve <;> first | (cases hk; done) | (cases hk; rfl)

/-! ### the context of the proof -/

/-- the hypotheses of `views_collJ` that the loops use -/
structure VC (K : Consts) (ts : TypeSystem) (c : Cas) (ci : Nat) (H : Heap) (L : List (Int × Nat)) (na : Int → Nat)
    (ci' : Nat) (HF : Heap) (fss : List (Int × Val)) : Prop where
  lok : LOkJ K ts c ci H L
  hmem : ∀ nv ∈ c.views, ∀ e ∈ Index.all nv.2.idx, Xmi.slot H e.oid "sofa" ≠ some .none
  mok : MembersOk c H
  rel : HeapRel H L na (E3J H na ci') HF
  fss : ∀ q ∈ L, lookup fss q.1 = some (.ref (na q.1))

section
variable {K : Consts} {ts : TypeSystem} {c : Cas} {ci : Nat} {H : Heap} {L : List (Int × Nat)} {na : Int → Nat}
  {ci' : Nat} {HF : Heap} {fss : List (Int × Val)}

/-- a member id of a view is the id of a collected structure that the old index holds -/
theorem VC.member (ctx : VC K ts c ci H L na ci' HF fss) {nv : String × View} (hnv : nv ∈ c.views) {m : Int}
    (hm : m ∈ (pviewOf H nv).members) : ∃ e ∈ Index.all nv.2.idx, (m, e.oid) ∈ L := by
  unfold pviewOf at hm
  simp only at hm
  rw [mem_sortInts, List.mem_filterMap] at hm
  obtain ⟨e, he, hx⟩ := hm
  obtain ⟨x, hx'⟩ := ctx.lok.members nv hnv e he
  have := (ctx.lok.ids _ hx').1
  simp only at this
  rw [this] at hx
  cases hx
  exact ⟨e, he, hx'⟩

/-- the `sofa` slot of a collected structure holds a sofa of the CAS or `None` -/
theorem VC.sofa_shape (ctx : VC K ts c ci H L na ci' HF fss) {m : Int} {am : Nat} (h : (m, am) ∈ L) {o : Obj}
    (ho : H[am]? = some o) {v : Val} (hv : alistGet? o.slots "sofa" = some v) :
    v = .none ∨ ∃ vn, v = .sofa ci vn := by
  rcases (ctx.lok.coll _ h).1 with hg | ha
  · obtain ⟨o', t, ho', _, _, _, _, _, _, _, _, _, _, _, hsl, hf, _⟩ := hg
    simp only at ho'
    rw [ho] at ho'
    cases ho'
    have hin : "sofa" ∈ o.slots.map (·.1) := by
      rw [← aget_isSome_iff, hv]; rfl
    rw [hsl, List.mem_eraseDups] at hin
    unfold ctorFields at hin
    obtain ⟨f, hfm, hfn⟩ := List.mem_map.mp hin
    obtain ⟨_, _, _, _, _, v', hv', hcase⟩ := hf f hfm
    rw [hfn, hv] at hv'
    cases hv'
    rcases hcase with ⟨_, h1⟩ | ⟨hne, _⟩ | ⟨hne, _⟩
    · rcases h1 with ⟨vn, e, _⟩ | ⟨e, _⟩
      · exact Or.inr ⟨vn, e⟩
      · exact Or.inl e
    · exact absurd hfn hne
    · exact absurd hfn hne
  · obtain ⟨o', t, f, ev, ho', _, _, _, _, _, _, hsl, _⟩ := ha
    simp only at ho'
    rw [ho] at ho'
    cases ho'
    rw [hsl] at hv
    simp [alistGet?] at hv

theorem VC.contains (ctx : VC K ts c ci H L na ci' HF fss) {m : Int} {am : Nat} (h : (m, am) ∈ L) {o : Obj}
    (ho : H[am]? = some o) : containsType ts o.ty = true := by
  rcases (ctx.lok.coll _ h).1 with ⟨o', t, ho', hf, _⟩ | ⟨o', t, f, ev, ho', hf, _⟩
  · simp only at ho'
    rw [ho] at ho'
    cases ho'
    exact containsType_of_find hf
  · simp only at ho'
    rw [ho] at ho'
    cases ho'
    exact containsType_of_find hf

/-- one member of one view: the heap is restored, the view gains the entry -/
theorem VC.member_step (ctx : VC K ts c ci H L na ci' HF fss) {nv : String × View} (hnv : nv ∈ c.views) {m : Int}
    (hm : m ∈ (pviewOf H nv).members) (ms : List Int) (v : VState) (hh : v.heap = HF)
    (hms : MSInv HF na v.memberSofas) {pre post : List (String × View)} {cur : View}
    (hviews : v.cas.views = pre ++ (nv.1, cur) :: post) (hpre : nv.1 ∉ pre.map (·.1))
    (hidx : IdxFrom H nv cur.idx) :
    ∃ (v' : VState) (cur' : View),
      addJMembers ts ci' { view := nv.1, lenient := false } fss (m :: ms) v =
        addJMembers ts ci' { view := nv.1, lenient := false } fss ms v' ∧
      v'.heap = HF ∧ MSInv HF na v'.memberSofas ∧ v'.cas.views = pre ++ (nv.1, cur') :: post ∧
      v'.cas.nextXid = v.cas.nextXid ∧ v'.cas.nextSofaNum = v.cas.nextSofaNum ∧ cur'.sofa = cur.sofa ∧
      ((Index.all cur'.idx).map (·.oid)).Perm (na m :: (Index.all cur.idx).map (·.oid)) ∧
      IdxFrom H nv cur'.idx := by
  obtain ⟨e, he, hq⟩ := ctx.member hnv hm
  obtain ⟨o, o', ho, ho', hok⟩ := ctx.rel (m, e.oid) hq
  simp only at ho ho' hok
  have hl : lookup fss m = some (.ref (na m)) := ctx.fss _ hq
  have hnn : alistGet? o.slots "sofa" ≠ some .none := by
    have := ctx.hmem nv hnv e he
    unfold Xmi.slot Traverse.slot at this
    rw [ho] at this
    exact this
  -- the new `sofa` slot is not `None`
  have hnn' : alistGet? o'.slots "sofa" ≠ some .none := by
    rw [ObjRel.slot_map hok "sofa"]
    cases hv : alistGet? o.slots "sofa" with
    | none => intro h; cases h
    | some w =>
      rcases ctx.sofa_shape hq ho hv with e1 | ⟨vn, e1⟩
      · rw [hv, e1] at hnn; exact absurd rfl hnn
      · rw [e1]; intro h; cases h
  obtain ⟨o2, k, ho2, hk⟩ := (ctx.mok nv hnv).1 e he
  rw [ho] at ho2; cases ho2
  let h : Handle := { view := nv.1, lenient := false }
  have hbeg : alistGet? (Cas.addObj ci' h o' m).slots "begin" = (alistGet? o.slots "begin").map (exp3J H na ci') := by
    rw [addObj_slot_ne ci' h o' m (by decide)]; exact ObjRel.slot_map hok "begin"
  have hend : alistGet? (Cas.addObj ci' h o' m).slots "end" = (alistGet? o.slots "end").map (exp3J H na ci') := by
    rw [addObj_slot_ne ci' h o' m (by decide)]; exact ObjRel.slot_map hok "end"
  have hent := entryOf_relJ H na ci' (a2 := na m) hbeg hend hk
  have hty : o'.ty = o.ty := hok.1
  have hget : Cas.getViewRec v.cas h.view = some cur := by
    unfold Cas.getViewRec
    rw [hviews]; exact aget_middle pre post nv.1 cur hpre
  have hnone : (Index.get cur.idx o'.ty).any
      (fun y => decide (y.b = Index.NONE_KEY) != decide (({ k with oid := na m } : Index.Entry).b = Index.NONE_KEY)) = false := by
    rw [List.any_eq_false]
    intro x hx
    obtain ⟨e2, he2, o2, k2, ho2, hty2, hk2, hb2⟩ := hidx o'.ty x hx
    have := (ctx.mok nv hnv).2 e2 he2 e he o2 o k2 k ho2 ho (hty2.trans hty) hk2 hk
    show ¬ ((decide (x.b = Index.NONE_KEY) != decide (k.b = Index.NONE_KEY)) = true)
    rw [hb2]
    by_cases h1 : k2.b = Index.NONE_KEY
    · simp [h1, this.mp h1]
    · have h2 : ¬ k.b = Index.NONE_KEY := fun h' => h1 (this.mpr h')
      simp [h1, h2]
  have hct : containsType ts o'.ty = true := by rw [hty]; exact ctx.contains hq ho
  have hadd := add_eq ts ci' v.cas h (ho := hh ▸ ho') hct hget hok.2.1 hent hnone
  refine ⟨{ cas := Cas.setViewRec v.cas nv.1 { cur with idx := Index.add cur.idx o'.ty { k with oid := na m } },
            heap := HF, memberSofas := (ownOf m (na m) v).2 },
          { cur with idx := Index.add cur.idx o'.ty { k with oid := na m } }, ?_, rfl, ownOf_snd hh hms, ?_, rfl, rfl, rfl,
          ?_, ?_⟩
  · rw [addJMembers_cons_eq ts ci' h fss m ms v hl, hadd]
    dsimp only
    rw [ownOf_fst hh hms, hh, writeBack_restores ci' h ho' hok.2.1 hnn']
  · show alistSet v.cas.views nv.1 _ = _
    rw [hviews, aset_middle pre post nv.1 _ _ hpre]
  · exact (all_add cur.idx o'.ty _).map (·.oid)
  · intro ty x hx
    rw [get_add] at hx
    split at hx
    · rename_i hty'
      rcases Index.mem_insert.mp hx with hx | hx
      · exact ⟨e, he, o, k, ho, by rw [hty', hty], hk, by rw [hx]⟩
      · rw [← hty'] at hx
        exact hidx ty x hx
    · exact hidx ty x hx

/-- all members of one view -/
theorem VC.members_loop (ctx : VC K ts c ci H L na ci' HF fss) {nv : String × View} (hnv : nv ∈ c.views)
    {pre post : List (String × View)} (hpre : nv.1 ∉ pre.map (·.1)) :
    ∀ (ms : List Int), (∀ m ∈ ms, m ∈ (pviewOf H nv).members) → ∀ (v : VState) (cur : View),
      v.heap = HF → MSInv HF na v.memberSofas → v.cas.views = pre ++ (nv.1, cur) :: post → IdxFrom H nv cur.idx →
      ∃ (v' : VState) (cur' : View),
        addJMembers ts ci' { view := nv.1, lenient := false } fss ms v = .ok v' ∧
        v'.heap = HF ∧ MSInv HF na v'.memberSofas ∧ v'.cas.views = pre ++ (nv.1, cur') :: post ∧
        v'.cas.nextXid = v.cas.nextXid ∧ v'.cas.nextSofaNum = v.cas.nextSofaNum ∧ cur'.sofa = cur.sofa ∧
        ((Index.all cur'.idx).map (·.oid)).Perm (ms.map na ++ (Index.all cur.idx).map (·.oid)) := by
  intro ms
  induction ms with
  | nil =>
    intro _ v cur hh hms hv _
    exact ⟨v, cur, addJMembers_nil .., hh, hms, hv, rfl, rfl, rfl, List.Perm.refl _⟩
  | cons m ms ih =>
    intro hmem v cur hh hms hv hidx
    obtain ⟨v1, cur1, h1, hh1, hms1, hv1, hx1, hn1, hs1, hp1, hidx1⟩ :=
      ctx.member_step hnv (hmem m List.mem_cons_self) ms v hh hms hv hpre hidx
    obtain ⟨v2, cur2, h2, hh2, hms2, hv2, hx2, hn2, hs2, hp2⟩ :=
      ih (fun m' hm' => hmem m' (List.mem_cons_of_mem _ hm')) v1 cur1 hh1 hms1 hv1 hidx1
    refine ⟨v2, cur2, h1.trans h2, hh2, hms2, hv2, hx2.trans hx1, hn2.trans hn1, hs2.trans hs1, ?_⟩
    refine hp2.trans ?_
    rw [List.map_cons, List.cons_append]
    exact (List.Perm.append_left _ hp1).trans List.perm_middle

/-- all views -/
theorem VC.views_loop (ctx : VC K ts c ci H L na ci' HF fss)
    (hnames : ∀ nv ∈ c.views, nv.2.sofa.sofaID = nv.1) (hnd : (c.views.map (·.1)).Nodup) :
    ∀ (todo done done' : List (String × View)), c.views = done ++ todo → ∀ (v : VState),
      v.heap = HF → MSInv HF na v.memberSofas → v.cas.views = done' ++ bareViews todo →
      All2 (ViewRelJ H na) done done' →
      ∃ v' : VState, viewsPass ts ci' false fss (todo.map (jviewH H)) v = .ok v' ∧
        v'.heap = HF ∧ v'.cas.nextXid = v.cas.nextXid ∧ v'.cas.nextSofaNum = v.cas.nextSofaNum ∧
        All2 (ViewRelJ H na) c.views v'.cas.views := by
  intro todo
  induction todo with
  | nil =>
    intro done done' hsplit v hh _ hv hall
    rw [List.append_nil] at hsplit
    have hv' : v.cas.views = done' := by rw [hv]; exact List.append_nil _
    refine ⟨v, viewsPass_nil .., hh, rfl, rfl, ?_⟩
    rw [hsplit, hv']; exact hall
  | cons nv todo ih =>
    intro done done' hsplit v hh hms hv hall
    have hnv : nv ∈ c.views := by rw [hsplit]; simp
    have hkeys : done'.map (·.1) = done.map (·.1) := All2.map_eq hall (fun _ _ _ h => h.1)
    have hnd' := hnd
    rw [hsplit, List.map_append, List.map_cons] at hnd'
    have hnew : nv.1 ∉ done'.map (·.1) := by
      rw [hkeys]
      intro hin
      exact (List.nodup_append.mp hnd').2.2 _ hin _ List.mem_cons_self rfl
    have hname : (jviewH H nv).name = nv.1 := hnames nv hnv
    rw [bareViews_cons] at hv
    have hget : Cas.getViewRec v.cas (jviewH H nv).name = some ({ sofa := nv.2.sofa, idx := [] } : View) := by
      unfold Cas.getViewRec
      rw [hname, hv]; exact aget_middle done' _ nv.1 _ hnew
    have hidx0 : IdxFrom H nv ([] : Index.Idx) := by
      intro ty x hx
      cases hx
    obtain ⟨v1, cur1, h1, hh1, hms1, hv1, hx1, hn1, hs1, hp1⟩ :=
      ctx.members_loop hnv hnew (pviewOf H nv).members (fun _ h => h) v _ hh hms hv hidx0
    have hr1 : ViewRelJ H na nv (nv.1, cur1) := by
      refine ⟨rfl, ?_, ?_⟩
      · show cur1.sofa = _
        rw [hs1]
      · show ((Index.all cur1.idx).map (·.oid)).Perm _
        have : (Index.all ([] : Index.Idx)).map (·.oid) = [] := rfl
        rw [this, List.append_nil] at hp1
        exact hp1
    obtain ⟨v2, h2, hh2, hx2, hn2, hall2⟩ :=
      ih (done ++ [nv]) (done' ++ [(nv.1, cur1)]) (by rw [hsplit, List.append_assoc]; rfl) v1 hh1 hms1
        (by rw [hv1, List.append_assoc]; rfl) (All2.snoc hall hr1)
    refine ⟨v2, ?_, hh2, hx2.trans hx1, hn2.trans hn1, hall2⟩
    rw [List.map_cons, viewsPass_cons_existing ts ci' false fss _ _ v hget, hname]
    have hmem : (jviewH H nv).members = (pviewOf H nv).members := rfl
    rw [hmem, h1]
    exact h2

/-- the content of a loaded view is the content of the written one -/
theorem VC.view_content (ctx : VC K ts c ci H L na ci' HF fss) {nv : String × View} (hnv : nv ∈ c.views)
    {nv' : String × View} (hr : ViewRelJ H na nv nv') : viewContent HF nv' = viewContent H nv := by
  obtain ⟨h1, h2, h6⟩ := hr
  have hx : ∀ m ∈ (pviewOf H nv).members, xidOf HF (na m) = some m := by
    intro m hm
    obtain ⟨e, _, hq⟩ := ctx.member hnv hm
    obtain ⟨o, o', _, ho', hrel'⟩ := ctx.rel _ hq
    unfold xidOf
    rw [ho']
    exact hrel'.2.1
  have e1 : (Index.all nv'.2.idx).filterMap (fun e => xidOf HF e.oid) =
      ((Index.all nv'.2.idx).map (·.oid)).filterMap (xidOf HF) := by
    rw [List.filterMap_map]; rfl
  have e2 := h6.filterMap (xidOf HF)
  have e3 : ((pviewOf H nv).members.map na).filterMap (xidOf HF) = (pviewOf H nv).members := by
    rw [List.filterMap_map]
    exact filterMap_id_of _ _ hx
  rw [e3] at e2
  have e4 : sortInts ((Index.all nv'.2.idx).filterMap (fun e => xidOf HF e.oid)) =
      sortInts ((Index.all nv.2.idx).filterMap (fun e => xidOf H e.oid)) := by
    rw [e1, sortInts_perm e2]
    exact sortInts_idem _
  unfold viewContent
  rw [h1, h2, e4]

end

end JVC

open Cassis.Xmi.RTB in
theorem views_collJ : ViewsStmt := by
  intro K ts c ci H L na ci' hnames hnd hL hmem hmok HF hrel fss hfss c0 hc0
  have ctx : JVC.VC K ts c ci H L na ci' HF fss := ⟨hL, hmem, hmok, hrel, hfss⟩
  obtain ⟨v, h1, hh, hx, hn, hall⟩ :=
    ctx.views_loop hnames hnd c.views [] [] rfl { cas := c0, heap := HF } rfl (fun r hr => by cases hr)
      (by rw [List.nil_append]; exact hc0) trivial
  refine ⟨v, h1, hh, hx, hn, JV.All2.toViewsRelJ hall, ?_⟩
  exact All2.map_eq hall (fun nv hnv nv' hr => ctx.view_content hnv hr)

end Cassis.Json
