/-
The JSON round trip on the flat fragment (`Properties/C02RoundTrip.lean`).
-/
import CassisModel.Proofs.RoundTripJsonCore

namespace Cassis.Json
open Cassis.TS Cassis.Traverse Cassis.Lex Cassis.Xmi Cassis.Xmi.RTB

/-- **JSON round trip on the flat fragment** -/
theorem json_roundtrip_flat_aux (K : Consts) (ts : TypeSystem) (cass : List Cas) (ci : Nat) (c : Cas) (hp : Heap)
    (tsIdx ci' : Nat) (doc : JDoc) (st : St)
    (hc : cass[ci]? = some c) (hwf : RTWf c hp)
    (hsave : saveJson K ts cass ci hp .none = .ok (doc, st))
    (hflat : ∀ q ∈ st.allFs, FlatFs K ts c ci st.heap q.2)
    (hjson : ∀ q ∈ st.allFs, JsonFs ts st.heap q.2)
    (hids : ∀ nv ∈ c.views, ∀ e ∈ Index.all nv.2.idx, (xidOf hp e.oid).isSome = true)
    (hdis : ∀ q ∈ st.allFs, ∀ nv ∈ c.views, q.1 ≠ nv.2.sofa.xid)
    (hmem : ∀ nv ∈ c.views, ∀ e ∈ Index.all nv.2.idx, Xmi.slot st.heap e.oid "sofa" ≠ some .none)
    (hmok : MembersOk c st.heap) :
    ∃ (ld : Loaded) (fss : List (Int × Val)),
      loadJson K ts tsIdx ci' false false st.heap doc = .ok ld ∧ ld.ts = ts ∧
      (∀ q ∈ st.allFs, ∃ (a' : Nat) (o o' : Obj), lookup fss q.1 = some (.ref a') ∧
          st.heap[q.2]? = some o ∧ ld.heap[a']? = some o' ∧ o'.ty = o.ty ∧ o'.xid = some q.1 ∧
          ∀ t : TypeRec, find? ts o.ty = some t → ∀ f ∈ allFeatures t,
            featContent ld.heap a' f.name = featContent st.heap q.2 f.name) ∧
      (∀ p ∈ fss, (∃ q ∈ st.allFs, q.1 = p.1) ∨ (∃ nv ∈ c.views, nv.2.sofa.xid = p.1)) ∧
      ld.cas.views.map (viewContent ld.heap) = c.views.map (viewContent st.heap) ∧
      (∀ q ∈ st.allFs, q.1 < ld.cas.nextXid) ∧
      (∀ nv ∈ c.views, nv.2.sofa.xid < ld.cas.nextXid ∧ nv.2.sofa.sofaNum < ld.cas.nextSofaNum) := by
  obtain ⟨ld, m, hload, hts, g, _, _, _, _, hrel, _, hviews, hnx, _, hmq, hms⟩ :=
    json_core K ts cass ci c hp tsIdx ci' doc st hc hwf hsave hflat hjson hids hdis hmem hmok
  have hL := g.lok
  have hxid : ∀ q ∈ sortById st.allFs, xidOf ld.heap (naOf st.heap (sortById st.allFs) q.1) = some q.1 := by
    intro q hq
    obtain ⟨o, o', _, ho', _, hx, _⟩ := hrel q hq
    unfold xidOf; rw [ho']; exact hx
  refine ⟨ld, sofaEntries ci' c.views ++ fsEntries (naOf st.heap (sortById st.allFs)) (sortById st.allFs),
    hload, hts, ?_, ?_, hviews, ?_, ?_⟩
  · intro q hq0
    have hq := mem_sortById.mpr hq0
    obtain ⟨o, o', ho, ho', hty, hx, _, hslots⟩ := hrel q hq
    refine ⟨naOf st.heap (sortById st.allFs) q.1, o, o', ?_, ho, ho', hty, hx, ?_⟩
    · rw [lookup_append]
      have : lookup (sofaEntries ci' c.views) q.1 = none := by
        apply lookup_none_of_not_mem
        rw [sofaEntries_keys]
        intro hin
        obtain ⟨nv, hnv, e⟩ := List.mem_map.mp hin
        exact g.dis q hq nv hnv e.symm
      rw [this]
      apply lookup_of_mem_nodup
      · rw [fsEntries_keys]; exact hL.nodup
      · unfold fsEntries
        exact List.mem_map.mpr ⟨q, hq, rfl⟩
    · intro t ht f hf
      obtain ⟨o2, t2, ho2, ht2, _, _, _, _, _, _, _, _, _, _, _, hfeat, _⟩ := hL.flat q hq
      rw [ho] at ho2; cases ho2
      rw [ht] at ht2; cases ht2
      have hff := hfeat f hf
      obtain ⟨_, _, _, _, _, _, _, _, _, _, _, v, hv, _⟩ := hfeat f hf
      have h1 : featContent st.heap q.2 f.name = dvalOf st.heap v := by
        unfold featContent Xmi.slot Traverse.slot
        rw [ho]; simp only [Option.bind_some, hv, Option.getD_some]
      have h2 : featContent ld.heap (naOf st.heap (sortById st.allFs) q.1) f.name =
          dvalOf ld.heap (exp3 st.heap (naOf st.heap (sortById st.allFs)) ci' v) := by
        unfold featContent Xmi.slot Traverse.slot
        rw [ho']; simp only [Option.bind_some, hslots f.name v hv, Option.getD_some, E3]
      rw [h1, h2]
      apply dval_exp3 hff v hv
      intro b hb
      subst hb
      obtain ⟨x, hxb, hxl⟩ := hL.closed q hq o ho f.name b hv
      exact ⟨x, hxb, hxid (x, b) hxl⟩
  · intro p hp
    rcases List.mem_append.mp hp with h | h
    · right
      unfold sofaEntries at h
      obtain ⟨nv, hnv, rfl⟩ := List.mem_map.mp h
      exact ⟨nv, hnv, rfl⟩
    · left
      unfold fsEntries at h
      obtain ⟨q, hq, rfl⟩ := List.mem_map.mp h
      exact ⟨q, mem_sortById.mp hq, rfl⟩
  · intro q hq0
    have := hmq q (mem_sortById.mpr hq0)
    omega
  · intro nv hnv
    obtain ⟨h1, h2⟩ := hms nv hnv
    exact ⟨by omega, h2⟩

end Cassis.Json
