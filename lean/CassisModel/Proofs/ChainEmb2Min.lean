/-
C16 with an embedded type system that is only a part of the original, part 4: what the type system `loadTs` rebuilds from
the `%TYPES` section of a MINIMAL document has to do with the original (`json_minimal_ts_part`):
* it agrees with the original (`PartOn`) on the names a fresh type system or the written records declare (`regNames`),
  a list closed under supertypes and ranges of effective features that contains the type of every collected structure;
* the reader's questions about the `%TYPE`s of the document are answered alike (`TypeAgree`, `json_minimal_ts_agree`);
* every feature record of it is like an own record of the original (`PInv (LikeIn o)`: the provenance of
  `Proofs/ChainEmbProvC.lean`, which does not depend on the list of written records being the full one), hence
  `MultiResAgree` for `FlagCoherent` originals.
-/
import CassisModel.Proofs.ChainEmb2Jx
import CassisModel.Proofs.EmbeddedTsMinC
import CassisModel.Proofs.ChainEmbProvC

namespace Cassis.ChainE
open Cassis.TS Cassis.Json

/-- the names a fresh type system or the records `R` declare -/
def regNames (R : List TypeRec) : List String := Gen.builtinTS.types.map (·.name) ++ R.map (·.name)

theorem mem_regNames {R : List TypeRec} {x : String} : x ∈ regNames R ↔ RegName R x := by
  unfold regNames RegName
  rw [List.mem_append, ← hasExact_iff_mem, List.mem_map]

/-! ### ranges -/

theorem builtin_ranges : ∀ t ∈ Gen.builtinTS.types, ∀ f ∈ t.own ++ t.inh, hasExact Gen.builtinTS f.range = true := by
  have h : Gen.builtinTS.types.all (fun t => (t.own ++ t.inh).all (fun f => hasExact Gen.builtinTS f.range)) = true := by
    decide +kernel
  intro t ht f hf
  exact List.all_eq_true.mp (List.all_eq_true.mp h t ht) f hf

/-- the effective features of a built-in type of an API-built type system have built-in ranges -/
theorem range_builtin {o : TypeSystem} (ho : Hist o) (ho2 : Hist2 o) {n : String} (hb : hasExact Gen.builtinTS n = true)
    {t : TypeRec} (ht : find? o n = some t) {f : Feature} (hf : f ∈ allFeatures t) :
    hasExact Gen.builtinTS f.range = true := by
  have hi0 : EInv o Gen.builtinTS :=
    ⟨consistent_builtins_aux.1, featInv_builtins_aux.1, (init_inv ho).sub, Grow.refl _ _⟩
  have hR0 : RecsOk o [] := by
    refine ⟨?_, ?_, ?_⟩ <;> intro t h <;> cases h
  obtain ⟨i, hil, e⟩ := find?_idx ht
  have hn : RegName [] (o.types[i]).name := by rw [e, find?_name ht]; exact Or.inl hb
  obtain ⟨tb, htb, hc⟩ := eff_cover ho ho2 hi0 hR0 (fun t h => by cases h) i hil hn
  rw [e] at hc
  obtain ⟨g, hg, hgf⟩ := hc f (allFeatures_sub hf)
  have hr : g.range = f.range := ((featureEq_iff g f).mp hgf).2.2.1
  rw [← hr]
  exact builtin_ranges tb (find?_mem htb) g hg

/-- the effective features of a written record of a MINIMAL document have declared ranges -/
theorem range_min {o : TypeSystem} (ho : Hist o) (ho2 : Hist2 o) (hpo : PInv (fun _ => True) o) (st : Traverse.St)
    {r : TypeRec} (hr : r ∈ minRecs Gen.consts o st) {f : Feature} (hf : f ∈ allFeatures r) :
    RegName (minRecs Gen.consts o st) f.range := by
  obtain ⟨_, n, hn, hfn⟩ := mem_minRecs.mp hr
  have hcov := ((minNames_closed o st n hn r hfn).2 f hf).1
  apply regName_of_covered hcov
  obtain ⟨t1, ht1, hf1⟩ : OwnIn o f := by
    rcases List.mem_append.mp (allFeatures_sub hf) with h0 | h0
    · exact ⟨r, find?_mem hfn, h0⟩
    · exact hpo.inh r (find?_mem hfn) f h0
  have hok := ho2.ownOk t1.name t1 (find?_of_mem ho.cons.nodup ht1) f hf1
  unfold featOkB at hok
  simp only [Bool.and_eq_true] at hok
  exact hok.1.1

/-! ### agreement on the declared names -/

theorem part_find {o emb m : TypeSystem} (ho : Hist o) (ho2 : Hist2 o) (hi : EInv o emb) {R : List TypeRec}
    (hR : RecsOk o R)
    (hcov : ∀ t ∈ R, ∃ t', find? emb t.name = some t' ∧ ∀ f ∈ t.own, ∃ g ∈ eff t', featureEq g f = true)
    (hsame : SameTs emb m) (n : String) (hn : RegName R n) :
    ∃ t tm, find? o n = some t ∧ find? m n = some tm ∧ tm.super = t.super ∧
      ((allFeatures tm).map featKey).Perm ((allFeatures t).map featKey) := by
  have hreg : hasExact o n = true := by
    rcases hn with hb | ⟨r, hr, hrn⟩
    · exact ho.grow.reg n hb
    · rw [← hrn]
      exact (hasExact_iff_mem o _).mpr (List.mem_map.mpr ⟨r, ((mem_fullRecs _ _ _).mp (hR.sub r hr)).1, rfl⟩)
  obtain ⟨t, ht⟩ := (hasExact_iff_find _ _).mp hreg
  obtain ⟨i, hil, e⟩ := find?_idx ht
  have hn' : RegName R (o.types[i]).name := by rw [e, find?_name ht]; exact hn
  obtain ⟨te, hte, hc⟩ := eff_cover ho ho2 hi hR hcov i hil hn'
  rw [e, find?_name ht] at hte
  rw [e] at hc
  obtain ⟨to, hto, hr⟩ := hi.sub n te hte
  rw [ht] at hto; cases hto
  have hperm := keys_perm_of_cover t te hc hr.feats
  rcases sameTs_find hsame n with ⟨h1, _⟩ | ⟨te0, tm, h1, h2, hd⟩
  · rw [hte] at h1; cases h1
  · rw [hte] at h1; cases h1
    exact ⟨t, tm, ht, h2, by rw [hd.2.1, hr.super], hd.2.2.2.2.trans hperm⟩

/-! ### provenance of the feature records, for a closed list of written records -/

theorem pinv_rebuilt_R {o emb m : TypeSystem} (ho : Hist o) (ho2 : Hist2 o) (hw : Writable Gen.consts o)
    (hpc : NoPercentNames o) {R : List TypeRec} (hR : RecsOk o R)
    (hemb : loadEmbeddedTs Gen.consts (R.map (renderTypeDecl0 Gen.consts)) = .ok emb)
    (hl : merge Gen.consts Gen.builtinTS [Gen.builtinTS, emb] = .ok m) : PInv (LikeIn o) m := by
  have hbase : PInv (LikeIn o) Gen.builtinTS := by
    apply pinv_builtin
    intro t ht g hg
    obtain ⟨t', ht', _, _, hown, _, _⟩ := ho.grow t.name t (find?_of_mem consistent_builtins_aux.1.nodup ht)
    exact likeIn_of_own ⟨t', find?_mem ht', hown g hg⟩
  have hpe : PInv (LikeIn o) emb := by
    rw [loadEmbeddedTs_eq _ _ (types_no_dockeyR hw hR)
      (renderTypeDecl0_noPct _ _ (fun t ht => hpc t ((mem_fullRecs _ _ _).mp (hR.sub t ht)).1))] at hemb
    simp only [bind, Except.bind] at hemb
    cases htop : toposort (R.map (renderTypeDecl0 Gen.consts)) with
    | error e => rw [htop] at hemb; cases hemb
    | ok order =>
      rw [htop] at hemb
      dsimp only at hemb
      cases hf1 : order.foldlM (typeStep Gen.consts (R.map (renderTypeDecl0 Gen.consts))) Gen.builtinTS with
      | error e => rw [hf1] at hemb; cases hemb
      | ok ts1 =>
        rw [hf1] at hemb
        dsimp only at hemb
        have h1 := pinv_typesFold Gen.consts _ order _ ts1 hbase hf1
        apply pinv_featsFold _ ts1 emb h1 _ hemb
        intro jt hjt jf hjf
        obtain ⟨t, ht, rfl⟩ := List.mem_map.mp hjt
        have hto := ((mem_fullRecs _ _ _).mp (hR.sub t ht)).1
        obtain ⟨g, hg, rfl⟩ := List.mem_map.mp (show jf ∈ t.own.map (renderFeatDecl Gen.consts) from hjf)
        refine ⟨g, ⟨t, hto, hg⟩, rfl, ?_⟩
        have := ho2.ownOk t.name t (find?_of_mem ho.cons.nodup hto) g hg
        unfold featOkB at this
        simp only [Bool.and_eq_true] at this
        exact this.2
  unfold merge at hl
  apply pinv_mergeDecls hbase _ hl
  intro d hdm f hf
  have hsrc : ∃ ts0, (ts0 = Gen.builtinTS ∨ ts0 = emb) ∧ ∃ t ∈ ts0.types, d.own = t.own := by
    obtain ⟨ts0, hts0, hd0⟩ := List.mem_flatMap.mp hdm
    refine ⟨ts0, by simpa using hts0, ?_⟩
    unfold declsOf at hd0
    obtain ⟨t, ht, rfl⟩ := List.mem_map.mp hd0
    unfold getTypes at ht
    simp only [Bool.false_eq_true, if_false] at ht
    exact ⟨t, (List.mem_filter.mp ht).1, rfl⟩
  obtain ⟨ts0, hts0, t, ht, hown⟩ := hsrc
  rw [hown] at hf
  have hlike : LikeIn o f := by
    rcases hts0 with rfl | rfl
    · exact hbase.own t ht f hf
    · exact hpe.own t ht f hf
  obtain ⟨g, hg, h1, h2, h3⟩ := hlike
  exact ⟨g, hg, h1, h2, h3⟩

/-- `MultiResAgree` from the provenance, for `FlagCoherent` originals (the second half of `json_full_ts_multi`) -/
theorem multiRes_of_pinv {o m : TypeSystem} (ho : PInv (fun _ => True) o) (hm : PInv (LikeIn o) m)
    (hfc : FlagCoherent Gen.consts o) : MultiResAgree Gen.consts o m := by
  intro t ht t' ht' _ f hf f' hf' hn
  obtain ⟨t1, ht1, hf1⟩ : OwnIn o f := by
    rcases List.mem_append.mp (allFeatures_sub hf) with h0 | h0
    · exact ⟨t, ht, h0⟩
    · exact ho.inh t ht f h0
  obtain ⟨tm, htm, hfm⟩ : OwnIn m f' := by
    rcases List.mem_append.mp (allFeatures_sub hf') with h0 | h0
    · exact ⟨t', ht', h0⟩
    · exact hm.inh t' ht' f' h0
  obtain ⟨g, ⟨t2, ht2, hg2⟩, k1, k2, k3⟩ := hm.own tm htm f' hfm
  obtain ⟨c1, c2⟩ := hfc t1 ht1 t2 ht2 f hf1 g hg2 (by rw [← k1, hn])
  exact ⟨by rw [k3, c1], fun hc => by rw [k2, c2 hc]⟩

theorem null_builtin : hasExact Gen.builtinTS Cassis.Xmi.NULL_T = true := by decide +kernel

/-! ### the type system rebuilt from a MINIMAL document -/

theorem json_minimal_ts_part (ops : List TsOp)
    (hu : UserOnly Gen.consts ops ∧ ∀ op ∈ ops, match op with
      | .createFeature dom _ _ _ _ _ => dom ≠ DOCUMENT_ANNOTATION
      | .createType _ _ _ => True)
    (hw : Writable Gen.consts (ops.foldl (applyOp Gen.consts) Gen.builtinTS))
    (hpc : NoPercentNames (ops.foldl (applyOp Gen.consts) Gen.builtinTS))
    (cass : List Cas) (ci : Nat) (c : Cas) (hp : Heap) (doc : JDoc) (st : Traverse.St)
    (hc : cass[ci]? = some c) (harr : ∀ nv ∈ c.views, nv.2.sofa.arr = .none)
    (hsave : saveJson Gen.consts (ops.foldl (applyOp Gen.consts) Gen.builtinTS) cass ci hp .minimal = .ok (doc, st))
    (hreg : ∀ q ∈ st.allFs, ∀ ob : Obj, st.heap[q.2]? = some ob →
      (find? (ops.foldl (applyOp Gen.consts) Gen.builtinTS) ob.ty).isSome = true ∧ ob.ty.endsWith "[]" = false) :
    ∃ (ts' : TypeSystem) (N : List String), loadTs Gen.consts Gen.builtinTS true doc = .ok ts' ∧
      Consistent (ops.foldl (applyOp Gen.consts) Gen.builtinTS) ∧ Consistent ts' ∧
      (∀ j ∈ doc.fss, TypeAgree (ops.foldl (applyOp Gen.consts) Gen.builtinTS) ts' (fsTypeName j)) ∧
      PartOn N (ops.foldl (applyOp Gen.consts) Gen.builtinTS) ts' ∧
      (∀ q ∈ st.allFs, ∀ ob : Obj, st.heap[q.2]? = some ob → ob.ty ∈ N) ∧
      Cassis.Xmi.NULL_T ∈ N ∧
      (FlagCoherent Gen.consts (ops.foldl (applyOp Gen.consts) Gen.builtinTS) →
        MultiResAgree Gen.consts (ops.foldl (applyOp Gen.consts) Gen.builtinTS) ts') := by
  have hpo := pinv_history Gen.consts ops Gen.builtinTS (pinv_builtin (fun _ _ _ _ => trivial))
  have ho := hist_history ops _ hist_builtin hu.1
  have ho2 := hist2_history ops _ hist_builtin hist2_builtin hu.1 hu.2
  generalize ops.foldl (applyOp Gen.consts) Gen.builtinTS = o at hw hpc hsave hreg hpo ho ho2 ⊢
  have hR := recsOk_min ho ho2 st
  obtain ⟨emb, hload, hemb, hi, hcov⟩ := loadEmbedded_on ho ho2 hw hpc hR
  obtain ⟨m, hm, hsame, hcm⟩ := merge_same_of_cons emb hemb [Gen.builtinTS, emb] (by simp) (by simp)
  obtain ⟨decls, hdecls, htypes⟩ := (saveJson_minimal_shape Gen.consts _ cass ci c hp doc st hc harr hsave).1
  rw [renderTypeDecls_noPct _ _ (fun t ht => hpc t ((mem_fullRecs _ _ _).mp (hR.sub t ht)).1)] at hdecls
  cases hdecls
  refine ⟨m, regNames (minRecs Gen.consts o st), ?_, ho.cons, hcm, ?_, ?_, ?_, ?_, ?_⟩
  · unfold loadTs
    simp only [htypes, hload, if_true]
    exact hm
  · intro j hj
    have hn := minimal_fss_names cass ci c hp doc st hc harr hsave hreg j hj
    exact typeAgree_trans (typeAgree_emb ho ho2 hi hR hcov _ hn) (typeAgree_of_sameTs hsame hi.cons hcm _)
  · intro n hn
    rw [mem_regNames] at hn
    obtain ⟨t, tm, h1, h2, h3, h4⟩ := part_find ho ho2 hi hR hcov hsame n hn
    refine ⟨t, tm, h1, h2, h3, h4, ?_, ?_⟩
    · intro s hs
      exact mem_regNames.mpr (regName_super ho hR hn h1 hs)
    · intro f hf
      rw [mem_regNames]
      rcases hn with hb | ⟨r, hr, hrn⟩
      · exact Or.inl (range_builtin ho ho2 hb h1 hf)
      · have hro : find? o r.name = some r :=
          find?_of_mem ho.cons.nodup ((mem_fullRecs _ _ _).mp (hR.sub r hr)).1
        rw [hrn, h1] at hro; cases hro
        exact range_min ho ho2 hpo st hr hf
  · intro q hq ob hob
    rw [mem_regNames]
    obtain ⟨hsome, _⟩ := hreg q hq ob hob
    cases hpre : Gen.consts.predefined.contains ob.ty with
    | true => left; exact builtin_pre _ hpre
    | false =>
      apply regName_of_covered _ hsome
      left
      apply (closure_sufficient_aux Gen.consts o _).1 _ _ hpre hsome
      rw [List.mem_eraseDups, List.mem_filterMap]
      exact ⟨q, Cassis.Xmi.mem_sortById.mpr hq, by rw [hob]; rfl⟩
  · exact mem_regNames.mpr (Or.inl null_builtin)
  · intro hfc
    exact multiRes_of_pinv hpo (pinv_rebuilt_R ho ho2 hw hpc hR hload hm) hfc

end Cassis.ChainE
