/-
C16 with collections, layer TY (second pass): the typing invariant `TI` (`ChainCollTyped.lean`) is kept by `postAll`.
-/
import CassisModel.Proofs.ChainCollTyped

namespace Cassis.ChainC
open Cassis.TS Cassis.Traverse Cassis.Xmi Cassis.Lex

variable {K : Consts}

theorem parsePrimValue_ref (ts : TypeSystem) : ∀ (fuel : Nat) (ty : String) (v v' : Val),
    parsePrimValue ts fuel ty v = .ok v' → ∀ b, v' = .ref b → v = .ref b
  | 0, _, _, _, h, _, _ => by simp [parsePrimValue] at h
  | fuel+1, ty, v, v', h, b, hb => by
    subst hb
    unfold parsePrimValue at h
    split at h
    · cases h
    · split at h
      · cases h; rfl
      · split at h
        · split at h <;> cases h
        · split at h
          · split at h
            · simp only [Except.map] at h
              split at h <;> cases h
            · cases h
            · cases h
          · split at h
            · split at h
              · split at h <;> cases h
              · cases h
            · split at h
              · exact parsePrimValue_ref ts fuel _ v _ h b rfl
              · cases h

theorem parsePrimArrayStr_ref {ty s : String} {ev : Val} (h : parsePrimArrayStr ty s = .ok ev) : ∀ b, ev ≠ .ref b := by
  intro b hb
  subst hb
  unfold parsePrimArrayStr at h
  simp only at h
  split at h
  · split at h <;> cases h
  · split at h
    · split at h
      · cases h
      · simp only [Except.map] at h
        split at h <;> cases h
    · split at h
      · split at h <;> cases h
      · split at h
        · split at h
          · cases h
          · split at h <;> cases h
        · split at h
          · split at h
            · cases h
            · split at h <;> cases h
          · cases h

/-- what one step of the second pass does: nothing, or it appends objects without id and assigns slot `f.name`;
    an assigned reference points to a structure of the id table, to a collection object made for the range of `f`,
    or is the old value -/
theorem postFeature_shape {K : Consts} {ts : TypeSystem} {tsIdx ci : Nat} {sofas : List (Int × PSofa)}
    {fss : List (Int × Nat)} {hp : Heap} {a : Nat} {tyName : String} {isStrArr : Bool} {f : Feature} {hp' : Heap}
    (h : postFeature K ts tsIdx ci sofas fss hp a tyName isStrArr f = .ok hp') :
    hp' = hp ∨ ∃ (ext : List Obj) (w : Val), (∀ ob ∈ ext, ob.xid = none) ∧
      Heap.setSlot (hp ++ ext) a f.name w = .ok hp' ∧
      ∀ b, w = .ref b → (∃ i, lookupFs fss i = .ok b) ∨ NewFor K (hp ++ ext) f.range b ∨
        (Xmi.slot hp a f.name).getD .none = .ref b := by
  have plain : ∀ w : Val, (∀ b, w ≠ .ref b) → Heap.setSlot hp a f.name w = .ok hp' →
      hp' = hp ∨ ∃ (ext : List Obj) (w : Val), (∀ ob ∈ ext, ob.xid = none) ∧
        Heap.setSlot (hp ++ ext) a f.name w = .ok hp' ∧
        ∀ b, w = .ref b → (∃ i, lookupFs fss i = .ok b) ∨ NewFor K (hp ++ ext) f.range b ∨
          (Xmi.slot hp a f.name).getD .none = .ref b := by
    intro w hw hs
    exact .inr ⟨[], w, fun _ h => (by cases h), by rw [List.append_nil]; exact hs, fun b hb => absurd hb (hw b)⟩
  unfold postFeature at h
  simp only [bind, Except.bind, pure, Except.pure, throw, throwThe, MonadExceptOf.throw] at h
  by_cases h1 : (f.name == "sofa") = true
  · have hn : f.name = "sofa" := eq_of_beq h1
    simp only [h1, if_true] at h
    split at h
    · split at h
      · rw [← hn] at h
        exact plain _ (fun b hb => by cases hb) h
      · cases h
    · cases h; exact .inl rfl
    · cases h
  · simp only [h1, Bool.false_eq_true, if_false] at h
    by_cases h2 : isStrArr = true
    · simp only [h2, if_true] at h
      split at h
      · rename_i hc
        have hn : f.name = "elements" := by
          rw [Bool.and_eq_true] at hc
          exact eq_of_beq hc.1
        rw [← hn] at h
        exact plain _ (fun b hb => by cases hb) h
      · cases h; exact .inl rfl
    · simp only [h2, Bool.false_eq_true, if_false] at h
      by_cases h3 : isPrimitive K ts f.range = true
      · simp only [h3, if_true] at h
        split at h
        · cases h
        · rename_i v' hv'
          refine .inr ⟨[], v', fun _ h => (by cases h), by rw [List.append_nil]; exact h, fun b hb => ?_⟩
          exact .inr (.inr (parsePrimValue_ref ts _ _ _ _ hv' b hb))
      · simp only [h3, Bool.false_eq_true, if_false] at h
        by_cases h4 : (isPrimitiveArray K tyName && f.name == "elements") = true
        · have hn : f.name = "elements" := by
            rw [Bool.and_eq_true] at h4
            exact eq_of_beq h4.2
          simp only [h4, if_true] at h
          split at h
          · cases h; exact .inl rfl
          · split at h
            · cases h
            · rename_i ev hev
              rw [← hn] at h
              exact plain _ (parsePrimArrayStr_ref hev) h
          · cases h; exact .inl rfl
        · simp only [h4, Bool.false_eq_true, if_false] at h
          by_cases h5 : (isPrimitiveArray K f.range && !(f.multi.getD false)) = true
          · simp only [h5, if_true] at h
            split at h
            · split at h
              · cases h
              · rename_i ev hev
                refine .inr ⟨[{ ty := f.range, ts := tsIdx, xid := none, slots := [("elements", ev)] }], _,
                  fun ob hob => by rw [List.mem_singleton.mp hob], h, fun b hb => ?_⟩
                cases hb
                exact .inr (.inl (.inl ⟨⟨_, ev, getElem?_snoc_len _ _, rfl, rfl, rfl⟩, .inl (by
                  rw [Bool.and_eq_true] at h5; exact h5.1)⟩))
            · cases h; exact .inl rfl
          · simp only [h5, Bool.false_eq_true, if_false] at h
            by_cases h6 : (isPrimitiveList K f.range && !(f.multi.getD false)) = true
            · simp only [h6, if_true] at h
              split at h
              · split at h
                · cases h
                · rename_i r hr
                  obtain ⟨hpL, l⟩ := r
                  obtain ⟨k, nodes, hk, he, hid, htl⟩ := buildPrimList_typed hr
                  subst he
                  exact .inr ⟨nodes, _, hid, h, fun b hb => by cases hb; exact .inr (.inl (.inr ⟨k, hk, htl⟩))⟩
              · cases h; exact .inl rfl
            · simp only [h6, Bool.false_eq_true, if_false] at h
              split at h
              · cases h; exact .inl rfl
              · by_cases h7 : (tyName == FS_ARRAY || (f.range == FS_ARRAY && !(f.multi.getD false))) = true
                · simp only [h7, if_true] at h
                  split at h
                  · split at h
                    · cases h
                    · rename_i targets _
                      by_cases h8 : (f.range == FS_ARRAY) = true
                      · simp only [h8, if_true] at h
                        refine .inr ⟨[Obj.mk FS_ARRAY tsIdx none [("elements", .refs (targets.map some))]], _,
                          fun ob hob => by rw [List.mem_singleton.mp hob], h, fun b hb => ?_⟩
                        cases hb
                        exact .inr (.inl (.inl ⟨⟨_, _, getElem?_snoc_len _ _, rfl, (eq_of_beq h8).symm, rfl⟩,
                          .inr (eq_of_beq h8)⟩))
                      · simp only [h8, Bool.false_eq_true, if_false] at h
                        exact plain _ (fun b hb => by cases hb) h
                  · cases h
                · simp only [h7, Bool.false_eq_true, if_false] at h
                  by_cases h9 : (f.range == FS_LIST && !(f.multi.getD false)) = true
                  · have hr : f.range = FS_LIST := by
                      rw [Bool.and_eq_true] at h9
                      exact eq_of_beq h9.1
                    simp only [h9, if_true] at h
                    split at h
                    · split at h
                      · cases h
                      · rename_i targets _
                        obtain ⟨nodes, l, e, hid, htl⟩ := buildFsList_typed hp tsIdx targets
                        rw [e] at h
                        exact .inr ⟨nodes, _, hid, h, fun b hb => by
                          cases hb; exact .inr (.inl (.inr ⟨.fs, hr, htl⟩))⟩
                    · split at h
                      · cases h
                      · rename_i targets _
                        obtain ⟨nodes, l, e, hid, htl⟩ := buildFsList_typed hp tsIdx targets
                        rw [e] at h
                        exact .inr ⟨nodes, _, hid, h, fun b hb => by
                          cases hb; exact .inr (.inl (.inr ⟨.fs, hr, htl⟩))⟩
                    · cases h; exact .inl rfl
                  · simp only [h9, Bool.false_eq_true, if_false] at h
                    split at h
                    · split at h
                      · cases h
                      · split at h
                        · cases h
                        · rename_i t ht
                          exact .inr ⟨[], _, fun _ h => (by cases h), by rw [List.append_nil]; exact h,
                            fun b hb => by cases hb; exact .inl ⟨_, ht⟩⟩
                    · split at h
                      · cases h
                      · rename_i t ht
                        exact .inr ⟨[], _, fun _ h => (by cases h), by rw [List.append_nil]; exact h,
                          fun b hb => by cases hb; exact .inl ⟨_, ht⟩⟩
                    · cases h

/-! ### the invariant through the second pass -/

/-- the structures of the id table lie behind the old heap and carry an id; their types have pairwise distinct feature
    names, none of them `xmiID` -/
def FssOk (ts : TypeSystem) (n0 : Nat) (es : List (Int × Nat)) (hp : Heap) : Prop :=
  ∀ p ∈ es, n0 ≤ p.2 ∧ ∃ o : Obj, hp[p.2]? = some o ∧ o.xid ≠ none ∧
    ∀ t : TypeRec, getType ts o.ty = .ok t → (ctorFields t).Nodup ∧ ∀ f ∈ allFeatures t, f.name ≠ "xmiID"

theorem FssOk.later {ts : TypeSystem} {n0 : Nat} {es : List (Int × Nat)} {hp hp' : Heap} (l : Later hp hp')
    (h : FssOk ts n0 es hp) : FssOk ts n0 es hp' := by
  intro p hp_
  obtain ⟨h1, o, ho, hx, ht⟩ := h p hp_
  obtain ⟨o', g1, g2, g3, _⟩ := l p.2 o ho
  exact ⟨h1, o', g1, by rw [g3]; exact hx, by rw [g2]; exact ht⟩

theorem FssOk.ids {ts : TypeSystem} {n0 : Nat} {fss : List (Int × Nat)} {hp : Heap} (h : FssOk ts n0 fss hp) :
    ∀ i b, lookupFs fss i = .ok b → HasId hp b := by
  intro i b hl
  obtain ⟨q, hq, rfl⟩ := lookupFs_mem hl
  obtain ⟨_, o, ho, hx, _⟩ := h q hq
  exact ⟨o, ho, hx⟩

theorem feat_unique : ∀ {l : List Feature}, (l.map (·.name)).Nodup → ∀ {f f' : Feature}, f ∈ l → f' ∈ l →
    f'.name = f.name → f' = f
  | [], _, _, _, hf, _, _ => by cases hf
  | g :: l, hnd, f, f', hf, hf', hn => by
    rw [List.map_cons, List.nodup_cons] at hnd
    rcases List.mem_cons.mp hf with rfl | hf1 <;> rcases List.mem_cons.mp hf' with rfl | hf1'
    · rfl
    · exact absurd (List.mem_map.mpr ⟨f', hf1', hn⟩) hnd.1
    · exact absurd (List.mem_map.mpr ⟨f, hf1, hn.symm⟩) hnd.1
    · exact feat_unique hnd.2 hf1 hf1' hn

theorem slot_getD_ref {hp : Heap} {a : Nat} {o : Obj} {n : String} {b : Nat} (ho : hp[a]? = some o)
    (h : (Xmi.slot hp a n).getD .none = .ref b) : alistGet? o.slots n = some (.ref b) := by
  unfold Xmi.slot Traverse.slot at h
  rw [ho] at h
  simp only [Option.bind_some] at h
  cases hv : alistGet? o.slots n with
  | none => rw [hv] at h; cases h
  | some v => rw [hv] at h; simp only [Option.getD_some] at h; rw [h]

theorem postFeature_TI {K : Consts} {ts : TypeSystem} {tsIdx ci : Nat} {sofas : List (Int × PSofa)}
    {fss : List (Int × Nat)} {n0 : Nat} {hp : Heap} {a : Nat} {tyName : String} {isStrArr : Bool} {f : Feature}
    {hp' : Heap} {o : Obj} {t : TypeRec}
    (hti : TI K ts n0 hp) (hids : ∀ i b, lookupFs fss i = .ok b → HasId hp b)
    (ho : hp[a]? = some o) (hx : o.xid ≠ none) (ha : n0 ≤ a) (ht : getType ts o.ty = .ok t) (hf : f ∈ allFeatures t)
    (hnd : (ctorFields t).Nodup) (hname : f.name ≠ "xmiID")
    (h : postFeature K ts tsIdx ci sofas fss hp a tyName isStrArr f = .ok hp') :
    TI K ts n0 hp' ∧ Later hp hp' := by
  rcases postFeature_shape h with rfl | ⟨ext, w, hext, hs, hw⟩
  · exact ⟨hti, Later.refl _⟩
  · have hti' := hti.append ext hext
    have hl1 : Later hp (hp ++ ext) := Later.append hp ext
    have ho' : (hp ++ ext)[a]? = some o := by
      rw [List.getElem?_append_left (List.getElem?_eq_some_iff.mp ho).1]; exact ho
    obtain ⟨o2, u, ho2, _, rfl⟩ := setSlot_eq hs hname
    rw [ho'] at ho2
    cases ho2
    obtain ⟨g1, g2⟩ := hti'.set (n := f.name) w ho' hx (by
      intro t' ht' f' hf' hn b hb
      rw [ht] at ht'
      cases ht'
      have := feat_unique hnd hf hf' hn
      subst this
      have hl2 : Later (hp ++ ext) ((hp ++ ext).set a { o with slots := alistSet o.slots f'.name w }) :=
        Later.set ho' hx rfl rfl
      rcases hw b hb with ⟨i, hi⟩ | hnew | hold
      · exact .inl (hl2.hasId (hl1.hasId (hids i b hi)))
      · exact .inr (hnew.frz hl2.toFrz)
      · exact (hti a o ha ho hx t ht f' hf b (slot_getD_ref ho hold)).later (hl1.trans hl2))
    exact ⟨g1, hl1.trans g2⟩

theorem postFeatures_TI {K : Consts} {ts : TypeSystem} {tsIdx ci : Nat} {sofas : List (Int × PSofa)}
    {fss : List (Int × Nat)} {n0 : Nat} {a : Nat} {tyName : String} {isStrArr : Bool} {t : TypeRec}
    (ha : n0 ≤ a) (hnd : (ctorFields t).Nodup) :
    ∀ (fs : List Feature) (hp hp' : Heap) (o : Obj), (∀ f ∈ fs, f ∈ allFeatures t ∧ f.name ≠ "xmiID") →
      TI K ts n0 hp → (∀ i b, lookupFs fss i = .ok b → HasId hp b) → hp[a]? = some o → o.xid ≠ none →
      getType ts o.ty = .ok t →
      postFeatures K ts tsIdx ci sofas fss a tyName isStrArr fs hp = .ok hp' → TI K ts n0 hp' ∧ Later hp hp'
  | [], hp, hp', o, _, hti, _, _, _, _, h => by
    unfold postFeatures at h
    cases h
    exact ⟨hti, Later.refl _⟩
  | f :: fs, hp, hp', o, hfs, hti, hids, ho, hx, ht, h => by
    unfold postFeatures at h
    simp only [bind, Except.bind] at h
    cases h1 : postFeature K ts tsIdx ci sofas fss hp a tyName isStrArr f with
    | error e => rw [h1] at h; cases h
    | ok hp1 =>
      rw [h1] at h
      dsimp only at h
      obtain ⟨hf, hname⟩ := hfs f List.mem_cons_self
      obtain ⟨g1, g2⟩ := postFeature_TI hti hids ho hx ha ht hf hnd hname h1
      obtain ⟨o1, k1, k2, k3, _⟩ := g2 a o ho
      obtain ⟨r1, r2⟩ := postFeatures_TI ha hnd fs hp1 hp' o1 (fun g hg => hfs g (List.mem_cons_of_mem _ hg)) g1
        (fun i b hl => g2.hasId (hids i b hl)) k1 (by rw [k3]; exact hx) (by rw [k2]; exact ht) h
      exact ⟨r1, g2.trans r2⟩

theorem postAll_TI {K : Consts} {ts : TypeSystem} {tsIdx ci : Nat} {sofas : List (Int × PSofa)}
    {fss : List (Int × Nat)} {n0 : Nat} :
    ∀ (es : List (Int × Nat)) (hp hp' : Heap), (∀ p ∈ es, p ∈ fss) → FssOk ts n0 fss hp → TI K ts n0 hp →
      postAll K ts tsIdx ci sofas fss es hp = .ok hp' → TI K ts n0 hp' ∧ Later hp hp'
  | [], hp, hp', _, _, hti, h => by
    unfold postAll at h
    cases h
    exact ⟨hti, Later.refl _⟩
  | (i, a) :: rest, hp, hp', hsub, hok, hti, h => by
    unfold postAll at h
    simp only [bind, Except.bind, pure, Except.pure, throw, throwThe, MonadExceptOf.throw] at h
    obtain ⟨ha, o, ho, hx, hty⟩ := hok (i, a) (hsub _ List.mem_cons_self)
    rw [show hp[((i, a) : Int × Nat).2]? = hp[a]? from rfl] at ho
    rw [ho] at h
    dsimp only at h
    cases h1 : getType ts o.ty with
    | error e => rw [h1] at h; cases h
    | ok t =>
      rw [h1] at h
      dsimp only at h
      cases h2 : postFeatures K ts tsIdx ci sofas fss a o.ty (isInstanceOf ts o.ty STRING_ARRAY) (allFeatures t) hp with
      | error e => rw [h2] at h; cases h
      | ok hp1 =>
        rw [h2] at h
        dsimp only at h
        obtain ⟨hnd, hnames⟩ := hty t h1
        obtain ⟨g1, g2⟩ := postFeatures_TI ha hnd (allFeatures t) hp hp1 o (fun f hf => ⟨hf, hnames f hf⟩) hti hok.ids ho hx
          h1 h2
        obtain ⟨r1, r2⟩ := postAll_TI rest hp1 hp' (fun p hp_ => hsub p (List.mem_cons_of_mem _ hp_)) (hok.later g2) g1 h
        exact ⟨r1, g2.trans r2⟩

end Cassis.ChainC
