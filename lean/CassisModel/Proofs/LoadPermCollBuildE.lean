/-
Element-order independence on the whole format (`C05PermColl`), third pass, part E: the loops over the members of a view
and over the views.  `LoadPermBuildE.lean` with the invariant `BInvC`; the parts that do not mention the context
(`initView0`, `viewCas_init`, `ViewsInv`) are reused from there.
-/
import CassisModel.Proofs.LoadPermCollBuildD

namespace Cassis.Xmi.LPC
open Cassis.TS Cassis.Traverse Cassis.Lex Cassis.Xmi Cassis.Xmi.RTB Cassis.Xmi.LP

section
variable {K : Consts} {ts : TypeSystem} {cass : List Cas} {ci : Nat} {c : Cas} {hp H : Heap}
  {L : List (Int × Nat)} {na : Int → Nat} {n0 : Nat} {p : Pass1} {ia : Int → String → Nat} {ci' : Nat} {o0 : Obj} {hp0 : Heap}

theorem CtxC.members_loop (ctx : CtxC K ts cass ci c hp H L na n0 p) {nv : String × View} (hnv : nv ∈ c.views)
    {pre post : List (String × View)} (hpre : nv.1 ∉ pre.map (·.1)) (conv : Offsets.Conv) :
    ∀ (ms : List Int), (∀ m ∈ ms, m ∈ (pviewOf H nv).members) → ∀ (b : Build) (cur : View),
      BInvC K ts cass H L na ia ci' n0 o0 hp0 b → b.cas.views = pre ++ (nv.1, cur) :: post → IdxFrom H nv cur.idx →
      ∃ (b' : Build) (cur' : View),
        addMembers ts ci' { view := nv.1, lenient := false } conv p.sofas p.lenientIds p.fss ms b = .ok b' ∧
        BInvC K ts cass H L na ia ci' n0 o0 hp0 b' ∧ b'.cas.views = pre ++ (nv.1, cur') :: post ∧ cur'.sofa = cur.sofa ∧
        ((Index.all cur'.idx).map (·.oid)).Perm (ms.map na ++ (Index.all cur.idx).map (·.oid)) := by
  intro ms
  induction ms with
  | nil =>
    intro _ b cur hb hv _
    exact ⟨b, cur, addMembers_nil .., hb, hv, rfl, List.Perm.refl _⟩
  | cons m ms ih =>
    intro hms b cur hb hv hidx
    obtain ⟨b1, cur1, h1, hb1, hv1, hs1, hp1, hidx1⟩ :=
      ctx.member_step hnv (hms m List.mem_cons_self) hb hv hpre hidx conv
    obtain ⟨b2, cur2, h2, hb2, hv2, hs2, hp2⟩ :=
      ih (fun m' hm' => hms m' (List.mem_cons_of_mem _ hm')) b1 cur1 hb1 hv1 hidx1
    refine ⟨b2, cur2, ?_, hb2, hv2, hs2.trans hs1, ?_⟩
    · rw [ctx.p1.lenient] at h2 ⊢
      rw [addMembers_cons]
      have : ([] : List Int).contains m = false := rfl
      rw [this, h1, if_neg (by decide)]
      exact h2
    · refine hp2.trans ?_
      rw [List.map_cons, List.cons_append]
      exact (List.Perm.append_left _ hp1).trans List.perm_middle

theorem CtxC.text_back (ctx : CtxC K ts cass ci c hp H L na n0 p) {nv : String × View} (hnv : nv ∈ c.views) :
    (newSofa (psofaOf nv)).text = nv.2.sofa.text := by
  unfold newSofa psofaOf
  dsimp only
  cases ht : nv.2.sofa.text with
  | none => rfl
  | some t =>
    show some ((docText t).toList.map Char.toNat) = some t
    rw [docText_toList t (ctx.wf.scalar nv hnv t ht)]

/-- one view -/
theorem CtxC.view_step (ctx : CtxC K ts cass ci c hp H L na n0 p) {nv : String × View} (hnv : nv ∈ c.views)
    {b : Build} (hb : BInvC K ts cass H L na ia ci' n0 o0 hp0 b) {pre post : List (String × View)}
    (hc2 : ∃ c2, viewCas (psofaOf nv) b.cas = .ok c2 ∧
      c2.views = pre ++ ((psofaOf nv).sofaID, { sofa := newSofa (psofaOf nv), idx := [] }) :: post)
    (hpre : nv.1 ∉ pre.map (·.1)) :
    ∃ (b' : Build) (cur' : View), buildView ts ci' false p (psofaOf nv) b = .ok b' ∧
      BInvC K ts cass H L na ia ci' n0 o0 hp0 b' ∧ b'.cas.views = pre ++ (nv.1, cur') :: post ∧ VRel H na nv (nv.1, cur') := by
  obtain ⟨c2, hc2, hv2⟩ := hc2
  have hid : (psofaOf nv).sofaID = nv.1 := ctx.wf.names nv hnv
  rw [hid] at hv2
  have hb2 : BInvC K ts cass H L na ia ci' n0 o0 hp0 { b with cas := c2 } := ⟨hb.heap, hb.ms, hb.cv, hb.null, hb.frz⟩
  have hidx0 : IdxFrom H nv ([] : Index.Idx) := by
    intro ty x hx
    cases hx
  obtain ⟨b', cur', h1, hb', hv', hs', hp'⟩ :=
    ctx.members_loop hnv hpre (convOfText (psofaOf nv).text) (pviewOf H nv).members (fun _ h => h)
      { b with cas := c2 } _ hb2 hv2 hidx0
  refine ⟨b', cur', ?_, hb', hv', rfl, ?_, ?_, ?_, ?_, ?_, ?_, ?_⟩
  · rw [buildView_eq, hc2]
    dsimp only
    rw [hid, ctx.members_of hnv]
    exact h1
  · show cur'.sofa.sofaID = _
    rw [hs']; rfl
  · show cur'.sofa.xid = _
    rw [hs']; rfl
  · show cur'.sofa.sofaNum = _
    rw [hs']; rfl
  · show cur'.sofa.text = _
    rw [hs']; exact ctx.text_back hnv
  · show cur'.sofa.mime = _
    rw [hs']; rfl
  · show cur'.sofa.conv = _
    rw [hs']; rfl
  · show ((Index.all cur'.idx).map (·.oid)).Perm _
    have : (Index.all ([] : Index.Idx)).map (·.oid) = [] := rfl
    rw [this, List.append_nil] at hp'
    exact hp'

theorem CtxC.views_loop (ctx : CtxC K ts cass ci c hp H L na n0 p) {vs0 : List (String × View)} (hvs0 : vs0.Perm c.views) :
    ∀ (todo done : List (String × View)), vs0 = done ++ todo → ∀ (b : Build),
      BInvC K ts cass H L na ia ci' n0 o0 hp0 b → ViewsInv H na done b →
      ∃ b', buildViews ts ci' false p (todo.map (fun nv => (nv.2.sofa.xid, psofaOf nv))) b = .ok b' ∧
        BInvC K ts cass H L na ia ci' n0 o0 hp0 b' ∧ ViewsInv H na vs0 b' := by
  intro todo
  induction todo with
  | nil =>
    intro done hsplit b hb hall
    rw [List.append_nil] at hsplit
    refine ⟨b, ?_, hb, hsplit ▸ hall⟩
    rw [List.map_nil, buildViews]
  | cons nv todo ih =>
    intro done hsplit b hb hall
    have hnv0 : nv ∈ vs0 := by rw [hsplit]; simp
    have hnv : nv ∈ c.views := hvs0.mem_iff.mp hnv0
    have hnd : (vs0.map (·.1)).Nodup := ((hvs0.map (·.1)).nodup_iff).mpr ctx.wf.names_nodup
    rw [hsplit, List.map_append, List.map_cons] at hnd
    have hnew : nv.1 ∉ done.map (·.1) := by
      intro hin
      exact (List.nodup_append.mp hnd).2.2 _ hin _ List.mem_cons_self rfl
    have hid : (psofaOf nv).sofaID = nv.1 := ctx.wf.names nv hnv
    obtain ⟨vI, tl, dn, hviews, hrel, hcase⟩ := hall
    have hkeys : tl.map (·.1) = dn.map (·.1) := All2.map_eq hrel (fun _ _ _ h => h.1)
    have hsplit' : vs0 = (done ++ [nv]) ++ todo := by rw [hsplit, List.append_assoc]; rfl
    by_cases hni : nv.1 = Cas.INITIAL_VIEW
    · -- the sofa of the initial view
      rcases hcase with ⟨hvI, hperm, _⟩ | ⟨nvI, hnvI, _, hperm⟩
      · subst hvI
        obtain ⟨b1, cur1, h1, hb1, hv1, hr1⟩ :=
          ctx.view_step hnv hb (pre := []) (post := tl)
            (viewCas_init (psofaOf nv) b.cas tl (hid.trans hni) hviews) (by simp)
        have hinv1 : ViewsInv H na (done ++ [nv]) b1 := by
          refine ⟨cur1, tl, dn, ?_, hrel, Or.inr ⟨nv, hni, ?_, ?_⟩⟩
          · rw [hv1, hni]; rfl
          · rw [← hni]; exact hr1
          · exact (List.perm_append_comm).trans (List.Perm.cons nv hperm)
        obtain ⟨b2, h2, hb2, hall2⟩ := ih (done ++ [nv]) hsplit' b1 hb1 hinv1
        refine ⟨b2, ?_, hb2, hall2⟩
        rw [List.map_cons, buildViews, h1]
        exact h2
      · exfalso
        apply hnew
        rw [hni, ← hnvI]
        exact List.mem_map_of_mem (hperm.mem_iff.mpr List.mem_cons_self)
    · -- another sofa: a new view at the end
      have hdn : ∀ x ∈ dn, x ∈ done := by
        intro x hx
        rcases hcase with ⟨_, hperm, _⟩ | ⟨nvI, _, _, hperm⟩
        · exact hperm.mem_iff.mpr hx
        · exact hperm.mem_iff.mpr (List.mem_cons_of_mem _ hx)
      have hpre : nv.1 ∉ b.cas.views.map (·.1) := by
        rw [hviews, List.map_cons, hkeys]
        intro hin
        rcases List.mem_cons.mp hin with e | hin
        · exact hni e
        · obtain ⟨x, hx, e⟩ := List.mem_map.mp hin
          exact hnew (e ▸ List.mem_map_of_mem (hdn x hx))
      obtain ⟨b1, cur1, h1, hb1, hv1, hr1⟩ :=
        ctx.view_step hnv hb (pre := b.cas.views) (post := [])
          (viewCas_later (psofaOf nv) b.cas (hid ▸ hni) (hid ▸ hpre)) hpre
      have hinv1 : ViewsInv H na (done ++ [nv]) b1 := by
        refine ⟨vI, tl ++ [(nv.1, cur1)], dn ++ [nv], ?_, All2.snoc hrel hr1, ?_⟩
        · rw [hv1, hviews]; rfl
        · rcases hcase with ⟨hvI, hperm, hno⟩ | ⟨nvI, hnvI, hrI, hperm⟩
          · refine Or.inl ⟨hvI, List.Perm.append_right _ hperm, ?_⟩
            rw [List.map_append, List.mem_append]
            intro h
            rcases h with h | h
            · exact hno h
            · simp only [List.map_cons, List.map_nil, List.mem_singleton] at h
              exact hni h.symm
          · exact Or.inr ⟨nvI, hnvI, hrI, (List.Perm.append_right _ hperm)⟩
      obtain ⟨b2, h2, hb2, hall2⟩ := ih (done ++ [nv]) hsplit' b1 hb1 hinv1
      refine ⟨b2, ?_, hb2, hall2⟩
      rw [List.map_cons, buildViews, h1]
      exact h2

/-- all views, for the sofas in any order: the new CAS has the initial view first, then the other views in the order of
    their sofas -/
theorem CtxC.views_all {K : Consts} {ts : TypeSystem} {cass : List Cas} {ci : Nat} {c : Cas} {hp H : Heap}
    {L : List (Int × Nat)} {na : Int → Nat} {n0 : Nat} {p : Pass1} {ia : Int → String → Nat} {ci' : Nat} {o0 : Obj} {hp0 : Heap}
    (ctx : CtxC K ts cass ci c hp H L na n0 p) {hp2 : Heap}
    (hb0 : BInvC K ts cass H L na ia ci' n0 o0 hp0 { cas := Cas.empty, heap := hp2 }) :
    ∃ (b' : Build) (vs : List (String × View)),
      buildViews ts ci' false p p.sofas { cas := Cas.empty, heap := hp2 } = .ok b' ∧
      BInvC K ts cass H L na ia ci' n0 o0 hp0 b' ∧ vs.Perm c.views ∧ All2 (VRel H na) vs b'.cas.views ∧
      (b'.cas.views.head?).map (·.1) = some Cas.INITIAL_VIEW := by
  obtain ⟨vs0, hvs0, hsofas⟩ := perm_map_inv _ _ _ ctx.p1.sofas
  have hinv0 : ViewsInv H na [] ({ cas := Cas.empty, heap := hp2 } : Build) :=
    ⟨initView0, [], [], empty_views, trivial, Or.inl ⟨rfl, List.Perm.refl _, by simp⟩⟩
  obtain ⟨b', h1, hb', vI, tl, dn, hviews, hrel, hcase⟩ :=
    ctx.views_loop hvs0 vs0 [] (by simp) _ hb0 hinv0
  have hinit : Cas.INITIAL_VIEW ∈ vs0.map (·.1) := by
    have := ctx.wf.init_first
    cases hcv : c.views with
    | nil => rw [hcv] at this; cases this
    | cons d ds =>
      rw [hcv] at this
      simp only [List.head?_cons, Option.map_some, Option.some.injEq] at this
      have hd : d ∈ vs0 := hvs0.mem_iff.mpr (by rw [hcv]; exact List.mem_cons_self)
      rw [← this]
      exact List.mem_map_of_mem hd
  rcases hcase with ⟨_, _, hno⟩ | ⟨nvI, hnvI, hrI, hperm⟩
  · exact absurd hinit hno
  · refine ⟨b', nvI :: dn, ?_, hb', hperm.symm.trans hvs0, ?_, ?_⟩
    · rw [hsofas]; exact h1
    · rw [hviews]; exact ⟨hrI, hrel⟩
    · rw [hviews]; rfl

end

end Cassis.Xmi.LPC
