/-
Helper lemmas for `Properties/C13Perm.lean`, part C2: one successful step of the merge loop keeps the run invariant.
-/
import CassisModel.Proofs.MergePermC

namespace Cassis.TS

theorem DAok.grow {K : Consts} {ts ts' : TypeSystem} {t t' : TypeRec} {d : Decl} (hg : Grow K ts ts')
    (ht : find? ts DOCUMENT_ANNOTATION = some t) (ht' : find? ts' DOCUMENT_ANNOTATION = some t')
    (h : DAok ts t d) : DAok ts' t' d := by
  obtain ⟨t'', ht'', hs, _⟩ := hg DOCUMENT_ANNOTATION t ht
  rw [ht'] at ht''; cases ht''
  rcases h with ⟨h1, h2⟩ | ⟨h1, h2⟩
  · exact Or.inl ⟨by rw [hs]; exact h1, anc_grow hg h2⟩
  · exact Or.inr ⟨by rw [hs]; exact h1, anc_grow hg h2⟩

/-- adding features to a registered name: the supertypes of the declared names stay -/
theorem sup_addOwn (K : Consts) (decls : List Decl) (ts ts' : TypeSystem) (n : String) (fs : List Feature)
    (hadd : addOwnFeatures ts n fs = .ok ts') (hg : Grow K ts ts')
    (hsup : ∀ d ∈ decls, d.name ≠ DOCUMENT_ANNOTATION → ∀ t, find? ts d.name = some t →
      t.super = some d.super ∧ K.finalTypes.contains d.super = false) :
    ∀ d ∈ decls, d.name ≠ DOCUMENT_ANNOTATION → ∀ t, find? ts' d.name = some t →
      t.super = some d.super ∧ K.finalTypes.contains d.super = false := by
  intro d' hd' hn' t ht
  have hreg' : hasExact ts d'.name = true := by
    rw [hasExact_iff_names, ← names_addOwnFeatures n fs ts ts' hadd, ← hasExact_iff_names]
    exact (hasExact_iff_find _ _).mpr ⟨t, ht⟩
  obtain ⟨t1, ht1⟩ := (hasExact_iff_find _ _).mp hreg'
  obtain ⟨t2, ht2, hs2, _⟩ := hg d'.name t1 ht1
  rw [ht] at ht2; cases ht2
  rw [hs2]
  exact hsup d' hd' hn' t1 ht1

/-- one successful step of the loop -/
theorem processDecl_run (K : Consts) (decls : List Decl) (h1 : OneSuper decls)
    (hann : K.predefined.contains ANNOTATION = true) (hdap : K.predefined.contains DOCUMENT_ANNOTATION = false)
    (s s' : MState) (d : Decl)
    (hi : RInv K decls s) (hd : d ∈ decls) (hu : K.predefined.contains d.name = false)
    (hready : (K.predefined.contains d.super || s.merged.contains d.super) = true)
    (h : processDecl K s d = .ok s') :
    RInv K decls s' ∧ GrowW s.ts s'.ts ∧ CovD s'.ts d := by
  have hsup : hasExact s.ts d.super = true := by
    rcases Bool.or_eq_true _ _ |>.mp hready with h | h
    · exact hi.pre _ h
    · exact hi.mer _ (by simpa using h)
  have hdsup : DOCUMENT_ANNOTATION ∉ s.merged → d.super ≠ DOCUMENT_ANNOTATION := by
    intro hnm e
    rcases Bool.or_eq_true _ _ |>.mp hready with h | h
    · rw [e, hdap] at h; cases h
    · rw [e] at h; exact hnm (by simpa using h)
  have hregann : hasExact s.ts ANNOTATION = true := hi.pre _ hann
  have hmer := (processDecl_ok K s s' d h).1
  obtain ⟨t, ht, hset⟩ := hi.da
  -- assembling the invariant after a step under which every record grows
  have finish : Grow K s.ts s'.ts → Consistent s'.ts → FeatInv s'.ts → CovD s'.ts d →
      (∀ d' ∈ decls, d'.name ≠ DOCUMENT_ANNOTATION → ∀ t, find? s'.ts d'.name = some t →
        t.super = some d'.super ∧ K.finalTypes.contains d'.super = false) →
      (∃ t', find? s'.ts DOCUMENT_ANNOTATION = some t' ∧
        ((DOCUMENT_ANNOTATION ∉ s'.merged ∧ t'.super = some ANNOTATION ∧ t'.children = []) ∨
         (∀ d' ∈ decls, d'.name = DOCUMENT_ANNOTATION → DAok s'.ts t' d'))) →
      RInv K decls s' ∧ GrowW s.ts s'.ts ∧ CovD s'.ts d := by
    intro hg hc' hf' hcov' hsup' hda'
    refine ⟨⟨hc', hf', fun p hp => hg.reg p (hi.pre p hp), ?_, hsup', hda', anc_grow hg hi.daAnc⟩,
      GrowW.of_grow hg, hcov'⟩
    intro x hx
    rcases (mem_merged_step hmer x).mp hx with h | rfl
    · exact hg.reg x (hi.mer x h)
    · obtain ⟨t', ht', _⟩ := hcov'
      exact (hasExact_iff_find _ _).mpr ⟨t', ht'⟩
  by_cases hdn : d.name = DOCUMENT_ANNOTATION
  · -- the document annotation type
    have he : find? s.ts d.name = some t := by rw [hdn]; exact ht
    have hx : hasExact s.ts d.name = true := (hasExact_iff_find _ _).mpr ⟨t, he⟩
    -- the two branches that leave the tree alone
    have unchanged : addOwnFeatures s.ts d.name d.own = .ok s'.ts → DAok s.ts t d →
        RInv K decls s' ∧ GrowW s.ts s'.ts ∧ CovD s'.ts d := by
      intro hadd hok
      obtain ⟨hc2, hf2, hg2, hcov⟩ := addOwnFeatures_run K d.name hu d.own s.ts s'.ts hi.cons hi.feat hx hadd
      refine finish hg2 hc2 hf2 hcov (sup_addOwn K decls s.ts s'.ts d.name d.own hadd hg2 hi.sup) ?_
      obtain ⟨t', ht', _⟩ := hg2 DOCUMENT_ANNOTATION t ht
      refine ⟨t', ht', Or.inr ?_⟩
      intro d' hd' hn'
      have hss : d'.super = d.super := h1 d' hd' d hd (hn'.trans hdn.symm)
      have := hok.grow hg2 ht ht'
      unfold DAok at this ⊢
      rw [hss]; exact this
    rcases processDecl_ex_cases K s s' d t he h with ⟨hsame, hadd⟩ | ⟨hne, hsub, ts1, hrep, hadd⟩ |
      ⟨hne, hs1, hs2, hadd⟩
    · -- same supertype
      apply unchanged hadd
      rcases hset with ⟨_, hts, _⟩ | hset
      · rw [hts] at hsame
        exact Or.inl ⟨by rw [hts, hsame]; rfl, by rw [hsame]; exact Anc.refl _ hregann⟩
      · exact hset d hd hdn
    · -- re-parenting
      rcases hset with ⟨hnm, hts, hleaf⟩ | hset
      · rw [hts] at hne hsub hrep
        simp only [Option.getD_some] at hne hsub hrep
        have hmax : Anc s.ts ANNOTATION d.super := (subsumes_iff_ancestor_aux s.ts hi.cons _ _ hregann hsup).mp hsub
        rw [hdn] at hrep
        obtain ⟨hnot, ns, hns, _⟩ := reparent_ok s.ts ts1 _ _ _ hrep
        have hregda : hasExact s.ts DOCUMENT_ANNOTATION = true := (hasExact_iff_find _ _).mpr ⟨t, ht⟩
        have hnanc : ¬ Anc s.ts DOCUMENT_ANNOTATION d.super := by
          intro ha
          have := (subsumes_iff_ancestor_aux s.ts hi.cons _ _ hregda hsup).mpr ha
          rw [hnot] at this; cases this
        have hxda : d.super ≠ DOCUMENT_ANNOTATION := fun e => hnanc (by rw [e]; exact Anc.refl _ hregda)
        obtain ⟨t', ht', hs', _, hown', hoth, hmono, _, _, _, _⟩ :=
          reparent_leaf s.ts ts1 DOCUMENT_ANNOTATION ANNOTATION d.super t ns hi.cons.nodup ht hleaf hns hrep
        have hc1 : Consistent ts1 :=
          consistent_reparent s.ts ts1 DOCUMENT_ANNOTATION ANNOTATION d.super t hi.cons ht (by rw [hts]; rfl) hne hrep
        have hf1 : FeatInv ts1 :=
          featInv_reparent_leaf s.ts ts1 DOCUMENT_ANNOTATION ANNOTATION d.super t ns hi.cons hi.feat hc1 ht hleaf hts
            hns hmax hxda hrep
        have hgw1 : GrowW s.ts ts1 := by
          intro y r hr
          by_cases hy : y = DOCUMENT_ANNOTATION
          · subst hy
            rw [ht] at hr; cases hr
            refine ⟨t', ht', fun h => absurd rfl h, ?_⟩
            intro g hg
            rcases List.mem_append.mp hg with hg | hg
            · exact List.mem_append_left _ (by rw [hown']; exact hg)
            · exact List.mem_append_right _ (hmono g hg)
          · refine ⟨relinkRec DOCUMENT_ANNOTATION ANNOTATION d.super r, by rw [hoth y hy, hr]; rfl, ?_, ?_⟩
            · intro _
              rw [relinkRec_super, if_neg (by rw [find?_name hr]; exact hy)]
            · intro g hg
              simpa only [eff, relinkRec_own, relinkRec_inh] using hg
        have hreg1 : hasExact ts1 d.name = true := by rw [hdn]; exact (hasExact_iff_find _ _).mpr ⟨t', ht'⟩
        obtain ⟨hc2, hf2, hg2, hcov⟩ := addOwnFeatures_run K d.name hu d.own ts1 s'.ts hc1 hf1 hreg1 hadd
        obtain ⟨t'', ht'', hs'', _⟩ := hg2 DOCUMENT_ANNOTATION t' ht'
        have hmax' : Anc s'.ts ANNOTATION d.super := anc_grow hg2 (anc_growW hgw1 hmax hnanc)
        have hgw : GrowW s.ts s'.ts := hgw1.trans (GrowW.of_grow hg2)
        refine ⟨⟨hc2, hf2, fun p hp => hgw.reg p (hi.pre p hp), ?_, ?_, ?_, ?_⟩, hgw, hcov⟩
        · intro x hx'
          rcases (mem_merged_step hmer x).mp hx' with h | rfl
          · exact hgw.reg x (hi.mer x h)
          · obtain ⟨tc, htc, _⟩ := hcov
            exact (hasExact_iff_find _ _).mpr ⟨tc, htc⟩
        · apply sup_addOwn K decls ts1 s'.ts d.name d.own hadd hg2
          intro d' hd' hn' r hr
          rw [hoth d'.name hn'] at hr
          cases hr0 : find? s.ts d'.name with
          | none => rw [hr0] at hr; cases hr
          | some r0 =>
            rw [hr0] at hr
            simp only [Option.map_some, Option.some.injEq] at hr
            subst hr
            rw [relinkRec_super, if_neg (by rw [find?_name hr0]; exact hn')]
            exact hi.sup d' hd' hn' r0 hr0
        · refine ⟨t'', ht'', Or.inr ?_⟩
          intro d' hd' hn'
          have hss : d'.super = d.super := h1 d' hd' d hd (hn'.trans hdn.symm)
          exact Or.inl ⟨by rw [hs'', hs', hss], by rw [hss]; exact hmax'⟩
        · exact Anc.step _ _ _ t'' ht'' (by rw [hs'', hs']) hmax'
      · exfalso
        rcases hset d hd hdn with ⟨hts, _⟩ | ⟨hts, hanc⟩
        · rw [hts] at hne; exact hne rfl
        · rw [hts] at hne hsub
          simp only [Option.getD_some] at hne hsub
          have hmax : Anc s.ts ANNOTATION d.super :=
            (subsumes_iff_ancestor_aux s.ts hi.cons _ _ hregann hsup).mp hsub
          exact hne (anc_antisymm hi.cons hanc hmax)
    · -- the declared supertype is a proper ancestor
      apply unchanged hadd
      rcases hset with ⟨_, hts, _⟩ | hset
      · rw [hts] at hs2
        simp only [Option.getD_some] at hs2
        exact Or.inr ⟨hts, (subsumes_iff_ancestor_aux s.ts hi.cons _ _ hsup hregann).mp hs2⟩
      · exact hset d hd hdn
  · -- any other name
    have hbr : hasExact s.ts d.name = false ∨ ∃ ex, find? s.ts d.name = some ex ∧ ex.super = some d.super := by
      cases hx : hasExact s.ts d.name with
      | false => exact Or.inl rfl
      | true =>
        obtain ⟨ex, he⟩ := (hasExact_iff_find _ _).mp hx
        exact Or.inr ⟨ex, he, (hi.sup d hd hdn ex he).1⟩
    have key : Consistent s'.ts ∧ FeatInv s'.ts ∧ Grow K s.ts s'.ts ∧ CovD s'.ts d ∧
        (∀ d' ∈ decls, d'.name ≠ DOCUMENT_ANNOTATION → ∀ t, find? s'.ts d'.name = some t →
          t.super = some d'.super ∧ K.finalTypes.contains d'.super = false) := by
      rcases hbr with hx | ⟨ex, he, hss⟩
      · obtain ⟨ts1, hct, hadd⟩ := processDecl_new_aux K s s' d hx h
        obtain ⟨sup, hsupf⟩ := (hasExact_iff_find _ _).mp hsup
        obtain ⟨hc1, hf1, hg1, hnf, ⟨tn, htn, htns⟩, hrest⟩ :=
          createType_run K s.ts ts1 d.name d.super d.descr sup hi.cons hi.feat hx hsupf hct
        have hreg1 : hasExact ts1 d.name = true := (hasExact_iff_find _ _).mpr ⟨tn, htn⟩
        obtain ⟨hc2, hf2, hg2, hcov⟩ := addOwnFeatures_run K d.name hu d.own ts1 s'.ts hc1 hf1 hreg1 hadd
        refine ⟨hc2, hf2, hg1.trans hg2, hcov, ?_⟩
        apply sup_addOwn K decls ts1 s'.ts d.name d.own hadd hg2
        intro d' hd' hn' t1 ht1
        by_cases hn : d'.name = d.name
        · have hss : d'.super = d.super := h1 d' hd' d hd hn
          rw [hn, htn] at ht1
          cases ht1
          rw [hss]
          exact ⟨htns, hnf⟩
        · obtain ⟨t0, ht0, hs0⟩ := hrest d'.name hn t1 ht1
          rw [hs0]
          exact hi.sup d' hd' hn' t0 ht0
      · have hx : hasExact s.ts d.name = true := (hasExact_iff_find _ _).mpr ⟨ex, he⟩
        have hadd := processDecl_same_super_aux K s s' d ex he hss h
        obtain ⟨hc2, hf2, hg2, hcov⟩ := addOwnFeatures_run K d.name hu d.own s.ts s'.ts hi.cons hi.feat hx hadd
        exact ⟨hc2, hf2, hg2, hcov, sup_addOwn K decls s.ts s'.ts d.name d.own hadd hg2 hi.sup⟩
    obtain ⟨hc', hf', hg', hcov', hsup'⟩ := key
    refine finish hg' hc' hf' hcov' hsup' ?_
    obtain ⟨t', ht', hs', _⟩ := hg' DOCUMENT_ANNOTATION t ht
    refine ⟨t', ht', ?_⟩
    rcases hset with ⟨hnm, hts, hleaf⟩ | hset
    · left
      refine ⟨?_, by rw [hs']; exact hts, ?_⟩
      · intro hm
        rcases (mem_merged_step hmer _).mp hm with h | h
        · exact hnm h
        · exact hdn h.symm
      · obtain ⟨t'', ht'', hk⟩ := processDecl_children K s s' d hi.cons hi.feat h hbr hsup
          DOCUMENT_ANNOTATION t ht (fun e => hdsup hnm e.symm)
        rw [ht'] at ht''; cases ht''
        rw [hk]; exact hleaf
    · right
      intro d' hd' hn'
      exact (hset d' hd' hn').grow hg' ht ht'

end Cassis.TS
