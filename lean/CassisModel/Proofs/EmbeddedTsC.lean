/-
Helper lemmas for `Properties/C02EmbeddedTs.lean`, part C: the `%TYPES` section of a FULL document, and the first
pass of the reader over it (the types are created supertypes first) as a simulation inside the original type system.
-/
import CassisModel.Proofs.EmbeddedTsA
import CassisModel.Proofs.EmbeddedTsB
import CassisModel.Proofs.EmbeddedTsPct

namespace Cassis.Json
open Cassis.TS

/-! ### The `%TYPES` section of a FULL document -/

/-- the records `saveJson` writes in mode FULL -/
def fullRecs (K : Consts) (o : TypeSystem) : List TypeRec :=
  (sortByName (getTypes K o false)).filter (fun t => t.name != DOCUMENT_ANNOTATION)

theorem mem_insertByName (t x : TypeRec) : ∀ (l : List TypeRec), x ∈ insertByName t l ↔ x = t ∨ x ∈ l := by
  intro l
  induction l with
  | nil => simp [insertByName]
  | cons u us ih =>
    unfold insertByName
    split
    · simp
    · simp only [List.mem_cons, ih]
      constructor
      · rintro (h | h | h)
        · exact Or.inr (Or.inl h)
        · exact Or.inl h
        · exact Or.inr (Or.inr h)
      · rintro (h | h | h)
        · exact Or.inr (Or.inl h)
        · exact Or.inl h
        · exact Or.inr (Or.inr h)

theorem mem_sortByName (x : TypeRec) : ∀ (l : List TypeRec), x ∈ sortByName l ↔ x ∈ l := by
  intro l
  induction l with
  | nil => simp [sortByName]
  | cons t l ih =>
    show x ∈ insertByName t (sortByName l) ↔ _
    rw [mem_insertByName, ih, List.mem_cons]

theorem mem_fullRecs (K : Consts) (o : TypeSystem) (t : TypeRec) :
    t ∈ fullRecs K o ↔ t ∈ o.types ∧ K.predefined.contains t.name = false ∧ t.name ≠ DOCUMENT_ANNOTATION := by
  unfold fullRecs getTypes
  simp only [Bool.false_eq_true, if_false, List.mem_filter, mem_sortByName, Bool.not_eq_true', bne_iff_ne, ne_eq]
  constructor
  · rintro ⟨⟨h1, h2⟩, h3⟩; exact ⟨h1, h2, h3⟩
  · rintro ⟨h1, h2, h3⟩; exact ⟨⟨h1, h2⟩, h3⟩

theorem saveJson_full_types (K : Consts) (ts : TypeSystem) (cass : List Cas) (ci : Nat) (hp : Heap)
    (doc : JDoc) (st : Traverse.St) (h : saveJson K ts cass ci hp .full = .ok (doc, st)) :
    ∃ decls, renderTypeDecls K (fullRecs K ts) = .ok decls ∧ doc.types = some decls := by
  unfold saveJson at h
  cases hc : cass[ci]? with
  | none => rw [hc] at h; cases h
  | some c =>
    rw [hc] at h
    simp only [bind, Except.bind, pure, Except.pure] at h
    split at h
    · cases h
    · cases hst : Traverse.findAllFs K ts { includeInlinable := true } hp c.nextXid (Traverse.defaultSeeds c) with
      | error err => rw [hst] at h; cases h
      | ok st' =>
        rw [hst] at h
        simp only at h
        cases hr : renderAll K ts cass st'.heap (Xmi.sortById st'.allFs) with
        | error err => rw [hr] at h; cases h
        | ok fsElems =>
          rw [hr] at h
          simp only [renderTypes] at h
          cases hd : renderTypeDecls K ((sortByName (getTypes K ts false)).filter
              (fun t => t.name != DOCUMENT_ANNOTATION)) with
          | error err => rw [hd] at h; cases h
          | ok decls =>
            rw [hd] at h
            cases h
            exact ⟨decls, hd, rfl⟩

/-! ### What the reader does, step by step -/

/-- one step of the first pass -/
def typeStep (K : Consts) (types : List JType) (ts : TypeSystem) (n : String) : Except Err TypeSystem :=
  if K.predefined.contains n || hasExact ts n then pure ts
  else match types.find? (fun t => t.name == n) with
    | some jt => createType K ts n jt.super jt.descr
    | none => throw Err.keyError

/-- one feature of the second pass -/
def featStep (K : Consts) (dom : String) (ts : TypeSystem) (jf : JFeat) : Except Err TypeSystem :=
  let isArr := jf.range.endsWith "[]"
  let elemT := if isArr then some (String.ofList (jf.range.toList.dropLast.dropLast)) else jf.elem
  let rangeT := if isArr then arrayTypeNameFor ((elemT.getD "")) else jf.range
  let elemT := if isArr && isPrimitiveArray K rangeT then none else elemT
  createFeature ts dom jf.name rangeT elemT jf.descr jf.multi

/-- one declaration of the second pass -/
def featsStep (K : Consts) (ts : TypeSystem) (jt : JType) : Except Err TypeSystem := do
  let t ← getType ts jt.name
  jt.feats.foldlM (featStep K t.name) ts

/-- on declarations without feature names starting with `%` (nothing is shadowed, nothing is skipped) -/
theorem loadEmbeddedTs_eq (K : Consts) (types : List JType)
    (hdoc : types.any (fun t => t.name == "DocumentAnnotation") = false)
    (hnp : ∀ jt ∈ types, ∀ jf ∈ jt.feats, jf.name.startsWith "%" = false) :
    loadEmbeddedTs K types = (do
      let order ← toposort types
      let ts1 ← order.foldlM (typeStep K types) Gen.builtinTS
      types.foldlM (featsStep K) ts1) := by
  have hsup : types.any (fun t => t.feats.any (fun f => f.name == "%SUPER_TYPE")) = false := by
    rw [List.any_eq_false]
    intro t ht hc
    rw [any_name_eq_false _ "%SUPER_TYPE" (by simp) (hnp t ht)] at hc
    cases hc
  have key : ∀ (F : TypeSystem → String → Except Err TypeSystem) (G : TypeSystem → JType → Except Err TypeSystem),
      F = typeStep K types → (∀ ts1, types.foldlM G ts1 = types.foldlM (featsStep K) ts1) →
      (do
        let order ← toposort types
        let ts1 ← order.foldlM F Gen.builtinTS
        types.foldlM G ts1) = (do
        let order ← toposort types
        let ts1 ← order.foldlM (typeStep K types) Gen.builtinTS
        types.foldlM (featsStep K) ts1) := by
    intro F G hF hG
    subst hF
    simp only [bind, Except.bind]
    cases toposort types with
    | error e => rfl
    | ok order =>
      simp only
      cases List.foldlM (typeStep K types) Gen.builtinTS order with
      | error e => rfl
      | ok ts1 => exact hG ts1
  unfold loadEmbeddedTs
  simp only [hdoc, hsup, Bool.false_eq_true, if_false]
  refine key _ _ ?_ ?_
  · funext ts n
    unfold typeStep
    split
    · rfl
    · cases hf : types.find? (fun t => t.name == n) with
      | none => rfl
      | some jt =>
        have hjt : jt ∈ types := List.mem_of_find?_eq_some hf
        simp only [any_name_eq_false _ "%DESCRIPTION" (by simp) (hnp jt hjt), Bool.false_eq_true, if_false]
  · intro ts1
    apply foldlM_congr_mem'
    intro acc jt hjt
    unfold featsStep
    rw [filter_noPct _ (hnp jt hjt)]
    rfl

/-! ### The declarations against the original -/

theorem descr_norm (d : Option String) :
    d ≠ some "" → (match d with | some "" => none | d => d) = d := by
  intro h
  split
  · exact absurd rfl h
  · rfl

/-- the invariant of the simulation: the embedded type system under construction is a consistent part of `o`
    that extends the built-in table -/
structure EInv (o ts : TypeSystem) : Prop where
  cons : Consistent ts
  feat : FeatInv ts
  sub : Sub o ts
  grow : Grow Gen.consts Gen.builtinTS ts

theorem idxOf_getElem_nodup (l : List String) (hn : l.Nodup) (i : Nat) (hi : i < l.length) :
    l.idxOf l[i] = i := by
  exact List.Nodup.idxOf_getElem hn i hi

theorem rank_lt {o : TypeSystem} (hc : Consistent o) {t : TypeRec} {s : String} (ht : t ∈ o.types)
    (hs : t.super = some s) :
    (o.types.map (·.name)).idxOf s < (o.types.map (·.name)).idxOf t.name := by
  obtain ⟨i, hi, e⟩ := List.getElem_of_mem ht
  subst e
  obtain ⟨j, hji, hjl, hjn⟩ := hc.topo i hi s hs
  have hi' : i < (o.types.map (·.name)).length := by simpa using hi
  have hj' : j < (o.types.map (·.name)).length := by simpa using hjl
  have e1 : (o.types.map (·.name))[i] = (o.types[i]).name := by simp
  have e2 : (o.types.map (·.name))[j] = s := by simp [hjn]
  rw [← e1, ← e2, idxOf_getElem_nodup _ hc.nodup i hi', idxOf_getElem_nodup _ hc.nodup j hj']
  exact hji

/-- what every written declaration says, in terms of the original -/
theorem types_facts {o : TypeSystem} (ho : Hist o) (hw : Writable Gen.consts o) (jt : JType)
    (hjt : jt ∈ (fullRecs Gen.consts o).map (renderTypeDecl0 Gen.consts)) :
    ∃ t s, find? o jt.name = some t ∧ t ∈ fullRecs Gen.consts o ∧ jt = renderTypeDecl0 Gen.consts t ∧
      t.super = some s ∧ jt.super = s ∧ Gen.consts.finalTypes.contains s = false ∧ jt.descr = t.descr := by
  obtain ⟨t, ht, rfl⟩ := List.mem_map.mp hjt
  obtain ⟨hto, hp, hnd⟩ := (mem_fullRecs _ _ _).mp ht
  obtain ⟨s, hs, hnf⟩ := ho.nofinal t hto hp
  refine ⟨t, s, find?_of_mem ho.cons.nodup hto, ht, rfl, hs, ?_, hnf, ?_⟩
  · simp [renderTypeDecl0, hs]
  · exact descr_norm _ (hw.2 t hto hp hnd).1

theorem types_no_dockey {o : TypeSystem} (hw : Writable Gen.consts o) :
    ((fullRecs Gen.consts o).map (renderTypeDecl0 Gen.consts)).any (fun t => t.name == "DocumentAnnotation") = false := by
  cases h : ((fullRecs Gen.consts o).map (renderTypeDecl0 Gen.consts)).any (fun t => t.name == "DocumentAnnotation") with
  | false => rfl
  | true =>
    exfalso
    obtain ⟨jt, hjt, hn⟩ := List.any_eq_true.mp h
    obtain ⟨t, ht, rfl⟩ := List.mem_map.mp hjt
    have hto := ((mem_fullRecs _ _ _).mp ht).1
    have hn' : t.name = "DocumentAnnotation" := by simpa [renderTypeDecl0] using hn
    have : hasExact o "DocumentAnnotation" = true :=
      (hasExact_iff_mem o _).mpr (List.mem_map.mpr ⟨t, hto, hn'⟩)
    rw [hw.1] at this; cases this

/-! ### The first pass -/

theorem typesPass {o : TypeSystem} (ho : Hist o) (hw : Writable Gen.consts o) :
    ∀ (post : List String) (ts : TypeSystem), EInv o ts →
      post.Pairwise (fun a b => ∀ t ∈ (fullRecs Gen.consts o).map (renderTypeDecl0 Gen.consts),
        t.name = a → t.super = b → b = a) →
      (∀ x ∈ post, (∃ t ∈ (fullRecs Gen.consts o).map (renderTypeDecl0 Gen.consts), t.name = x) ∨
        (∃ t ∈ (fullRecs Gen.consts o).map (renderTypeDecl0 Gen.consts), t.super = x)) →
      (∀ t ∈ (fullRecs Gen.consts o).map (renderTypeDecl0 Gen.consts),
        (t.name ∉ post → hasExact ts t.name = true) ∧ (t.super ∉ post → hasExact ts t.super = true)) →
      ∃ ts', post.foldlM (typeStep Gen.consts ((fullRecs Gen.consts o).map (renderTypeDecl0 Gen.consts))) ts = .ok ts' ∧
        EInv o ts' ∧ ∀ t ∈ (fullRecs Gen.consts o).map (renderTypeDecl0 Gen.consts), hasExact ts' t.name = true := by
  intro post
  induction post with
  | nil =>
    intro ts hi _ _ hreg
    exact ⟨ts, rfl, hi, fun t ht => (hreg t ht).1 List.not_mem_nil⟩
  | cons n post ih =>
    intro ts hi hpw hsrc hreg
    rw [List.pairwise_cons] at hpw
    obtain ⟨hhead, hpw'⟩ := hpw
    have hsrc' := fun x hx => hsrc x (List.mem_cons_of_mem _ hx)
    simp only [List.foldlM_cons, bind, Except.bind]
    cases hskip : (Gen.consts.predefined.contains n || hasExact ts n) with
    | true =>
      have hn : hasExact ts n = true := by
        rcases Bool.or_eq_true_iff.mp hskip with h | h
        · exact hi.grow.reg n (builtin_pre n h)
        · exact h
      have hstep : typeStep Gen.consts ((fullRecs Gen.consts o).map (renderTypeDecl0 Gen.consts)) ts n = .ok ts := by
        unfold typeStep; rw [hskip]; rfl
      rw [hstep]
      apply ih ts hi hpw' hsrc'
      intro t ht
      obtain ⟨h1, h2⟩ := hreg t ht
      constructor
      · intro hnp
        by_cases e : t.name = n
        · rw [e]; exact hn
        · exact h1 (by simp only [List.mem_cons, not_or]; exact ⟨e, hnp⟩)
      · intro hnp
        by_cases e : t.super = n
        · rw [e]; exact hn
        · exact h2 (by simp only [List.mem_cons, not_or]; exact ⟨e, hnp⟩)
    | false =>
      obtain ⟨hpre, hnew⟩ := Bool.or_eq_false_iff.mp hskip
      -- `n` is a declared name
      have hdecl : ∃ jt ∈ (fullRecs Gen.consts o).map (renderTypeDecl0 Gen.consts), jt.name = n := by
        rcases hsrc n List.mem_cons_self with h | ⟨jt', hjt', hs'⟩
        · exact h
        · obtain ⟨t', s', _, ht', _, hts', hjs', _, _⟩ := types_facts ho hw jt' hjt'
          have hs : s' = n := by rw [← hjs', hs']
          subst hs
          have hto' := ((mem_fullRecs _ _ _).mp ht').1
          have hrego : hasExact o s' = true := ho.cons.superReg t' hto' s' hts'
          obtain ⟨tn, htn⟩ := (hasExact_iff_find _ _).mp hrego
          have hnd : tn.name ≠ DOCUMENT_ANNOTATION := by
            intro e
            have : hasExact ts s' = true := by
              rw [← find?_name htn, e]
              exact hi.grow.reg _ (by decide +kernel)
            rw [hnew] at this; cases this
          refine ⟨renderTypeDecl0 Gen.consts tn, List.mem_map.mpr ⟨tn, ?_, rfl⟩, ?_⟩
          · exact (mem_fullRecs _ _ _).mpr ⟨find?_mem htn, by rw [find?_name htn]; exact hpre, hnd⟩
          · show tn.name = s'
            exact find?_name htn
      obtain ⟨jt1, hjt1, hjn1⟩ := hdecl
      cases hfind : ((fullRecs Gen.consts o).map (renderTypeDecl0 Gen.consts)).find? (fun t => t.name == n) with
      | none =>
        exfalso
        have := List.find?_eq_none.mp hfind jt1 hjt1
        simp [hjn1] at this
      | some jt =>
        have hjt : jt ∈ (fullRecs Gen.consts o).map (renderTypeDecl0 Gen.consts) := List.mem_of_find?_eq_some hfind
        have hjn : jt.name = n := by simpa using List.find?_some hfind
        obtain ⟨t, s, hto, ht, _, hts, hjs, hnf, hjd⟩ := types_facts ho hw jt hjt
        rw [hjn] at hto
        have htm := ((mem_fullRecs _ _ _).mp ht).1
        have hsn : s ≠ n := by
          intro e
          have := rank_lt ho.cons htm hts
          rw [find?_name hto, e] at this
          exact Nat.lt_irrefl _ this
        have hsreg : hasExact ts s = true := by
          rw [← hjs]
          apply (hreg jt hjt).2
          simp only [List.mem_cons, not_or]
          refine ⟨by rw [hjs]; exact hsn, ?_⟩
          intro hmem
          have := hhead jt.super hmem jt hjt hjn rfl
          rw [hjs] at this
          exact hsn this
        obtain ⟨sup, hsup⟩ := (hasExact_iff_find _ _).mp hsreg
        obtain ⟨ts1, h1, hc1, hf1, hs1, hg1, hreg1⟩ :=
          createType_step Gen.consts o ho.feat ts n s t sup hi.cons hi.feat hi.sub hnew hsup hnf hto hts
        have hstep : typeStep Gen.consts ((fullRecs Gen.consts o).map (renderTypeDecl0 Gen.consts)) ts n = .ok ts1 := by
          unfold typeStep
          rw [hskip, hfind]
          simp only [Bool.false_eq_true, if_false]
          rw [hjs, hjd]; exact h1
        rw [hstep]
        apply ih ts1 ⟨hc1, hf1, hs1, hi.grow.trans hg1⟩ hpw' hsrc'
        intro t' ht'
        obtain ⟨h1', h2'⟩ := hreg t' ht'
        constructor
        · intro hnp
          by_cases e : t'.name = n
          · rw [e]; exact hreg1
          · exact hg1.reg _ (h1' (by simp only [List.mem_cons, not_or]; exact ⟨e, hnp⟩))
        · intro hnp
          by_cases e : t'.super = n
          · rw [e]; exact hreg1
          · exact hg1.reg _ (h2' (by simp only [List.mem_cons, not_or]; exact ⟨e, hnp⟩))

end Cassis.Json
