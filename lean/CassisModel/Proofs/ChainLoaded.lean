/-
What a loaded CAS (`LdCtx`, `ChainDefs.lean`) satisfies: it is traversed successfully under any options, the traversal
collects exactly the loaded structures under the ids of the written ones, and the hypotheses of the round-trip theorems
(`LOk`, `MembersOk`, `JsonFs`, members with sofa and ids) carry over from the CAS that was written.
-/
import CassisModel.Proofs.ChainDefs

namespace Cassis.Chain
open Cassis.TS Cassis.Traverse Cassis.Xmi Cassis.Json

section
variable {K : Consts} {ts : TypeSystem} {c : Cas} {ci : Nat} {H : Heap} {L : List (Int × Nat)} {na : Int → Nat}
  {c' : Cas} {ci' : Nat} {H' : Heap}

theorem LdCtx.seed_fwd (x : LdCtx K ts c ci H L na c' ci' H') {a : Nat} (ha : a ∈ defaultSeeds c') :
    ∃ q ∈ L, a = na q.1 := by
  unfold defaultSeeds at ha
  obtain ⟨nv', hnv', ha⟩ := List.mem_flatMap.mp ha
  obtain ⟨nv, hnv, hr⟩ := VRL.bwd x.views nv' hnv'
  have hperm := hr.2.2.2.2.2.2
  have := hperm.mem_iff.mp ha
  obtain ⟨m, hm, rfl⟩ := List.mem_map.mp this
  obtain ⟨e0, he0, hx0⟩ := mem_members.mp hm
  obtain ⟨y, hy⟩ := x.lok.members nv hnv e0 he0
  have := (x.lok.ids _ hy).1
  rw [show ((y, e0.oid) : Int × Nat).2 = e0.oid from rfl, hx0] at this
  cases this
  exact ⟨_, hy, rfl⟩

theorem LdCtx.seed_bwd (x : LdCtx K ts c ci H L na c' ci' H') {i : Int} {a : Nat} (hx : (i, a) ∈ L)
    (ha : a ∈ defaultSeeds c) : na i ∈ defaultSeeds c' := by
  unfold defaultSeeds at ha ⊢
  obtain ⟨nv, hnv, ha⟩ := List.mem_flatMap.mp ha
  obtain ⟨e, he, rfl⟩ := List.mem_map.mp ha
  obtain ⟨nv', hnv', hr⟩ := VRL.fwd x.views nv hnv
  have hperm := hr.2.2.2.2.2.2
  refine List.mem_flatMap.mpr ⟨nv', hnv', hperm.mem_iff.mpr ?_⟩
  exact List.mem_map.mpr ⟨i, mem_members.mpr ⟨e, he, (x.lok.ids _ hx).1⟩, rfl⟩

/-- the traversal of the loaded CAS succeeds, assigns no id, and stays inside the loaded structures -/
theorem LdCtx.traversal (x : LdCtx K ts c ci H L na c' ci' H') (op : Opts) :
    ∃ st' : St, findAllFs K ts op H' c'.nextXid (defaultSeeds c') = .ok st' ∧ st'.heap = H' ∧
      ∀ r ∈ st'.allFs, ∃ q ∈ L, r.2 = na q.1 := by
  have hflat := x.flat'
  have hL := x.lok
  have hrel := x.rel
  apply Traverse.findAllFs_succeeds K ts op H' c'.nextXid (defaultSeeds c') (fun b => ∃ q ∈ L, b = na q.1)
  · intro a ha
    exact x.seed_fwd ha
  · rintro a ⟨q, hq, rfl⟩
    obtain ⟨o', t, _, ho', hty, _, _⟩ := jnodeSuccs_flat_any (op := op) (hflat q hq) [] (H'.length + 1)
    have hx := rel_xid hrel hq
    refine ⟨o', q.1, t, ho', ?_, hty, ?_⟩
    · unfold xidOf at hx; rw [ho'] at hx; exact hx
    · intro allFs
      obtain ⟨o2, t2, ps, ho2, hty2, hns, hps⟩ := jnodeSuccs_flat_any (op := op) (hflat q hq) allFs (H'.length + 1)
      rw [ho'] at ho2; cases ho2
      rw [hty] at hty2; cases hty2
      refine ⟨ps, 0, hns, ?_⟩
      intro b' hb'
      obtain ⟨n, hn⟩ := hps b' hb'
      exact rel_succ_fwd hL hrel hq ho' hn
  · rintro a b ⟨q, hq, rfl⟩ ⟨q', hq', rfl⟩ h
    rw [rel_xid hrel hq, rel_xid hrel hq'] at h
    rw [Option.some.inj h]

theorem LdCtx.reach_transfer {op op' : Opts} {hp : Heap} {st : St}
    (hnx : 0 < c.nextXid) (hfa : findAllFs K ts op hp c.nextXid (defaultSeeds c) = .ok st)
    (x : LdCtx K ts c ci st.heap (sortById st.allFs) na c' ci' H')
    (lf' : Nat) {a : Nat} (hr : Reach K ts op st.heap (hp.length + 1) (defaultSeeds c) a) :
    ∀ i, (i, a) ∈ sortById st.allFs → Reach K ts op' H' lf' (defaultSeeds c') (na i) := by
  have hflat := x.flat'
  have hL := x.lok
  have hrel := x.rel
  induction hr with
  | seed a hs =>
    intro i hi
    exact Reach.seed _ (x.seed_bwd hi hs)
  | step a b hra hnull hsucc ih =>
    intro xb hxb
    have hmem := findAllFs_complete_aux K ts op hp c.nextXid _ st hnx hfa a hra hnull
    obtain ⟨⟨xa, a2⟩, hq, rfl⟩ := List.mem_map.mp hmem
    have hqa : (xa, a2) ∈ sortById st.allFs := mem_sortById.mpr hq
    have hfl := hL.flat _ hqa
    obtain ⟨o, _, ho, _⟩ := id hfl
    obtain ⟨n, hn⟩ := (jsuccsOf_flat (op := op) hfl ho _ b).mp hsucc
    obtain ⟨o', ho', hn'⟩ := rel_succ_bwd hL hrel hqa hxb ho hn
    refine Reach.step (na xa) (na xb) (ih xa hqa) ?_ ?_
    · rw [rel_xid hrel hqa]
      intro h
      exact (hL.ids _ hqa).2 (Option.some.inj h)
    · exact (jsuccsOf_flat (op := op') (hflat _ hqa) ho' lf' (na xb)).mpr ⟨n, hn'⟩

/-- … and collects exactly the loaded structures, under the ids of the written ones
    (`op` are the options of the first writer, `op'` those of the second) -/
theorem LdCtx.sorted {op op' : Opts} {hp : Heap} {st st' : St}
    (hnx : 0 < c.nextXid) (hfa : findAllFs K ts op hp c.nextXid (defaultSeeds c) = .ok st)
    (x : LdCtx K ts c ci st.heap (sortById st.allFs) na c' ci' H')
    (hnx' : 0 < c'.nextXid)
    (hfa' : findAllFs K ts op' H' c'.nextXid (defaultSeeds c') = .ok st') (hheap : st'.heap = H')
    (hS : ∀ r ∈ st'.allFs, ∃ q ∈ sortById st.allFs, r.2 = na q.1) :
    st'.allFs.Perm (st.allFs.map (fun q => (q.1, na q.1))) ∧
    sortById st'.allFs = newL na (sortById st.allFs) := by
  have hL := x.lok
  have hrel := x.rel
  have inv' := (findAllFs_inv K ts op' H' c'.nextXid _ st' hfa').1
  have inv := (findAllFs_inv K ts op hp c.nextXid _ st hfa).1
  have hperm : st'.allFs.Perm (st.allFs.map (fun q => (q.1, na q.1))) := by
    have hnd' : st'.allFs.Nodup := nodup_of_nodup_map _ _ inv'.nodupK
    have hnd : (st.allFs.map (fun q => (q.1, na q.1))).Nodup := by
      apply nodup_of_nodup_map (·.1)
      rw [List.map_map]
      exact inv.nodupK
    rw [List.perm_ext_iff_of_nodup hnd' hnd]
    rintro ⟨y, b⟩
    constructor
    · intro hr
      obtain ⟨q, hq, hb⟩ := hS _ hr
      have h1 := inv'.link y b hr
      rw [hheap, show ((y, b) : Int × Nat).2 = b from rfl] at *
      subst hb
      rw [rel_xid hrel hq] at h1
      cases h1
      exact List.mem_map.mpr ⟨q, mem_sortById.mp hq, rfl⟩
    · intro hm
      obtain ⟨q, hq, heq⟩ := List.mem_map.mp hm
      cases heq
      have hqL : q ∈ sortById st.allFs := mem_sortById.mpr hq
      have hreach := findAllFs_sound_aux K ts op hp c.nextXid _ st hnx hfa q.2
        (List.mem_map.mpr ⟨q, hq, rfl⟩)
      have hreach' := LdCtx.reach_transfer (op' := op') hnx hfa x (H'.length + 1) hreach q.1 hqL
      rw [← hheap] at hreach'
      have hxid : xidOf st'.heap (na q.1) = some q.1 := by rw [hheap]; exact rel_xid hrel hqL
      have hmem := findAllFs_complete_aux K ts op' H' c'.nextXid _ st' hnx' hfa' (na q.1)
        (by rw [hheap] at hreach' ⊢; exact hreach')
        (by rw [hxid]; intro h; exact (hL.ids _ hqL).2 (Option.some.inj h))
      obtain ⟨⟨y, b⟩, hr, hb⟩ := List.mem_map.mp hmem
      simp only at hb
      subst hb
      have := inv'.link y _ hr
      rw [hxid] at this
      cases this
      exact hr
  refine ⟨hperm, ?_⟩
  rw [sortById_perm_invariant_aux _ _ hperm inv'.nodupK]
  exact sortById_map (fun q => (q.1, na q.1)) (fun _ => rfl) st.allFs

theorem mem_newL {na : Int → Nat} {L : List (Int × Nat)} {q' : Int × Nat} :
    q' ∈ newL na L ↔ ∃ q ∈ L, q' = (q.1, na q.1) := by
  unfold newL
  rw [List.mem_map]
  constructor
  · rintro ⟨q, hq, rfl⟩; exact ⟨q, hq, rfl⟩
  · rintro ⟨q, hq, rfl⟩; exact ⟨q, hq, rfl⟩

/-- an entry of a loaded view is the counterpart of a written structure that is an entry of the written view -/
theorem LdCtx.entry_bwd (x : LdCtx K ts c ci H L na c' ci' H') {nv' : String × View} (hnv' : nv' ∈ c'.views)
    {e' : Index.Entry} (he' : e' ∈ Index.all nv'.2.idx) :
    ∃ nv ∈ c.views, VR H na nv nv' ∧ ∃ e ∈ Index.all nv.2.idx, ∃ i : Int, (i, e.oid) ∈ L ∧ e'.oid = na i := by
  obtain ⟨nv, hnv, hr⟩ := VRL.bwd x.views nv' hnv'
  refine ⟨nv, hnv, hr, ?_⟩
  have hperm := hr.2.2.2.2.2.2
  have := hperm.mem_iff.mp (List.mem_map.mpr ⟨e', he', rfl⟩)
  obtain ⟨m, hm, hme⟩ := List.mem_map.mp this
  obtain ⟨e0, he0, hx0⟩ := mem_members.mp hm
  obtain ⟨y, hy⟩ := x.lok.members nv hnv e0 he0
  have := (x.lok.ids _ hy).1
  rw [show ((y, e0.oid) : Int × Nat).2 = e0.oid from rfl, hx0] at this
  cases this
  exact ⟨e0, he0, _, hy, hme.symm⟩

/-- the loaded structures satisfy what the proofs need of collected structures -/
theorem LdCtx.lok' (x : LdCtx K ts c ci H L na c' ci' H') : LOk K ts c' ci' H' (newL na L) := by
  refine ⟨?_, ?_, ?_, ?_, ?_⟩
  · intro q' hq'
    obtain ⟨q, hq, rfl⟩ := mem_newL.mp hq'
    exact x.flat' q hq
  · intro q' hq'
    obtain ⟨q, hq, rfl⟩ := mem_newL.mp hq'
    exact ⟨rel_xid x.rel hq, (x.lok.ids q hq).2⟩
  · have : (newL na L).map (·.1) = L.map (·.1) := by
      unfold newL; rw [List.map_map]; rfl
    rw [this]; exact x.lok.nodup
  · intro q' hq' o ho n b hb
    obtain ⟨q, hq, rfl⟩ := mem_newL.mp hq'
    obtain ⟨q2, hq2, rfl⟩ := rel_succ_fwd x.lok x.rel hq ho hb
    exact ⟨q2.1, rel_xid x.rel hq2, mem_newL.mpr ⟨q2, hq2, rfl⟩⟩
  · intro nv' hnv' e' he'
    obtain ⟨_, _, _, e, _, i, hi, hei⟩ := x.entry_bwd hnv' he'
    exact ⟨i, mem_newL.mpr ⟨(i, e.oid), hi, by rw [hei]⟩⟩

theorem objRel_slot {H : Heap} {na : Int → Nat} {ci' : Nat} {o o' : Obj} {i : Int}
    (hor : ObjRel (E3 H na ci' o) o o' i) (n : String) :
    alistGet? o'.slots n = (alistGet? o.slots n).map (exp3 H na ci') := by
  obtain ⟨_, _, hkeys, hslots⟩ := hor
  cases hv : alistGet? o.slots n with
  | some v => rw [hslots n v hv]; rfl
  | none =>
    cases hv' : alistGet? o'.slots n with
    | none => rfl
    | some w =>
      obtain ⟨v, hv2⟩ := alistGet?_of_keys o.slots o'.slots n w hkeys.symm hv'
      rw [hv] at hv2; cases hv2

/-- the written structure behind an entry of a loaded view -/
theorem LdCtx.entry_obj (x : LdCtx K ts c ci H L na c' ci' H') {nv nv' : String × View} (hnv : nv ∈ c.views)
    (hr : VR H na nv nv') {e' : Index.Entry} (he' : e' ∈ Index.all nv'.2.idx) :
    ∃ e ∈ Index.all nv.2.idx, ∃ (i : Int) (o o' : Obj), (i, e.oid) ∈ L ∧ e'.oid = na i ∧ H[e.oid]? = some o ∧
      H'[e'.oid]? = some o' ∧ ObjRel (E3 H na ci' o) o o' i := by
  have hperm := hr.2.2.2.2.2.2
  have := hperm.mem_iff.mp (List.mem_map.mpr ⟨e', he', rfl⟩)
  obtain ⟨m, hm, hme⟩ := List.mem_map.mp this
  obtain ⟨e0, he0, hx0⟩ := mem_members.mp hm
  obtain ⟨y, hy⟩ := x.lok.members nv hnv e0 he0
  have := (x.lok.ids _ hy).1
  rw [show ((y, e0.oid) : Int × Nat).2 = e0.oid from rfl, hx0] at this
  cases this
  obtain ⟨o, o', ho, ho', hor⟩ := x.rel _ hy
  refine ⟨e0, he0, _, o, o', hy, hme.symm, ho, ?_, hor⟩
  rw [← hme]; exact ho'

theorem LdCtx.membersOk' (x : LdCtx K ts c ci H L na c' ci' H') (h : MembersOk c H) : MembersOk c' H' := by
  intro nv' hnv'
  obtain ⟨nv, hnv, hr⟩ := VRL.bwd x.views nv' hnv'
  have key : ∀ e' ∈ Index.all nv'.2.idx, ∃ e ∈ Index.all nv.2.idx, ∃ (o o' : Obj) (k : Index.Entry),
      H[e.oid]? = some o ∧ Cas.entryOf o e.oid = .ok k ∧ H'[e'.oid]? = some o' ∧ o'.ty = o.ty ∧
      Cas.entryOf o' e'.oid = .ok { k with oid := e'.oid } := by
    intro e' he'
    obtain ⟨e, he, i, o, o', _, _, ho, ho', hor⟩ := x.entry_obj hnv hr he'
    obtain ⟨o1, k, ho1, hk⟩ := (h nv hnv).1 e he
    rw [ho] at ho1; cases ho1
    exact ⟨e, he, o, o', k, ho, hk, ho', hor.1,
      RTB.entryOf_rel H na ci' (objRel_slot hor "begin") (objRel_slot hor "end") hk⟩
  refine ⟨?_, ?_⟩
  · intro e' he'
    obtain ⟨_, _, _, o', k, _, _, ho', _, hk'⟩ := key e' he'
    exact ⟨o', _, ho', hk'⟩
  · intro e1' he1' e2' he2' o1' o2' k1' k2' ho1' ho2' hty hk1' hk2'
    obtain ⟨e1, he1, o1, o1'', k1, ho1, hk1, ho1'', hty1, hk1''⟩ := key e1' he1'
    obtain ⟨e2, he2, o2, o2'', k2, ho2, hk2, ho2'', hty2, hk2''⟩ := key e2' he2'
    rw [ho1'] at ho1''; cases ho1''
    rw [ho2'] at ho2''; cases ho2''
    rw [hk1'] at hk1''; cases hk1''
    rw [hk2'] at hk2''; cases hk2''
    exact (h nv hnv).2 e1 he1 e2 he2 o1 o2 k1 k2 ho1 ho2 (by rw [← hty1, ← hty2]; exact hty) hk1 hk2

theorem LdCtx.mem_sofa' (x : LdCtx K ts c ci H L na c' ci' H')
    (h : ∀ nv ∈ c.views, ∀ e ∈ Index.all nv.2.idx, Xmi.slot H e.oid "sofa" ≠ some .none) :
    ∀ nv ∈ c'.views, ∀ e ∈ Index.all nv.2.idx, Xmi.slot H' e.oid "sofa" ≠ some .none := by
  intro nv' hnv' e' he'
  obtain ⟨nv, hnv, hr⟩ := VRL.bwd x.views nv' hnv'
  obtain ⟨e, he, i, o, o', hi, _, ho, ho', hor⟩ := x.entry_obj hnv hr he'
  have h0 := h nv hnv e he
  unfold Xmi.slot Traverse.slot at h0 ⊢
  rw [ho] at h0
  rw [ho']
  simp only [Option.bind_some] at h0 ⊢
  rw [objRel_slot hor "sofa"]
  cases hv : alistGet? o.slots "sofa" with
  | none => simp
  | some v =>
    obtain ⟨o2, t, ho2, _, _, _, _, _, _, _, _, _, _, _, hsl, hfeat, _⟩ := x.lok.flat _ hi
    rw [show H[((i, e.oid) : Int × Nat).2]? = H[e.oid]? from rfl, ho] at ho2; cases ho2
    obtain ⟨f, hf, hfn⟩ := flat_slot_feature hsl hv
    obtain ⟨_, _, _, _, _, _, _, _, _, _, _, v', hv', hcase⟩ := hfeat f hf
    rw [hfn, hv] at hv'; cases hv'
    rw [hv] at h0
    rcases hcase with ⟨_, hs⟩ | ⟨hne, _⟩ | ⟨hne, _⟩
    · rcases hs with ⟨vn, rfl, _⟩ | ⟨rfl, _⟩
      · simp [exp3]
      · exact absurd rfl h0
    · exact absurd hfn hne
    · exact absurd hfn hne

theorem LdCtx.mem_ids' (x : LdCtx K ts c ci H L na c' ci' H') :
    ∀ nv ∈ c'.views, ∀ e ∈ Index.all nv.2.idx, (xidOf H' e.oid).isSome = true := by
  intro nv' hnv' e' he'
  obtain ⟨nv, hnv, hr⟩ := VRL.bwd x.views nv' hnv'
  obtain ⟨e, he, i, o, o', hi, hei, _⟩ := x.entry_obj hnv hr he'
  rw [hei, rel_xid x.rel hi]; rfl

theorem LdCtx.json' (x : LdCtx K ts c ci H L na c' ci' H') (h : ∀ q ∈ L, JsonFs ts H q.2) :
    ∀ q ∈ newL na L, JsonFs ts H' q.2 := by
  intro q' hq'
  obtain ⟨q, hq, rfl⟩ := mem_newL.mp hq'
  intro o' t ho' ht
  obtain ⟨o, o2, ho, ho2, hor⟩ := x.rel q hq
  rw [show H'[((q.1, na q.1) : Int × Nat).2]? = H'[na q.1]? from rfl] at ho'
  rw [ho'] at ho2; cases ho2
  rw [hor.1] at ht ⊢
  exact h q hq o t ho ht

theorem LdCtx.sofaRange' (x : LdCtx K ts c ci H L na c' ci' H')
    (h : ∀ q ∈ L, ∀ o t, H[q.2]? = some o → find? ts o.ty = some t → ∀ f ∈ allFeatures t, SofaRangeOk K ts o f) :
    ∀ q ∈ newL na L, ∀ o t, H'[q.2]? = some o → find? ts o.ty = some t → ∀ f ∈ allFeatures t, SofaRangeOk K ts o f := by
  intro q' hq'
  obtain ⟨q, hq, rfl⟩ := mem_newL.mp hq'
  intro o' t ho' ht f hf
  obtain ⟨o, o2, ho, ho2, hor⟩ := x.rel q hq
  rw [show H'[((q.1, na q.1) : Int × Nat).2]? = H'[na q.1]? from rfl] at ho'
  rw [ho'] at ho2; cases ho2
  rw [hor.1] at ht
  intro hn hne
  apply h q hq o t ho ht f hf hn
  intro h0
  apply hne
  rw [objRel_slot hor f.name]
  cases hv : alistGet? o.slots f.name with
  | none => rfl
  | some v =>
    rw [hv] at h0
    simp only [Option.getD_some] at h0
    subst h0
    rfl

theorem LdCtx.dis' (x : LdCtx K ts c ci H L na c' ci' H')
    (h : ∀ q ∈ L, ∀ nv ∈ c.views, q.1 ≠ nv.2.sofa.xid) :
    ∀ q ∈ newL na L, ∀ nv ∈ c'.views, q.1 ≠ nv.2.sofa.xid := by
  intro q' hq' nv' hnv'
  obtain ⟨q, hq, rfl⟩ := mem_newL.mp hq'
  obtain ⟨nv, hnv, hr⟩ := VRL.bwd x.views nv' hnv'
  rw [hr.2.2.1]
  exact h q hq nv hnv

/-- the content of every feature of a loaded structure is the content of the feature of the written one -/
theorem LdCtx.content (x : LdCtx K ts c ci H L na c' ci' H') :
    ∀ q ∈ L, ∃ (o o' : Obj), H[q.2]? = some o ∧ H'[na q.1]? = some o' ∧ o'.ty = o.ty ∧ o'.xid = some q.1 ∧
      ∀ t : TypeRec, find? ts o.ty = some t → ∀ f ∈ allFeatures t,
        featContent H' (na q.1) f.name = featContent H q.2 f.name := by
  intro q hq
  have hL := x.lok
  obtain ⟨o, o', ho, ho', hty, hx, _, hslots⟩ := x.rel q hq
  refine ⟨o, o', ho, ho', hty, hx, ?_⟩
  intro t ht f hf
  obtain ⟨o2, t2, ho2, ht2, _, _, _, _, _, _, _, _, _, _, _, hfeat, _⟩ := hL.flat q hq
  rw [ho] at ho2; cases ho2
  rw [ht] at ht2; cases ht2
  have hff := hfeat f hf
  obtain ⟨_, _, _, _, _, _, _, _, _, _, _, v, hv, _⟩ := hfeat f hf
  have h1 : featContent H q.2 f.name = dvalOf H v := by
    unfold featContent Xmi.slot Traverse.slot
    rw [ho]; simp only [Option.bind_some, hv, Option.getD_some]
  have h2 : featContent H' (na q.1) f.name = dvalOf H' (exp3 H na ci' v) := by
    unfold featContent Xmi.slot Traverse.slot
    rw [ho']; simp only [Option.bind_some, hslots f.name v hv, Option.getD_some, E3]
  rw [h1, h2]
  apply dval_exp3 hff v hv
  intro b hb
  subst hb
  obtain ⟨y, hyb, hyl⟩ := hL.closed q hq o ho f.name b hv
  exact ⟨y, hyb, rel_xid x.rel hyl⟩

end

end Cassis.Chain
