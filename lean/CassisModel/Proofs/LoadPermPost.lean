/-
Element-order independence of the XMI reader on the flat fragment: the second pass (`postAll`) on the state after
the first pass over a PERMUTED document (`P1SpecP`).  Same proof as `RoundTripPost.lean`, with the two tables used
through their lookups only and the work list processed in an arbitrary order.
-/
import CassisModel.Proofs.LoadPermDefs
import CassisModel.Proofs.RoundTripPost

namespace Cassis.Xmi.LP
open Cassis.TS Cassis.Traverse Cassis.Lex Cassis.Xmi

/-! ### one flat feature -/

theorem postFeature_flatP (K : Consts) (ts : TypeSystem) (cass : List Cas) (ci : Nat) (c : Cas) (H : Heap)
    (L : List (Int × Nat)) (na : Int → Nat) (tsIdx ci' : Nat) (sofas : List (Int × PSofa)) (fss : List (Int × Nat))
    (hc : cass[ci]? = some c) (hnames : ∀ nv ∈ c.views, nv.2.sofa.sofaID = nv.1)
    (hsofas : ∀ nv ∈ c.views, sofas.find? (fun q => q.1 == nv.2.sofa.xid) = some (nv.2.sofa.xid, psofaOf nv))
    (hfss : ∀ q ∈ L, lookupFs fss q.1 = .ok (na q.1))
    (isAnn : Bool) (o : Obj) (f : Feature)
    (href : ∀ (n : String) (b : Nat), alistGet? o.slots n = some (.ref b) →
      ∃ x : Int, xidOf H b = some x ∧ x ≠ 0 ∧ ∃ q ∈ L, q.1 = x)
    (hty1 : isPrimitiveArray K o.ty = false) (hty2 : o.ty ≠ FS_ARRAY)
    (hflat : FlatFeat K ts c ci H isAnn o f)
    (hpX : Heap) (a' : Nat) (o' : Obj) (h1 : hpX[a']? = some o')
    (hE1 : ∀ v, alistGet? o.slots f.name = some v → alistGet? o'.slots f.name = some (exp1 cass H isAnn o f.name v)) :
    ∃ hpY v, postFeature K ts tsIdx ci' sofas fss hpX a' o.ty false f = .ok hpY ∧
      alistGet? o.slots f.name = some v ∧ Step hpX hpY a' f.name (exp2 cass H na ci' isAnn o f.name v) := by
  obtain ⟨_, _, _, _, _, hr1, hr2, hr3, hr4, _, _, v, hv, hcases⟩ := hflat
  have hw := hE1 v hv
  rcases hcases with ⟨hname, hs⟩ | ⟨hname, hprim, hp⟩ | ⟨hname, hprim, _, _, _, _, _, hr⟩
  · -- the sofa
    rcases hs with ⟨vn, rfl, hsome⟩ | ⟨rfl, _⟩
    · obtain ⟨view, hview⟩ := Option.isSome_iff_exists.1 hsome
      have he1 : exp1 cass H isAnn o f.name (.sofa ci vn) = .int view.sofa.xid := by
        simp [exp1, hc, hview]
      rw [he1] at hw
      have hmem : (vn, view) ∈ c.views := rtp_alistGet?_mem _ _ _ hview
      have hfind := hsofas (vn, view) hmem
      have hpf := postFeature_sofa_int K ts tsIdx ci' sofas fss hpX a' o.ty false f o' _ _ hname h1 hw hfind
      obtain ⟨hpY, hset, hstep⟩ := setSlot_step (.sofa ci' vn) h1 hw
      refine ⟨hpY, _, ?_, hv, hstep⟩
      rw [hpf]
      have : (psofaOf (vn, view)).sofaID = vn := hnames _ hmem
      simp only [this]
      rw [← hname]; exact hset
    · have he1 : exp1 cass H isAnn o f.name .none = .none := rfl
      rw [he1] at hw
      exact ⟨hpX, _, postFeature_sofa_none K ts tsIdx ci' sofas fss hpX a' o.ty false f o' hname h1 hw, hv,
        Step.same h1 hw⟩
  · -- primitives
    have key : ∀ w w', exp1 cass H isAnn o f.name v = w → exp2 cass H na ci' isAnn o f.name v = w' →
        parsePrimValue ts (ts.types.length + 1) f.range w = .ok w' →
        ∃ hpY v, postFeature K ts tsIdx ci' sofas fss hpX a' o.ty false f = .ok hpY ∧
          alistGet? o.slots f.name = some v ∧ Step hpX hpY a' f.name (exp2 cass H na ci' isAnn o f.name v) := by
      intro w w' hw1 hw2 hparse
      rw [hw1] at hw
      have hpf := postFeature_prim K ts tsIdx ci' sofas fss hpX a' o.ty f o' w w' hname hprim h1 hw hparse
      obtain ⟨hpY, hset, hstep⟩ := setSlot_step w' h1 hw
      exact ⟨hpY, v, by rw [hpf]; exact hset, hv, by rw [hw2]; exact hstep⟩
    rcases hp with rfl | ⟨hint, i, rfl⟩ | ⟨hrange, s, rfl⟩ | ⟨hrange, b, rfl⟩ | ⟨hrange, t, rfl⟩
    · exact key .none .none rfl rfl (rtp_parse_none _ _ _)
    · exact key _ _ rfl rfl (primValue_roundtrip_int_aux ts _ f.range (rtp_intRange hint) _)
    · exact key _ _ rfl rfl (by rw [hrange]; exact rtp_parse_str _ _ _)
    · exact key _ _ rfl rfl (by rw [hrange]; exact primValue_roundtrip_bool_aux _ _ _)
    · exact key _ _ rfl rfl (rtp_parse_float _ _ _ _ hrange)
  · -- references
    rcases hr with rfl | ⟨b, rfl, _, _⟩
    · have he1 : exp1 cass H isAnn o f.name .none = .none := rfl
      rw [he1] at hw
      exact ⟨hpX, _, postFeature_ref_none K ts tsIdx ci' sofas fss hpX a' o.ty f o' hname hprim hty1 hr1 hr2 h1 hw,
        hv, Step.same h1 hw⟩
    · obtain ⟨x, hx, hx0, hq⟩ := href _ _ hv
      have he1 : exp1 cass H isAnn o f.name (.ref b) = .str (showInt x) := by simp [exp1, hx]
      have he2 : exp2 cass H na ci' isAnn o f.name (.ref b) = .ref (na x) := by simp [exp2, hx]
      rw [he1] at hw
      have hlook : lookupFs fss x = .ok (na x) := by
        obtain ⟨q, hqL, rfl⟩ := hq
        exact hfss q hqL
      have hpf := postFeature_ref_str K ts tsIdx ci' sofas fss hpX a' o.ty f o' _ x _ hname hprim hty1 hr1 hr2 hty2
        hr3 hr4 h1 hw (parseIntE_showInt x) hlook
      obtain ⟨hpY, hset, hstep⟩ := setSlot_step (.ref (na x)) h1 hw
      exact ⟨hpY, _, by rw [hpf]; exact hset, hv, by rw [he2]; exact hstep⟩

/-! ### all features of one structure -/

theorem postFeatures_flatP (K : Consts) (ts : TypeSystem) (cass : List Cas) (ci : Nat) (c : Cas) (H : Heap)
    (L : List (Int × Nat)) (na : Int → Nat) (tsIdx ci' : Nat) (sofas : List (Int × PSofa)) (fss : List (Int × Nat))
    (hc : cass[ci]? = some c) (hnames : ∀ nv ∈ c.views, nv.2.sofa.sofaID = nv.1)
    (hsofas : ∀ nv ∈ c.views, sofas.find? (fun q => q.1 == nv.2.sofa.xid) = some (nv.2.sofa.xid, psofaOf nv))
    (hfss : ∀ q ∈ L, lookupFs fss q.1 = .ok (na q.1))
    (isAnn : Bool) (o : Obj) (x : Int) (a' : Nat)
    (href : ∀ (n : String) (b : Nat), alistGet? o.slots n = some (.ref b) →
      ∃ x : Int, xidOf H b = some x ∧ x ≠ 0 ∧ ∃ q ∈ L, q.1 = x)
    (hty1 : isPrimitiveArray K o.ty = false) (hty2 : o.ty ≠ FS_ARRAY) :
    ∀ (fs : List Feature), (fs.map (·.name)).Nodup → (∀ f ∈ fs, FlatFeat K ts c ci H isAnn o f) →
    ∀ (hpX : Heap) (o' : Obj), hpX[a']? = some o' → o'.ty = o.ty → o'.xid = some x →
      o'.slots.map (·.1) = o.slots.map (·.1) →
      (∀ (n : String) (v : Val), alistGet? o.slots n = some v →
        alistGet? o'.slots n = some (if n ∈ fs.map (·.name) then exp1 cass H isAnn o n v
                                     else exp2 cass H na ci' isAnn o n v)) →
    ∃ hpY, postFeatures K ts tsIdx ci' sofas fss a' o.ty false fs hpX = .ok hpY ∧ hpY.length = hpX.length ∧
      (∀ b, b ≠ a' → hpY[b]? = hpX[b]?) ∧
      ∃ o'' : Obj, hpY[a']? = some o'' ∧ ObjRel (exp2 cass H na ci' isAnn o) o o'' x := by
  intro fs
  induction fs with
  | nil =>
    intro _ _ hpX o' h1 hty hxid hkeys hslots
    refine ⟨hpX, rfl, rfl, fun _ _ => rfl, o', h1, hty, hxid, hkeys, ?_⟩
    intro n v hv
    simpa using hslots n v hv
  | cons f fs ih =>
    intro hnodup hflat hpX o' h1 hty hxid hkeys hslots
    rw [List.map_cons, List.nodup_cons] at hnodup
    have hE1 : ∀ v, alistGet? o.slots f.name = some v →
        alistGet? o'.slots f.name = some (exp1 cass H isAnn o f.name v) := by
      intro v hv
      have := hslots f.name v hv
      rwa [if_pos (by simp)] at this
    obtain ⟨hp1, v, hpf, hv, hlen, hframe, o1, o2, ho1, ho2, hty', hxid', hkeys', hget, hother⟩ :=
      postFeature_flatP K ts cass ci c H L na tsIdx ci' sofas fss hc hnames hsofas hfss isAnn o f href hty1 hty2
        (hflat f List.mem_cons_self) hpX a' o' h1 hE1
    rw [h1] at ho1; cases ho1
    obtain ⟨hpY, hpfs, hlenY, hframeY, hres⟩ := ih hnodup.2 (fun g hg => hflat g (List.mem_cons_of_mem _ hg)) hp1 o2 ho2
      (hty'.trans hty) (hxid'.trans hxid) (hkeys'.trans hkeys) (by
        intro n w hw
        by_cases hn : n = f.name
        · subst hn
          rw [hv] at hw; cases hw
          rw [hget, if_neg hnodup.1]
        · rw [hother n hn, hslots n w hw]
          simp [hn])
    refine ⟨hpY, ?_, hlenY.trans hlen, fun b hb => (hframeY b hb).trans (hframe b hb), hres⟩
    show (postFeature K ts tsIdx ci' sofas fss hpX a' o.ty false f >>= fun hp' =>
      postFeatures K ts tsIdx ci' sofas fss a' o.ty false fs hp') = _
    rw [hpf]
    exact hpfs

/-! ### one structure -/

theorem postObj_flatP (K : Consts) (ts : TypeSystem) (cass : List Cas) (ci : Nat) (c : Cas) (hp H : Heap)
    (L : List (Int × Nat)) (na : Int → Nat) (tsIdx ci' : Nat) (sofas : List (Int × PSofa)) (fss : List (Int × Nat))
    (hc : cass[ci]? = some c) (hwf : RTWf c hp) (hL : LOk K ts c ci H L)
    (hsofas : ∀ nv ∈ c.views, sofas.find? (fun q => q.1 == nv.2.sofa.xid) = some (nv.2.sofa.xid, psofaOf nv))
    (hfss : ∀ q ∈ L, lookupFs fss q.1 = .ok (na q.1))
    (q : Int × Nat) (hq : q ∈ L) (hpX : Heap) (o o' : Obj) (ho : H[q.2]? = some o) (ho' : hpX[na q.1]? = some o')
    (hrel : ObjRel (E1 ts cass H o) o o' q.1) :
    ∃ (hp1 : Heap) (t : TypeRec), getType ts o'.ty = .ok t ∧
      postFeatures K ts tsIdx ci' sofas fss (na q.1) o'.ty (isInstanceOf ts o'.ty STRING_ARRAY) (allFeatures t) hpX
        = .ok hp1 ∧ hp1.length = hpX.length ∧ (∀ b, b ≠ na q.1 → hp1[b]? = hpX[b]?) ∧
      ∃ o'' : Obj, hp1[na q.1]? = some o'' ∧ ObjRel (E2 ts cass H na ci' o) o o'' q.1 := by
  obtain ⟨o_, t, ho_, hfind, _, _, _, _, hty1, hty2, hsa, _, _, hnodup, hkeysT, hflat, _⟩ := hL.flat q hq
  rw [ho] at ho_; cases ho_
  obtain ⟨hty, hxid, hkeys, hslots⟩ := hrel
  have href : ∀ (n : String) (b : Nat), alistGet? o.slots n = some (.ref b) →
      ∃ x : Int, xidOf H b = some x ∧ x ≠ 0 ∧ ∃ q ∈ L, q.1 = x := by
    intro n b hnb
    obtain ⟨x, hx, hxL⟩ := hL.closed q hq o ho n b hnb
    exact ⟨x, hx, (hL.ids _ hxL).2, (x, b), hxL, rfl⟩
  obtain ⟨hp1, hpf, hlen, hframe, o'', ho'', hrel''⟩ :=
    postFeatures_flatP K ts cass ci c H L na tsIdx ci' sofas fss hc hwf.names hsofas hfss
      (isInstanceOf ts o.ty ANNOTATION) o q.1 (na q.1) href hty1 hty2 (allFeatures t) hnodup hflat hpX o' ho' hty hxid
      hkeys (by
        intro n v hv
        have hmem : n ∈ (allFeatures t).map (·.name) := by
          have h1 := rtp_alistGet?_key _ _ _ hv
          rw [hkeysT] at h1
          exact List.mem_eraseDups.1 h1
        rw [if_pos hmem]
        exact hslots n v hv)
  refine ⟨hp1, t, ?_, ?_, hlen, hframe, o'', ho'', hrel''⟩
  · rw [hty]; exact rtp_getType hfind
  · rw [hty, hsa]; exact hpf

/-! ### all structures, in an arbitrary order -/

/-- the loop over an arbitrary work list: structures whose entry is still to come are in the state after the first
    pass (`E1`), the others in the state after the second pass (`E2`) -/
theorem postAll_perm_aux (K : Consts) (ts : TypeSystem) (cass : List Cas) (ci : Nat) (c : Cas) (hp H : Heap)
    (L : List (Int × Nat)) (na : Int → Nat) (n0 : Nat) (tsIdx ci' : Nat) (sofas : List (Int × PSofa))
    (fss : List (Int × Nat))
    (hc : cass[ci]? = some c) (hwf : RTWf c hp) (hnull : NullOk ts) (hL : LOk K ts c ci H L) (hna : NaOkP n0 L na)
    (hsofas : ∀ nv ∈ c.views, sofas.find? (fun q => q.1 == nv.2.sofa.xid) = some (nv.2.sofa.xid, psofaOf nv))
    (hfss : ∀ q ∈ L, lookupFs fss q.1 = .ok (na q.1))
    (o0 : Obj) (hty0 : o0.ty = NULL_T) :
    ∀ (w : List (Int × Nat)), (∀ r ∈ w, FssEntry n0 L na r) → (w.map (·.1)).Nodup → ∀ (hpX : Heap),
      hpX[n0]? = some o0 →
      (∀ q ∈ L, ∃ (o o' : Obj), H[q.2]? = some o ∧ hpX[na q.1]? = some o' ∧
        (q.1 ∈ w.map (·.1) → ObjRel (E1 ts cass H o) o o' q.1) ∧
        (q.1 ∉ w.map (·.1) → ObjRel (E2 ts cass H na ci' o) o o' q.1)) →
      ∃ hpY, postAll K ts tsIdx ci' sofas fss w hpX = .ok hpY ∧ hpY.length = hpX.length ∧
        hpY[n0]? = hpX[n0]? ∧ HeapRel H L na (E2 ts cass H na ci') hpY := by
  obtain ⟨t0, hfind0, hfeat0⟩ := hnull
  intro w
  induction w with
  | nil =>
    intro _ _ hpX _ hinv
    refine ⟨hpX, ?_, rfl, rfl, ?_⟩
    · rw [postAll]
    · intro q hq
      obtain ⟨o, o', ho, ho', _, h2⟩ := hinv q hq
      exact ⟨o, o', ho, ho', h2 (by simp)⟩
  | cons r w ih =>
    intro hent hnodup hpX h0 hinv
    rw [List.map_cons, List.nodup_cons] at hnodup
    have hent' : ∀ r' ∈ w, FssEntry n0 L na r' := fun r' hr' => hent r' (List.mem_cons_of_mem _ hr')
    rcases hent r List.mem_cons_self with rfl | ⟨q0, hq0, rfl⟩
    · -- the `cas:NULL` entry: nothing happens
      have hstep := postAll_cons K ts tsIdx ci' sofas fss 0 n0 w hpX hpX o0 t0 h0
        (by rw [hty0]; exact rtp_getType hfind0) (by rw [hfeat0]; rfl)
      obtain ⟨hpY, hpa, hlenY, h0Y, hrelY⟩ := ih hent' hnodup.2 hpX h0 (by
        intro q hq
        obtain ⟨o, o', ho, ho', h1, h2⟩ := hinv q hq
        have hq0 : q.1 ≠ 0 := (hL.ids q hq).2
        refine ⟨o, o', ho, ho', fun hm => h1 ?_, fun hm => h2 ?_⟩
        · rw [List.map_cons]; exact List.mem_cons_of_mem _ hm
        · intro hm'
          rw [List.map_cons] at hm'
          rcases List.mem_cons.1 hm' with e | e
          · exact hq0 e
          · exact hm e)
      exact ⟨hpY, by rw [hstep]; exact hpa, hlenY, h0Y, hrelY⟩
    · -- the entry of a collected structure
      obtain ⟨o, o', ho, ho', hE1, _⟩ := hinv q0 hq0
      have hor : ObjRel (E1 ts cass H o) o o' q0.1 := hE1 (by simp)
      obtain ⟨hp1, t, hgt, hpf, hlen1, hframe1, o'', ho'', hor''⟩ :=
        postObj_flatP K ts cass ci c hp H L na tsIdx ci' sofas fss hc hwf hL hsofas hfss q0 hq0 hpX o o' ho ho' hor
      have h01 : hp1[n0]? = hpX[n0]? := hframe1 n0 (hna.ne0 q0 hq0)
      obtain ⟨hpY, hpa, hlenY, h0Y, hrelY⟩ := ih hent' hnodup.2 hp1 (h01.trans h0) (by
        intro q hq
        by_cases hqq : q.1 = q0.1
        · have hqe : q = q0 := nodup_map_inj (fun q : Int × Nat => q.1) hL.nodup q hq q0 hq0 hqq
          subst hqe
          refine ⟨o, o'', ho, ho'', fun hm => absurd hm hnodup.1, fun _ => hor''⟩
        · obtain ⟨p, p', hp_, hp', h1, h2⟩ := hinv q hq
          have hne : na q.1 ≠ na q0.1 := fun he => hqq (hna.inj q hq q0 hq0 he)
          refine ⟨p, p', hp_, by rw [hframe1 _ hne]; exact hp', fun hm => h1 ?_, fun hm => h2 ?_⟩
          · rw [List.map_cons]; exact List.mem_cons_of_mem _ hm
          · intro hm'
            rw [List.map_cons] at hm'
            rcases List.mem_cons.1 hm' with e | e
            · exact hqq e
            · exact hm e)
      refine ⟨hpY, ?_, hlenY.trans hlen1, h0Y.trans h01, hrelY⟩
      rw [postAll_cons K ts tsIdx ci' sofas fss q0.1 (na q0.1) w hpX hp1 o' t ho' hgt hpf]
      exact hpa

theorem postAll_perm (K : Consts) (ts : TypeSystem) (cass : List Cas) (ci : Nat) (c : Cas) (hp H : Heap)
    (L : List (Int × Nat)) (na : Int → Nat) (n0 : Nat) (tsIdx ci' : Nat) (p : Pass1)
    (hc : cass[ci]? = some c) (hwf : RTWf c hp) (hnull : NullOk ts) (hL : LOk K ts c ci H L)
    (hna : NaOkP n0 L na) (hp1 : P1SpecP ts cass c H L na n0 p) :
    ∃ hp2 : Heap, postAll K ts tsIdx ci' p.sofas p.fss p.fss p.heap = .ok hp2 ∧ hp2.length = p.heap.length ∧
      hp2[n0]? = p.heap[n0]? ∧ HeapRel H L na (E2 ts cass H na ci') hp2 := by
  obtain ⟨o0, ho0, hty0, _, _⟩ := hp1.null
  refine postAll_perm_aux K ts cass ci c hp H L na n0 tsIdx ci' p.sofas p.fss hc hwf hnull hL hna
    (fun nv hnv => hp1.find_sofa_xid hwf.sofa_ids_nodup hnv) (fun q hq => hp1.lookup hL hq) o0 hty0
    p.fss hp1.fss_entry (hp1.fss_nodup hL) p.heap ho0 ?_
  intro q hq
  obtain ⟨o, o', ho, ho', hor⟩ := hp1.rel q hq
  refine ⟨o, o', ho, ho', fun _ => hor, fun hm => absurd ?_ hm⟩
  exact List.mem_map.2 ⟨(q.1, na q.1), hp1.mem_fss hq, rfl⟩

end Cassis.Xmi.LP
