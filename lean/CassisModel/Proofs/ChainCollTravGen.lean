/-
C16 with collections: a sufficient condition for `findAllFs` to succeed when some of the reachable structures carry no
id yet (cf. `findAllFs_succeeds`, `RoundTripFixTrav.lean`, where all of them carry one).  The structures lie in a set `S`
that is closed under the successor computation (against the empty visited map, in the heap handed to the traversal);
the ids present in `S` are pairwise different and below the id generator, so the ids the traversal assigns collide with
none of them.
-/
import CassisModel.Proofs.RoundTripFixTrav

namespace Cassis.Traverse
open Cassis.TS

/-- the safety invariant with id assignment -/
structure SafeG (hp : Heap) (S : Nat → Prop) (nx : Int) (s : St) : Prop where
  shape : SameShape hp s.heap
  openS : ∀ a ∈ s.openl, S a
  allS : ∀ q ∈ s.allFs, S q.2 ∧ xidOf s.heap q.2 = some q.1
  below : ∀ a, S a → ∀ x, xidOf s.heap a = some x → x < s.nextXid
  inj : ∀ a b, S a → S b → ∀ x, xidOf s.heap a = some x → xidOf s.heap b = some x → a = b
  pos : 0 < s.nextXid
  nonnull : ∀ a, S a → xidOf s.heap a ≠ some 0
  ge : nx ≤ s.nextXid
  fresh : ∀ a, S a → ∀ x, xidOf s.heap a = some x → xidOf hp a = some x ∨ nx ≤ x

theorem xidOf_set_selfG {hp : Heap} {a : Nat} {ob : Obj} (h : hp[a]? = some ob) (y : Option Int) :
    xidOf (hp.set a { ob with xid := y }) a = y := by
  unfold xidOf
  rw [List.getElem?_set_self (List.getElem?_eq_some_iff.mp h).1]
  rfl

theorem xidOf_set_neG {hp : Heap} {a b : Nat} (o : Obj) (h : a ≠ b) : xidOf (hp.set a o) b = xidOf hp b := by
  unfold xidOf
  rw [List.getElem?_set_ne h]

theorem SafeG.found {hp : Heap} {S : Nat → Prop} {nx : Int} {s2 : St} {a : Nat} {x x' : Int} {b : Nat} (safe2 : SafeG hp S nx s2)
    (hSa : S a) (hxa : xidOf s2.heap a = some x) (hf : s2.allFs.find? (fun p => p.1 == x) = some (x', b)) : b = a := by
  have hmem : (x', b) ∈ s2.allFs := List.mem_of_find?_eq_some hf
  have hx' : x' = x := by
    have := List.find?_some hf
    simpa using this
  obtain ⟨hSb, hxb⟩ := safe2.allS _ hmem
  exact safe2.inj b a hSb hSa x (by rw [hxb, hx']) hxa

theorem SafeG.push {hp : Heap} {S : Nat → Prop} {nx : Int} {s2 : St} {a : Nat} {x : Int} (safe2 : SafeG hp S nx s2)
    (hSa : S a) (hxa : xidOf s2.heap a = some x) (ps : List Nat) (hps : ∀ b ∈ ps, S b) (p l : Nat) :
    SafeG hp S nx { s2 with allFs := s2.allFs ++ [(x, a)], openl := s2.openl ++ ps, pushes := p, listSteps := l } := by
  refine ⟨safe2.shape, ?_, ?_, safe2.below, safe2.inj, safe2.pos, safe2.nonnull, safe2.ge, safe2.fresh⟩
  · intro b hb
    rcases List.mem_append.mp hb with hb | hb
    · exact safe2.openS b hb
    · exact hps b hb
  · intro q hq
    rcases List.mem_append.mp hq with hq | hq
    · exact safe2.allS q hq
    · have : q = (x, a) := by simpa using hq
      subst this
      exact ⟨hSa, hxa⟩

theorem step_safeG (K : Consts) (ts : TypeSystem) (o : Opts) (hgen : o.generateIds = true) (hp : Heap) (S : Nat → Prop)
    (hS : ∀ a, S a → ∃ (ob : Obj) (t : TypeRec) (ps : List Nat) (n : Nat), hp[a]? = some ob ∧
      getType ts ob.ty = .ok t ∧ nodeSuccs K ts o hp [] (hp.length + 1) a t = .ok (ps, n) ∧ ∀ b ∈ ps, S b)
    (nx : Int) (s : St) (a : Nat) (rest : List Nat) (ho : s.openl = a :: rest) (safe : SafeG hp S nx s) :
    ∃ s1, step K ts o (hp.length + 1) s a rest = .ok s1 ∧ SafeG hp S nx s1 := by
  have hSa : S a := safe.openS a (by rw [ho]; exact List.mem_cons_self)
  have hrest : ∀ b ∈ rest, S b := fun b hb => safe.openS b (by rw [ho]; exact List.mem_cons_of_mem _ hb)
  obtain ⟨ob0, t, ps, n, hob0, hty, hns, hps⟩ := hS a hSa
  obtain ⟨ob, hob, hobty, _, _⟩ := safe.shape.2 a ob0 hob0
  have hty' : getType ts ob.ty = .ok t := by rw [hobty]; exact hty
  have hnsEq : ∀ (hp2 : Heap) (allFs : List (Int × Nat)), SameShape hp hp2 →
      nodeSuccs K ts o hp2 allFs (hp.length + 1) a t = .ok (ps.filter (keep hp2 allFs), n) := by
    intro hp2 allFs sh
    rw [nodeSuccs_filter K ts o hp2 hp (fun a n => sh.slot a n), hns]
    rfl
  have hpsf : ∀ (q : Nat → Bool), ∀ b ∈ ps.filter q, S b := fun q b hb => hps b (List.mem_filter.mp hb).1
  unfold step
  simp only [bind, Except.bind, pure, Except.pure, throw, throwThe, MonadExceptOf.throw, hob]
  by_cases h0 : (ob.xid == some 0) = true
  · rw [if_pos h0]
    exact ⟨_, rfl, safe.shape, hrest, safe.allS, safe.below, safe.inj, safe.pos, safe.nonnull, safe.ge, safe.fresh⟩
  · rw [if_neg h0]
    cases hx : ob.xid with
    | some x =>
      dsimp only
      have hxa : xidOf s.heap a = some x := by unfold xidOf; rw [hob]; exact hx
      have safe2 : SafeG hp S nx { s with openl := rest, pops := s.pops + 1 } :=
        ⟨safe.shape, hrest, safe.allS, safe.below, safe.inj, safe.pos, safe.nonnull, safe.ge, safe.fresh⟩
      cases hf : s.allFs.find? (fun p => p.1 == x) with
      | some q =>
        obtain ⟨x', b⟩ := q
        have hba : b = a := safe2.found hSa hxa hf
        subst hba
        simp only [beq_self_eq_true, if_true]
        exact ⟨_, rfl, safe2⟩
      | none =>
        simp only [hty', hnsEq _ _ safe.shape]
        exact ⟨_, rfl, safe2.push hSa hxa _ (hpsf _) _ _⟩
    | none =>
      dsimp only
      rw [hgen]
      simp only [if_true]
      have hxa0 : xidOf s.heap a = none := by unfold xidOf; rw [hob]; exact hx
      have sh1 : SameShape s.heap (s.heap.set a { ob with xid := some s.nextXid }) := SameShape.set hob hx _
      have hxid1 : ∀ b, b ≠ a → xidOf (s.heap.set a { ob with xid := some s.nextXid }) b = xidOf s.heap b :=
        fun b hb => xidOf_set_neG _ (Ne.symm hb)
      have hxa1 : xidOf (s.heap.set a { ob with xid := some s.nextXid }) a = some s.nextXid := xidOf_set_selfG hob _
      have safe2 : SafeG hp S nx
          { s with openl := rest, pops := s.pops + 1, nextXid := s.nextXid + 1, heap := s.heap.set a { ob with xid := some s.nextXid } } := by
        refine ⟨safe.shape.trans sh1, hrest, ?_, ?_, ?_, ?_, ?_, ?_, ?_⟩
        · intro q hq
          obtain ⟨h1, h2⟩ := safe.allS q hq
          refine ⟨h1, ?_⟩
          show xidOf (s.heap.set a { ob with xid := some s.nextXid }) q.2 = some q.1
          by_cases e : q.2 = a
          · rw [e, hxa0] at h2; cases h2
          · rw [hxid1 _ e]; exact h2
        · intro b hSb x hxb
          show x < s.nextXid + 1
          have hxb' : xidOf (s.heap.set a { ob with xid := some s.nextXid }) b = some x := hxb
          by_cases e : b = a
          · rw [e, hxa1] at hxb'
            cases hxb'
            omega
          · rw [hxid1 _ e] at hxb'
            have := safe.below b hSb x hxb'
            omega
        · intro b c hSb hSc x hxb hxc
          have hxb' : xidOf (s.heap.set a { ob with xid := some s.nextXid }) b = some x := hxb
          have hxc' : xidOf (s.heap.set a { ob with xid := some s.nextXid }) c = some x := hxc
          by_cases eb : b = a <;> by_cases ec : c = a
          · rw [eb, ec]
          · rw [eb, hxa1] at hxb'
            cases hxb'
            rw [hxid1 _ ec] at hxc'
            have := safe.below c hSc _ hxc'
            omega
          · rw [ec, hxa1] at hxc'
            cases hxc'
            rw [hxid1 _ eb] at hxb'
            have := safe.below b hSb _ hxb'
            omega
          · rw [hxid1 _ eb] at hxb'
            rw [hxid1 _ ec] at hxc'
            exact safe.inj b c hSb hSc x hxb' hxc'
        · show 0 < s.nextXid + 1
          have := safe.pos
          omega
        · intro b hSb hb0
          have hb0' : xidOf (s.heap.set a { ob with xid := some s.nextXid }) b = some 0 := hb0
          by_cases e : b = a
          · rw [e, hxa1] at hb0'
            have h00 : s.nextXid = 0 := Option.some.inj hb0'
            have := safe.pos
            omega
          · rw [hxid1 _ e] at hb0'
            exact safe.nonnull b hSb hb0'
        · show nx ≤ s.nextXid + 1
          have := safe.ge
          omega
        · intro b hSb x hxb
          have hxb' : xidOf (s.heap.set a { ob with xid := some s.nextXid }) b = some x := hxb
          by_cases e : b = a
          · rw [e, hxa1] at hxb'
            have h00 : s.nextXid = x := Option.some.inj hxb'
            right
            have := safe.ge
            omega
          · rw [hxid1 _ e] at hxb'
            exact safe.fresh b hSb x hxb'
      cases hf : s.allFs.find? (fun p => p.1 == s.nextXid) with
      | some q =>
        obtain ⟨x', b⟩ := q
        have hba : b = a := safe2.found hSa hxa1 hf
        subst hba
        simp only [beq_self_eq_true, if_true]
        exact ⟨_, rfl, safe2⟩
      | none =>
        simp only [hty', hnsEq _ _ (safe.shape.trans sh1)]
        exact ⟨_, rfl, safe2.push hSa hxa1 _ (hpsf _) _ _⟩

theorem run_safeG (K : Consts) (ts : TypeSystem) (o : Opts) (hgen : o.generateIds = true) (hp : Heap) (S : Nat → Prop)
    (hS : ∀ a, S a → ∃ (ob : Obj) (t : TypeRec) (ps : List Nat) (n : Nat), hp[a]? = some ob ∧
      getType ts ob.ty = .ok t ∧ nodeSuccs K ts o hp [] (hp.length + 1) a t = .ok (ps, n) ∧ ∀ b ∈ ps, S b)
    (nx : Int) (seeds : Nat) (f : Nat) (s : St)
    (inv : Inv K ts o hp (hp.length + 1) seeds s)
    (hf : seeds + totalOut K ts o hp (hp.length + 1) ≤ f + s.pops) (safe : SafeG hp S nx s) :
    ∃ s', run K ts o (hp.length + 1) f s = .ok s' ∧ SafeG hp S nx s' := by
  induction f generalizing s with
  | zero =>
    unfold run
    have h1 := inv.count
    have h2 := inv.pot
    have : s.openl.length = 0 := by omega
    have : s.openl = [] := List.eq_nil_of_length_eq_zero this
    rw [this]
    exact ⟨s, rfl, safe⟩
  | succ f ih =>
    unfold run
    split
    · exact ⟨s, rfl, safe⟩
    · rename_i a rest ho
      obtain ⟨s1, hs, safe1⟩ := step_safeG K ts o hgen hp S hS nx s a rest ho safe
      obtain ⟨inv1, hp1⟩ := inv_step K ts o hp _ seeds s a rest s1 ho inv hs
      rw [hs]
      exact ih s1 inv1 (by rw [hp1]; omega) safe1

/-- the traversal succeeds when the seeds lie in a set `S` of structures with registered types whose successor
    computation succeeds and stays inside `S`, and the ids present in `S` are pairwise different and below the
    generator; everything collected lies in `S` -/
theorem findAllFs_succeeds_gen (K : Consts) (ts : TypeSystem) (o : Opts) (hgen : o.generateIds = true) (hp : Heap)
    (nx : Int) (seeds : List Nat) (S : Nat → Prop) (hseeds : ∀ a ∈ seeds, S a)
    (hS : ∀ a, S a → ∃ (ob : Obj) (t : TypeRec) (ps : List Nat) (n : Nat), hp[a]? = some ob ∧
      getType ts ob.ty = .ok t ∧ nodeSuccs K ts o hp [] (hp.length + 1) a t = .ok (ps, n) ∧ ∀ b ∈ ps, S b)
    (hbelow : ∀ a, S a → ∀ x, xidOf hp a = some x → x < nx)
    (hinj : ∀ a b, S a → S b → ∀ x, xidOf hp a = some x → xidOf hp b = some x → a = b)
    (hnx : 0 < nx) (hnz : ∀ a, S a → xidOf hp a ≠ some 0) :
    ∃ st : St, findAllFs K ts o hp nx seeds = .ok st ∧ (∀ q ∈ st.allFs, S q.2) ∧
      (∀ a, S a → xidOf st.heap a ≠ some 0) ∧
      ∀ a, S a → ∀ x, xidOf st.heap a = some x → xidOf hp a = some x ∨ nx ≤ x := by
  obtain ⟨st, hrun, safe⟩ := run_safeG K ts o hgen hp S hS nx seeds.length _
    { heap := hp, nextXid := nx, openl := seeds } (inv_init K ts o hp _ nx seeds) (Nat.le_refl _)
    ⟨SameShape.refl _, hseeds, (fun q hq => by cases hq), hbelow, hinj, hnx, hnz, Int.le_refl _, fun a _ x hx => .inl hx⟩
  exact ⟨st, hrun, fun q hq => (safe.allS q hq).1, safe.nonnull, safe.fresh⟩

end Cassis.Traverse
