/-
Round trip with collections, layer G1, reader: the first pass on a general structure (`ParseGenStmt`).
-/
import CassisModel.Proofs.RoundTripCollElemGenR2

namespace Cassis.Xmi.CG1
open Cassis.TS Cassis.Traverse Cassis.Lex

theorem intify_ok (A : List (String × String)) (G : List (String × Val)) (hG : "sofa" ∉ G.map (·.1))
    (hsofa : ∀ s, alistGet? A "sofa" = some s → (parseInt s).isSome = true) :
    intify (A.map (fun p => (p.1, Val.str p.2)) ++ G) "sofa" = .ok (mergedOf A ++ G) := by
  unfold intify
  rw [alistGet?_append_not_key _ _ _ hG, alistGet?_mapStr]
  cases hs : alistGet? A "sofa" with
  | none => rw [mergedOf_none A hs]; rfl
  | some s =>
    have := hsofa s hs
    cases hi : parseInt s with
    | none => rw [hi] at this; cases this
    | some i =>
      have h1 : alistGet? (A.map (fun p => (p.1, Val.str p.2))) "sofa" = some (Val.str s) := by
        rw [alistGet?_mapStr, hs]; rfl
      rw [mergedOf_some A s i hs hi]
      simp only [Option.map_some, parseIntE, hi, Except.map, alistSet_append_of_some _ _ _ _ _ h1]

theorem rename_rename_id (M : List (String × Val)) (h : ∀ p ∈ M, p.1 ≠ "self" ∧ p.1 ≠ "type") :
    rename (rename M "self" "self_") "type" "type_" = M := by
  unfold rename
  rw [rename_id _ "self" "self_" (fun p hp => (h p hp).1), rename_id _ "type" "type_" (fun p hp => (h p hp).2)]

/-- the structure the first pass builds out of the keyword arguments `m` -/
def gObj (t : TypeRec) (tsIdx : Nat) (x : Int) (m : List (String × Val)) : Obj :=
  { ty := t.name, ts := tsIdx, xid := some x,
    slots := (ctorFields t).eraseDups.map (fun n => (n, (alistGet? m n).getD .none)) }

theorem parse_gen : ParseGenStmt := by
  intro K ts tsIdx t x ty ca ck ht hpa R hpCur
  have hnd : ((allFeatures t).map (·.name)).Nodup := R.nodup
  have hgsub : ∀ f ∈ gF ck (allFeatures t), f ∈ allFeatures t ∧ ck f ≠ [] := fun f hf => mem_gF.mp hf
  have hgnd : ((gF ck (allFeatures t)).map (·.name)).Nodup :=
    List.Nodup.sublist (List.Sublist.map _ List.filter_sublist) hnd
  -- keys
  have hAk : ∀ p ∈ gAttrs ca (allFeatures t), ∃ f ∈ allFeatures t, p.1 = f.name ∧ ca f = some p.2 :=
    gAttrs_mem ca (allFeatures t)
  have hG0k : (gG0 ck (allFeatures t)).map (·.1) = (gF ck (allFeatures t)).map (·.name) := by
    unfold gG0; rw [List.map_map]; rfl
  have hGk : ((gG0 ck (allFeatures t)).map (fun p => (p.1, Val.strs p.2))).map (·.1)
      = (gF ck (allFeatures t)).map (·.name) := by
    rw [List.map_map, ← hG0k]; rfl
  have hgA : ∀ f ∈ gF ck (allFeatures t), f.name ∉ (gAttrs ca (allFeatures t)).map (·.1) := by
    intro f hf hm
    obtain ⟨p, hp, hpe⟩ := List.mem_map.mp hm
    obtain ⟨g, hg, hgn, hgc⟩ := hAk p hp
    have : g = f := feat_inj_of_nodup (allFeatures t) hnd g hg f (hgsub f hf).1 (by rw [← hgn, hpe])
    subst this
    rw [R.excl g hg (hgsub g hf).2] at hgc; cases hgc
  have hgroup : groupKids (gKids ck (allFeatures t)) [] = gG0 ck (allFeatures t) := by
    rw [groupKids_gKids ck _ [] hnd (fun _ _ h => by cases h), List.nil_append]
  have hG0mem : ∀ p ∈ gG0 ck (allFeatures t), ∃ f ∈ gF ck (allFeatures t), p.1 = f.name := by
    intro p hp
    obtain ⟨f, hf, rfl⟩ := List.mem_map.mp hp
    exact ⟨f, hf, rfl⟩
  have hmerge : (gG0 ck (allFeatures t)).foldl (fun acc p => alistSet acc p.1 (Val.strs p.2))
      ((ID, Val.str (showInt x)) :: (gAttrs ca (allFeatures t)).map (fun p => (p.1, Val.str p.2)))
      = ((ID, Val.str (showInt x)) :: (gAttrs ca (allFeatures t)).map (fun p => (p.1, Val.str p.2)))
        ++ (gG0 ck (allFeatures t)).map (fun p => (p.1, Val.strs p.2)) := by
    apply merge_groups _ _ (by rw [hG0k]; exact hgnd)
    intro p hp hm
    obtain ⟨f, hf, hpf⟩ := hG0mem p hp
    rw [List.map_cons, List.map_map, List.mem_cons] at hm
    rcases hm with hm | hm
    · exact (R.names f (hgsub f hf).1).1 (hpf ▸ hm)
    · exact hgA f hf (hpf ▸ hm)
  have hGnoId : ∀ q ∈ (gG0 ck (allFeatures t)).map (fun p => (p.1, Val.strs p.2)), q.1 ≠ ID := by
    intro q hq
    obtain ⟨p, hp, rfl⟩ := List.mem_map.mp hq
    obtain ⟨f, hf, hpf⟩ := hG0mem p hp
    exact hpf ▸ (R.names f (hgsub f hf).1).1
  have hfil : List.filter (fun p => p.fst != ID)
      ((ID, Val.str (showInt x)) :: ((gAttrs ca (allFeatures t)).map (fun p => (p.1, Val.str p.2))
        ++ (gG0 ck (allFeatures t)).map (fun p => (p.1, Val.strs p.2))))
      = (gAttrs ca (allFeatures t)).map (fun p => (p.1, Val.str p.2))
        ++ (gG0 ck (allFeatures t)).map (fun p => (p.1, Val.strs p.2)) := by
    rw [List.filter_cons_of_neg (by simp), List.filter_append, filter_noId, List.filter_eq_self.mpr]
    · intro q hq; simp only [bne_iff_ne, ne_eq]; exact hGnoId q hq
    · intro p hp
      obtain ⟨f, hf, hpf, _⟩ := hAk p hp
      exact hpf ▸ (R.names f hf).1
  have hpi : parseIntE (showInt x) = .ok x := by unfold parseIntE; rw [parseInt_showInt_aux]
  have hint : intify ((gAttrs ca (allFeatures t)).map (fun p => (p.1, Val.str p.2))
        ++ (gG0 ck (allFeatures t)).map (fun p => (p.1, Val.strs p.2))) "sofa"
      = .ok (mergedOf (gAttrs ca (allFeatures t)) ++ (gG0 ck (allFeatures t)).map (fun p => (p.1, Val.strs p.2))) := by
    apply intify_ok
    · rw [hGk]
      intro hm
      obtain ⟨f, hf, hfn⟩ := List.mem_map.mp hm
      exact (R.kid f (hgsub f hf).1 (hgsub f hf).2).1 hfn
    · intro s hs
      obtain ⟨f, hf, hfn, hfc⟩ := hAk _ (Cassis.Cas.alistGet?_some_mem hs)
      exact R.sofa f hf hfn.symm s hfc
  have hM0feat : ∀ p ∈ mergedOf (gAttrs ca (allFeatures t)) ++ (gG0 ck (allFeatures t)).map (fun p => (p.1, Val.strs p.2)),
      ∃ f ∈ allFeatures t, p.1 = f.name := by
    intro p hp
    have : p.1 ∈ (mergedOf (gAttrs ca (allFeatures t))
        ++ (gG0 ck (allFeatures t)).map (fun p => (p.1, Val.strs p.2))).map (·.1) := List.mem_map_of_mem hp
    rw [List.map_append, mergedOf_keys, hGk, List.mem_append] at this
    rcases this with h | h
    · obtain ⟨q, hq, hqe⟩ := List.mem_map.mp h
      obtain ⟨f, hf, hfn, _⟩ := hAk q hq
      exact ⟨f, hf, by rw [← hqe, hfn]⟩
    · obtain ⟨f, hf, hfn⟩ := List.mem_map.mp h
      exact ⟨f, (hgsub f hf).1, hfn.symm⟩
  have hren := rename_rename_id _ (fun p hp => by
    obtain ⟨f, hf, hfn⟩ := hM0feat p hp
    rw [hfn]; exact (R.names f hf).2)
  obtain ⟨ext, m', hfold, hext, hkeys, hget, hK⟩ := kidFold K t tsIdx ck (gF ck (allFeatures t)) hgnd
    (fun f hf => ⟨getFeature_of_mem t R.nodup f (hgsub f hf).1, (R.names f (hgsub f hf).1).2.1,
      (R.names f (hgsub f hf).1).2.2, (R.kid f (hgsub f hf).1 (hgsub f hf).2).2⟩) hpCur
    (mergedOf (gAttrs ca (allFeatures t)) ++ (gG0 ck (allFeatures t)).map (fun p => (p.1, Val.strs p.2)))
    (fun f hf => by
      rw [List.map_append, hGk, List.mem_append]; exact Or.inr (List.mem_map_of_mem hf))
  have hfold' : List.foldlM (kidStep K t tsIdx) (hpCur, mergedOf (gAttrs ca (allFeatures t))
      ++ (gG0 ck (allFeatures t)).map (fun p => (p.1, Val.strs p.2))) (gG0 ck (allFeatures t))
      = .ok (hpCur ++ ext, m') := hfold
  have hcon : construct t tsIdx (some x) m' = .ok (gObj t tsIdx x m') := by
    unfold construct
    simp only
    rw [if_neg]
    · rfl
    simp only [List.any_eq_true, Bool.not_eq_true', not_exists, not_and, Bool.not_eq_false]
    intro p hp
    rw [List.contains_iff_mem, List.mem_eraseDups]
    have : p.1 ∈ m'.map (·.1) := List.mem_map_of_mem hp
    rw [hkeys] at this
    obtain ⟨q, hq, hqe⟩ := List.mem_map.mp this
    obtain ⟨f, hf, hfn⟩ := hM0feat q hq
    rw [← hqe, hfn]
    exact List.mem_map_of_mem hf
  refine ⟨ext, gObj t tsIdx x m', ?_, hext, rfl, rfl, ?_, ?_⟩
  · rw [parseFsElem_eq]
    simp only [gElem, ht, bind, Except.bind, hgroup, List.map_cons, hmerge, List.cons_append, alistGet?_cons_self,
      hpi, hfil, hint, hren, hpa, hfold', hcon, Bool.false_eq_true, if_false, pure, Except.pure]
  · unfold gObj
    simp only [List.map_map]
    exact List.map_id _
  · intro f hf
    have hfm : f.name ∈ (ctorFields t).eraseDups := by
      rw [List.mem_eraseDups]; exact List.mem_map_of_mem hf
    refine ⟨(alistGet? m' f.name).getD .none,
      alistGet?_map_self (fun n => (alistGet? m' n).getD .none) _ _ hfm, ?_, ?_⟩
    · intro hc
      have hng : f.name ∉ (gF ck (allFeatures t)).map (·.name) := by
        intro hm
        obtain ⟨g, hg, hgn⟩ := List.mem_map.mp hm
        have : g = f := feat_inj_of_nodup (allFeatures t) hnd g (hgsub g hg).1 f hf hgn
        subst this
        exact (hgsub g hg).2 hc
      rw [hget f.name hng, alistGet?_getD_append _ _ _ _ (by rw [hGk]; exact hng)]
    · intro hc
      obtain ⟨w, hw, hKw⟩ := hK f (mem_gF.mpr ⟨hf, hc⟩)
      rw [hw]
      exact hKw

end Cassis.Xmi.CG1
