/-
`SameTs` (the relation `json_full_ts_same` establishes between the original and the rebuilt type system) implies that
the two type systems answer every question of the JSON reader alike (`TypeAgree` for every name), provided both
registries list each name once (`Consistent`).
-/
import CassisModel.Spec.ReaderSim
import CassisModel.Proofs.TypeSystem
import CassisModel.Proofs.Determinism

namespace Cassis.Json
open Cassis.TS

theorem sameTs_find {ts ts' : TypeSystem} (h : SameTs ts ts') (n : String) :
    (find? ts n = none ∧ find? ts' n = none) ∨ ∃ t t', find? ts n = some t ∧ find? ts' n = some t' ∧ SameDecl t t' := by
  have := h n
  cases h1 : find? ts n with
  | none =>
    cases h2 : find? ts' n with
    | none => exact Or.inl ⟨rfl, rfl⟩
    | some t' => rw [h1, h2] at this; exact this.elim
  | some t =>
    cases h2 : find? ts' n with
    | none => rw [h1, h2] at this; exact this.elim
    | some t' => rw [h1, h2] at this; exact Or.inr ⟨t, t', rfl, rfl, this⟩

theorem sameTs_superOf {ts ts' : TypeSystem} (h : SameTs ts ts') (n : String) : superOf ts' n = superOf ts n := by
  unfold superOf
  rcases sameTs_find h n with ⟨h1, h2⟩ | ⟨t, t', h1, h2, hd⟩
  · rw [h1, h2]
  · rw [h1, h2]; exact hd.2.1

theorem sameTs_names_perm {ts ts' : TypeSystem} (h : SameTs ts ts') (hc : Consistent ts) (hc' : Consistent ts') :
    (ts'.types.map (·.name)).Perm (ts.types.map (·.name)) := by
  rw [List.perm_ext_iff_of_nodup hc'.nodup hc.nodup]
  intro n
  rw [← hasExact_iff_mem, ← hasExact_iff_mem, hasExact_iff_find, hasExact_iff_find]
  rcases sameTs_find h n with ⟨h1, h2⟩ | ⟨t, t', h1, h2, _⟩
  · rw [h1, h2]
  · rw [h1, h2]; simp

theorem isInstanceOfAux_congr {ts ts' : TypeSystem} (h : SameTs ts ts') (p : String) :
    ∀ (fuel : Nat) (x : Option String), isInstanceOfAux ts' p fuel x = isInstanceOfAux ts p fuel x := by
  intro fuel
  induction fuel with
  | zero => intro x; rfl
  | succ f ih =>
    intro x
    cases x with
    | none => rfl
    | some t =>
      unfold isInstanceOfAux
      rw [sameTs_superOf h, ih]

theorem sameTs_isInstanceOf {ts ts' : TypeSystem} (h : SameTs ts ts') (hc : Consistent ts) (hc' : Consistent ts')
    (n p : String) : isInstanceOf ts' n p = isInstanceOf ts n p := by
  unfold isInstanceOf
  have hl : ts'.types.length = ts.types.length := by
    have := (sameTs_names_perm h hc hc').length_eq
    simpa using this
  rw [hl, isInstanceOfAux_congr h]

theorem sameDecl_fields {t t' : TypeRec} (h : SameDecl t t') (x : String) : x ∈ ctorFields t' ↔ x ∈ ctorFields t := by
  have hp := h.2.2.2.2
  have key : ∀ (l : List Feature), x ∈ l.map (·.name) ↔ ∃ k ∈ l.map featKey, k.1 = x := by
    intro l
    simp only [List.mem_map]
    constructor
    · rintro ⟨f, hf, rfl⟩; exact ⟨featKey f, ⟨f, hf, rfl⟩, rfl⟩
    · rintro ⟨k, ⟨f, hf, rfl⟩, hk⟩; exact ⟨f, hf, hk⟩
  unfold ctorFields
  rw [key, key]
  constructor
  · rintro ⟨k, hk, hx⟩; exact ⟨k, hp.mem_iff.mp hk, hx⟩
  · rintro ⟨k, hk, hx⟩; exact ⟨k, hp.mem_iff.mpr hk, hx⟩

theorem filter_names (l : List TypeRec) (p : String → Bool) :
    (l.filter (fun t => p t.name)).map (·.name) = (l.map (·.name)).filter p := by
  induction l with
  | nil => rfl
  | cons t rest ih =>
    simp only [List.filter_cons, List.map_cons]
    split
    · simp only [List.map_cons, ih]
    · exact ih

theorem sameTs_getType {ts ts' : TypeSystem} (h : SameTs ts ts') (hc : Consistent ts) (hc' : Consistent ts')
    (n : String) :
    (∃ t t', getType ts n = .ok t ∧ getType ts' n = .ok t' ∧ SameDecl t t') ∨
    (getType ts n = .error .typeNotFound ∧ getType ts' n = .error .typeNotFound) := by
  rw [TsXml.getType_eq_pick, TsXml.getType_eq_pick]
  rcases sameTs_find h n with ⟨h1, h2⟩ | ⟨t, t', h1, h2, hd⟩
  · -- not registered under the full name: the short-name search
    rw [h1, h2]
    dsimp only
    by_cases hdot : hasDot n = true
    · rw [if_pos hdot, if_pos hdot]; exact Or.inr ⟨rfl, rfl⟩
    · rw [if_neg hdot, if_neg hdot]
      have hperm : ((ts'.types.filter (fun t => shortName t.name == n)).map (·.name)).Perm
          ((ts.types.filter (fun t => shortName t.name == n)).map (·.name)) := by
        rw [filter_names ts'.types (fun x => shortName x == n), filter_names ts.types (fun x => shortName x == n)]
        exact (sameTs_names_perm h hc hc').filter _
      have hl := hperm.length_eq
      simp only [List.length_map] at hl
      cases hf : ts.types.filter (fun t => shortName t.name == n) with
      | nil =>
        rw [hf] at hl
        rw [List.eq_nil_of_length_eq_zero hl]
        exact Or.inr ⟨rfl, rfl⟩
      | cons t rest =>
        cases rest with
        | nil =>
          rw [hf] at hperm hl
          cases hf' : ts'.types.filter (fun t => shortName t.name == n) with
          | nil => rw [hf'] at hl; cases hl
          | cons t' rest' =>
            cases rest' with
            | cons _ _ => rw [hf'] at hl; simp at hl
            | nil =>
              rw [hf'] at hperm
              have hn : t'.name = t.name := by
                have := hperm.mem_iff (a := t'.name)
                simp only [List.map_cons, List.map_nil, List.mem_cons, List.not_mem_nil, or_false, true_iff] at this
                exact this
              have hm : t ∈ ts.types := (List.mem_filter.mp (by rw [hf]; exact List.mem_cons_self)).1
              have hm' : t' ∈ ts'.types := (List.mem_filter.mp (by rw [hf']; exact List.mem_cons_self)).1
              have g1 := find?_of_mem hc.nodup hm
              have g2 := find?_of_mem hc'.nodup hm'
              rw [hn] at g2
              rcases sameTs_find h t.name with ⟨k1, _⟩ | ⟨u, u', k1, k2, hd⟩
              · rw [g1] at k1; cases k1
              · rw [g1] at k1; rw [g2] at k2; cases k1; cases k2
                exact Or.inl ⟨t, t', rfl, rfl, hd⟩
        | cons t2 rest2 =>
          rw [hf] at hl
          cases hf' : ts'.types.filter (fun t => shortName t.name == n) with
          | nil => rw [hf'] at hl; simp at hl
          | cons t' rest' =>
            cases rest' with
            | nil => rw [hf'] at hl; simp at hl
            | cons _ _ => exact Or.inr ⟨rfl, rfl⟩
  · rw [h1, h2]
    exact Or.inl ⟨t, t', rfl, rfl, hd⟩

/-- **`SameTs` type systems answer the reader alike, under every name** -/
theorem typeAgree_of_sameTs {ts ts' : TypeSystem} (h : SameTs ts ts') (hc : Consistent ts) (hc' : Consistent ts')
    (n : String) : TypeAgree ts ts' n := by
  unfold TypeAgree
  rcases sameTs_getType h hc hc' n with ⟨t, t', h1, h2, hd⟩ | ⟨h1, h2⟩
  · rw [h1, h2]
    exact ⟨hd.1, sameDecl_fields hd, sameTs_isInstanceOf h hc hc' _ _⟩
  · rw [h1, h2]

end Cassis.Json
