/-
C03, document level, the JSON reader: the converter it uses is the one the sofa setter builds from the `sofaString`
member; every annotation is converted when it is parsed (`parseFs`), indexed or not; the views pass does not touch
offsets; the loaded CAS satisfies `ConvIs`.
-/
import CassisModel.Proofs.OffsetsDocHist
import CassisModel.Proofs.JsonIdsPass
import CassisModel.Proofs.XmiOffsets

namespace Cassis.Json
open Cassis.Offsets Cassis.TS Cassis.OffsetsDoc Cassis.Json.Ids

/-- the sofa updates of the readers that do not touch text and converter -/
def KeepsTextConv (P : Sofa → Prop) : Prop :=
  ∀ (s s' : Sofa), s'.text = s.text → s'.conv = s.conv → P s → P s'

theorem keeps_convIs : KeepsTextConv SofaConvIs := by
  intro s s' h1 h2 hs t ht
  rw [h1] at ht; rw [h2]; exact hs t ht

theorem keeps_convOk : KeepsTextConv SofaConvOk := by
  intro s s' h1 h2 hs t ht
  rw [h1] at ht; rw [h2]; exact hs t ht

theorem sofaTail_conv {s s' : RState} {ci : Nat} {name : String} {c1 : Cas} {text : Option (List Nat)}
    {m u : Option String} {arr : Val} (h : sofaTail s ci name c1 text m u arr = .ok s') :
    (∃ v1 w : View, Cas.getViewRec c1 name = some v1 ∧ Cas.getViewRec s'.cas name = some w ∧
      w.sofa.text = text ∧ w.sofa.conv = createMapping v1.sofa.conv text) ∧
    (∀ P : Sofa → Prop, KeepsTextConv P →
      (∀ t s, P s → P { s with text := t, conv := createMapping s.conv t }) → AllSofas P c1 → AllSofas P s'.cas) := by
  unfold sofaTail at h
  obtain ⟨c2, h4, h⟩ := bindE_ok' h
  obtain ⟨c3, h5, h⟩ := bindE_ok' h
  obtain ⟨c4, h6, h⟩ := bindE_ok' h
  obtain ⟨c5, h7, h⟩ := bindE_ok' h
  obtain ⟨w, h8, h⟩ := bindE_ok' h
  cases h
  constructor
  · obtain ⟨v1, hv1, e2⟩ := Cas.updSofa_ok h4
    subst e2
    obtain ⟨v2, hv2, e3⟩ := Cas.updSofa_ok h5
    rw [Cas.getViewRec_set_same] at hv2
    cases hv2
    subst e3
    obtain ⟨v3, hv3, e4⟩ := Cas.updSofa_ok h6
    rw [Cas.getViewRec_set_same] at hv3
    cases hv3
    subst e4
    obtain ⟨v4, hv4, e5⟩ := Cas.updSofa_ok h7
    rw [Cas.getViewRec_set_same] at hv4
    cases hv4
    subst e5
    have hw : Cas.getViewRec _ name = some w := Cas.cur_ok h8
    rw [Cas.getViewRec_set_same] at hw
    cases hw
    exact ⟨v1, _, hv1, Cas.getViewRec_set_same _ _ _, rfl, rfl⟩
  · intro P hk htext ha
    have a2 : AllSofas P c2 := ha.updSofa (htext text) h4
    have a3 : AllSofas P c3 := by
      refine a2.updSofa ?_ h5
      intro s hs; exact hk s _ rfl rfl hs
    have a4 : AllSofas P c4 := by
      refine a3.updSofa ?_ h6
      intro s hs; exact hk s _ rfl rfl hs
    refine a4.updSofa ?_ h7
    intro s hs; exact hk s _ rfl rfl hs

/-- what `parseSofa` does to text and converter -/
theorem parseSofa_text (ci : Nat) (s s' : RState) (j : JFs) (h : parseSofa ci s j = .ok s') :
    ∃ (name : String), sofaIdOf j = some name ∧
      (∃ w : View, Cas.getViewRec s'.cas name = some w ∧
        w.sofa.text = (match (j.feats.find? (fun p => p.1 == "sofaString")).map (·.2) with
          | some (JV.str t) => some (t.toList.map Char.toNat) | _ => none) ∧
        ∀ t, w.sofa.text = some t → w.sofa.conv = some (table t)) ∧
      (∀ P : Sofa → Prop, KeepsTextConv P → Fresh P →
        (∀ t s, P s → P { s with text := t, conv := createMapping s.conv t }) → AllSofas P s.cas → AllSofas P s'.cas) := by
  unfold parseSofa at h
  simp only [bind, Except.bind, pure, Except.pure, throw, throwThe, MonadExceptOf.throw] at h
  split at h
  · rename_i fsId hid
    split at h
    · rename_i name hname
      have hname' : sofaIdOf j = some name := by
        unfold sofaIdOf
        rw [hname]
      refine ⟨name, hname', ?_⟩
      split at h
      · -- the initial view
        split at h
        · cases h
        · rename_i c1 h3
          obtain ⟨⟨v1, w, _, hw, ht, hc⟩, hall⟩ := sofaTail_conv (s := s) (ci := ci) h
          refine ⟨⟨w, hw, ht, ?_⟩, ?_⟩
          · intro t htt
            rw [hc, ← ht, htt]; rfl
          · intro P hk _ htext ha
            refine hall P hk htext (ha.updSofa ?_ h3)
            intro s hs; exact hk s _ rfl rfl hs
      · split at h
        · -- an existing view, taken as it is
          obtain ⟨⟨v1, w, _, hw, ht, hc⟩, hall⟩ := sofaTail_conv (s := s) (ci := ci) h
          refine ⟨⟨w, hw, ht, ?_⟩, ?_⟩
          · intro t htt
            rw [hc, ← ht, htt]; rfl
          · intro P hk _ htext ha
            exact hall P hk htext ha
        · split at h
          · cases h
          · rename_i r h4
            obtain ⟨⟨v1, w, _, hw, ht, hc⟩, hall⟩ := sofaTail_conv (s := s) (ci := ci) h
            refine ⟨⟨w, hw, ht, ?_⟩, ?_⟩
            · intro t htt
              rw [hc, ← ht, htt]; rfl
            · intro P hk hf htext ha
              obtain ⟨c', h'⟩ := r
              exact hall P hk htext (ha.createView hf h4)
    · cases h
  · cases h

theorem parseSofa_conv_aux (ci : Nat) (s s' : RState) (j : JFs) (n : String) (t : List Nat)
    (hs : ∀ c ∈ t, IsScalar c) (hn : sofaIdOf j = some n)
    (ht : (j.feats.find? (fun p => p.1 == "sofaString")).map (·.2) = some (.str (Xmi.docText t)))
    (h : parseSofa ci s j = .ok s') :
    ∃ v : View, Cas.getViewRec s'.cas n = some v ∧ v.sofa.text = some t ∧
      v.sofa.conv = createMapping none (some t) := by
  obtain ⟨name, hname, ⟨w, hw, hwt, hwc⟩, _⟩ := parseSofa_text ci s s' j h
  rw [hn] at hname
  cases hname
  rw [ht] at hwt
  dsimp only at hwt
  rw [Xmi.docText_toList t hs] at hwt
  exact ⟨w, hw, hwt, hwc t hwt⟩

/-- reader ∘ writer on an offset -/
theorem json_offset_roundtrip_aux (t : List Nat) (hs : ∀ c ∈ t, IsScalar c) (c0 : Conv) (i : Nat) (hi : i ≤ t.length) :
    externalToPython (createMapping c0 (some ((Xmi.docText t).toList.map Char.toNat)))
      (pythonToExternal (createMapping none (some t)) i) = i := by
  rw [Xmi.docText_toList t hs]
  show e2p t (p2e t i) = i
  exact e2p_p2e_aux t i hi

/-! ### the structure pass converts every annotation, the views pass none -/

/-- the JSON reader converts the offsets of an annotation when it parses the element — whether or not the structure is
    a member of a view — with the converter of the view its `sofa` member names; other structures are not touched -/
theorem parseFs_converts_aux (K : Consts) (ts : TypeSystem) (tsIdx : Nat) (s s' : RState) (j : JFs)
    (h : parseFs K ts tsIdx s j = .ok s') :
    ∃ (t : TypeRec) (fsId : Int) (o : Obj) (kwargs : List (String × Val)) (d0 d : List Deferred) (heap1 : Heap),
      getType ts (if j.ty.endsWith "[]" then arrayTypeNameFor j.ty else j.ty) = .ok t ∧ j.id = some fsId ∧
      construct t tsIdx (some fsId) kwargs = .ok o ∧
      resolveRefs renameReserved s.fss s.heap.length (j.feats.filter (fun p => p.1.startsWith "@"))
        (s.heap ++ [o], d0) = .ok (heap1, d) ∧
      s'.cas = s.cas ∧
      (isInstanceOf ts t.name ANNOTATION = true →
        ∃ (cI : Nat) (vn : String) (view : View), Xmi.slot heap1 s.heap.length "sofa" = some (.sofa cI vn) ∧
          Cas.getViewRec s.cas vn = some view ∧
          Xmi.convertOffsets view.sofa.conv heap1 s.heap.length = .ok s'.heap) ∧
      (isInstanceOf ts t.name ANNOTATION = false → s'.heap = heap1) := by
  unfold parseFs at h
  dsimp only at h
  split at h
  · cases h
  · rename_i t ht
    split at h
    · cases h
    · rename_i fsId hid
      split at h
      · cases h
      · rename_i nums hnums
        split at h
        · cases h
        · rename_i kwargs deferred0 hr
          split at h
          · cases h
          · rename_i o ho
            split at h
            · cases h
            · rename_i heap1 deferred hres
              split at h
              · cases h
              · rename_i heap hr2
                cases h
                refine ⟨t, fsId, o, kwargs, deferred0, deferred, heap1, getType_of_getTypeExact ht, hid, ho, hres, rfl, ?_, ?_⟩
                · intro hann
                  rw [if_pos hann] at hr2
                  split at hr2
                  · rename_i cI vn hsl
                    split at hr2
                    · rename_i view hview
                      exact ⟨cI, vn, view, hsl, hview, hr2⟩
                    · cases hr2
                  · cases hr2
                · intro hann
                  rw [hann] at hr2
                  cases hr2
                  rfl

end Cassis.Json
