/-
C12 round trip, layer 8: re-emitting the loaded type system gives the redeclared entries followed by the original
descriptor with descriptions trimmed.
-/
import CassisModel.Proofs.TsXmlRoundTripSameB
import CassisModel.Proofs.Determinism

namespace Cassis.TsXml
open Cassis.TS

theorem nodup_of_map {α β : Type} (f : α → β) {l : List α} (h : (l.map f).Nodup) : l.Nodup :=
  List.Pairwise.of_map f (fun _ _ hab e => hab (e ▸ rfl)) h

/-- the user types the writer lists -/
def userL (ts : TypeSystem) : List TypeRec :=
  (ts.types.filter (fun t => !(Gen.consts.predefined.contains t.name))).filter (fun t => t.name != DOCUMENT_ANNOTATION)

theorem mem_userL {ts : TypeSystem} {t : TypeRec} :
    t ∈ userL ts ↔ t ∈ ts.types ∧ Gen.consts.predefined.contains t.name = false ∧ t.name ≠ DOCUMENT_ANNOTATION := by
  unfold userL
  rw [List.mem_filter, List.mem_filter]
  simp only [Bool.not_eq_true', bne_iff_ne, ne_eq, and_assoc]

theorem user_sorted_perm (ts : TypeSystem) :
    ((Json.sortByName (getTypes Gen.consts ts false)).filter (fun t => t.name != DOCUMENT_ANNOTATION)).Perm (userL ts) := by
  unfold userL getTypes
  simp only [Bool.false_eq_true, if_false]
  exact (Json.sortByName_perm _).filter _

theorem userL_names_nodup {ts : TypeSystem} (hn : (ts.types.map (·.name)).Nodup) :
    ((userL ts).map (·.name)).Nodup := by
  refine List.Nodup.sublist ?_ hn
  unfold userL
  exact ((List.filter_sublist).trans List.filter_sublist).map _

/-- the user part of the two descriptors -/
theorem user_part {ts : TypeSystem} {d0 : Descriptor} {ts2 : TypeSystem} {R : List String}
    (L : Loaded ts d0 ts2 R) :
    ((Json.sortByName (getTypes Gen.consts ts2 false)).filter (fun t => t.name != DOCUMENT_ANNOTATION)).map renderType =
      (((Json.sortByName (getTypes Gen.consts ts false)).filter
        (fun t => t.name != DOCUMENT_ANNOTATION)).map renderType).map trimT := by
  have hc := L.hx.hist.cons
  have hc2 := L.inv.cons
  -- the unsorted lists agree as sets
  have hcore : ((userL ts2).map renderType).Perm (((userL ts).map renderType).map trimT) := by
    have n1 : ((userL ts2).map renderType).Nodup := by
      apply nodup_of_map (·.name)
      rw [List.map_map]
      exact userL_names_nodup hc2.nodup
    have n2 : (((userL ts).map renderType).map trimT).Nodup := by
      apply nodup_of_map (·.name)
      rw [List.map_map, List.map_map]
      exact userL_names_nodup hc.nodup
    rw [List.perm_ext_iff_of_nodup n1 n2]
    intro x
    simp only [List.mem_map]
    constructor
    · rintro ⟨t', ht', rfl⟩
      obtain ⟨h1, h2, h3⟩ := mem_userL.mp ht'
      have hft' : find? ts2 t'.name = some t' := find?_of_mem hc2.nodup h1
      obtain ⟨t, ht, _⟩ := sub_trTs L.inv.sub hft'
      obtain ⟨t'', ht'', hs, hd, ho, _⟩ := rec_corr L ht
      rw [hft'] at ht''; cases ht''
      have hn : t.name = t'.name := find?_name ht
      refine ⟨renderType t, ⟨t, mem_userL.mpr ⟨find?_mem ht, by rw [hn]; exact h2, by rw [hn]; exact h3⟩, rfl⟩, ?_⟩
      exact (render_corr hn.symm hs hd ho).symm
    · rintro ⟨y, ⟨t, ht, rfl⟩, rfl⟩
      obtain ⟨h1, h2, h3⟩ := mem_userL.mp ht
      have hft : find? ts t.name = some t := find?_of_mem hc.nodup h1
      obtain ⟨t', ht', hs, hd, ho, _⟩ := rec_corr L hft
      have hn : t'.name = t.name := find?_name ht'
      exact ⟨t', mem_userL.mpr ⟨find?_mem ht', by rw [hn]; exact h2, by rw [hn]; exact h3⟩,
        render_corr hn hs hd ho⟩
  have pA := (user_sorted_perm ts2).map renderType
  have pB := ((user_sorted_perm ts).map renderType).map trimT
  have hperm := (pA.trans hcore).trans pB.symm
  have sA : (((Json.sortByName (getTypes Gen.consts ts2 false)).filter
      (fun t => t.name != DOCUMENT_ANNOTATION)).map renderType).Pairwise (fun a b => a.name ≤ b.name) :=
    List.Pairwise.map renderType (R := fun a b => a.name ≤ b.name) (fun a b hab => hab)
      ((Json.sortByName_sorted _).filter _)
  have sB : ((((Json.sortByName (getTypes Gen.consts ts false)).filter
      (fun t => t.name != DOCUMENT_ANNOTATION)).map renderType).map trimT).Pairwise (fun a b => a.name ≤ b.name) :=
    List.Pairwise.map trimT (R := fun a b => a.name ≤ b.name) (fun a b hab => hab)
      (List.Pairwise.map renderType (R := fun a b => a.name ≤ b.name) (fun a b hab => hab)
        ((Json.sortByName_sorted _).filter _))
  have hnA : ((((Json.sortByName (getTypes Gen.consts ts2 false)).filter
      (fun t => t.name != DOCUMENT_ANNOTATION)).map renderType).map (·.name)).Nodup := by
    have := (pA.map (·.name)).nodup_iff.mpr (by
      rw [List.map_map]
      exact userL_names_nodup hc2.nodup)
    exact this
  refine List.Perm.eq_of_pairwise (le := fun a b => a.name ≤ b.name) ?_ sA sB hperm
  intro a b ha hb hab hba
  exact Det.inj_of_nodup_map (·.name) _ hnA ha (hperm.mem_iff.mpr hb) (String.le_antisymm hab hba)

/-- rendering registered names never fails -/
theorem mapM_render_ok (ts : TypeSystem) : ∀ (l : List String), (∀ n ∈ l, hasExact ts n = true) →
    ∃ pre, l.mapM (fun n => do let t ← getType ts n; pure (renderType t)) = Except.ok pre ∧
      pre.map (·.name) = l ∧ ∀ e ∈ pre, ∃ t, find? ts e.name = some t ∧ e = renderType t := by
  intro l
  induction l with
  | nil => intro _; exact ⟨[], rfl, rfl, fun e he => by cases he⟩
  | cons n l ih =>
    intro hreg
    obtain ⟨t, ht⟩ := (hasExact_iff_find ts n).mp (hreg n List.mem_cons_self)
    obtain ⟨rest, hrest, hnames, hall⟩ := ih (fun m hm => hreg m (List.mem_cons_of_mem _ hm))
    have g : getType ts n = .ok t := by simp [getType, ht]
    refine ⟨renderType t :: rest, ?_, ?_, ?_⟩
    · simp only [bind, Except.bind, pure, Except.pure] at hrest
      simp only [List.mapM_cons, bind, Except.bind, g, pure, Except.pure, hrest]
    · rw [List.map_cons, hnames]
      show t.name :: l = n :: l
      rw [find?_name ht]
    · intro e he
      rcases List.mem_cons.mp he with rfl | he
      · exact ⟨t, by show find? ts t.name = some t; rw [find?_name ht]; exact ht, rfl⟩
      · exact hall e he

theorem toDescriptor_hist {ts : TypeSystem} (hred : ts.redeclared = []) (d : Descriptor)
    (hd : toDescriptor Gen.consts ts = .ok d) :
    d = ((Json.sortByName (getTypes Gen.consts ts false)).filter
      (fun t => t.name != DOCUMENT_ANNOTATION)).map renderType := by
  unfold toDescriptor at hd
  rw [hred] at hd
  have : sortStrs ([] : List String).eraseDups = [] := by decide
  rw [this] at hd
  simp only [List.mapM_nil, bind, Except.bind, pure, Except.pure, List.nil_append] at hd
  cases hd
  rfl

theorem emit_loaded {ts : TypeSystem} {d0 : Descriptor} {ts2 : TypeSystem} {R : List String}
    (L : Loaded ts d0 ts2 R) (hR : ∀ n ∈ R, hasExact ts2 n = true) (d : Descriptor)
    (hd : toDescriptor Gen.consts ts = .ok d) :
    ∃ preOut, toDescriptor Gen.consts { ts2 with redeclared := R } = .ok (preOut ++ d.map trimT) ∧
      preOut.map (·.name) = sortStrs R.eraseDups ∧
      ∀ e ∈ preOut, ∃ t', find? ts2 e.name = some t' ∧ e = renderType t' := by
  have hd' := toDescriptor_hist L.hx.red d hd
  obtain ⟨pre, hpre, hnames, hall⟩ := mapM_render_ok { ts2 with redeclared := R } (sortStrs R.eraseDups) (by
    intro n hn
    have h1 := (sortStrs_perm _).mem_iff.mp hn
    rw [List.mem_eraseDups] at h1
    exact hR n h1)
  refine ⟨pre, ?_, hnames, hall⟩
  unfold toDescriptor
  simp only [bind, Except.bind, pure, Except.pure] at hpre ⊢
  rw [hpre]
  simp only []
  rw [hd', ← user_part L]
  rfl

end Cassis.TsXml
