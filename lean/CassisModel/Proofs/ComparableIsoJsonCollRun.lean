/-
C20 across the JSON round trip, whole format, layer 3a: two more facts about a *successful* run of `findAllFs`
(`Proofs/Traverse.lean`, `Proofs/Reach.lean`):

* the successor computation of every collected structure succeeds against the empty visited map in the heap the
  traversal started from (`CInv.succ`; the loop computes it against the current visited map, which is a filter of it —
  `nodeSuccs_filter`);
* a structure that is not collected keeps the id (or the absence of an id) it had (`CInv.untouched`): ids are assigned
  at the moment a structure is collected.
-/
import CassisModel.Proofs.Reach
import CassisModel.Proofs.Determinism

namespace Cassis.Traverse
open Cassis.TS

structure CInv (K : Consts) (ts : TypeSystem) (o : Opts) (hp0 : Heap) (lf : Nat) (s : St) : Prop where
  pos : 0 < s.nextXid
  succ : ∀ x a, (x, a) ∈ s.allFs → ∃ (ob : Obj) (t : TypeRec) (r : List Nat × Nat),
    hp0[a]? = some ob ∧ getType ts ob.ty = .ok t ∧ nodeSuccs K ts o hp0 [] lf a t = .ok r
  untouched : ∀ a, a ∉ s.allFs.map (·.2) → xidOf s.heap a = xidOf hp0 a

theorem cinv_init (K : Consts) (ts : TypeSystem) (o : Opts) (hp : Heap) (lf : Nat) (nx : Int) (seeds : List Nat)
    (hnx : 0 < nx) : CInv K ts o hp lf { heap := hp, nextXid := nx, openl := seeds } :=
  ⟨hnx, fun x a h => (by cases h), fun _ _ => rfl⟩

theorem cinv_step (K : Consts) (ts : TypeSystem) (o : Opts) (hp0 : Heap) (lf n0 : Nat)
    (s : St) (a : Nat) (rest : List Nat) (s' : St)
    (inv : Inv K ts o hp0 lf n0 s) (r : CInv K ts o hp0 lf s)
    (h : step K ts o lf s a rest = .ok s') : CInv K ts o hp0 lf s' := by
  obtain ⟨ob, x, hob, hstep, _, hcase⟩ := step_cases K ts o lf s a rest s' h
  obtain ⟨sh', hxid⟩ := hstep.shape hob
  have hpos' : 0 < s'.nextXid := Int.lt_of_lt_of_le r.pos (step_nextXid K ts o lf s a rest s' h)
  -- the heap changes at `a` only
  have hne : ∀ b, b ≠ a → xidOf s'.heap b = xidOf s.heap b := by
    intro b hb
    rcases hstep with ⟨_, e⟩ | ⟨_, _, e⟩
    · rw [e]
    · rw [e, xidOf_set_ne _ (fun e' => hb e'.symm)]
  rcases hcase with ⟨hall, _, _, hwhy⟩ | ⟨t, ps, n, hfind, ht, hn, hall, _, _⟩
  · refine ⟨hpos', ?_, ?_⟩
    · intro y b hm; rw [hall] at hm; exact r.succ y b hm
    · intro b hb
      rw [hall] at hb
      by_cases hba : b = a
      · subst hba
        rcases hstep with ⟨_, e⟩ | ⟨_, hx, _⟩
        · rw [e]; exact r.untouched b hb
        · exfalso
          rcases hwhy with h0 | ⟨y, hy, _⟩
          · have := r.pos; omega
          · exact hb (List.mem_map.mpr ⟨(y, b), hy, rfl⟩)
      · rw [hne b hba]; exact r.untouched b hb
  · refine ⟨hpos', ?_, ?_⟩
    · intro y b hm
      rw [hall] at hm
      rcases List.mem_append.mp hm with hm | hm
      · exact r.succ y b hm
      · simp only [List.mem_singleton, Prod.mk.injEq] at hm
        obtain ⟨_, rfl⟩ := hm
        have sh0 := inv.shape.trans sh'
        obtain ⟨ob0, h0, hty, _⟩ := inv.shape.get_back hob
        have ht0 : getType ts ob0.ty = .ok t := by rw [← hty]; exact ht
        rw [nodeSuccs_filter K ts o s'.heap hp0 (fun a n => sh0.slot a n) s'.allFs lf b t] at hn
        cases hn0 : nodeSuccs K ts o hp0 [] lf b t with
        | error e => rw [hn0] at hn; cases hn
        | ok r0 => exact ⟨ob0, t, r0, h0, ht0, hn0⟩
    · intro b hb
      rw [hall, List.map_append] at hb
      have hb1 : b ∉ s.allFs.map (·.2) := fun h' => hb (List.mem_append_left _ h')
      have hba : b ≠ a := by
        intro e
        apply hb
        rw [e]
        exact List.mem_append_right _ (by simp)
      rw [hne b hba]
      exact r.untouched b hb1

theorem run_cinv (K : Consts) (ts : TypeSystem) (o : Opts) (hp0 : Heap) (lf n0 : Nat)
    (f : Nat) (s s' : St) (inv : Inv K ts o hp0 lf n0 s) (r : CInv K ts o hp0 lf s)
    (h : run K ts o lf f s = .ok s') : CInv K ts o hp0 lf s' := by
  induction f generalizing s with
  | zero =>
    unfold run at h
    split at h
    · cases h; exact r
    · cases h
  | succ f ih =>
    unfold run at h
    split at h
    · cases h; exact r
    · rename_i a rest ho
      cases hs : step K ts o lf s a rest with
      | error e => rw [hs] at h; cases h
      | ok s1 =>
        rw [hs] at h
        exact ih s1 (inv_step K ts o hp0 lf n0 s a rest s1 ho inv hs).1
          (cinv_step K ts o hp0 lf n0 s a rest s1 inv r hs) h

theorem findAllFs_cinv (K : Consts) (ts : TypeSystem) (o : Opts) (hp : Heap) (nx : Int) (seeds : List Nat)
    (st : St) (hnx : 0 < nx) (h : findAllFs K ts o hp nx seeds = .ok st) :
    CInv K ts o hp (hp.length + 1) st :=
  run_cinv K ts o hp _ _ _ _ st (inv_init K ts o hp _ nx seeds) (cinv_init K ts o hp _ nx seeds hnx) h

end Cassis.Traverse
