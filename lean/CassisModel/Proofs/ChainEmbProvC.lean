/-
C16 with an embedded type system, provenance of feature records, part C: **`json_full_ts_multi`** — the lemma missing in
`json_full_ts_same` for the chain JSON → CAS → XMI → CAS.

For an API-built type system `o` (`UserOnlyNoDoc`) whose own features of the same name agree on the reserved flag and,
for array / list ranges, on `multipleReferencesAllowed` (`FlagCoherent`, `Spec/ChainEmb.lean`; decidable, about the ORIGINAL
type system only), every type system `loadTs` builds from the `%TYPES` section of a FULL document of `o` agrees with `o`
on these two flags for equally named effective features of equally named types (`MultiResAgree`).

Proof: the invariant `PInv` of `Proofs/ChainEmbProvA/B.lean` —
* in `o` (a history): every inherited record is an own record of some type (`pinv_history`),
* in the embedded type system (`create_type` for the declarations, supertypes first, then `create_feature` for the decoded
  feature declarations) and in its merge into a fresh type system: every own record agrees in name,
  `multipleReferencesAllowed` and reserved flag with an own record of `o` (`LikeIn o`), and every inherited record is an own
  record of some type —
so every effective feature of `o` IS an own feature of `o`, every effective feature of the rebuilt type system is LIKE an
own feature of `o`, and `FlagCoherent` compares the two.
-/
import CassisModel.Proofs.ChainEmbProvB
import CassisModel.Proofs.EmbeddedTs
import CassisModel.Spec.ChainEmb

namespace Cassis.ChainE
open Cassis.TS Cassis.Json

/-- the record agrees in name, `multipleReferencesAllowed` and reserved flag with an own feature of `o` -/
def LikeIn (o : TypeSystem) (r : Feature) : Prop :=
  ∃ g, OwnIn o g ∧ r.name = g.name ∧ r.multi = g.multi ∧ r.reserved = g.reserved

theorem likeIn_of_own {o : TypeSystem} {g : Feature} (h : OwnIn o g) : LikeIn o g := ⟨g, h, rfl, rfl, rfl⟩

/-! ### the built-in type system -/

def inhOwnB (ts : TypeSystem) : Bool :=
  ts.types.all (fun t => t.inh.all (fun r => ts.types.any (fun t2 => t2.own.contains r)))

theorem inhOwnB_sound {ts : TypeSystem} (h : inhOwnB ts = true) : ∀ t ∈ ts.types, ∀ r ∈ t.inh, OwnIn ts r := by
  intro t ht r hr
  unfold inhOwnB at h
  have h1 := List.all_eq_true.mp (List.all_eq_true.mp h t ht) r hr
  obtain ⟨t2, ht2, hc⟩ := List.any_eq_true.mp h1
  exact ⟨t2, ht2, by simpa using hc⟩

theorem builtin_inhOwn : inhOwnB Gen.builtinTS = true := by decide +kernel

theorem pinv_builtin {P : Feature → Prop} (hP : ∀ t ∈ Gen.builtinTS.types, ∀ g ∈ t.own, P g) : PInv P Gen.builtinTS :=
  ⟨consistent_builtins_aux.1.nodup, hP, inhOwnB_sound builtin_inhOwn⟩

/-! ### a history -/

theorem pinv_applyOp {K : Consts} {ts : TypeSystem} (h : PInv (fun _ => True) ts) (op : TsOp) :
    PInv (fun _ => True) (applyOp K ts op) := by
  cases op with
  | createType n s d =>
    simp only [applyOp]
    cases hn : hasExact ts n with
    | true => simpa using h
    | false =>
      simp only [Bool.false_eq_true, if_false]
      cases hc : createType K ts n s d with
      | error e => exact h
      | ok ts' => exact (pinv_createType h hn hc).1
  | createFeature dom nm r e d m =>
    simp only [applyOp]
    cases hc : createFeature ts dom nm r e d m with
    | error e => exact h
    | ok ts' => exact (pinv_createFeature h (fun _ _ _ _ => trivial) hc).1

/-- in an API-built type system every inherited feature record is an own record of some type -/
theorem pinv_history (K : Consts) : ∀ (ops : List TsOp) (ts : TypeSystem), PInv (fun _ => True) ts →
    PInv (fun _ => True) (ops.foldl (applyOp K) ts) := by
  intro ops
  induction ops with
  | nil => intro ts h; exact h
  | cons op ops ih => intro ts h; exact ih _ (pinv_applyOp h op)

/-! ### the reader of the `%TYPES` section -/

theorem pinv_typesFold {P : Feature → Prop} (K : Consts) (types : List JType) : ∀ (order : List String)
    (ts ts' : TypeSystem), PInv P ts → order.foldlM (typeStep K types) ts = .ok ts' → PInv P ts' := by
  intro order
  induction order with
  | nil => intro ts ts' h hf; simp only [List.foldlM_nil, pure, Except.pure] at hf; cases hf; exact h
  | cons n order ih =>
    intro ts ts' h hf
    simp only [List.foldlM_cons, bind, Except.bind] at hf
    cases hs : typeStep K types ts n with
    | error e => rw [hs] at hf; cases hf
    | ok ts1 =>
      rw [hs] at hf
      dsimp only at hf
      apply ih ts1 ts' _ hf
      unfold typeStep at hs
      split at hs
      · simp only [pure, Except.pure] at hs; cases hs; exact h
      · rename_i hskip
        have hnew : hasExact ts n = false := by
          cases hh : hasExact ts n with
          | false => rfl
          | true => rw [hh] at hskip; simp at hskip
        split at hs
        · exact (pinv_createType h hnew hs).1
        · simp only [throw, throwThe, MonadExceptOf.throw] at hs; cases hs

/-- the declaration a feature of the shape `create_feature` produces is written as leads back to its name and its
    reserved flag -/
theorem decl_flags (g : Feature) (hok : (if g.reserved then g.name == "self_" || g.name == "type_"
      else g.name != "self" && g.name != "type") = true) :
    ((renderFeatDecl Gen.consts g).name == "self" || (renderFeatDecl Gen.consts g).name == "type") = g.reserved := by
  have hn : (renderFeatDecl Gen.consts g).name =
      if g.reserved then String.ofList g.name.toList.dropLast else g.name := rfl
  rw [hn]
  cases hres : g.reserved with
  | true =>
    rw [hres] at hok
    simp only [if_true, Bool.or_eq_true, beq_iff_eq] at hok ⊢
    rcases hok with h | h <;> rw [h] <;> decide
  | false =>
    rw [hres] at hok
    simp only [Bool.false_eq_true, if_false, Bool.and_eq_true, bne_iff_ne, ne_eq] at hok ⊢
    have e1 : (g.name == "self") = false := beq_false_of_ne hok.1
    have e2 : (g.name == "type") = false := beq_false_of_ne hok.2
    simp only [e1, e2, Bool.or_false]

/-- a feature declaration that was written from an own feature of `o` of the shape `create_feature` gives -/
def DeclOf (o : TypeSystem) (jf : JFeat) : Prop :=
  ∃ g, OwnIn o g ∧ jf = renderFeatDecl Gen.consts g ∧
    (if g.reserved then g.name == "self_" || g.name == "type_" else g.name != "self" && g.name != "type") = true

theorem pinv_featStep {o ts ts' : TypeSystem} {dom : String} {jf : JFeat} (h : PInv (LikeIn o) ts) (hjf : DeclOf o jf)
    (hs : featStep Gen.consts dom ts jf = .ok ts') : PInv (LikeIn o) ts' := by
  obtain ⟨g, hg, rfl, hok⟩ := hjf
  unfold featStep at hs
  dsimp only at hs
  refine (pinv_createFeature h ?_ hs).1
  intro f hn hm hr
  refine ⟨g, hg, ?_, ?_, ?_⟩
  · rw [hn]; exact name_roundtrip g hok
  · rw [hm]; rfl
  · rw [hr]; exact decl_flags g hok

theorem pinv_featsInner {o : TypeSystem} (dom : String) : ∀ (fs : List JFeat) (ts ts' : TypeSystem),
    PInv (LikeIn o) ts → (∀ jf ∈ fs, DeclOf o jf) → fs.foldlM (featStep Gen.consts dom) ts = .ok ts' →
      PInv (LikeIn o) ts' := by
  intro fs
  induction fs with
  | nil => intro ts ts' h _ hf; simp only [List.foldlM_nil, pure, Except.pure] at hf; cases hf; exact h
  | cons jf fs ih =>
    intro ts ts' h hd hf
    simp only [List.foldlM_cons, bind, Except.bind] at hf
    cases hs : featStep Gen.consts dom ts jf with
    | error e => rw [hs] at hf; cases hf
    | ok ts1 =>
      rw [hs] at hf
      dsimp only at hf
      exact ih ts1 ts' (pinv_featStep h (hd jf List.mem_cons_self) hs)
        (fun x hx => hd x (List.mem_cons_of_mem _ hx)) hf

theorem pinv_featsFold {o : TypeSystem} : ∀ (L : List JType) (ts ts' : TypeSystem), PInv (LikeIn o) ts →
    (∀ jt ∈ L, ∀ jf ∈ jt.feats, DeclOf o jf) → L.foldlM (featsStep Gen.consts) ts = .ok ts' → PInv (LikeIn o) ts' := by
  intro L
  induction L with
  | nil => intro ts ts' h _ hf; simp only [List.foldlM_nil, pure, Except.pure] at hf; cases hf; exact h
  | cons jt L ih =>
    intro ts ts' h hd hf
    simp only [List.foldlM_cons, bind, Except.bind] at hf
    cases hs : featsStep Gen.consts ts jt with
    | error e => rw [hs] at hf; cases hf
    | ok ts1 =>
      rw [hs] at hf
      dsimp only at hf
      apply ih ts1 ts' _ (fun x hx => hd x (List.mem_cons_of_mem _ hx)) hf
      unfold featsStep at hs
      simp only [bind, Except.bind] at hs
      cases hg : getType ts jt.name with
      | error e => rw [hg] at hs; cases hs
      | ok t =>
        rw [hg] at hs
        dsimp only at hs
        exact pinv_featsInner t.name jt.feats ts ts1 h (hd jt List.mem_cons_self) hs

/-! ### the rebuilt type system -/

/-- **every effective feature of the type system rebuilt from a FULL document is like an own feature of the original**,
    and each of its inherited records is an own record -/
theorem pinv_rebuilt (ops : List TsOp)
    (hu : UserOnly Gen.consts ops ∧ ∀ op ∈ ops, match op with
      | .createFeature dom _ _ _ _ _ => dom ≠ DOCUMENT_ANNOTATION
      | .createType _ _ _ => True)
    (hw : Writable Gen.consts (ops.foldl (applyOp Gen.consts) Gen.builtinTS))
    (hpc : NoPercentNames (ops.foldl (applyOp Gen.consts) Gen.builtinTS))
    (cass : List Cas) (ci : Nat) (hp : Heap) (doc : JDoc) (st : Traverse.St)
    (hsave : saveJson Gen.consts (ops.foldl (applyOp Gen.consts) Gen.builtinTS) cass ci hp .full = .ok (doc, st))
    (m : TypeSystem) (hl : loadTs Gen.consts Gen.builtinTS true doc = .ok m) :
    PInv (LikeIn (ops.foldl (applyOp Gen.consts) Gen.builtinTS)) m := by
  generalize ho' : ops.foldl (applyOp Gen.consts) Gen.builtinTS = o at hw hpc hsave ⊢
  have ho : Hist o := by rw [← ho']; exact hist_history ops _ hist_builtin hu.1
  have ho2 : Hist2 o := by rw [← ho']; exact hist2_history ops _ hist_builtin hist2_builtin hu.1 hu.2
  -- the own features of the built-in types are own features of `o`
  have hbase : PInv (LikeIn o) Gen.builtinTS := by
    apply pinv_builtin
    intro t ht g hg
    obtain ⟨t', ht', _, _, hown, _, _⟩ := ho.grow t.name t (find?_of_mem consistent_builtins_aux.1.nodup ht)
    exact likeIn_of_own ⟨t', find?_mem ht', hown g hg⟩
  -- the `%TYPES` section
  obtain ⟨decls, hdecls, htypes⟩ := saveJson_full_types _ _ _ _ _ _ _ hsave
  rw [renderTypeDecls_noPct _ _ (fun t ht => hpc t ((mem_fullRecs _ _ _).mp ht).1)] at hdecls
  have hd := Except.ok.inj hdecls
  rw [← hd] at htypes
  unfold loadTs at hl
  simp only [htypes, if_true] at hl
  cases hemb : loadEmbeddedTs Gen.consts ((fullRecs Gen.consts o).map (renderTypeDecl0 Gen.consts)) with
  | error e => rw [hemb] at hl; cases hl
  | ok emb =>
    rw [hemb] at hl
    dsimp only at hl
    -- the embedded type system
    have hpe : PInv (LikeIn o) emb := by
      rw [loadEmbeddedTs_eq _ _ (types_no_dockey hw)
        (renderTypeDecl0_noPct _ _ (fun t ht => hpc t ((mem_fullRecs _ _ _).mp ht).1))] at hemb
      simp only [bind, Except.bind] at hemb
      cases htop : toposort ((fullRecs Gen.consts o).map (renderTypeDecl0 Gen.consts)) with
      | error e => rw [htop] at hemb; cases hemb
      | ok order =>
        rw [htop] at hemb
        dsimp only at hemb
        cases hf1 : order.foldlM (typeStep Gen.consts ((fullRecs Gen.consts o).map (renderTypeDecl0 Gen.consts)))
            Gen.builtinTS with
        | error e => rw [hf1] at hemb; cases hemb
        | ok ts1 =>
          rw [hf1] at hemb
          dsimp only at hemb
          have h1 := pinv_typesFold Gen.consts _ order _ ts1 hbase hf1
          apply pinv_featsFold _ ts1 emb h1 _ hemb
          intro jt hjt jf hjf
          obtain ⟨t, ht, rfl⟩ := List.mem_map.mp hjt
          have hto := ((mem_fullRecs _ _ _).mp ht).1
          obtain ⟨g, hg, rfl⟩ := List.mem_map.mp (show jf ∈ t.own.map (renderFeatDecl Gen.consts) from hjf)
          refine ⟨g, ⟨t, hto, hg⟩, rfl, ?_⟩
          have := ho2.ownOk t.name t (find?_of_mem ho.cons.nodup hto) g hg
          unfold featOkB at this
          simp only [Bool.and_eq_true] at this
          exact this.2
    -- merged into a fresh type system
    unfold merge at hl
    apply pinv_mergeDecls hbase _ hl
    intro d hdm f hf
    -- the declarations are the user types of the two inputs, with their own features
    have hsrc : ∃ ts0, (ts0 = Gen.builtinTS ∨ ts0 = emb) ∧ ∃ t ∈ ts0.types, d.own = t.own := by
      obtain ⟨ts0, hts0, hd0⟩ := List.mem_flatMap.mp hdm
      refine ⟨ts0, by simpa using hts0, ?_⟩
      unfold declsOf at hd0
      obtain ⟨t, ht, rfl⟩ := List.mem_map.mp hd0
      unfold getTypes at ht
      simp only [Bool.false_eq_true, if_false] at ht
      exact ⟨t, (List.mem_filter.mp ht).1, rfl⟩
    obtain ⟨ts0, hts0, t, ht, hown⟩ := hsrc
    rw [hown] at hf
    have hlike : LikeIn o f := by
      rcases hts0 with rfl | rfl
      · exact hbase.own t ht f hf
      · exact hpe.own t ht f hf
    obtain ⟨g, hg, h1, h2, h3⟩ := hlike
    exact ⟨g, hg, h1, h2, h3⟩

/-- **`json_full_ts_multi`** -/
theorem json_full_ts_multi (ops : List TsOp)
    (hu : UserOnly Gen.consts ops ∧ ∀ op ∈ ops, match op with
      | .createFeature dom _ _ _ _ _ => dom ≠ DOCUMENT_ANNOTATION
      | .createType _ _ _ => True)
    (hw : Writable Gen.consts (ops.foldl (applyOp Gen.consts) Gen.builtinTS))
    (hpc : NoPercentNames (ops.foldl (applyOp Gen.consts) Gen.builtinTS))
    (hfc : FlagCoherent Gen.consts (ops.foldl (applyOp Gen.consts) Gen.builtinTS))
    (cass : List Cas) (ci : Nat) (hp : Heap) (doc : JDoc) (st : Traverse.St)
    (hsave : saveJson Gen.consts (ops.foldl (applyOp Gen.consts) Gen.builtinTS) cass ci hp .full = .ok (doc, st))
    (m : TypeSystem) (hl : loadTs Gen.consts Gen.builtinTS true doc = .ok m) :
    MultiResAgree Gen.consts (ops.foldl (applyOp Gen.consts) Gen.builtinTS) m := by
  have hm := pinv_rebuilt ops hu hw hpc cass ci hp doc st hsave m hl
  have ho := pinv_history Gen.consts ops Gen.builtinTS (pinv_builtin (fun _ _ _ _ => trivial))
  generalize ops.foldl (applyOp Gen.consts) Gen.builtinTS = o at hfc hm ho ⊢
  intro t ht t' ht' _ f hf f' hf' hn
  -- an effective feature of `o` is an own feature of `o`
  obtain ⟨t1, ht1, hf1⟩ : OwnIn o f := by
    rcases List.mem_append.mp (allFeatures_sub hf) with h0 | h0
    · exact ⟨t, ht, h0⟩
    · exact ho.inh t ht f h0
  -- an effective feature of the rebuilt type system is like an own feature of `o`
  obtain ⟨tm, htm, hfm⟩ : OwnIn m f' := by
    rcases List.mem_append.mp (allFeatures_sub hf') with h0 | h0
    · exact ⟨t', ht', h0⟩
    · exact hm.inh t' ht' f' h0
  obtain ⟨g, ⟨t2, ht2, hg2⟩, k1, k2, k3⟩ := hm.own tm htm f' hfm
  obtain ⟨c1, c2⟩ := hfc t1 ht1 t2 ht2 f hf1 g hg2 (by rw [← k1, hn])
  exact ⟨by rw [k3, c1], fun hc => by rw [k2, c2 hc]⟩

end Cassis.ChainE
