/-
**PA** of the JSON round trip with collections: `parseFs` on the element written for an array object
(`ParseArrStmt` of `RoundTripJsonCollDefs.lean`).
-/
import CassisModel.Proofs.RoundTripJsonCollDefs

namespace Cassis.Json
open Cassis.TS Cassis.Traverse Cassis.Lex Cassis.Xmi Cassis.Xmi.RTB

/-! ### the constructor on the single field `elements` -/

theorem ctorFields_arr {t : TypeRec} {f : Feature} (hf : allFeatures t = [f]) (hn : f.name = "elements") :
    (ctorFields t).eraseDups = ["elements"] := by
  unfold ctorFields
  rw [hf]
  simp only [List.map_cons, List.map_nil, hn]
  decide

theorem construct_arr_some {t : TypeRec} {f : Feature} (hf : allFeatures t = [f]) (hn : f.name = "elements")
    (tsIdx : Nat) (x : Int) (ev : Val) :
    construct t tsIdx (some x) [("elements", ev)] =
      .ok { ty := t.name, ts := tsIdx, xid := some x, slots := [("elements", ev)] } := by
  unfold construct
  rw [ctorFields_arr hf hn]
  simp [alistGet?]

theorem construct_arr_none {t : TypeRec} {f : Feature} (hf : allFeatures t = [f]) (hn : f.name = "elements")
    (tsIdx : Nat) (x : Int) :
    construct t tsIdx (some x) [] =
      .ok { ty := t.name, ts := tsIdx, xid := some x, slots := [("elements", Val.none)] } := by
  unfold construct
  rw [ctorFields_arr hf hn]
  simp [alistGet?]

/-! ### `parseFs` on an element without features -/

theorem getType_of_find' {ts : TypeSystem} {n : String} {t : TypeRec} (h : find? ts n = some t) :
    getType ts n = .ok t := by
  unfold getType; rw [h]

/-- primitive array: the elements are parsed at once -/
theorem parseFs_arr_prim (K : Consts) (ts : TypeSystem) (tsIdx : Nat) (s : RState) (ty : String) (x : Int)
    (el : Option JV) (t : TypeRec) (f : Feature) (ev : Val)
    (hty : ty.endsWith "[]" = false) (hgt : getTypeExact ts ty = .ok t)
    (hf : allFeatures t = [f]) (hn : f.name = "elements")
    (hpa : isPrimitiveArray K t.name = true) (hpp : parsePrimArray t.name el = .ok ev)
    (hann : isInstanceOf ts t.name ANNOTATION = false) :
    parseFs K ts tsIdx s { id := some x, ty := ty, elements := el } =
      .ok { s with heap := s.heap ++ [{ ty := t.name, ts := tsIdx, xid := some x, slots := [("elements", ev)] }],
                   fss := setFs s.fss x (.ref s.heap.length),
                   deferred := s.deferred ++ [], maxId := max s.maxId x } := by
  unfold parseFs
  simp only [hty, Bool.false_eq_true, if_false, hgt, List.filter_nil, parseNums, List.map_nil, List.nil_append,
    hpa, if_true, hpp, construct_arr_some hf hn, resolveRefs, hann, List.append_nil]

/-- FSArray: the element ids are deferred -/
theorem parseFs_arr_fs (K : Consts) (ts : TypeSystem) (tsIdx : Nat) (s : RState) (ty : String) (x : Int)
    (el : Option JV) (t : TypeRec) (f : Feature) (ids : List (Option Int))
    (hty : ty.endsWith "[]" = false) (hgt : getTypeExact ts ty = .ok t)
    (hf : allFeatures t = [f]) (hn : f.name = "elements")
    (hpa : isPrimitiveArray K t.name = false) (hfa : t.name = FS_ARRAY)
    (hids : (match el with
              | some (.refs l) => l
              | some (.ints l) => l.map some
              | _ => []) = ids)
    (hann : isInstanceOf ts t.name ANNOTATION = false) :
    parseFs K ts tsIdx s { id := some x, ty := ty, elements := el } =
      .ok { s with heap := s.heap ++ [{ ty := t.name, ts := tsIdx, xid := some x, slots := [("elements", Val.none)] }],
                   fss := setFs s.fss x (.ref s.heap.length),
                   deferred := s.deferred ++
                     [{ addr := s.heap.length, slot := "elements", target := none, elems := some ids }],
                   maxId := max s.maxId x } := by
  have hfa' : (t.name == FS_ARRAY) = true := by simp [hfa]
  unfold parseFs
  simp only [hty, Bool.false_eq_true, if_false, hgt, List.filter_nil, parseNums, List.map_nil, List.nil_append,
    hpa, hfa', if_true, construct_arr_none hf hn, resolveRefs, hann]
  subst hids
  cases el with
  | none => rfl
  | some v => cases v <;> rfl

/-! ### the elements of a primitive array: writer, then reader -/

theorem prim_rt_ints (H : Heap) (na : Int → Nat) (ty : String) (l : List Int)
    (h3 : (ty == "uima.cas.DoubleArray" || ty == "uima.cas.FloatArray") = false)
    (h4 : ty ≠ FS_ARRAY) :
    ∃ el, arrayElements H ty (some (.ints l)) = .ok el ∧ parsePrimArray ty el = .ok (elemsExpJ H na (.ints l)) := by
  have e4 : (ty == FS_ARRAY) = false := beq_false_of_ne h4
  have e3 : (ty == "uima.cas.FloatArray" || ty == "uima.cas.DoubleArray") = false := by
    rw [Bool.or_comm]; exact h3
  cases l with
  | nil =>
    refine ⟨none, ?_, rfl⟩
    unfold arrayElements
    cases (ty == "uima.cas.ByteArray") <;> simp only [h3, e4, Bool.false_eq_true, if_false, if_true]
  | cons a l =>
    refine ⟨some (.ints (a :: l)), ?_, ?_⟩
    · unfold arrayElements
      cases (ty == "uima.cas.ByteArray") <;> simp only [h3, e4, Bool.false_eq_true, if_false, if_true]
    · unfold parsePrimArray
      simp only [e3, Bool.false_eq_true, if_false, valOfJV]
      rfl

theorem prim_rt_bools (H : Heap) (na : Int → Nat) (ty : String) (l : List Bool)
    (h1 : (ty == "uima.cas.ByteArray") = false)
    (h3 : (ty == "uima.cas.DoubleArray" || ty == "uima.cas.FloatArray") = false)
    (h4 : ty ≠ FS_ARRAY) :
    ∃ el, arrayElements H ty (some (.bools l)) = .ok el ∧ parsePrimArray ty el = .ok (elemsExpJ H na (.bools l)) := by
  have e4 : (ty == FS_ARRAY) = false := beq_false_of_ne h4
  have e3 : (ty == "uima.cas.FloatArray" || ty == "uima.cas.DoubleArray") = false := by
    rw [Bool.or_comm]; exact h3
  cases l with
  | nil =>
    refine ⟨none, ?_, rfl⟩
    unfold arrayElements
    simp only [h1, h3, e4, Bool.false_eq_true, if_false]
  | cons a l =>
    refine ⟨some (.bools (a :: l)), ?_, ?_⟩
    · unfold arrayElements
      simp only [h1, h3, e4, Bool.false_eq_true, if_false]
    · unfold parsePrimArray
      simp only [e3, Bool.false_eq_true, if_false, valOfJV]
      rfl

theorem prim_rt_strs (H : Heap) (na : Int → Nat) (ty : String) (l : List (Option String))
    (h1 : (ty == "uima.cas.ByteArray") = false)
    (h3 : (ty == "uima.cas.DoubleArray" || ty == "uima.cas.FloatArray") = false)
    (h4 : ty ≠ FS_ARRAY) :
    ∃ el, arrayElements H ty (some (.strs l)) = .ok el ∧ parsePrimArray ty el = .ok (elemsExpJ H na (.strs l)) := by
  have e4 : (ty == FS_ARRAY) = false := beq_false_of_ne h4
  have e3 : (ty == "uima.cas.FloatArray" || ty == "uima.cas.DoubleArray") = false := by
    rw [Bool.or_comm]; exact h3
  cases l with
  | nil =>
    refine ⟨none, ?_, rfl⟩
    unfold arrayElements
    simp only [h1, h3, e4, Bool.false_eq_true, if_false]
  | cons a l =>
    refine ⟨some (.strs (a :: l)), ?_, ?_⟩
    · unfold arrayElements
      simp only [h1, h3, e4, Bool.false_eq_true, if_false]
    · unfold parsePrimArray
      simp only [e3, Bool.false_eq_true, if_false, valOfJV]
      rfl

theorem prim_rt_floats (H : Heap) (na : Int → Nat) (ty : String) (l : List String) (hty : FloatArrTy ty) :
    ∃ el, arrayElements H ty (some (.floats l)) = .ok el ∧ parsePrimArray ty el = .ok (elemsExpJ H na (.floats l)) := by
  have hty' : (ty == "uima.cas.ByteArray") = false ∧
      (ty == "uima.cas.DoubleArray" || ty == "uima.cas.FloatArray") = true ∧
      (ty == "uima.cas.FloatArray" || ty == "uima.cas.DoubleArray") = true := by
    rcases hty with rfl | rfl <;> exact ⟨by decide, by decide, by decide⟩
  obtain ⟨e1, e2, e3⟩ := hty'
  cases l with
  | nil =>
    refine ⟨none, ?_, rfl⟩
    unfold arrayElements
    simp only [e1, e2, Bool.false_eq_true, if_false, if_true]
  | cons a l =>
    refine ⟨some (.flts ((a :: l).map floatElem)), ?_, ?_⟩
    · unfold arrayElements
      simp only [e1, e2, Bool.false_eq_true, if_false, if_true]
    · unfold parsePrimArray
      simp only [List.map_cons, e3, if_true]
      rw [← List.map_cons, mapM_ok_of_section _ floatElem]
      · rfl
      · intro t
        simp only [floatElem_roundtrip_aux, bind, Except.bind, pure, Except.pure]

theorem prim_rt (H : Heap) (na : Int → Nat) (ty : String) (ev : Val) (h4 : ty ≠ FS_ARRAY) (h : JPrimElems ty ev) :
    ∃ el, arrayElements H ty (some ev) = .ok el ∧ parsePrimArray ty el = .ok (elemsExpJ H na ev) := by
  rcases h with rfl | ⟨hb, l, rfl⟩ | ⟨hf, l, rfl⟩ | ⟨hb, hf, h⟩
  · exact ⟨none, rfl, rfl⟩
  · subst hb
    exact prim_rt_ints H na _ l (by decide) h4
  · exact prim_rt_floats H na ty l hf
  · have h1 : (ty == "uima.cas.ByteArray") = false := beq_false_of_ne hb
    have h3 : (ty == "uima.cas.DoubleArray" || ty == "uima.cas.FloatArray") = false := by
      cases e1 : ty == "uima.cas.DoubleArray" with
      | true => exact absurd (Or.inr (eq_of_beq e1)) hf
      | false =>
        cases e2 : ty == "uima.cas.FloatArray" with
        | true => exact absurd (Or.inl (eq_of_beq e2)) hf
        | false => rfl
    rcases h with ⟨l, rfl⟩ | ⟨l, rfl⟩ | ⟨l, rfl⟩
    · exact prim_rt_ints H na ty l h3 h4
    · exact prim_rt_bools H na ty l h1 h3 h4
    · exact prim_rt_strs H na ty l h1 h3 h4

theorem exp3J_prim (H : Heap) (na : Int → Nat) (ci' : Nat) (ty : String) (ev : Val) (h : JPrimElems ty ev) :
    exp3J H na ci' ev = elemsExpJ H na ev := by
  rcases h with rfl | ⟨_, l, rfl⟩ | ⟨_, l, rfl⟩ | ⟨_, _, ⟨l, rfl⟩ | ⟨l, rfl⟩ | ⟨l, rfl⟩⟩ <;> rfl

/-! ### the elements of an FSArray -/

theorem arrayElements_fs (H : Heap) (l : List (Option Nat)) :
    ∃ el, arrayElements H FS_ARRAY (some (.refs l)) = .ok el ∧
      (match el with
        | some (.refs l) => l
        | some (.ints l) => l.map some
        | _ => []) = l.map (refOf H) := by
  cases l with
  | nil => exact ⟨none, rfl, rfl⟩
  | cons a l =>
    refine ⟨some (.refs ((a :: l).map (refOf H))), ?_, rfl⟩
    unfold arrayElements
    have e1 : (FS_ARRAY == "uima.cas.ByteArray") = false := by decide
    have e2 : (FS_ARRAY == "uima.cas.DoubleArray" || FS_ARRAY == "uima.cas.FloatArray") = false := by decide
    simp only [e1, e2, Bool.false_eq_true, if_false, BEq.rfl, if_true]

/-! ### one-slot association lists -/

theorem aget_single {β} {k n : String} {w v : β} (h : alistGet? [(k, w)] n = some v) : n = k ∧ v = w := by
  unfold alistGet? at h
  by_cases hk : k = n
  · rw [if_pos hk] at h
    exact ⟨hk.symm, (Option.some.inj h).symm⟩
  · rw [if_neg hk] at h
    cases h

theorem aget_single_self {β} (k : String) (w : β) : alistGet? [(k, w)] k = some w := by
  unfold alistGet?
  rw [if_pos rfl]

theorem arrElemsJ_eq {H : Heap} {o : Obj} {ev : Val} {el : Option JV} (hs : o.slots = [("elements", ev)])
    (h : arrayElements H o.ty (some ev) = .ok el) : arrElemsJ H o = el := by
  unfold arrElemsJ
  rw [hs, aget_single_self, h]

/-! ### the statement -/

theorem parseArr_collJ : ParseArrStmt := by
  intro K ts H na ci' tsIdx s x a o ho harr hj
  obtain ⟨o1, t, f, ev, ho1, hfind, htn, _, hf, hn, _, hslots, hann, _, hcase⟩ := harr
  have ho' : o1 = o := Option.some.inj (ho1.symm.trans ho)
  subst ho'
  have hty : o1.ty.endsWith "[]" = false := (hj o1 t ho hfind).1
  have hgt : getTypeExact ts o1.ty = .ok t := getTypeExact_of_find hfind
  have hann' : isInstanceOf ts t.name ANNOTATION = false := by rw [htn]; exact hann
  rcases hcase with ⟨hfs, hpa, l, rfl⟩ | ⟨hfs, hpa, hprim⟩
  · -- FSArray
    obtain ⟨el, hae, hids⟩ := arrayElements_fs H l
    have hel : arrElemsJ H o1 = el := arrElemsJ_eq hslots (by rw [hfs]; exact hae)
    refine ⟨{ ty := t.name, ts := tsIdx, xid := some x, slots := [("elements", Val.none)] },
      [elemsDef H s.heap.length l], ?_, ⟨htn, rfl, ?_, ?_⟩, ?_⟩
    · unfold arrJFs
      rw [hel]
      exact parseFs_arr_fs K ts tsIdx s o1.ty x el t f _ hty hgt hf hn (by rw [htn, hfs]; exact hpa)
        (by rw [htn, hfs]) hids hann'
    · rw [hslots]; rfl
    · intro n v hv
      rw [hslots] at hv
      obtain ⟨e1, e2⟩ := aget_single hv
      exact Or.inr (Or.inr ⟨l, e2, e1, List.mem_singleton.mpr rfl⟩)
    · intro d hd
      rw [List.mem_singleton.mp hd]
      exact Or.inr ⟨l, rfl, by rw [hslots]; exact aget_single_self _ _⟩
  · -- primitive array
    obtain ⟨el, hae, hpp⟩ := prim_rt H na o1.ty ev hfs hprim
    have hel : arrElemsJ H o1 = el := arrElemsJ_eq hslots hae
    refine ⟨{ ty := t.name, ts := tsIdx, xid := some x, slots := [("elements", elemsExpJ H na ev)] },
      [], ?_, ⟨htn, rfl, ?_, ?_⟩, ?_⟩
    · unfold arrJFs
      rw [hel]
      exact parseFs_arr_prim K ts tsIdx s o1.ty x el t f _ hty hgt hf hn (by rw [htn]; exact hpa)
        (by rw [htn]; exact hpp) hann'
    · rw [hslots]; rfl
    · intro n v hv
      rw [hslots] at hv
      obtain ⟨e1, e2⟩ := aget_single hv
      subst e1 e2
      left
      rw [exp3J_prim H na ci' o1.ty v hprim]
      exact aget_single_self _ _
    · intro d hd
      cases hd

end Cassis.Json
