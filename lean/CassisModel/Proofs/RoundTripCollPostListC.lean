/-
Round trip with collections, layer IL, part C: what the first pass left for each kind of list (`Inl1R` by range),
the heads of each kind, and the resolution of the ids of an FSList.
-/
import CassisModel.Proofs.RoundTripCollPostListB

namespace Cassis.Xmi.CIL
open Cassis.TS Cassis.Traverse Cassis.Lex Cassis.Xmi

/-! ### `Inl1R` by range -/

theorem not_primArrTy_list {r : String}
    (h : r = INTEGER_LIST ∨ r = FLOAT_LIST ∨ r = STRING_LIST ∨ r = FS_LIST) : ¬ PrimArrTy r := by
  intro hp
  unfold PrimArrTy IntArrTy FloatArrTy at hp
  rcases h with rfl | rfl | rfl | rfl <;>
    rcases hp with (hp | hp | hp) | hp | hp | (hp | hp) <;> exact absurd hp (by decide)

theorem inl1R_int {H hpX : Heap} {c : Nat} {w : Val} (h : Inl1R H hpX INTEGER_LIST c w) :
    ∃ (hs : List Val) (toks : List String),
      collectList H (H.length + 1) (.ref c) = .ok hs ∧ hs.mapM showPrim = .ok toks ∧ w = .str (joinSp toks) := by
  rcases h with ⟨h, _⟩ | ⟨h, _⟩ | ⟨h, _⟩ | ⟨_, h⟩ | ⟨h, _⟩ | ⟨h, _⟩
  · exact absurd h (not_primArrTy_list (.inl rfl))
  · exact absurd h (by decide)
  · exact absurd h (by decide)
  · exact h
  · exact absurd h (by decide)
  · exact absurd h (by decide)

theorem inl1R_float {H hpX : Heap} {c : Nat} {w : Val} (h : Inl1R H hpX FLOAT_LIST c w) :
    ∃ (hs : List Val) (toks : List String),
      collectList H (H.length + 1) (.ref c) = .ok hs ∧ hs.mapM showPrim = .ok toks ∧ w = .str (joinSp toks) := by
  rcases h with ⟨h, _⟩ | ⟨h, _⟩ | ⟨h, _⟩ | ⟨_, h⟩ | ⟨h, _⟩ | ⟨h, _⟩
  · exact absurd h (not_primArrTy_list (.inr (.inl rfl)))
  · exact absurd h (by decide)
  · exact absurd h (by decide)
  · exact h
  · exact absurd h (by decide)
  · exact absurd h (by decide)

theorem inl1R_str {H hpX : Heap} {c : Nat} {w : Val} (h : Inl1R H hpX STRING_LIST c w) :
    ∃ (hs : List Val) (addr : Nat), collectList H (H.length + 1) (.ref c) = .ok hs ∧ hs ≠ [] ∧
      w = .ref addr ∧ ListAt hpX addr (hs.map strHead) ∧ hs.length < hpX.length := by
  rcases h with ⟨h, _⟩ | ⟨h, _⟩ | ⟨h, _⟩ | ⟨h, _⟩ | ⟨_, h⟩ | ⟨h, _⟩
  · exact absurd h (not_primArrTy_list (.inr (.inr (.inl rfl))))
  · exact absurd h (by decide)
  · exact absurd h (by decide)
  · rcases h with h | h <;> exact absurd h (by decide)
  · exact h
  · exact absurd h (by decide)

theorem inl1R_fs {H hpX : Heap} {c : Nat} {w : Val} (h : Inl1R H hpX FS_LIST c w) :
    ∃ bs : List Nat, collectList H (H.length + 1) (.ref c) = .ok (bs.map Val.ref) ∧
      w = .str (joinSp (bs.map (idTok H))) := by
  rcases h with ⟨h, _⟩ | ⟨h, _⟩ | ⟨h, _⟩ | ⟨h, _⟩ | ⟨h, _⟩ | ⟨_, h⟩
  · exact absurd h (not_primArrTy_list (.inr (.inr (.inr rfl))))
  · exact absurd h (by decide)
  · exact absurd h (by decide)
  · rcases h with h | h <;> exact absurd h (by decide)
  · exact absurd h (by decide)
  · exact h

/-! ### heads -/

theorem all_int {hs : List Val} (h : ∀ v ∈ hs, ∃ i : Int, v = .int i) : ∃ is : List Int, hs = is.map Val.int := by
  induction hs with
  | nil => exact ⟨[], rfl⟩
  | cons v hs ih =>
    obtain ⟨i, rfl⟩ := h v List.mem_cons_self
    obtain ⟨is, rfl⟩ := ih (fun u hu => h u (List.mem_cons_of_mem _ hu))
    exact ⟨i :: is, rfl⟩

theorem all_float {hs : List Val} (h : ∀ v ∈ hs, ∃ t : String, v = .float t ∧ TokOk t) :
    ∃ tl : List String, hs = tl.map Val.float ∧ ∀ t ∈ tl, IsTok t := by
  induction hs with
  | nil => exact ⟨[], rfl, fun _ h => (by cases h)⟩
  | cons v hs ih =>
    obtain ⟨t, rfl, ht⟩ := h v List.mem_cons_self
    obtain ⟨tl, rfl, htl⟩ := ih (fun u hu => h u (List.mem_cons_of_mem _ hu))
    refine ⟨t :: tl, rfl, fun u hu => ?_⟩
    rcases List.mem_cons.1 hu with rfl | hu
    · exact ht
    · exact htl u hu

theorem showPrim_ints (is : List Int) : (is.map Val.int).mapM showPrim = .ok (is.map showInt) := by
  rw [mapM_ok showPrim (fun v => match v with | .int i => showInt i | _ => "") _ ?_, List.map_map]
  · rfl
  · intro x hx
    obtain ⟨i, _, rfl⟩ := List.mem_map.1 hx
    rfl

theorem showPrim_floats (tl : List String) : (tl.map Val.float).mapM showPrim = .ok tl := by
  rw [mapM_ok showPrim (fun v => match v with | .float t => t | _ => "") _ ?_, List.map_map]
  · exact congrArg Except.ok (List.map_id' tl)
  · intro x hx
    obtain ⟨i, _, rfl⟩ := List.mem_map.1 hx
    rfl

theorem headExp_ints (H : Heap) (na : Int → Nat) (is : List Int) :
    (is.map Val.int).map (headExp H na) = is.map Val.int := by
  rw [List.map_map]; rfl

theorem headExp_floats (H : Heap) (na : Int → Nat) (tl : List String) :
    (tl.map Val.float).map (headExp H na) = tl.map Val.float := by
  rw [List.map_map]; rfl

theorem headExp_strs (H : Heap) (na : Int → Nat) (hs : List Val)
    (h : ∀ v ∈ hs, v = .none ∨ ∃ s : String, v = .str s) : hs.map (headExp H na) = hs.map strHead := by
  apply List.map_congr_left
  intro v hv
  rcases h v hv with rfl | ⟨s, rfl⟩ <;> rfl


/-! ### references -/

def idOf (H : Heap) (b : Nat) : Int := (xidOf H b).getD 0

theorem idTok_ids (H : Heap) (fss : List (Int × Nat)) (na : Int → Nat) (bs : List Nat)
    (h : ∀ b ∈ bs, Resolves H fss na b) : bs.map (idTok H) = (bs.map (idOf H)).map showInt := by
  rw [List.map_map]
  apply List.map_congr_left
  intro b hb
  obtain ⟨x, hx, _⟩ := h b hb
  simp only [idTok, idOf, hx, Function.comp, Option.getD_some]

theorem ids_forall₂ (H : Heap) (fss : List (Int × Nat)) (na : Int → Nat) (bs : List Nat)
    (h : ∀ b ∈ bs, Resolves H fss na b) :
    List.Forall₂ (fun i t => lookupFs fss i = .ok t) (bs.map (idOf H)) (bs.map (fun b => na (idOf H b))) := by
  induction bs with
  | nil => exact .nil
  | cons b bs ih =>
    refine .cons ?_ (ih (fun u hu => h u (List.mem_cons_of_mem _ hu)))
    obtain ⟨x, hx, hl⟩ := h b List.mem_cons_self
    simp only [idOf, hx, Option.getD_some]
    exact hl

theorem headExp_refs (H : Heap) (fss : List (Int × Nat)) (na : Int → Nat) (bs : List Nat)
    (h : ∀ b ∈ bs, Resolves H fss na b) :
    (bs.map Val.ref).map (headExp H na) = (bs.map (fun b => na (idOf H b))).map Val.ref := by
  rw [List.map_map, List.map_map]
  apply List.map_congr_left
  intro b hb
  obtain ⟨x, hx, _⟩ := h b hb
  simp only [Function.comp, headExp, idOf, hx, Option.getD_some]

theorem resolve_fs (H : Heap) (fss : List (Int × Nat)) (na : Int → Nat) (bs : List Nat)
    (h : ∀ b ∈ bs, Resolves H fss na b) :
    resolveIds fss (splitWs (joinSp (bs.map (idTok H)))) = .ok (bs.map (fun b => na (idOf H b))) := by
  rw [idTok_ids H fss na bs h]
  exact resolveIds_showIds fss _ _ (ids_forall₂ H fss na bs h)

end Cassis.Xmi.CIL
