/-
`FlagCoherentChain` on the instances, checked by the kernel (the type systems are evaluated with the structurally
recursive `applyOpS`).
-/
import CassisModel.Proofs.ChainEmb3
import CassisModel.Proofs.ChainEmbDemo

namespace Cassis.Json.UnrelDemo
open Cassis Cassis.TS Cassis.ChainE

/-- the type system as the kernel evaluates it -/
def tsS : TypeSystem := ops.foldl (applyOpS Gen.consts) Gen.builtinTS

theorem ts_eq : ts = tsS := by unfold ts tsS; rw [applyOp_eq_S]

theorem chain_not_global_aux : FlagCoherentChain Gen.consts ts ∧ ¬ FlagCoherent Gen.consts ts := by
  rw [ts_eq]; decide +kernel

theorem writable : Writable Gen.consts ts := by rw [ts_eq]; decide +kernel
theorem noPct : NoPercentNames ts := by rw [ts_eq]; decide +kernel
theorem chainJX_applies : chainJXAppliesB Gen.consts ts [cas] 0 hp = true := by rw [ts_eq]; decide +kernel

end Cassis.Json.UnrelDemo

namespace Cassis.Json.RedefDemo
open Cassis Cassis.TS Cassis.ChainE

theorem not_flagCoherentChain_aux : ¬ FlagCoherentChain Gen.consts ts := by
  rw [ts_eq]; decide +kernel

end Cassis.Json.RedefDemo
