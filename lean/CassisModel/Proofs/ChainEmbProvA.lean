/-
C16 with an embedded type system, provenance of feature records, part A: the primitive operations of type-system
construction (`create_type`, `_add_feature` with its push to the subtypes) keep the invariant `PInv P`:
* every type name is registered once,
* every OWN feature record satisfies `P`,
* every INHERITED feature record is (the very record) an own feature of some registered type.
No other invariant of the type system is needed (the proofs follow the definitions), so the lemmas apply to histories,
to the reader of the `%TYPES` section and to `merge_typesystems` alike.

Purpose (`Proofs/ChainEmbProvC.lean`): with `P g := "g agrees in name, multipleReferencesAllowed and reserved flag with an own
feature of the original type system"`, every effective feature of the type system rebuilt from a FULL document agrees
in these three with some own feature of the original — which `SameTs` (stated up to `Feature.__eq__`) does not say.
-/
import CassisModel.Proofs.TypeSystem
import CassisModel.Proofs.Features

namespace Cassis.ChainE
open Cassis.TS

/-- `g` is an own feature record of some registered type -/
def OwnIn (ts : TypeSystem) (g : Feature) : Prop := ∃ t ∈ ts.types, g ∈ t.own

structure PInv (P : Feature → Prop) (ts : TypeSystem) : Prop where
  nodup : (ts.types.map (·.name)).Nodup
  own : ∀ t ∈ ts.types, ∀ g ∈ t.own, P g
  inh : ∀ t ∈ ts.types, ∀ r ∈ t.inh, OwnIn ts r

/-! ### replacing one record -/

theorem eq_of_name_nodup {ts : TypeSystem} (hn : (ts.types.map (·.name)).Nodup) {a b : TypeRec} (ha : a ∈ ts.types)
    (hb : b ∈ ts.types) (e : a.name = b.name) : a = b :=
  name_inj_of_nodup _ hn a ha b hb e

theorem names_setRec (ts : TypeSystem) (r : TypeRec) :
    (setRec ts r).types.map (·.name) = ts.types.map (·.name) := by
  unfold setRec
  simp only [List.map_map]
  apply List.map_congr_left
  intro x _
  simp only [Function.comp]
  split
  · rename_i h; exact (eq_of_beq h).symm
  · rfl

/-- replace the record `t` by `r` (same name): description of the new registry -/
theorem mem_setRec {ts : TypeSystem} (hn : (ts.types.map (·.name)).Nodup) {r t : TypeRec} (ht : t ∈ ts.types)
    (hr : r.name = t.name) {x : TypeRec} :
    x ∈ (setRec ts r).types ↔ x = r ∨ (x ∈ ts.types ∧ x ≠ t) := by
  unfold setRec
  simp only [List.mem_map]
  constructor
  · rintro ⟨y, hy, rfl⟩
    split
    · exact Or.inl rfl
    · rename_i hne
      refine Or.inr ⟨hy, ?_⟩
      intro e
      subst e
      exact hne (by rw [hr]; exact beq_self_eq_true _)
  · rintro (rfl | ⟨hx, hne⟩)
    · exact ⟨t, ht, by rw [if_pos (by rw [hr]; exact beq_self_eq_true _)]⟩
    · refine ⟨x, hx, ?_⟩
      rw [if_neg]
      intro h
      exact hne (eq_of_name_nodup hn hx ht (by rw [eq_of_beq h, hr]))

/-- replacing `t` by a record with the same own features, more inherited features `extra` that are own features
    somewhere, keeps the invariant and the owners -/
theorem pinv_setRec_inh {P : Feature → Prop} {ts : TypeSystem} (h : PInv P ts) {t : TypeRec} (ht : t ∈ ts.types)
    (extra : List Feature) (hex : ∀ f ∈ extra, OwnIn ts f) :
    PInv P (setRec ts { t with inh := t.inh ++ extra }) ∧
      ∀ g, OwnIn ts g → OwnIn (setRec ts { t with inh := t.inh ++ extra }) g := by
  have hmem := fun x => mem_setRec (x := x) h.nodup (r := { t with inh := t.inh ++ extra }) ht rfl
  have hown : ∀ g, OwnIn ts g → OwnIn (setRec ts { t with inh := t.inh ++ extra }) g := by
    rintro g ⟨x, hx, hg⟩
    by_cases e : x = t
    · subst e
      exact ⟨_, (hmem _).mpr (Or.inl rfl), hg⟩
    · exact ⟨x, (hmem _).mpr (Or.inr ⟨hx, e⟩), hg⟩
  refine ⟨⟨?_, ?_, ?_⟩, hown⟩
  · rw [names_setRec]; exact h.nodup
  · intro x hx g hg
    rcases (hmem x).mp hx with rfl | ⟨hx', _⟩
    · exact h.own t ht g hg
    · exact h.own x hx' g hg
  · intro x hx r hr
    rcases (hmem x).mp hx with rfl | ⟨hx', _⟩
    · rcases List.mem_append.mp hr with hr | hr
      · exact hown r (h.inh t ht r hr)
      · exact hown r (hex r hr)
    · exact hown r (h.inh x hx' r hr)

/-- replacing `t` by a record with one more own feature -/
theorem pinv_setRec_own {P : Feature → Prop} {ts : TypeSystem} (h : PInv P ts) {t : TypeRec} (ht : t ∈ ts.types)
    (f : Feature) (hf : P f) :
    PInv P (setRec ts { t with own := t.own ++ [f] }) ∧ OwnIn (setRec ts { t with own := t.own ++ [f] }) f ∧
      ∀ g, OwnIn ts g → OwnIn (setRec ts { t with own := t.own ++ [f] }) g := by
  have hmem := fun x => mem_setRec (x := x) h.nodup (r := { t with own := t.own ++ [f] }) ht rfl
  have hown : ∀ g, OwnIn ts g → OwnIn (setRec ts { t with own := t.own ++ [f] }) g := by
    rintro g ⟨x, hx, hg⟩
    by_cases e : x = t
    · subst e
      exact ⟨_, (hmem _).mpr (Or.inl rfl), List.mem_append_left _ hg⟩
    · exact ⟨x, (hmem _).mpr (Or.inr ⟨hx, e⟩), hg⟩
  refine ⟨⟨?_, ?_, ?_⟩, ⟨_, (hmem _).mpr (Or.inl rfl), List.mem_append_right _ List.mem_cons_self⟩, hown⟩
  · rw [names_setRec]; exact h.nodup
  · intro x hx g hg
    rcases (hmem x).mp hx with rfl | ⟨hx', _⟩
    · rcases List.mem_append.mp hg with hg | hg
      · exact h.own t ht g hg
      · simp only [List.mem_singleton] at hg; subst hg; exact hf
    · exact h.own x hx' g hg
  · intro x hx r hr
    rcases (hmem x).mp hx with rfl | ⟨hx', _⟩
    · exact hown r (h.inh t ht r hr)
    · exact hown r (h.inh x hx' r hr)

/-! ### the push to the subtypes -/

theorem pinv_pushList {P : Feature → Prop} (f : Feature) (rec : TypeSystem → List String → R TypeSystem)
    (hrec : ∀ ts cs ts', PInv P ts → OwnIn ts f → rec ts cs = .ok ts' → PInv P ts' ∧ ∀ g, OwnIn ts g → OwnIn ts' g) :
    ∀ (cs : List String) (ts ts' : TypeSystem), PInv P ts → OwnIn ts f → pushList f rec ts cs = .ok ts' →
      PInv P ts' ∧ ∀ g, OwnIn ts g → OwnIn ts' g := by
  intro cs
  induction cs with
  | nil =>
    intro ts ts' h _ hp
    unfold pushList at hp
    cases hp
    exact ⟨h, fun _ hg => hg⟩
  | cons c cs ih =>
    intro ts ts' h hf hp
    unfold pushList at hp
    cases hfind : find? ts c with
    | none => rw [hfind] at hp; exact ih ts ts' h hf hp
    | some t =>
      rw [hfind] at hp
      dsimp only at hp
      cases hchk : addCheck t f true with
      | conflict => rw [hchk] at hp; cases hp
      | same => rw [hchk] at hp; exact ih ts ts' h hf hp
      | fresh =>
        rw [hchk] at hp
        dsimp only at hp
        obtain ⟨h1, ho1⟩ := pinv_setRec_inh h (find?_mem hfind) [f] (fun x hx => by
          simp only [List.mem_singleton] at hx; subst hx; exact hf)
        cases hr : rec (setRec ts { t with inh := t.inh ++ [f] }) t.children with
        | error e => rw [hr] at hp; cases hp
        | ok ts2 =>
          rw [hr] at hp
          dsimp only at hp
          obtain ⟨h2, ho2⟩ := hrec _ _ _ h1 (ho1 f hf) hr
          obtain ⟨h3, ho3⟩ := ih ts2 ts' h2 (ho2 f (ho1 f hf)) hp
          exact ⟨h3, fun g hg => ho3 g (ho2 g (ho1 g hg))⟩

theorem pinv_pushS {P : Feature → Prop} (f : Feature) : ∀ (fuel : Nat) (ts : TypeSystem) (cs : List String)
    (ts' : TypeSystem), PInv P ts → OwnIn ts f → pushS f fuel ts cs = .ok ts' →
      PInv P ts' ∧ ∀ g, OwnIn ts g → OwnIn ts' g := by
  intro fuel
  induction fuel with
  | zero => intro ts cs ts' _ _ hp; cases hp
  | succ n ih =>
    intro ts cs ts' h hf hp
    exact pinv_pushList f (pushS f n) (fun ts cs ts' h hf hp => ih ts cs ts' h hf hp) cs ts ts' h hf hp

theorem pinv_pushInherited {P : Feature → Prop} {f : Feature} {fuel : Nat} {ts ts' : TypeSystem} {cs : List String}
    (h : PInv P ts) (hf : OwnIn ts f) (hp : pushInherited f fuel ts cs = .ok ts') :
    PInv P ts' ∧ ∀ g, OwnIn ts g → OwnIn ts' g := by
  rw [pushInherited_eq_pushS] at hp
  exact pinv_pushS f fuel ts cs ts' h hf hp

/-! ### `_add_feature` -/

theorem pinv_addFeature {P : Feature → Prop} {ts ts' : TypeSystem} {dom : String} {f : Feature}
    (h : PInv P ts) (hf : P f) (ha : addFeature ts dom f = .ok ts') :
    PInv P ts' ∧ ∀ g, OwnIn ts g → OwnIn ts' g := by
  unfold addFeature at ha
  cases hfind : find? ts dom with
  | none => rw [hfind] at ha; cases ha
  | some t =>
    rw [hfind] at ha
    dsimp only at ha
    cases hchk : addCheck t f false with
    | conflict => rw [hchk] at ha; cases ha
    | same => rw [hchk] at ha; cases ha; exact ⟨h, fun _ hg => hg⟩
    | fresh =>
      rw [hchk] at ha
      dsimp only at ha
      split at ha
      · cases ha
      · obtain ⟨h1, hf1, ho1⟩ := pinv_setRec_own h (find?_mem hfind) f hf
        obtain ⟨h2, ho2⟩ := pinv_pushInherited h1 hf1 ha
        exact ⟨h2, fun g hg => ho2 g (ho1 g hg)⟩

/-- `create_feature`: the record that is added has the name (with the underscore for `self` / `type`), the flag and the
    reserved mark the call determines -/
theorem pinv_createFeature {P : Feature → Prop} {ts ts' : TypeSystem} {dom name range : String}
    {elem descr : Option String} {multi : Option Bool} (h : PInv P ts)
    (hf : ∀ f : Feature, f.name = (if (name == "self" || name == "type") = true then name ++ "_" else name) →
      f.multi = multi → f.reserved = (name == "self" || name == "type") → P f)
    (hc : createFeature ts dom name range elem descr multi = .ok ts') :
    PInv P ts' ∧ ∀ g, OwnIn ts g → OwnIn ts' g := by
  unfold createFeature at hc
  simp only [bind, Except.bind] at hc
  cases hd : getType ts dom with
  | error e => rw [hd] at hc; cases hc
  | ok d =>
    rw [hd] at hc; simp only at hc
    cases hr : getType ts range with
    | error e => rw [hr] at hc; cases hc
    | ok r =>
      rw [hr] at hc; simp only at hc
      cases elem with
      | none =>
        simp only [pure, Except.pure] at hc
        exact pinv_addFeature h (hf _ rfl rfl rfl) hc
      | some en =>
        simp only at hc
        cases he : getType ts en with
        | error e => rw [he] at hc; cases hc
        | ok e =>
          rw [he] at hc; simp only [pure, Except.pure] at hc
          exact pinv_addFeature h (hf _ rfl rfl rfl) hc

/-! ### `create_type` -/

theorem inheritAll_spec : ∀ (fs : List Feature) (t t' : TypeRec), inheritAll fs t = .ok t' →
    t'.name = t.name ∧ t'.own = t.own ∧ ∀ r ∈ t'.inh, r ∈ t.inh ∨ r ∈ fs
  | [], t, t', h => by
    unfold inheritAll at h; cases h
    exact ⟨rfl, rfl, fun r hr => Or.inl hr⟩
  | f :: fs, t, t', h => by
    unfold inheritAll at h
    cases hchk : addCheck t f true with
    | conflict => rw [hchk] at h; cases h
    | same =>
      rw [hchk] at h
      obtain ⟨h0, h1, h2⟩ := inheritAll_spec fs t t' h
      exact ⟨h0, h1, fun r hr => (h2 r hr).imp id (List.mem_cons_of_mem _)⟩
    | fresh =>
      rw [hchk] at h
      obtain ⟨h0, h1, h2⟩ := inheritAll_spec fs _ t' h
      refine ⟨h0, h1, fun r hr => ?_⟩
      rcases h2 r hr with h3 | h3
      · rcases List.mem_append.mp h3 with h4 | h4
        · exact Or.inl h4
        · simp only [List.mem_singleton] at h4; subst h4; exact Or.inr List.mem_cons_self
      · exact Or.inr (List.mem_cons_of_mem _ h3)

/-- `create_type` of a NEW name -/
theorem pinv_createType {P : Feature → Prop} {K : Consts} {ts ts' : TypeSystem} {n s : String} {d : Option String}
    (h : PInv P ts) (hnew : hasExact ts n = false) (hc : createType K ts n s d = .ok ts') :
    PInv P ts' ∧ ∀ g, OwnIn ts g → OwnIn ts' g := by
  unfold createType at hc
  simp only [bind, Except.bind, throw, throwThe, MonadExceptOf.throw, pure, Except.pure] at hc
  split at hc
  · cases hc
  · split at hc
    · cases hc
    · cases hsup : getType ts s with
      | error e => rw [hsup] at hc; cases hc
      | ok sup =>
        rw [hsup] at hc
        dsimp only at hc
        split at hc
        · cases hc
        · cases hinh : inheritAll (allFeatures sup) { name := n, super := some sup.name, descr := d } with
          | error e => rw [hinh] at hc; cases hc
          | ok new1 =>
            rw [hinh] at hc
            dsimp only at hc
            have hsm : sup ∈ ts.types := getType_mem hsup
            obtain ⟨hn1, ho1, hi1⟩ := inheritAll_spec _ _ _ hinh
            -- the supertype with the new child: same features
            generalize hsup' : (if sup.children.contains n then sup
              else { sup with children := sup.children ++ [n] }) = sup' at hc
            have hsn : sup'.name = sup.name := by rw [← hsup']; split <;> rfl
            have hso : sup'.own = sup.own := by rw [← hsup']; split <;> rfl
            have hsi : sup'.inh = sup.inh := by rw [← hsup']; split <;> rfl
            have hmem := fun x => mem_setRec (x := x) h.nodup (r := sup') hsm hsn
            have hnames : (setRec ts sup').types.map (·.name) = ts.types.map (·.name) := names_setRec ts sup'
            have hnew' : hasExact (setRec ts sup') new1.name = false := by
              rw [hn1]
              cases hh : hasExact (setRec ts sup') n with
              | false => rfl
              | true =>
                have := (hasExact_iff_mem _ _).mp hh
                rw [hnames] at this
                rw [(hasExact_iff_mem _ _).mpr this] at hnew; cases hnew
            have hts' : ts'.types = (setRec ts sup').types ++ [new1] := by
              unfold putRec at hc
              rw [hnew'] at hc
              simp only [Bool.false_eq_true, if_false, Except.ok.injEq] at hc
              rw [← hc]
            have hown1 : ∀ g, OwnIn ts g → OwnIn ts' g := by
              rintro g ⟨x, hx, hg⟩
              by_cases e : x = sup
              · subst e
                exact ⟨sup', by rw [hts']; exact List.mem_append_left _ ((hmem _).mpr (Or.inl rfl)), by rw [hso]; exact hg⟩
              · exact ⟨x, by rw [hts']; exact List.mem_append_left _ ((hmem _).mpr (Or.inr ⟨hx, e⟩)), hg⟩
            refine ⟨⟨?_, ?_, ?_⟩, hown1⟩
            · rw [hts', List.map_append, hnames]
              simp only [List.map_cons, List.map_nil]
              rw [List.nodup_append]
              refine ⟨h.nodup, by simp, ?_⟩
              intro a ha b hb e
              simp only [List.mem_singleton] at hb
              subst hb
              rw [e, hn1] at ha
              rw [(hasExact_iff_mem _ _).mpr ha] at hnew; cases hnew
            · intro x hx g hg
              rw [hts'] at hx
              rcases List.mem_append.mp hx with hx | hx
              · rcases (hmem x).mp hx with rfl | ⟨hx', _⟩
                · rw [hso] at hg; exact h.own sup hsm g hg
                · exact h.own x hx' g hg
              · simp only [List.mem_singleton] at hx; subst hx
                rw [ho1] at hg; cases hg
            · intro x hx r hr
              rw [hts'] at hx
              rcases List.mem_append.mp hx with hx | hx
              · rcases (hmem x).mp hx with rfl | ⟨hx', _⟩
                · rw [hsi] at hr; exact hown1 r (h.inh sup hsm r hr)
                · exact hown1 r (h.inh x hx' r hr)
              · simp only [List.mem_singleton] at hx; subst hx
                rcases hi1 r hr with h0 | h0
                · cases h0
                · rcases List.mem_append.mp (allFeatures_sub h0) with h1 | h1
                  · exact hown1 r ⟨sup, hsm, h1⟩
                  · exact hown1 r (h.inh sup hsm r h1)

end Cassis.ChainE
