/-
JSON round trip with collections, layer T: what the traversal of the writer (`includeInlinable := true`) guarantees
about the collected structures (`LOkJ`): they are closed under references (`ClosedL`) and under the elements of FSArray
objects (`ClosedE`).  Cf. `lok_of_findAllFs` (`RoundTripJsonGlue.lean`) and `lokC_of_save` (`RoundTripCollTrav.lean`).
-/
import CassisModel.Proofs.RoundTripJsonCollDefs

namespace Cassis.Json
open Cassis.TS Cassis.Traverse Cassis.Lex Cassis.Xmi

/-- the options of the JSON writer -/
abbrev jop : Opts := { includeInlinable := true }

/-! ### small facts -/

theorem jmem_refsToPush_nil (H : Heap) {l : List (Option Nat)} {b : Nat} (h : some b ∈ l) :
    b ∈ refsToPush H [] l := by
  unfold refsToPush
  refine List.mem_filterMap.mpr ⟨some b, h, ?_⟩
  simp only [seenId_nil]
  rfl

theorem jslot_of {H : Heap} {a : Nat} {o : Obj} {n : String} {v : Val} (ho : H[a]? = some o)
    (hv : alistGet? o.slots n = some v) : Traverse.slot H a n = some v := by
  unfold Traverse.slot; rw [ho]; exact hv

theorem alistGet?_single {k n : String} {ev v : Val} (h : alistGet? [(k, ev)] n = some v) : k = n ∧ v = ev := by
  unfold alistGet? at h
  by_cases hk : k = n
  · rw [if_pos hk] at h
    cases h
    exact ⟨hk, rfl⟩
  · rw [if_neg hk] at h
    unfold alistGet? at h
    cases h

/-- the value of a feature of a general structure is never a raw list, and the sofa / primitive cases never hold a
    reference -/
theorem jfeat_not_refs {K : Consts} {ts : TypeSystem} {c : Cas} {ci : Nat} {H : Heap} {o : Obj}
    {isAnn : Bool} {f : Feature} (hf : JFeatOk K ts c ci H isAnn o f) (l : List (Option Nat)) :
    alistGet? o.slots f.name ≠ some (.refs l) := by
  obtain ⟨_, _, _, _, _, v, hv, hcase⟩ := hf
  intro h
  rw [hv] at h
  cases h
  rcases hcase with ⟨_, hs⟩ | ⟨_, _, h3⟩ | ⟨_, _, _, _, _, hval⟩
  · rcases hs with ⟨vn, e, _⟩ | ⟨e, _⟩ <;> cases e
  · rcases h3 with e | ⟨_, i, e⟩ | ⟨_, s, e⟩ | ⟨_, b', e⟩ | ⟨_, t, e⟩ <;> cases e
  · rcases hval with e | ⟨b, e, _⟩ <;> cases e

/-! ### the pushes of a general structure against an empty visited map -/

theorem jfeatureSuccs_coll {K : Consts} {ts : TypeSystem} {c : Cas} {ci : Nat} {H : Heap} {a : Nat} {o : Obj}
    {isAnn : Bool} {f : Feature} (fuel : Nat) (ho : H[a]? = some o) (hf : JFeatOk K ts c ci H isAnn o f) :
    ∃ ps : List Nat, featureSuccs K ts jop H [] fuel a f = .ok (ps, 0) ∧
      ∀ b, alistGet? o.slots f.name = some (.ref b) → b ∈ ps := by
  obtain ⟨_, _, _, _, _, v, hv, hcase⟩ := hf
  have hslot : Traverse.slot H a f.name = some v := jslot_of ho hv
  unfold featureSuccs
  rcases hcase with ⟨hn, hs⟩ | ⟨hn, hprim, h3⟩ | ⟨hn, hprim, _, _, _, hval⟩
  · refine ⟨[], ?_, ?_⟩
    · simp [hn]
    · intro b hb
      rw [hv] at hb
      rcases hs with ⟨vn, rfl, _⟩ | ⟨rfl, _⟩ <;> cases hb
  · have hn' : (f.name == "sofa") = false := by simpa using hn
    refine ⟨[], ?_, ?_⟩
    · simp [hn', hprim]
    · intro b hb
      rw [hv] at hb
      rcases h3 with rfl | ⟨_, i, rfl⟩ | ⟨_, s, rfl⟩ | ⟨_, b', rfl⟩ | ⟨_, t, rfl⟩ <;> cases hb
  · have hn' : (f.name == "sofa") = false := by simpa using hn
    rcases hval with rfl | ⟨b, rfl, _⟩
    · refine ⟨[], ?_, ?_⟩
      · simp [hn', hprim, hslot]
      · intro b hb; rw [hv] at hb; cases hb
    · refine ⟨[b], ?_, ?_⟩
      · simp [hn', hprim, hslot, seenId_nil]
      · intro b' hb; rw [hv] at hb; cases hb; exact List.mem_singleton.mpr rfl

theorem jfeaturesSuccs_coll {K : Consts} {ts : TypeSystem} {c : Cas} {ci : Nat} {H : Heap} {a : Nat} {o : Obj}
    {isAnn : Bool} (fuel : Nat) (ho : H[a]? = some o) :
    ∀ (fs : List Feature), (∀ f ∈ fs, JFeatOk K ts c ci H isAnn o f) →
    ∃ ps : List Nat, featuresSuccs K ts jop H [] fuel a fs = .ok (ps, 0) ∧
      ∀ f ∈ fs, ∀ b, alistGet? o.slots f.name = some (.ref b) → b ∈ ps := by
  intro fs
  induction fs with
  | nil => intro _; exact ⟨[], rfl, fun f hf => by cases hf⟩
  | cons f fs ih =>
    intro hall
    obtain ⟨p1, h1, m1⟩ := jfeatureSuccs_coll fuel ho (hall f List.mem_cons_self)
    obtain ⟨p2, h2, m2⟩ := ih (fun g hg => hall g (List.mem_cons_of_mem _ hg))
    refine ⟨p1 ++ p2, ?_, ?_⟩
    · unfold featuresSuccs
      simp only [h1, h2, bind, Except.bind, pure, Except.pure]
    · intro g hg b hb
      rcases List.mem_cons.mp hg with rfl | hg
      · exact List.mem_append_left _ (m1 b hb)
      · exact List.mem_append_right _ (m2 g hg b hb)

/-- the successors of a general structure contain the targets of all its reference slots -/
theorem jsuccs_gen {K : Consts} {ts : TypeSystem} {c : Cas} {ci : Nat} {H : Heap} {a : Nat} (fuel : Nat)
    (hg : JGenFs K ts c ci H a) {o : Obj} (ho : H[a]? = some o) {n : String} {b : Nat}
    (hb : alistGet? o.slots n = some (.ref b)) : b ∈ succsOf K ts jop H fuel a := by
  obtain ⟨o', t, ho', ht, _, _, _, hsup, _, _, _, _, _, _, hsl, hfeat, _⟩ := hg
  rw [ho] at ho'; cases ho'
  obtain ⟨f, hf, rfl⟩ := flat_slot_feature hsl hb
  obtain ⟨ps, hps, hm⟩ := jfeaturesSuccs_coll (K := K) (ts := ts) fuel ho (allFeatures t) hfeat
  have hnode : nodeSuccs K ts jop H [] fuel a t = .ok (ps, 0) := by
    unfold nodeSuccs
    have : (t.super == some ARRAY_BASE) = false := by
      cases hh : (t.super == some ARRAY_BASE)
      · rfl
      · exact absurd (eq_of_beq hh) hsup
    rw [this]
    exact hps
  rw [succsOf_eq K ts jop ho (getType_of_find ht) hnode]
  exact hm f hf b hb

/-- a general structure has no slot holding a raw list of references -/
theorem jgen_no_refs {K : Consts} {ts : TypeSystem} {c : Cas} {ci : Nat} {H : Heap} {a : Nat}
    (hg : JGenFs K ts c ci H a) {o : Obj} (ho : H[a]? = some o) {n : String} {l : List (Option Nat)}
    (hl : alistGet? o.slots n = some (.refs l)) : False := by
  obtain ⟨o', t, ho', _, _, _, _, _, _, _, _, _, _, _, hsl, hfeat, _⟩ := hg
  rw [ho] at ho'; cases ho'
  obtain ⟨f, hf, rfl⟩ := flat_slot_feature hsl hl
  exact jfeat_not_refs (hfeat f hf) l hl

/-! ### array objects -/

/-- an array object has no slot holding a reference -/
theorem jarr_no_ref {K : Consts} {ts : TypeSystem} {H : Heap} {a : Nat}
    (ha : JArrFs K ts H a) {o : Obj} (ho : H[a]? = some o) {n : String} {b : Nat}
    (hb : alistGet? o.slots n = some (.ref b)) : False := by
  obtain ⟨o', t, f, ev, ho', _, _, _, _, _, _, hsl, _, _, hcase⟩ := ha
  rw [ho] at ho'; cases ho'
  rw [hsl] at hb
  obtain ⟨_, hev⟩ := alistGet?_single hb
  subst hev
  rcases hcase with ⟨_, _, l, e⟩ | ⟨_, _, hp⟩
  · cases e
  · rcases hp with e | ⟨_, l, e⟩ | ⟨_, l, e⟩ | ⟨_, _, ⟨l, e⟩ | ⟨l, e⟩ | ⟨l, e⟩⟩ <;> cases e

/-- the successors of an array object contain its non-null elements -/
theorem jsuccs_arr {K : Consts} {ts : TypeSystem} {H : Heap} {a : Nat} (fuel : Nat)
    (ha : JArrFs K ts H a) {o : Obj} (ho : H[a]? = some o) {l : List (Option Nat)}
    (hl : alistGet? o.slots "elements" = some (.refs l)) {b : Nat} (hb : some b ∈ l) :
    b ∈ succsOf K ts jop H fuel a := by
  obtain ⟨o', t, f, ev, ho', ht, htn, hsup, _, _, _, hsl, _, _, hcase⟩ := ha
  rw [ho] at ho'; cases ho'
  rcases hcase with ⟨hty, _, _⟩ | ⟨_, _, hp⟩
  · have hnode : nodeSuccs K ts jop H [] fuel a t = .ok (refsToPush H [] l, 0) := by
      unfold nodeSuccs
      have h1 : (t.super == some ARRAY_BASE) = true := by rw [hsup]; exact beq_self_eq_true _
      have h2 : (t.name == FS_ARRAY) = true := by rw [htn, hty]; exact beq_self_eq_true _
      rw [h1, h2, jslot_of ho hl]
      rfl
    rw [succsOf_eq K ts jop ho (getType_of_find ht) hnode]
    exact jmem_refsToPush_nil H hb
  · exfalso
    rw [hsl] at hl
    obtain ⟨_, hev⟩ := alistGet?_single hl
    subst hev
    rcases hp with e | ⟨_, l', e⟩ | ⟨_, l', e⟩ | ⟨_, _, ⟨l', e⟩ | ⟨l', e⟩ | ⟨l', e⟩⟩
    · cases e; cases hb
    all_goals cases e

/-! ### the theorem -/

theorem trav_collJ : TravStmt := by
  intro K ts ci c hp st hwf hfa hcoll
  have hpos := hwf.next_pos
  have hids : ∀ q ∈ sortById st.allFs, xidOf st.heap q.2 = some q.1 ∧ q.1 ≠ 0 := fun q hq =>
    findAllFs_ids_aux K ts jop hp c.nextXid _ st hpos hfa q.1 q.2 (mem_sortById.mp hq)
  -- a successor of a collected structure is collected
  have hclosed : ∀ q ∈ sortById st.allFs, ∀ b : Nat, b ∈ succsOf K ts jop st.heap (hp.length + 1) q.2 →
      ∃ x : Int, xidOf st.heap b = some x ∧ (x, b) ∈ sortById st.allFs := by
    intro q hq b hsucc
    have hnz : xidOf st.heap b ≠ some 0 := by
      intro h0
      have := jst_ids_pos hwf hfa b 0 h0
      omega
    have hbm := findAllFs_closed_aux K ts jop hp c.nextXid _ st hpos hfa q.1 q.2 b
      (mem_sortById.mp hq) hsucc hnz
    obtain ⟨p, hp1, hp2⟩ := List.mem_map.mp hbm
    obtain ⟨x, b'⟩ := p
    simp only at hp2
    subst hp2
    exact ⟨x, (hids (x, b') (mem_sortById.mpr hp1)).1, mem_sortById.mpr hp1⟩
  refine ⟨fun q hq => hcoll q (mem_sortById.mp hq), hids, ?_, ?_, ?_, ?_⟩
  · exact ((sortById_perm_aux st.allFs).map (·.1)).nodup_iff.mpr
      (findAllFs_nodup_aux K ts jop hp c.nextXid _ st hfa).1
  · intro q hq o ho n b hb
    rcases (hcoll q (mem_sortById.mp hq)).1 with hg | ha
    · exact hclosed q hq b (jsuccs_gen (hp.length + 1) hg ho hb)
    · exact (jarr_no_ref ha ho hb).elim
  · intro q hq o ho l hl b hb
    rcases (hcoll q (mem_sortById.mp hq)).1 with hg | ha
    · exact (jgen_no_refs hg ho hl).elim
    · exact hclosed q hq b (jsuccs_arr (hp.length + 1) ha ho hl hb)
  · intro nv hnv e he
    have hseed : e.oid ∈ defaultSeeds c := by
      unfold defaultSeeds
      exact List.mem_flatMap.mpr ⟨nv, hnv, List.mem_map.mpr ⟨e, he, rfl⟩⟩
    have hnz : xidOf st.heap e.oid ≠ some 0 := by
      intro h0
      have := jst_ids_pos hwf hfa e.oid 0 h0
      omega
    have hbm := findAllFs_complete_aux K ts jop hp c.nextXid _ st hpos hfa e.oid (.seed _ hseed) hnz
    obtain ⟨p, hp1, hp2⟩ := List.mem_map.mp hbm
    obtain ⟨x, b'⟩ := p
    simp only at hp2
    subst hp2
    exact ⟨x, mem_sortById.mpr hp1⟩

end Cassis.Json

