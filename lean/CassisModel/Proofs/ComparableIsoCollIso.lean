/-
C20 across the XMI round trip, whole format, layer 3: the relation between the written and the loaded heap is an
isomorphism in the semantic sense `IsoR` (`Proofs/ComparableIsoR.lean`).
-/
import CassisModel.Proofs.ComparableIsoCollSlots

namespace Cassis.Comparable
open Cassis.TS Cassis.Traverse Cassis.Xmi Cassis.ChainC

/-- an integer is related to itself only -/
theorem vrof_int {AR : Nat → Nat → Prop} {v v' : Val} (h : VRof AR v v') (i : Int) : v = .int i ↔ v' = .int i := by
  rcases h with h | ⟨h1, h2⟩ | ⟨a, a', rfl, rfl, _⟩ | ⟨l, l', rfl, rfl, _⟩
  · constructor
    · intro e; subst e; exact sameCell_int_left h
    · intro e; subst e; exact sameCell_int_right h
  · constructor
    · intro e; subst e; exact absurd h1 emptyList_int
    · intro e; subst e; exact absurd h2 emptyList_int
  · constructor <;> (intro e; cases e)
  · constructor <;> (intro e; cases e)

section
variable {K : Consts} {ts : TypeSystem} {c : Cas} {ci : Nat} {H : Heap} {L : List (Int × Nat)} {na : Int → Nat}
  {ia : Int → String → Nat} {ci' : Nat} {hpL : Heap} {addrs : List Nat}

/-- the `sofa` slot of a collected structure -/
theorem CtxC.sofa_slot (X : CtxC K ts c ci H L na ia ci' hpL addrs) {q : Int × Nat} (hq : q ∈ L) {o : Obj}
    (ho : H[q.2]? = some o) {v : Val} (hv : alistGet? o.slots "sofa" = some v) :
    (∃ vn, v = .sofa ci vn ∧ (Cas.getViewRec c vn).isSome = true) ∨ v = .none := by
  rcases X.hL.coll q hq with hg | ha
  · obtain ⟨o1, t, ho1, ht, _, _, _, _, _, _, _, _, _, hnd, hsl, hfeat, _⟩ := hg
    rw [ho] at ho1; cases ho1
    have hm : "sofa" ∈ o.slots.map (·.1) := List.mem_map.mpr ⟨("sofa", v), alistGet?_mem _ _ _ hv, rfl⟩
    rw [hsl, List.mem_eraseDups] at hm
    unfold ctorFields at hm
    obtain ⟨f, hf, hfn⟩ := List.mem_map.mp hm
    rcases hfeat f hf with hflat | ⟨hname, _⟩
    · obtain ⟨_, _, _, _, _, _, _, _, _, _, _, v0, hv0, hcase⟩ := hflat
      rw [hfn, hv] at hv0; cases hv0
      rcases hcase with ⟨_, hs⟩ | ⟨hne, _⟩ | ⟨hne, _⟩
      · rcases hs with ⟨vn, rfl, h⟩ | ⟨rfl, _⟩
        · exact Or.inl ⟨vn, rfl, h⟩
        · exact Or.inr rfl
      · exact absurd hfn hne
      · exact absurd hfn hne
    · exact absurd hfn hname.2.2.2.2.2
  · obtain ⟨o1, ev, ho1, hsl, _⟩ := X.arrFs_elems hq ha
    rw [ho] at ho1; cases ho1
    rw [hsl] at hv
    have := (CAR.get_elems_inv _ _ _ hv).1
    exact absurd this (by decide)

theorem CtxC.viewTag (X : CtxC K ts c ci H L na ia ci' hpL addrs) {cass cass' : List Cas} {c' : Cas}
    (hc : cass[ci]? = some c) (hc' : cass'[ci']? = some c') (hviews : ViewsSame c c') {q : Int × Nat} (hq : q ∈ L) :
    viewTag cass' hpL (na q.1) = Comparable.viewTag cass H q.2 := by
  obtain ⟨o, o', ho, ho', _⟩ := X.hrel q hq
  unfold Comparable.viewTag
  rw [X.slot hq ho "sofa", slot_obj ho "sofa"]
  cases hs : alistGet? o.slots "sofa" with
  | none => rfl
  | some v =>
    rcases X.sofa_slot hq ho hs with ⟨vn, rfl, hsome⟩ | rfl
    · cases hg : Cas.getViewRec c vn with
      | none => rw [hg] at hsome; cases hsome
      | some w =>
        obtain ⟨w', hw', hid, _⟩ := hviews vn w hg
        simp only [Option.map_some, E3c, exp3, hc, hc', hg, hw', hid]
    · rfl

theorem CtxC.coveredText (X : CtxC K ts c ci H L na ia ci' hpL addrs) {cass cass' : List Cas} {c' : Cas}
    (hc : cass[ci]? = some c) (hc' : cass'[ci']? = some c') (hviews : ViewsSame c c') {q : Int × Nat} (hq : q ∈ L)
    (hann : isAnnot H q.2 = true) :
    Cas.coveredText cass' hpL (na q.1) = Cas.coveredText cass H q.2 := by
  obtain ⟨o, o', ho, ho', _, _, hkeys, hslots⟩ := X.hrel q hq
  obtain ⟨b, e, hb, he⟩ := isAnnot_slots_x ho hann
  have hb' : alistGet? o'.slots "begin" = some (.int b) := hslots _ _ hb
  have he' : alistGet? o'.slots "end" = some (.int e) := hslots _ _ he
  unfold Cas.coveredText
  simp only [ho, ho', hb, he, hb', he', bind, Except.bind, pure, Except.pure]
  cases hs : alistGet? o.slots "sofa" with
  | none =>
    have hs' : alistGet? o'.slots "sofa" = none := by
      cases h' : alistGet? o'.slots "sofa" with
      | none => rfl
      | some w =>
        obtain ⟨v, hv⟩ := alistGet?_of_keys o.slots o'.slots "sofa" w hkeys.symm h'
        rw [hs] at hv; cases hv
    rw [hs']
  | some v =>
    have hs' : alistGet? o'.slots "sofa" = some (E3c K ts H na ia ci' o "sofa" v) := hslots _ _ hs
    rw [hs']
    rcases X.sofa_slot hq ho hs with ⟨vn, rfl, hsome⟩ | rfl
    · cases hg : Cas.getViewRec c vn with
      | none => rw [hg] at hsome; cases hsome
      | some w =>
        obtain ⟨w', hw', _, htext⟩ := hviews vn w hg
        simp only [E3c, exp3, hc, hc', hg, hw', htext]
    · rfl

/-- **the round-trip relation of the whole format is an isomorphism (`IsoR`)** -/
theorem isoR_of_ctx (X : CtxC K ts c ci H L na ia ci' hpL addrs) {cass cass' : List Cas} {c' : Cas}
    (hc : cass[ci]? = some c) (hc' : cass'[ci']? = some c') (hviews : ViewsSame c c')
    (hseed : ∀ q ∈ L, (q.2 ∈ defaultSeeds c ↔ na q.1 ∈ defaultSeeds c'))
    (addrs' : List Nat) (hperm : addrs.Perm (L.map (·.2))) (hperm' : addrs'.Perm (L.map (fun q => na q.1))) :
    IsoR K cass cass' H hpL (defaultSeeds c) (defaultSeeds c') addrs addrs' (phiOf H na) := by
  have haddrs := X.addrs_sub
  have hmapφ : (L.map (·.2)).map (phiOf H na) = L.map (fun q => na q.1) := by
    rw [List.map_map]
    apply List.map_congr_left
    intro q hq
    exact X.phi hq
  have hinj : ∀ q ∈ L, ∀ q' ∈ L, na q.1 = na q'.1 → q.1 = q'.1 := by
    intro q hq q' hq' e
    have h := X.xid hq
    rw [e, X.xid hq'] at h
    exact (Option.some.inj h).symm
  have hnd : (L.map (fun q => na q.1)).Nodup := by
    have h1 : L.Nodup := nodup_of_nodup_map (·.1) L X.hL.nodup
    unfold List.Nodup at h1 ⊢
    rw [List.pairwise_map]
    refine h1.imp_of_mem ?_
    intro q q' hq hq' hne e
    exact hne (pair_eq_of_nodup_fst L X.hL.nodup q hq q' hq' (hinj q hq q' hq' e))
  refine ⟨?_, ?_, ?_, ?_, ?_, ?_, ?_, ?_, ?_, ?_⟩
  · exact ((hperm.map _).trans (by rw [hmapφ])).trans hperm'.symm
  · exact hperm'.nodup_iff.mpr hnd
  · intro a ha
    obtain ⟨q, hq, rfl⟩ := haddrs a ha
    rw [X.phi hq]
    exact hseed q hq
  · intro a ha
    obtain ⟨q, hq, rfl⟩ := haddrs a ha
    rw [X.phi hq]
    exact X.tyOf hq
  · intro a ha
    obtain ⟨q, hq, rfl⟩ := haddrs a ha
    rw [X.phi hq]
    exact X.sameKey hq
  · intro a ha
    obtain ⟨q, hq, rfl⟩ := haddrs a ha
    rw [X.phi hq]
    exact X.viewTag hc hc' hviews hq
  · intro a ha hann
    obtain ⟨q, hq, rfl⟩ := haddrs a ha
    rw [X.phi hq]
    exact X.coveredText hc hc' hviews hq hann
  · intro a ha n _
    obtain ⟨q, hq, rfl⟩ := haddrs a ha
    rw [X.phi hq]
    have hr := slot_vrof X hq n
    apply Option.ext
    intro i
    rw [intOf_eq_some, intOf_eq_some]
    exact (vrof_int hr i).symm
  · intro byId byId' hA a ha n _
    obtain ⟨q, hq, rfl⟩ := haddrs a ha
    rw [X.phi hq]
    exact sim_eq K H hpL byId byId' _ (simStep_c X hA) (slot_vrof X hq n)
  · intro a ha _
    obtain ⟨q, hq, rfl⟩ := haddrs a ha
    obtain ⟨o, _, ho, _⟩ := X.hrel q hq
    rw [X.phi hq, X.slot hq ho, slot_obj ho]
    cases alistGet? o.slots "elements" <;> rfl

end

end Cassis.Comparable
