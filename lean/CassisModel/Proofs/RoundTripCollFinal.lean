/-
Round trip with collections, last layer: the content (`featContentC`, `Spec/RoundTripColl.lean`) of every feature
is the same on both sides, given the relation between the written and the loaded heap after the third pass.
-/
import CassisModel.Proofs.RoundTripCollDefs
import CassisModel.Proofs.RoundTripCollFrz
import CassisModel.Proofs.RoundTripGlue

namespace Cassis.Xmi
open Cassis.TS Cassis.Traverse Cassis.Lex

namespace CF

/-! ### values -/

theorem elemVals_elemsExp (H hpL : Heap) (na : Int → Nat) (ev : Val)
    (h : ∀ l, ev = .refs l → ∀ r ∈ l, ∃ b x, r = some b ∧ xidOf H b = some x ∧ xidOf hpL (na x) = some x) :
    elemVals hpL (elemsExp H na ev) = elemVals H ev := by
  cases ev with
  | refs l =>
    simp only [elemsExp, elemVals, List.map_map]
    apply List.map_congr_left
    intro r hr
    obtain ⟨b, x, rfl, h1, h2⟩ := h l rfl r hr
    simp only [Function.comp, Option.bind_some, h1, Option.map_some, h2]
  | ints l => cases l <;> rfl
  | bools l => cases l <;> rfl
  | floats l => cases l <;> rfl
  | strs l =>
    cases l with
    | nil => rfl
    | cons e l =>
      simp only [elemsExp, List.isEmpty_cons, Bool.false_eq_true, if_false, elemVals, List.map_map]
      apply List.map_congr_left
      intro r _
      simp only [Function.comp, normTxt]
      cases r with
      | none => rfl
      | some s =>
        by_cases hs : s = ""
        · subst hs; rfl
        · have : (some s == some "") = false := by simpa using hs
          simp only [this, Bool.false_eq_true, if_false]
  | _ => rfl

/-- the heads the writer collects are the heads `listVals` sees -/
theorem listVals_collect (H : Heap) (isStr : Bool) : ∀ (fuel : Nat) (v : Val) (hs : List Val),
    collectList H fuel v = .ok hs → listVals H isStr fuel v = hs.map (headVal H isStr)
  | 0, v, hs, h => by simp [collectList] at h
  | f+1, v, hs, h => by
    cases v with
    | ref a =>
      unfold collectList at h
      unfold listVals
      cases hh : slot H a "head" with
      | none => rw [hh] at h; cases h; rfl
      | some hd =>
        rw [hh] at h
        simp only [bind, Except.bind] at h
        cases hr : collectList H f ((slot H a "tail").getD .none) with
        | error e => rw [hr] at h; cases h
        | ok rest =>
          rw [hr] at h
          cases h
          simp only [List.map_cons]
          rw [listVals_collect H isStr f _ rest hr]
    | _ => simp only [collectList] at h; cases h; rfl

theorem listVals_listAt {hp : Heap} (isStr : Bool) : ∀ {a : Nat} {vs : List Val}, ListAt hp a vs →
    ∀ fuel, vs.length < fuel → listVals hp isStr fuel (.ref a) = vs.map (headVal hp isStr) := by
  intro a vs h
  induction h with
  | @nil a o h1 h2 h3 =>
    intro fuel hf
    cases fuel with
    | zero => cases hf
    | succ f =>
      have : slot hp a "head" = none := by simp [slot, Traverse.slot, h1, h3]
      simp only [listVals, this, List.map_nil]
  | @cons a o hd a' rest h1 h2 h3 h4 _ ih =>
    intro fuel hf
    cases fuel with
    | zero => cases hf
    | succ f =>
      have e1 : slot hp a "head" = some hd := by simp [slot, Traverse.slot, h1, h3]
      have e2 : slot hp a "tail" = some (.ref a') := by simp [slot, Traverse.slot, h1, h4]
      simp only [listVals, e1, e2, Option.getD_some, List.map_cons]
      rw [ih f (by simpa using hf)]

/-- one head: the loaded head has the content of the written one -/
theorem headVal_headExp (H hpL : Heap) (na : Int → Nat) (isStr : Bool) (h : Val)
    (hstr : ∀ s, h = .str s → isStr = true)
    (href : ∀ b, h = .ref b → ∃ x, xidOf H b = some x ∧ xidOf hpL (na x) = some x) :
    headVal hpL isStr (headExp H na h) = headVal H isStr h := by
  cases h with
  | ref b =>
    obtain ⟨x, h1, h2⟩ := href b rfl
    simp only [headExp, h1, headVal, h2]
  | str s =>
    have := hstr s rfl
    subst this
    by_cases hs : s = ""
    · subst hs; rfl
    · have e : (s == "") = false := by simpa using hs
      simp only [headExp, strHead, e, Bool.false_eq_true, if_false, headVal, Bool.true_and]
  | _ => rfl

end CF

namespace CF

/-! ### small facts -/

theorem slot_of {hp : Heap} {a : Nat} {o : Obj} (n : String) (h : hp[a]? = some o) :
    slot hp a n = alistGet? o.slots n := by
  simp [slot, Traverse.slot, h]

theorem find_name {l : List Feature} (hnd : (l.map (·.name)).Nodup) {f : Feature} (hf : f ∈ l) :
    l.find? (fun g => g.name == f.name) = some f := by
  induction l with
  | nil => cases hf
  | cons g l ih =>
    rw [List.map_cons, List.nodup_cons] at hnd
    rw [List.find?_cons]
    rcases List.mem_cons.mp hf with rfl | hf'
    · simp
    · have hne : g.name ≠ f.name := fun e => hnd.1 (e ▸ List.mem_map_of_mem hf')
      have : (g.name == f.name) = false := by simpa using hne
      rw [this]
      exact ih hnd.2 hf'

theorem inlineSlot_eq {K : Consts} {ts : TypeSystem} {o : Obj} {t : TypeRec} {f : Feature}
    (ht : find? ts o.ty = some t) (hnd : (ctorFields t).Nodup) (hf : f ∈ allFeatures t) :
    inlineSlot K ts o f.name = isInline K f := by
  unfold inlineSlot
  rw [ht]
  simp only
  rw [find_name hnd hf]

theorem isArray_top (K : Consts) : isArray K TOP = false := by simp [isArray]
theorem isList_top (K : Consts) : isList K TOP = false := by simp [isList]

/-- the content of a feature as a function of the slot value -/
def contentOf (K : Consts) (hp : Heap) (f : Feature) (v : Val) : CVal :=
  if isInline K f then
    match v with
    | .ref c =>
      if isArray K f.range then .elems (elemVals hp ((slot hp c "elements").getD .none))
      else .elems (listVals hp (f.range == STRING_LIST) (hp.length + 1) v)
    | w => cvalOf hp w
  else cvalOf hp v

theorem featContentC_of {K : Consts} {hp : Heap} {a : Nat} {o : Obj} {f : Feature} {v : Val} (ho : hp[a]? = some o)
    (hv : alistGet? o.slots f.name = some v) : featContentC K hp a f = contentOf K hp f v := by
  unfold featContentC contentOf
  rw [slot_of f.name ho, hv]
  rfl

/-- a non-reference value is compared plainly, whatever the feature -/
theorem contentOf_nonref (K : Consts) (hp : Heap) (f : Feature) (v : Val) (h : ∀ c, v ≠ .ref c) :
    contentOf K hp f v = cvalOf hp v := by
  unfold contentOf
  split
  · cases v <;> first | rfl | exact absurd rfl (h _)
  · rfl

theorem contentOf_notInline (K : Consts) (hp : Heap) (f : Feature) (v : Val) (h : isInline K f = false) :
    contentOf K hp f v = cvalOf hp v := by
  unfold contentOf
  rw [h]; rfl

theorem contentOf_arr (K : Consts) (hp : Heap) (f : Feature) (c : Nat) (h : isInline K f = true)
    (ha : isArray K f.range = true) :
    contentOf K hp f (.ref c) = .elems (elemVals hp ((slot hp c "elements").getD .none)) := by
  unfold contentOf
  rw [h]; simp only [if_true, ha]

theorem contentOf_list (K : Consts) (hp : Heap) (f : Feature) (c : Nat) (h : isInline K f = true)
    (ha : isArray K f.range = false) :
    contentOf K hp f (.ref c) = .elems (listVals hp (f.range == STRING_LIST) (hp.length + 1) (.ref c)) := by
  unfold contentOf
  rw [h]; simp only [if_true, ha, Bool.false_eq_true, if_false]

/-- plain values: `exp3` keeps the content -/
theorem cvalOf_exp3_plain (H hpL : Heap) (na : Int → Nat) (ci' : Nat) (v : Val) (h1 : ∀ c, v ≠ .ref c)
    (h2 : isListV v = false) (h3 : ∀ tag, v ≠ .attr tag) : cvalOf hpL (exp3 H na ci' v) = cvalOf H v := by
  cases v <;> first | rfl | exact absurd rfl (h1 _) | exact absurd rfl (h3 _) | cases h2

theorem cvalOf_exp3_ref (H hpL : Heap) (na : Int → Nat) (ci' : Nat) (b : Nat) (x : Int) (h1 : xidOf H b = some x)
    (h2 : xidOf hpL (na x) = some x) : cvalOf hpL (exp3 H na ci' (.ref b)) = cvalOf H (.ref b) := by
  simp only [exp3, h1, cvalOf, h2]

theorem cvalOf_elems (H hpL : Heap) (na : Int → Nat) (ev : Val) (hl : isListV ev = true)
    (h : ∀ l, ev = .refs l → ∀ r ∈ l, ∃ b x, r = some b ∧ xidOf H b = some x ∧ xidOf hpL (na x) = some x) :
    cvalOf hpL (elemsExp H na ev) = cvalOf H ev := by
  have key := elemVals_elemsExp H hpL na ev h
  cases ev with
  | refs l => simp only [cvalOf, elemsExp] at key ⊢; rw [← key]
  | ints l => cases l <;> rfl
  | bools l => cases l <;> rfl
  | floats l => cases l <;> rfl
  | strs l =>
    cases l with
    | nil => rfl
    | cons e l =>
      have : elemsExp H na (.strs (e :: l)) = .strs ((e :: l).map normTxt) := rfl
      rw [this] at key ⊢
      simp only [cvalOf]
      rw [key]
  | _ => cases hl

end CF

namespace CF

theorem feat_unique {l : List Feature} (hnd : (l.map (·.name)).Nodup) {f f' : Feature} (hf : f ∈ l) (hf' : f' ∈ l)
    (hn : f'.name = f.name) : f' = f := by
  have h1 := find_name hnd hf
  have h2 := find_name hnd hf'
  rw [hn, h1] at h2
  cases h2
  rfl

section
variable {K : Consts} {ts : TypeSystem} {H hpL : Heap} {na : Int → Nat} {ia : Int → String → Nat} {ci' : Nat}

theorem content_plain (o : Obj) (f : Feature) (v : Val) (h1 : ∀ c, v ≠ .ref c) (h2 : isListV v = false)
    (h3 : ∀ tag, v ≠ .attr tag) :
    contentOf K hpL f (E3c K ts H na ia ci' o f.name v) = contentOf K H f v := by
  have e : E3c K ts H na ia ci' o f.name v = exp3 H na ci' v := by
    cases v <;> first | rfl | exact absurd rfl (h1 _) | cases h2
  have hn : ∀ c, exp3 H na ci' v ≠ .ref c := by
    cases v <;> first | (intro c hc; cases hc) | exact absurd rfl (h1 _) | cases h2
  rw [e, contentOf_nonref K hpL f _ hn, contentOf_nonref K H f v h1]
  exact cvalOf_exp3_plain H hpL na ci' v h1 h2 h3

theorem content_ref (o : Obj) (f : Feature) (b : Nat) (x : Int) (hni : isInline K f = false)
    (hinl : inlineSlot K ts o f.name = false) (h1 : xidOf H b = some x) (h2 : xidOf hpL (na x) = some x) :
    contentOf K hpL f (E3c K ts H na ia ci' o f.name (.ref b)) = contentOf K H f (.ref b) := by
  have e : E3c K ts H na ia ci' o f.name (.ref b) = exp3 H na ci' (.ref b) := by
    simp only [E3c, hinl, Bool.false_eq_true, if_false]
  rw [e, contentOf_notInline K hpL f _ hni, contentOf_notInline K H f _ hni]
  exact cvalOf_exp3_ref H hpL na ci' b x h1 h2

theorem E3c_inl (o : Obj) (n : String) (c : Nat) (x : Int) (hinl : inlineSlot K ts o n = true) (hox : o.xid = some x) :
    E3c K ts H na ia ci' o n (.ref c) = .ref (ia x n) := by
  simp only [E3c, hinl, if_true, hox, Option.getD_some]

theorem content_inl_arr (o : Obj) (f : Feature) (c : Nat) (x : Int) (hi : isInline K f = true)
    (ha : isArray K f.range = true) (hinl : inlineSlot K ts o f.name = true) (hox : o.xid = some x)
    (ev : Val) (hev : slot H c "elements" = some ev) (hat : ArrAt hpL (ia x f.name) (elemsExp H na ev))
    (hrefs : ∀ l, ev = .refs l → ∀ r ∈ l, ∃ b y, r = some b ∧ xidOf H b = some y ∧ xidOf hpL (na y) = some y) :
    contentOf K hpL f (E3c K ts H na ia ci' o f.name (.ref c)) = contentOf K H f (.ref c) := by
  rw [E3c_inl o f.name c x hinl hox, contentOf_arr K hpL f _ hi ha, contentOf_arr K H f _ hi ha, hev]
  obtain ⟨ob, h1, _, h3⟩ := hat
  rw [slot_of "elements" h1, h3]
  simp only [Option.getD_some]
  rw [elemVals_elemsExp H hpL na ev hrefs]

theorem content_inl_list (o : Obj) (f : Feature) (c : Nat) (x : Int) (hi : isInline K f = true)
    (ha : isArray K f.range = false) (hinl : inlineSlot K ts o f.name = true) (hox : o.xid = some x)
    (hs : List Val) (hcol : collectList H (H.length + 1) (.ref c) = .ok hs)
    (hat : ListAt hpL (ia x f.name) (hs.map (headExp H na))) (hlen : hs.length < hpL.length)
    (hstr : ∀ h ∈ hs, ∀ s, h = .str s → (f.range == STRING_LIST) = true)
    (href : ∀ h ∈ hs, ∀ b, h = .ref b → ∃ y, xidOf H b = some y ∧ xidOf hpL (na y) = some y) :
    contentOf K hpL f (E3c K ts H na ia ci' o f.name (.ref c)) = contentOf K H f (.ref c) := by
  rw [E3c_inl o f.name c x hinl hox, contentOf_list K hpL f _ hi ha, contentOf_list K H f _ hi ha]
  rw [listVals_collect H _ _ _ hs hcol, listVals_listAt _ hat (hpL.length + 1) (by rw [List.length_map]; omega)]
  rw [List.map_map]
  congr 1
  apply List.map_congr_left
  intro h hh
  exact headVal_headExp H hpL na _ h (hstr h hh) (href h hh)

end

end CF

namespace CF

theorem primElems_refs {r : String} {ev : Val} (h : PrimElems r ev) {l : List (Option Nat)} (e : ev = .refs l) : l = [] := by
  subst e
  rcases h with h | ⟨_, l', h⟩ | ⟨_, l', h, _⟩ | ⟨_, l', h⟩ | ⟨_, l', h, _⟩
  · cases h; rfl
  all_goals cases h

theorem strElems_refs {ev : Val} (h : StrElems ev) {l : List (Option Nat)} (e : ev = .refs l) : l = [] := by
  subst e
  rcases h with h | ⟨l', h⟩
  · cases h; rfl
  · cases h

/-- the content of every feature of a collected structure is the same in the written and in the loaded heap -/
theorem content_eq {K : Consts} {ts : TypeSystem} {c : Cas} {ci : Nat} {H : Heap} {L : List (Int × Nat)} {na : Int → Nat}
    {ia : Int → String → Nat} {ci' : Nat} {hpL : Heap}
    (hL : LOkC K ts c ci H L)
    (hxid : ∀ q ∈ L, xidOf hpL (na q.1) = some q.1)
    (hcolls : CollsAt K ts H L na ia hpL)
    (q : Int × Nat) (hq : q ∈ L) (o o' : Obj) (ho : H[q.2]? = some o) (ho' : hpL[na q.1]? = some o')
    (hslots : ∀ n v, alistGet? o.slots n = some v → alistGet? o'.slots n = some (E3c K ts H na ia ci' o n v))
    (t : TypeRec) (ht : find? ts o.ty = some t) (f : Feature) (hf : f ∈ allFeatures t) :
    featContentC K hpL (na q.1) f = featContentC K H q.2 f := by
  have hox : o.xid = some q.1 := by
    have := (hL.ids q hq).1
    unfold xidOf at this; rw [ho] at this; exact this
  have hres : ∀ b, Target K ts H q.2 b → ∃ x, xidOf H b = some x ∧ xidOf hpL (na x) = some x := by
    intro b hb
    obtain ⟨x, hx, hxl⟩ := hL.closed q hq b hb
    exact ⟨x, hx, hxid _ hxl⟩
  rcases hL.coll q hq with hgen | harr
  · obtain ⟨o2, t2, ho2, ht2, _, _, _, _, _, _, _, _, _, hnd, _, hfeat, _⟩ := hgen
    rw [ho] at ho2; cases ho2
    rw [ht] at ht2; cases ht2
    have hinl := inlineSlot_eq (K := K) ht hnd hf
    have plain : ∀ v, alistGet? o.slots f.name = some v → (∀ c, v ≠ .ref c) → isListV v = false → (∀ tag, v ≠ .attr tag) →
        featContentC K hpL (na q.1) f = featContentC K H q.2 f := by
      intro v hv h1 h2 h3
      rw [featContentC_of ho' (hslots _ _ hv), featContentC_of ho hv]
      exact content_plain o f v h1 h2 h3
    have refc : ∀ b, alistGet? o.slots f.name = some (.ref b) → isInline K f = false →
        featContentC K hpL (na q.1) f = featContentC K H q.2 f := by
      intro b hv hni
      rw [featContentC_of ho' (hslots _ _ hv), featContentC_of ho hv]
      obtain ⟨x, h1, h2⟩ := hres b ⟨o, t, ho, ht, .inl ⟨f, hf, hni, hv⟩⟩
      exact content_ref o f b x hni (hinl.trans hni) h1 h2
    rcases hfeat f hf with hflat | ⟨_, hsh | hin⟩
    · obtain ⟨_, _, _, _, _, _, _, _, _, _, _, v, hv, hcase⟩ := hflat
      rcases hcase with ⟨_, hs⟩ | ⟨_, _, h3⟩ | ⟨_, _, hna, hnl, _, _, _, hval⟩
      · rcases hs with ⟨vn, rfl, _⟩ | ⟨rfl, _⟩ <;>
          exact plain _ hv (by intro c h; cases h) rfl (by intro c h; cases h)
      · rcases h3 with rfl | ⟨_, i, rfl⟩ | ⟨_, s, rfl⟩ | ⟨_, b', rfl⟩ | ⟨_, t', rfl⟩ <;>
          exact plain _ hv (by intro c h; cases h) rfl (by intro c h; cases h)
      · rcases hval with rfl | ⟨b, rfl, _, _⟩
        · exact plain _ hv (by intro c h; cases h) rfl (by intro c h; cases h)
        · exact refc b hv (by unfold isInline; rw [hna, hnl]; simp)
    · obtain ⟨hm, _, _, _, _, _, v, hv, hval⟩ := hsh
      rcases hval with rfl | ⟨b, rfl, _⟩
      · exact plain _ hv (by intro c h; cases h) rfl (by intro c h; cases h)
      · exact refc b hv (by unfold isInline; rw [hm]; rfl)
    · obtain ⟨hm, v, hv, hkind⟩ := hin
      -- arrays
      have arrCase : ∀ (P : Val → Prop), isArray K f.range = true → InlArr H P v →
          (∀ cc ev, v = .ref cc → slot H cc "elements" = some ev → P ev → ∀ l, ev = .refs l → ∀ r ∈ l,
            ∃ b y, r = some b ∧ xidOf H b = some y ∧ xidOf hpL (na y) = some y) →
          featContentC K hpL (na q.1) f = featContentC K H q.2 f := by
        intro P harr hia hrefs
        have hi : isInline K f = true := by unfold isInline; rw [hm, harr]; rfl
        rcases hia with rfl | ⟨cc, ev, rfl, hev, hP⟩
        · exact plain _ hv (by intro c h; cases h) rfl (by intro c h; cases h)
        · rw [featContentC_of ho' (hslots _ _ hv), featContentC_of ho hv]
          obtain ⟨t', f', ht', hf', hn', hdisj⟩ := hcolls q hq o ho f.name cc hv (hinl.trans hi)
          rw [ht] at ht'; cases ht'
          have := feat_unique hnd hf hf' hn'; subst this
          rcases hdisj with ⟨_, ev', hev', hat⟩ | ⟨hno, _⟩
          · rw [hev] at hev'; cases hev'
            exact content_inl_arr o f' cc q.1 hi harr (hinl.trans hi) hox ev hev hat (hrefs cc ev rfl hev hP)
          · rw [harr] at hno; cases hno
      -- lists
      have listCase : ∀ (P : List Val → Prop), isArray K f.range = false → isList K f.range = true → InlList H P v →
          (∀ hs, P hs → ∀ h ∈ hs, ∀ s, h = .str s → (f.range == STRING_LIST) = true) →
          (∀ cc hs, v = .ref cc → collectList H (H.length + 1) (.ref cc) = .ok hs → P hs → ∀ h ∈ hs, ∀ b, h = .ref b →
            ∃ y, xidOf H b = some y ∧ xidOf hpL (na y) = some y) →
          featContentC K hpL (na q.1) f = featContentC K H q.2 f := by
        intro P harr hlist hil hstr href
        have hi : isInline K f = true := by unfold isInline; rw [hm, harr, hlist]; rfl
        rcases hil with rfl | ⟨cc, hs, rfl, hcol, hP⟩
        · exact plain _ hv (by intro c h; cases h) rfl (by intro c h; cases h)
        · rw [featContentC_of ho' (hslots _ _ hv), featContentC_of ho hv]
          obtain ⟨t', f', ht', hf', hn', hdisj⟩ := hcolls q hq o ho f.name cc hv (hinl.trans hi)
          rw [ht] at ht'; cases ht'
          have := feat_unique hnd hf hf' hn'; subst this
          rcases hdisj with ⟨hyes, _⟩ | ⟨_, hs', hcol', hat, hlen⟩
          · rw [harr] at hyes; cases hyes
          · rw [hcol] at hcol'; cases hcol'
            exact content_inl_list o f' cc q.1 hi harr (hinl.trans hi) hox hs hcol hat hlen (hstr hs hP)
              (href cc hs rfl hcol hP)
      rcases hkind with ⟨_, rk, hia⟩ | ⟨_, rk, hia⟩ | ⟨hr, rk, hia⟩ | ⟨_, rk, hil⟩ | ⟨_, rk, hil⟩ | ⟨hr, rk, hil⟩ |
        ⟨hr, rk, hil⟩
      · refine arrCase _ rk.arr hia (fun cc ev _ _ hP l e r hr => ?_)
        rw [primElems_refs hP e] at hr; cases hr
      · refine arrCase _ rk.arr hia (fun cc ev _ _ hP l e r hr => ?_)
        rw [strElems_refs hP e] at hr; cases hr
      · refine arrCase _ rk.arr hia (fun cc ev hvc hev hP l e r hmem => ?_)
        obtain ⟨l', e', hok⟩ := hP
        rw [e'] at e; cases e
        obtain ⟨b, hb, rfl⟩ := List.mem_map.mp hmem
        have hi : isInline K f = true := by unfold isInline; rw [hm, rk.arr]; rfl
        obtain ⟨y, h1, h2⟩ := hres b ⟨o, t, ho, ht, .inr (.inl ⟨f, hf, hi, hr, cc, l'.map some,
          by rw [← hvc]; exact hv, by rw [← e']; exact hev, List.mem_map_of_mem hb⟩)⟩
        exact ⟨b, y, rfl, h1, h2⟩
      · refine listCase _ rk.arr rk.list hil (fun hs hP h hh s e => ?_) (fun cc hs _ _ hP h hh b e => ?_)
        · obtain ⟨i, hi⟩ := hP h hh; rw [hi] at e; cases e
        · obtain ⟨i, hi⟩ := hP h hh; rw [hi] at e; cases e
      · refine listCase _ rk.arr rk.list hil (fun hs hP h hh s e => ?_) (fun cc hs _ _ hP h hh b e => ?_)
        · obtain ⟨i, hi, _⟩ := hP h hh; rw [hi] at e; cases e
        · obtain ⟨i, hi, _⟩ := hP h hh; rw [hi] at e; cases e
      · refine listCase _ rk.arr rk.list hil (fun hs hP h hh s e => ?_) (fun cc hs _ _ hP h hh b e => ?_)
        · rw [hr]; exact beq_self_eq_true _
        · rcases hP.2 h hh with h0 | ⟨s, h0⟩ <;> (rw [h0] at e; cases e)
      · refine listCase _ rk.arr rk.list hil (fun hs hP h hh s e => ?_) (fun cc hs hvc hcol hP h hh b e => ?_)
        · obtain ⟨b, hb, _⟩ := hP h hh; rw [hb] at e; cases e
        · have hi : isInline K f = true := by unfold isInline; rw [hm, rk.arr, rk.list]; rfl
          subst e
          obtain ⟨y, h1, h2⟩ := hres b ⟨o, t, ho, ht, .inr (.inr (.inl ⟨f, hf, hi, hr, cc, hs,
            by rw [← hvc]; exact hv, hcol, hh⟩))⟩
          exact ⟨y, h1, h2⟩
  · obtain ⟨o2, t2, f2, ev, ho2, ht2, _, _, hfs, hfn, hfr, _, hsl, _, hshape⟩ := harr
    rw [ho] at ho2; cases ho2
    rw [ht] at ht2; cases ht2
    rw [hfs] at hf
    have : f = f2 := by simpa using hf
    subst this
    have hv : alistGet? o.slots f.name = some ev := by rw [hsl, hfn]; simp [alistGet?]
    have hni : isInline K f = false := by unfold isInline; rw [hfr, isArray_top, isList_top]; simp
    rw [featContentC_of ho' (hslots _ _ hv), featContentC_of ho hv, contentOf_notInline K hpL f _ hni,
      contentOf_notInline K H f _ hni]
    have none_case : ev = .none → cvalOf hpL (E3c K ts H na ia ci' o f.name ev) = cvalOf H ev := by
      intro e; subst e; rfl
    have list_case : isListV ev = true → (∀ l, ev = .refs l → ∀ r ∈ l, ∃ b y, r = some b ∧ xidOf H b = some y ∧
        xidOf hpL (na y) = some y) → cvalOf hpL (E3c K ts H na ia ci' o f.name ev) = cvalOf H ev := by
      intro hl hrefs
      have e : E3c K ts H na ia ci' o f.name ev = elemsExp H na ev := by
        cases ev <;> first | rfl | cases hl
      rw [e]
      exact cvalOf_elems H hpL na ev hl hrefs
    rcases hshape with ⟨hty, _, _, hev⟩ | ⟨_, _, hev⟩ | ⟨_, _, _, hev⟩
    · rcases hev with e | ⟨l', e', hok⟩
      · exact none_case e
      · subst e'
        refine list_case rfl (fun l e r hr => ?_)
        cases e
        obtain ⟨b, hb, rfl⟩ := List.mem_map.mp hr
        obtain ⟨y, h1, h2⟩ := hres b ⟨o, t, ho, ht, .inr (.inr (.inr ⟨hty, l'.map some,
          by rw [← hfn]; exact hv, List.mem_map_of_mem hb⟩))⟩
        exact ⟨b, y, rfl, h1, h2⟩
    · rcases hev with e | ⟨l', e⟩
      · subst e; exact list_case rfl (fun l e r hr => by cases e; cases hr)
      · subst e; exact list_case rfl (fun l e r hr => by cases e)
    · rcases hev with e | hP
      · exact none_case e
      · have hl : isListV ev = true := by
          rcases hP with h | ⟨_, l', h⟩ | ⟨_, l', h, _⟩ | ⟨_, l', h⟩ | ⟨_, l', h, _⟩ <;> (subst h; rfl)
        refine list_case hl (fun l e r hr => ?_)
        rw [primElems_refs hP e] at hr; cases hr

end CF

/-! ### from `LOkC` to the part the third pass needs -/

theorem lokW_of_lokC {K : Consts} {ts : TypeSystem} {c : Cas} {ci : Nat} {H : Heap} {L : List (Int × Nat)}
    (hL : LOkC K ts c ci H L) : LOkW ts c ci H L := by
  refine ⟨hL.ids, hL.nodup, hL.members, ?_, ?_, ?_⟩
  · intro q hq o ho
    rcases hL.coll q hq with ⟨o2, t, ho2, ht, _⟩ | ⟨o2, t, _, _, ho2, ht, _⟩ <;>
      (rw [ho] at ho2; cases ho2; exact ⟨t, ht⟩)
  · intro q hq o ho v hv
    rcases hL.coll q hq with hgen | harr
    · obtain ⟨o2, t, ho2, _, _, _, _, _, _, _, _, _, _, _, hsl, hfeat, _⟩ := hgen
      rw [ho] at ho2; cases ho2
      obtain ⟨f, hf, hfn⟩ := flat_slot_feature hsl hv
      rcases hfeat f hf with hflat | ⟨hname, _⟩
      · obtain ⟨_, _, _, _, _, _, _, _, _, _, _, v', hv', hcase⟩ := hflat
        rw [hfn, hv] at hv'; cases hv'
        rcases hcase with ⟨_, h1⟩ | ⟨hne, _⟩ | ⟨hne, _⟩
        · rcases h1 with ⟨vn, e, _⟩ | ⟨e, _⟩
          · exact Or.inr ⟨vn, e⟩
          · exact Or.inl e
        · exact absurd hfn hne
        · exact absurd hfn hne
      · exact absurd hfn hname.2.2.2.2.2
    · obtain ⟨o2, t, f, ev, ho2, _, _, _, _, _, _, _, hsl, _⟩ := harr
      rw [ho] at ho2; cases ho2
      rw [hsl] at hv
      simp [alistGet?] at hv
  · intro q hq o ho hann
    rcases hL.coll q hq with hgen | harr
    · obtain ⟨o2, t, ho2, _, _, _, _, _, _, _, _, _, _, _, _, _, hA⟩ := hgen
      rw [ho] at ho2; cases ho2
      exact hA hann
    · obtain ⟨o2, t, f, ev, ho2, _, _, _, _, _, _, _, _, hna, _⟩ := harr
      rw [ho] at ho2; cases ho2
      rw [hna] at hann; cases hann

/-! ### from the relation after the second pass to the expectation functions -/

/-- the address of the collection inlined in slot `n` of the structure with id `x`, read off the heap -/
def iaOf (hp2 : Heap) (na : Int → Nat) (x : Int) (n : String) : Nat :=
  match slot hp2 (na x) n with
  | some (.ref a) => a
  | _ => 0

theorem obj2_to_E2c {K : Consts} {ts : TypeSystem} {cass : List Cas} {c : Cas} {ci : Nat} {H : Heap}
    {L : List (Int × Nat)} {na : Int → Nat} {ci' : Nat} {hp2 : Heap} (hL : LOkC K ts c ci H L)
    (hrel : HeapRelP H L na (Obj2 K ts cass H na ci' hp2) hp2) :
    HeapRel H L na (E2c K ts cass H na (iaOf hp2 na) ci') hp2 ∧ CollsAt K ts H L na (iaOf hp2 na) hp2 := by
  have hia : ∀ q ∈ L, ∀ (o2 : Obj), hp2[na q.1]? = some o2 → ∀ n a, alistGet? o2.slots n = some (.ref a) →
      iaOf hp2 na q.1 n = a := by
    intro q _ o2 ho2 n a hn
    unfold iaOf
    rw [CF.slot_of n ho2, hn]
  constructor
  · intro q hq
    obtain ⟨o, o2, ho, ho2, hty, hx, hkeys, hslots⟩ := hrel q hq
    have hox : o.xid = some q.1 := by
      have := (hL.ids q hq).1
      unfold xidOf at this; rw [ho] at this; exact this
    refine ⟨o, o2, ho, ho2, hty, hx, hkeys, fun n v hv => ?_⟩
    obtain ⟨w, hw, h1, h2, h3⟩ := hslots n v hv
    rw [hw]
    congr 1
    cases v with
    | ref cc =>
      by_cases hi : inlineSlot K ts o n = true
      · obtain ⟨addr, rfl, _⟩ := h1 cc rfl hi
        simp only [E2c, hi, if_true, hox, Option.getD_some]
        rw [hia q hq o2 ho2 n addr hw]
      · have hi' : inlineSlot K ts o n = false := by simpa using hi
        rw [h3 (fun c' e => by cases e; exact hi') rfl]
        simp only [E2c, hi', Bool.false_eq_true, if_false]
    | refs l => exact h2 rfl
    | ints l => exact h2 rfl
    | floats l => exact h2 rfl
    | bools l => exact h2 rfl
    | strs l => exact h2 rfl
    | none => exact h3 (fun c' e => by cases e) rfl
    | int i => exact h3 (fun c' e => by cases e) rfl
    | str s => exact h3 (fun c' e => by cases e) rfl
    | bool b => exact h3 (fun c' e => by cases e) rfl
    | float t => exact h3 (fun c' e => by cases e) rfl
    | sofa a b => exact h3 (fun c' e => by cases e) rfl
    | attr t => exact h3 (fun c' e => by cases e) rfl
  · intro q hq o ho n cc hv hi
    obtain ⟨o', o2, ho', ho2, _, _, _, hslots⟩ := hrel q hq
    rw [ho] at ho'; cases ho'
    obtain ⟨w, hw, h1, _, _⟩ := hslots n _ hv
    obtain ⟨addr, rfl, hat⟩ := h1 cc rfl hi
    rw [hia q hq o2 ho2 n addr hw]
    exact hat

theorem collsAt_frz {K : Consts} {ts : TypeSystem} {H : Heap} {L : List (Int × Nat)} {na : Int → Nat}
    {ia : Int → String → Nat} {hpX hpY : Heap} (h : CollsAt K ts H L na ia hpX) (f : Frz hpX hpY) :
    CollsAt K ts H L na ia hpY :=
  fun q hq o ho n c hv hi => (h q hq o ho n c hv hi).frz f

/-- the flat fragment is part of the fragment with collections -/
theorem collFs_of_flatFs_aux (K : Consts) (ts : TypeSystem) (c : Cas) (ci : Nat) (hp : Heap) (a : Nat)
    (h : FlatFs K ts c ci hp a) : CollFs K ts c ci hp a := by
  obtain ⟨o, t, h1, h2, h3, h4, h5, h6, h7, h8, h9, h10, h11, h12, h13, h14, h15⟩ := h
  exact .inl ⟨o, t, h1, h2, h3, h4, h5, h6, h7, h8, h9, h10, h11, h12, h13, fun f hf => .inl (h14 f hf), h15⟩

end Cassis.Xmi
