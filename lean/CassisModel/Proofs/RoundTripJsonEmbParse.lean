/-
Layer 2 of `loadJson_congr`: one feature structure (`parseFs`), one sofa (`parseSofa`) and the two passes over the
document, on reader states that are similar (`RSim`: everything equal but the heaps, which are equal up to slot order).
-/
import CassisModel.Proofs.RoundTripJsonEmbSim
import CassisModel.Proofs.TypeSystem
import CassisModel.Proofs.GetTypeExact

namespace Cassis.Json
open Cassis.TS

/-- the type of the object at an address -/
def tyAt (hp : Heap) (a : Nat) : Option String := (hp[a]?).map (·.ty)

/-- a type name both type systems know (`Cas.add` asks `contains_type`) -/
def Good (ts ts' : TypeSystem) (n : String) : Prop := containsType ts n = true ∧ containsType ts' n = true

/-- similar reader states; every registered structure has a type both type systems know -/
structure RSim (ts ts' : TypeSystem) (s s' : RState) : Prop where
  cas : s'.cas = s.cas
  heap : HeapSim s.heap s'.heap
  fss : s'.fss = s.fss
  deferred : s'.deferred = s.deferred
  maxId : s'.maxId = s.maxId
  maxNum : s'.maxNum = s.maxNum
  good : ∀ p ∈ s.fss, ∀ a, p.2 = .ref a → ∃ n, tyAt s.heap a = some n ∧ Good ts ts' n

theorem tyAt_setSlot {hp hp1 : Heap} {a : Nat} {n : String} {v : Val} (h : Heap.setSlot hp a n v = .ok hp1) (b : Nat) :
    tyAt hp1 b = tyAt hp b := setSlot_ty h b

theorem mem_setFs {fss : List (Int × Val)} {i : Int} {v : Val} {p : Int × Val} (h : p ∈ setFs fss i v) :
    p ∈ fss ∨ p = (i, v) := by
  induction fss with
  | nil =>
    simp only [setFs, List.mem_cons, List.not_mem_nil, or_false] at h
    exact Or.inr h
  | cons q rest ih =>
    obtain ⟨k, w⟩ := q
    unfold setFs at h
    split at h
    · rcases List.mem_cons.mp h with h | h
      · exact Or.inr h
      · exact Or.inl (List.mem_cons_of_mem _ h)
    · rcases List.mem_cons.mp h with h | h
      · exact Or.inl (by rw [h]; exact List.mem_cons_self)
      · rcases ih h with h | h
        · exact Or.inl (List.mem_cons_of_mem _ h)
        · exact Or.inr h

/-! ### references -/

theorem resolveRefs_sim (rn : String → String) (fss : List (Int × Val)) (addr : Nat) :
    ∀ (l : List (String × JV)) (hp hp' : Heap) (d : List Deferred), HeapSim hp hp' →
      ESim (fun r r' => HeapSim r.1 r'.1 ∧ r'.2 = r.2)
        (resolveRefs rn fss addr l (hp, d)) (resolveRefs rn fss addr l (hp', d)) := by
  intro l
  induction l with
  | nil => intro hp hp' d h; exact ESim.ok ⟨h, rfl⟩
  | cons p rest ih =>
    intro hp hp' d h
    unfold resolveRefs
    dsimp only
    split
    · rename_i tv _
      rcases (setSlot_sim h addr (rn (String.ofList (p.1.toList.drop 1))) tv).elim with
        ⟨e, h1, h2⟩ | ⟨x, y, h1, h2, hr⟩
      · rw [h1, h2]; exact ESim.err _
      · rw [h1, h2]; exact ih x y d hr
    · exact ih hp hp' _ h

theorem resolveRefs_ty (rn : String → String) (fss : List (Int × Val)) (addr : Nat) :
    ∀ (l : List (String × JV)) (hp : Heap) (d : List Deferred) (r : Heap × List Deferred),
      resolveRefs rn fss addr l (hp, d) = .ok r → ∀ b, tyAt r.1 b = tyAt hp b := by
  intro l
  induction l with
  | nil => intro hp d r h b; cases h; rfl
  | cons p rest ih =>
    intro hp d r h b
    unfold resolveRefs at h
    dsimp only at h
    split at h
    · rename_i tv _
      cases hs : Heap.setSlot hp addr (rn (String.ofList (p.1.toList.drop 1))) tv with
      | error e => rw [hs] at h; cases h
      | ok hp1 =>
        rw [hs] at h
        rw [ih hp1 d r h b, tyAt_setSlot hs]
    · exact ih hp _ r h b

/-! ### offsets -/

theorem convertOffsets_eq (conv : Offsets.Conv) : ∃ cv : Val → Val, ∀ (hp : Heap) (a : Nat),
    Xmi.convertOffsets conv hp a =
      match Traverse.slot hp a "begin" with
      | some v =>
        (match Heap.setSlot hp a "begin" (cv v) with
        | .error e => .error e
        | .ok hp1 =>
          match Traverse.slot hp1 a "end" with
          | some w => Heap.setSlot hp1 a "end" (cv w)
          | none => .error .attributeError)
      | none => .error .attributeError := by
  refine ⟨?cv, ?_⟩
  case cv => exact fun v => match v with
    | .int i => Val.int (if i < 0 then i else (Offsets.externalToPython conv i.toNat : Nat))
    | other => other
  intro hp a
  unfold Xmi.convertOffsets
  simp only [bind, Except.bind, Xmi.slot]
  cases hb : Traverse.slot hp a "begin" with
  | none => rfl
  | some v =>
    dsimp only
    cases hs : Heap.setSlot hp a "begin" _ with
    | error e => rfl
    | ok hp1 =>
      dsimp only
      cases he : Traverse.slot hp1 a "end" with
      | none => rfl
      | some w => rfl

theorem convertOffsets_sim (conv : Offsets.Conv) {hp hp' : Heap} (h : HeapSim hp hp') (a : Nat) :
    ESim HeapSim (Xmi.convertOffsets conv hp a) (Xmi.convertOffsets conv hp' a) := by
  obtain ⟨cv, hcv⟩ := convertOffsets_eq conv
  rw [hcv, hcv, h.slot a "begin"]
  cases hb : Traverse.slot hp a "begin" with
  | none => exact ESim.err _
  | some v =>
    dsimp only
    rcases (setSlot_sim h a "begin" (cv v)).elim with ⟨e, h1, h2⟩ | ⟨x, y, h1, h2, hr⟩
    · rw [h1, h2]; exact ESim.err _
    · rw [h1, h2]
      dsimp only
      rw [hr.slot a "end"]
      cases he : Traverse.slot x a "end" with
      | none => exact ESim.err _
      | some w => exact setSlot_sim hr a "end" _

theorem convertOffsets_ty {conv : Offsets.Conv} {hp hp1 : Heap} {a : Nat} (h : Xmi.convertOffsets conv hp a = .ok hp1)
    (b : Nat) : tyAt hp1 b = tyAt hp b := by
  obtain ⟨cv, hcv⟩ := convertOffsets_eq conv
  rw [hcv] at h
  cases hb : Traverse.slot hp a "begin" with
  | none => rw [hb] at h; cases h
  | some v =>
    rw [hb] at h
    dsimp only at h
    cases hs : Heap.setSlot hp a "begin" (cv v) with
    | error e => rw [hs] at h; cases h
    | ok x =>
      rw [hs] at h
      dsimp only at h
      cases he : Traverse.slot x a "end" with
      | none => rw [he] at h; cases h
      | some w =>
        rw [he] at h
        rw [tyAt_setSlot h, tyAt_setSlot hs]

/-! ### one feature structure -/

/-- `parseFs` after the type lookup: the type record and the answer to "is it an annotation type" are parameters -/
def parseFsWith (K : Consts) (t : TypeRec) (isAnn : Bool) (tsIdx : Nat) (s : RState) (j : JFs) : Except Err RState :=
    match j.id with
    | none => .error .typeError             -- `max(None, int)`
    | some fsId =>
      let addr := s.heap.length
      let plain := j.feats.filter (fun p => !(p.1.startsWith "@") && !(p.1.startsWith "#") && !(p.1.startsWith "%"))
      let refsF := j.feats.filter (fun p => p.1.startsWith "@")
      let numsF := j.feats.filter (fun p => p.1.startsWith "#")
      match parseNums numsF with
      | .error e => .error e
      | .ok nums =>
        let kwargs0 : List (String × Val) := (plain.map (fun p => (renameReserved p.1, valOfJV p.2))) ++ nums
        let r : Except Err (List (String × Val) × List Deferred) :=
          if isPrimitiveArray K t.name then
            match parsePrimArray t.name j.elements with
            | .error e => .error e
            | .ok ev => .ok (kwargs0 ++ [("elements", ev)], s.deferred)
          else if t.name == FS_ARRAY then
            let ids := match j.elements with
              | some (.refs l) => l
              | some (.ints l) => l.map some
              | _ => []
            .ok (kwargs0, s.deferred ++ [{ addr := addr, slot := "elements", target := none, elems := some ids }])
          else .ok (kwargs0, s.deferred)
        match r with
        | .error e => .error e
        | .ok (kwargs, deferred0) =>
          match construct t tsIdx (some fsId) kwargs with
          | .error e => .error e
          | .ok o =>
            match resolveRefs renameReserved s.fss addr refsF (s.heap ++ [o], deferred0) with
            | .error e => .error e
            | .ok (heap1, deferred) =>
              let r2 : Except Err Heap :=
                if isAnn then
                  match Xmi.slot heap1 addr "sofa" with
                  | some (.sofa _ vn) =>
                    match Cas.getViewRec s.cas vn with
                    | some view => Xmi.convertOffsets view.sofa.conv heap1 addr
                    | none => .error .attributeError
                  | _ => .error .attributeError
                else .ok heap1
              match r2 with
              | .error e => .error e
              | .ok heap =>
                .ok { s with heap := heap, fss := setFs s.fss fsId (.ref addr), deferred := deferred, maxId := max s.maxId fsId }

theorem parseFs_eq (K : Consts) (ts : TypeSystem) (tsIdx : Nat) (s : RState) (j : JFs) :
    parseFs K ts tsIdx s j =
      match getTypeExact ts (fsTypeName j) with
      | .error e => .error e
      | .ok t => parseFsWith K t (isInstanceOf ts t.name ANNOTATION) tsIdx s j := by
  unfold parseFs parseFsWith fsTypeName
  rfl
theorem parseFsWith_sim (K : Consts) {ts ts' : TypeSystem} {t t' : TypeRec} (hn : t'.name = t.name)
    (hf : ∀ x, x ∈ ctorFields t' ↔ x ∈ ctorFields t) (hg : Good ts ts' t.name) (isAnn : Bool) (tsIdx : Nat)
    {s s' : RState} (hs : RSim ts ts' s s') (j : JFs) :
    ESim (RSim ts ts') (parseFsWith K t isAnn tsIdx s j) (parseFsWith K t' isAnn tsIdx s' j) := by
  obtain ⟨c, h, f, d, m, n⟩ := s
  obtain ⟨c', h', f', d', m', n'⟩ := s'
  obtain ⟨e1, hh, e3, e4, e5, e6, hgood⟩ := hs
  dsimp only at e1 hh e3 e4 e5 e6 hgood
  subst e1 e3 e4 e5 e6
  unfold parseFsWith
  dsimp only
  rw [hn, hh.1]
  cases j.id with
  | none => exact ESim.err _
  | some fsId =>
    dsimp only
    cases parseNums (j.feats.filter (fun p => p.1.startsWith "#")) with
    | error e => exact ESim.err _
    | ok nums =>
      dsimp only
      split
      · exact ESim.err _
      · rename_i kwargs deferred0 hr
        clear hr
        rcases (construct_sim hn hf tsIdx (some fsId) kwargs).elim with ⟨e, h1, h2⟩ | ⟨o, o', h1, h2, ho⟩
        · rw [h1, h2]; exact ESim.err _
        · rw [h1, h2]
          dsimp only
          have hoty : o.ty = t.name := by
            unfold construct at h1
            dsimp only at h1
            split at h1
            · cases h1
            · cases h1; rfl
          rcases (resolveRefs_sim renameReserved f' h.length (j.feats.filter (fun p => p.1.startsWith "@"))
              (h ++ [o]) (h' ++ [o']) deferred0 (hh.push ho)).elim with ⟨e, h3, h4⟩ | ⟨x, y, h3, h4, hx, hd⟩
          · rw [h3, h4]; exact ESim.err _
          · rw [h3, h4]
            obtain ⟨heap1, def1⟩ := x
            obtain ⟨heap1', def1'⟩ := y
            dsimp only at hx hd ⊢
            subst hd
            have hty1 : ∀ b, tyAt heap1 b = tyAt (h ++ [o]) b := resolveRefs_ty _ _ _ _ _ _ _ h3
            -- the final state, given the heap after the offset conversion
            have fin : ∀ (hp2 hp2' : Heap), HeapSim hp2 hp2' → (∀ b, tyAt hp2 b = tyAt heap1 b) →
                RSim ts ts'
                  { cas := c', heap := hp2, fss := setFs f' fsId (Val.ref h.length), deferred := def1',
                    maxId := max m' fsId, maxNum := n' }
                  { cas := c', heap := hp2', fss := setFs f' fsId (Val.ref h.length), deferred := def1',
                    maxId := max m' fsId, maxNum := n' } := by
              intro hp2 hp2' hsim hty2
              refine ⟨rfl, hsim, rfl, rfl, rfl, rfl, ?_⟩
              intro p hp a hpa
              dsimp only at hp ⊢
              rw [hty2, hty1]
              rcases mem_setFs hp with hp | hp
              · obtain ⟨n, hn1, hn2⟩ := hgood p hp a hpa
                refine ⟨n, ?_, hn2⟩
                unfold tyAt at hn1 ⊢
                cases hha : h[a]? with
                | none => rw [hha] at hn1; cases hn1
                | some oa =>
                  have : a < h.length := by
                    rcases Nat.lt_or_ge a h.length with hlt | hge
                    · exact hlt
                    · rw [List.getElem?_eq_none hge] at hha; cases hha
                  rw [List.getElem?_append_left this, hha]
                  rw [hha] at hn1; exact hn1
              · subst hp
                dsimp only at hpa
                cases hpa
                refine ⟨t.name, ?_, hg⟩
                unfold tyAt
                rw [List.getElem?_append_right (Nat.le_refl _), Nat.sub_self]
                simp only [List.getElem?_cons_zero, Option.map_some, hoty]
            cases isAnn with
            | false =>
              simp only [Bool.false_eq_true, if_false]
              exact ESim.ok (fin heap1 heap1' hx (fun _ => rfl))
            | true =>
              simp only [if_true, Xmi.slot]
              rw [hx.slot h.length "sofa"]
              cases hsl : Traverse.slot heap1 h.length "sofa" with
              | none => exact ESim.err _
              | some w =>
                cases w with
                | sofa ci vn =>
                  dsimp only
                  cases hv : Cas.getViewRec c' vn with
                  | none => exact ESim.err _
                  | some view =>
                    dsimp only
                    rcases (convertOffsets_sim view.sofa.conv hx h.length).elim with ⟨e, h5, h6⟩ | ⟨z, z', h5, h6, hz⟩
                    · rw [h5, h6]; exact ESim.err _
                    · rw [h5, h6]
                      exact ESim.ok (fin z z' hz (fun b => convertOffsets_ty h5 b))
                | _ => exact ESim.err _

theorem containsType_of_mem {ts : TypeSystem} {t : TypeRec} (h : t ∈ ts.types) : containsType ts t.name = true := by
  rw [containsType_iff_aux]
  have : (find? ts t.name).isSome = true := by
    unfold find?
    rw [List.find?_isSome]
    exact ⟨t, h, by simp⟩
  obtain ⟨t0, ht0⟩ := Option.isSome_iff_exists.mp this
  exact ⟨t0, by unfold getType; rw [ht0]⟩

/-- type systems that agree on a name under `get_type` agree on it under the exact lookup of the reader: a type found by
    short name only has another name than the one asked for, in both -/
theorem typeAgree_exact {ts ts' : TypeSystem} {n : String} (ha : TypeAgree ts ts' n) :
    match getTypeExact ts n, getTypeExact ts' n with
    | .ok t, .ok t' =>
      t'.name = t.name ∧ (∀ x, x ∈ ctorFields t' ↔ x ∈ ctorFields t) ∧
      isInstanceOf ts' t.name ANNOTATION = isInstanceOf ts t.name ANNOTATION
    | .error e, .error e' => e' = e
    | _, _ => False := by
  unfold TypeAgree at ha
  have key : ∀ (a b : TypeSystem) (t t' : TypeRec), find? a n = some t → find? b n = none → getType b n = .ok t' →
      t'.name = t.name → False := by
    intro a b t t' h1 h2 h3 h4
    have hm := getType_mem h3
    have := List.find?_eq_none.mp h2 t' hm
    rw [h4, find?_name h1] at this
    simp at this
  cases hf : find? ts n with
  | none =>
    cases hf' : find? ts' n with
    | none => rw [getTypeExact_of_find_none hf, getTypeExact_of_find_none hf']
    | some t' =>
      rw [getType_ok_of_find hf'] at ha
      cases hg : getType ts n with
      | error e => rw [hg] at ha; exact ha.elim
      | ok t =>
        rw [hg] at ha
        exact (key ts' ts t' t hf' hf hg ha.1.symm).elim
  | some t =>
    cases hf' : find? ts' n with
    | none =>
      rw [getType_ok_of_find hf] at ha
      cases hg : getType ts' n with
      | error e => rw [hg] at ha; exact ha.elim
      | ok t' =>
        rw [hg] at ha
        exact (key ts ts' t t' hf hf' hg ha.1).elim
    | some t' =>
      rw [getType_ok_of_find hf, getType_ok_of_find hf'] at ha
      rw [getTypeExact_of_find hf, getTypeExact_of_find hf']
      exact ha

theorem parseFs_sim (K : Consts) {ts ts' : TypeSystem} (tsIdx : Nat) {s s' : RState} (hs : RSim ts ts' s s') (j : JFs)
    (ha : TypeAgree ts ts' (fsTypeName j)) :
    ESim (RSim ts ts') (parseFs K ts tsIdx s j) (parseFs K ts' tsIdx s' j) := by
  rw [parseFs_eq, parseFs_eq]
  have ha := typeAgree_exact ha
  cases h1 : getTypeExact ts (fsTypeName j) with
  | error e =>
    cases h2 : getTypeExact ts' (fsTypeName j) with
    | error e' => rw [h1, h2] at ha; dsimp only at ha; subst ha; exact ESim.err _
    | ok t' => rw [h1, h2] at ha; exact ha.elim
  | ok t =>
    cases h2 : getTypeExact ts' (fsTypeName j) with
    | error e' => rw [h1, h2] at ha; exact ha.elim
    | ok t' =>
      rw [h1, h2] at ha
      obtain ⟨hn, hf, hi⟩ := ha
      dsimp only
      rw [hn, hi]
      have hg : Good ts ts' t.name :=
        ⟨containsType_of_mem (getTypeExact_mem h1), by rw [← hn]; exact containsType_of_mem (getTypeExact_mem h2)⟩
      exact parseFsWith_sim K hn hf hg _ tsIdx hs j

end Cassis.Json
