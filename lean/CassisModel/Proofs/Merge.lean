/-
Helper lemmas for `Properties/C13.lean`: the merge loop of `Model/Merge.lean`.
-/
import CassisModel.Model.Merge
import CassisModel.Proofs.TypeSystem

namespace Cassis.TS

/-! ### Unfolding `processDecl` -/

theorem getType_of_find {ts : TypeSystem} {n : String} {t : TypeRec} (h : find? ts n = some t) :
    getType ts n = .ok t := by
  unfold getType; rw [h]

theorem processDecl_new_aux (K : Consts) (s s' : MState) (d : Decl) (hn : hasExact s.ts d.name = false)
    (h : processDecl K s d = .ok s') :
    ∃ ts1, createType K s.ts d.name d.super d.descr = .ok ts1 ∧ addOwnFeatures ts1 d.name d.own = .ok s'.ts := by
  simp only [processDecl, hn, bind, Except.bind, pure, Except.pure, Bool.not_false, if_true] at h
  cases hc : createType K s.ts d.name d.super d.descr with
  | error e => rw [hc] at h; cases h
  | ok ts1 =>
    rw [hc] at h
    simp only at h
    cases ha : addOwnFeatures ts1 d.name d.own with
    | error e => rw [ha] at h; cases h
    | ok ts2 =>
      rw [ha] at h
      simp only at h
      cases h
      exact ⟨ts1, rfl, ha⟩

theorem processDecl_same_super_aux (K : Consts) (s s' : MState) (d : Decl) (ex : TypeRec)
    (he : find? s.ts d.name = some ex) (hs : ex.super = some d.super) (h : processDecl K s d = .ok s') :
    addOwnFeatures s.ts d.name d.own = .ok s'.ts := by
  have hx : hasExact s.ts d.name = true := (hasExact_iff_find _ _).mpr ⟨ex, he⟩
  simp only [processDecl, hx, he, hs, bind, Except.bind, pure, Except.pure, Bool.not_true,
    Option.getD_some, bne_self_eq_false, Bool.false_eq_true, if_false] at h
  cases ha : addOwnFeatures s.ts d.name d.own with
  | error e => rw [ha] at h; cases h
  | ok ts2 =>
    rw [ha] at h
    simp only at h
    cases h
    rfl

theorem processDecl_incomparable_error_aux (K : Consts) (s : MState) (d : Decl) (ex : TypeRec) (exSup : String)
    (he : find? s.ts d.name = some ex) (hs : ex.super = some exSup) (hne : d.super ≠ exSup)
    (h1 : subsumes s.ts exSup d.super = false) (h2 : subsumes s.ts d.super exSup = false)
    (r1 : hasExact s.ts exSup = true) (r2 : hasExact s.ts d.super = true) :
    processDecl K s d = .error .valueError := by
  have hx : hasExact s.ts d.name = true := (hasExact_iff_find _ _).mpr ⟨ex, he⟩
  obtain ⟨t1, ht1⟩ := (hasExact_iff_find _ _).mp r1
  obtain ⟨t2, ht2⟩ := (hasExact_iff_find _ _).mp r2
  have hb : (d.super != exSup) = true := by simpa using hne
  simp only [processDecl, hx, he, hs, hb, getType_of_find ht1, getType_of_find ht2, h1, h2,
    bind, Except.bind, pure, Except.pure, throw, throwThe, MonadExceptOf.throw, Bool.not_true,
    Option.getD_some, Bool.false_eq_true, if_false, if_true]

theorem processDecl_ok (K : Consts) (s s' : MState) (d : Decl) (h : processDecl K s d = .ok s') :
    s'.merged = (if s.merged.contains d.name then s.merged else s.merged ++ [d.name]) ∧
    ((hasExact s.ts d.name = false ∧ ∃ ts1, createType K s.ts d.name d.super d.descr = .ok ts1 ∧
        addOwnFeatures ts1 d.name d.own = .ok s'.ts) ∨
     (∃ ex, find? s.ts d.name = some ex ∧
        (addOwnFeatures s.ts d.name d.own = .ok s'.ts ∨
         (d.super ≠ ex.super.getD "" ∧ ∃ ts1, reparent s.ts d.name (ex.super.getD "") d.super = .ok ts1 ∧
            addOwnFeatures ts1 d.name d.own = .ok s'.ts)))) := by
  cases hx : hasExact s.ts d.name with
  | false =>
    obtain ⟨ts1, h1, h2⟩ := processDecl_new_aux K s s' d hx h
    refine ⟨?_, Or.inl ⟨rfl, ts1, h1, h2⟩⟩
    simp only [processDecl, hx, bind, Except.bind, pure, Except.pure, Bool.not_false, if_true, h1, h2] at h
    rw [← Except.ok.inj h]
  | true =>
    obtain ⟨ex, he⟩ := (hasExact_iff_find _ _).mp hx
    simp only [processDecl, hx, he, bind, Except.bind, pure, Except.pure, Bool.not_true,
      Bool.false_eq_true, if_false, throw, throwThe, MonadExceptOf.throw] at h
    by_cases hne : (d.super != ex.super.getD "") = true
    · simp only [hne, if_true] at h
      split at h
      · split at h
        · cases hr : reparent s.ts d.name (ex.super.getD "") d.super with
          | error e => rw [hr] at h; cases h
          | ok ts1 =>
            rw [hr] at h; simp only at h
            cases ha : addOwnFeatures ts1 d.name d.own with
            | error e => rw [ha] at h; cases h
            | ok ts2 =>
              rw [ha] at h; simp only at h
              rw [← Except.ok.inj h]
              exact ⟨rfl, Or.inr ⟨ex, he, Or.inr ⟨by simpa using hne, ts1, hr, ha⟩⟩⟩
        · split at h
          · cases ha : addOwnFeatures s.ts d.name d.own with
            | error e => rw [ha] at h; cases h
            | ok ts2 =>
              rw [ha] at h; simp only at h
              rw [← Except.ok.inj h]
              exact ⟨rfl, Or.inr ⟨ex, he, Or.inl rfl⟩⟩
          · cases h
      · cases h
    · simp only [hne] at h
      cases ha : addOwnFeatures s.ts d.name d.own with
      | error e => rw [ha] at h; cases h
      | ok ts2 =>
        rw [ha] at h; simp only at h
        rw [← Except.ok.inj h]
        exact ⟨rfl, Or.inr ⟨ex, he, Or.inl rfl⟩⟩

theorem reparent_ok (ts ts' : TypeSystem) (name oldSup newSup : String)
    (h : reparent ts name oldSup newSup = .ok ts') :
    subsumes ts name newSup = false ∧ ∃ ns, find? ts newSup = some ns ∧
      inheritFrom (relink ts name oldSup newSup) name (allFeatures ns) = .ok ts' := by
  unfold reparent at h
  split at h
  · cases h
  · rename_i hs
    split at h
    · cases h
    · rename_i ns hns
      exact ⟨by simpa using hs, ns, hns, h⟩

/-! ### Registered names only grow -/

/-- the list of registered names -/
def names (ts : TypeSystem) : List String := ts.types.map (·.name)

theorem hasExact_iff_names (ts : TypeSystem) (x : String) : hasExact ts x = true ↔ x ∈ names ts :=
  hasExact_iff_mem ts x

theorem names_setRec (ts : TypeSystem) (r : TypeRec) : names (setRec ts r) = names ts := by
  unfold names setRec
  simp only [List.map_map]
  apply List.map_congr_left
  intro x _
  simp only [Function.comp]
  split
  · rename_i h; exact (by simpa using h : x.name = r.name).symm
  · rfl

theorem names_pushInherited (f : Feature) (fuel : Nat) (ts : TypeSystem) (cs : List String) :
    ∀ ts', pushInherited f fuel ts cs = .ok ts' → names ts' = names ts := by
  fun_induction pushInherited f fuel ts cs with
  | case1 => intro ts' h; cases h
  | case2 => intro ts' h; cases h; rfl
  | case3 _ _ _ _ _ ih => exact ih
  | case4 => intro ts' h; cases h
  | case5 _ _ _ _ _ _ _ ih => exact ih
  | case6 fuel ts c cs t hf hchk ts1 ih2 ih1 =>
    intro ts' h
    have h1 : names ts1 = names ts := names_setRec ts _
    cases h2 : pushInherited f fuel ts1 t.children with
    | error e => rw [h2] at h; cases h
    | ok ts2 =>
      rw [h2] at h
      exact (ih1 ts2 ts' h).trans ((ih2 ts2 h2).trans h1)

theorem names_addFeature (ts ts' : TypeSystem) (dom : String) (f : Feature)
    (h : addFeature ts dom f = .ok ts') : names ts' = names ts := by
  unfold addFeature at h
  split at h
  · cases h
  · split at h
    · cases h
    · cases h; rfl
    · split at h
      · cases h
      · exact (names_pushInherited f _ _ _ ts' h).trans (names_setRec ts _)

theorem names_addOwnFeatures (name : String) : ∀ (fs : List Feature) (ts ts' : TypeSystem),
    addOwnFeatures ts name fs = .ok ts' → names ts' = names ts := by
  intro fs
  induction fs with
  | nil => intro ts ts' h; simp only [addOwnFeatures] at h; cases h; rfl
  | cons f fs ih =>
    intro ts ts' h
    simp only [addOwnFeatures] at h
    split at h
    · cases h
    · rename_i ts1 h1
      exact (ih ts1 ts' h).trans (names_addFeature ts ts1 _ _ h1)

theorem names_inheritFrom (name : String) : ∀ (fs : List Feature) (ts ts' : TypeSystem),
    inheritFrom ts name fs = .ok ts' → names ts' = names ts := by
  intro fs
  induction fs with
  | nil => intro ts ts' h; simp only [inheritFrom] at h; cases h; rfl
  | cons f fs ih =>
    intro ts ts' h
    simp only [inheritFrom] at h
    split at h
    · cases h
    · split at h
      · cases h
      · rename_i ts1 h1
        exact (ih ts1 ts' h).trans (names_pushInherited f _ _ _ ts1 h1)

/-- the record rewrite of `relink` -/
def relinkRec (name oldSup newSup : String) (t : TypeRec) : TypeRec :=
  if t.name == name then { t with super := some newSup }
  else if t.name == oldSup && t.name == newSup then t
  else if t.name == oldSup then { t with children := t.children.filter (· != name) }
  else if t.name == newSup then { t with children := t.children ++ [name] }
  else t

@[simp] theorem relinkRec_name (name oldSup newSup : String) (t : TypeRec) :
    (relinkRec name oldSup newSup t).name = t.name := by
  unfold relinkRec
  split
  · rfl
  · split
    · rfl
    · split
      · rfl
      · split <;> rfl

theorem relink_types (ts : TypeSystem) (name oldSup newSup : String) :
    (relink ts name oldSup newSup).types =
      (ts.types.map (relinkRec name oldSup newSup)).filter (fun t => !((descendantsOf ts name).contains t.name)) ++
      (ts.types.map (relinkRec name oldSup newSup)).filter (fun t => (descendantsOf ts name).contains t.name) := rfl

theorem relink_perm (ts : TypeSystem) (name oldSup newSup : String) :
    (relink ts name oldSup newSup).types.Perm (ts.types.map (relinkRec name oldSup newSup)) := by
  rw [relink_types]
  have := List.filter_append_perm (fun t : TypeRec => !((descendantsOf ts name).contains t.name))
    (ts.types.map (relinkRec name oldSup newSup))
  simpa only [Bool.not_not] using this

theorem names_relink_perm (ts : TypeSystem) (name oldSup newSup : String) :
    (names (relink ts name oldSup newSup)).Perm (names ts) := by
  have := (relink_perm ts name oldSup newSup).map (·.name)
  unfold names
  refine this.trans ?_
  rw [List.map_map]
  have : ((fun x : TypeRec => x.name) ∘ relinkRec name oldSup newSup) = (fun x => x.name) := by
    funext x; simp
  rw [this]

/-- every name registered in `ts` is registered in `ts'` -/
def RegLe (ts ts' : TypeSystem) : Prop := ∀ x, hasExact ts x = true → hasExact ts' x = true

theorem RegLe.refl (ts : TypeSystem) : RegLe ts ts := fun _ h => h
theorem RegLe.trans {a b c : TypeSystem} (h1 : RegLe a b) (h2 : RegLe b c) : RegLe a c :=
  fun x h => h2 x (h1 x h)

theorem RegLe.of_names {ts ts' : TypeSystem} (h : names ts' = names ts) : RegLe ts ts' := by
  intro x hx
  rw [hasExact_iff_names] at hx ⊢
  rw [h]; exact hx

theorem RegLe.of_perm {ts ts' : TypeSystem} (h : (names ts').Perm (names ts)) : RegLe ts ts' := by
  intro x hx
  rw [hasExact_iff_names] at hx ⊢
  exact h.mem_iff.mpr hx

theorem createType_reg (K : Consts) (ts ts' : TypeSystem) (n s : String) (d : Option String)
    (h : createType K ts n s d = .ok ts') : RegLe ts ts' ∧ hasExact ts' n = true := by
  obtain ⟨sup, new1, _, hinh, rfl⟩ := createType_ok K ts ts' n s d h
  have hn1 : new1.name = n := by
    have := inheritAll_tr _ _ _ hinh
    rw [tr_eq_iff] at this
    exact this.1
  generalize (if sup.children.contains n then sup else { sup with children := sup.children ++ [n] }) = sup'
  have hs : names (setRec ts sup') = names ts := names_setRec ts sup'
  unfold putRec
  split
  · rename_i hx
    have : names (setRec (setRec ts sup') new1) = names ts := (names_setRec _ _).trans hs
    refine ⟨RegLe.of_names this, ?_⟩
    rw [hn1] at hx
    exact RegLe.of_names (names_setRec _ new1) n hx
  · have : names { setRec ts sup' with types := (setRec ts sup').types ++ [new1] } = names ts ++ [n] := by
      rw [← hs, ← hn1]; simp [names]
    constructor
    · intro x hx
      rw [hasExact_iff_names] at hx ⊢
      rw [this]; exact List.mem_append_left _ hx
    · rw [hasExact_iff_names, this]; simp

theorem reparent_reg (ts ts' : TypeSystem) (name oldSup newSup : String)
    (h : reparent ts name oldSup newSup = .ok ts') : RegLe ts ts' := by
  obtain ⟨_, ns, _, hi⟩ := reparent_ok ts ts' name oldSup newSup h
  exact (RegLe.of_perm (names_relink_perm ts name oldSup newSup)).trans
    (RegLe.of_names (names_inheritFrom name _ _ ts' hi))

theorem processDecl_reg (K : Consts) (s s' : MState) (d : Decl) (h : processDecl K s d = .ok s') :
    RegLe s.ts s'.ts ∧ hasExact s'.ts d.name = true := by
  obtain ⟨_, h1 | ⟨ex, he, h2 | ⟨_, ts1, hr, ha⟩⟩⟩ := processDecl_ok K s s' d h
  · obtain ⟨_, ts1, hc, ha⟩ := h1
    have := createType_reg K _ _ _ _ _ hc
    have h2 := RegLe.of_names (names_addOwnFeatures _ _ _ _ ha)
    exact ⟨this.1.trans h2, h2 _ this.2⟩
  · have h2 := RegLe.of_names (names_addOwnFeatures _ _ _ _ h2)
    exact ⟨h2, h2 _ ((hasExact_iff_find _ _).mpr ⟨ex, he⟩)⟩
  · have h2 := (reparent_reg _ _ _ _ _ hr).trans (RegLe.of_names (names_addOwnFeatures _ _ _ _ ha))
    exact ⟨h2, h2 _ ((hasExact_iff_find _ _).mpr ⟨ex, he⟩)⟩

theorem mergeRound_reg (K : Consts) : ∀ (ds : List Decl) (s s' : MState) (n n' : Nat),
    mergeRound K ds s n = .ok (s', n') →
      RegLe s.ts s'.ts ∧ n' ≤ n + ds.length ∧
      (n' = n + ds.length → ∀ d ∈ ds, hasExact s'.ts d.name = true) := by
  intro ds
  induction ds with
  | nil =>
    intro s s' n n' h
    simp only [mergeRound] at h
    cases h
    exact ⟨RegLe.refl _, Nat.le_refl _, fun _ d hd => by cases hd⟩
  | cons d ds ih =>
    intro s s' n n' h
    simp only [mergeRound] at h
    split at h
    · split at h
      · cases h
      · rename_i s1 hp
        obtain ⟨r1, r2, r3⟩ := ih s1 s' (n + 1) n' h
        obtain ⟨p1, p2⟩ := processDecl_reg K s s1 d hp
        refine ⟨p1.trans r1, by simp only [List.length_cons]; omega, ?_⟩
        intro hn x hx
        simp only [List.length_cons] at hn
        rcases List.mem_cons.mp hx with rfl | hx
        · exact r1 _ p2
        · exact r3 (by omega) x hx
    · obtain ⟨r1, r2, r3⟩ := ih s s' n n' h
      refine ⟨r1, by simp only [List.length_cons]; omega, ?_⟩
      intro hn
      simp only [List.length_cons] at hn
      omega

theorem mergeLoop_reg (K : Consts) (decls : List Decl) : ∀ (fuel : Nat) (s s' : MState),
    mergeLoop K decls fuel s = .ok s' →
      RegLe s.ts s'.ts ∧ ∀ d ∈ decls, hasExact s'.ts d.name = true := by
  intro fuel
  induction fuel with
  | zero => intro s s' h; simp only [mergeLoop] at h; cases h
  | succ fuel ih =>
    intro s s' h
    simp only [mergeLoop] at h
    split at h
    · cases h
    · rename_i s1 n hr
      obtain ⟨r1, _, r3⟩ := mergeRound_reg K decls s s1 0 n hr
      split at h
      · rename_i hn
        cases h
        exact ⟨r1, r3 (by simpa using hn)⟩
      · obtain ⟨q1, q2⟩ := ih s1 s' h
        exact ⟨r1.trans q1, q2⟩

theorem mergeDecls_ok (K : Consts) (base ts' : TypeSystem) (decls : List Decl)
    (h : mergeDecls K base decls = .ok ts') :
    ∃ s', mergeLoop K decls (decls.length + 1) { ts := base, merged := [] } = .ok s' ∧ s'.ts = ts' := by
  unfold mergeDecls at h
  split at h
  · cases h
  · rename_i s' hs; cases h; exact ⟨s', hs, rfl⟩

theorem merge_contains_all_aux (K : Consts) (base ts' : TypeSystem) (decls : List Decl)
    (h : mergeDecls K base decls = .ok ts') :
    (∀ d ∈ decls, hasExact ts' d.name = true) ∧ (∀ n, hasExact base n = true → hasExact ts' n = true) := by
  obtain ⟨s', hs, rfl⟩ := mergeDecls_ok K base ts' decls h
  obtain ⟨r1, r2⟩ := mergeLoop_reg K decls _ _ s' hs
  exact ⟨r2, r1⟩


theorem skel_inheritFrom (name : String) : ∀ (fs : List Feature) (ts ts' : TypeSystem),
    (ts.types.map (·.name)).Nodup → inheritFrom ts name fs = .ok ts' → skel ts' = skel ts := by
  intro fs
  induction fs with
  | nil => intro ts ts' _ h; simp only [inheritFrom] at h; cases h; rfl
  | cons f fs ih =>
    intro ts ts' hn h
    simp only [inheritFrom] at h
    split at h
    · cases h
    · split at h
      · cases h
      · rename_i ts1 h1
        have e1 := skel_pushInherited f _ _ _ ts1 hn h1
        exact (ih ts1 ts' (nodup_of_skel e1 hn) h).trans e1

theorem skel_addOwnFeatures (name : String) : ∀ (fs : List Feature) (ts ts' : TypeSystem),
    (ts.types.map (·.name)).Nodup → addOwnFeatures ts name fs = .ok ts' → skel ts' = skel ts := by
  intro fs
  induction fs with
  | nil => intro ts ts' _ h; simp only [addOwnFeatures] at h; cases h; rfl
  | cons f fs ih =>
    intro ts ts' hn h
    simp only [addOwnFeatures] at h
    split at h
    · cases h
    · rename_i ts1 h1
      have e1 := skel_addFeature ts ts1 _ _ hn h1
      exact (ih ts1 ts' (nodup_of_skel e1 hn) h).trans e1

theorem nodup_relink (ts : TypeSystem) (name oldSup newSup : String)
    (hn : (ts.types.map (·.name)).Nodup) :
    ((relink ts name oldSup newSup).types.map (·.name)).Nodup :=
  (names_relink_perm ts name oldSup newSup).nodup_iff.mpr hn

theorem relinkRec_super_self (name oldSup newSup : String) (t : TypeRec) (h : t.name = name) :
    (relinkRec name oldSup newSup t).super = some newSup := by
  unfold relinkRec
  simp [h]

theorem reparent_super_aux (ts ts' : TypeSystem) (name oldSup newSup : String) (hc : Consistent ts)
    (hreg : hasExact ts name = true) (h : reparent ts name oldSup newSup = .ok ts') :
    ∃ t, find? ts' name = some t ∧ t.super = some newSup := by
  obtain ⟨_, ns, _, hi⟩ := reparent_ok ts ts' name oldSup newSup h
  have hn1 := nodup_relink ts name oldSup newSup hc.nodup
  have hsk := skel_inheritFrom name _ _ ts' hn1 hi
  have hreg1 : hasExact (relink ts name oldSup newSup) name = true :=
    RegLe.of_perm (names_relink_perm ts name oldSup newSup) name hreg
  obtain ⟨t1, ht1⟩ := (hasExact_iff_find _ _).mp hreg1
  have hsup : t1.super = some newSup := by
    have hm := (relink_perm ts name oldSup newSup).mem_iff.mp (find?_mem ht1)
    obtain ⟨t0, _, rfl⟩ := List.mem_map.mp hm
    have := find?_name ht1
    rw [relinkRec_name] at this
    exact relinkRec_super_self name oldSup newSup t0 this
  obtain ⟨t', ht', he⟩ := find?_transfer hsk.symm ht1
  rw [tr_eq_iff] at he
  exact ⟨t', ht', by rw [he.2.1]; exact hsup⟩


/-! ### `find?` under name-preserving maps and permutations -/

theorem find_map_of_name (ts : TypeSystem) (red : List String) (f : TypeRec → TypeRec)
    (hf : ∀ t, (f t).name = t.name) (x : String) :
    find? { types := ts.types.map f, redeclared := red } x = (find? ts x).map f := by
  unfold find?
  simp only
  induction ts.types with
  | nil => simp
  | cons t l ih =>
    simp only [List.map_cons, List.find?_cons, hf]
    split
    · simp
    · exact ih

theorem find?_perm {ts ts' : TypeSystem} (hp : ts'.types.Perm ts.types)
    (hn : (ts.types.map (·.name)).Nodup) (x : String) : find? ts' x = find? ts x := by
  have hn' : (ts'.types.map (·.name)).Nodup := (hp.map (·.name)).nodup_iff.mpr hn
  cases hf : find? ts x with
  | none =>
    cases hf' : find? ts' x with
    | none => rfl
    | some t' =>
      have := find?_of_mem hn (hp.mem_iff.mp (find?_mem hf'))
      rw [find?_name hf', hf] at this; cases this
  | some t =>
    have := find?_of_mem hn' (hp.mem_iff.mpr (find?_mem hf))
    rw [find?_name hf] at this; exact this

/-! ### "parents first", in a form suited to list surgery -/

def topoFrom : List String → List TypeRec → Prop
  | _, [] => True
  | seen, t :: l => (∀ s, t.super = some s → s ∈ seen) ∧ topoFrom (seen ++ [t.name]) l

theorem topoFrom_iff_idx : ∀ (l : List TypeRec) (seen : List String),
    topoFrom seen l ↔ ∀ i (h : i < l.length) s, (l[i]).super = some s →
      s ∈ seen ∨ ∃ j, j < i ∧ ∃ (hj : j < l.length), (l[j]).name = s := by
  intro l
  induction l with
  | nil => intro seen; simp [topoFrom]
  | cons t l ih =>
    intro seen
    simp only [topoFrom]
    rw [ih]
    constructor
    · rintro ⟨h0, hrest⟩ i hi s hs
      cases i with
      | zero => exact Or.inl (h0 s (by simpa using hs))
      | succ i =>
        have hi' : i < l.length := by simpa using hi
        rcases hrest i hi' s (by simpa using hs) with hm | ⟨j, hj, hjl, hjn⟩
        · rcases List.mem_append.mp hm with hm | hm
          · exact Or.inl hm
          · refine Or.inr ⟨0, by omega, by simp, ?_⟩
            simp at hm; simp [hm]
        · exact Or.inr ⟨j + 1, by omega, by simp; omega, by simpa using hjn⟩
    · intro H
      constructor
      · intro s hs
        rcases H 0 (by simp) s (by simpa using hs) with hm | ⟨j, hj, _⟩
        · exact hm
        · omega
      · intro i hi s hs
        rcases H (i + 1) (by simp; omega) s (by simpa using hs) with hm | ⟨j, hj, hjl, hjn⟩
        · exact Or.inl (List.mem_append_left _ hm)
        · cases j with
          | zero =>
            left
            simp at hjn
            simp [hjn]
          | succ j =>
            exact Or.inr ⟨j, by omega, by simpa using hjl, by simpa using hjn⟩

theorem topoFrom_append : ∀ (A B : List TypeRec) (seen : List String),
    topoFrom seen A → topoFrom (seen ++ A.map (·.name)) B → topoFrom seen (A ++ B) := by
  intro A
  induction A with
  | nil => intro B seen _ h; simpa using h
  | cons a A ih =>
    intro B seen hA hB
    simp only [topoFrom] at hA
    simp only [List.cons_append, topoFrom]
    refine ⟨hA.1, ih B _ hA.2 ?_⟩
    simpa using hB

theorem topoFrom_filter_map (f : TypeRec → TypeRec) (hf : ∀ t, (f t).name = t.name) (q : String → Bool) :
    ∀ (L : List TypeRec) (seen seen' : List String), topoFrom seen L →
      (∀ x ∈ seen, q x = true → x ∈ seen') →
      (∀ t ∈ L, q t.name = true → ∀ s, (f t).super = some s → (t.super = some s ∧ q s = true) ∨ s ∈ seen') →
      topoFrom seen' ((L.filter (fun t => q t.name)).map f) := by
  intro L
  induction L with
  | nil => intro _ _ _ _ _; simp [topoFrom]
  | cons t L ih =>
    intro seen seen' hT hsub H
    simp only [topoFrom] at hT
    obtain ⟨h1, h2⟩ := hT
    by_cases hq : q t.name = true
    · rw [List.filter_cons_of_pos (by simpa using hq)]
      simp only [List.map_cons, topoFrom, hf]
      constructor
      · intro s hs
        rcases H t (List.mem_cons_self) hq s hs with ⟨hts, hqs⟩ | hm
        · exact hsub s (h1 s hts) hqs
        · exact hm
      · apply ih (seen ++ [t.name]) (seen' ++ [t.name]) h2
        · intro x hx hqx
          rcases List.mem_append.mp hx with hx | hx
          · exact List.mem_append_left _ (hsub x hx hqx)
          · exact List.mem_append_right _ hx
        · intro t' ht' hq' s hs
          rcases H t' (List.mem_cons_of_mem _ ht') hq' s hs with h | h
          · exact Or.inl h
          · exact Or.inr (List.mem_append_left _ h)
    · rw [List.filter_cons_of_neg (by simpa using hq)]
      apply ih (seen ++ [t.name]) seen' h2
      · intro x hx hqx
        rcases List.mem_append.mp hx with hx | hx
        · exact hsub x hx hqx
        · simp at hx; subst hx; exact absurd hqx hq
      · intro t' ht' hq' s hs
        exact H t' (List.mem_cons_of_mem _ ht') hq' s hs


theorem relinkRec_super (name oldSup newSup : String) (t : TypeRec) :
    (relinkRec name oldSup newSup t).super = if t.name = name then some newSup else t.super := by
  unfold relinkRec
  by_cases h : t.name = name
  · simp [h]
  · have : (t.name == name) = false := by simpa using h
    simp only [this, Bool.false_eq_true, if_false, h]
    split
    · rfl
    · split
      · rfl
      · split <;> rfl

theorem relinkRec_children (name oldSup newSup : String) (t : TypeRec) (b : String)
    (h1 : name ≠ oldSup) (h2 : name ≠ newSup) (h3 : oldSup ≠ newSup) :
    b ∈ (relinkRec name oldSup newSup t).children ↔
      (b ∈ t.children ∧ ¬(t.name = oldSup ∧ b = name)) ∨ (t.name = newSup ∧ b = name) := by
  unfold relinkRec
  by_cases hn : t.name = name
  · have e1 : t.name ≠ oldSup := by rw [hn]; exact h1
    have e2 : t.name ≠ newSup := by rw [hn]; exact h2
    simp [hn, h1, h2]
  · by_cases ho : t.name = oldSup
    · have e2 : t.name ≠ newSup := by rw [ho]; exact h3
      have : oldSup ≠ name := fun e => h1 e.symm
      simp [ho, this, h3]
    · by_cases hs : t.name = newSup
      · have : newSup ≠ name := fun e => h2 e.symm
        have : newSup ≠ oldSup := fun e => h3 e.symm
        simp [*]
      · simp [hn, ho, hs]

theorem relinkRec_childNodup (name oldSup newSup : String) (t : TypeRec)
    (hnd : t.children.Nodup) (hnew : t.name = newSup → name ∉ t.children) :
    (relinkRec name oldSup newSup t).children.Nodup := by
  unfold relinkRec
  split
  · exact hnd
  · split
    · exact hnd
    · split
      · exact List.Pairwise.filter _ hnd
      · split
        · rename_i h
          have hn := hnew (by simpa using h)
          simp only
          refine List.nodup_append.mpr ⟨hnd, by simp, ?_⟩
          intro a ha b hb e
          simp at hb; subst hb; subst e; exact hn ha
        · exact hnd


theorem consistent_relink (ts : TypeSystem) (name oldSup newSup : String) (ex : TypeRec)
    (hc : Consistent ts) (hex : find? ts name = some ex) (hsup : ex.super = some oldSup)
    (hne : oldSup ≠ newSup) (hreg : hasExact ts newSup = true) (hna : ¬ Anc ts name newSup) :
    Consistent (relink ts name oldSup newSup) := by
  have hregn : hasExact ts name = true := (hasExact_iff_find _ _).mpr ⟨ex, hex⟩
  have hself : Anc ts name name := Anc.refl name hregn
  have h2 : name ≠ newSup := fun e => hna (e ▸ hself)
  have hrego : hasExact ts oldSup = true := hc.superReg ex (find?_mem hex) oldSup hsup
  have h1 : name ≠ oldSup := by
    intro e
    obtain ⟨i, hi, ei⟩ := find?_idx hex
    have : (ts.types[i]).super = some (ts.types[i]).name := by
      rw [ei, find?_name hex, hsup, ← e]
    have := child_idx_lt hc hi hi this
    omega
  -- lookups in the relinked type system
  have hfind : ∀ x, find? (relink ts name oldSup newSup) x = (find? ts x).map (relinkRec name oldSup newSup) := by
    intro x
    have hp : (relink ts name oldSup newSup).types.Perm
        ({ types := ts.types.map (relinkRec name oldSup newSup), redeclared := ts.redeclared } : TypeSystem).types :=
      relink_perm ts name oldSup newSup
    have hn0 : (({ types := ts.types.map (relinkRec name oldSup newSup), redeclared := ts.redeclared } :
        TypeSystem).types.map (·.name)).Nodup := by
      simp only [List.map_map]
      have : ((fun x : TypeRec => x.name) ∘ relinkRec name oldSup newSup) = (fun x => x.name) := by
        funext x; simp
      rw [this]; exact hc.nodup
    rw [find?_perm hp hn0 x]
    exact find_map_of_name ts ts.redeclared _ (relinkRec_name name oldSup newSup) x
  have hmem : ∀ t, t ∈ (relink ts name oldSup newSup).types ↔
      ∃ t0 ∈ ts.types, relinkRec name oldSup newSup t0 = t := by
    intro t
    rw [(relink_perm ts name oldSup newSup).mem_iff, List.mem_map]
  have hhas : ∀ x, hasExact (relink ts name oldSup newSup) x = hasExact ts x := by
    intro x; unfold hasExact; rw [hfind]; simp
  -- `name` is not yet a child of `newSup`
  have hnotchild : ∀ t, find? ts newSup = some t → name ∉ t.children := by
    intro t ht hm
    obtain ⟨tb, htb, hs⟩ := (hc.link newSup name).mp ⟨t, ht, hm⟩
    rw [hex] at htb; cases htb
    rw [hsup] at hs; cases hs; exact hne rfl
  have hsubmem : ∀ x, (descendantsOf ts name).contains x = true ↔ Anc ts name x := by
    intro x
    rw [List.contains_iff_mem]
    exact descendants_eq_closure_aux ts hc name x hregn
  refine ⟨nodup_relink ts name oldSup newSup hc.nodup, ?_, ?_, ?_, ?_, ?_, ?_⟩
  · -- TOP stays the root
    obtain ⟨t, ht, hts⟩ := hc.topRoot
    refine ⟨relinkRec name oldSup newSup t, by rw [hfind, ht]; rfl, ?_⟩
    rw [relinkRec_super]
    have : t.name ≠ name := by
      intro e
      rw [find?_name ht] at e
      rw [← e, ht] at hex; cases hex
      rw [hts] at hsup; cases hsup
    simp only [this, if_false]; exact hts
  · -- no other root
    intro t ht hs
    obtain ⟨t0, ht0, rfl⟩ := (hmem t).mp ht
    rw [relinkRec_super] at hs
    rw [relinkRec_name]
    split at hs
    · cases hs
    · exact hc.onlyRoot t0 ht0 hs
  · -- supertypes are registered
    intro t ht s hs
    obtain ⟨t0, ht0, rfl⟩ := (hmem t).mp ht
    rw [relinkRec_super] at hs
    rw [hhas]
    split at hs
    · cases hs; exact hreg
    · exact hc.superReg t0 ht0 s hs
  · -- child link
    intro a b
    rw [hfind a, hfind b]
    constructor
    · rintro ⟨ta, hta, hb⟩
      cases hfa : find? ts a with
      | none => rw [hfa] at hta; cases hta
      | some ta0 =>
        rw [hfa] at hta
        simp only [Option.map_some, Option.some.injEq] at hta
        subst hta
        have han : ta0.name = a := find?_name hfa
        rw [relinkRec_children name oldSup newSup ta0 b h1 h2 hne] at hb
        rcases hb with ⟨hb, hnot⟩ | ⟨hs, hbn⟩
        · obtain ⟨tb, htb, hsb⟩ := (hc.link a b).mp ⟨ta0, hfa, hb⟩
          refine ⟨relinkRec name oldSup newSup tb, by rw [htb]; rfl, ?_⟩
          rw [relinkRec_super]
          have : tb.name ≠ name := by
            intro e
            rw [find?_name htb] at e
            subst e
            rw [hex] at htb; cases htb
            rw [hsup] at hsb; cases hsb
            exact hnot ⟨han, rfl⟩
          simp only [this, if_false]; exact hsb
        · subst hbn
          refine ⟨relinkRec b oldSup newSup ex, by rw [hex]; rfl, ?_⟩
          rw [relinkRec_super, find?_name hex]
          simp only [if_true]
          rw [← hs, han]
    · rintro ⟨tb, htb, hsb⟩
      cases hfb : find? ts b with
      | none => rw [hfb] at htb; cases htb
      | some tb0 =>
        rw [hfb] at htb
        simp only [Option.map_some, Option.some.injEq] at htb
        subst htb
        have hbn : tb0.name = b := find?_name hfb
        rw [relinkRec_super] at hsb
        split at hsb
        · rename_i hbname
          cases hsb
          obtain ⟨tn, htn⟩ := (hasExact_iff_find _ _).mp hreg
          refine ⟨relinkRec name oldSup newSup tn, by rw [htn]; rfl, ?_⟩
          rw [relinkRec_children name oldSup newSup tn b h1 h2 hne]
          right
          exact ⟨find?_name htn, by rw [← hbn, hbname]⟩
        · rename_i hbname
          obtain ⟨ta, hta, hm⟩ := (hc.link a b).mpr ⟨tb0, hfb, hsb⟩
          refine ⟨relinkRec name oldSup newSup ta, by rw [hta]; rfl, ?_⟩
          rw [relinkRec_children name oldSup newSup ta b h1 h2 hne]
          left
          refine ⟨hm, ?_⟩
          rintro ⟨_, e⟩
          exact hbname (by rw [hbn, e])
  · -- children lists stay duplicate free
    intro t ht
    obtain ⟨t0, ht0, rfl⟩ := (hmem t).mp ht
    apply relinkRec_childNodup _ _ _ _ (hc.childNodup t0 ht0)
    intro e
    apply hnotchild t0
    rw [← e]; exact find?_of_mem hc.nodup ht0
  · -- parents precede children
    have hT : topoFrom [] ts.types := by
      rw [topoFrom_iff_idx]
      intro i hi s hs
      exact Or.inr (hc.topo i hi s hs)
    have key : topoFrom [] (relink ts name oldSup newSup).types := by
      rw [relink_types, List.filter_map, List.filter_map]
      have e1 : ((fun t : TypeRec => !(descendantsOf ts name).contains t.name) ∘ relinkRec name oldSup newSup) =
          (fun t => (fun x => !(descendantsOf ts name).contains x) t.name) := by
        funext t; simp
      have e2 : ((fun t : TypeRec => (descendantsOf ts name).contains t.name) ∘ relinkRec name oldSup newSup) =
          (fun t => (fun x => (descendantsOf ts name).contains x) t.name) := by
        funext t; simp
      rw [e1, e2]
      apply topoFrom_append
      · refine topoFrom_filter_map _ (relinkRec_name name oldSup newSup)
          (fun x => !(descendantsOf ts name).contains x) ts.types [] [] hT ?_ ?_
        · intro x hx; cases hx
        · intro t ht hq s hs
          left
          have hq' : ¬ Anc ts name t.name := by
            intro h
            have := (hsubmem t.name).mpr h
            simp only [this, Bool.not_true] at hq
            cases hq
          have hnn : t.name ≠ name := fun e => hq' (e ▸ hself)
          rw [relinkRec_super] at hs
          simp only [hnn, if_false] at hs
          refine ⟨hs, ?_⟩
          cases hd : (descendantsOf ts name).contains s with
          | false => rfl
          | true =>
            exfalso
            apply hq'
            exact Anc.step name t.name s t (find?_of_mem hc.nodup ht) hs ((hsubmem s).mp hd)
      · refine topoFrom_filter_map _ (relinkRec_name name oldSup newSup)
          (fun x => (descendantsOf ts name).contains x) ts.types [] _ hT ?_ ?_
        · intro x hx; cases hx
        · intro t ht hq s hs
          have hq' : Anc ts name t.name := (hsubmem t.name).mp hq
          rw [relinkRec_super] at hs
          split at hs
          · cases hs
            right
            simp only [List.nil_append, List.map_map]
            obtain ⟨tn, htn⟩ := (hasExact_iff_find _ _).mp hreg
            refine List.mem_map.mpr ⟨tn, List.mem_filter.mpr ⟨find?_mem htn, ?_⟩, ?_⟩
            · rw [find?_name htn]
              cases hd : (descendantsOf ts name).contains newSup with
              | false => rfl
              | true => exact absurd ((hsubmem newSup).mp hd) hna
            · simp only [Function.comp, relinkRec_name]; exact find?_name htn
          · rename_i hnn
            left
            refine ⟨hs, ?_⟩
            rcases hq'.inv (find?_of_mem hc.nodup ht) with e | ⟨s', hs', ha⟩
            · exact absurd e.symm hnn
            · rw [hs] at hs'; cases hs'
              exact (hsubmem s).mpr ha
    rw [topoFrom_iff_idx] at key
    intro i hi s hs
    rcases key i hi s hs with h | h
    · cases h
    · exact h


theorem consistent_addOwnFeatures (ts ts' : TypeSystem) (name : String) (fs : List Feature)
    (hc : Consistent ts) (h : addOwnFeatures ts name fs = .ok ts') : Consistent ts' :=
  consistent_of_skel (skel_addOwnFeatures name fs ts ts' hc.nodup h) hc

theorem subsumes_top (ts : TypeSystem) (b : String) : subsumes ts TOP b = true := by
  unfold subsumes; simp

theorem consistent_reparent (ts ts' : TypeSystem) (name oldSup newSup : String) (ex : TypeRec)
    (hc : Consistent ts) (hex : find? ts name = some ex) (ho : oldSup = ex.super.getD "")
    (hne : newSup ≠ oldSup) (h : reparent ts name oldSup newSup = .ok ts') : Consistent ts' := by
  obtain ⟨hs, ns, hns, hi⟩ := reparent_ok ts ts' name oldSup newSup h
  have hregn : hasExact ts name = true := (hasExact_iff_find _ _).mpr ⟨ex, hex⟩
  have hreg : hasExact ts newSup = true := (hasExact_iff_find _ _).mpr ⟨ns, hns⟩
  have hna : ¬ Anc ts name newSup := by
    intro ha
    have := (subsumes_iff_ancestor_aux ts hc name newSup hregn hreg).mpr ha
    rw [hs] at this; cases this
  have hsup : ex.super = some oldSup := by
    cases hsx : ex.super with
    | some o => rw [ho, hsx]; rfl
    | none =>
      have := hc.onlyRoot ex (find?_mem hex) hsx
      rw [find?_name hex] at this
      rw [this, subsumes_top] at hs; cases hs
  have hc1 := consistent_relink ts name oldSup newSup ex hc hex hsup (fun e => hne e.symm) hreg hna
  exact consistent_of_skel (skel_inheritFrom name _ _ ts' hc1.nodup hi) hc1

theorem consistent_processDecl (K : Consts) (s s' : MState) (d : Decl) (hc : Consistent s.ts)
    (h : processDecl K s d = .ok s') : Consistent s'.ts := by
  obtain ⟨_, h1 | ⟨ex, he, h2 | ⟨hne, ts1, hr, ha⟩⟩⟩ := processDecl_ok K s s' d h
  · obtain ⟨hx, ts1, hct, ha⟩ := h1
    exact consistent_addOwnFeatures _ _ _ _ (consistent_createType_aux K _ _ _ _ _ hc hx hct) ha
  · exact consistent_addOwnFeatures _ _ _ _ hc h2
  · exact consistent_addOwnFeatures _ _ _ _
      (consistent_reparent _ _ _ _ _ ex hc he rfl hne hr) ha

theorem consistent_mergeRound (K : Consts) : ∀ (ds : List Decl) (s s' : MState) (n n' : Nat),
    Consistent s.ts → mergeRound K ds s n = .ok (s', n') → Consistent s'.ts := by
  intro ds
  induction ds with
  | nil => intro s s' n n' hc h; simp only [mergeRound] at h; cases h; exact hc
  | cons d ds ih =>
    intro s s' n n' hc h
    simp only [mergeRound] at h
    split at h
    · split at h
      · cases h
      · rename_i s1 hp
        exact ih s1 s' _ n' (consistent_processDecl K s s1 d hc hp) h
    · exact ih s s' n n' hc h

theorem consistent_mergeLoop (K : Consts) (decls : List Decl) : ∀ (fuel : Nat) (s s' : MState),
    Consistent s.ts → mergeLoop K decls fuel s = .ok s' → Consistent s'.ts := by
  intro fuel
  induction fuel with
  | zero => intro s s' _ h; simp only [mergeLoop] at h; cases h
  | succ fuel ih =>
    intro s s' hc h
    simp only [mergeLoop] at h
    split at h
    · cases h
    · rename_i s1 n hr
      have hc1 := consistent_mergeRound K decls s s1 0 n hc hr
      split at h
      · cases h; exact hc1
      · exact ih s1 s' hc1 h

theorem merge_consistent_aux (K : Consts) (base ts' : TypeSystem) (decls : List Decl)
    (hc : Consistent base) (h : mergeDecls K base decls = .ok ts') : Consistent ts' := by
  obtain ⟨s', hs, rfl⟩ := mergeDecls_ok K base ts' decls h
  exact consistent_mergeLoop K decls _ _ s' hc hs


/-! ### `pushInherited` never exhausts the fuel `|types| + 1` (also on inconsistent tables) -/

theorem filter_length_le {α : Type} (p p' : α → Bool) : ∀ (l : List α),
    (∀ x ∈ l, p' x = true → p x = true) → (l.filter p').length ≤ (l.filter p).length := by
  intro l
  induction l with
  | nil => intro _; simp
  | cons b l ih =>
    intro hsub
    have := ih (fun x hx => hsub x (List.mem_cons_of_mem _ hx))
    have hb := hsub b List.mem_cons_self
    simp only [List.filter_cons]
    cases hpb' : p' b with
    | true => simp only [hb hpb', if_true, List.length_cons]; omega
    | false =>
      simp only [Bool.false_eq_true, if_false]
      split
      · simp only [List.length_cons]; omega
      · exact this

theorem filter_length_lt {α : Type} (p p' : α → Bool) : ∀ (l : List α),
    (∀ x ∈ l, p' x = true → p x = true) → (∃ x ∈ l, p x = true ∧ p' x = false) →
    (l.filter p').length < (l.filter p).length := by
  intro l
  induction l with
  | nil => intro _ ⟨x, hx, _⟩; cases hx
  | cons a l ih =>
    intro hsub ⟨x, hx, hpx, hpx'⟩
    have hle := filter_length_le p p' l (fun x hx => hsub x (List.mem_cons_of_mem _ hx))
    rcases List.mem_cons.mp hx with rfl | hx
    · simp only [List.filter_cons, hpx, hpx', if_true, Bool.false_eq_true, if_false, List.length_cons]
      omega
    · have := ih (fun x hx => hsub x (List.mem_cons_of_mem _ hx)) ⟨x, hx, hpx, hpx'⟩
      have ha := hsub a List.mem_cons_self
      simp only [List.filter_cons]
      cases hpa' : p' a with
      | true => simp only [ha hpa', if_true, List.length_cons]; omega
      | false =>
        simp only [Bool.false_eq_true, if_false]
        split
        · simp only [List.length_cons]; omega
        · exact this

/-- the type named `x` would still accept `f` as a new inherited feature -/
def freshAt (f : Feature) (ts : TypeSystem) (x : String) : Bool :=
  match find? ts x with
  | some t => addCheck t f true == .fresh
  | none => false

def freshCount (f : Feature) (ts : TypeSystem) : Nat := ((names ts).filter (freshAt f ts)).length

theorem freshCount_le (f : Feature) (ts : TypeSystem) : freshCount f ts ≤ ts.types.length := by
  unfold freshCount
  have := List.length_filter_le (freshAt f ts) (names ts)
  simpa [names] using this

theorem find?_setRec_ne (ts : TypeSystem) (r : TypeRec) (y : String) (h : y ≠ r.name) :
    find? (setRec ts r) y = find? ts y := by
  unfold find? setRec
  simp only
  induction ts.types with
  | nil => rfl
  | cons t l ih =>
    simp only [List.map_cons, List.find?_cons]
    by_cases ht : t.name = r.name
    · have e1 : (t.name == r.name) = true := by simpa using ht
      have e2 : (r.name == y) = false := by simpa using fun e => h e.symm
      have e3 : (t.name == y) = false := by rw [ht]; exact e2
      simp only [e1, if_true, e2, e3]
      exact ih
    · have e1 : (t.name == r.name) = false := by simpa using ht
      simp only [e1, Bool.false_eq_true, if_false]
      split
      · rfl
      · exact ih

theorem find?_setRec_self (ts : TypeSystem) (r : TypeRec) (h : hasExact ts r.name = true) :
    find? (setRec ts r) r.name = some r := by
  unfold hasExact find? at h
  unfold find? setRec
  simp only
  revert h
  induction ts.types with
  | nil => intro h; cases h
  | cons t l ih =>
    intro h
    simp only [List.map_cons, List.find?_cons] at h ⊢
    by_cases ht : t.name = r.name
    · have e1 : (t.name == r.name) = true := by simpa using ht
      simp [e1]
    · have e1 : (t.name == r.name) = false := by simpa using ht
      simp only [e1, Bool.false_eq_true, if_false] at h ⊢
      exact ih h

theorem featureEq_refl (f : Feature) : featureEq f f = true := by
  simp [featureEq]

theorem addCheck_after (t : TypeRec) (f : Feature) (h : addCheck t f true = .fresh) :
    addCheck { t with inh := t.inh ++ [f] } f true ≠ .fresh := by
  have hnone : t.inh.find? (·.name == f.name) = none := by
    unfold addCheck at h
    simp only [if_true] at h
    cases hf : t.inh.find? (·.name == f.name) with
    | none => rfl
    | some g =>
      rw [hf] at h
      simp only at h
      split at h <;> cases h
  unfold addCheck
  simp only [if_true, List.find?_append, hnone, Option.none_or, List.find?_cons, beq_self_eq_true,
    featureEq_refl]
  intro h; cases h

theorem pushInherited_fuel (f : Feature) (fuel : Nat) (ts : TypeSystem) (cs : List String) :
    freshCount f ts < fuel →
      pushInherited f fuel ts cs ≠ .error .outOfFuel ∧
      ∀ ts', pushInherited f fuel ts cs = .ok ts' →
        names ts' = names ts ∧ ∀ x, freshAt f ts' x = true → freshAt f ts x = true := by
  fun_induction pushInherited f fuel ts cs with
  | case1 => intro h; omega
  | case2 =>
    intro _
    exact ⟨fun h => (by cases h), fun ts' h => (by cases h; exact ⟨rfl, fun _ hx => hx⟩)⟩
  | case3 _ _ _ _ _ ih => exact ih
  | case4 =>
    intro _
    exact ⟨fun h => (by cases h), fun ts' h => (by cases h)⟩
  | case5 _ _ _ _ _ _ _ ih => exact ih
  | case6 fuel ts c cs t hf hchk ts1 ih2 ih1 =>
    intro hlt
    have hn1 : names ts1 = names ts := names_setRec ts _
    have hcn : t.name = c := find?_name hf
    have hreg : hasExact ts t.name = true := by rw [hcn]; exact (hasExact_iff_find _ _).mpr ⟨t, hf⟩
    have hself : find? ts1 c = some { t with inh := t.inh ++ [f] } := by
      have := find?_setRec_self ts { t with inh := t.inh ++ [f] } hreg
      rw [← hcn]; exact this
    have hsub1 : ∀ x, freshAt f ts1 x = true → freshAt f ts x = true := by
      intro x hx
      by_cases hxc : x = c
      · subst hxc
        unfold freshAt at hx
        rw [hself] at hx
        simp only [beq_iff_eq] at hx
        exact absurd hx (addCheck_after t f hchk)
      · unfold freshAt at hx ⊢
        rw [find?_setRec_ne ts { t with inh := t.inh ++ [f] } x (by rw [← hcn] at hxc; exact hxc)] at hx
        exact hx
    have hlt1 : freshCount f ts1 < freshCount f ts := by
      unfold freshCount
      rw [hn1]
      apply filter_length_lt
      · intro x _ hx; exact hsub1 x hx
      · refine ⟨c, (hasExact_iff_names ts c).mp (by rw [← hcn]; exact hreg), ?_, ?_⟩
        · unfold freshAt; rw [hf]; simp [hchk]
        · cases hfr : freshAt f ts1 c with
          | false => rfl
          | true =>
            unfold freshAt at hfr
            rw [hself] at hfr
            simp only [beq_iff_eq] at hfr
            exact absurd hfr (addCheck_after t f hchk)
    obtain ⟨a1, a2⟩ := ih2 (by omega)
    cases h2 : pushInherited f fuel ts1 t.children with
    | error e =>
      simp only [bind, Except.bind]
      refine ⟨?_, fun ts' h => by cases h⟩
      intro h; cases h; exact a1 h2
    | ok ts2 =>
      obtain ⟨b1, b2⟩ := a2 ts2 h2
      have hlt2 : freshCount f ts2 < fuel + 1 := by
        have : freshCount f ts2 ≤ freshCount f ts1 := by
          unfold freshCount
          rw [b1]
          exact filter_length_le _ _ _ (fun x _ hx => b2 x hx)
        omega
      obtain ⟨c1, c2⟩ := ih1 ts2 hlt2
      simp only [bind, Except.bind]
      refine ⟨c1, ?_⟩
      intro ts' h
      obtain ⟨d1, d2⟩ := c2 ts' h
      exact ⟨d1.trans (b1.trans hn1), fun x hx => hsub1 x (b2 x (d2 x hx))⟩

theorem pushInherited_ne_fuel (f : Feature) (ts : TypeSystem) (cs : List String) :
    pushInherited f (ts.types.length + 1) ts cs ≠ .error .outOfFuel :=
  (pushInherited_fuel f _ ts cs (by have := freshCount_le f ts; omega)).1


theorem addFeature_ne_fuel (ts : TypeSystem) (dom : String) (f : Feature) :
    addFeature ts dom f ≠ .error .outOfFuel := by
  unfold addFeature
  split
  · intro h; cases h
  · split
    · intro h; cases h
    · intro h; cases h
    · split
      · intro h; cases h
      · rename_i t _ _ _ _
        have := pushInherited_ne_fuel f (setRec ts { t with own := t.own ++ [f] }) t.children
        have hl : (setRec ts { t with own := t.own ++ [f] }).types.length = ts.types.length := by
          simp [setRec]
        rw [hl] at this
        exact this

theorem addOwnFeatures_ne_fuel (name : String) : ∀ (fs : List Feature) (ts : TypeSystem),
    addOwnFeatures ts name fs ≠ .error .outOfFuel := by
  intro fs
  induction fs with
  | nil => intro ts h; simp only [addOwnFeatures] at h; cases h
  | cons f fs ih =>
    intro ts h
    simp only [addOwnFeatures] at h
    split at h
    · rename_i e he
      cases h
      exact addFeature_ne_fuel _ _ _ he
    · exact ih _ h

theorem inheritFrom_ne_fuel (name : String) : ∀ (fs : List Feature) (ts : TypeSystem),
    inheritFrom ts name fs ≠ .error .outOfFuel := by
  intro fs
  induction fs with
  | nil => intro ts h; simp only [inheritFrom] at h; cases h
  | cons f fs ih =>
    intro ts h
    simp only [inheritFrom] at h
    split at h
    · cases h
    · split at h
      · rename_i e he
        cases h
        exact pushInherited_ne_fuel _ _ _ he
      · exact ih _ h

theorem getType_err (ts : TypeSystem) (n : String) (e : Err) (h : getType ts n = .error e) :
    e = .typeNotFound := by
  unfold getType at h
  split at h
  · cases h
  · split at h
    · cases h; rfl
    · split at h
      · cases h
      · cases h; rfl

theorem inheritAll_err : ∀ (fs : List Feature) (t : TypeRec) (e : Err), inheritAll fs t = .error e →
    e = .valueError := by
  intro fs
  induction fs with
  | nil => intro t e h; simp only [inheritAll] at h; cases h
  | cons f fs ih =>
    intro t e h
    simp only [inheritAll] at h
    split at h
    · cases h; rfl
    · exact ih _ e h
    · exact ih _ e h

theorem createType_ne_fuel (K : Consts) (ts : TypeSystem) (n s : String) (d : Option String) :
    createType K ts n s d ≠ .error .outOfFuel := by
  intro h
  unfold createType at h
  simp only [bind, Except.bind, throw, throwThe, MonadExceptOf.throw, pure, Except.pure] at h
  split at h
  · cases h
  · split at h
    · cases h
    · split at h
      · rename_i e he
        cases h
        have := getType_err _ _ _ he; cases this
      · split at h
        · cases h
        · split at h
          · rename_i e he
            cases h
            have := inheritAll_err _ _ _ he; cases this
          · cases h

theorem reparent_ne_fuel (ts : TypeSystem) (name oldSup newSup : String) :
    reparent ts name oldSup newSup ≠ .error .outOfFuel := by
  unfold reparent
  split
  · intro h; cases h
  · split
    · intro h; cases h
    · exact inheritFrom_ne_fuel _ _ _

theorem processDecl_ne_fuel (K : Consts) (s : MState) (d : Decl) :
    processDecl K s d ≠ .error .outOfFuel := by
  intro h
  cases hx : hasExact s.ts d.name with
  | false =>
    simp only [processDecl, hx, bind, Except.bind, pure, Except.pure, Bool.not_false, if_true] at h
    cases hc : createType K s.ts d.name d.super d.descr with
    | error e => rw [hc] at h; simp only at h; cases h; exact createType_ne_fuel _ _ _ _ _ hc
    | ok ts1 =>
      rw [hc] at h; simp only at h
      cases ha : addOwnFeatures ts1 d.name d.own with
      | error e => rw [ha] at h; simp only at h; cases h; exact addOwnFeatures_ne_fuel _ _ _ ha
      | ok ts2 => rw [ha] at h; cases h
  | true =>
    obtain ⟨ex, he⟩ := (hasExact_iff_find _ _).mp hx
    simp only [processDecl, hx, he, bind, Except.bind, pure, Except.pure, Bool.not_true,
      Bool.false_eq_true, if_false, throw, throwThe, MonadExceptOf.throw] at h
    by_cases hne : (d.super != ex.super.getD "") = true
    · simp only [hne, if_true] at h
      split at h
      · split at h
        · cases hr : reparent s.ts d.name (ex.super.getD "") d.super with
          | error e => rw [hr] at h; simp only at h; cases h; exact reparent_ne_fuel _ _ _ _ hr
          | ok ts1 =>
            rw [hr] at h; simp only at h
            cases ha : addOwnFeatures ts1 d.name d.own with
            | error e => rw [ha] at h; simp only at h; cases h; exact addOwnFeatures_ne_fuel _ _ _ ha
            | ok ts2 => rw [ha] at h; cases h
        · split at h
          · cases ha : addOwnFeatures s.ts d.name d.own with
            | error e => rw [ha] at h; simp only at h; cases h; exact addOwnFeatures_ne_fuel _ _ _ ha
            | ok ts2 => rw [ha] at h; cases h
          · cases h
      · cases h
    · simp only [hne] at h
      cases ha : addOwnFeatures s.ts d.name d.own with
      | error e => rw [ha] at h; simp only at h; cases h; exact addOwnFeatures_ne_fuel _ _ _ ha
      | ok ts2 => rw [ha] at h; cases h

theorem mergeRound_ne_fuel (K : Consts) : ∀ (ds : List Decl) (s : MState) (n : Nat),
    mergeRound K ds s n ≠ .error .outOfFuel := by
  intro ds
  induction ds with
  | nil => intro s n h; simp only [mergeRound] at h; cases h
  | cons d ds ih =>
    intro s n h
    simp only [mergeRound] at h
    split at h
    · split at h
      · rename_i e he
        cases h
        exact processDecl_ne_fuel K s d he
      · exact ih _ _ h
    · exact ih _ _ h


/-! ### Termination of the readiness loop -/

theorem processDecl_merged (K : Consts) (s s' : MState) (d : Decl) (h : processDecl K s d = .ok s') :
    (∀ x ∈ s.merged, x ∈ s'.merged) ∧ d.name ∈ s'.merged := by
  have hm := (processDecl_ok K s s' d h).1
  rw [hm]
  split
  · rename_i hc
    exact ⟨fun _ hx => hx, by simpa using hc⟩
  · exact ⟨fun _ hx => List.mem_append_left _ hx, by simp⟩

theorem mergeRound_merged (K : Consts) : ∀ (ds : List Decl) (s s' : MState) (n n' : Nat),
    mergeRound K ds s n = .ok (s', n') →
      (∀ x ∈ s.merged, x ∈ s'.merged) ∧
      (∀ d ∈ ds, d.name ∈ s'.merged ∨ (K.predefined.contains d.super = false ∧ d.super ∉ s.merged)) ∧
      (n' ≠ n + ds.length → ∃ d ∈ ds, K.predefined.contains d.super = false ∧ d.super ∉ s.merged) := by
  intro ds
  induction ds with
  | nil =>
    intro s s' n n' h
    simp only [mergeRound] at h
    cases h
    exact ⟨fun _ hx => hx, fun _ hd => (by cases hd), fun hn => absurd rfl hn⟩
  | cons d ds ih =>
    intro s s' n n' h
    simp only [mergeRound] at h
    split at h
    · split at h
      · cases h
      · rename_i s1 hp
        obtain ⟨r1, r2, r3⟩ := ih s1 s' (n + 1) n' h
        obtain ⟨p1, p2⟩ := processDecl_merged K s s1 d hp
        refine ⟨fun x hx => r1 x (p1 x hx), ?_, ?_⟩
        · intro x hx
          rcases List.mem_cons.mp hx with rfl | hx
          · exact Or.inl (r1 _ p2)
          · rcases r2 x hx with h | ⟨h, h'⟩
            · exact Or.inl h
            · exact Or.inr ⟨h, fun hm => h' (p1 _ hm)⟩
        · intro hn
          simp only [List.length_cons] at hn
          obtain ⟨x, hx, h, h'⟩ := r3 (by omega)
          exact ⟨x, List.mem_cons_of_mem _ hx, h, fun hm => h' (p1 _ hm)⟩
    · rename_i hready
      have hnr : K.predefined.contains d.super = false ∧ d.super ∉ s.merged := by
        simp only [Bool.or_eq_true, not_or, Bool.not_eq_true] at hready
        exact ⟨hready.1, by simpa using hready.2⟩
      obtain ⟨r1, r2, r3⟩ := ih s s' n n' h
      refine ⟨r1, ?_, fun _ => ⟨d, List.mem_cons_self, hnr⟩⟩
      intro x hx
      rcases List.mem_cons.mp hx with rfl | hx
      · exact Or.inr hnr
      · exact r2 x hx

/-- a round that does not process everything merges a new declared name -/
theorem mergeRound_progress (K : Consts) (decls : List Decl) (s s' : MState) (n : Nat)
    (hclosed : ∀ d ∈ decls, K.predefined.contains d.super = true ∨ d.super ∈ decls.map (·.name))
    (rank : String → Nat)
    (hrank : ∀ d ∈ decls, K.predefined.contains d.super = false → rank d.super < rank d.name)
    (h : mergeRound K decls s 0 = .ok (s', n)) (hn : n ≠ decls.length) :
    ∃ x ∈ decls.map (·.name), x ∈ s'.merged ∧ x ∉ s.merged := by
  obtain ⟨_, r2, r3⟩ := mergeRound_merged K decls s s' 0 n h
  obtain ⟨d0, hd0, hp0, hm0⟩ := r3 (by omega)
  have key : ∀ k, ∀ d ∈ decls, K.predefined.contains d.super = false → d.super ∉ s.merged →
      rank d.name ≤ k → ∃ x ∈ decls.map (·.name), x ∈ s'.merged ∧ x ∉ s.merged := by
    intro k
    induction k with
    | zero =>
      intro d hd hp _ hk
      have := hrank d hd hp
      omega
    | succ k ih =>
      intro d hd hp hm hk
      have hr := hrank d hd hp
      rcases hclosed d hd with hpre | hdecl
      · rw [hp] at hpre; cases hpre
      · obtain ⟨d', hd', hname⟩ := List.mem_map.mp hdecl
        rcases r2 d' hd' with hin | ⟨hp', hm'⟩
        · exact ⟨d.super, hdecl, by rw [← hname]; exact hin, hm⟩
        · exact ih d' hd' hp' hm' (by rw [hname]; omega)
  exact key (rank d0.name) d0 hd0 hp0 hm0 (Nat.le_refl _)

/-- number of declared names (with repetitions) not yet merged -/
def unmerged (decls : List Decl) (s : MState) : Nat :=
  ((decls.map (·.name)).filter (fun x => !(s.merged.contains x))).length

theorem mergeLoop_fuel (K : Consts) (decls : List Decl)
    (hclosed : ∀ d ∈ decls, K.predefined.contains d.super = true ∨ d.super ∈ decls.map (·.name))
    (rank : String → Nat)
    (hrank : ∀ d ∈ decls, K.predefined.contains d.super = false → rank d.super < rank d.name) :
    ∀ (fuel : Nat) (s : MState), unmerged decls s < fuel → mergeLoop K decls fuel s ≠ .error .outOfFuel := by
  intro fuel
  induction fuel with
  | zero => intro s h; omega
  | succ fuel ih =>
    intro s hlt
    simp only [mergeLoop]
    split
    · rename_i e he
      intro heq
      cases heq
      exact mergeRound_ne_fuel K decls s 0 he
    · rename_i s1 n hr
      split
      · intro h; cases h
      · rename_i hn
        have hn' : n ≠ decls.length := by simpa using hn
        obtain ⟨x, hx, hin, hnot⟩ := mergeRound_progress K decls s s1 n hclosed rank hrank hr hn'
        obtain ⟨r1, _, _⟩ := mergeRound_merged K decls s s1 0 n hr
        apply ih s1
        have : unmerged decls s1 < unmerged decls s := by
          unfold unmerged
          apply filter_length_lt
          · intro y _ hy
            simp only [Bool.not_eq_true', List.contains_eq_mem, decide_eq_false_iff_not] at hy ⊢
            exact fun hm => hy (r1 y hm)
          · refine ⟨x, hx, ?_, ?_⟩
            · simpa using hnot
            · simpa using hin
        omega

theorem merge_terminates_aux (K : Consts) (base : TypeSystem) (decls : List Decl)
    (hclosed : ∀ d ∈ decls, K.predefined.contains d.super = true ∨ d.super ∈ decls.map (·.name))
    (hacyc : ∃ rank : String → Nat, ∀ d ∈ decls, K.predefined.contains d.super = false →
      rank d.super < rank d.name) :
    mergeDecls K base decls ≠ .error .outOfFuel := by
  obtain ⟨rank, hrank⟩ := hacyc
  have hlt : unmerged decls { ts := base, merged := [] } < decls.length + 1 := by
    unfold unmerged
    exact Nat.lt_succ_of_le (Nat.le_trans (List.length_filter_le _ _) (by simp))
  have := mergeLoop_fuel K decls hclosed rank hrank _ _ hlt
  unfold mergeDecls
  split
  · rename_i e he
    intro h; cases h; exact this he
  · intro h; cases h


/-! ### Copies of the merge functions, parametric in the push function

`pushInherited` is defined by well-founded recursion, which the kernel cannot unfold; instantiating the
copies with the structural `pushS` makes closed instances decidable by evaluation. -/

abbrev PushFn := Feature → Nat → TypeSystem → List String → R TypeSystem

def addFeatureG (push : PushFn) (ts : TypeSystem) (domain : String) (f : Feature) : R TypeSystem :=
  match find? ts domain with
  | none => .error .typeNotFound
  | some t =>
    match addCheck t f false with
    | .conflict => .error .valueError
    | .same => .ok ts
    | .fresh =>
      if descendantConflict ts domain f then .error .valueError
      else
        let ts1 := setRec ts { t with own := t.own ++ [f] }
        push f (ts.types.length + 1) ts1 t.children

def addOwnFeaturesG (push : PushFn) (ts : TypeSystem) (name : String) : List Feature → Except Err TypeSystem
  | [] => .ok ts
  | f :: fs =>
    match addFeatureG push ts name { f with domain := name } with
    | .error e => .error e
    | .ok ts' => addOwnFeaturesG push ts' name fs

def inheritFromG (push : PushFn) (ts : TypeSystem) (name : String) : List Feature → Except Err TypeSystem
  | [] => .ok ts
  | f :: fs =>
    if subtreeClash ts name f then .error .valueError
    else
      match push f (ts.types.length + 1) ts [name] with
      | .error e => .error e
      | .ok ts' => inheritFromG push ts' name fs

def reparentG (push : PushFn) (ts : TypeSystem) (name oldSup newSup : String) : Except Err TypeSystem :=
  if subsumes ts name newSup then .error .valueError
  else
    match find? ts newSup with
    | none => .error .typeNotFound
    | some ns =>
      let ts1 := relink ts name oldSup newSup
      inheritFromG push ts1 name (allFeatures ns)

def processDeclG (push : PushFn) (K : Consts) (s : MState) (d : Decl) : Except Err MState := do
  let ts1 ←
    if !(hasExact s.ts d.name) then do
      let ts' ← createType K s.ts d.name d.super d.descr
      addOwnFeaturesG push ts' d.name d.own
    else do
      let ex ← match find? s.ts d.name with
        | some t => pure t
        | none => throw .typeNotFound
      let exSup := ex.super.getD ""
      let ts' ←
        if d.super != exSup then
          match getType s.ts exSup, getType s.ts d.super with
          | .ok _, .ok _ =>
            if subsumes s.ts exSup d.super then reparentG push s.ts d.name exSup d.super
            else if subsumes s.ts d.super exSup then pure s.ts
            else throw .valueError
          | _, _ => throw .typeNotFound
        else pure s.ts
      addOwnFeaturesG push ts' d.name d.own
  pure { ts := ts1, merged := if s.merged.contains d.name then s.merged else s.merged ++ [d.name] }

def mergeRoundG (push : PushFn) (K : Consts) : List Decl → MState → Nat → Except Err (MState × Nat)
  | [], s, n => .ok (s, n)
  | d :: ds, s, n =>
    if K.predefined.contains d.super || s.merged.contains d.super then
      match processDeclG push K s d with
      | .error e => .error e
      | .ok s' => mergeRoundG push K ds s' (n + 1)
    else mergeRoundG push K ds s n

def mergeLoopG (push : PushFn) (K : Consts) (decls : List Decl) : Nat → MState → Except Err MState
  | 0, _ => .error .outOfFuel
  | fuel+1, s =>
    match mergeRoundG push K decls s 0 with
    | .error e => .error e
    | .ok (s', n) => if n == decls.length then .ok s' else mergeLoopG push K decls fuel s'

def mergeDeclsG (push : PushFn) (K : Consts) (base : TypeSystem) (decls : List Decl) : Except Err TypeSystem :=
  match mergeLoopG push K decls (decls.length + 1) { ts := base, merged := [] } with
  | .error e => .error e
  | .ok s => .ok s.ts

theorem addFeature_eq_G (ts : TypeSystem) (dom : String) (f : Feature) :
    addFeature ts dom f = addFeatureG pushInherited ts dom f := rfl

theorem addOwnFeatures_eq_G (name : String) : ∀ (fs : List Feature) (ts : TypeSystem),
    addOwnFeatures ts name fs = addOwnFeaturesG pushInherited ts name fs := by
  intro fs
  induction fs with
  | nil => intro ts; rfl
  | cons f fs ih =>
    intro ts
    simp only [addOwnFeatures, addOwnFeaturesG, ih, addFeature_eq_G]
    rfl

theorem inheritFrom_eq_G (name : String) : ∀ (fs : List Feature) (ts : TypeSystem),
    inheritFrom ts name fs = inheritFromG pushInherited ts name fs := by
  intro fs
  induction fs with
  | nil => intro ts; rfl
  | cons f fs ih =>
    intro ts
    simp only [inheritFrom, inheritFromG, ih]
    rfl

theorem reparent_eq_G (ts : TypeSystem) (name oldSup newSup : String) :
    reparent ts name oldSup newSup = reparentG pushInherited ts name oldSup newSup := by
  simp only [reparent, reparentG, inheritFrom_eq_G]
  rfl

theorem processDecl_eq_G (K : Consts) (s : MState) (d : Decl) :
    processDecl K s d = processDeclG pushInherited K s d := by
  simp only [processDecl, processDeclG, addOwnFeatures_eq_G, reparent_eq_G]
  rfl

theorem mergeRound_eq_G (K : Consts) : ∀ (ds : List Decl) (s : MState) (n : Nat),
    mergeRound K ds s n = mergeRoundG pushInherited K ds s n := by
  intro ds
  induction ds with
  | nil => intro s n; rfl
  | cons d ds ih =>
    intro s n
    simp only [mergeRound, mergeRoundG, ih, processDecl_eq_G]
    rfl

theorem mergeLoop_eq_G (K : Consts) (decls : List Decl) : ∀ (fuel : Nat) (s : MState),
    mergeLoop K decls fuel s = mergeLoopG pushInherited K decls fuel s := by
  intro fuel
  induction fuel with
  | zero => intro s; rfl
  | succ fuel ih =>
    intro s
    simp only [mergeLoop, mergeLoopG, ih, mergeRound_eq_G]
    rfl

theorem pushInherited_eq_pushS_fn : (pushInherited : PushFn) = pushS := by
  funext f fuel ts cs
  exact pushInherited_eq_pushS f fuel ts cs

/-- the merge, computed with the structurally recursive push -/
theorem mergeDecls_eq_S (K : Consts) (base : TypeSystem) (decls : List Decl) :
    mergeDecls K base decls = mergeDeclsG pushS K base decls := by
  rw [← pushInherited_eq_pushS_fn]
  simp only [mergeDecls, mergeDeclsG, mergeLoop_eq_G]
  rfl


end Cassis.TS
