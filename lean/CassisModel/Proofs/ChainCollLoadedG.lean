/-
C16 with collections, the CAS loaded from XMI, part G: the traversal of the JSON writer on the loaded CAS collects the
counterpart of every written structure, under the id of the written one.  (Every structure the first traversal
collected is reachable from the indexed ones; each step of that path — a reference, an element of an inlined FSArray, a
head of an inlined FSList, an element of an FSArray object — is matched by steps through the loaded heap, which the
second traversal follows because what it collects is closed: `LOkJ.closed`, `LOkJ.closedE`.)
-/
import CassisModel.Proofs.ChainCollLoadedF

namespace Cassis.ChainC
open Cassis.TS Cassis.Traverse Cassis.Xmi Cassis.Lex Cassis.Json

section
variable {K : Consts} {ts : TypeSystem} {c : Cas} {ci : Nat} {H : Heap} {L : List (Int × Nat)} {ci' : Nat}
  {na : Int → Nat} {ia : Int → String → Nat} {ld : Xmi.Loaded}

/-- a feature of a general structure that is inlined and of range FSArray / FSList is of that kind of the fragment -/
theorem collFeat_fsarr {isAnn : Bool} {o : Obj} {f : Feature} (h : CollFeat K ts c ci H isAnn o f)
    (hi : isInline K f = true) (hr : f.range = FS_ARRAY) : isArray K f.range = true := by
  rcases h with hflat | ⟨_, hsh | hin⟩
  · exact absurd hr hflat.2.2.2.2.2.2.2.1
  · obtain ⟨hm, _⟩ := hsh
    have : isInline K f = false := by unfold isInline; rw [hm]; rfl
    rw [this] at hi; cases hi
  · obtain ⟨_, v, _, hk⟩ := hin
    rcases hk with ⟨h, _⟩ | ⟨h, _⟩ | ⟨_, rk, _⟩ | ⟨h, _⟩ | ⟨h, _⟩ | ⟨h, _⟩ | ⟨h, _⟩
    · exact absurd hr (primArrTy_ne_fs h)
    · rw [hr] at h; exact absurd h (by decide)
    · exact rk.arr
    all_goals (rw [hr] at h; exact absurd h (by decide))

theorem collFeat_fslist {isAnn : Bool} {o : Obj} {f : Feature} (h : CollFeat K ts c ci H isAnn o f)
    (hi : isInline K f = true) (hr : f.range = FS_LIST) :
    isArray K f.range = false ∧ isPrimitiveArray K f.range = false ∧
      ∀ cc, alistGet? o.slots f.name = some (.ref cc) → ∃ hs, collectList H (H.length + 1) (.ref cc) = .ok hs := by
  rcases h with hflat | ⟨_, hsh | hin⟩
  · exact absurd hr hflat.2.2.2.2.2.2.2.2.1
  · obtain ⟨hm, _⟩ := hsh
    have : isInline K f = false := by unfold isInline; rw [hm]; rfl
    rw [this] at hi; cases hi
  · obtain ⟨_, v, hv, hk⟩ := hin
    rcases hk with ⟨h, _⟩ | ⟨h, _⟩ | ⟨h, _⟩ | ⟨h, _⟩ | ⟨h, _⟩ | ⟨h, _⟩ | ⟨_, rk, hil⟩
    · rcases h with (h | h | h) | h | h | (h | h) <;> (rw [hr] at h; exact absurd h (by decide))
    · rw [hr] at h; exact absurd h (by decide)
    · rw [hr] at h; exact absurd h (by decide)
    · rw [hr] at h; exact absurd h (by decide)
    · rw [hr] at h; exact absurd h (by decide)
    · rw [hr] at h; exact absurd h (by decide)
    · refine ⟨rk.arr, rk.primArr, fun cc hcc => ?_⟩
      rw [hv] at hcc
      cases hcc
      rcases hil with e | ⟨a, hs, e, hcol, _⟩
      · cases e
      · cases e
        exact ⟨hs, hcol⟩

/-- the nodes of a list the reader made are collected once the first node is, and so are the heads -/
theorem vlist_collected {st2 : St} {L2 : List (Int × Nat)} (hcl : ClosedL st2.heap L2) (sh : SameShape ld.heap st2.heap)
    {k : LK} : ∀ {a : Nat} {vs : List Val}, VList ld.heap k a vs → ∀ y : Int, (y, a) ∈ L2 →
      ∀ b : Nat, Val.ref b ∈ vs → ∃ y' : Int, (y', b) ∈ L2 := by
  intro a vs hv
  induction hv with
  | nil _ _ _ _ => intro y _ b hb; cases hb
  | @cons a o v a' vs g1 g2 g3 g4 _ ih =>
    intro y hy b hb
    obtain ⟨o', ho', _, hsl, _⟩ := sh.2 a o g1
    rcases List.mem_cons.mp hb with hb | hb
    · obtain ⟨y', _, hy'⟩ := hcl (y, a) hy o' ho' "head" b (by rw [hsl, g4, get_head, hb])
      exact ⟨y', hy'⟩
    · obtain ⟨y', _, hy'⟩ := hcl (y, a) hy o' ho' "tail" a' (by rw [hsl, g4, get_tail])
      exact ih y' hy' b hb

end

/-- **the counterparts of the written structures are collected** -/
theorem XLd.complete {K : Consts} {ts : TypeSystem} {c : Cas} {ci : Nat} {hp0 : Heap} {st : St} {ci' : Nat}
    {na : Int → Nat} {ia : Int → String → Nat} {ld : Xmi.Loaded}
    (x : XLd K ts c ci st.heap (sortById st.allFs) ci' na ia ld)
    (hnx : 0 < c.nextXid) (hfa : findAllFs K ts {} hp0 c.nextXid (defaultSeeds c) = .ok st)
    {st2 : St} (j : JTrav K ts (sortById st.allFs) na ld st2)
    (hL2 : LOkJ K ts ld.cas ci' st2.heap (sortById st2.allFs)) :
    ∀ q ∈ sortById st.allFs, (q.1, na q.1) ∈ sortById st2.allFs := by
  have hlen : st.heap.length = hp0.length := (findAllFs_heap_frame_aux K ts {} hp0 c.nextXid _ st hfa).1
  -- a collected counterpart carries the id of the written structure
  have hid : ∀ q ∈ sortById st.allFs, ∀ y : Int, (y, na q.1) ∈ sortById st2.allFs → (q.1, na q.1) ∈ sortById st2.allFs := by
    intro q hq y hy
    have e : y = q.1 := x.main_id j hq (hL2.ids _ hy).1
    rw [e] at hy
    exact hy
  -- the slots of the counterpart in the heap after the second traversal
  have hnew : ∀ q ∈ sortById st.allFs, ∃ (o o' o2 : Obj), st.heap[q.2]? = some o ∧ ld.heap[na q.1]? = some o' ∧
      st2.heap[na q.1]? = some o2 ∧ o2.slots = o'.slots ∧
      ∀ n v, alistGet? o.slots n = some v → alistGet? o'.slots n = some (E3c K ts st.heap na ia ci' o n v) := by
    intro q hq
    obtain ⟨o, o', ho, ho', _, _, _, hslots⟩ := x.rel q hq
    obtain ⟨o2, ho2, _, hsl, _⟩ := j.shape.2 _ o' ho'
    exact ⟨o, o', o2, ho, ho', ho2, hsl, hslots⟩
  have key : ∀ a, Reach K ts {} st.heap (hp0.length + 1) (defaultSeeds c) a →
      ∀ i, (i, a) ∈ sortById st.allFs → (i, na i) ∈ sortById st2.allFs := by
    intro a hr
    induction hr with
    | seed a hs =>
      intro i hi
      have hseed := x.seed_bwd hi hs
      have hbm := findAllFs_complete_aux K ts jop ld.heap _ _ st2 x.next_pos j.fa (na i) (.seed _ hseed)
        (j.nz _ (.inl ⟨(i, a), hi, rfl⟩))
      obtain ⟨p, hp1, hp2⟩ := List.mem_map.mp hbm
      obtain ⟨y, b'⟩ := p
      simp only at hp2
      subst hp2
      exact hid (i, a) hi y (mem_sortById.mpr hp1)
    | step a b hra hnull hsucc ih =>
      intro i hib
      have hxb : xidOf st.heap b = some i := (x.lok.ids _ hib).1
      have hmem := findAllFs_complete_aux K ts {} hp0 c.nextXid _ st hnx hfa a hra hnull
      obtain ⟨⟨xa, a2⟩, hq0, rfl⟩ := List.mem_map.mp hmem
      have hq : (xa, a2) ∈ sortById st.allFs := mem_sortById.mpr hq0
      have ihq := ih xa hq
      obtain ⟨o, o', o2, ho, ho', ho2, hsl2, hslots⟩ := hnew _ hq
      -- a reference slot of the counterpart leads to a collected structure
      have viaSlot : ∀ n b', alistGet? o'.slots n = some (.ref b') → ∃ y, (y, b') ∈ sortById st2.allFs := by
        intro n b' hb'
        obtain ⟨y, _, hy⟩ := hL2.closed _ ihq o2 ho2 n b' (by rw [hsl2]; exact hb')
        exact ⟨y, hy⟩
      have viaElems : ∀ (y1 : Int) (a1 : Nat) (ob : Obj) (l' : List (Option Nat)), (y1, a1) ∈ sortById st2.allFs →
          ld.heap[a1]? = some ob → alistGet? ob.slots "elements" = some (.refs l') → some (na i) ∈ l' →
          (i, na i) ∈ sortById st2.allFs := by
        intro y1 a1 ob l' hy1 hob hel hmem'
        obtain ⟨ob2, hob2, _, hsl, _⟩ := j.shape.2 _ ob hob
        obtain ⟨y, _, hy⟩ := hL2.closedE _ hy1 ob2 hob2 l' (by rw [hsl]; exact hel) (na i) hmem'
        exact hid _ hib y hy
      rcases x.lok.coll _ hq with hg | hA
      · -- a general structure
        obtain ⟨o1, t, ps, n, ho1, ht, hnode, _⟩ := CT.nodeSuccs_gen hg
        rw [show st.heap[((xa, a2) : Int × Nat).2]? = st.heap[a2]? from rfl, ho] at ho1
        cases ho1
        rw [hlen] at hnode
        have hbps : b ∈ ps := by
          rw [succsOf_eq K ts {} ho (Cassis.Xmi.getType_of_find ht) hnode] at hsucc
          exact hsucc
        obtain ⟨o1, t1, ho1, ht1, _, _, _, hsup, _, _, _, _, _, hnd, _, hfeat, _⟩ := hg
        rw [show st.heap[((xa, a2) : Int × Nat).2]? = st.heap[a2]? from rfl, ho] at ho1
        cases ho1
        rw [ht] at ht1; cases ht1
        have hfs : featuresSuccs K ts {} st.heap [] (hp0.length + 1) a2 (allFeatures t) = .ok (ps, n) := by
          unfold nodeSuccs at hnode
          have : (t.super == some ARRAY_BASE) = false := by
            cases hh : (t.super == some ARRAY_BASE)
            · rfl
            · exact absurd (eq_of_beq hh) hsup
          rw [this] at hnode
          exact hnode
        obtain ⟨f, hf, hsrc⟩ := featuresSuccs0_sub ho _ _ _ hfs b hbps
        have hinlS := CF.inlineSlot_eq (K := K) ht hnd hf
        rcases hsrc with ⟨hni, hv⟩ | ⟨hi, hr, cc, l, hv, hel, hbl⟩ | ⟨hi, hr, cc, ps', n', hv, hw, hbp⟩
        · -- a reference
          have hv' : alistGet? o'.slots f.name = some (.ref (na i)) := by
            rw [hslots _ _ hv, e3c_ref_out o f.name b (hinlS.trans hni)]
            simp only [exp3, hxb]
          obtain ⟨y, hy⟩ := viaSlot _ _ hv'
          exact hid _ hib y hy
        · -- an element of an inlined FSArray
          have harr := collFeat_fsarr (hfeat f hf) hi hr
          obtain ⟨ob, hob, _, _, hobsl⟩ := x.inlArr hq ho ht hnd hf hi harr (.inr (.inr hr)) hv hel
          have hv' : alistGet? o'.slots f.name = some (.ref (ia xa f.name)) := by
            rw [hslots _ _ hv, CF.E3c_inl o f.name cc xa (hinlS.trans hi) (x.oxid hq ho)]
          obtain ⟨y1, hy1⟩ := viaSlot _ _ hv'
          refine viaElems y1 _ ob _ hy1 hob (by rw [hobsl, get_elements]; rfl) ?_
          simp only [List.mem_map]
          exact ⟨some b, hbl, by simp only [Option.bind_some, hxb, Option.map_some]⟩
        · -- a head of an inlined FSList
          obtain ⟨harr, hpa, hcol⟩ := collFeat_fslist (hfeat f hf) hi hr
          obtain ⟨hs, hcs⟩ := hcol cc hv
          rw [hlen] at hcs
          have hbh : Val.ref b ∈ hs := walk_sub_collect st.heap _ _ ps' n' hs hw hcs b hbp
          rw [← hlen] at hcs
          obtain ⟨hvl, _⟩ := x.inlList hq ho ht hnd hf hi harr hpa .fs hr hv hcs
          have hv' : alistGet? o'.slots f.name = some (.ref (ia xa f.name)) := by
            rw [hslots _ _ hv, CF.E3c_inl o f.name cc xa (hinlS.trans hi) (x.oxid hq ho)]
          obtain ⟨y1, hy1⟩ := viaSlot _ _ hv'
          obtain ⟨y, hy⟩ := vlist_collected hL2.closed j.shape hvl y1 hy1 (na i) (by
            refine List.mem_map.mpr ⟨.ref b, hbh, ?_⟩
            simp only [headExp, hxb])
          exact hid _ hib y hy
      · -- an array object
        obtain ⟨o1, t, f, ev, ho1, ht, htn, hsup, _, _, _, _, hsl, _, _⟩ := hA
        rw [show st.heap[((xa, a2) : Int × Nat).2]? = st.heap[a2]? from rfl, ho] at ho1
        cases ho1
        have hel : alistGet? o.slots "elements" = some ev := by rw [hsl, get_elements]
        have hslot : Traverse.slot st.heap a2 "elements" = some ev := by
          unfold Traverse.slot; rw [ho]; exact hel
        have h1 : (t.super == some ARRAY_BASE) = true := by rw [hsup]; exact beq_self_eq_true _
        -- the pushes are elements
        have hpush : ∃ l, ev = .refs l ∧ some b ∈ l := by
          unfold succsOf at hsucc
          rw [ho] at hsucc
          simp only [Cassis.Xmi.getType_of_find ht] at hsucc
          unfold nodeSuccs at hsucc
          rw [h1] at hsucc
          simp only [if_true] at hsucc
          by_cases hfa' : (t.name == FS_ARRAY) = true
          · rw [if_pos hfa', hslot] at hsucc
            cases ev with
            | refs l => exact ⟨l, rfl, mem_refsToPush_nil' hsucc⟩
            | _ => cases hsucc
          · rw [if_neg hfa'] at hsucc
            cases hsucc
        obtain ⟨l, rfl, hbl⟩ := hpush
        have hv' : alistGet? o'.slots "elements" = some (.refs (l.map (fun r => r.bind (fun b => (xidOf st.heap b).map na)))) := by
          rw [hslots _ _ hel, e3c_list o "elements" _ rfl]
          rfl
        refine viaElems xa _ o' _ ihq ho' hv' ?_
        simp only [List.mem_map]
        exact ⟨some b, hbl, by simp only [Option.bind_some, hxb, Option.map_some]⟩
  intro q hq
  have hreach := findAllFs_sound_aux K ts {} hp0 c.nextXid _ st hnx hfa q.2
    (List.mem_map.mpr ⟨q, mem_sortById.mp hq, rfl⟩)
  exact key q.2 hreach q.1 hq

end Cassis.ChainC
