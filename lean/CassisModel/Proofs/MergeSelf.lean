/-
Helper lemmas for `Properties/C13Self.lean`, part C: what an API history leaves behind (`Hist`), its
declaration list, and the comparison of the replayed type system with the original.
-/
import CassisModel.Proofs.MergeSelfB

namespace Cassis.TS

/-! ### Closed facts about the generated table -/

theorem builtin_pre : ∀ p, Gen.consts.predefined.contains p = true → hasExact Gen.builtinTS p = true := by
  have h : Gen.consts.predefined.all (fun p => hasExact Gen.builtinTS p) = true := by decide +kernel
  intro p hp
  exact List.all_eq_true.mp h p (by simpa using hp)

/-- user types have a non-final supertype -/
def NoFinal (ts : TypeSystem) : Prop :=
  ∀ t ∈ ts.types, Gen.consts.predefined.contains t.name = false →
    ∃ s, t.super = some s ∧ Gen.consts.finalTypes.contains s = false

theorem builtin_nofinal : NoFinal Gen.builtinTS := by
  have h : Gen.builtinTS.types.all (fun t => Gen.consts.predefined.contains t.name ||
      match t.super with
      | some s => !(Gen.consts.finalTypes.contains s)
      | none => false) = true := by decide +kernel
  intro t ht hp
  have := List.all_eq_true.mp h t ht
  rw [hp, Bool.false_or] at this
  cases hs : t.super with
  | none => rw [hs] at this; cases this
  | some s =>
    rw [hs] at this
    exact ⟨s, rfl, by simpa using this⟩

/-! ### What a history leaves behind -/

structure Hist (ts : TypeSystem) : Prop where
  cons : Consistent ts
  feat : FeatInv ts
  grow : Grow Gen.consts Gen.builtinTS ts
  nofinal : NoFinal ts

theorem hist_builtin : Hist Gen.builtinTS :=
  ⟨consistent_builtins_aux.1, featInv_builtins_aux.1, Grow.refl _ _, builtin_nofinal⟩

theorem nofinal_of_skel {ts ts' : TypeSystem} (h : skel ts' = skel ts) (hn : NoFinal ts) : NoFinal ts' := by
  intro t' ht' hp
  have hm : tr t' ∈ skel ts' := List.mem_map.mpr ⟨t', ht', rfl⟩
  rw [h] at hm
  obtain ⟨t, ht, e⟩ := List.mem_map.mp hm
  obtain ⟨e1, e2, _⟩ := (tr_eq_iff t t').mp e
  rw [← e1] at hp
  rw [← e2]
  exact hn t ht hp

theorem createType_nonfinal (K : Consts) (ts ts' : TypeSystem) (n s : String) (d : Option String)
    (h : createType K ts n s d = .ok ts') :
    ∃ sup, getType ts s = .ok sup ∧ K.finalTypes.contains sup.name = false := by
  unfold createType at h
  simp only [bind, Except.bind, throw, throwThe, MonadExceptOf.throw, pure, Except.pure] at h
  split at h
  · cases h
  · split at h
    · cases h
    · split at h
      · cases h
      · rename_i sup hsup
        split at h
        · cases h
        · rename_i hnf
          exact ⟨sup, hsup, by simpa using hnf⟩

theorem createType_grow (K : Consts) (ts ts' : TypeSystem) (n s : String) (d : Option String)
    (hc : Consistent ts) (hf : FeatInv ts) (hnew : hasExact ts n = false)
    (h : createType K ts n s d = .ok ts') : Grow K ts ts' := by
  obtain ⟨sup, _, _, rfl⟩ := createType_shape K ts ts' n s d hc hf hnew h
  have hfind := find_create ts ts.redeclared n sup.name
    { name := n, super := some sup.name, descr := d, inh := allFeatures sup } rfl hnew
  intro x t hx
  have hxn : x ≠ n := by
    intro e; subst e
    rw [find?_none_of_not_has hnew] at hx; cases hx
  refine ⟨upd sup.name n t, ?_, upd_super _ _ _, upd_descr _ _ _, ?_, ?_, ?_⟩
  · rw [hfind, if_neg hxn, hx]; rfl
  · intro g hg; rw [upd_own]; exact hg
  · intro g hg; rw [upd_inh]; exact hg
  · intro _; rw [upd_own]

theorem getType_dotted {ts : TypeSystem} {n : String} {t : TypeRec} (hd : n.contains '.' = true)
    (h : getType ts n = .ok t) : t.name = n := by
  unfold getType at h
  split at h
  · rename_i t' hf
    cases h
    exact find?_name hf
  · simp only [hasDot, hd, if_true] at h
    cases h

theorem createFeature_ok_dotted (ts ts' : TypeSystem) (dom name range : String) (elem descr : Option String)
    (multi : Option Bool) (hdot : dom.contains '.' = true)
    (h : createFeature ts dom name range elem descr multi = .ok ts') :
    ∃ f, addFeature ts dom f = .ok ts' := by
  unfold createFeature at h
  simp only [bind, Except.bind] at h
  cases hd : getType ts dom with
  | error e => rw [hd] at h; cases h
  | ok d =>
    have hdn : d.name = dom := getType_dotted hdot hd
    rw [hd] at h; simp only at h
    rw [hdn] at h
    cases hr : getType ts range with
    | error e => rw [hr] at h; cases h
    | ok r =>
      rw [hr] at h; simp only at h
      cases elem with
      | none => simp only [pure, Except.pure] at h; exact ⟨_, h⟩
      | some en =>
        simp only at h
        cases he : getType ts en with
        | error e => rw [he] at h; cases h
        | ok e => rw [he] at h; simp only [pure, Except.pure] at h; exact ⟨_, h⟩

theorem hist_history : ∀ (ops : List TsOp) (ts : TypeSystem), Hist ts → UserOnly Gen.consts ops →
    Hist (ops.foldl (applyOp Gen.consts) ts) := by
  intro ops
  induction ops with
  | nil => intro ts h _; exact h
  | cons op ops ih =>
    intro ts h hu
    cases op with
    | createType n s d =>
      apply ih _ _ hu
      simp only [applyOp]
      cases hn : hasExact ts n with
      | true => simpa using h
      | false =>
        simp only [Bool.false_eq_true, if_false]
        cases hts : createType Gen.consts ts n s d with
        | error e => exact h
        | ok ts' =>
          refine ⟨consistent_createType_aux _ ts ts' n s d h.cons hn hts,
            featInv_createType_aux _ ts ts' n s d h.cons h.feat hn hts,
            h.grow.trans (createType_grow _ ts ts' n s d h.cons h.feat hn hts), ?_⟩
          obtain ⟨sup', hsup', hnf⟩ := createType_nonfinal _ ts ts' n s d hts
          obtain ⟨sup, hsup, _, rfl⟩ := createType_shape _ ts ts' n s d h.cons h.feat hn hts
          rw [hsup] at hsup'
          have e : sup = sup' := by injection hsup'
          subst e
          intro t' ht' hp
          simp only [List.mem_append, List.mem_map, List.mem_singleton] at ht'
          rcases ht' with ⟨t0, ht0, rfl⟩ | rfl
          · rw [upd_name] at hp
            rw [upd_super]
            exact h.nofinal t0 ht0 hp
          · exact ⟨sup.name, rfl, hnf⟩
    | createFeature dom nm r e d m =>
      obtain ⟨hp, hdot, hu'⟩ := hu
      apply ih _ _ hu'
      simp only [applyOp]
      cases hts : createFeature ts dom nm r e d m with
      | error e => exact h
      | ok ts' =>
        obtain ⟨f, hadd⟩ := createFeature_ok_dotted ts ts' dom nm r e d m hdot hts
        exact ⟨consistent_addFeature_aux ts ts' dom f h.cons hadd,
          featInv_addFeature_aux ts ts' dom f h.cons h.feat hadd,
          h.grow.trans (addFeature_grow _ h.cons h.feat hp hadd),
          nofinal_of_skel (skel_addFeature ts ts' dom f h.cons.nodup hadd) h.nofinal⟩

/-! ### The declaration list of a history -/

def mkDecl (t : TypeRec) : Decl :=
  { name := t.name, super := t.super.getD "", descr := t.descr, own := t.own }

theorem declsOf_eq (K : Consts) (ts : TypeSystem) :
    declsOf K ts = (ts.types.filter (fun t => !(K.predefined.contains t.name))).map mkDecl := by
  simp [declsOf, getTypes, mkDecl]

theorem mem_declsOf {K : Consts} {ts : TypeSystem} {d : Decl} (h : d ∈ declsOf K ts) :
    ∃ t ∈ ts.types, K.predefined.contains t.name = false ∧ d = mkDecl t := by
  rw [declsOf_eq] at h
  obtain ⟨t, ht, e⟩ := List.mem_map.mp h
  obtain ⟨h1, h2⟩ := List.mem_filter.mp ht
  exact ⟨t, h1, by simpa using h2, e.symm⟩

theorem declsOf_mem {K : Consts} {ts : TypeSystem} {t : TypeRec} (ht : t ∈ ts.types)
    (hp : K.predefined.contains t.name = false) : mkDecl t ∈ declsOf K ts := by
  rw [declsOf_eq]
  exact List.mem_map.mpr ⟨t, List.mem_filter.mpr ⟨ht, by rw [hp]; rfl⟩, rfl⟩

theorem declsOf_ok {a o : TypeSystem} (ha : Hist a) (hg : Grow Gen.consts a o) :
    ∀ d ∈ declsOf Gen.consts a, DeclOk Gen.consts o d := by
  intro d hd
  obtain ⟨t, ht, hp, rfl⟩ := mem_declsOf hd
  obtain ⟨s, hs, hnf⟩ := ha.nofinal t ht hp
  obtain ⟨t', ht', hs', hd', ho', _⟩ := hg t.name t (find?_of_mem ha.cons.nodup ht)
  have hds : (mkDecl t).super = s := by simp [mkDecl, hs]
  refine ⟨⟨t', ht', ?_, hd', ?_⟩, ?_, hp⟩
  · rw [hs', hs, hds]
  · intro f hf
    exact ⟨f, List.mem_append_left _ (ho' f hf), featureEq_refl f⟩
  · rw [hds]; exact hnf

theorem ready_of_topo (K : Consts) : ∀ (l : List TypeRec) (seenT seen : List String), topoFrom seenT l →
    (∀ x ∈ seenT, K.predefined.contains x = true ∨ x ∈ seen) →
    (∀ t ∈ l, K.predefined.contains t.name = false → ∃ s, t.super = some s) →
    ReadyList K seen ((l.filter (fun t => !(K.predefined.contains t.name))).map mkDecl) := by
  intro l
  induction l with
  | nil => intro _ _ _ _ _; trivial
  | cons t l ih =>
    intro seenT seen htopo hseen hsup
    obtain ⟨h0, hrest⟩ := htopo
    cases hp : K.predefined.contains t.name with
    | true =>
      simp only [List.filter_cons, hp, Bool.not_true, Bool.false_eq_true, if_false]
      apply ih _ _ hrest
      · intro x hx
        rcases List.mem_append.mp hx with hx | hx
        · exact hseen x hx
        · simp only [List.mem_singleton] at hx; subst hx; exact Or.inl hp
      · exact fun t' ht' => hsup t' (List.mem_cons_of_mem _ ht')
    | false =>
      simp only [List.filter_cons, hp, Bool.not_false, if_true, List.map_cons]
      obtain ⟨s, hs⟩ := hsup t List.mem_cons_self hp
      refine ⟨?_, ?_⟩
      · have : (mkDecl t).super = s := by simp [mkDecl, hs]
        rw [this]
        exact hseen s (h0 s hs)
      · apply ih _ _ hrest
        · intro x hx
          rcases List.mem_append.mp hx with hx | hx
          · exact (hseen x hx).imp id (List.mem_cons_of_mem _)
          · simp only [List.mem_singleton] at hx; subst hx
            exact Or.inr List.mem_cons_self
        · exact fun t' ht' => hsup t' (List.mem_cons_of_mem _ ht')

theorem declsOf_ready {a : TypeSystem} (ha : Hist a) (seen : List String) :
    ReadyList Gen.consts seen (declsOf Gen.consts a) := by
  rw [declsOf_eq]
  apply ready_of_topo Gen.consts a.types [] seen
  · exact (topoFrom_iff_idx a.types []).mpr (fun i h s hs => Or.inr (ha.cons.topo i h s hs))
  · intro x hx; cases hx
  · intro t ht hp
    obtain ⟨s, hs, _⟩ := ha.nofinal t ht hp
    exact ⟨s, hs⟩

/-! ### The start of the replay -/

theorem init_inv {o : TypeSystem} (ho : Hist o) : MInv Gen.consts o { ts := Gen.builtinTS, merged := [] } := by
  refine ⟨consistent_builtins_aux.1, featInv_builtins_aux.1, ?_, builtin_pre, fun x hx => by cases hx⟩
  intro n tb hn
  obtain ⟨t', ht', hs', hd', _⟩ := ho.grow n tb hn
  refine ⟨t', ht', hs', hd', ?_, ?_⟩
  · intro g hg
    obtain ⟨t'', ht'', hsub⟩ := grow_cov ho.grow hn
    rw [ht'] at ht''; cases ht''
    exact ⟨g, hsub g hg, featureEq_refl g⟩
  · intro c hc
    obtain ⟨tc, htc, hsc⟩ := (consistent_builtins_aux.1.link n c).mp ⟨tb, hn, hc⟩
    obtain ⟨tc', htc', hsc', _⟩ := ho.grow c tc htc
    exact ⟨tc', htc', by rw [hsc', hsc]⟩

/-! ### Comparing the replayed type system with the original -/

theorem same_of (o m : TypeSystem) (ho : Hist o) (hcm : Consistent m) (hfm : FeatInv m) (hs : Sub o m)
    (hg : Grow Gen.consts Gen.builtinTS m)
    (hcv : ∀ t ∈ o.types, Gen.consts.predefined.contains t.name = false →
      ∃ t', find? m t.name = some t' ∧ ∀ f ∈ t.own, ∃ g ∈ eff t', featureEq g f = true) : SameTs o m := by
  -- every record of `o` has a counterpart that covers its own features
  have step1 : ∀ t ∈ o.types, ∃ tm, find? m t.name = some tm ∧ ∀ f ∈ t.own, ∃ g ∈ eff tm, featureEq g f = true := by
    intro t ht
    cases hp : Gen.consts.predefined.contains t.name with
    | false => exact hcv t ht hp
    | true =>
      obtain ⟨tb, htb⟩ := (hasExact_iff_find _ _).mp (builtin_pre _ hp)
      obtain ⟨to, hto, _, _, _, _, hown⟩ := ho.grow t.name tb htb
      rw [find?_of_mem ho.cons.nodup ht] at hto
      cases hto
      obtain ⟨tm, htm, _, _, _, _, hown'⟩ := hg t.name tb htb
      refine ⟨tm, htm, ?_⟩
      intro f hf
      refine ⟨f, List.mem_append_left _ ?_, featureEq_refl f⟩
      rw [hown' hp, ← hown hp]; exact hf
  -- … and all its effective features (parents first)
  have step2 : ∀ i (hi : i < o.types.length), ∃ tm, find? m (o.types[i]).name = some tm ∧
      ∀ f ∈ eff o.types[i], ∃ g ∈ eff tm, featureEq g f = true := by
    intro i
    induction i using Nat.strongRecOn with
    | ind i ih =>
      intro hi
      have ht : o.types[i] ∈ o.types := List.getElem_mem hi
      obtain ⟨tm, htm, hown⟩ := step1 _ ht
      refine ⟨tm, htm, ?_⟩
      intro f hf
      rcases List.mem_append.mp hf with hf | hf
      · exact hown f hf
      · cases hsup : (o.types[i]).super with
        | none =>
          rw [ho.feat.rootInh _ ht hsup] at hf; cases hf
        | some s =>
          obtain ⟨j, hj, hjl, hjn⟩ := ho.cons.topo i hi s hsup
          have hps : find? o s = some o.types[j] := by
            rw [← hjn]; exact find?_getElem ho.cons.nodup j hjl
          obtain ⟨pm, hpm, hpcov⟩ := ih j hj hjl
          rw [hjn] at hpm
          -- the feature comes from the supertype in `o`
          have hn1 : f.name ∈ fnames (o.types[j]).own ∨ f.name ∈ fnames (o.types[j]).inh :=
            (ho.feat.inherit' ht hsup hps f.name).mp (mem_fnames_of_mem hf)
          rw [← List.mem_append, ← fnames_append] at hn1
          obtain ⟨f1, hf1, hf1n⟩ := mem_fnames.mp hn1
          have hf1f : featureEq f1 f = true := ho.feat.inheritEq' ht hsup hps f hf f1 hf1 hf1n
          obtain ⟨g1, hg1, hg1f⟩ := hpcov f1 hf1
          -- and is inherited in `m`
          obtain ⟨to, hto, hr⟩ := hs _ tm htm
          rw [find?_of_mem ho.cons.nodup ht] at hto
          cases hto
          have hsm : tm.super = some s := by rw [← hr.super]; exact hsup
          have htmm : tm ∈ m.types := find?_mem htm
          have hn2 : g1.name ∈ fnames tm.inh := by
            rw [hfm.inherit' htmm hsm hpm, ← List.mem_append, ← fnames_append]
            exact mem_fnames_of_mem hg1
          obtain ⟨g2, hg2, hg2n⟩ := mem_fnames.mp hn2
          have h12 : featureEq g1 g2 = true := hfm.inheritEq' htmm hsm hpm g2 hg2 g1 hg1 hg2n.symm
          exact ⟨g2, List.mem_append_right _ hg2,
            featureEq_trans (featureEq_symm h12) (featureEq_trans hg1f hf1f)⟩
  have step3 : ∀ n t, find? o n = some t → ∃ tm, find? m n = some tm ∧
      ∀ f ∈ eff t, ∃ g ∈ eff tm, featureEq g f = true := by
    intro n t hn
    obtain ⟨i, hi, e⟩ := find?_idx hn
    obtain ⟨tm, htm, hc⟩ := step2 i hi
    rw [e, find?_name hn] at htm
    rw [e] at hc
    exact ⟨tm, htm, hc⟩
  intro n
  cases h1 : find? o n with
  | none =>
    cases h2 : find? m n with
    | none => trivial
    | some t' =>
      obtain ⟨to, hto, _⟩ := hs n t' h2
      rw [h1] at hto; cases hto
  | some t =>
    obtain ⟨tm, htm, hcov⟩ := step3 n t h1
    rw [htm]
    show SameDecl t tm
    obtain ⟨to, hto, hr⟩ := hs n tm htm
    rw [h1] at hto; cases hto
    refine ⟨by rw [find?_name htm, find?_name h1], hr.super.symm, hr.descr.symm, ?_,
      keys_perm_of_cover t tm hcov hr.feats⟩
    rw [List.perm_ext_iff_of_nodup (hcm.childNodup tm (find?_mem htm)) (ho.cons.childNodup t (find?_mem h1))]
    intro c
    constructor
    · intro hc
      obtain ⟨tc, htc, hsc⟩ := hr.kids c hc
      obtain ⟨ta, hta, hm⟩ := (ho.cons.link n c).mpr ⟨tc, htc, hsc⟩
      rw [h1] at hta; cases hta; exact hm
    · intro hc
      obtain ⟨tc, htc, hsc⟩ := (ho.cons.link n c).mp ⟨t, h1, hc⟩
      obtain ⟨tcm, htcm, _⟩ := step3 c tc htc
      obtain ⟨tc', htc', hrc⟩ := hs c tcm htcm
      rw [htc] at htc'; cases htc'
      obtain ⟨ta, hta, hm⟩ := (hcm.link n c).mpr ⟨tcm, htcm, by rw [← hrc.super]; exact hsc⟩
      rw [htm] at hta; cases hta; exact hm

/-- the common part of the three statements: replaying declaration lists made of the original's own
    declarations and of declarations of the built-in table reproduces the original -/
theorem merge_same_of (o : TypeSystem) (ho : Hist o) (inputs : List TypeSystem)
    (hin : ∀ a ∈ inputs, a = o ∨ a = Gen.builtinTS) (hmem : o ∈ inputs) :
    ∃ m, merge Gen.consts Gen.builtinTS inputs = .ok m ∧ SameTs o m := by
  have hhist : ∀ a ∈ inputs, Hist a ∧ Grow Gen.consts a o := by
    intro a ha
    rcases hin a ha with rfl | rfl
    · exact ⟨ho, Grow.refl _ _⟩
    · exact ⟨hist_builtin, ho.grow⟩
  have hok : ∀ (l : List TypeSystem), (∀ a ∈ l, Hist a ∧ Grow Gen.consts a o) →
      (∀ d ∈ l.flatMap (declsOf Gen.consts), DeclOk Gen.consts o d) ∧
      ReadyList Gen.consts [] (l.flatMap (declsOf Gen.consts)) := by
    intro l
    induction l with
    | nil => intro _; exact ⟨fun d hd => (by cases hd), trivial⟩
    | cons a l ih =>
      intro hl
      obtain ⟨ha, hga⟩ := hl a List.mem_cons_self
      obtain ⟨i1, i2⟩ := ih (fun b hb => hl b (List.mem_cons_of_mem _ hb))
      simp only [List.flatMap_cons]
      refine ⟨?_, ReadyList.append _ _ _ _ (declsOf_ready ha []) i2⟩
      intro d hd
      rcases List.mem_append.mp hd with hd | hd
      · exact declsOf_ok ha hga d hd
      · exact i1 d hd
  obtain ⟨hd, hr⟩ := hok inputs hhist
  obtain ⟨m, hm, hcm, hfm, hs, hg, hcv⟩ :=
    mergeDecls_step Gen.consts o ho.feat Gen.builtinTS _ (init_inv ho) hd hr
  refine ⟨m, hm, same_of o m ho hcm hfm hs hg ?_⟩
  intro t ht hp
  have hmem' : mkDecl t ∈ inputs.flatMap (declsOf Gen.consts) :=
    List.mem_flatMap.mpr ⟨o, hmem, declsOf_mem ht hp⟩
  exact hcv (mkDecl t) hmem'

/-! ### The three statements -/

theorem merge_single_same_aux (ops : List TsOp) (h : UserOnly Gen.consts ops) :
    ∃ m, merge Gen.consts Gen.builtinTS [ops.foldl (applyOp Gen.consts) Gen.builtinTS] = .ok m ∧
      SameTs (ops.foldl (applyOp Gen.consts) Gen.builtinTS) m :=
  merge_same_of _ (hist_history ops _ hist_builtin h) _ (by simp) (by simp)

theorem merge_self_same_aux (ops : List TsOp) (h : UserOnly Gen.consts ops) :
    ∃ m, merge Gen.consts Gen.builtinTS
        [ops.foldl (applyOp Gen.consts) Gen.builtinTS, ops.foldl (applyOp Gen.consts) Gen.builtinTS] = .ok m ∧
      SameTs (ops.foldl (applyOp Gen.consts) Gen.builtinTS) m :=
  merge_same_of _ (hist_history ops _ hist_builtin h) _ (by simp) (by simp)

theorem merge_empty_same_aux (ops : List TsOp) (h : UserOnly Gen.consts ops) :
    (∃ m, merge Gen.consts Gen.builtinTS [ops.foldl (applyOp Gen.consts) Gen.builtinTS, Gen.builtinTS] = .ok m ∧
      SameTs (ops.foldl (applyOp Gen.consts) Gen.builtinTS) m) ∧
    (∃ m, merge Gen.consts Gen.builtinTS [Gen.builtinTS, ops.foldl (applyOp Gen.consts) Gen.builtinTS] = .ok m ∧
      SameTs (ops.foldl (applyOp Gen.consts) Gen.builtinTS) m) :=
  ⟨merge_same_of _ (hist_history ops _ hist_builtin h) _ (by simp) (by simp),
   merge_same_of _ (hist_history ops _ hist_builtin h) _ (by simp) (by simp)⟩

end Cassis.TS
