/-
`InhAnc` for the built-in type system (Boolean checker, kernel) and for every history.
-/
import CassisModel.Proofs.ChainEmb3Hist

namespace Cassis.ChainE
open Cassis.TS

/-- `a` is `b` or a supertype of `b` within `k` steps -/
def ancB (ts : TypeSystem) (a : String) : Nat → String → Bool
  | 0, _ => false
  | k+1, b => (hasExact ts b && a == b) ||
      (match find? ts b with
       | some tb => (match tb.super with | some s => ancB ts a k s | none => false)
       | none => false)

theorem ancB_sound (ts : TypeSystem) (a : String) : ∀ k b, ancB ts a k b = true → Anc ts a b := by
  intro k
  induction k with
  | zero => intro b h; cases h
  | succ k ih =>
    intro b h
    unfold ancB at h
    rcases Bool.or_eq_true_iff.mp h with h | h
    · obtain ⟨h1, h2⟩ := Bool.and_eq_true_iff.mp h
      rw [eq_of_beq h2]; exact Anc.refl b h1
    · cases hf : find? ts b with
      | none => rw [hf] at h; cases h
      | some tb =>
        rw [hf] at h
        dsimp only at h
        cases hs : tb.super with
        | none => rw [hs] at h; cases h
        | some s =>
          rw [hs] at h
          exact Anc.step a b s tb hf hs (ih s h)

def inhAncB (ts : TypeSystem) : Bool :=
  ts.types.all (fun t => t.inh.all (fun r => ts.types.any (fun ta =>
    ta.name != t.name && ancB ts ta.name 64 t.name && ta.own.contains r)))

theorem inhAncB_sound {ts : TypeSystem} (hn : (ts.types.map (·.name)).Nodup) (h : inhAncB ts = true) : InhAnc ts := by
  intro t ht r hr
  unfold inhAncB at h
  have h1 := List.all_eq_true.mp (List.all_eq_true.mp h t ht) r hr
  obtain ⟨ta, hta, hc⟩ := List.any_eq_true.mp h1
  simp only [Bool.and_eq_true, bne_iff_ne, ne_eq, List.contains_eq_mem, decide_eq_true_eq] at hc
  exact ⟨ta.name, ta, hc.1.1, ancB_sound ts _ _ _ hc.1.2, find?_of_mem hn hta, hc.2⟩

theorem builtin_inhAncB : inhAncB Gen.builtinTS = true := by decide +kernel

theorem inhAnc_builtin : InhAnc Gen.builtinTS :=
  inhAncB_sound consistent_builtins_aux.1.nodup builtin_inhAncB

theorem inhAnc_history : ∀ (ops : List TsOp) (ts : TypeSystem), Hist ts → InhAnc ts → UserOnly Gen.consts ops →
    InhAnc (ops.foldl (applyOp Gen.consts) ts) := by
  intro ops
  induction ops with
  | nil => intro ts _ h _; exact h
  | cons op ops ih =>
    intro ts h ha hu
    have hstep : Hist (applyOp Gen.consts ts op) := hist_history [op] ts h (by
      cases op with
      | createType n s d => exact (trivial : UserOnly Gen.consts [])
      | createFeature dom nm r e d m => exact ⟨hu.1, hu.2.1, (trivial : UserOnly Gen.consts [])⟩)
    cases op with
    | createType n s d =>
      apply ih _ hstep _ hu
      simp only [applyOp]
      cases hn : hasExact ts n with
      | true => simpa using ha
      | false =>
        simp only [Bool.false_eq_true, if_false]
        cases hts : createType Gen.consts ts n s d with
        | error e => exact ha
        | ok ts' => exact inhAnc_createType h.cons h.feat hn ha hts
    | createFeature dom nm r e d m =>
      obtain ⟨hp, hdot, hu'⟩ := hu
      apply ih _ hstep _ hu'
      simp only [applyOp]
      cases hts : createFeature ts dom nm r e d m with
      | error e => exact ha
      | ok ts' =>
        obtain ⟨f, hadd⟩ := createFeature_ok_dotted ts ts' dom nm r e d m hdot hts
        exact inhAnc_addFeature h.cons h.feat (addFeature_grow Gen.consts h.cons h.feat hp hadd) ha hadd

end Cassis.ChainE
