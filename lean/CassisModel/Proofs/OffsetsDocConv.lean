/-
C03, written-document level, layer 0: the converter of a sofa whose converter belongs to its text (`SofaConvOk`)
computes the oracle `extOffset`; the per-feature lemmas about the two writers.
-/
import CassisModel.Spec.OffsetsDoc
import CassisModel.Proofs.Offsets
import CassisModel.Proofs.RoundTripWriter
import CassisModel.Proofs.RoundTripJsonWriter

namespace Cassis.OffsetsDoc
open Cassis.Offsets Cassis.TS

theorem extOffset_inside (t : List Nat) (i : Nat) (h : i ≤ t.length) :
    extOffset t (i : Int) = Int.ofNat (utf16Encode (t.take i)).length := by
  unfold extOffset
  have h0 : (0 : Int) ≤ (i : Int) := by omega
  rw [if_pos ⟨h0, by simpa using h⟩, Int.toNat_natCast]

theorem extOffset_neg (t : List Nat) (i : Int) (h : i < 0) : extOffset t i = i := by
  unfold extOffset
  rw [if_neg (by omega)]

theorem extOffset_beyond (t : List Nat) (i : Int) (h : (t.length : Int) < i) : extOffset t i = i := by
  unfold extOffset
  rw [if_neg (by omega)]

/-- what both writers compute for an integer `begin`/`end` of an annotation is the oracle -/
theorem conv_ext (s : Sofa) (t : List Nat) (ht : s.text = some t) (hok : SofaConvOk s) (i : Int) :
    (if i < 0 then i else ((pythonToExternal s.conv i.toNat : Nat) : Int)) = extOffset t i := by
  by_cases hneg : i < 0
  · rw [if_pos hneg, extOffset_neg t i hneg]
  · rw [if_neg hneg]
    have hi : ((i.toNat : Nat) : Int) = i := Int.toNat_of_nonneg (by omega)
    rcases hok t ht with hc | ⟨rfl, hc⟩
    · rw [hc]
      show ((p2e t i.toNat : Nat) : Int) = _
      by_cases hin : i.toNat ≤ t.length
      · rw [p2e_eq_len t _ hin]
        unfold extOffset
        rw [if_pos ⟨by omega, hin⟩]
        rfl
      · have hp : p2e t i.toNat = i.toNat := by
          unfold p2e p2eTab
          have : (table t)[i.toNat]? = none := by
            apply List.getElem?_eq_none
            rw [table_length]; omega
          rw [this]
        rw [hp, hi]
        unfold extOffset
        rw [if_neg (by omega)]
    · rw [hc]
      show ((i.toNat : Nat) : Int) = _
      unfold extOffset
      by_cases hz : i.toNat ≤ ([] : List Nat).length
      · rw [if_pos ⟨by omega, hz⟩]
        have : i.toNat = 0 := by simpa using hz
        rw [this]
        rfl
      · rw [if_neg (by intro h; exact hz h.2), hi]

end Cassis.OffsetsDoc
