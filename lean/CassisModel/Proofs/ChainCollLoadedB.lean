/-
C16 with collections, the CAS loaded from XMI, part B: the counterpart of a written structure is a structure of the JSON
fragment (`JGenFs` / `JArrFs` in the loaded CAS), and every reference it holds points into `SAll`.
-/
import CassisModel.Proofs.ChainCollLoadedA

namespace Cassis.ChainC
open Cassis.TS Cassis.Traverse Cassis.Xmi Cassis.Lex Cassis.Json

/-- the condition of `JFeatOk` on the value `v` of feature `f` -/
def JVal (K : Consts) (ts : TypeSystem) (c : Cas) (ci : Nat) (hp : Heap) (isAnn : Bool) (f : Feature) (v : Val) : Prop :=
  (f.name = "sofa" ∧ ((∃ vn, v = .sofa ci vn ∧ (Cas.getViewRec c vn).isSome = true) ∨ (v = .none ∧ isAnn = false)))
  ∨ (f.name ≠ "sofa" ∧ isPrimitive K ts f.range = true ∧
      ( v = .none
      ∨ (isIntRange f.range = true ∧ ∃ i : Int, v = .int i)
      ∨ (f.range = "uima.cas.String" ∧ ∃ s : String, v = .str s)
      ∨ (f.range = "uima.cas.Boolean" ∧ ∃ b : Bool, v = .bool b)
      ∨ ((f.range = "uima.cas.Float" ∨ f.range = "uima.cas.Double") ∧ ∃ t : String, v = .float t)))
  ∨ (f.name ≠ "sofa" ∧ isPrimitive K ts f.range = false ∧
      f.range ≠ "uima.cas.Boolean" ∧ f.range ≠ "uima.cas.Double" ∧ f.range ≠ "uima.cas.Float" ∧
      (v = .none ∨ ∃ b : Nat, v = .ref b ∧
        (isInline K f = true → isArray K f.range = false → SpineEnds hp b)))

/-- where a reference held by feature `f` of a loaded general structure points -/
def RefKind (K : Consts) (hp : Heap) (L : List (Int × Nat)) (na : Int → Nat) (f : Feature) (b : Nat) : Prop :=
  (isInline K f = false ∧ SMain L na b) ∨ (isInline K f = true ∧ isArray K f.range = true ∧ SArr K hp L na b) ∨
  (isInline K f = true ∧ isArray K f.range = false ∧ SNode hp L na b)

theorem RefKind.sall {K : Consts} {hp : Heap} {L : List (Int × Nat)} {na : Int → Nat} {f : Feature} {b : Nat}
    (h : RefKind K hp L na f b) : SAll K hp L na b := by
  rcases h with ⟨_, h⟩ | ⟨_, _, h⟩ | ⟨_, _, h⟩
  · exact .inl h
  · exact .inr (.inl h)
  · exact .inr (.inr h)

theorem e3c_nonref {K : Consts} {ts : TypeSystem} {H : Heap} {na : Int → Nat} {ia : Int → String → Nat} {ci' : Nat}
    (o : Obj) (n : String) (v : Val) (h1 : ∀ c, v ≠ .ref c) (h2 : isListV v = false) :
    E3c K ts H na ia ci' o n v = exp3 H na ci' v := by
  cases v <;> first | rfl | exact absurd rfl (h1 _) | cases h2

theorem e3c_ref_out {K : Consts} {ts : TypeSystem} {H : Heap} {na : Int → Nat} {ia : Int → String → Nat} {ci' : Nat}
    (o : Obj) (n : String) (b : Nat) (hinl : inlineSlot K ts o n = false) :
    E3c K ts H na ia ci' o n (.ref b) = exp3 H na ci' (.ref b) := by
  simp only [E3c, hinl, Bool.false_eq_true, if_false]

theorem collRange_ne {r : String}
    (h : PrimArrTy r ∨ r = STRING_ARRAY ∨ r = FS_ARRAY ∨ ∃ k : LK, r = k.range) :
    r ≠ "uima.cas.Boolean" ∧ r ≠ "uima.cas.Double" ∧ r ≠ "uima.cas.Float" := by
  rcases h with ((h | h | h) | h | h | (h | h)) | h | h | ⟨k, h⟩
  all_goals first
    | (subst h; exact ⟨by decide, by decide, by decide⟩)
    | (subst h; cases k <;> exact ⟨by decide, by decide, by decide⟩)

section
variable {K : Consts} {ts : TypeSystem} {c : Cas} {ci : Nat} {H : Heap} {L : List (Int × Nat)} {ci' : Nat}
  {na : Int → Nat} {ia : Int → String → Nat} {ld : Xmi.Loaded}

theorem XLd.view_some (x : XLd K ts c ci H L ci' na ia ld) {vn : String}
    (h : (Cas.getViewRec c vn).isSome = true) : (Cas.getViewRec ld.cas vn).isSome = true := by
  cases hg : Cas.getViewRec c vn with
  | none => rw [hg] at h; cases h
  | some w =>
    obtain ⟨w', hw', _⟩ := viewsRelL_get _ _ vn w x.views hg
    show (alistGet? ld.cas.views vn).isSome = true
    rw [hw']
    rfl

/-- a reference of a written structure that is not inlined: the new value and where it points -/
theorem XLd.ref_out (x : XLd K ts c ci H L ci' na ia ld) {q : Int × Nat} (hq : q ∈ L) {o : Obj} (ho : H[q.2]? = some o)
    {t : TypeRec} (ht : find? ts o.ty = some t) (hnd : (ctorFields t).Nodup) {f : Feature} (hf : f ∈ allFeatures t)
    (hni : isInline K f = false) {b : Nat} (hv : alistGet? o.slots f.name = some (.ref b)) :
    ∃ q' ∈ L, E3c K ts H na ia ci' o f.name (.ref b) = .ref (na q'.1) := by
  obtain ⟨q', hq', _, hy⟩ := x.target hq (b := b) ⟨o, t, ho, ht, .inl ⟨f, hf, hni, hv⟩⟩
  refine ⟨q', hq', ?_⟩
  rw [e3c_ref_out o f.name b ((CF.inlineSlot_eq ht hnd hf).trans hni)]
  simp only [exp3, hy]

/-- one feature of a written general structure in the loaded heap -/
theorem XLd.feat_new (x : XLd K ts c ci H L ci' na ia ld) {q : Int × Nat} (hq : q ∈ L) {o : Obj} (ho : H[q.2]? = some o)
    {t : TypeRec} (ht : find? ts o.ty = some t) (hnd : (ctorFields t).Nodup) {f : Feature} (hf : f ∈ allFeatures t)
    {isAnn : Bool} (hcf : CollFeat K ts c ci H isAnn o f) :
    (ResOk f ∧ f.name ≠ "xmiID" ∧ f.name ≠ "type" ∧ f.name ≠ "self" ∧ f.name ≠ ID) ∧
    ∃ v, alistGet? o.slots f.name = some v ∧
      JVal K ts ld.cas ci' ld.heap isAnn f (E3c K ts H na ia ci' o f.name v) ∧
      ∀ b, E3c K ts H na ia ci' o f.name v = .ref b → RefKind K ld.heap L na f b := by
  have hox := x.oxid hq ho
  -- values that are neither references nor lists
  have plain : ∀ v : Val, (∀ c, v ≠ .ref c) → isListV v = false → (∀ b, exp3 H na ci' v ≠ .ref b) →
      JVal K ts ld.cas ci' ld.heap isAnn f (exp3 H na ci' v) →
      JVal K ts ld.cas ci' ld.heap isAnn f (E3c K ts H na ia ci' o f.name v) ∧
      ∀ b, E3c K ts H na ia ci' o f.name v = .ref b → RefKind K ld.heap L na f b := by
    intro v h1 h2 h3 h4
    rw [e3c_nonref o f.name v h1 h2]
    exact ⟨h4, fun b hb => absurd hb (h3 b)⟩
  -- references that are not inlined
  have refOut : ∀ b, alistGet? o.slots f.name = some (.ref b) → isInline K f = false → f.name ≠ "sofa" →
      isPrimitive K ts f.range = false → f.range ≠ "uima.cas.Boolean" → f.range ≠ "uima.cas.Double" →
      f.range ≠ "uima.cas.Float" →
      JVal K ts ld.cas ci' ld.heap isAnn f (E3c K ts H na ia ci' o f.name (.ref b)) ∧
      ∀ b', E3c K ts H na ia ci' o f.name (.ref b) = .ref b' → RefKind K ld.heap L na f b' := by
    intro b hv hni hn hp r1 r2 r3
    obtain ⟨q', hq', he⟩ := x.ref_out hq ho ht hnd hf hni hv
    rw [he]
    refine ⟨.inr (.inr ⟨hn, hp, r1, r2, r3, .inr ⟨_, rfl, fun hi => by rw [hni] at hi; cases hi⟩⟩), ?_⟩
    intro b' hb'
    cases hb'
    exact .inl ⟨hni, q', hq', rfl⟩
  rcases hcf with hflat | ⟨hname, hsh | hin⟩
  · obtain ⟨a1, a2, a3, a4, a5, _, _, _, _, _, _, v, hv, hcase⟩ := hflat
    refine ⟨⟨a1, a2, a3, a4, a5⟩, v, hv, ?_⟩
    rcases hcase with ⟨hn, hs⟩ | ⟨hn, hp, h3⟩ | ⟨hn, hp, hna, hnl, r1, r2, r3, hval⟩
    · rcases hs with ⟨vn, rfl, hview⟩ | ⟨rfl, hA⟩
      · exact plain _ (by intro c h; cases h) rfl (by intro b h; cases h)
          (.inl ⟨hn, .inl ⟨vn, rfl, x.view_some hview⟩⟩)
      · exact plain _ (by intro c h; cases h) rfl (by intro b h; cases h) (.inl ⟨hn, .inr ⟨rfl, hA⟩⟩)
    · rcases h3 with rfl | ⟨hr, i, rfl⟩ | ⟨hr, s, rfl⟩ | ⟨hr, b', rfl⟩ | ⟨hr, t', rfl⟩
      · exact plain _ (by intro c h; cases h) rfl (by intro b h; cases h) (.inr (.inl ⟨hn, hp, .inl rfl⟩))
      · exact plain _ (by intro c h; cases h) rfl (by intro b h; cases h)
          (.inr (.inl ⟨hn, hp, .inr (.inl ⟨hr, i, rfl⟩)⟩))
      · exact plain _ (by intro c h; cases h) rfl (by intro b h; cases h)
          (.inr (.inl ⟨hn, hp, .inr (.inr (.inl ⟨hr, s, rfl⟩))⟩))
      · exact plain _ (by intro c h; cases h) rfl (by intro b h; cases h)
          (.inr (.inl ⟨hn, hp, .inr (.inr (.inr (.inl ⟨hr, b', rfl⟩)))⟩))
      · exact plain _ (by intro c h; cases h) rfl (by intro b h; cases h)
          (.inr (.inl ⟨hn, hp, .inr (.inr (.inr (.inr ⟨hr, t', rfl⟩)))⟩))
    · rcases hval with rfl | ⟨b, rfl, _, _⟩
      · exact plain _ (by intro c h; cases h) rfl (by intro b h; cases h)
          (.inr (.inr ⟨hn, hp, r1, r2, r3, .inl rfl⟩))
      · exact refOut b hv (by unfold isInline; rw [hna, hnl]; simp) hn hp r1 r2 r3
  · obtain ⟨n1, n2, n3, n4, n5, hn⟩ := hname
    obtain ⟨hm, _, hp, r1, r2, r3, v, hv, hval⟩ := hsh
    refine ⟨⟨n1, n2, n3, n4, n5⟩, v, hv, ?_⟩
    rcases hval with rfl | ⟨b, rfl, _⟩
    · exact plain _ (by intro c h; cases h) rfl (by intro b h; cases h)
        (.inr (.inr ⟨hn, hp, r1, r2, r3, .inl rfl⟩))
    · exact refOut b hv (by unfold isInline; rw [hm]; rfl) hn hp r1 r2 r3
  · obtain ⟨n1, n2, n3, n4, n5, hn⟩ := hname
    obtain ⟨hm, v, hv, hkind⟩ := hin
    refine ⟨⟨n1, n2, n3, n4, n5⟩, v, hv, ?_⟩
    -- the unset feature
    have noneCase : v = .none → isPrimitive K ts f.range = false →
        (PrimArrTy f.range ∨ f.range = STRING_ARRAY ∨ f.range = FS_ARRAY ∨ ∃ k : LK, f.range = k.range) →
        JVal K ts ld.cas ci' ld.heap isAnn f (E3c K ts H na ia ci' o f.name v) ∧
        ∀ b, E3c K ts H na ia ci' o f.name v = .ref b → RefKind K ld.heap L na f b := by
      intro e hp hr
      subst e
      obtain ⟨r1, r2, r3⟩ := collRange_ne hr
      exact plain _ (by intro c h; cases h) rfl (by intro b h; cases h)
        (.inr (.inr ⟨hn, hp, r1, r2, r3, .inl rfl⟩))
    -- arrays
    have arrCase : ∀ (P : Val → Prop), isArray K f.range = true → isPrimitive K ts f.range = false →
        (PrimArrTy f.range ∨ f.range = STRING_ARRAY ∨ f.range = FS_ARRAY) → InlArr H P v →
        (∀ cc ev, v = .ref cc → Xmi.slot H cc "elements" = some ev → P ev →
          ∀ ob : Obj, ld.heap[ia q.1 f.name]? = some ob → ob.xid = none → ob.ty = f.range →
            ob.slots = [("elements", elemsExp H na ev)] → SArr K ld.heap L na (ia q.1 f.name)) →
        JVal K ts ld.cas ci' ld.heap isAnn f (E3c K ts H na ia ci' o f.name v) ∧
        ∀ b, E3c K ts H na ia ci' o f.name v = .ref b → RefKind K ld.heap L na f b := by
      intro P harr hp hr hia hS
      have hi : isInline K f = true := by unfold isInline; rw [hm, harr]; rfl
      rcases hia with e | ⟨cc, ev, rfl, hev, hP⟩
      · exact noneCase e hp (by rcases hr with h | h | h; exact .inl h; exact .inr (.inl h); exact .inr (.inr (.inl h)))
      · obtain ⟨r1, r2, r3⟩ := collRange_ne (r := f.range)
          (by rcases hr with h | h | h; exact .inl h; exact .inr (.inl h); exact .inr (.inr (.inl h)))
        obtain ⟨ob, hob, hx, hty, hsl⟩ := x.inlArr hq ho ht hnd hf hi harr hr hv hev
        rw [CF.E3c_inl o f.name cc q.1 ((CF.inlineSlot_eq ht hnd hf).trans hi) hox]
        refine ⟨.inr (.inr ⟨hn, hp, r1, r2, r3, .inr ⟨_, rfl, fun _ hna => by rw [harr] at hna; cases hna⟩⟩), ?_⟩
        intro b hb
        cases hb
        exact .inr (.inl ⟨hi, harr, hS cc ev rfl hev hP ob hob hx hty hsl⟩)
    -- lists
    have listCase : ∀ (P : List Val → Prop) (k : LK), f.range = k.range → isArray K f.range = false →
        isList K f.range = true → isPrimitiveArray K f.range = false → isPrimitive K ts f.range = false →
        InlList H P v →
        (∀ cc hs, v = .ref cc → collectList H (H.length + 1) (.ref cc) = .ok hs → P hs →
          ∀ h ∈ hs, HeadGood L na k (headExp H na h)) →
        JVal K ts ld.cas ci' ld.heap isAnn f (E3c K ts H na ia ci' o f.name v) ∧
        ∀ b, E3c K ts H na ia ci' o f.name v = .ref b → RefKind K ld.heap L na f b := by
      intro P k hr harr hlist hpa hp hil hgood
      have hi : isInline K f = true := by unfold isInline; rw [hm, harr, hlist]; rfl
      rcases hil with e | ⟨cc, hs, rfl, hcol, hP⟩
      · exact noneCase e hp (.inr (.inr (.inr ⟨k, hr⟩)))
      · obtain ⟨r1, r2, r3⟩ := collRange_ne (r := f.range) (.inr (.inr (.inr ⟨k, hr⟩)))
        obtain ⟨hvl, hlen⟩ := x.inlList hq ho ht hnd hf hi harr hpa k hr hv hcol
        rw [CF.E3c_inl o f.name cc q.1 ((CF.inlineSlot_eq ht hnd hf).trans hi) hox]
        refine ⟨.inr (.inr ⟨hn, hp, r1, r2, r3, .inr ⟨_, rfl, fun _ _ => ⟨_, collectList_vlist hvl _ (by
          rw [List.length_map]; omega)⟩⟩⟩), ?_⟩
        intro b hb
        cases hb
        refine .inr (.inr ⟨hi, harr, k, _, hvl, by rw [List.length_map]; exact hlen, ?_⟩)
        intro w hw
        obtain ⟨h, hh, rfl⟩ := List.mem_map.mp hw
        exact hgood cc hs rfl hcol hP h hh
    rcases hkind with ⟨hr, rk, hia⟩ | ⟨hr, rk, hia⟩ | ⟨hr, rk, hia⟩ | ⟨hr, rk, hil⟩ | ⟨hr, rk, hil⟩ | ⟨hr, rk, hil⟩ |
      ⟨hr, rk, hil⟩
    · refine arrCase _ rk.arr rk.prim (.inl hr) hia (fun cc ev _ _ hP ob hob hx hty hsl => ?_)
      exact ⟨ob, _, hob, hx, hsl, .inr ⟨by rw [hty]; exact primArrTy_ne_fs hr, .inl (by rw [hty]; exact hr),
        by rw [hty]; exact rk.primArr, by rw [hty]; exact jprim_of_prim H na hP⟩⟩
    · refine arrCase _ rk.arr rk.prim (.inr (.inl hr)) hia (fun cc ev _ _ hP ob hob hx hty hsl => ?_)
      exact ⟨ob, _, hob, hx, hsl, .inr ⟨by rw [hty, hr]; decide, .inr (by rw [hty]; exact hr),
        by rw [hty]; exact rk.primArr, by rw [hty, hr]; exact jprim_of_str H na hP⟩⟩
    · refine arrCase _ rk.arr rk.prim (.inr (.inr hr)) hia (fun cc ev hvc hev hP ob hob hx hty hsl => ?_)
      obtain ⟨l, e', _⟩ := hP
      subst e'
      have hi : isInline K f = true := by unfold isInline; rw [hm, rk.arr]; rfl
      refine ⟨ob, _, hob, hx, hsl, .inl ⟨by rw [hty]; exact hr, by rw [← hr]; exact rk.primArr, _, rfl, ?_⟩⟩
      intro r hr'
      simp only [List.map_map] at hr'
      obtain ⟨b, hb, rfl⟩ := List.mem_map.mp hr'
      obtain ⟨q', hq', _, hy⟩ := x.target hq (b := b) ⟨o, t, ho, ht, .inr (.inl ⟨f, hf, hi, hr, cc, l.map some,
        by rw [← hvc]; exact hv, hev, List.mem_map_of_mem hb⟩)⟩
      exact ⟨q', hq', by simp only [Function.comp, Option.bind_some, hy, Option.map_some]⟩
    · refine listCase _ .int hr rk.arr rk.list rk.primArr rk.prim hil (fun cc hs _ _ hP h hh => ?_)
      obtain ⟨i, rfl⟩ := hP h hh
      exact ⟨i, rfl⟩
    · refine listCase _ .flt hr rk.arr rk.list rk.primArr rk.prim hil (fun cc hs _ _ hP h hh => ?_)
      obtain ⟨t', rfl, _⟩ := hP h hh
      exact ⟨t', rfl⟩
    · refine listCase _ .str hr rk.arr rk.list rk.primArr rk.prim hil (fun cc hs _ _ hP h hh => ?_)
      rcases hP.2 h hh with rfl | ⟨s, rfl⟩
      · exact .inl rfl
      · show headExp H na (.str s) = .none ∨ ∃ s', headExp H na (.str s) = .str s'
        simp only [headExp, strHead]
        split
        · exact .inl rfl
        · exact .inr ⟨s, rfl⟩
    · refine listCase _ .fs hr rk.arr rk.list rk.primArr rk.prim hil (fun cc hs hvc hcol hP h hh => ?_)
      obtain ⟨b, rfl, _⟩ := hP h hh
      have hi : isInline K f = true := by unfold isInline; rw [hm, rk.arr, rk.list]; rfl
      obtain ⟨q', hq', _, hy⟩ := x.target hq (b := b) ⟨o, t, ho, ht, .inr (.inr (.inl ⟨f, hf, hi, hr, cc, hs,
        by rw [← hvc]; exact hv, hcol, hh⟩))⟩
      exact ⟨q', hq', by simp only [headExp, hy]⟩

end

end Cassis.ChainC
