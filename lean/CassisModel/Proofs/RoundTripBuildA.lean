/-
Round trip, layer 3 (`buildCas`), part A: generic lemmas on association lists, `sortInts`, the index, `find?`.
-/
import CassisModel.Proofs.RoundTripDefs
import CassisModel.Proofs.Index

namespace Cassis.Xmi.RTB
open Cassis.TS Cassis.Traverse Cassis.Lex Cassis.Xmi

/-! ### association lists -/

theorem aget_set {β} (l : List (String × β)) (k n : String) (v : β) :
    alistGet? (alistSet l k v) n = if n = k then some v else alistGet? l n := by
  by_cases h : n = k
  · subst h; rw [if_pos rfl]; exact alistGet?_set_same l n v
  · rw [if_neg h]; exact alistGet?_set_other l k n v h

theorem aget_isSome_iff {β} (l : List (String × β)) (k : String) :
    (alistGet? l k).isSome = true ↔ k ∈ l.map (·.1) := by
  induction l with
  | nil => simp [alistGet?]
  | cons p rest ih =>
    obtain ⟨k', v'⟩ := p
    unfold alistGet?
    by_cases hk : k' = k
    · subst hk; simp
    · have hk' : ¬ k = k' := fun h => hk h.symm
      simp only [hk, if_false, List.map_cons, List.mem_cons, hk', false_or]
      exact ih

theorem aget_none_iff {β} (l : List (String × β)) (k : String) :
    alistGet? l k = none ↔ k ∉ l.map (·.1) := by
  rw [← aget_isSome_iff]
  cases alistGet? l k <;> simp

theorem aset_keys {β} (l : List (String × β)) (k : String) (v : β) (h : k ∈ l.map (·.1)) :
    (alistSet l k v).map (·.1) = l.map (·.1) := by
  induction l with
  | nil => simp at h
  | cons p rest ih =>
    obtain ⟨k', v'⟩ := p
    unfold alistSet
    by_cases hk : k' = k
    · subst hk; simp
    · have hk' : ¬ k = k' := fun h => hk h.symm
      simp only [List.map_cons, List.mem_cons, hk', false_or] at h
      simp only [hk, if_false, List.map_cons, ih h]

theorem aset_new {β} (l : List (String × β)) (k : String) (v : β) (h : k ∉ l.map (·.1)) :
    alistSet l k v = l ++ [(k, v)] := by
  induction l with
  | nil => rfl
  | cons p rest ih =>
    obtain ⟨k', v'⟩ := p
    simp only [List.map_cons, List.mem_cons, not_or] at h
    unfold alistSet
    have hk : ¬ k' = k := fun e => h.1 e.symm
    simp only [hk, if_false, ih h.2, List.cons_append]

theorem aget_append_last {β} (pre : List (String × β)) (k : String) (v : β) (h : k ∉ pre.map (·.1)) :
    alistGet? (pre ++ [(k, v)]) k = some v := by
  induction pre with
  | nil => simp [alistGet?]
  | cons p rest ih =>
    obtain ⟨k', v'⟩ := p
    simp only [List.map_cons, List.mem_cons, not_or] at h
    have hk : ¬ k' = k := fun e => h.1 e.symm
    simp only [List.cons_append]
    unfold alistGet?
    simp only [hk, if_false]
    exact ih h.2

theorem aset_append_last {β} (pre : List (String × β)) (k : String) (v v' : β) (h : k ∉ pre.map (·.1)) :
    alistSet (pre ++ [(k, v)]) k v' = pre ++ [(k, v')] := by
  induction pre with
  | nil => simp [alistSet]
  | cons p rest ih =>
    obtain ⟨k', w⟩ := p
    simp only [List.map_cons, List.mem_cons, not_or] at h
    have hk : ¬ k' = k := fun e => h.1 e.symm
    simp only [List.cons_append]
    unfold alistSet
    simp only [hk, if_false]
    rw [ih h.2]

/-! ### `sortInts` -/

theorem insertInt_comm (x y : Int) (l : List Int) :
    insertInt x (insertInt y l) = insertInt y (insertInt x l) := by
  induction l with
  | nil =>
    simp only [insertInt]
    by_cases h1 : x ≤ y <;> by_cases h2 : y ≤ x <;> simp only [h1, h2, if_true, if_false]
    · have : x = y := by omega
      subst this; rfl
    · omega
  | cons z zs ih =>
    simp only [insertInt]
    by_cases hxz : x ≤ z <;> by_cases hyz : y ≤ z <;> by_cases hxy : x ≤ y <;> by_cases hyx : y ≤ x <;>
      simp only [hxz, hyz, hxy, hyx, if_true, if_false, insertInt, ih] <;>
      first
      | rfl
      | omega
      | (have : x = y := by omega
         subst this; rfl)

theorem sortInts_cons (x : Int) (l : List Int) : sortInts (x :: l) = insertInt x (sortInts l) := rfl

theorem sortInts_perm {l l' : List Int} (h : l.Perm l') : sortInts l = sortInts l' := by
  induction h with
  | nil => rfl
  | cons x _ ih => rw [sortInts_cons, sortInts_cons, ih]
  | swap x y l => simp only [sortInts_cons]; exact insertInt_comm y x _
  | trans _ _ ih1 ih2 => exact ih1.trans ih2

theorem insertInt_perm (x : Int) (l : List Int) : (insertInt x l).Perm (x :: l) := by
  induction l with
  | nil => exact List.Perm.refl _
  | cons y ys ih =>
    unfold insertInt
    split
    · exact List.Perm.refl _
    · exact (List.Perm.cons y ih).trans (List.Perm.swap x y ys)

theorem sortInts_perm_self (l : List Int) : (sortInts l).Perm l := by
  induction l with
  | nil => exact List.Perm.refl _
  | cons x xs ih =>
    rw [sortInts_cons]
    exact (insertInt_perm x _).trans (List.Perm.cons x ih)

theorem sortInts_idem (l : List Int) : sortInts (sortInts l) = sortInts l :=
  sortInts_perm (sortInts_perm_self l)

theorem mem_sortInts {x : Int} {l : List Int} : x ∈ sortInts l ↔ x ∈ l :=
  (sortInts_perm_self l).mem_iff

/-! ### the index -/

theorem get_add (idx : Index.Idx) (ty ty' : String) (x : Index.Entry) :
    Index.get (Index.add idx ty x) ty' =
      if ty' = ty then Index.insert x (Index.get idx ty) else Index.get idx ty' := by
  unfold Index.get Index.add
  rw [aget_set]
  split <;> rfl

theorem all_aset (ty : String) (x : Index.Entry) : ∀ (idx : Index.Idx) (l' : List Index.Entry),
    l'.Perm (x :: (alistGet? idx ty).getD []) →
    (Index.all (alistSet idx ty l')).Perm (x :: Index.all idx) := by
  intro idx
  induction idx with
  | nil =>
    intro l' h
    simpa [alistSet, Index.all, alistGet?] using h
  | cons p rest ih =>
    intro l' h
    obtain ⟨k, l0⟩ := p
    unfold alistSet
    by_cases hk : k = ty
    · subst hk
      simp only [if_true]
      simp only [alistGet?, if_true, Option.getD_some] at h
      show (l' ++ Index.all rest).Perm (x :: (l0 ++ Index.all rest))
      exact List.Perm.append_right _ h
    · simp only [hk, if_false]
      simp only [alistGet?, hk, if_false] at h
      show (l0 ++ Index.all (alistSet rest ty l')).Perm (x :: (l0 ++ Index.all rest))
      exact (List.Perm.append_left l0 (ih l' h)).trans List.perm_middle

theorem all_add (idx : Index.Idx) (ty : String) (x : Index.Entry) :
    (Index.all (Index.add idx ty x)).Perm (x :: Index.all idx) := by
  unfold Index.add
  exact all_aset ty x idx _ (Index.insert_perm x _)

/-! ### lists -/

theorem set_get_self {α} {l : List α} {a : Nat} {o o1 : α} (h : l[a]? = some o) : (l.set a o1)[a]? = some o1 :=
  List.getElem?_set_self (List.getElem?_eq_some_iff.mp h).1

theorem set_get_ne {α} {l : List α} {a a' : Nat} {o1 : α} (h : a ≠ a') : (l.set a o1)[a']? = l[a']? :=
  List.getElem?_set_ne h

theorem find?_map_key {α β} [DecidableEq β] (f : α → β) (g : α → γ) (l : List α) (x : α) (hx : x ∈ l)
    (hn : (l.map f).Nodup) :
    (l.map (fun a => (f a, g a))).find? (fun q => q.1 == f x) = some (f x, g x) := by
  induction l with
  | nil => cases hx
  | cons y ys ih =>
    simp only [List.map_cons, List.nodup_cons] at hn
    simp only [List.map_cons, List.find?_cons]
    rcases List.mem_cons.mp hx with rfl | hx'
    · simp
    · have hne : f y ≠ f x := fun e => hn.1 (e ▸ List.mem_map.mpr ⟨x, hx', rfl⟩)
      have : (f y == f x) = false := by simpa using hne
      simp only [this]
      exact ih hx' hn.2

end Cassis.Xmi.RTB
