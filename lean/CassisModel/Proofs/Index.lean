/-
Helper lemmas about the sorted per-type index (`Model/Index.lean`).
-/
import CassisModel.Spec.Index

namespace Cassis.Index

theorem keyLe_beLeE {x y : Entry} (h : keyLe x y = true) : beLeE x y = true := by
  simp only [keyLe, beLeE, Bool.or_eq_true, Bool.and_eq_true, decide_eq_true_eq, beq_iff_eq] at *
  omega

theorem Sorted.sortedBE {l : List Entry} (h : Sorted l) : SortedBE l :=
  List.Pairwise.imp (fun hxy => keyLe_beLeE hxy) h

theorem keyLe_total (x y : Entry) : keyLe x y = true ∨ keyLe y x = true := by
  simp only [keyLe, Bool.or_eq_true, Bool.and_eq_true, decide_eq_true_eq, beq_iff_eq]
  omega

theorem keyLe_trans {x y z : Entry} (h1 : keyLe x y = true) (h2 : keyLe y z = true) : keyLe x z = true := by
  simp only [keyLe, Bool.or_eq_true, Bool.and_eq_true, decide_eq_true_eq, beq_iff_eq] at *
  omega

theorem mem_insert {x y : Entry} {l : List Entry} : y ∈ insert x l ↔ y = x ∨ y ∈ l := by
  induction l with
  | nil => simp [insert]
  | cons z zs ih =>
    unfold insert
    split
    · simp only [List.mem_cons, ih]
      constructor
      · rintro (h | h | h) <;> simp [h]
      · rintro (h | h | h) <;> simp [h]
    · simp [List.mem_cons]

theorem insert_sorted {x : Entry} {l : List Entry} (h : Sorted l) : Sorted (insert x l) := by
  induction l with
  | nil => simp [insert, Sorted]
  | cons z zs ih =>
    unfold Sorted at h
    rw [List.pairwise_cons] at h
    unfold insert
    split
    · rename_i hzx
      unfold Sorted
      rw [List.pairwise_cons]
      refine ⟨?_, ih h.2⟩
      intro y hy
      rcases mem_insert.mp hy with rfl | hy
      · exact hzx
      · exact h.1 y hy
    · rename_i hzx
      have hxz : keyLe x z = true := by
        rcases keyLe_total x z with h' | h'
        · exact h'
        · exact absurd h' hzx
      unfold Sorted
      rw [List.pairwise_cons]
      refine ⟨?_, ?_⟩
      · intro y hy
        rcases List.mem_cons.mp hy with rfl | hy
        · exact hxz
        · exact keyLe_trans hxz (h.1 y hy)
      · rw [List.pairwise_cons]; exact h

theorem insert_perm (x : Entry) (l : List Entry) : (insert x l).Perm (x :: l) := by
  induction l with
  | nil => simp [insert]
  | cons z zs ih =>
    unfold insert
    split
    · exact (List.Perm.cons z ih).trans (List.Perm.swap x z zs)
    · exact List.Perm.refl _

theorem erase_sorted {x : Entry} {l : List Entry} (h : Sorted l) : Sorted (l.erase x) :=
  List.Pairwise.sublist List.erase_sublist h

/-- The window lemma: on a list where `p` and `q` are downward closed (once false, false for all later
    elements), filtering the slice `l[#p : #q]` by `f` equals filtering `l`, provided `f → ¬p` and `f → q`. -/
theorem takeWhile_window_filter {α} (l : List α) (p q : α → Bool) (f : α → Bool)
    (hmono_p : ∀ l1 a l2, l = l1 ++ a :: l2 → p a = false → ∀ x ∈ l2, p x = false)
    (hmono_q : ∀ l1 a l2, l = l1 ++ a :: l2 → q a = false → ∀ x ∈ l2, q x = false)
    (hf_p : ∀ a ∈ l, f a = true → p a = false)
    (hf_q : ∀ a ∈ l, f a = true → q a = true) :
    ((l.take (l.takeWhile q).length).drop (l.takeWhile p).length).filter f = l.filter f := by
  induction l with
  | nil => simp
  | cons a l ih =>
    have hp' : ∀ l1 b l2, l = l1 ++ b :: l2 → p b = false → ∀ x ∈ l2, p x = false :=
      fun l1 b l2 h => hmono_p (a :: l1) b l2 (by simp [h])
    have hq' : ∀ l1 b l2, l = l1 ++ b :: l2 → q b = false → ∀ x ∈ l2, q x = false :=
      fun l1 b l2 h => hmono_q (a :: l1) b l2 (by simp [h])
    have ih' := ih hp' hq' (fun x hx => hf_p x (by simp [hx])) (fun x hx => hf_q x (by simp [hx]))
    by_cases hqa : q a = true
    · by_cases hpa : p a = true
      · have hfa : f a = false := by
          cases h : f a with
          | false => rfl
          | true => have := hf_p a (by simp) h; simp [this] at hpa
        simp [List.takeWhile, hqa, hpa, hfa, ih']
      · have hpa' : p a = false := by simpa using hpa
        have hall : ∀ x ∈ l, p x = false := hmono_p [] a l rfl hpa'
        have hl : l.takeWhile p = [] := by
          cases l with
          | nil => rfl
          | cons b l => simp [List.takeWhile, hall b (by simp)]
        simp [hl] at ih'
        simp [List.takeWhile, hqa, hpa', List.filter_cons, ih']
    · have hqa' : q a = false := by simpa using hqa
      have hall : ∀ x ∈ l, q x = false := hmono_q [] a l rfl hqa'
      have hfa : f a = false := by
        cases h : f a with
        | false => rfl
        | true => have := hf_q a (by simp) h; simp [this] at hqa
      have hfl : l.filter f = [] := by
        apply List.filter_eq_nil_iff.mpr
        intro x hx hfx
        have := hf_q x (by simp [hx]) hfx
        simp [hall x hx] at this
      simp [List.takeWhile, hqa', hfa, hfl]

/-- in a list sorted by `(b,e)`, a predicate that is antitone along `(b,e)` is downward closed -/
theorem sorted_downward {l : List Entry} (hs : SortedBE l) (p : Entry → Bool)
    (hanti : ∀ x y, beLeE x y = true → p x = false → p y = false) :
    ∀ l1 a l2, l = l1 ++ a :: l2 → p a = false → ∀ x ∈ l2, p x = false := by
  intro l1 a l2 hl hpa x hx
  subst hl
  unfold SortedBE at hs
  rw [List.pairwise_append] at hs
  have h2 := hs.2.1
  rw [List.pairwise_cons] at h2
  exact hanti a x (h2.1 x hx) hpa

theorem beLeE_iff (x y : Entry) : beLeE x y = true ↔ (x.b < y.b ∨ (x.b = y.b ∧ x.e ≤ y.e)) := by
  simp [beLeE]
theorem ltProbe2_iff (p : Int) (x : Entry) : ltProbe2 p x = true ↔ (x.b < p ∨ (x.b = p ∧ x.e < p)) := by
  simp [ltProbe2, beLt]
theorem leProbeInf_iff (q : Int) (x : Entry) : leProbeInf q x = true ↔ (x.b < q ∨ (x.b = q ∧ x.e ≤ q)) := by
  simp [leProbeInf, beLe]
theorem coveredP_iff (cb ce : Int) (x : Entry) : coveredP cb ce x = true ↔ (cb ≤ x.b ∧ x.e ≤ ce) := by
  simp [coveredP]
theorem bool_false_iff (b : Bool) : b = false ↔ ¬ (b = true) := by simp

theorem flatMap_congr' {α β} (l : List α) (f g : α → List β) (h : ∀ a ∈ l, f a = g a) :
    l.flatMap f = l.flatMap g := by
  induction l with
  | nil => rfl
  | cons a l ih =>
    simp only [List.flatMap_cons]
    rw [h a (by simp), ih (fun x hx => h x (by simp [hx]))]

end Cassis.Index
