/-
Soundness of the Boolean checkers of `Spec/RoundTripCheck.lean`: each `…B … = true` implies the corresponding
hypothesis of `xmi_roundtrip_flat` (`Spec/RoundTrip.lean`).
-/
import CassisModel.Spec.RoundTripCheck

namespace Cassis.Xmi
open Cassis.TS Cassis.Traverse

/-! ### `FlatFeat` / `FlatFs` -/

theorem sofaOkB_sound (c : Cas) (ci : Nat) (isAnn : Bool) (v : Val) (h : sofaOkB c ci isAnn v = true) :
    (∃ vn, v = .sofa ci vn ∧ (Cas.getViewRec c vn).isSome = true) ∨ (v = .none ∧ isAnn = false) := by
  cases v <;> simp [sofaOkB] at h
  · right; exact ⟨rfl, h⟩
  · left; obtain ⟨h1, h2⟩ := h; subst h1; exact ⟨_, rfl, h2⟩

theorem primOkB_sound (r : String) (v : Val) (h : primOkB r v = true) :
    ( v = .none
    ∨ (isIntRange r = true ∧ ∃ i : Int, v = .int i)
    ∨ (r = "uima.cas.String" ∧ ∃ s : String, v = .str s)
    ∨ (r = "uima.cas.Boolean" ∧ ∃ b : Bool, v = .bool b)
    ∨ ((r = "uima.cas.Float" ∨ r = "uima.cas.Double") ∧ ∃ t : String, v = .float t)) := by
  cases v <;> simp [primOkB] at h
  · exact .inl rfl
  · exact .inr (.inl ⟨h, _, rfl⟩)
  · exact .inr (.inr (.inl ⟨h, _, rfl⟩))
  · exact .inr (.inr (.inr (.inl ⟨h, _, rfl⟩)))
  · exact .inr (.inr (.inr (.inr ⟨h, _, rfl⟩)))

theorem refOkB_sound (hp : Heap) (v : Val) (h : refOkB hp v = true) :
    v = .none ∨ ∃ b : Nat, v = .ref b ∧ (xidOf hp b).isSome = true ∧ xidOf hp b ≠ some 0 := by
  cases v <;> simp [refOkB] at h
  · exact .inl rfl
  · exact .inr ⟨_, rfl, h.1, h.2⟩

theorem flatFeatB_sound (K : Consts) (ts : TypeSystem) (c : Cas) (ci : Nat) (hp : Heap) (isAnn : Bool) (o : Obj) (f : Feature)
    (h : flatFeatB K ts c ci hp isAnn o f = true) : FlatFeat K ts c ci hp isAnn o f := by
  unfold flatFeatB at h
  simp only [Bool.and_eq_true, decide_eq_true_eq] at h
  obtain ⟨⟨⟨⟨⟨⟨⟨⟨⟨⟨⟨h1, h2⟩, h3⟩, h4⟩, h5⟩, h6⟩, h7⟩, h8⟩, h9⟩, h10⟩, h11⟩, h12⟩ := h
  refine ⟨h1, h2, h3, h4, h5, h6, h7, h8, h9, h10, h11, ?_⟩
  cases hv : alistGet? o.slots f.name with
  | none => rw [hv] at h12; exact absurd h12 (by simp)
  | some v =>
    rw [hv] at h12
    refine ⟨v, rfl, ?_⟩
    simp only [Bool.or_eq_true, Bool.and_eq_true, decide_eq_true_eq, Bool.not_eq_true'] at h12
    rcases h12 with (⟨a, b⟩ | ⟨⟨a, b⟩, c'⟩) | ⟨⟨⟨⟨⟨⟨⟨a, b⟩, c'⟩, d⟩, e⟩, g⟩, i⟩, j⟩
    · exact .inl ⟨a, sofaOkB_sound _ _ _ _ b⟩
    · exact .inr (.inl ⟨a, b, primOkB_sound _ _ c'⟩)
    · exact .inr (.inr ⟨a, b, c', d, e, g, i, refOkB_sound _ _ j⟩)

theorem annOkB_sound (c : Cas) (ci : Nat) (o : Obj) (h : annOkB c ci o = true) :
    ∃ (vn : String) (v : View) (text : List Nat) (b e : Nat),
        alistGet? o.slots "sofa" = some (.sofa ci vn) ∧ Cas.getViewRec c vn = some v ∧ v.sofa.text = some text ∧
        alistGet? o.slots "begin" = some (.int b) ∧ alistGet? o.slots "end" = some (.int e) ∧
        b ≤ text.length ∧ e ≤ text.length := by
  unfold annOkB at h
  split at h
  · rename_i ci' vn b e hs hb he
    simp only [Bool.and_eq_true, decide_eq_true_eq] at h
    obtain ⟨hci, h⟩ := h
    subst hci
    split at h
    · rename_i v hv
      split at h
      · rename_i text ht
        simp only [Bool.and_eq_true, decide_eq_true_eq] at h
        obtain ⟨⟨⟨h0b, h0e⟩, hbl⟩, hel⟩ := h
        refine ⟨vn, v, text, b.toNat, e.toNat, hs, hv, ht, ?_, ?_, hbl, hel⟩
        · rw [hb, Int.toNat_of_nonneg h0b]
        · rw [he, Int.toNat_of_nonneg h0e]
      · exact absurd h (by simp)
    · exact absurd h (by simp)
  · exact absurd h (by simp)

theorem flatFsB_sound (K : Consts) (ts : TypeSystem) (c : Cas) (ci : Nat) (hp : Heap) (a : Nat)
    (h : flatFsB K ts c ci hp a = true) : FlatFs K ts c ci hp a := by
  unfold flatFsB at h
  cases ho : hp[a]? with
  | none => rw [ho] at h; exact absurd h (by simp)
  | some o =>
    rw [ho] at h
    simp only at h
    cases ht : find? ts o.ty with
    | none => rw [ht] at h; exact absurd h (by simp)
    | some t =>
      rw [ht] at h
      simp only [Bool.and_eq_true, decide_eq_true_eq, List.all_eq_true, Bool.or_eq_true, Bool.not_eq_true'] at h
      obtain ⟨⟨⟨⟨⟨⟨⟨⟨⟨⟨⟨⟨h1, h2⟩, h3⟩, h4⟩, h5⟩, h6⟩, h7⟩, h8⟩, h9⟩, h10⟩, h11⟩, h12⟩, h13⟩ := h
      refine ⟨o, t, ho, ht, h1, h2, h3, h4, h5, h6, h7, h8, h9, h10, h11, ?_, ?_⟩
      · intro f hf; exact flatFeatB_sound _ _ _ _ _ _ _ _ (h12 f hf)
      · intro hann
        rcases h13 with h13 | h13
        · rw [hann] at h13; exact absurd h13 (by simp)
        · exact annOkB_sound _ _ _ h13

/-! ### `RTWf` -/

theorem isScalarB_sound (cp : Nat) (h : isScalarB cp = true) : Offsets.IsScalar cp := by
  unfold isScalarB at h
  simp only [Bool.or_eq_true, Bool.and_eq_true, decide_eq_true_eq] at h
  exact h

/-- what `viewWfB` establishes for one view -/
theorem viewWfB_sound (nx : Int) (nv : String × View) (h : viewWfB nx nv = true) :
    nv.2.sofa.sofaID = nv.1 ∧ (nv.2.sofa.arr = .none ∧ nv.2.sofa.uri = none) ∧
    (∀ t, nv.2.sofa.text = some t → nv.2.sofa.conv = some (Offsets.table t)) ∧
    (nv.2.sofa.text = none → nv.2.sofa.conv = none) ∧
    (∀ t, nv.2.sofa.text = some t → ∀ cp ∈ t, Offsets.IsScalar cp) ∧
    (0 < nv.2.sofa.xid ∧ nv.2.sofa.xid < nx) := by
  unfold viewWfB at h
  simp only [Bool.and_eq_true, decide_eq_true_eq] at h
  obtain ⟨⟨⟨⟨⟨h1, h2⟩, h3⟩, h4⟩, h5⟩, h6⟩ := h
  refine ⟨h1, ⟨h2, h3⟩, ?_, ?_, ?_, h5, h6⟩
  · intro t ht
    rw [ht] at h4
    simp only [Bool.and_eq_true, decide_eq_true_eq] at h4
    exact h4.1
  · intro ht
    rw [ht] at h4
    simpa using h4
  · intro t ht cp hcp
    rw [ht] at h4
    simp only [Bool.and_eq_true, decide_eq_true_eq, List.all_eq_true] at h4
    exact isScalarB_sound cp (h4.2 cp hcp)

theorem idsOkB_sound (hp : Heap) (nx : Int) (h : idsOkB hp nx = true)
    (a : Nat) (ob : Obj) (x : Int) (ha : hp[a]? = some ob) (hx : ob.xid = some x) : 0 < x ∧ x < nx := by
  unfold idsOkB at h
  rw [List.all_eq_true] at h
  have := h ob (List.mem_of_getElem? ha)
  rw [hx] at this
  simpa using this

theorem rtWfB_sound (c : Cas) (hp : Heap) (h : rtWfB c hp = true) : RTWf c hp := by
  unfold rtWfB at h
  simp only [Bool.and_eq_true, decide_eq_true_eq, List.all_eq_true] at h
  obtain ⟨⟨⟨⟨⟨h1, h2⟩, h3⟩, h4⟩, h5⟩, h6⟩ := h
  exact
    { init_first := h1
      names := fun nv hnv => (viewWfB_sound _ nv (h5 nv hnv)).1
      names_nodup := h2
      sofa_ids_nodup := h3
      text_sofa := fun nv hnv => (viewWfB_sound _ nv (h5 nv hnv)).2.1
      conv := fun nv hnv => (viewWfB_sound _ nv (h5 nv hnv)).2.2.1
      conv_none := fun nv hnv => (viewWfB_sound _ nv (h5 nv hnv)).2.2.2.1
      scalar := fun nv hnv => (viewWfB_sound _ nv (h5 nv hnv)).2.2.2.2.1
      next_pos := h4
      ids_below := fun a ob x ha hx => (idsOkB_sound hp _ h6 a ob x ha hx).2
      sofa_ids := fun nv hnv => (viewWfB_sound _ nv (h5 nv hnv)).2.2.2.2.2
      ids_pos := fun a ob x ha hx => (idsOkB_sound hp _ h6 a ob x ha hx).1 }

/-! ### `NullOk`, `MembersOk`, `hmem`, `hdis` -/

theorem nullOkB_sound (ts : TypeSystem) (h : nullOkB ts = true) : NullOk ts := by
  unfold nullOkB at h
  cases ht : find? ts NULL_T with
  | none => rw [ht] at h; exact absurd h (by simp)
  | some t0 =>
    rw [ht] at h
    exact ⟨t0, ht, by simpa using h⟩

theorem entryOkB_sound (hp : Heap) (e : Index.Entry) (h : entryOkB hp e = true) :
    ∃ (o : Obj) (k : Index.Entry), hp[e.oid]? = some o ∧ Cas.entryOf o e.oid = .ok k := by
  unfold entryOkB at h
  cases ho : hp[e.oid]? with
  | none => rw [ho] at h; exact absurd h (by simp)
  | some o =>
    rw [ho] at h
    simp only at h
    cases hk : Cas.entryOf o e.oid with
    | error err => rw [hk] at h; exact absurd h (by simp)
    | ok k => exact ⟨o, k, rfl, hk⟩

theorem entryKind_eq (hp : Heap) (e : Index.Entry) (o : Obj) (k : Index.Entry)
    (ho : hp[e.oid]? = some o) (hk : Cas.entryOf o e.oid = .ok k) :
    entryKind hp e = some (o.ty, decide (k.b = Index.NONE_KEY)) := by
  unfold entryKind
  rw [ho]
  simp only
  rw [hk]

theorem viewMembersOkB_sound (hp : Heap) (nv : String × View) (h : viewMembersOkB hp nv = true) :
    (∀ e ∈ Index.all nv.2.idx, ∃ (o : Obj) (k : Index.Entry), hp[e.oid]? = some o ∧ Cas.entryOf o e.oid = .ok k) ∧
    (∀ e1 ∈ Index.all nv.2.idx, ∀ e2 ∈ Index.all nv.2.idx, ∀ (o1 o2 : Obj) (k1 k2 : Index.Entry),
      hp[e1.oid]? = some o1 → hp[e2.oid]? = some o2 → o1.ty = o2.ty →
      Cas.entryOf o1 e1.oid = .ok k1 → Cas.entryOf o2 e2.oid = .ok k2 →
      (k1.b = Index.NONE_KEY ↔ k2.b = Index.NONE_KEY)) := by
  unfold viewMembersOkB at h
  simp only [Bool.and_eq_true, List.all_eq_true] at h
  obtain ⟨h1, h2⟩ := h
  refine ⟨fun e he => entryOkB_sound hp e (h1 e he), ?_⟩
  intro e1 he1 e2 he2 o1 o2 k1 k2 ho1 ho2 hty hk1 hk2
  have m1 : (o1.ty, decide (k1.b = Index.NONE_KEY)) ∈ (Index.all nv.2.idx).filterMap (entryKind hp) :=
    List.mem_filterMap.mpr ⟨e1, he1, entryKind_eq hp e1 o1 k1 ho1 hk1⟩
  have m2 : (o2.ty, decide (k2.b = Index.NONE_KEY)) ∈ (Index.all nv.2.idx).filterMap (entryKind hp) :=
    List.mem_filterMap.mpr ⟨e2, he2, entryKind_eq hp e2 o2 k2 ho2 hk2⟩
  have := h2 _ m1 _ m2
  simp only [Bool.or_eq_true, Bool.not_eq_true', beq_eq_false_iff_ne, ne_eq, beq_iff_eq] at this
  rcases this with hne | heq
  · exact absurd hty hne
  · exact decide_eq_decide.mp heq

theorem membersOkB_sound (c : Cas) (hp : Heap) (h : membersOkB c hp = true) : MembersOk c hp := by
  unfold membersOkB at h
  rw [List.all_eq_true] at h
  intro nv hnv
  exact viewMembersOkB_sound hp nv (h nv hnv)

theorem memSofaB_sound (c : Cas) (hp : Heap) (h : memSofaB c hp = true) :
    ∀ nv ∈ c.views, ∀ e ∈ Index.all nv.2.idx, slot hp e.oid "sofa" ≠ some .none := by
  unfold memSofaB at h
  simp only [List.all_eq_true, decide_eq_true_eq] at h
  exact h

theorem disjointB_sound (allFs : List (Int × Nat)) (c : Cas) (h : disjointB allFs c = true) :
    ∀ q ∈ allFs, ∀ nv ∈ c.views, q.1 ≠ nv.2.sofa.xid := by
  unfold disjointB at h
  simp only [List.all_eq_true, decide_eq_true_eq] at h
  exact h

/-- every hypothesis of `xmi_roundtrip_flat`, from the test -/
theorem rtAppliesB_hyps (K : Consts) (ts : TypeSystem) (cass : List Cas) (ci : Nat) (hp : Heap)
    (h : rtAppliesB K ts cass ci hp = true) :
    ∃ (c : Cas) (doc : XDoc) (st : St),
      cass[ci]? = some c ∧ saveXmi K ts cass ci hp = .ok (doc, st) ∧ RTWf c hp ∧ NullOk ts ∧
      (∀ q ∈ st.allFs, FlatFs K ts c ci st.heap q.2) ∧
      (∀ q ∈ st.allFs, ∀ nv ∈ c.views, q.1 ≠ nv.2.sofa.xid) ∧
      (∀ nv ∈ c.views, ∀ e ∈ Index.all nv.2.idx, slot st.heap e.oid "sofa" ≠ some .none) ∧
      MembersOk c st.heap := by
  unfold rtAppliesB at h
  cases hc : cass[ci]? with
  | none => rw [hc] at h; exact absurd h (by simp)
  | some c =>
    rw [hc] at h
    simp only at h
    cases hs : saveXmi K ts cass ci hp with
    | error e => rw [hs] at h; exact absurd h (by simp)
    | ok r =>
      obtain ⟨doc, st⟩ := r
      rw [hs] at h
      simp only [Bool.and_eq_true, List.all_eq_true] at h
      obtain ⟨⟨⟨⟨⟨h1, h2⟩, h3⟩, h4⟩, h5⟩, h6⟩ := h
      exact ⟨c, doc, st, rfl, rfl, rtWfB_sound c hp h1, nullOkB_sound ts h2,
        fun q hq => flatFsB_sound K ts c ci st.heap q.2 (h3 q hq),
        disjointB_sound st.allFs c h4, memSofaB_sound c st.heap h5, membersOkB_sound c st.heap h6⟩

end Cassis.Xmi
