/-
The JSON reader and the reserved names: `parseFs` reads a key only through `renameReserved` (after stripping the
prefix `@` / `#`), and `renameReserved` is idempotent; so reading a structure gives the same result as reading the
structure with its keys renamed by `renKeyJ` (`self` ↦ `self_`, `type` ↦ `type_` behind the prefix) — `parseFs_ren`.

This is how the proofs of the reader layers, which work with the members under the *stored* feature names (`jmemFS`,
`flatJFsS`), apply to the written structure, whose keys are built from the `xmlName`s (`jmemF`, `flatJFs`):
`renJ (flatJFs …) = flatJFsS …` (`renJ_flatJFs`).
-/
import CassisModel.Proofs.RoundTripJsonParse

namespace Cassis.Json
open Cassis.TS Cassis.Traverse Cassis.Lex Cassis.Xmi

theorem renameReserved_eq : renameReserved = renRes := rfl

theorem renRes_idem (k : String) : renRes (renRes k) = renRes k := by
  unfold renRes
  by_cases h1 : k = "self"
  · subst h1; decide
  · by_cases h2 : k = "type"
    · subst h2; decide
    · simp [h1, h2]

/-- the key without its first character -/
def drop1 (k : String) : String := String.ofList (k.toList.drop 1)

/-- rename a key: behind the prefix `@` / `#`; keys with `%` are left alone -/
def renKeyJ (k : String) : String :=
  if k.startsWith "@" then "@" ++ renRes (drop1 k)
  else if k.startsWith "#" then "#" ++ renRes (drop1 k)
  else if k.startsWith "%" then k
  else renRes k

def renJ (j : JFs) : JFs := { j with feats := j.feats.map (fun p => (renKeyJ p.1, p.2)) }

theorem sw_excl (a b : Char) (hab : a ≠ b) (k : String) (h : k.startsWith (String.singleton a) = true) :
    k.startsWith (String.singleton b) = false := by
  simp at h ⊢
  cases hk : k.toList with
  | nil => rw [hk] at h; simp at h
  | cons c r => rw [hk] at h; simp at h ⊢; rw [← h]; exact fun e => hab e.symm

theorem sw_at_not_hash (k : String) (h : k.startsWith "@" = true) : k.startsWith "#" = false :=
  sw_excl '@' '#' (by decide) k h
theorem sw_hash_not_at (k : String) (h : k.startsWith "#" = true) : k.startsWith "@" = false :=
  sw_excl '#' '@' (by decide) k h

theorem renRes_plain (k : String) (h1 : k.startsWith "@" = false) (h2 : k.startsWith "#" = false)
    (h3 : k.startsWith "%" = false) :
    (renRes k).startsWith "@" = false ∧ (renRes k).startsWith "#" = false ∧ (renRes k).startsWith "%" = false := by
  unfold renRes
  by_cases e1 : k = "self"
  · subst e1; simp
  · by_cases e2 : k = "type"
    · subst e2; simp
    · simp only [beq_iff_eq, e1, e2, if_false]; exact ⟨h1, h2, h3⟩

/-- renaming keeps the kind of a key -/
theorem renKeyJ_kind (k : String) :
    (renKeyJ k).startsWith "@" = k.startsWith "@" ∧ (renKeyJ k).startsWith "#" = k.startsWith "#" ∧
    (renKeyJ k).startsWith "%" = k.startsWith "%" := by
  unfold renKeyJ
  by_cases h1 : k.startsWith "@" = true
  · have h3 : k.startsWith "%" = false := sw_excl '@' '%' (by decide) k h1
    rw [if_pos h1, h1, sw_at_not_hash k h1, h3]
    simp
  · have h1' : k.startsWith "@" = false := by simpa using h1
    rw [if_neg h1]
    by_cases h2 : k.startsWith "#" = true
    · have h3 : k.startsWith "%" = false := sw_excl '#' '%' (by decide) k h2
      rw [if_pos h2, h2, h1', h3]
      simp
    · have h2' : k.startsWith "#" = false := by simpa using h2
      rw [if_neg h2]
      by_cases h3 : k.startsWith "%" = true
      · rw [if_pos h3]; exact ⟨rfl, rfl, rfl⟩
      · have h3' : k.startsWith "%" = false := by simpa using h3
        rw [if_neg h3, h1', h2', h3']
        exact renRes_plain k h1' h2' h3'

theorem plainP_ren (p : String × JV) : plainP (renKeyJ p.1, p.2) = plainP p := by
  obtain ⟨h1, h2, h3⟩ := renKeyJ_kind p.1
  unfold plainP; rw [h1, h2, h3]
theorem refP_ren (p : String × JV) : refP (renKeyJ p.1, p.2) = refP p := (renKeyJ_kind p.1).1
theorem numP_ren (p : String × JV) : numP (renKeyJ p.1, p.2) = numP p := (renKeyJ_kind p.1).2.1

theorem filter_ren (P : String × JV → Bool) (hP : ∀ p, P (renKeyJ p.1, p.2) = P p) (l : List (String × JV)) :
    (l.map (fun p => (renKeyJ p.1, p.2))).filter P = (l.filter P).map (fun p => (renKeyJ p.1, p.2)) := by
  induction l with
  | nil => rfl
  | cons p rest ih =>
    rw [List.map_cons]
    by_cases h : P p = true
    · rw [List.filter_cons_of_pos (by rw [hP]; exact h), List.filter_cons_of_pos h, ih, List.map_cons]
    · rw [List.filter_cons_of_neg (by rw [hP]; exact h), List.filter_cons_of_neg h, ih]

/-- what the reader makes of a plain key -/
theorem key_plain (p : String × JV) (h : plainP p = true) :
    renameReserved (renKeyJ p.1) = renameReserved p.1 := by
  unfold plainP at h
  simp only [Bool.and_eq_true, Bool.not_eq_true'] at h
  unfold renKeyJ
  rw [h.1.1, h.1.2, h.2]
  simp only [Bool.false_eq_true, if_false]
  rw [renameReserved_eq, renRes_idem]

theorem key_ref (p : String × JV) (h : refP p = true) :
    renameReserved (String.ofList ((renKeyJ p.1).toList.drop 1)) = renameReserved (String.ofList (p.1.toList.drop 1)) := by
  unfold refP at h
  unfold renKeyJ
  rw [if_pos h, drop1_at, renameReserved_eq, renRes_idem]
  rfl

theorem key_num (p : String × JV) (h : numP p = true) :
    renameReserved (String.ofList ((renKeyJ p.1).toList.drop 1)) = renameReserved (String.ofList (p.1.toList.drop 1)) := by
  unfold numP at h
  unfold renKeyJ
  rw [if_neg (by rw [sw_hash_not_at p.1 h]; simp), if_pos h, drop1_hash, renameReserved_eq, renRes_idem]
  rfl

theorem kw_ren (l : List (String × JV)) (h : ∀ p ∈ l, plainP p = true) :
    (l.map (fun p => (renKeyJ p.1, p.2))).map kw = l.map kw := by
  rw [List.map_map]
  apply List.map_congr_left
  intro p hp
  show (renameReserved (renKeyJ p.1), valOfJV p.2) = (renameReserved p.1, valOfJV p.2)
  rw [key_plain p (h p hp)]

theorem parseNums_ren : ∀ (l : List (String × JV)), (∀ p ∈ l, numP p = true) →
    parseNums (l.map (fun p => (renKeyJ p.1, p.2))) = parseNums l
  | [], _ => rfl
  | p :: rest, h => by
    rw [List.map_cons]
    unfold parseNums
    dsimp only
    rw [parseNums_ren rest (fun q hq => h q (List.mem_cons_of_mem _ hq)), key_num p (h p List.mem_cons_self)]

theorem resolveRefs_ren (fss : List (Int × Val)) (addr : Nat) : ∀ (l : List (String × JV)) (acc : Heap × List Deferred),
    (∀ p ∈ l, refP p = true) →
    resolveRefs renameReserved fss addr (l.map (fun p => (renKeyJ p.1, p.2))) acc =
      resolveRefs renameReserved fss addr l acc
  | [], _, _ => rfl
  | p :: rest, (heap, deferred), h => by
    have ih := fun acc => resolveRefs_ren fss addr rest acc (fun q hq => h q (List.mem_cons_of_mem _ hq))
    rw [List.map_cons]
    unfold resolveRefs
    dsimp only
    rw [key_ref p (h p List.mem_cons_self)]
    cases (match p.2 with | .int i => some i | _ => none : Option Int).bind (lookup fss) with
    | none => dsimp only; rw [ih]
    | some tv =>
      dsimp only
      cases Heap.setSlot heap addr (renameReserved (String.ofList (p.1.toList.drop 1))) tv with
      | error e => rfl
      | ok heap' => dsimp only; rw [ih]

/-- **reading the renamed structure is reading the structure** -/
theorem parseFs_ren (K : Consts) (ts : TypeSystem) (tsIdx : Nat) (s : RState) (j : JFs) :
    parseFs K ts tsIdx s (renJ j) = parseFs K ts tsIdx s j := by
  have e1 : ∀ l : List (String × JV), (l.filter fun p => p.1.startsWith "#") = l.filter numP := fun _ => rfl
  have e2 : ∀ l : List (String × JV),
      (l.filter fun p => !(p.1.startsWith "@") && !(p.1.startsWith "#") && !(p.1.startsWith "%")) = l.filter plainP :=
    fun _ => rfl
  have e3 : ∀ l : List (String × JV), (l.filter fun p => p.1.startsWith "@") = l.filter refP := fun _ => rfl
  have e4 : ∀ l : List (String × JV), l.map (fun p => (renameReserved p.1, valOfJV p.2)) = l.map kw := fun _ => rfl
  unfold parseFs
  simp only [renJ, e1, e2, e3, e4]
  rw [filter_ren numP numP_ren, filter_ren plainP plainP_ren, filter_ren refP refP_ren,
    parseNums_ren _ (fun p hp => (List.mem_filter.mp hp).2), kw_ren _ (fun p hp => (List.mem_filter.mp hp).2)]
  simp only [resolveRefs_ren _ _ _ _ (fun p hp => (List.mem_filter.mp hp).2)]
  rfl

/-! ### the written structure and the structure under the stored names -/

theorem xmlName_noPrefix (f : Feature) (h : ResOk f) (h1 : f.name.startsWith "@" = false)
    (h2 : f.name.startsWith "#" = false) (h3 : f.name.startsWith "%" = false) :
    (xmlName f).startsWith "@" = false ∧ (xmlName f).startsWith "#" = false ∧ (xmlName f).startsWith "%" = false := by
  rcases xmlName_cases f h with ⟨_, hx⟩ | ⟨_, _, hx⟩ | ⟨_, _, hx⟩
  · rw [hx]; exact ⟨h1, h2, h3⟩
  · rw [hx]; simp
  · rw [hx]; simp

theorem renKeyJ_plain (k : String) (h1 : k.startsWith "@" = false) (h2 : k.startsWith "#" = false)
    (h3 : k.startsWith "%" = false) : renKeyJ k = renRes k := by
  unfold renKeyJ; rw [h1, h2, h3]; rfl

theorem renKeyJ_at (n : String) : renKeyJ ("@" ++ n) = "@" ++ renRes n := by
  unfold renKeyJ drop1; rw [if_pos (at_startsWith n), drop1_at]

theorem renKeyJ_hash (n : String) : renKeyJ ("#" ++ n) = "#" ++ renRes n := by
  unfold renKeyJ drop1
  rw [if_neg (by rw [hash_startsWith_at]; simp), if_pos (hash_startsWith n), drop1_hash]

/-- the members of one feature: renaming the written ones gives those under the stored name -/
theorem jmem_ren (cass : List Cas) (H : Heap) (isAnn : Bool) (o : Obj) (f : Feature) (v : Val)
    (h : ResOk f) (hs : f.name ≠ "self") (ht : f.name ≠ "type") (h1 : f.name.startsWith "@" = false)
    (h2 : f.name.startsWith "#" = false) (h3 : f.name.startsWith "%" = false) :
    (jmem cass H isAnn o (xmlName f) v).map (fun p => (renKeyJ p.1, p.2)) = jmem cass H isAnn o f.name v := by
  obtain ⟨x1, x2, x3⟩ := xmlName_noPrefix f h h1 h2 h3
  have hr := renRes_xmlName f h hs ht
  have k0 : renKeyJ (xmlName f) = f.name := by rw [renKeyJ_plain _ x1 x2 x3, hr]
  have k1 : renKeyJ ("@" ++ xmlName f) = "@" ++ f.name := by rw [renKeyJ_at, hr]
  have k2 : renKeyJ ("#" ++ xmlName f) = "#" ++ f.name := by rw [renKeyJ_hash, hr]
  cases v with
  | sofa ci vn =>
    unfold jmem
    dsimp only
    cases ((cass[ci]?).bind fun c => Cas.getViewRec c vn) with
    | none => rfl
    | some view => simp only [List.map_cons, List.map_nil, k1]
  | ref b =>
    unfold jmem
    dsimp only
    cases xidOf H b with
    | none => rfl
    | some x => simp only [List.map_cons, List.map_nil, k1]
  | float t =>
    unfold jmem
    dsimp only
    cases isSpecialFloat t with
    | true => simp only [if_true, List.map_cons, List.map_nil, k2]
    | false => simp only [Bool.false_eq_true, if_false, List.map_cons, List.map_nil, k0]
  | int i => simp only [jmem, List.map_cons, List.map_nil, k0, extInt_xmlName cass isAnn o f h]
  | str x => simp only [jmem, List.map_cons, List.map_nil, k0]
  | bool x => simp only [jmem, List.map_cons, List.map_nil, k0]
  | _ => rfl

theorem flatMap_map_congr {α β γ} (g : β → γ) (F G : α → List β) (G' : α → List γ) :
    ∀ (l : List α), (∀ x ∈ l, (F x).map g = G' x) → (l.flatMap F).map g = l.flatMap G'
  | [], _ => rfl
  | x :: l, h => by
    rw [List.flatMap_cons, List.flatMap_cons, List.map_append, h x List.mem_cons_self,
      flatMap_map_congr g F G G' l (fun y hy => h y (List.mem_cons_of_mem _ hy))]

/-- what the features of a structure of the fragment satisfy, as far as names are concerned -/
def NamesJ (t : TypeRec) : Prop :=
  ∀ f ∈ allFeatures t, ResOk f ∧ f.name ≠ "self" ∧ f.name ≠ "type" ∧ f.name.startsWith "@" = false ∧
    f.name.startsWith "#" = false ∧ f.name.startsWith "%" = false

theorem renJ_flatJFs (ts : TypeSystem) (cass : List Cas) (H : Heap) (x : Int) (o : Obj) (t : TypeRec)
    (hn : NamesJ t) : renJ (flatJFs ts cass H x o t) = flatJFsS ts cass H x o t := by
  unfold renJ flatJFs flatJFsS
  dsimp only
  congr 1
  apply flatMap_map_congr _ _ (jmemF cass H (isInstanceOf ts o.ty ANNOTATION) o)
  intro f hf
  obtain ⟨h, hs, ht, h1, h2, h3⟩ := hn f hf
  exact jmem_ren cass H _ o f _ h hs ht h1 h2 h3

/-- reading the written structure is reading the structure under the stored names -/
theorem parseFs_flatJFs (K : Consts) (ts : TypeSystem) (tsIdx : Nat) (s : RState) (cass : List Cas) (H : Heap)
    (x : Int) (o : Obj) (t : TypeRec) (hn : NamesJ t) :
    parseFs K ts tsIdx s (flatJFs ts cass H x o t) = parseFs K ts tsIdx s (flatJFsS ts cass H x o t) := by
  rw [← renJ_flatJFs ts cass H x o t hn, parseFs_ren]

theorem namesJ_of_flat {K : Consts} {ts : TypeSystem} {c : Cas} {ci : Nat} {H : Heap} {a : Nat} {o : Obj}
    {t : TypeRec} (hfl : FlatFs K ts c ci H a) (hj : JsonFs ts H a) (ho : H[a]? = some o)
    (ht : find? ts o.ty = some t) : NamesJ t := by
  obtain ⟨o_, t_, ho_, ht_, _, _, _, _, _, _, _, _, _, _, _, hfeat, _⟩ := hfl
  rw [ho] at ho_; cases ho_
  rw [ht] at ht_; cases ht_
  intro f hf
  obtain ⟨h1, h2, h3, _⟩ := (hj o t ho ht).2 f hf
  obtain ⟨hr, _, h5, h6, _⟩ := hfeat f hf
  exact ⟨hr, h6, h5, h1, h2, h3⟩

end Cassis.Json
