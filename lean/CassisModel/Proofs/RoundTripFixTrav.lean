/-
Fixpoint of the round trip, traversal part: a sufficient condition for `findAllFs` to succeed.
-/
import CassisModel.Proofs.Traverse
import CassisModel.Proofs.Reach

namespace Cassis.Traverse
open Cassis.TS

/-- the safety invariant: `step` cannot fail -/
def Safe (hp : Heap) (S : Nat → Prop) (s : St) : Prop :=
  s.heap = hp ∧ (∀ a ∈ s.openl, S a) ∧ (∀ q ∈ s.allFs, S q.2 ∧ xidOf hp q.2 = some q.1)

theorem step_safe (K : Consts) (ts : TypeSystem) (o : Opts) (hp : Heap) (S : Nat → Prop)
    (hS : ∀ a, S a → ∃ (ob : Obj) (x : Int) (t : TypeRec), hp[a]? = some ob ∧ ob.xid = some x ∧
      getType ts ob.ty = .ok t ∧
      ∀ allFs : List (Int × Nat), ∃ (ps : List Nat) (n : Nat),
        nodeSuccs K ts o hp allFs (hp.length + 1) a t = .ok (ps, n) ∧ ∀ b ∈ ps, S b)
    (hinj : ∀ a b, S a → S b → xidOf hp a = xidOf hp b → a = b)
    (s : St) (a : Nat) (rest : List Nat) (ho : s.openl = a :: rest) (safe : Safe hp S s) :
    ∃ s1, step K ts o (hp.length + 1) s a rest = .ok s1 ∧ Safe hp S s1 := by
  obtain ⟨hheap, hopen, hall⟩ := safe
  have hSa : S a := hopen a (by rw [ho]; exact List.mem_cons_self)
  have hrest : ∀ b ∈ rest, S b := fun b hb => hopen b (by rw [ho]; exact List.mem_cons_of_mem _ hb)
  obtain ⟨ob, x, t, hob, hx, hty, hsucc⟩ := hS a hSa
  have hxa : xidOf hp a = some x := by unfold xidOf; rw [hob]; exact hx
  unfold step
  simp only [bind, Except.bind, pure, Except.pure, throw, throwThe, MonadExceptOf.throw, hheap, hob, hx]
  split
  · exact ⟨_, rfl, rfl, hrest, hall⟩
  · cases hf : s.allFs.find? (fun p => p.1 == x) with
    | some q =>
      obtain ⟨x', b⟩ := q
      have hmem : (x', b) ∈ s.allFs := List.mem_of_find?_eq_some hf
      have hx' : x' = x := by
        have := List.find?_some hf
        simpa using this
      obtain ⟨hSb, hxb⟩ := hall _ hmem
      have hba : b = a := hinj b a hSb hSa (by rw [hxb, hxa, hx'])
      subst hba
      simp only [beq_self_eq_true, if_true]
      exact ⟨_, rfl, rfl, hrest, hall⟩
    | none =>
      obtain ⟨ps, n, hns, hps⟩ := hsucc (s.allFs ++ [(x, a)])
      simp only [hty, hns]
      refine ⟨_, rfl, rfl, ?_, ?_⟩
      · intro b hb
        rcases List.mem_append.mp hb with hb | hb
        · exact hrest b hb
        · exact hps b hb
      · intro q hq
        rcases List.mem_append.mp hq with hq | hq
        · exact hall q hq
        · have : q = (x, a) := by simpa using hq
          subst this
          exact ⟨hSa, hxa⟩

theorem run_safe (K : Consts) (ts : TypeSystem) (o : Opts) (hp : Heap) (S : Nat → Prop)
    (hS : ∀ a, S a → ∃ (ob : Obj) (x : Int) (t : TypeRec), hp[a]? = some ob ∧ ob.xid = some x ∧
      getType ts ob.ty = .ok t ∧
      ∀ allFs : List (Int × Nat), ∃ (ps : List Nat) (n : Nat),
        nodeSuccs K ts o hp allFs (hp.length + 1) a t = .ok (ps, n) ∧ ∀ b ∈ ps, S b)
    (hinj : ∀ a b, S a → S b → xidOf hp a = xidOf hp b → a = b)
    (seeds : Nat) (f : Nat) (s : St)
    (inv : Inv K ts o hp (hp.length + 1) seeds s)
    (hf : seeds + totalOut K ts o hp (hp.length + 1) ≤ f + s.pops) (safe : Safe hp S s) :
    ∃ s', run K ts o (hp.length + 1) f s = .ok s' ∧ Safe hp S s' := by
  induction f generalizing s with
  | zero =>
    unfold run
    have h1 := inv.count
    have h2 := inv.pot
    have : s.openl.length = 0 := by omega
    have : s.openl = [] := List.eq_nil_of_length_eq_zero this
    rw [this]
    exact ⟨s, rfl, safe⟩
  | succ f ih =>
    unfold run
    split
    · exact ⟨s, rfl, safe⟩
    · rename_i a rest ho
      obtain ⟨s1, hs, safe1⟩ := step_safe K ts o hp S hS hinj s a rest ho safe
      obtain ⟨inv1, hp1⟩ := inv_step K ts o hp _ seeds s a rest s1 ho inv hs
      rw [hs]
      exact ih s1 inv1 (by rw [hp1]; omega) safe1

/-- the traversal succeeds, without touching the heap, when the seeds lie in a set `S` of structures that all carry
    an id (pairwise different), have a registered type, whose successor computation never fails and stays inside `S` -/
theorem findAllFs_succeeds (K : Consts) (ts : TypeSystem) (o : Opts) (hp : Heap) (nx : Int) (seeds : List Nat)
    (S : Nat → Prop) (hseeds : ∀ a ∈ seeds, S a)
    (hS : ∀ a, S a → ∃ (ob : Obj) (x : Int) (t : TypeRec), hp[a]? = some ob ∧ ob.xid = some x ∧
      getType ts ob.ty = .ok t ∧
      ∀ allFs : List (Int × Nat), ∃ (ps : List Nat) (n : Nat),
        nodeSuccs K ts o hp allFs (hp.length + 1) a t = .ok (ps, n) ∧ ∀ b ∈ ps, S b)
    (hinj : ∀ a b, S a → S b → xidOf hp a = xidOf hp b → a = b) :
    ∃ st : St, findAllFs K ts o hp nx seeds = .ok st ∧ st.heap = hp ∧ ∀ q ∈ st.allFs, S q.2 := by
  obtain ⟨st, hrun, hheap, _, hall⟩ := run_safe K ts o hp S hS hinj seeds.length _
    { heap := hp, nextXid := nx, openl := seeds } (inv_init K ts o hp _ nx seeds) (Nat.le_refl _)
    ⟨rfl, hseeds, fun q hq => by cases hq⟩
  exact ⟨st, hrun, hheap, fun q hq => (hall q hq).1⟩

end Cassis.Traverse
