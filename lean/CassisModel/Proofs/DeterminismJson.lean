/-
Proofs for the JSON half of C14 (`Properties/C14Json.lean`).

`saveJson` renders the views (member ids) and the sofas (with the sofa byte arrays) *before* the traversal assigns the
missing ids, and the collected structures after it.  The second part is handled as for XMI (`findAllFs_idempotent`);
for the first part the writer is shown to read, of the heap, only slots, the type and id of the rendered structure and
the ids of the structures it refers to directly.
-/
import CassisModel.Spec.DeterminismJson
import CassisModel.Proofs.Determinism
import CassisModel.Proofs.RoundTripJsonWriter

namespace Cassis.Json.DetJ
open Cassis.TS Cassis.Traverse Cassis.Xmi

/-! ### the parts of `saveJson` -/

/-- one step of the sofa loop: the sofa byte array (if any), then the sofa -/
def sofaStep (K : Consts) (ts : TypeSystem) (cass : List Cas) (hp : Heap) (acc : List JFs) (p : String × View) :
    Except Err (List JFs) := do
  let arr ← match p.2.sofa.arr with
    | .ref a => do let e ← renderFs K ts cass hp a; pure [e]
    | _ => pure []
  pure (acc ++ arr ++ [renderSofa hp p.2.sofa])

/-- the view records of the document -/
def viewRec (hp : Heap) (p : String × View) : JView :=
  { name := p.2.sofa.sofaID, sofa := some p.2.sofa.xid,
    members := Xmi.sortInts ((Index.all p.2.idx).filterMap (fun e => idOf hp e.oid)) }

/-- the embedded types -/
def typesOf (K : Consts) (ts : TypeSystem) (mode : Mode) (heap : Heap) (sorted : List (Int × Nat)) :
    Option (List TypeRec) :=
  match mode with
  | .none => none
  | .full => some ((sortByName (getTypes K ts false)).filter (fun t => t.name != DOCUMENT_ANNOTATION))
  | .minimal =>
    let usedTypes := (sorted.filterMap (fun p => (heap[p.2]?).map (·.ty))).eraseDups
    let fuel := usedTypes.length + ((ts.types.map (fun t => 2 + 2 * (allFeatures t).length)).sum) + 1
    let names := closureStep K ts [] fuel usedTypes
    some ((sortByName (names.filterMap (find? ts))).filter (fun t => t.name != DOCUMENT_ANNOTATION))

theorem saveJson_eq (K : Consts) (ts : TypeSystem) (cass : List Cas) (ci : Nat) (c : Cas) (hp : Heap) (mode : Mode)
    (hc : cass[ci]? = some c) :
    saveJson K ts cass ci hp mode =
      (c.views.foldlM (sofaStep K ts cass hp) []).bind (fun sofaFss =>
        (findAllFs K ts { includeInlinable := true } hp c.nextXid (defaultSeeds c)).bind (fun st =>
          (renderAll K ts cass st.heap (sortById st.allFs)).bind (fun fsElems =>
            (renderTypes K (typesOf K ts mode st.heap (sortById st.allFs))).bind (fun decls =>
              .ok ({ types := decls, fss := sofaFss ++ fsElems, views := c.views.map (viewRec hp) }, st))))) := by
  unfold saveJson
  rw [hc]
  cases mode <;> rfl

/-! ### the writer reads the other CASes only to look up views by name -/

theorem renderFeature_cass (K : Consts) (ts : TypeSystem) (cass cass' : List Cas) (hv : SameViews cass cass')
    (hp : Heap) (a : Nat) (f : Feature) : renderFeature K ts cass hp a f = renderFeature K ts cass' hp a f := by
  unfold SameViews at hv
  unfold renderFeature
  simp only [hv]

theorem renderFeatures_cass (K : Consts) (ts : TypeSystem) (cass cass' : List Cas) (hv : SameViews cass cass')
    (hp : Heap) (a : Nat) (fs : List Feature) :
    renderFeatures K ts cass hp a fs = renderFeatures K ts cass' hp a fs := by
  induction fs with
  | nil => rfl
  | cons f fs ih =>
    unfold renderFeatures
    rw [renderFeature_cass K ts cass cass' hv, ih]

theorem renderFs_cass (K : Consts) (ts : TypeSystem) (cass cass' : List Cas) (hv : SameViews cass cass')
    (hp : Heap) (a : Nat) : renderFs K ts cass hp a = renderFs K ts cass' hp a := by
  unfold renderFs
  simp only [renderFeatures_cass K ts cass cass' hv]

theorem renderAll_cass (K : Consts) (ts : TypeSystem) (cass cass' : List Cas) (hv : SameViews cass cass')
    (hp : Heap) (l : List (Int × Nat)) : renderAll K ts cass hp l = renderAll K ts cass' hp l := by
  induction l with
  | nil => rfl
  | cons p ps ih =>
    unfold renderAll
    rw [renderFs_cass K ts cass cass' hv, ih]

theorem sofaStep_cass (K : Consts) (ts : TypeSystem) (cass cass' : List Cas) (hv : SameViews cass cass')
    (hp : Heap) : sofaStep K ts cass hp = sofaStep K ts cass' hp := by
  funext acc p
  unfold sofaStep
  simp only [renderFs_cass K ts cass cass' hv]

/-! ### what the writer reads of the heap -/

theorem stage1_heap (cass : List Cas) (hp hp' : Heap) (a : Nat) (f : Feature) (name : String) (v : Val)
    (hs : ∀ n, Xmi.slot hp' a n = Xmi.slot hp a n) : stage1 cass hp' a f name v = stage1 cass hp a f name v := by
  unfold stage1
  rw [hs]

/-- the first stage neither makes nor loses a reference -/
theorem stage1_ref (cass : List Cas) (hp : Heap) (a : Nat) (f : Feature) (name : String) (v w : Val)
    (h : stage1 cass hp a f name v = .ok w) (t : Nat) (hw : w = .ref t) : v = .ref t := by
  unfold stage1 at h
  simp only [pure, Except.pure, throw, throwThe, MonadExceptOf.throw] at h
  repeat' split at h
  all_goals first
    | (cases h; done)
    | (cases h; cases hw; done)
    | (cases h; exact hw)

theorem stage2_heap (K : Consts) (ts : TypeSystem) (cass : List Cas) (hp hp' : Heap) (f : Feature) (name : String)
    (v : Val) (hid : ∀ t, v = .ref t → idOf hp' t = idOf hp t) :
    stage2 K ts cass hp' f name v = stage2 K ts cass hp f name v := by
  cases v
  case ref t => unfold stage2; simp only [hid t rfl]
  all_goals rfl

theorem stage2_ok (K : Consts) (ts : TypeSystem) (cass : List Cas) (hp hp' : Heap) (f : Feature) (name : String)
    (v : Val) : (stage2 K ts cass hp' f name v).toBool = (stage2 K ts cass hp f name v).toBool := by
  cases v
  case ref t =>
    unfold stage2
    by_cases h1 : (f.range == "uima.cas.Double" || f.range == "uima.cas.Float") = true
    · rw [if_pos h1, if_pos h1]
    · rw [if_neg h1, if_neg h1]
      by_cases h2 : isPrimitive K ts f.range = true
      · rw [if_pos h2, if_pos h2]
      · rw [if_neg h2, if_neg h2]; rfl
  all_goals rfl

theorem getD_ref {x : Option Val} {t : Nat} (h : x.getD .none = .ref t) : x = some (.ref t) := by
  cases x with
  | none => cases h
  | some w => cases h; rfl

theorem renderFeature_heap (K : Consts) (ts : TypeSystem) (cass : List Cas) (hp hp' : Heap) (a : Nat) (f : Feature)
    (hs : ∀ n, Xmi.slot hp' a n = Xmi.slot hp a n)
    (hid : ∀ t, Xmi.slot hp a f.name = some (.ref t) → idOf hp' t = idOf hp t) :
    renderFeature K ts cass hp' a f = renderFeature K ts cass hp a f := by
  rw [renderFeature_eq, renderFeature_eq, hs f.name]
  by_cases h1 : (f.name == "xmiID" || f.name == "type") = true
  · rw [if_pos h1, if_pos h1]
  · rw [if_neg h1, if_neg h1]
    dsimp only
    by_cases h2 : ((Xmi.slot hp a f.name).getD Val.none == Val.none) = true
    · rw [if_pos h2, if_pos h2]
    · rw [if_neg h2, if_neg h2, stage1_heap cass hp hp' a f _ _ hs]
      cases h3 : stage1 cass hp a f (if f.reserved = true then String.ofList f.name.toList.dropLast else f.name)
          ((Xmi.slot hp a f.name).getD Val.none) with
      | error e => rfl
      | ok w =>
        show stage2 K ts cass hp' f _ w = stage2 K ts cass hp f _ w
        apply stage2_heap
        intro t hw
        exact hid t (getD_ref (stage1_ref cass hp a f _ _ w h3 t hw))

theorem renderFeature_ok (K : Consts) (ts : TypeSystem) (cass : List Cas) (hp hp' : Heap) (a : Nat) (f : Feature)
    (hs : ∀ n, Xmi.slot hp' a n = Xmi.slot hp a n) :
    (renderFeature K ts cass hp' a f).toBool = (renderFeature K ts cass hp a f).toBool := by
  rw [renderFeature_eq, renderFeature_eq, hs f.name]
  by_cases h1 : (f.name == "xmiID" || f.name == "type") = true
  · rw [if_pos h1, if_pos h1]
  · rw [if_neg h1, if_neg h1]
    dsimp only
    by_cases h2 : ((Xmi.slot hp a f.name).getD Val.none == Val.none) = true
    · rw [if_pos h2, if_pos h2]
    · rw [if_neg h2, if_neg h2, stage1_heap cass hp hp' a f _ _ hs]
      cases h3 : stage1 cass hp a f (if f.reserved = true then String.ofList f.name.toList.dropLast else f.name)
          ((Xmi.slot hp a f.name).getD Val.none) with
      | error e => rfl
      | ok w => exact stage2_ok K ts cass hp hp' f _ w

theorem renderFeatures_heap (K : Consts) (ts : TypeSystem) (cass : List Cas) (hp hp' : Heap) (a : Nat)
    (hs : ∀ n, Xmi.slot hp' a n = Xmi.slot hp a n)
    (hid : ∀ n t, Xmi.slot hp a n = some (.ref t) → idOf hp' t = idOf hp t) (fs : List Feature) :
    renderFeatures K ts cass hp' a fs = renderFeatures K ts cass hp a fs := by
  induction fs with
  | nil => rfl
  | cons f fs ih =>
    unfold renderFeatures
    rw [renderFeature_heap K ts cass hp hp' a f hs (hid f.name), ih]

theorem toBool_true {α} {x : Except Err α} (h : x.toBool = true) : ∃ y, x = .ok y := by
  cases x with
  | error e => cases h
  | ok y => exact ⟨y, rfl⟩

theorem ok_of_toBool {α β} {x : Except Err α} {x' : Except Err β} (h : x'.toBool = x.toBool) {y : α} (hx : x = .ok y) :
    ∃ y', x' = .ok y' := by
  apply toBool_true
  rw [h, hx]
  rfl

theorem renderFeatures_ok (K : Consts) (ts : TypeSystem) (cass : List Cas) (hp hp' : Heap) (a : Nat)
    (hs : ∀ n, Xmi.slot hp' a n = Xmi.slot hp a n) (fs : List Feature) :
    (renderFeatures K ts cass hp' a fs).toBool = (renderFeatures K ts cass hp a fs).toBool := by
  induction fs with
  | nil => rfl
  | cons f fs ih =>
    unfold renderFeatures
    have h1 := renderFeature_ok K ts cass hp hp' a f hs
    simp only [bind, Except.bind, pure, Except.pure]
    cases e1 : renderFeature K ts cass hp a f with
    | error e =>
      rw [e1] at h1
      cases e1' : renderFeature K ts cass hp' a f with
      | error e' => rfl
      | ok x' => rw [e1'] at h1; cases h1
    | ok x =>
      rw [e1] at h1
      cases e1' : renderFeature K ts cass hp' a f with
      | error e' => rw [e1'] at h1; cases h1
      | ok x' =>
        dsimp only
        cases e2 : renderFeatures K ts cass hp a fs with
        | error e =>
          rw [e2] at ih
          cases e2' : renderFeatures K ts cass hp' a fs with
          | error e' => rfl
          | ok y' => rw [e2'] at ih; cases ih
        | ok y =>
          rw [e2] at ih
          cases e2' : renderFeatures K ts cass hp' a fs with
          | error e' => rw [e2'] at ih; cases ih
          | ok y' => rfl

theorem arrayElements_heap (hp hp' : Heap) (ty : String) (v : Option Val)
    (hid : ∀ (l : List (Option Nat)) (t : Nat), v = some (.refs l) → some t ∈ l → idOf hp' t = idOf hp t) :
    arrayElements hp' ty v = arrayElements hp ty v := by
  cases v with
  | none => rfl
  | some ev =>
    cases ev
    case refs l =>
      cases l with
      | nil => rfl
      | cons x xs =>
        have hm : (x :: xs).map (refOf hp') = (x :: xs).map (refOf hp) := by
          apply List.map_congr_left
          intro r hr
          cases r with
          | none => rfl
          | some t => exact hid _ t rfl hr
        unfold arrayElements
        simp only [hm]
    all_goals rfl

theorem arrayElements_ok (hp hp' : Heap) (ty : String) (v : Option Val) :
    (arrayElements hp' ty v).toBool = (arrayElements hp ty v).toBool := by
  cases v with
  | none => rfl
  | some ev =>
    cases ev
    case refs l =>
      cases l with
      | nil => rfl
      | cons x xs =>
        unfold arrayElements
        dsimp only
        repeat' split
        all_goals rfl
    all_goals rfl

theorem slot_of_obj {hp hp' : Heap} {a : Nat} {o o' : Obj} (ho : hp[a]? = some o) (ho' : hp'[a]? = some o')
    (hsl : o'.slots = o.slots) (n : String) : Xmi.slot hp' a n = Xmi.slot hp a n := by
  unfold Xmi.slot Traverse.slot
  rw [ho, ho']
  simp only [Option.bind, hsl]

theorem renderFs_heap (K : Consts) (ts : TypeSystem) (cass : List Cas) (hp hp' : Heap) (a : Nat) (o o' : Obj)
    (ho : hp[a]? = some o) (ho' : hp'[a]? = some o') (hty : o'.ty = o.ty) (hsl : o'.slots = o.slots)
    (hx : o'.xid = o.xid)
    (hid1 : ∀ n t, Xmi.slot hp a n = some (.ref t) → idOf hp' t = idOf hp t)
    (hid2 : ∀ n (l : List (Option Nat)) (t : Nat), Xmi.slot hp a n = some (.refs l) → some t ∈ l →
      idOf hp' t = idOf hp t) :
    renderFs K ts cass hp' a = renderFs K ts cass hp a := by
  have hs := slot_of_obj ho ho' hsl
  unfold renderFs
  rw [ho, ho']
  simp only [bind, Except.bind, pure, Except.pure, hty, hx, hs]
  rw [arrayElements_heap hp hp' o.ty (Xmi.slot hp a "elements") (fun l t h => hid2 "elements" l t h)]
  simp only [renderFeatures_heap K ts cass hp hp' a hs hid1]

theorem renderFs_ok (K : Consts) (ts : TypeSystem) (cass : List Cas) (hp hp' : Heap) (a : Nat) (o o' : Obj)
    (ho : hp[a]? = some o) (ho' : hp'[a]? = some o') (hty : o'.ty = o.ty) (hsl : o'.slots = o.slots) :
    (renderFs K ts cass hp' a).toBool = (renderFs K ts cass hp a).toBool := by
  have hs := slot_of_obj ho ho' hsl
  unfold renderFs
  rw [ho, ho']
  simp only [hty, hs, bind, Except.bind, pure, Except.pure]
  by_cases h1 : (isPrimitiveArray K o.ty || o.ty == FS_ARRAY) = true
  · rw [if_pos h1, if_pos h1]
    have := arrayElements_ok hp hp' o.ty (Xmi.slot hp a "elements")
    cases e1 : arrayElements hp o.ty (Xmi.slot hp a "elements") with
    | error e =>
      rw [e1] at this
      cases e1' : arrayElements hp' o.ty (Xmi.slot hp a "elements") with
      | error e' => rfl
      | ok x' => rw [e1'] at this; cases this
    | ok x =>
      rw [e1] at this
      cases e1' : arrayElements hp' o.ty (Xmi.slot hp a "elements") with
      | error e' => rw [e1'] at this; cases this
      | ok x' => rfl
  · rw [if_neg h1, if_neg h1]
    cases getType ts o.ty with
    | error e => rfl
    | ok t =>
      dsimp only
      have := renderFeatures_ok K ts cass hp hp' a hs (allFeatures t)
      cases e1 : renderFeatures K ts cass hp a (allFeatures t) with
      | error e =>
        rw [e1] at this
        cases e1' : renderFeatures K ts cass hp' a (allFeatures t) with
        | error e' => rfl
        | ok x' => rw [e1'] at this; cases this
      | ok x =>
        rw [e1] at this
        cases e1' : renderFeatures K ts cass hp' a (allFeatures t) with
        | error e' => rw [e1'] at this; cases this
        | ok x' => rfl

theorem renderFs_none (K : Consts) (ts : TypeSystem) (cass : List Cas) (hp : Heap) (a : Nat) (h : hp[a]? = none) :
    renderFs K ts cass hp a = .error .attributeError := by
  unfold renderFs
  rw [h]
  rfl

/-- the pre-traversal rendering succeeds on a heap of the same shape as well -/
theorem renderFs_ok_shape (K : Consts) (ts : TypeSystem) (cass : List Cas) (hp hp' : Heap) (sh : SameShape hp hp')
    (a : Nat) : (renderFs K ts cass hp' a).toBool = (renderFs K ts cass hp a).toBool := by
  cases ho : hp[a]? with
  | none =>
    have : hp'[a]? = none := by
      apply List.getElem?_eq_none
      rw [sh.1]
      exact List.getElem?_eq_none_iff.mp ho
    rw [renderFs_none K ts cass hp a ho, renderFs_none K ts cass hp' a this]
  | some o =>
    obtain ⟨o', ho', hty, hsl, _⟩ := sh.2 a o ho
    exact renderFs_ok K ts cass hp hp' a o o' ho ho' hty hsl

theorem idOf_shape {hp hp' : Heap} (sh : SameShape hp hp') {t : Nat} (h : (xidOf hp t).isSome = true) :
    idOf hp' t = idOf hp t := by
  cases hx : xidOf hp t with
  | none => rw [hx] at h; cases h
  | some x =>
    have h1 : idOf hp t = some x := hx
    have h2 : idOf hp' t = some x := sh.xidOf hx
    rw [h1, h2]

theorem renderFs_shape_ids (K : Consts) (ts : TypeSystem) (cass : List Cas) (hp hp' : Heap) (sh : SameShape hp hp')
    (a : Nat) (hr : RefsHaveIds hp a) : renderFs K ts cass hp' a = renderFs K ts cass hp a := by
  obtain ⟨h0, hrest⟩ := hr
  cases ho : hp[a]? with
  | none =>
    unfold xidOf at h0
    rw [ho] at h0
    cases h0
  | some o =>
    obtain ⟨o', ho', hty, hsl, hxid⟩ := sh.2 a o ho
    have hx : o'.xid = o.xid := by
      apply hxid
      unfold xidOf at h0
      rw [ho] at h0
      intro hn
      simp only [Option.bind, hn] at h0
      cases h0
    exact renderFs_heap K ts cass hp hp' a o o' ho ho' hty hsl hx
      (fun n t h => idOf_shape sh ((hrest n).1 t h))
      (fun n l t h hm => idOf_shape sh ((hrest n).2 l t h hm))

theorem renderSofa_shape_ids (hp hp' : Heap) (sh : SameShape hp hp') (s : Sofa)
    (hr : ∀ a, s.arr = .ref a → (xidOf hp a).isSome = true) : renderSofa hp' s = renderSofa hp s := by
  unfold renderSofa
  cases hs : s.arr
  case ref a => simp only [idOf_shape sh (hr a hs)]
  all_goals rfl

theorem foldlM_congr_mem {α β : Type} (f g : β → α → Except Err β) (l : List α)
    (h : ∀ acc, ∀ p ∈ l, f acc p = g acc p) (init : β) : l.foldlM f init = l.foldlM g init := by
  induction l generalizing init with
  | nil => rfl
  | cons p ps ih =>
    rw [List.foldlM_cons, List.foldlM_cons, h init p List.mem_cons_self]
    cases g init p with
    | error e => rfl
    | ok b => exact ih (fun acc q hq => h acc q (List.mem_cons_of_mem _ hq)) b

theorem sofaStep_shape_ids (K : Consts) (ts : TypeSystem) (cass : List Cas) (hp hp' : Heap) (sh : SameShape hp hp')
    (p : String × View) (hr : ∀ a, p.2.sofa.arr = .ref a → RefsHaveIds hp a) (acc : List JFs) :
    sofaStep K ts cass hp' acc p = sofaStep K ts cass hp acc p := by
  unfold sofaStep
  rw [renderSofa_shape_ids hp hp' sh p.2.sofa (fun a h => (hr a h).1)]
  cases hs : p.2.sofa.arr
  case ref a => simp only [renderFs_shape_ids K ts cass hp hp' sh a (hr a hs)]
  all_goals rfl

theorem sofaStep_ok_shape (K : Consts) (ts : TypeSystem) (cass : List Cas) (hp hp' : Heap) (sh : SameShape hp hp')
    (p : String × View) (acc acc' : List JFs) :
    (sofaStep K ts cass hp' acc' p).toBool = (sofaStep K ts cass hp acc p).toBool := by
  unfold sofaStep
  cases hs : p.2.sofa.arr
  case ref a =>
    have := renderFs_ok_shape K ts cass hp hp' sh a
    simp only [bind, Except.bind, pure, Except.pure]
    cases e1 : renderFs K ts cass hp a with
    | error e =>
      rw [e1] at this
      cases e1' : renderFs K ts cass hp' a with
      | error e' => rfl
      | ok x' => rw [e1'] at this; cases this
    | ok x =>
      rw [e1] at this
      cases e1' : renderFs K ts cass hp' a with
      | error e' => rw [e1'] at this; cases this
      | ok x' => rfl
  all_goals rfl

theorem sofaFold_ok_shape (K : Consts) (ts : TypeSystem) (cass : List Cas) (hp hp' : Heap) (sh : SameShape hp hp')
    (l : List (String × View)) : ∀ (acc acc' r : List JFs), l.foldlM (sofaStep K ts cass hp) acc = .ok r →
      ∃ r', l.foldlM (sofaStep K ts cass hp') acc' = .ok r' := by
  induction l with
  | nil =>
    intro acc acc' r h
    exact ⟨acc', rfl⟩
  | cons p ps ih =>
    intro acc acc' r h
    rw [List.foldlM_cons] at h ⊢
    cases e1 : sofaStep K ts cass hp acc p with
    | error e => rw [e1] at h; cases h
    | ok x =>
      rw [e1] at h
      obtain ⟨x', e1'⟩ := ok_of_toBool (sofaStep_ok_shape K ts cass hp hp' sh p acc acc') e1
      rw [e1']
      exact ih x x' r h

/-- the number of entries a view contributes to the sofa part of the document -/
def sofaCount (p : String × View) : Nat := match p.2.sofa.arr with | .ref _ => 2 | _ => 1

theorem sofaStep_length (K : Consts) (ts : TypeSystem) (cass : List Cas) (hp : Heap) (p : String × View)
    (acc x : List JFs) (h : sofaStep K ts cass hp acc p = .ok x) : x.length = acc.length + sofaCount p := by
  unfold sofaStep at h
  unfold sofaCount
  simp only [bind, Except.bind, pure, Except.pure] at h
  cases hs : p.2.sofa.arr
  case ref a =>
    rw [hs] at h
    dsimp only at h
    cases e1 : renderFs K ts cass hp a with
    | error e => rw [e1] at h; cases h
    | ok y =>
      rw [e1] at h
      cases h
      simp only [List.length_append, List.length_cons, List.length_nil]
  all_goals
    rw [hs] at h
    cases h
    simp only [List.length_append, List.length_cons, List.length_nil]

theorem sofaFold_length (K : Consts) (ts : TypeSystem) (cass : List Cas) (hp : Heap) (l : List (String × View)) :
    ∀ (acc r : List JFs), l.foldlM (sofaStep K ts cass hp) acc = .ok r →
      r.length = acc.length + (l.map sofaCount).sum := by
  induction l with
  | nil => intro acc r h; cases h; rfl
  | cons p ps ih =>
    intro acc r h
    rw [List.foldlM_cons] at h
    cases e1 : sofaStep K ts cass hp acc p with
    | error e => rw [e1] at h; cases h
    | ok x =>
      rw [e1] at h
      have h1 := sofaStep_length K ts cass hp p acc x e1
      have h2 := ih x r h
      rw [h2, h1, List.map_cons, List.sum_cons]
      omega

/-! ### the theorems -/

theorem bindE_ok {α β} {x : Except Err α} {f : α → Except Err β} {b : β} (h : x.bind f = .ok b) :
    ∃ a, x = .ok a ∧ f a = .ok b := by
  cases x with
  | error e => cases h
  | ok a => exact ⟨a, rfl, h⟩

theorem saveJson_heap_frame_aux (K : Consts) (ts : TypeSystem) (cass : List Cas) (ci : Nat) (hp : Heap) (mode : Mode)
    (doc : JDoc) (st : Traverse.St) (h : saveJson K ts cass ci hp mode = .ok (doc, st)) :
    st.heap.length = hp.length ∧
    ∀ (a : Nat) (ob : Obj), hp[a]? = some ob → ∃ ob' : Obj, st.heap[a]? = some ob' ∧ ob'.ty = ob.ty ∧
      ob'.slots = ob.slots ∧ (ob.xid ≠ none → ob'.xid = ob.xid) := by
  cases hc : cass[ci]? with
  | none => unfold saveJson at h; rw [hc] at h; cases h
  | some c =>
    rw [saveJson_eq K ts cass ci c hp mode hc] at h
    obtain ⟨sofaFss, _, h⟩ := bindE_ok h
    obtain ⟨st0, hst, h⟩ := bindE_ok h
    obtain ⟨fsElems, _, h⟩ := bindE_ok h
    obtain ⟨decls, _, h⟩ := bindE_ok h
    cases h
    exact findAllFs_heap_frame_aux K ts _ hp c.nextXid (defaultSeeds c) st hst

/-- the common part: the state after a second serialisation, and the parts of the second document that are
    rendered after the traversal -/
theorem saveJson_again (K : Consts) (ts : TypeSystem) (cass : List Cas) (ci : Nat) (hp : Heap) (mode : Mode) (c : Cas)
    (doc : JDoc) (st : Traverse.St) (hc : cass[ci]? = some c) (hnx : 0 < c.nextXid)
    (hb : Traverse.IdsBelow hp c.nextXid) (h : saveJson K ts cass ci hp mode = .ok (doc, st)) :
    ∃ (sofaFss fsElems : List JFs) (decls : Option (List JType)),
      c.views.foldlM (sofaStep K ts cass hp) [] = .ok sofaFss ∧
      doc = { types := decls, fss := sofaFss ++ fsElems, views := c.views.map (viewRec hp) } ∧
      SameShape hp st.heap ∧
      ∀ sofaFss', c.views.foldlM (sofaStep K ts cass st.heap) [] = .ok sofaFss' →
        ∃ st' : Traverse.St,
          saveJson K ts (cass.set ci { c with nextXid := st.nextXid }) ci st.heap mode =
            .ok ({ types := decls, fss := sofaFss' ++ fsElems, views := c.views.map (viewRec st.heap) }, st') ∧
          st'.heap = st.heap ∧ st'.nextXid = st.nextXid ∧ st'.allFs = st.allFs := by
  have hlt : ci < cass.length := (List.getElem?_eq_some_iff.mp hc).1
  rw [saveJson_eq K ts cass ci c hp mode hc] at h
  obtain ⟨sofaFss, hsf, h⟩ := bindE_ok h
  obtain ⟨st0, hst, h⟩ := bindE_ok h
  obtain ⟨fsElems, hr, h⟩ := bindE_ok h
  obtain ⟨decls, hd, h⟩ := bindE_ok h
  cases h
  refine ⟨sofaFss, fsElems, decls, hsf, rfl, findAllFs_heap_frame_aux K ts _ hp c.nextXid (defaultSeeds c) st hst, ?_⟩
  intro sofaFss' hsf'
  obtain ⟨st', h2, ha, hh, hn⟩ :=
    Traverse.findAllFs_idempotent_aux K ts _ hp c.nextXid (Traverse.defaultSeeds c) st hnx hb hst
  refine ⟨st', ?_, hh, hn, ha⟩
  rw [saveJson_eq K ts _ ci { c with nextXid := st.nextXid } st.heap mode (List.getElem?_set_self hlt)]
  have hseeds : Traverse.defaultSeeds { c with nextXid := st.nextXid } = Traverse.defaultSeeds c := rfl
  rw [hseeds]
  dsimp only
  rw [sofaStep_cass K ts _ cass (sameViews_set cass ci c hc _), hsf']
  show (findAllFs K ts { includeInlinable := true } st.heap st.nextXid (defaultSeeds c)).bind _ = _
  rw [h2]
  show (renderAll K ts _ st'.heap (sortById st'.allFs)).bind _ = _
  rw [hh, ha, renderAll_cass K ts _ cass (sameViews_set cass ci c hc _), hr]
  show (renderTypes K (typesOf K ts mode st.heap (sortById st.allFs))).bind _ = _
  rw [hd]
  rfl

theorem filterMap_congr_mem {α β} (f g : α → Option β) (l : List α) (h : ∀ x ∈ l, f x = g x) :
    l.filterMap f = l.filterMap g := by
  induction l with
  | nil => rfl
  | cons x xs ih =>
    rw [List.filterMap_cons, List.filterMap_cons, h x List.mem_cons_self,
      ih (fun y hy => h y (List.mem_cons_of_mem _ hy))]

theorem viewRec_shape_ids (hp hp' : Heap) (sh : SameShape hp hp') (p : String × View)
    (hids : ∀ e ∈ Index.all p.2.idx, (xidOf hp e.oid).isSome = true) : viewRec hp' p = viewRec hp p := by
  unfold viewRec
  congr 2
  apply filterMap_congr_mem
  intro e he
  exact idOf_shape sh (hids e he)

theorem saveJson_idempotent_aux (K : Consts) (ts : TypeSystem) (cass : List Cas) (ci : Nat) (hp : Heap) (mode : Mode)
    (c : Cas) (doc : JDoc) (st : Traverse.St) (hc : cass[ci]? = some c) (hnx : 0 < c.nextXid)
    (hb : Traverse.IdsBelow hp c.nextXid)
    (hids : ∀ nv ∈ c.views, ∀ e ∈ Index.all nv.2.idx, (xidOf hp e.oid).isSome = true)
    (harr : ∀ nv ∈ c.views, ∀ a, nv.2.sofa.arr = .ref a → RefsHaveIds hp a)
    (h : saveJson K ts cass ci hp mode = .ok (doc, st)) :
    ∃ st' : Traverse.St,
      saveJson K ts (cass.set ci { c with nextXid := st.nextXid }) ci st.heap mode = .ok (doc, st') ∧
      st'.heap = st.heap ∧ st'.nextXid = st.nextXid ∧ st'.allFs = st.allFs := by
  obtain ⟨sofaFss, fsElems, decls, hsf, hdoc, sh, hagain⟩ := saveJson_again K ts cass ci hp mode c doc st hc hnx hb h
  have hsf' : c.views.foldlM (sofaStep K ts cass st.heap) [] = .ok sofaFss := by
    rw [foldlM_congr_mem _ (sofaStep K ts cass hp) c.views
      (fun acc p hp' => sofaStep_shape_ids K ts cass hp st.heap sh p (harr p hp') acc)]
    exact hsf
  obtain ⟨st', h2, r⟩ := hagain sofaFss hsf'
  refine ⟨st', ?_, r⟩
  rw [h2, hdoc]
  congr 3
  apply List.map_congr_left
  intro p hp'
  exact viewRec_shape_ids hp st.heap sh p (hids p hp')

theorem set_set_same {α} (l : List α) (i : Nat) (x y : α) : (l.set i x).set i y = l.set i y := by
  induction l generalizing i with
  | nil => rfl
  | cons a l ih =>
    cases i with
    | zero => rfl
    | succ i => simp only [List.set_cons_succ, ih]

theorem saveJson_second_aux (K : Consts) (ts : TypeSystem) (cass : List Cas) (ci : Nat) (hp : Heap) (mode : Mode)
    (c : Cas) (doc : JDoc) (st : Traverse.St) (hc : cass[ci]? = some c) (hnx : 0 < c.nextXid)
    (hb : Traverse.IdsBelow hp c.nextXid) (h : saveJson K ts cass ci hp mode = .ok (doc, st)) :
    ∃ (doc' : JDoc) (st' : Traverse.St),
      saveJson K ts (cass.set ci { c with nextXid := st.nextXid }) ci st.heap mode = .ok (doc', st') ∧
      st'.heap = st.heap ∧ st'.nextXid = st.nextXid ∧ st'.allFs = st.allFs ∧
      doc'.types = doc.types ∧
      (∃ pre pre' elems : List JFs, doc.fss = pre ++ elems ∧ doc'.fss = pre' ++ elems ∧ pre'.length = pre.length) ∧
      doc'.views.map (fun v => (v.name, v.sofa)) = doc.views.map (fun v => (v.name, v.sofa)) ∧
      ∃ st'' : Traverse.St,
        saveJson K ts ((cass.set ci { c with nextXid := st.nextXid }).set ci
            { c with nextXid := st'.nextXid }) ci st'.heap mode = .ok (doc', st'') ∧
        st''.heap = st'.heap ∧ st''.nextXid = st'.nextXid ∧ st''.allFs = st'.allFs := by
  obtain ⟨sofaFss, fsElems, decls, hsf, hdoc, sh, hagain⟩ := saveJson_again K ts cass ci hp mode c doc st hc hnx hb h
  obtain ⟨sofaFss', hsf'⟩ := sofaFold_ok_shape K ts cass hp st.heap sh c.views [] [] sofaFss hsf
  obtain ⟨st', h2, r1, r2, r3⟩ := hagain sofaFss' hsf'
  refine ⟨_, st', h2, r1, r2, r3, ?_, ?_, ?_, ?_⟩
  · rw [hdoc]
  · refine ⟨sofaFss, sofaFss', fsElems, by rw [hdoc], rfl, ?_⟩
    rw [sofaFold_length K ts cass hp c.views [] sofaFss hsf, sofaFold_length K ts cass st.heap c.views [] sofaFss' hsf']
  · rw [hdoc]
    simp only [List.map_map]
    rfl
  · refine ⟨st', ?_, rfl, rfl, rfl⟩
    rw [set_set_same, r1, r2]
    exact h2

end Cassis.Json.DetJ
