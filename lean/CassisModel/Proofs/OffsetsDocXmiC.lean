/-
C03, written-document level, XMI: every attribute a feature contributes carries the name the feature is written under,
and a feature contributes at most one attribute — so nothing else is written under the names `begin` / `end`.
-/
import CassisModel.Proofs.OffsetsDocFinal

namespace Cassis.Xmi
open Cassis.Offsets Cassis.TS Cassis.OffsetsDoc Cassis.Lex

/-- first stage of `renderFeature`: offsets of annotations are mapped -/
def xstage1 (cass : List Cas) (hp : Heap) (a : Nat) (isAnn : Bool) (name : String) (v : Val) : Except Err Val :=
  if isAnn && (name == "begin" || name == "end") then
    match slot hp a "sofa" with
    | some (.sofa ci vn) =>
      match (cass[ci]?).bind (fun c => Cas.getViewRec c vn) with
      | some view =>
        match v with
        | .int i => pure (Val.int (if i < 0 then i else (Offsets.pythonToExternal view.sofa.conv i.toNat : Nat)))
        | other => pure other
      | none => throw .attributeError
    | _ => throw .attributeError
  else pure v

abbrev XOut := List (String × String) × List (String × Option String)

/-! the branches of the second stage, by the kind of the range (the text of the model) -/

def xStrArr (hp : Heap) (name : String) (v : Val) : Except Err XOut :=
  match v with
  | .ref arr =>
    match slot hp arr "elements" with
    | some (.strs []) | some (.refs []) => return ([(name, "")], [])
    | some (.strs l) => return ([], l.map (fun e => (name, normTxt e)))
    | some .none | none => return ([], [])
    | _ => throw .typeError
  | _ => throw .attributeError

def xStrList (hp : Heap) (fuel : Nat) (name : String) (v : Val) : Except Err XOut := do
  let heads ← collectList hp fuel v
  let kids ← heads.mapM (fun h => match h with
    | .str s => pure (name, normTxt (some s))
    | .none => pure (name, (none : Option String))
    | _ => throw Err.typeError)
  return ([], kids)

def xPrimArr (hp : Heap) (f : Feature) (name : String) (v : Val) : Except Err XOut :=
  match v with
  | .ref arr =>
    match slot hp arr "elements" with
    | some .none | none => return ([], [])
    | some ev => do
      let s ← showPrimArray f.range ev
      return ([(name, s)], [])
  | _ => throw .attributeError

def xPrimList (hp : Heap) (fuel : Nat) (name : String) (v : Val) : Except Err XOut := do
  let heads ← collectList hp fuel v
  let toks ← heads.mapM showPrim
  return ([(name, joinSp toks)], [])

def xFsArr (hp : Heap) (name : String) (v : Val) : Except Err XOut :=
  match v with
  | .ref arr =>
    match slot hp arr "elements" with
    | some .none | none => return ([], [])
    | some (.refs l) => do
      let ids ← refIds hp l
      return ([(name, joinSp ids)], [])
    | _ => throw .typeError
  | _ => throw .attributeError

def xFsList (hp : Heap) (fuel : Nat) (name : String) (v : Val) : Except Err XOut := do
  let heads ← collectList hp fuel v
  let ids ← heads.mapM (fun h => match h with
    | .ref t => xidStr hp t
    | _ => throw Err.attributeError)
  return ([(name, joinSp ids)], [])

def xSofa (cass : List Cas) (hp : Heap) (name : String) (v : Val) : Except Err XOut :=
  match v with
  | .sofa ci vn =>
    match (cass[ci]?).bind (fun c => Cas.getViewRec c vn) with
    | some view => return ([(name, showInt view.sofa.xid)], [])
    | none => throw .attributeError
  | .ref t => do let x ← xidStr hp t; return ([(name, x)], [])
  | _ => throw .attributeError

def xBool (name : String) (v : Val) : Except Err XOut :=
  match v with
  | .bool b => return ([(name, showBool b)], [])
  | .int i => return ([(name, showBool (i != 0))], [])
  | _ => return ([(name, "true")], [])

def xFloat (name : String) (v : Val) : Except Err XOut :=
  match v with
  | .float t => return ([(name, t)], [])
  | _ => throw .typeError

def xPrim (name : String) (v : Val) : Except Err XOut := do
  let s ← showPrim v
  return ([(name, s)], [])

def xRef (cass : List Cas) (hp : Heap) (name : String) (v : Val) : Except Err XOut :=
  match v with
  | .ref t => do let x ← xidStr hp t; return ([(name, x)], [])
  | .sofa ci vn =>
    match (cass[ci]?).bind (fun c => Cas.getViewRec c vn) with
    | some view => return ([(name, showInt view.sofa.xid)], [])
    | none => throw .attributeError
  | _ => throw .attributeError

/-- second stage: the attributes and child elements, by the kind of the range -/
def xstage2 (K : Consts) (ts : TypeSystem) (cass : List Cas) (hp : Heap) (f : Feature) (name : String) (v : Val) :
    Except Err XOut :=
  let multi := f.multi.getD false
  let fuel := hp.length + 1
  if isInstanceOf ts f.range STRING_ARRAY && !multi then xStrArr hp name v
  else if isInstanceOf ts f.range STRING_LIST && !multi then xStrList hp fuel name v
  else if isPrimitiveArray K f.range && !multi then xPrimArr hp f name v
  else if isPrimitiveList K f.range && !multi then xPrimList hp fuel name v
  else if f.range == FS_ARRAY && !multi then xFsArr hp name v
  else if f.range == FS_LIST && !multi then xFsList hp fuel name v
  else if name == "sofa" then xSofa cass hp name v
  else if f.range == "uima.cas.Boolean" then xBool name v
  else if f.range == "uima.cas.Double" || f.range == "uima.cas.Float" then xFloat name v
  else if isPrimitive K ts f.range then xPrim name v
  else xRef cass hp name v

theorem renderFeature_eq_x (K : Consts) (ts : TypeSystem) (cass : List Cas) (hp : Heap) (a : Nat) (isAnn : Bool)
    (f : Feature) :
    renderFeature K ts cass hp a isAnn f =
      if f.name == "xmiID" || f.name == "type" then .ok ([], [])
      else
        let name := if f.reserved then String.ofList f.name.toList.dropLast else f.name
        let v := (slot hp a f.name).getD .none
        if v == .none then .ok ([], [])
        else (xstage1 cass hp a isAnn name v).bind (xstage2 K ts cass hp f name) := by
  unfold renderFeature xstage1
  by_cases h1 : (f.name == "xmiID" || f.name == "type") = true
  · rw [if_pos h1, if_pos h1]; rfl
  · rw [if_neg h1, if_neg h1]
    dsimp only
    generalize (if f.reserved = true then String.ofList f.name.toList.dropLast else f.name) = name
    generalize (slot hp a f.name).getD Val.none = v
    by_cases h2 : (v == Val.none) = true
    · rw [if_pos h2, if_pos h2]; rfl
    · rw [if_neg h2, if_neg h2]
      by_cases h3 : (isAnn && (name == "begin" || name == "end")) = true
      · rw [if_pos h3, if_pos h3]
        cases slot hp a "sofa" with
        | none => rfl
        | some w =>
          cases w <;> try rfl
          rename_i ci vn
          dsimp only
          cases (cass[ci]?.bind fun c => c.getViewRec vn) with
          | none => rfl
          | some view => cases v <;> rfl
      · rw [if_neg h3, if_neg h3]; rfl

theorem bindM_ok {α β} {x : Except Err α} {f : α → Except Err β} {r : β} (h : x >>= f = .ok r) :
    ∃ a, x = .ok a ∧ f a = .ok r := by
  cases x with
  | error e => cases h
  | ok a => exact ⟨a, rfl, h⟩

/-- at most one attribute, under the given name -/
def OneAttr (name : String) (r : Except Err XOut) : Prop :=
  ∀ out, r = .ok out → out.1 = [] ∨ ∃ s, out.1 = [(name, s)]

set_option hygiene false in
macro "fin_attr0" : tactic => `(tactic|
  first
    | (cases h; done)
    | (cases h; exact Or.inl rfl)
    | (cases h; exact Or.inr ⟨_, rfl⟩))

set_option hygiene false in
macro "fin_attr" : tactic => `(tactic|
  first
    | fin_attr0
    | (obtain ⟨_, _, h⟩ := bindM_ok h; fin_attr0)
    | (obtain ⟨_, _, h⟩ := bindM_ok h; obtain ⟨_, _, h⟩ := bindM_ok h; fin_attr0))

theorem xStrArr_one (hp : Heap) (name : String) (v : Val) : OneAttr name (xStrArr hp name v) := by
  intro out h
  unfold xStrArr at h
  split at h
  · split at h <;> fin_attr
  · fin_attr

theorem xStrList_one (hp : Heap) (fuel : Nat) (name : String) (v : Val) : OneAttr name (xStrList hp fuel name v) := by
  intro out h
  unfold xStrList at h
  fin_attr

theorem xPrimArr_one (hp : Heap) (f : Feature) (name : String) (v : Val) : OneAttr name (xPrimArr hp f name v) := by
  intro out h
  unfold xPrimArr at h
  split at h
  · split at h <;> fin_attr
  · fin_attr

theorem xPrimList_one (hp : Heap) (fuel : Nat) (name : String) (v : Val) : OneAttr name (xPrimList hp fuel name v) := by
  intro out h
  unfold xPrimList at h
  fin_attr

theorem xFsArr_one (hp : Heap) (name : String) (v : Val) : OneAttr name (xFsArr hp name v) := by
  intro out h
  unfold xFsArr at h
  split at h
  · split at h <;> fin_attr
  · fin_attr

theorem xFsList_one (hp : Heap) (fuel : Nat) (name : String) (v : Val) : OneAttr name (xFsList hp fuel name v) := by
  intro out h
  unfold xFsList at h
  fin_attr

theorem xSofa_one (cass : List Cas) (hp : Heap) (name : String) (v : Val) : OneAttr name (xSofa cass hp name v) := by
  intro out h
  unfold xSofa at h
  split at h
  · split at h <;> fin_attr
  · fin_attr
  · fin_attr

theorem xBool_one (name : String) (v : Val) : OneAttr name (xBool name v) := by
  intro out h
  unfold xBool at h
  split at h <;> fin_attr

theorem xFloat_one (name : String) (v : Val) : OneAttr name (xFloat name v) := by
  intro out h
  unfold xFloat at h
  split at h <;> fin_attr

theorem xPrim_one (name : String) (v : Val) : OneAttr name (xPrim name v) := by
  intro out h
  unfold xPrim at h
  fin_attr

theorem xRef_one (cass : List Cas) (hp : Heap) (name : String) (v : Val) : OneAttr name (xRef cass hp name v) := by
  intro out h
  unfold xRef at h
  split at h
  · fin_attr
  · split at h <;> fin_attr
  · fin_attr

theorem xstage2_attrs (K : Consts) (ts : TypeSystem) (cass : List Cas) (hp : Heap) (f : Feature) (name : String) (v : Val) :
    OneAttr name (xstage2 K ts cass hp f name v) := by
  unfold xstage2
  dsimp only
  split
  · exact xStrArr_one _ _ _
  split
  · exact xStrList_one _ _ _ _
  split
  · exact xPrimArr_one _ _ _ _
  split
  · exact xPrimList_one _ _ _ _
  split
  · exact xFsArr_one _ _ _
  split
  · exact xFsList_one _ _ _ _
  split
  · exact xSofa_one _ _ _ _
  split
  · exact xBool_one _ _
  split
  · exact xFloat_one _ _
  split
  · exact xPrim_one _ _
  · exact xRef_one _ _ _ _

/-- a feature contributes at most one attribute, under the name it is written with -/
theorem renderFeature_attr_aux (K : Consts) (ts : TypeSystem) (cass : List Cas) (hp : Heap) (a : Nat) (isAnn : Bool)
    (f : Feature) (out : XOut) (h : renderFeature K ts cass hp a isAnn f = .ok out) :
    out.1 = [] ∨ ∃ s, out.1 = [(xmlName f, s)] := by
  rw [renderFeature_eq_x] at h
  split at h
  · cases h; exact Or.inl rfl
  · dsimp only at h
    split at h
    · cases h; exact Or.inl rfl
    · rw [xmlName_def] at h
      obtain ⟨v', _, h2⟩ := bind_ok' h
      exact xstage2_attrs K ts cass hp f _ _ out h2

/-- **nothing else is carried**: every attribute named `begin` / `end` of the element written for a collected structure
    is the single attribute that a feature of its type, written under that name, contributes -/
theorem saveXmi_offset_attrs_aux (K : Consts) (ts : TypeSystem) (cass : List Cas) (ci : Nat) (hp : Heap)
    (doc : XDoc) (st : Traverse.St) (hs : saveXmi K ts cass ci hp = .ok (doc, st))
    (p : Int × Nat) (hp' : p ∈ st.allFs) (o : Obj) (ho : hp[p.2]? = some o)
    (hna : isPrimitiveArray K o.ty = false) (hnf : o.ty ≠ FS_ARRAY) (tr : TypeRec) (htr : getType ts o.ty = .ok tr) :
    ∃ e ∈ doc, attr e ID = some (showInt p.1) ∧ e.ty = o.ty ∧ (∀ n, slot st.heap p.2 n = alistGet? o.slots n) ∧
      ∀ m ∈ e.attrs, (m.1 = "begin" ∨ m.1 = "end") →
        ∃ f ∈ allFeatures tr, xmlName f = m.1 ∧ ∃ out,
          renderFeature K ts cass st.heap p.2 (isInstanceOf ts o.ty ANNOTATION) f = .ok out ∧ out.1 = [m] := by
  obtain ⟨e, he, hid, hty, hslots, _, m2⟩ := saveXmi_element_aux hs hp' ho hna hnf htr
  refine ⟨e, he, hid, hty, hslots, ?_⟩
  intro m hm hn
  rcases m2 m hm with hidm | ⟨f, hf, out, hout, hmo⟩
  · exfalso
    rw [hidm] at hn
    revert hn
    decide
  · rcases renderFeature_attr_aux K ts cass st.heap p.2 _ f out hout with h0 | ⟨s, h1⟩
    · rw [h0] at hmo; cases hmo
    · rw [h1] at hmo
      have : m = (xmlName f, s) := List.mem_singleton.mp hmo
      subst this
      exact ⟨f, hf, rfl, out, hout, h1⟩

end Cassis.Xmi
