/-
C16 with collections, layer TY (first pass): the typing invariant `TI` (`ChainCollTyped.lean`) is kept by `pass1`,
provided the types of the structure elements have pairwise distinct feature names.
-/
import CassisModel.Proofs.ChainCollTypedPost

namespace Cassis.ChainC
open Cassis.TS Cassis.Traverse Cassis.Xmi Cassis.Lex

variable {K : Consts}

theorem bind_ok {α β} {x : Except Err α} {f : α → Except Err β} {r : β} (h : x.bind f = .ok r) :
    ∃ a, x = .ok a ∧ f a = .ok r := by
  cases x with
  | error e => cases h
  | ok a => exact ⟨a, rfl, h⟩

/-! ### type lookup -/

theorem find?_name {ts : TypeSystem} {n : String} {t : TypeRec} (h : find? ts n = some t) : t.name = n := by
  unfold find? at h
  have := List.find?_some h
  exact eq_of_beq this

/-- the record `getType` returns is the one registered under its name -/
theorem getType_find_name {ts : TypeSystem} {n : String} {t : TypeRec} (h : getType ts n = .ok t) :
    find? ts t.name = some t := by
  unfold getType at h
  cases hf : find? ts n with
  | some t' =>
    rw [hf] at h
    cases h
    rw [find?_name hf]
    exact hf
  | none =>
    rw [hf] at h
    dsimp only at h
    split at h
    · cases h
    · split at h
      · rename_i t' hfil
        cases h
        have hmem : t ∈ ts.types.filter (fun u => shortName u.name == n) := by rw [hfil]; exact List.mem_singleton.mpr rfl
        have hmt : t ∈ ts.types := (List.mem_filter.mp hmem).1
        have hsn : (shortName t.name == n) = true := (List.mem_filter.mp hmem).2
        unfold find?
        cases hf2 : ts.types.find? (fun u => u.name == t.name) with
        | none =>
          have := List.find?_eq_none.mp hf2 t hmt
          simp at this
        | some t2 =>
          have h2b : (t2.name == t.name) = true := by
            have := List.find?_some hf2
            exact this
          have h2n : t2.name = t.name := eq_of_beq h2b
          have h2m : t2 ∈ ts.types := List.mem_of_find?_eq_some hf2
          have : t2 ∈ ts.types.filter (fun u => shortName u.name == n) :=
            List.mem_filter.mpr ⟨h2m, by rw [h2n]; exact hsn⟩
          rw [hfil] at this
          rw [List.mem_singleton.mp this]
      · cases h

theorem getType_name {ts : TypeSystem} {n : String} {t : TypeRec} (h : getType ts n = .ok t) :
    getType ts t.name = .ok t := by
  unfold getType
  rw [getType_find_name h]

/-! ### keyword arguments without references -/

def NoRef (l : List (String × Val)) : Prop := ∀ p ∈ l, ∀ b : Nat, p.2 ≠ .ref b

theorem mem_alistSet {β} : ∀ (l : List (String × β)) (k : String) (v : β) (x : String × β),
    x ∈ alistSet l k v → x = (k, v) ∨ x ∈ l
  | [], k, v, x, h => by
    unfold alistSet at h
    exact .inl (List.mem_singleton.mp h)
  | (k', v') :: rest, k, v, x, h => by
    unfold alistSet at h
    split at h
    · rcases List.mem_cons.mp h with h | h
      · exact .inl h
      · exact .inr (List.mem_cons_of_mem _ h)
    · rcases List.mem_cons.mp h with h | h
      · exact .inr (h ▸ List.mem_cons_self)
      · rcases mem_alistSet rest k v x h with h | h
        · exact .inl h
        · exact .inr (List.mem_cons_of_mem _ h)

theorem NoRef.set {l : List (String × Val)} (h : NoRef l) (k : String) {v : Val} (hv : ∀ b, v ≠ .ref b) :
    NoRef (alistSet l k v) := by
  intro p hp b
  rcases mem_alistSet l k v p hp with rfl | hp
  · exact hv b
  · exact h p hp b

theorem NoRef.foldKids (kids : List (String × List (Option String))) :
    ∀ l : List (String × Val), NoRef l → NoRef (kids.foldl (fun acc p => alistSet acc p.1 (Val.strs p.2)) l) := by
  induction kids with
  | nil => intro l h; exact h
  | cons p kids ih =>
    intro l h
    rw [List.foldl_cons]
    exact ih _ (h.set p.1 (fun b hb => by cases hb))

theorem NoRef.rename {l : List (String × Val)} (h : NoRef l) (o n : String) :
    NoRef (l.map (fun p => if (p.1 == o) = true then (n, p.2) else p)) := by
  intro p hp b
  obtain ⟨q, hq, rfl⟩ := List.mem_map.mp hp
  split
  · exact h q hq b
  · exact h q hq b

theorem NoRef.get {l : List (String × Val)} (h : NoRef l) {n : String} {b : Nat}
    (hg : alistGet? l n = some (.ref b)) : False :=
  h _ (rtp_alistGet?_mem l n _ hg) b rfl

/-! ### the constructor -/

theorem alistGet?_mapSelf {β} (g : String → β) : ∀ (l : List String) (m : String) (v : β),
    alistGet? (l.map (fun n => (n, g n))) m = some v → v = g m
  | [], _, _, h => by cases h
  | n :: l, m, v, h => by
    rw [List.map_cons] at h
    unfold alistGet? at h
    split at h
    · rename_i hk
      cases h
      rw [hk]
    · exact alistGet?_mapSelf g l m v h

theorem construct_slots {t : TypeRec} {tsIdx : Nat} {xid : Option Int} {kw : List (String × Val)} {o : Obj}
    (h : construct t tsIdx xid kw = .ok o) :
    o.ty = t.name ∧ o.xid = xid ∧ ∀ n v, alistGet? o.slots n = some v → v = (alistGet? kw n).getD .none := by
  unfold construct at h
  dsimp only at h
  split at h
  · cases h
  · cases h
    exact ⟨rfl, rfl, fun n v hv => alistGet?_mapSelf _ _ n v hv⟩

/-! ### the loop over the child elements -/

theorem foldlM_inv {α β} (f : β → α → Except Err β) (Inv : β → Prop)
    (hstep : ∀ b a b', f b a = .ok b' → Inv b → Inv b') :
    ∀ (l : List α) (b r : β), l.foldlM f b = .ok r → Inv b → Inv r
  | [], b, r, h, hb => by
    rw [List.foldlM_nil] at h
    cases h
    exact hb
  | a :: l, b, r, h, hb => by
    rw [List.foldlM_cons] at h
    obtain ⟨b1, h1, h2⟩ := bind_ok h
    exact foldlM_inv f Inv hstep l b1 r h2 (hstep b a b1 h1 hb)

/-- the state of the loop over the child elements: objects without id have been appended, and every reference among
    the keyword arguments points to a collection object made for the range of the feature of that name -/
def KInv (K : Consts) (t : TypeRec) (hp : Heap) (acc : Heap × List (String × Val)) : Prop :=
  (∃ ext : List Obj, acc.1 = hp ++ ext ∧ ∀ ob ∈ ext, ob.xid = none) ∧
  ∀ (n : String) (b : Nat), alistGet? acc.2 n = some (.ref b) → ∃ f : Feature, getFeature t n = some f ∧
    NewFor K acc.1 f.range b

theorem KInv.step {t : TypeRec} {hp : Heap} {acc : Heap × List (String × Val)} (h : KInv K t hp acc)
    (nodes : List Obj) (hn : ∀ ob ∈ nodes, ob.xid = none) (pn : String) (f : Feature) (hf : getFeature t pn = some f)
    (l : Nat) (hl : NewFor K (acc.1 ++ nodes) f.range l) :
    KInv K t hp (acc.1 ++ nodes, alistSet acc.2 pn (.ref l)) := by
  obtain ⟨⟨ext, he, hid⟩, hrefs⟩ := h
  refine ⟨⟨ext ++ nodes, by rw [he, List.append_assoc], ?_⟩, ?_⟩
  · intro ob hob
    rcases List.mem_append.mp hob with h | h
    · exact hid ob h
    · exact hn ob h
  · intro n b hb
    rw [alistGet?_alistSet'] at hb
    by_cases e : n = pn
    · rw [if_pos e] at hb
      cases hb
      exact ⟨f, by rw [e]; exact hf, hl⟩
    · rw [if_neg e] at hb
      obtain ⟨g, hg, hnew⟩ := hrefs n b hb
      exact ⟨g, hg, hnew.frz (Frz.append _ _)⟩

/-! ### one structure element -/

theorem parseFsElem_TI {K : Consts} {ts : TypeSystem} {tsIdx : Nat} {n0 : Nat} {hp hp' : Heap} {e : XElem} {i : Int}
    {a : Nat} (hti : TI K ts n0 hp)
    (hnd : ∀ t : TypeRec, getType ts e.ty = .ok t → (ctorFields t).Nodup)
    (h : parseFsElem K ts tsIdx hp e = .ok (hp', i, a)) : TI K ts n0 hp' ∧ Later hp hp' := by
  unfold parseFsElem at h
  simp only [bind] at h
  obtain ⟨t, ht, h⟩ := bind_ok h
  have hndt := hnd t (getType_of_getTypeExact ht)
  -- the end of the function, once the keyword arguments are known
  have fin : ∀ (acc : Heap × List (String × Val)) (idV : Int), KInv K t hp acc →
      ((construct t tsIdx (some idV) acc.2).bind fun o => pure (acc.1 ++ [o], idV, List.length acc.1)) =
        Except.ok (hp', i, a) → TI K ts n0 hp' ∧ Later hp hp' := by
    intro acc idV hk hfin
    obtain ⟨o, hcon, hfin⟩ := bind_ok hfin
    cases hfin
    obtain ⟨⟨ext, he, hid⟩, hrefs⟩ := hk
    obtain ⟨hty, _, hslots⟩ := construct_slots hcon
    rw [he]
    refine ⟨(hti.append ext hid).snoc o ?_, by rw [List.append_assoc]; exact Later.append hp _⟩
    intro t' ht' f hf b hb
    rw [hty, getType_name (getType_of_getTypeExact ht)] at ht'
    cases ht'
    have hv := hslots f.name _ hb
    have hkw : alistGet? acc.2 f.name = some (.ref b) := by
      cases hg : alistGet? acc.2 f.name with
      | none => rw [hg] at hv; cases hv
      | some v => rw [hg] at hv; simp only [Option.getD_some] at hv; rw [hv]
    obtain ⟨g, hg, hnew⟩ := hrefs f.name b hkw
    rw [Cassis.Xmi.CG1.getFeature_of_mem t hndt f hf] at hg
    cases hg
    rw [← he]
    exact .inr (hnew.frz (Frz.append _ _))
  split at h
  · obtain ⟨idV, _, h⟩ := bind_ok h
    obtain ⟨merged, hm, h⟩ := bind_ok h
    have hnr0 : NoRef (List.filter (fun p => p.fst != ID)
        (List.foldl (fun acc p => alistSet acc p.fst (Val.strs p.snd))
          (List.map (fun p => (p.fst, Val.str p.snd)) e.attrs) (groupKids e.kids []))) := by
      intro p hp_ b
      have hp2 := (List.mem_filter.mp hp_).1
      refine NoRef.foldKids _ _ ?_ p hp2 b
      intro q hq b'
      obtain ⟨r, _, rfl⟩ := List.mem_map.mp hq
      intro hb'
      cases hb'
    have hnr : NoRef merged := by
      split at hm
      · simp only [Except.map] at hm
        split at hm
        · cases hm
        · cases hm
          exact hnr0.set "sofa" (fun b hb => by cases hb)
      · cases hm
      · cases hm
        exact hnr0
    have hk0 : KInv K t hp (hp, List.map (fun p => if (p.fst == "type") = true then ("type_", p.snd) else p)
        (List.map (fun p => if (p.fst == "self") = true then ("self_", p.snd) else p) merged)) :=
      ⟨⟨[], (List.append_nil _).symm, fun _ h => by cases h⟩,
        fun n b hb => (((hnr.rename "self" "self_").rename "type" "type_").get hb).elim⟩
    split at h
    · obtain ⟨acc, hacc, h⟩ := bind_ok h
      cases hacc
      exact fin _ idV hk0 h
    · obtain ⟨acc, hacc, h⟩ := bind_ok h
      refine fin acc idV ?_ h
      refine foldlM_inv _ (KInv K t hp) ?_ _ _ _ hacc hk0
      intro acc p acc' hstep hinv
      split at hstep
      · rename_i f hf
        obtain ⟨f', hf', hstep⟩ := bind_ok hstep
        cases hf'
        split at hstep
        · cases hstep
          rename_i hpa
          exact hinv.step _ (fun ob hob => by rw [List.mem_singleton.mp hob]) _ f hf _
            (.inl ⟨⟨_, _, getElem?_snoc_len _ _, rfl, rfl, rfl⟩, .inl hpa⟩)
        · split at hstep
          · obtain ⟨r, hr, hstep⟩ := bind_ok hstep
            cases hstep
            obtain ⟨hpL, l⟩ := r
            obtain ⟨k, nodes, hk, he, hid, htl⟩ := buildPrimList_typed hr
            subst he
            exact hinv.step nodes hid _ f hf l (.inr ⟨k, hk, htl⟩)
          · cases hstep
            exact hinv
      · obtain ⟨f', hf', _⟩ := bind_ok hstep
        cases hf'
  · obtain ⟨idV, hid, _⟩ := bind_ok h
    cases hid

/-! ### the first pass -/

theorem step1_TI {K : Consts} {ts : TypeSystem} {tsIdx : Nat} {lenient : Bool} {n0 : Nat} {e : XElem} {s s1 : Pass1}
    (hti : TI K ts n0 s.heap)
    (hnd : e.ty ≠ SOFA → e.ty ≠ VIEW_T → ∀ t : TypeRec, getType ts e.ty = .ok t → (ctorFields t).Nodup)
    (h : step1 K ts tsIdx lenient e s = .ok s1) : TI K ts n0 s1.heap ∧ Later s.heap s1.heap := by
  unfold step1 at h
  split at h
  · split at h
    · cases h; exact ⟨hti, Later.refl _⟩
    · cases h
  · rename_i h1
    split at h
    · split at h
      · cases h; exact ⟨hti, Later.refl _⟩
      · cases h
    · rename_i h2
      split at h
      · rename_i hp i a hparse
        cases h
        exact parseFsElem_TI hti (hnd (by simpa using h1) (by simpa using h2)) hparse
      · split at h
        · cases h; exact ⟨hti, Later.refl _⟩
        · cases h
      · cases h

theorem pass1_TI {K : Consts} {ts : TypeSystem} {tsIdx : Nat} {lenient : Bool} {n0 : Nat} :
    ∀ (doc : XDoc) (s p : Pass1), TI K ts n0 s.heap →
      (∀ e ∈ doc, e.ty ≠ SOFA → e.ty ≠ VIEW_T → ∀ t : TypeRec, getType ts e.ty = .ok t → (ctorFields t).Nodup) →
      pass1 K ts tsIdx lenient doc s = .ok p → TI K ts n0 p.heap ∧ Later s.heap p.heap
  | [], s, p, hti, _, h => by
    rw [pass1_nil] at h
    cases h
    exact ⟨hti, Later.refl _⟩
  | e :: es, s, p, hti, hnd, h => by
    rw [pass1_cons] at h
    obtain ⟨s1, h1, h2⟩ := bind_ok h
    obtain ⟨g1, g2⟩ := step1_TI hti (hnd e List.mem_cons_self) h1
    obtain ⟨r1, r2⟩ := pass1_TI es s1 p g1 (fun e' he' => hnd e' (List.mem_cons_of_mem _ he')) h2
    exact ⟨r1, g2.trans r2⟩

end Cassis.ChainC
