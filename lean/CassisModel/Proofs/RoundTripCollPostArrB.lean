/-
Round trip with collections, layer IA, part B: the attribute of an inlined primitive array is read back
(`parsePrimArrayStr` after `showPrimArray`, per array kind).
-/
import CassisModel.Proofs.RoundTripCollStmts
import CassisModel.Properties.C01

namespace Cassis.Xmi.CIA
open Cassis.TS Cassis.Traverse Cassis.Lex Cassis.Xmi

theorem joinSp_nil : joinSp [] = "" := by decide
theorem hexEnc_nil : hexEnc [] = "" := by decide

theorem primArrTy_mem {r : String} (h : PrimArrTy r) :
    r ∈ ["uima.cas.IntegerArray", "uima.cas.ShortArray", "uima.cas.LongArray",
      "uima.cas.FloatArray", "uima.cas.DoubleArray", "uima.cas.BooleanArray", "uima.cas.ByteArray", "uima.cas.StringArray"] := by
  rcases h with (h | h | h) | h | h | (h | h) <;> subst h <;> decide

theorem tokOk_isTok {t : String} (h : TokOk t) : IsTok t := h

theorem elemsExp_refs_nil (H : Heap) (na : Int → Nat) : elemsExp H na (.refs []) = .refs [] := rfl

theorem isEmpty_false {α} {l : List α} (h : l ≠ []) : l.isEmpty = false := by
  cases l with
  | nil => exact absurd rfl h
  | cons _ _ => rfl

theorem elemsExp_ints (H : Heap) (na : Int → Nat) (l : List Int) (h : l ≠ []) : elemsExp H na (.ints l) = .ints l := by
  unfold elemsExp; simp only [isEmpty_false h]; rfl

theorem elemsExp_bools (H : Heap) (na : Int → Nat) (l : List Bool) (h : l ≠ []) : elemsExp H na (.bools l) = .bools l := by
  unfold elemsExp; simp only [isEmpty_false h]; rfl

theorem elemsExp_floats (H : Heap) (na : Int → Nat) (l : List String) (h : l ≠ []) :
    elemsExp H na (.floats l) = .floats l := by
  unfold elemsExp; simp only [isEmpty_false h]; rfl

theorem elemsExp_strs (H : Heap) (na : Int → Nat) (l : List (Option String)) (h : l ≠ []) :
    elemsExp H na (.strs l) = .strs (l.map normTxt) := by
  unfold elemsExp; simp only [isEmpty_false h]; rfl

/-- the empty list of any kind -/
theorem parse_empty (r : String) (hr : PrimArrTy r) :
    parsePrimArrayStr r "" = .ok (.refs []) :=
  emptyArray_roundtrip r (primArrTy_mem hr)

theorem parse_refs_nil (H : Heap) (na : Int → Nat) (r : String) (hr : PrimArrTy r) (s : String)
    (hs : showPrimArray r (.refs []) = .ok s) : parsePrimArrayStr r s = .ok (elemsExp H na (.refs [])) := by
  have : s = "" := by
    unfold showPrimArray at hs
    exact (Except.ok.inj hs).symm
  subst this
  exact parse_empty r hr

theorem parse_ints (H : Heap) (na : Int → Nat) (r : String) (hr : IntArrTy r) (l : List Int) (s : String)
    (hs : showPrimArray r (.ints l) = .ok s) : parsePrimArrayStr r s = .ok (elemsExp H na (.ints l)) := by
  by_cases hl : l = []
  · subst hl
    have hb : (r == "uima.cas.ByteArray") = false := by
      rcases hr with h | h | h <;> subst h <;> decide
    have : s = "" := by
      unfold showPrimArray at hs
      simp only [hb, Bool.false_eq_true, if_false, List.map_nil, joinSp_nil] at hs
      exact (Except.ok.inj hs).symm
    subst this
    exact parse_empty r (Or.inl hr)
  · rw [elemsExp_ints H na l hl]
    exact intArray_roundtrip r hr l hl s hs

theorem toNat_ofNat (l : List Int) (h : ∀ b ∈ l, 0 ≤ b ∧ b < 256) : (l.map Int.toNat).map Int.ofNat = l := by
  induction l with
  | nil => rfl
  | cons b rest ih =>
    rw [List.map_cons, List.map_cons, ih (fun x hx => h x (List.mem_cons_of_mem _ hx))]
    have := (h b List.mem_cons_self).1
    rw [show Int.ofNat b.toNat = b from Int.toNat_of_nonneg this]

theorem parse_bytes (H : Heap) (na : Int → Nat) (l : List Int) (hb : ∀ b ∈ l, 0 ≤ b ∧ b < 256) (s : String)
    (hs : showPrimArray "uima.cas.ByteArray" (.ints l) = .ok s) :
    parsePrimArrayStr "uima.cas.ByteArray" s = .ok (elemsExp H na (.ints l)) := by
  by_cases hl : l = []
  · subst hl
    have : s = "" := by
      unfold showPrimArray at hs
      simp only [beq_self_eq_true, if_true, List.map_nil, hexEnc_nil] at hs
      exact (Except.ok.inj hs).symm
    subst this
    exact parse_empty _ (Or.inr (Or.inl rfl))
  · rw [elemsExp_ints H na l hl]
    have e := toNat_ofNat l hb
    have hne : l.map Int.toNat ≠ [] := by
      intro h; exact hl (List.map_eq_nil_iff.1 h)
    have hlt : ∀ b ∈ l.map Int.toNat, b < 256 := by
      intro b hb'
      obtain ⟨x, hx, rfl⟩ := List.mem_map.1 hb'
      have := hb x hx
      omega
    have := byteArray_roundtrip (l.map Int.toNat) hlt hne s (by rw [e]; exact hs)
    rw [e] at this
    exact this

theorem parse_bools (H : Heap) (na : Int → Nat) (l : List Bool) (s : String)
    (hs : showPrimArray "uima.cas.BooleanArray" (.bools l) = .ok s) :
    parsePrimArrayStr "uima.cas.BooleanArray" s = .ok (elemsExp H na (.bools l)) := by
  by_cases hl : l = []
  · subst hl
    have : s = "" := by
      unfold showPrimArray at hs
      simp only [List.map_nil, joinSp_nil] at hs
      exact (Except.ok.inj hs).symm
    subst this
    exact parse_empty _ (Or.inr (Or.inr (Or.inl rfl)))
  · rw [elemsExp_bools H na l hl]
    exact boolArray_roundtrip l hl s hs

theorem parse_floats (H : Heap) (na : Int → Nat) (r : String) (hr : FloatArrTy r) (l : List String)
    (htok : ∀ t ∈ l, TokOk t) (s : String)
    (hs : showPrimArray r (.floats l) = .ok s) : parsePrimArrayStr r s = .ok (elemsExp H na (.floats l)) := by
  by_cases hl : l = []
  · subst hl
    have : s = "" := by
      unfold showPrimArray at hs
      simp only [joinSp_nil] at hs
      exact (Except.ok.inj hs).symm
    subst this
    exact parse_empty r (Or.inr (Or.inr (Or.inr hr)))
  · rw [elemsExp_floats H na l hl]
    exact floatArray_roundtrip r hr l (fun t ht => tokOk_isTok (htok t ht)) hl s hs

/-- the attribute of an inlined primitive array (not StringArray) is read back as the expected `elements` -/
theorem parse_prim (H : Heap) (na : Int → Nat) (r : String) (hr : PrimArrTy r) (ev : Val) (he : PrimElems r ev)
    (s : String) (hs : showPrimArray r ev = .ok s) : parsePrimArrayStr r s = .ok (elemsExp H na ev) := by
  rcases he with h | ⟨h, l, hl⟩ | ⟨h, l, hl, hb⟩ | ⟨h, l, hl⟩ | ⟨h, l, hl, ht⟩
  · subst h; exact parse_refs_nil H na r hr s hs
  · subst hl; exact parse_ints H na r h l s hs
  · subst hl; subst h; exact parse_bytes H na l hb s hs
  · subst hl; subst h; exact parse_bools H na l s hs
  · subst hl; exact parse_floats H na r h l ht s hs

/-- the empty StringArray -/
theorem parse_str_empty : parsePrimArrayStr STRING_ARRAY "" = .ok (.refs []) :=
  emptyArray_roundtrip _ (by decide)

theorem elemsExp_strs_nil (H : Heap) (na : Int → Nat) : elemsExp H na (.strs []) = .refs [] := rfl

end Cassis.Xmi.CIA
