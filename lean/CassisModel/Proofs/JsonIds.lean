/-
Helper lemmas for `Properties/C09DocJson.lean`, part 1: what one step of the parsing passes of the JSON reader does to
the id table, the heap and the views.
-/
import CassisModel.Spec.JsonDoc
import CassisModel.Proofs.XmiIds

namespace Cassis.Json.Ids
open Cassis.TS Cassis.Lex Cassis.Xmi

/-! ### the id table -/

theorem mem_setFs {l : List (Int × Val)} {k : Int} {v : Val} {q : Int × Val} (h : q ∈ setFs l k v) :
    q ∈ l ∨ q = (k, v) := by
  induction l with
  | nil => exact Or.inr (List.mem_singleton.mp h)
  | cons p rest ih =>
    obtain ⟨k', w⟩ := p
    unfold setFs at h
    split at h
    · rcases List.mem_cons.mp h with h | h
      · exact Or.inr h
      · exact Or.inl (List.mem_cons_of_mem _ h)
    · rcases List.mem_cons.mp h with h | h
      · exact Or.inl (h ▸ List.mem_cons_self)
      · rcases ih h with h | h
        · exact Or.inl (List.mem_cons_of_mem _ h)
        · exact Or.inr h

theorem setFs_self (l : List (Int × Val)) (k : Int) (v : Val) : (k, v) ∈ setFs l k v := by
  induction l with
  | nil => exact List.mem_singleton.mpr rfl
  | cons p rest ih =>
    obtain ⟨k', w⟩ := p
    unfold setFs
    split
    · exact List.mem_cons_self
    · exact List.mem_cons_of_mem _ ih

theorem setFs_keys (l : List (Int × Val)) (k : Int) (v : Val) (i : Int) (h : i ∈ l.map (·.1)) :
    i ∈ (setFs l k v).map (·.1) := by
  induction l with
  | nil => cases h
  | cons p rest ih =>
    obtain ⟨k', w⟩ := p
    unfold setFs
    split
    · rename_i hk
      rcases List.mem_cons.mp h with h | h
      · have : k' = k := by simpa using hk
        rw [h]
        show k' ∈ k :: _
        rw [this]
        exact List.mem_cons_self
      · exact List.mem_cons_of_mem _ h
    · rcases List.mem_cons.mp h with h | h
      · rw [h]; exact List.mem_cons_self
      · exact List.mem_cons_of_mem _ (ih h)

theorem lookup_mem' {l : List (Int × Val)} {i : Int} {v : Val} (h : lookup l i = some v) : ∃ q ∈ l, q.2 = v := by
  unfold lookup at h
  cases hf : l.find? (fun p => p.1 == i) with
  | none => rw [hf] at h; cases h
  | some q =>
    rw [hf] at h
    cases h
    exact ⟨q, List.mem_of_find?_eq_some hf, rfl⟩

theorem fssVals_setFs {l : List (Int × Val)} (h : FssVals l) (k : Int) (v : Val)
    (hv : (∃ a : Nat, v = .ref a) ∨ (∃ (cI : Nat) (vn : String), v = .sofa cI vn)) : FssVals (setFs l k v) := by
  intro q hq
  rcases mem_setFs hq with hq | rfl
  · exact h q hq
  · exact hv

theorem fssVals_lookup {l : List (Int × Val)} (h : FssVals l) {i : Int} {v : Val} (hl : lookup l i = some v) :
    (∃ a : Nat, v = .ref a) ∨ (∃ (cI : Nat) (vn : String), v = .sofa cI vn) := by
  obtain ⟨q, hq, rfl⟩ := lookup_mem' hl
  exact h q hq

/-! ### sofas -/

/-- the view `name` keeps its sofa id and sofaNum, the other views are untouched -/
def SofaKeep (name : String) (c c' : Cas) : Prop :=
  (∀ n, n ≠ name → Cas.getViewRec c' n = Cas.getViewRec c n) ∧
  ∀ v, Cas.getViewRec c name = some v →
    ∃ v', Cas.getViewRec c' name = some v' ∧ v'.sofa.xid = v.sofa.xid ∧ v'.sofa.sofaNum = v.sofa.sofaNum

theorem SofaKeep.trans {name : String} {c1 c2 c3 : Cas} (a : SofaKeep name c1 c2) (b : SofaKeep name c2 c3) :
    SofaKeep name c1 c3 := by
  refine ⟨fun n hn => (b.1 n hn).trans (a.1 n hn), ?_⟩
  intro v hv
  obtain ⟨v2, h2, x2, n2⟩ := a.2 v hv
  obtain ⟨v3, h3, x3, n3⟩ := b.2 v2 h2
  exact ⟨v3, h3, x3.trans x2, n3.trans n2⟩

theorem updSofa_keep {c c' : Cas} {name : String} {l : Bool} {f : Sofa → Sofa}
    (h : Cas.updSofa c { view := name, lenient := l } f = .ok c')
    (hf : ∀ s, (f s).xid = s.xid ∧ (f s).sofaNum = s.sofaNum) : SofaKeep name c c' := by
  obtain ⟨v, hv, rfl⟩ := Cas.updSofa_ok h
  refine ⟨fun n hn => Cas.getViewRec_set_other _ _ _ _ hn, ?_⟩
  intro v0 hv0
  have hv' : Cas.getViewRec c name = some v := hv
  rw [hv'] at hv0
  cases hv0
  exact ⟨_, Cas.getViewRec_set_same _ _ _, (hf v.sofa).1, (hf v.sofa).2⟩

theorem addView_some (c : Cas) (name : String) (x : Int) (num : Option Int) :
    ∃ v1 : View, Cas.getViewRec (Cas.addView c name (some x) num) name = some v1 ∧ v1.sofa.xid = x ∧
      ∀ n, n ≠ name → Cas.getViewRec (Cas.addView c name (some x) num) n = Cas.getViewRec c n := by
  unfold Cas.addView
  cases num
  all_goals exact ⟨_, Cas.getViewRec_set_same _ _ _, rfl, fun n hn => Cas.getViewRec_set_other _ _ _ _ hn⟩

/-- the second half of `parseSofa`: the sofa is registered under the id it carries at the end -/
def sofaTail (s : RState) (ci : Nat) (name : String) (c1 : Cas) (text : Option (List Nat))
    (m u : Option String) (arr : Val) : Except Err RState :=
  (Cas.setSofaString c1 { view := name, lenient := false } text).bind fun c2 =>
  (Cas.setSofaMime c2 { view := name, lenient := false } m).bind fun c3 =>
  (Cas.setSofaUri c3 { view := name, lenient := false } u).bind fun c4 =>
  (Cas.setSofaArray c4 { view := name, lenient := false } arr).bind fun c5 =>
  (Cas.cur c5 { view := name, lenient := false }).bind fun v =>
    .ok { s with cas := c5, fss := setFs s.fss v.sofa.xid (.sofa ci name),
                 maxId := max s.maxId v.sofa.xid, maxNum := max s.maxNum v.sofa.sofaNum }

theorem bindE_ok' {α β} {x : Except Err α} {f : α → Except Err β} {b : β} (h : x.bind f = .ok b) :
    ∃ a, x = .ok a ∧ f a = .ok b := by
  cases x with
  | error e => cases h
  | ok a => exact ⟨a, rfl, h⟩

theorem sofaTail_res {s s' : RState} {ci : Nat} {name : String} {c1 : Cas} {text : Option (List Nat)}
    {m u : Option String} {arr : Val} (h : sofaTail s ci name c1 text m u arr = .ok s')
    {v1 : View} (hv1 : Cas.getViewRec c1 name = some v1)
    (hoth1 : ∀ n, n ≠ name → Cas.getViewRec c1 n = Cas.getViewRec s.cas n) :
    ∃ w : View,
      s'.fss = setFs s.fss w.sofa.xid (.sofa ci name) ∧ s'.heap = s.heap ∧ s'.deferred = s.deferred ∧
      Cas.getViewRec s'.cas name = some w ∧ w.sofa.xid = v1.sofa.xid ∧ w.sofa.sofaNum = v1.sofa.sofaNum ∧
      (∀ n, n ≠ name → Cas.getViewRec s'.cas n = Cas.getViewRec s.cas n) ∧
      s'.maxId = max s.maxId w.sofa.xid ∧ s'.maxNum = max s.maxNum w.sofa.sofaNum := by
  unfold sofaTail at h
  obtain ⟨c2, h4, h⟩ := bindE_ok' h
  obtain ⟨c3, h5, h⟩ := bindE_ok' h
  obtain ⟨c4, h6, h⟩ := bindE_ok' h
  obtain ⟨c5, h7, h⟩ := bindE_ok' h
  obtain ⟨w, h8, h⟩ := bindE_ok' h
  cases h
  have k2 : SofaKeep name c1 c2 := by
    unfold Cas.setSofaString at h4; exact updSofa_keep h4 (fun _ => ⟨rfl, rfl⟩)
  have k3 : SofaKeep name c2 c3 := by
    unfold Cas.setSofaMime at h5; exact updSofa_keep h5 (fun _ => ⟨rfl, rfl⟩)
  have k4 : SofaKeep name c3 c4 := by
    unfold Cas.setSofaUri at h6; exact updSofa_keep h6 (fun _ => ⟨rfl, rfl⟩)
  have k5 : SofaKeep name c4 c5 := by
    unfold Cas.setSofaArray at h7; exact updSofa_keep h7 (fun _ => ⟨rfl, rfl⟩)
  have k := ((k2.trans k3).trans k4).trans k5
  obtain ⟨w', hw', hx', hn'⟩ := k.2 v1 hv1
  have hw2 : Cas.getViewRec c5 name = some w := Cas.cur_ok h8
  have e : w = w' := Option.some.inj (hw2.symm.trans hw')
  subst e
  refine ⟨w, rfl, rfl, rfl, hw', hx', hn', ?_, rfl, rfl⟩
  intro n hn
  exact (k.1 n hn).trans (hoth1 n hn)

/-- what `parseSofa` does: the sofa of the view `name` is registered under the id it carries at the end, which is the
    id of the element — unless the view is not the initial one and existed already: then the view keeps its sofa id and
    sofaNum (`cas.get_view(name)` in `_get_or_create_view`) -/
theorem parseSofa_res (ci : Nat) (s s' : RState) (j : JFs) (h : parseSofa ci s j = .ok s') :
    ∃ (fsId : Int) (name : String) (w : View), j.id = some fsId ∧ sofaIdOf j = some name ∧
      s'.fss = setFs s.fss w.sofa.xid (.sofa ci name) ∧ s'.heap = s.heap ∧ s'.deferred = s.deferred ∧
      Cas.getViewRec s'.cas name = some w ∧
      (w.sofa.xid = fsId ∨ (name ≠ Cas.INITIAL_VIEW ∧ ∃ v0 : View, Cas.getViewRec s.cas name = some v0 ∧
        w.sofa.xid = v0.sofa.xid ∧ w.sofa.sofaNum = v0.sofa.sofaNum)) ∧
      (∀ n, n ≠ name → Cas.getViewRec s'.cas n = Cas.getViewRec s.cas n) ∧
      s'.maxId = max s.maxId w.sofa.xid ∧ s'.maxNum = max s.maxNum w.sofa.sofaNum := by
  unfold parseSofa at h
  simp only [bind, Except.bind, pure, Except.pure, throw, throwThe, MonadExceptOf.throw] at h
  split at h
  · rename_i fsId hid
    split at h
    · rename_i name hname
      have hname' : sofaIdOf j = some name := by
        unfold sofaIdOf
        rw [hname]
      split at h
      · -- the initial view: its sofa takes the id of the element
        split at h
        · cases h
        · rename_i c1 h3
          obtain ⟨v, hv, rfl⟩ := Cas.updSofa_ok h3
          obtain ⟨w, r1, r2, r3, r4, r5, _, r7, r8⟩ := sofaTail_res (s := s) (ci := ci) h
            (Cas.getViewRec_set_same _ _ _) (fun n hn => Cas.getViewRec_set_other _ _ _ _ hn)
          exact ⟨fsId, name, w, hid, hname', r1, r2, r3, r4, Or.inl r5, r7, r8⟩
      · rename_i hni
        split at h
        · -- the view exists already: it is taken as it is
          rename_i hex
          obtain ⟨v0, hv0⟩ := Option.isSome_iff_exists.mp hex
          obtain ⟨w, r1, r2, r3, r4, r5, r6, r7, r8⟩ := sofaTail_res (s := s) (ci := ci) h hv0 (fun n _ => rfl)
          refine ⟨fsId, name, w, hid, hname', r1, r2, r3, r4, Or.inr ⟨?_, v0, hv0, r5, r6⟩, r7, r8⟩
          intro e
          rw [e] at hni
          exact hni (beq_self_eq_true _)
        · split at h
          · cases h
          · rename_i r h4
            unfold Cas.createView at h4
            split at h4
            · cases h4
            · cases h4
              obtain ⟨v1, hv1, hx1, ho1⟩ := addView_some s.cas name fsId
                (match (j.feats.find? (fun p => p.1 == "sofaNum")).map (·.2) with
                    | some (JV.int n) => some n | _ => none : Option Int)
              obtain ⟨w, r1, r2, r3, r4, r5, _, r7, r8⟩ := sofaTail_res (s := s) (ci := ci) h hv1 ho1
              exact ⟨fsId, name, w, hid, hname', r1, r2, r3, r4, Or.inl (r5.trans hx1), r7, r8⟩
    · cases h
  · cases h

/-! ### structures -/

/-- setting a slot to a reference, a sofa or a list of references never touches an id -/
theorem setSlot_xsame_ref {hp hp' : Heap} {a : Nat} {n : String} {v : Val} (h : Heap.setSlot hp a n v = .ok hp')
    (hv : (∃ t : Nat, v = .ref t) ∨ (∃ (cI : Nat) (vn : String), v = .sofa cI vn) ∨ (∃ l, v = .refs l)) :
    XSame hp hp' := by
  unfold Heap.setSlot at h
  split at h
  · cases h
  · rename_i o ho
    split at h
    · cases h
      exact set_xsame ho rfl
    · split at h
      · rcases hv with ⟨t, rfl⟩ | ⟨cI, vn, rfl⟩ | ⟨l, rfl⟩ <;> cases h
      · cases h

theorem resolveRefs_xsame (rename : String → String) (fss : List (Int × Val)) (hv : FssVals fss) (addr : Nat)
    (l : List (String × JV)) : ∀ (heap : Heap) (d : List Deferred) (heap' : Heap) (d' : List Deferred),
      resolveRefs rename fss addr l (heap, d) = .ok (heap', d') → XSame heap heap' := by
  induction l with
  | nil =>
    intro heap d heap' d' h
    rw [resolveRefs] at h
    cases h
    exact XSame.refl _
  | cons p rest ih =>
    intro heap d heap' d' h
    rw [resolveRefs] at h
    split at h
    · rename_i tv htv
      split at h
      · cases h
      · rename_i heap1 hs
        have hx : XSame heap heap1 := by
          apply setSlot_xsame_ref hs
          obtain ⟨i, _, hl⟩ := Option.bind_eq_some_iff.mp htv
          rcases fssVals_lookup hv (i := i) hl with ⟨a, rfl⟩ | ⟨cI, vn, rfl⟩
          · exact Or.inl ⟨a, rfl⟩
          · exact Or.inr (Or.inl ⟨cI, vn, rfl⟩)
        exact hx.trans (ih _ _ _ _ h)
    · exact ih _ _ _ _ h

/-- what `parseFs` does: the id table and the generators; under `FssVals` also the heap -/
theorem parseFs_res (K : Consts) (ts : TypeSystem) (tsIdx : Nat) (s s' : RState) (j : JFs)
    (h : parseFs K ts tsIdx s j = .ok s') :
    ∃ fsId : Int, j.id = some fsId ∧
      s'.fss = setFs s.fss fsId (.ref s.heap.length) ∧ s'.cas = s.cas ∧
      s'.maxId = max s.maxId fsId ∧ s'.maxNum = s.maxNum ∧
      (FssVals s.fss → ∃ o : Obj, o.xid = some fsId ∧ XSame (s.heap ++ [o]) s'.heap) := by
  unfold parseFs at h
  dsimp only at h
  split at h
  · cases h
  · rename_i t ht
    split at h
    · cases h
    · rename_i fsId hid
      split at h
      · cases h
      · rename_i nums hnums
        split at h
        · cases h
        · rename_i kwargs deferred0 hr
          split at h
          · cases h
          · rename_i o ho
            split at h
            · cases h
            · rename_i heap1 deferred hres
              have hox : o.xid = some fsId := by
                unfold construct at ho
                dsimp only at ho
                split at ho
                · cases ho
                · cases ho; rfl
              split at h
              · cases h
              · rename_i heap hr2
                cases h
                refine ⟨fsId, hid, rfl, rfl, rfl, rfl, ?_⟩
                intro hv
                have hx1 := resolveRefs_xsame renameReserved s.fss hv _ _ _ _ _ _ hres
                refine ⟨o, hox, hx1.trans ?_⟩
                split at hr2
                · split at hr2
                  · split at hr2
                    · exact convertOffsets_xsame hr2
                    · cases hr2
                  · cases hr2
                · cases hr2
                  exact XSame.refl _

end Cassis.Json.Ids
