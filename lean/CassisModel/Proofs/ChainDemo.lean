/-
Non-vacuity of the chain theorems (`Properties/C16Chain.lean`): the instance of `RoundTripDemo.lean` satisfies the
hypotheses of `chain_xmi_json_flat` (those of the XMI round trip, `JsonFs`, and the condition on `sofa` features).
The hypotheses of `chain_json_xmi_flat` are `Json.Demo.demo_hypsJ` plus `NullOk`.
-/
import CassisModel.Proofs.RoundTripDemo
import CassisModel.Proofs.RoundTripJsonDemo

namespace Cassis.Chain.Demo
open Cassis Cassis.TS Cassis.Xmi Cassis.Traverse Cassis.Xmi.Demo Cassis.Json.Demo

/-- Boolean checker for the condition on `sofa` features -/
def sofaRangeB (K : Consts) (ts : TypeSystem) (hp : Heap) (a : Nat) : Bool :=
  match hp[a]? with
  | none => true
  | some o =>
    match find? ts o.ty with
    | none => true
    | some t =>
      (allFeatures t).all (fun f =>
        if f.name = "sofa" then
          decide (f.range ≠ "uima.cas.Double") && decide (f.range ≠ "uima.cas.Float") && !(isPrimitive K ts f.range)
        else true)

theorem sofaRangeB_sound (K : Consts) (ts : TypeSystem) (hp : Heap) (a : Nat) (h : sofaRangeB K ts hp a = true) :
    ∀ (o : Obj) (t : TypeRec), hp[a]? = some o → find? ts o.ty = some t →
      ∀ f ∈ allFeatures t, f.name = "sofa" → (alistGet? o.slots f.name).getD .none ≠ .none →
        f.range ≠ "uima.cas.Double" ∧ f.range ≠ "uima.cas.Float" ∧ isPrimitive K ts f.range = false := by
  intro o t ho ht f hf hn _
  unfold sofaRangeB at h
  rw [ho] at h
  dsimp only at h
  rw [ht] at h
  dsimp only at h
  rw [List.all_eq_true] at h
  have := h f hf
  rw [if_pos hn] at this
  simp only [Bool.and_eq_true, decide_eq_true_eq, Bool.not_eq_true'] at this
  exact ⟨this.1.1, this.1.2, this.2⟩

theorem sr0 : sofaRangeB K demoTS' hpS 0 = true := by decide +kernel
theorem sr1 : sofaRangeB K demoTS' hpS 1 = true := by decide +kernel

/-- **non-vacuity**: every hypothesis of `chain_xmi_json_flat` holds for `K := Gen.consts`, `ts := demoTS`,
    `cass := [demo.1]`, `ci := 0`, `c := demo.1`, `hp := demo.2` and the `(doc, st)` that `saveXmi` returns -/
theorem demo_hyps_chain : ∃ (doc : XDoc) (st : Traverse.St),
    saveXmi K demoTS [demo.1] 0 demo.2 = .ok (doc, st) ∧
    [demo.1][0]? = some demo.1 ∧ RTWf demo.1 demo.2 ∧ NullOk demoTS ∧
    (∀ q ∈ st.allFs, FlatFs K demoTS demo.1 0 st.heap q.2) ∧
    (∀ q ∈ st.allFs, Json.JsonFs demoTS st.heap q.2) ∧
    (∀ q ∈ st.allFs, ∀ (o : Obj) (t : TypeRec), st.heap[q.2]? = some o → find? demoTS o.ty = some t →
      ∀ f ∈ allFeatures t, f.name = "sofa" → (alistGet? o.slots f.name).getD .none ≠ .none →
        f.range ≠ "uima.cas.Double" ∧ f.range ≠ "uima.cas.Float" ∧ isPrimitive K demoTS f.range = false) ∧
    (∀ q ∈ st.allFs, ∀ nv ∈ demo.1.views, q.1 ≠ nv.2.sofa.xid) ∧
    (∀ nv ∈ demo.1.views, ∀ e ∈ Index.all nv.2.idx, Xmi.slot st.heap e.oid "sofa" ≠ some .none) ∧
    MembersOk demo.1 st.heap := by
  rw [demo_eq, demo'_lit, demoTS_eq]
  cases h : saveXmi K demoTS' [casL] 0 hpL with
  | error e =>
    have hs := save_lit
    rw [h] at hs
    simp [Except.toOption] at hs
  | ok r =>
    have hs := save_lit
    rw [h] at hs
    simp only [Except.toOption, Option.map_some, Option.some.injEq, Prod.mk.injEq] at hs
    obtain ⟨hheap, hall⟩ := hs
    refine ⟨r.1, r.2, rfl, rfl, rtwf, nullOk', ?_, ?_, ?_, ?_, ?_, ?_⟩
    · rw [hheap, hall]
      intro q hq
      simp only [List.mem_cons, List.not_mem_nil, or_false] at hq
      rcases hq with rfl | rfl
      · exact flatFsB_sound _ _ _ _ _ _ flat0
      · exact flatFsB_sound _ _ _ _ _ _ flat1
    · rw [hheap, hall]
      intro q hq
      simp only [List.mem_cons, List.not_mem_nil, or_false] at hq
      rcases hq with rfl | rfl
      · exact jsonFsB_sound _ _ _ json0
      · exact jsonFsB_sound _ _ _ json1
    · rw [hheap, hall]
      intro q hq
      simp only [List.mem_cons, List.not_mem_nil, or_false] at hq
      rcases hq with rfl | rfl
      · exact sofaRangeB_sound _ _ _ _ sr0
      · exact sofaRangeB_sound _ _ _ _ sr1
    · rw [hall]; exact disjoint_ids
    · rw [hheap]; exact members_sofa
    · rw [hheap]; exact membersOk

end Cassis.Chain.Demo
