/-
Non-vacuity instance for `Properties/C20Sens.lean`: one CAS on which every hypothesis of every theorem there holds.
The facts are checked by the kernel; the examples that put them together are in the Properties file.
-/
import CassisModel.Proofs.ComparableSensTotal
import CassisModel.Proofs.ComparableSensChk
import CassisModel.Proofs.Traverse
import CassisModel.Gen.Builtins

namespace Cassis.Comparable.SensDemo
open Cassis Cassis.TS Cassis.Traverse Cassis.Comparable

def K : Consts := Gen.consts

/-- built-in types plus the annotation type `x.Tok` with features `n : Integer`, `r : Annotation`, `arr : FSArray`,
    `ia : IntegerArray` -/
def tsD : TypeSystem :=
  match (do
    let ts ← createType K Gen.builtinTS "x.Tok" ANNOTATION none
    let ts ← createFeatureLeaf ts "x.Tok" "n" "uima.cas.Integer"
    let ts ← createFeatureLeaf ts "x.Tok" "r" ANNOTATION
    let ts ← createFeatureLeaf ts "x.Tok" "arr" FS_ARRAY
    createFeatureLeaf ts "x.Tok" "ia" "uima.cas.IntegerArray") with
  | .ok ts => ts
  | .error _ => Gen.builtinTS

def tokT : TypeRec := match getType tsD "x.Tok" with | .ok t => t | .error _ => default

def viewD (id : String) (num xid : Int) : String × View :=
  (id, { sofa := { sofaID := id, sofaNum := num, xid := xid, text := some [97, 98, 99, 100] }, idx := [] })

def casD : Cas := { views := [viewD "V" 1 1, viewD "W" 2 2], nextXid := 20, nextSofaNum := 3 }

def tok (x b e : Int) (v : String) (n r arr ia : Val) : Obj :=
  { ty := "x.Tok", ts := 0, xid := some x,
    slots := [("arr", arr), ("ia", ia), ("n", n), ("r", r), ("begin", .int b), ("end", .int e), ("sofa", .sofa 0 v)] }

/-- 0: `Tok[0-1]@V` with `n = 7`, `r → 1`, `arr → 4`, `ia → 5`; 1: `Tok[1-2]@V`; 2: `Tok[2-3]@V`; 3: `Tok[0-3]@W`;
    4: an FSArray `[1, 2]`; 5: an IntegerArray `[1, 2]` -/
def hpD : Heap :=
  [ tok 10 0 1 "V" (.int 7) (.ref 1) (.ref 4) (.ref 5),
    tok 11 1 2 "V" .none .none .none .none,
    tok 12 2 3 "V" .none .none .none .none,
    tok 13 0 3 "W" .none .none .none .none,
    { ty := FS_ARRAY, ts := 0, xid := some 14, slots := [("elements", .refs [some 1, some 2])] },
    { ty := "uima.cas.IntegerArray", ts := 0, xid := some 15, slots := [("elements", .ints [1, 2])] } ]

def addrsD : List Nat := [0, 1, 2, 3, 4, 5]
def addrsD' : List Nat := [5, 3, 1, 0, 2, 4]
def idxD : List Nat := [0, 1, 2, 3]
def idxD' : List Nat := [3, 2, 1, 0, 0]
/-- the indexed list without structure 1 -/
def idxD1 : List Nat := [3, 2, 0]
def hshD : Nat → Int := fun _ => 0
def hshD' : Nat → Int := fun a => a

def upd (hp : Heap) (a : Nat) (f : String) (v : Val) : Heap :=
  match Heap.setSlot hp a f v with | .ok h => h | .error _ => hp

def hpPrim : Heap := upd hpD 0 "n" (.int 8)
def hpOff : Heap := upd hpD 1 "end" (.int 3)
def hpRef : Heap := upd hpD 0 "r" (.ref 2)
def hpFsa : Heap := upd hpD 4 "elements" (.refs ([some 1, some 2].set 0 (some 3)))
def hpIa : Heap := upd hpD 5 "elements" (.ints [1, 3])
def hpView : Heap := upd hpD 2 "sofa" (.sofa 0 "W")

theorem ok_of_toOption {α : Type} {r : Except Err α} {x : α} (h : r.toOption = some x) : r = .ok x := by
  cases r with
  | error e => cases h
  | ok y =>
    have : some y = some x := h
    rw [Option.some.inj this]

/-! ### the updates -/

theorem set_prim : Heap.setSlot hpD 0 "n" (.int 8) = .ok hpPrim := ok_of_toOption (by decide +kernel)
theorem set_off : Heap.setSlot hpD 1 "end" (.int 3) = .ok hpOff := ok_of_toOption (by decide +kernel)
theorem set_ref : Heap.setSlot hpD 0 "r" (.ref 2) = .ok hpRef := ok_of_toOption (by decide +kernel)
theorem set_fsa : Heap.setSlot hpD 4 "elements" (.refs ([some 1, some 2].set 0 (some 3))) = .ok hpFsa :=
  ok_of_toOption (by decide +kernel)
theorem set_ia : Heap.setSlot hpD 5 "elements" (.ints [1, 3]) = .ok hpIa := ok_of_toOption (by decide +kernel)
theorem set_view : Heap.setSlot hpD 2 "sofa" (.sofa 0 "W") = .ok hpView := ok_of_toOption (by decide +kernel)

/-! ### lists -/

theorem perm_addrs : addrsD.Perm addrsD' := by decide +kernel
theorem nodup_addrs : addrsD.Nodup := by decide +kernel
theorem idx_iff : ∀ x, x ∈ idxD ↔ x ∈ idxD' := by
  intro x
  simp only [idxD, idxD', List.mem_cons, List.mem_nil_iff, or_false]
  omega
theorem mem0 : 0 ∈ addrsD := by decide
theorem mem1 : 1 ∈ addrsD := by decide
theorem mem2 : 2 ∈ addrsD := by decide
theorem mem3 : 3 ∈ addrsD := by decide
theorem mem4 : 4 ∈ addrsD := by decide
theorem mem5 : 5 ∈ addrsD := by decide

/-! ### side conditions -/

theorem distinct_hpD : Distinct hpD addrsD := by unfold Distinct; decide +kernel
theorem distinct_hpOff : Distinct hpOff addrsD := by unfold Distinct; decide +kernel
theorem xidInj_hpD : XidInj hpD addrsD := by unfold XidInj; decide +kernel

/-! ### the structures -/

theorem getType0 : getType tsD (tyOf hpD 0) = .ok tokT := ok_of_toOption (by decide +kernel)
theorem notExcl (a : Nat) : ({} : Opts).exclude.contains (tyOf hpD a) = false := rfl
theorem notArr0 : isArrayFs K hpD 0 = false := by decide +kernel
theorem notArr1 : isArrayFs K hpD 1 = false := by decide +kernel
theorem notArr2 : isArrayFs K hpD 2 = false := by decide +kernel
theorem notArr3 : isArrayFs K hpD 3 = false := by decide +kernel
theorem isArr4 : isArrayFs K hpD 4 = true := by decide +kernel
theorem isArr5 : isArrayFs K hpD 5 = true := by decide +kernel
theorem annot1 : isAnnot hpD 1 = true := by decide +kernel
theorem n_col : "n" ∈ columns tokT := by decide +kernel
theorem r_col : "r" ∈ columns tokT := by decide +kernel
theorem arr_col : "arr" ∈ columns tokT := by decide +kernel
theorem ia_col : "ia" ∈ columns tokT := by decide +kernel
theorem slot_n : slot hpD 0 "n" = some (.int 7) := by decide +kernel
theorem slot_r : slot hpD 0 "r" = some (.ref 1) := by decide +kernel
theorem slot_arr : slot hpD 0 "arr" = some (.ref 4) := by decide +kernel
theorem slot_ia : slot hpD 0 "ia" = some (.ref 5) := by decide +kernel
theorem slot_end1 : slot hpD 1 "end" = some (.int 2) := by decide +kernel
theorem slot_el4 : slot hpD 4 "elements" = some (.refs [some 1, some 2]) := by decide +kernel
theorem slot_el5 : slot hpD 5 "elements" = some (.ints [1, 2]) := by decide +kernel
theorem slot_sofa2 : slot hpD 2 "sofa" = some (.sofa 0 "V") := by decide +kernel
theorem cas0 : [casD][0]? = some casD := rfl
theorem viewV : Cas.getViewRec casD "V" = some (viewD "V" 1 1).2 := by decide +kernel
theorem viewW : Cas.getViewRec casD "W" = some (viewD "W" 2 2).2 := by decide +kernel
theorem sofaIDs_ne : (viewD "V" 1 1).2.sofa.sofaID ≠ (viewD "W" 2 2).2.sofa.sofaID := by decide +kernel
theorem plainV : NoParenEnd (viewD "V" 1 1).2.sofa.sofaID := by decide +kernel
theorem plainW : NoParenEnd (viewD "W" 2 2).2.sofa.sofaID := by decide +kernel

theorem slot_sofa1 : slot hpD 1 "sofa" = some (.sofa 0 "V") := by decide +kernel
theorem slot_sofa3 : slot hpD 3 "sofa" = some (.sofa 0 "W") := by decide +kernel

theorem plain1 (idx : List Nat) : AnchorPlain [casD] hpD idx {} 1 := anchorPlain_of_sofa slot_sofa1 cas0 viewV plainV
theorem plain2 (idx : List Nat) : AnchorPlain [casD] hpD idx {} 2 := anchorPlain_of_sofa slot_sofa2 cas0 viewV plainV
theorem plain3 (idx : List Nat) : AnchorPlain [casD] hpD idx {} 3 := anchorPlain_of_sofa slot_sofa3 cas0 viewW plainW

/-! ### both runs succeed (through `renderFrom_total`) -/

/-- recursion levels needed for a reference: 3 for the FSArray (the array, its list, an element), 1 otherwise -/
def needD : Nat → Nat := fun x => if x = 4 then 3 else 1

theorem needD_pos (x : Nat) : 1 ≤ needD x := by unfold needD; split <;> omega

theorem total_of_checks (hp : Heap) (addrs : List Nat) (h1 : wellNestedB K hp needD = true)
    (h2 : addrs.all (rowOkB K tsD [casD] hp {} needD) = true) (hsh : Nat → Int) (idx : List Nat) :
    ∃ secs, renderFrom K tsD [casD] hp {} hsh idx addrs = .ok secs :=
  renderFrom_total_aux K tsD [casD] hp {} hsh idx addrs needD
    (wellNested_of_check needD_pos (by decide +kernel) h1)
    (fun a ha => rowOkB_sound ((List.all_eq_true.1 h2) a ha))

theorem total_first (hsh : Nat → Int) (idx : List Nat) :
    ∃ secs, renderFrom K tsD [casD] hpD {} hsh idx addrsD = .ok secs :=
  total_of_checks hpD addrsD (by decide +kernel) (by decide +kernel) hsh idx

theorem total_second (hsh : Nat → Int) (idx : List Nat) :
    ∃ secs, renderFrom K tsD [casD] hpD {} hsh idx addrsD' = .ok secs :=
  total_of_checks hpD addrsD' (by decide +kernel) (by decide +kernel) hsh idx

theorem total_hpPrim (hsh : Nat → Int) (idx : List Nat) :
    ∃ secs, renderFrom K tsD [casD] hpPrim {} hsh idx addrsD' = .ok secs :=
  total_of_checks hpPrim addrsD' (by decide +kernel) (by decide +kernel) hsh idx

theorem total_hpOff (hsh : Nat → Int) (idx : List Nat) :
    ∃ secs, renderFrom K tsD [casD] hpOff {} hsh idx addrsD' = .ok secs :=
  total_of_checks hpOff addrsD' (by decide +kernel) (by decide +kernel) hsh idx

theorem total_hpRef (hsh : Nat → Int) (idx : List Nat) :
    ∃ secs, renderFrom K tsD [casD] hpRef {} hsh idx addrsD' = .ok secs :=
  total_of_checks hpRef addrsD' (by decide +kernel) (by decide +kernel) hsh idx

theorem total_hpFsa (hsh : Nat → Int) (idx : List Nat) :
    ∃ secs, renderFrom K tsD [casD] hpFsa {} hsh idx addrsD' = .ok secs :=
  total_of_checks hpFsa addrsD' (by decide +kernel) (by decide +kernel) hsh idx

theorem total_hpIa (hsh : Nat → Int) (idx : List Nat) :
    ∃ secs, renderFrom K tsD [casD] hpIa {} hsh idx addrsD' = .ok secs :=
  total_of_checks hpIa addrsD' (by decide +kernel) (by decide +kernel) hsh idx

theorem total_hpView (hsh : Nat → Int) (idx : List Nat) :
    ∃ secs, renderFrom K tsD [casD] hpView {} hsh idx addrsD' = .ok secs :=
  total_of_checks hpView addrsD' (by decide +kernel) (by decide +kernel) hsh idx

end Cassis.Comparable.SensDemo
