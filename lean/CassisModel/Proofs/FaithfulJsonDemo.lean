/-
Non-vacuity of the faithfulness theorems for JSON (`Properties/C04FaithfulJson.lean`): for each of them two *different*
inputs (heaps of different layout and length; for the flat theorem also different CASes in different lists of CASes, at
different indices) that satisfy all hypotheses and are written to the *same* JSON document.

* decidable equality of JSON documents (`JV` is a nested inductive type, the deriving handler does not apply; the
  instance is written by hand and proved correct);
* `jflatAppliesB`: a Boolean test for the hypotheses of `json_roundtrip_flat` / `saveJson_faithful_flat` (parallel to
  `jcollAppliesB`), proved sound;
* the instances, evaluated by the kernel.
-/
import CassisModel.Proofs.FaithfulJsonColl
import CassisModel.Proofs.RoundTripJsonCollCheck
import CassisModel.Proofs.RoundTripJsonCollDemo

namespace Cassis.Json
open Cassis.TS Cassis.Traverse Cassis.Xmi

/-! ### equality of documents is decidable -/

mutual
def jvBeq : JV → JV → Bool
  | .null, .null => true
  | .int i, .int j => i == j
  | .flt s, .flt t => s == t
  | .bool a, .bool b => a == b
  | .str s, .str t => s == t
  | .ints l, .ints m => l == m
  | .flts l, .flts m => jvsBeq l m
  | .bools l, .bools m => l == m
  | .strs l, .strs m => l == m
  | .refs l, .refs m => l == m
  | _, _ => false
def jvsBeq : List JV → List JV → Bool
  | [], [] => true
  | a :: l, b :: m => jvBeq a b && jvsBeq l m
  | _, _ => false
end

mutual
theorem jvBeq_sound : ∀ (a b : JV), jvBeq a b = true → a = b
  | .null, b, h => by cases b <;> simp [jvBeq] at h ⊢
  | .int i, b, h => by cases b <;> simp [jvBeq] at h ⊢; exact h
  | .flt s, b, h => by cases b <;> simp [jvBeq] at h ⊢; exact h
  | .bool s, b, h => by cases b <;> simp [jvBeq] at h ⊢; exact h
  | .str s, b, h => by cases b <;> simp [jvBeq] at h ⊢; exact h
  | .ints s, b, h => by cases b <;> simp [jvBeq] at h ⊢; exact h
  | .bools s, b, h => by cases b <;> simp [jvBeq] at h ⊢; exact h
  | .strs s, b, h => by cases b <;> simp [jvBeq] at h ⊢; exact h
  | .refs s, b, h => by cases b <;> simp [jvBeq] at h ⊢; exact h
  | .flts l, b, h => by
    cases b <;> simp [jvBeq] at h ⊢
    exact jvsBeq_sound _ _ h
theorem jvsBeq_sound : ∀ (l m : List JV), jvsBeq l m = true → l = m
  | [], [], _ => rfl
  | [], _ :: _, h => by simp [jvsBeq] at h
  | _ :: _, [], h => by simp [jvsBeq] at h
  | a :: l, b :: m, h => by
    simp only [jvsBeq, Bool.and_eq_true] at h
    rw [jvBeq_sound a b h.1, jvsBeq_sound l m h.2]
end

mutual
theorem jvBeq_refl : ∀ (a : JV), jvBeq a a = true
  | .flts l => by simp only [jvBeq]; exact jvsBeq_refl l
  | .null | .int _ | .flt _ | .bool _ | .str _ | .ints _ | .bools _ | .strs _ | .refs _ => by simp [jvBeq]
theorem jvsBeq_refl : ∀ (l : List JV), jvsBeq l l = true
  | [] => rfl
  | a :: l => by simp only [jvsBeq, Bool.and_eq_true]; exact ⟨jvBeq_refl a, jvsBeq_refl l⟩
end

instance : DecidableEq JV := fun a b =>
  if h : jvBeq a b = true then isTrue (jvBeq_sound a b h)
  else isFalse (fun e => h (e ▸ jvBeq_refl a))

deriving instance DecidableEq for JFs, JFeat, JType, JView, JDoc

/-! ### a test for the hypotheses of `json_roundtrip_flat` -/

/-- every hypothesis of `json_roundtrip_flat` holds for the CAS `cass[ci]` over the heap `hp` -/
def jflatAppliesB (K : Consts) (ts : TypeSystem) (cass : List Cas) (ci : Nat) (hp : Heap) : Bool :=
  match cass[ci]? with
  | none => false
  | some c =>
    match saveJson K ts cass ci hp .none with
    | .error _ => false
    | .ok (_, st) =>
      rtWfB c hp && st.allFs.all (fun q => flatFsB K ts c ci st.heap q.2 && jsonOkB ts st.heap q.2) &&
      memberIdsB c hp && disjointB st.allFs c && memSofaB c st.heap && membersOkB c st.heap

theorem jflatAppliesB_hyps (K : Consts) (ts : TypeSystem) (cass : List Cas) (ci : Nat) (hp : Heap)
    (h : jflatAppliesB K ts cass ci hp = true) :
    ∃ (c : Cas) (doc : JDoc) (st : Traverse.St), cass[ci]? = some c ∧
      saveJson K ts cass ci hp .none = .ok (doc, st) ∧ RTWf c hp ∧
      (∀ q ∈ st.allFs, FlatFs K ts c ci st.heap q.2) ∧
      (∀ q ∈ st.allFs, JsonFs ts st.heap q.2) ∧
      (∀ nv ∈ c.views, ∀ e ∈ Index.all nv.2.idx, (xidOf hp e.oid).isSome = true) ∧
      (∀ q ∈ st.allFs, ∀ nv ∈ c.views, q.1 ≠ nv.2.sofa.xid) ∧
      (∀ nv ∈ c.views, ∀ e ∈ Index.all nv.2.idx, Xmi.slot st.heap e.oid "sofa" ≠ some .none) ∧
      MembersOk c st.heap := by
  unfold jflatAppliesB at h
  cases hc : cass[ci]? with
  | none => rw [hc] at h; exact absurd h (by simp)
  | some c =>
    rw [hc] at h
    simp only at h
    cases hs : saveJson K ts cass ci hp .none with
    | error e => rw [hs] at h; exact absurd h (by simp)
    | ok r =>
      obtain ⟨doc, st⟩ := r
      rw [hs] at h
      simp only [Bool.and_eq_true, List.all_eq_true] at h
      obtain ⟨⟨⟨⟨⟨h1, h2⟩, h3⟩, h4⟩, h5⟩, h6⟩ := h
      exact ⟨c, doc, st, rfl, rfl, rtWfB_sound c hp h1,
        fun q hq => flatFsB_sound K ts c ci st.heap q.2 (h2 q hq).1,
        fun q hq => jsonOkB_sound ts st.heap q.2 (h2 q hq).2,
        memberIdsB_sound c hp h3,
        disjointB_sound st.allFs c h4, memSofaB_sound c st.heap h5, membersOkB_sound c st.heap h6⟩

/-! ### the flat instance in two layouts

`ResDemo.flatCas` over `ResDemo.flatHp` (`Spec/RoundTripCollCheck.lean`: two `x.F` annotations referring to each other,
the first one indexed; `x.F` has an integer and a reference feature), written as CAS 0 of `[flatCas]`; and the same
content as CAS 1 of a list of two CASes, over a heap that starts with an unreachable object (an empty list node) and holds the two structures
in the opposite order (so the references, the index entry and the sofa references — `.sofa 1 …` — all differ). -/

namespace FlatDemo
open CollDemo ResDemo

def tail2 (b e : Int) : List (String × Val) :=
  [("begin", .int b), ("end", .int e), ("sofa", .sofa 1 "_InitialView")]

def flatHp2 : Heap :=
  [ /- 0 -/ enode "uima.cas.EmptyStringList",
    /- 1 -/ { ty := "x.F", ts := 0, xid := none, slots := [("self_", .none), ("type_", .ref 2)] ++ tail2 2 3 },
    /- 2 -/ { ty := "x.F", ts := 0, xid := some 2, slots := [("self_", .int 7), ("type_", .ref 1)] ++ tail2 0 2 } ]

def flatCas2 : Cas :=
  { cas with views := cas.views.map (fun nv => (nv.1, { nv.2 with idx := [("x.F", [{ b := 0, e := 2, oid := 2 }])] })) }

theorem applies₁ : jflatAppliesB K flatTs [flatCas] 0 flatHp = true := by decide +kernel
theorem applies₂ : jflatAppliesB K flatTs [cas, flatCas2] 1 flatHp2 = true := by decide +kernel

theorem heaps_ne : flatHp ≠ flatHp2 := by decide +kernel
theorem cas_ne : flatCas ≠ flatCas2 := by decide +kernel

theorem same_doc : (saveJson K flatTs [flatCas] 0 flatHp .none).toOption.map (·.1) =
    (saveJson K flatTs [cas, flatCas2] 1 flatHp2 .none).toOption.map (·.1) := by decide +kernel

/-- both inputs satisfy the hypotheses of `saveJson_faithful_flat` and are written to the same document -/
theorem two_layouts :
    ∃ (doc : JDoc) (st₁ st₂ : Traverse.St),
      saveJson K flatTs [flatCas] 0 flatHp .none = .ok (doc, st₁) ∧
      saveJson K flatTs [cas, flatCas2] 1 flatHp2 .none = .ok (doc, st₂) ∧
      RTWf flatCas flatHp ∧ (∀ q ∈ st₁.allFs, FlatFs K flatTs flatCas 0 st₁.heap q.2) ∧
      (∀ q ∈ st₁.allFs, JsonFs flatTs st₁.heap q.2) ∧
      (∀ nv ∈ flatCas.views, ∀ e ∈ Index.all nv.2.idx, (xidOf flatHp e.oid).isSome = true) ∧
      (∀ q ∈ st₁.allFs, ∀ nv ∈ flatCas.views, q.1 ≠ nv.2.sofa.xid) ∧
      (∀ nv ∈ flatCas.views, ∀ e ∈ Index.all nv.2.idx, Xmi.slot st₁.heap e.oid "sofa" ≠ some .none) ∧
      MembersOk flatCas st₁.heap ∧
      RTWf flatCas2 flatHp2 ∧ (∀ q ∈ st₂.allFs, FlatFs K flatTs flatCas2 1 st₂.heap q.2) ∧
      (∀ q ∈ st₂.allFs, JsonFs flatTs st₂.heap q.2) ∧
      (∀ nv ∈ flatCas2.views, ∀ e ∈ Index.all nv.2.idx, (xidOf flatHp2 e.oid).isSome = true) ∧
      (∀ q ∈ st₂.allFs, ∀ nv ∈ flatCas2.views, q.1 ≠ nv.2.sofa.xid) ∧
      (∀ nv ∈ flatCas2.views, ∀ e ∈ Index.all nv.2.idx, Xmi.slot st₂.heap e.oid "sofa" ≠ some .none) ∧
      MembersOk flatCas2 st₂.heap := by
  obtain ⟨c₁, doc₁, st₁, hc₁, hs₁, hwf₁, hf₁, hj₁, hi₁, hd₁, hm₁, hmo₁⟩ := jflatAppliesB_hyps _ _ _ _ _ applies₁
  obtain ⟨c₂, doc₂, st₂, hc₂, hs₂, hwf₂, hf₂, hj₂, hi₂, hd₂, hm₂, hmo₂⟩ := jflatAppliesB_hyps _ _ _ _ _ applies₂
  cases hc₁
  cases hc₂
  have hd := same_doc
  rw [hs₁, hs₂] at hd
  have : doc₁ = doc₂ := by simpa [Except.toOption] using hd
  subst this
  exact ⟨doc₁, st₁, st₂, hs₁, hs₂, hwf₁, hf₁, hj₁, hi₁, hd₁, hm₁, hmo₁, hwf₂, hf₂, hj₂, hi₂, hd₂, hm₂, hmo₂⟩

end FlatDemo

/-! ### the instance with every collection kind in two layouts

`CollDemo.hp` (`Spec/RoundTripCollCheck.lean`) and `CollDemoJ.hpJ`: the ShortArray and LongArray objects have changed
places (addresses 3 and 4) and an unreachable object is appended.  (JSON keeps null and `""` apart: the heap
`CollDemo.hpB` of the XMI example, which differs from `hp` in that way too, is written to a *different* JSON document —
`docs_differ` — although `featContentC` identifies the two; faithfulness is an implication, not an equivalence.) -/

namespace CollDemoJ
open CollDemo

def hpJ : Heap :=
  [ /- 0 -/ { ty := "x.Doc", ts := 0, xid := some 2, slots :=
      [ ("n", .int 7), ("next", .ref 1),
        ("ia", .ref 2), ("sha", .ref 4), ("la", .ref 3), ("ba", .ref 5), ("boa", .ref 6), ("fa", .ref 7), ("da", .ref 8),
        ("sa", .ref 9), ("se", .ref 10), ("fsa", .ref 11), ("fsl", .ref 13), ("il", .ref 16), ("fl", .ref 18),
        ("sl", .ref 21),
        ("mfa", .ref 23), ("mia", .ref 24), ("msa", .ref 25), ("mfl", .ref 27), ("mil", .ref 29), ("msl", .ref 31) ]
      ++ tailSlots 0 2 },
    /- 1 -/ { ty := "x.Doc", ts := 0, xid := none, slots := [("n", .none), ("next", .ref 0)] ++ noColl ++ tailSlots 2 3 },
    /- 2 -/ arr "uima.cas.IntegerArray" (.ints [1, -2, 30]),
    /- 3 -/ arr "uima.cas.LongArray" (.refs []),
    /- 4 -/ arr "uima.cas.ShortArray" (.ints []),
    /- 5 -/ arr "uima.cas.ByteArray" (.ints [0, 255, 16]),
    /- 6 -/ arr "uima.cas.BooleanArray" (.bools [true, false]),
    /- 7 -/ arr "uima.cas.FloatArray" (.floats ["1.5", "-2.0"]),
    /- 8 -/ arr "uima.cas.DoubleArray" (.floats ["1e-05"]),
    /- 9 -/ arr "uima.cas.StringArray" (.strs [some "a b", some "", none, some "c"]),
    /- 10 -/ arr "uima.cas.StringArray" (.strs []),
    /- 11 -/ arr "uima.cas.FSArray" (.refs [some 1, some 0, some 1]),
    /- 12 -/ enode "uima.cas.EmptyFSList",
    /- 13 -/ node "uima.cas.NonEmptyFSList" (.ref 1) (.ref 14),
    /- 14 -/ node "uima.cas.NonEmptyFSList" (.ref 0) (.ref 12),
    /- 15 -/ enode "uima.cas.EmptyIntegerList",
    /- 16 -/ node "uima.cas.NonEmptyIntegerList" (.int 5) (.ref 17),
    /- 17 -/ node "uima.cas.NonEmptyIntegerList" (.int (-6)) (.ref 15),
    /- 18 -/ node "uima.cas.NonEmptyFloatList" (.float "0.25") (.ref 19),
    /- 19 -/ enode "uima.cas.EmptyFloatList",
    /- 20 -/ enode "uima.cas.EmptyStringList",
    /- 21 -/ node "uima.cas.NonEmptyStringList" (.str "x y") (.ref 22),
    /- 22 -/ node "uima.cas.NonEmptyStringList" (.str "") (.ref 20),
    /- 23 -/ arr "uima.cas.FSArray" (.refs [some 0, some 1]),
    /- 24 -/ arr "uima.cas.IntegerArray" (.ints [4, 5]),
    /- 25 -/ arr "uima.cas.StringArray" (.strs [some "p", none]),
    /- 26 -/ enode "uima.cas.EmptyFSList",
    /- 27 -/ node "uima.cas.NonEmptyFSList" (.ref 1) (.ref 26),
    /- 28 -/ enode "uima.cas.EmptyIntegerList",
    /- 29 -/ node "uima.cas.NonEmptyIntegerList" (.int 9) (.ref 28),
    /- 30 -/ enode "uima.cas.EmptyStringList",
    /- 31 -/ node "uima.cas.NonEmptyStringList" (.str "q") (.ref 30),
    /- 32 -/ enode "uima.cas.EmptyStringList" ]

theorem hpJ_ne : hp ≠ hpJ := by decide +kernel
theorem hpJ_length : hpJ.length = hp.length + 1 := by decide +kernel
theorem hpJ_applies : jcollAppliesB K ts [cas] 0 hpJ = true := by decide +kernel

theorem same_doc : (saveJson K ts [cas] 0 hp .none).toOption.map (·.1) =
    (saveJson K ts [cas] 0 hpJ .none).toOption.map (·.1) := by decide +kernel

/-- a null element and `""` of a string array are kept apart by JSON: changing one into the other changes the document -/
theorem docs_differ : (saveJson K ts [cas] 0 hp .none).toOption.map (·.1) ≠
    (saveJson K ts [cas] 0
      (hp.set 9 (arr "uima.cas.StringArray" (.strs [some "a b", none, some "", some "c"]))) .none).toOption.map (·.1) := by
  decide +kernel

/-- both layouts satisfy the hypotheses of `saveJson_faithful_coll` and are written to the same document -/
theorem two_layouts :
    ∃ (doc : JDoc) (st₁ st₂ : Traverse.St),
      saveJson K ts [cas] 0 hp .none = .ok (doc, st₁) ∧ saveJson K ts [cas] 0 hpJ .none = .ok (doc, st₂) ∧
      RTWf cas hp ∧ (∀ q ∈ st₁.allFs, JCollFs K ts cas 0 st₁.heap q.2) ∧
      (∀ nv ∈ cas.views, ∀ e ∈ Index.all nv.2.idx, (xidOf hp e.oid).isSome = true) ∧
      (∀ q ∈ st₁.allFs, ∀ nv ∈ cas.views, q.1 ≠ nv.2.sofa.xid) ∧
      (∀ nv ∈ cas.views, ∀ e ∈ Index.all nv.2.idx, Xmi.slot st₁.heap e.oid "sofa" ≠ some .none) ∧
      MembersOk cas st₁.heap ∧
      RTWf cas hpJ ∧ (∀ q ∈ st₂.allFs, JCollFs K ts cas 0 st₂.heap q.2) ∧
      (∀ nv ∈ cas.views, ∀ e ∈ Index.all nv.2.idx, (xidOf hpJ e.oid).isSome = true) ∧
      (∀ q ∈ st₂.allFs, ∀ nv ∈ cas.views, q.1 ≠ nv.2.sofa.xid) ∧
      (∀ nv ∈ cas.views, ∀ e ∈ Index.all nv.2.idx, Xmi.slot st₂.heap e.oid "sofa" ≠ some .none) ∧
      MembersOk cas st₂.heap := by
  obtain ⟨c₁, doc₁, st₁, hc₁, hs₁, hwf₁, hf₁, hi₁, hd₁, hm₁, hmo₁⟩ := jcollDemo_hyps
  obtain ⟨c₂, doc₂, st₂, hc₂, hs₂, hwf₂, hf₂, hi₂, hd₂, hm₂, hmo₂⟩ := jcollAppliesB_hyps _ _ _ _ _ hpJ_applies
  cases hc₁
  cases hc₂
  have hd := same_doc
  rw [hs₁, hs₂] at hd
  have : doc₁ = doc₂ := by simpa [Except.toOption] using hd
  subst this
  exact ⟨doc₁, st₁, st₂, hs₁, hs₂, hwf₁, hf₁, hi₁, hd₁, hm₁, hmo₁, hwf₂, hf₂, hi₂, hd₂, hm₂, hmo₂⟩

end CollDemoJ

end Cassis.Json
