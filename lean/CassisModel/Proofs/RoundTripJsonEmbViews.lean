/-
Layer 4 of `loadJson_congr`: deferred references (`fixUps`), indexing (`Cas.add`, `addJMembers`, `viewsPass`) and the
assembly for `loadJson`.
-/
import CassisModel.Proofs.RoundTripJsonEmbPass

namespace Cassis.Json
open Cassis.TS

theorem entryOf_sim {o o' : Obj} (h : ObjSim o o') (a : Nat) : Cas.entryOf o' a = Cas.entryOf o a := by
  unfold Cas.entryOf
  rw [h.2.2.2.2 "begin", h.2.2.2.2 "end"]

def pickId (keepId : Bool) (c : Cas) (x : Option Int) : Int × Cas :=
  match keepId, x with
  | true, some x => (x, c)
  | _, _ => (c.nextXid, { c with nextXid := c.nextXid + 1 })

def addObj (cas : Nat) (h : Handle) (o : Obj) (x : Int) : Obj :=
  { o with xid := some x,
           slots := if (alistGet? o.slots "sofa").isSome then alistSet o.slots "sofa" (.sofa cas h.view) else o.slots }

/-- `Cas.add` after the object lookup and the `contains_type` check -/
def addCore (cas : Nat) (c : Cas) (hp : Heap) (h : Handle) (addr : Nat) (keepId : Bool) (o : Obj) :
    Except Err (Cas × Heap) :=
  match Cas.cur c h with
  | .error e => .error e
  | .ok v =>
    match Cas.entryOf (addObj cas h o (pickId keepId c o.xid).1) addr with
    | .error e => .error e
    | .ok e =>
      if (Index.get v.idx o.ty).any (fun x => decide (x.b = Index.NONE_KEY) != decide (e.b = Index.NONE_KEY)) then
        .error .typeError
      else
        .ok (Cas.setViewRec (pickId keepId c o.xid).2 h.view { v with idx := Index.add v.idx o.ty e },
             hp.set addr (addObj cas h o (pickId keepId c o.xid).1))

theorem add_eq (ts : TypeSystem) (cas : Nat) (c : Cas) (hp : Heap) (h : Handle) (addr : Nat) (keepId : Bool) :
    Cas.add ts cas c hp h addr keepId =
      match hp[addr]? with
      | none => .error .attributeError
      | some o =>
        if !h.lenient && !(containsType ts o.ty) then .error .runtimeError
        else addCore cas c hp h addr keepId o := by
  unfold Cas.add addCore
  cases hp[addr]? with
  | none => rfl
  | some o =>
    simp only [bind, Except.bind, pure, Except.pure]
    split
    · rfl
    · cases Cas.cur c h with
      | error e => rfl
      | ok v =>
        unfold addObj pickId
        cases keepId <;> cases o.xid <;> dsimp only <;>
        · cases Cas.entryOf _ addr with
          | error e => rfl
          | ok e =>
            dsimp only
            split <;> rfl

theorem addObj_sim (cas : Nat) (h : Handle) {o o' : Obj} (ho : ObjSim o o') (x : Int) :
    ObjSim (addObj cas h o x) (addObj cas h o' x) := by
  obtain ⟨hty, hts, hxid, hperm, hget⟩ := ho
  unfold addObj
  rw [hget "sofa"]
  refine ⟨hty, hts, rfl, ?_, ?_⟩
  · dsimp only
    split
    · exact (alistSet_sim hperm hget _ _).1
    · exact hperm
  · dsimp only
    split
    · exact (alistSet_sim hperm hget _ _).2
    · exact hget

theorem addCore_sim (cas : Nat) (c : Cas) {hp hp' : Heap} (hh : HeapSim hp hp') (h : Handle) (addr : Nat) (keepId : Bool)
    {o o' : Obj} (ho : ObjSim o o') :
    ESim (fun r r' => r'.1 = r.1 ∧ HeapSim r.2 r'.2) (addCore cas c hp h addr keepId o) (addCore cas c hp' h addr keepId o') := by
  unfold addCore
  rw [ho.1, ho.2.2.1]
  cases Cas.cur c h with
  | error e => exact ESim.err _
  | ok v =>
    dsimp only
    have ho2 := addObj_sim cas h ho (pickId keepId c o.xid).1
    rw [entryOf_sim ho2 addr]
    cases Cas.entryOf (addObj cas h o (pickId keepId c o.xid).1) addr with
    | error e => exact ESim.err _
    | ok e =>
      dsimp only
      split
      · exact ESim.err _
      · exact ESim.ok ⟨rfl, hh.set addr ho2⟩

theorem addCore_ty {cas : Nat} {c : Cas} {hp : Heap} {h : Handle} {addr : Nat} {keepId : Bool} {o : Obj}
    (ho : hp[addr]? = some o) {r : Cas × Heap} (hr : addCore cas c hp h addr keepId o = .ok r) (b : Nat) :
    tyAt r.2 b = tyAt hp b := by
  unfold addCore at hr
  cases hc : Cas.cur c h with
  | error e => rw [hc] at hr; cases hr
  | ok v =>
    rw [hc] at hr
    dsimp only at hr
    cases he : Cas.entryOf (addObj cas h o (pickId keepId c o.xid).1) addr with
    | error e => rw [he] at hr; cases hr
    | ok e =>
      rw [he] at hr
      dsimp only at hr
      split at hr
      · cases hr
      · cases hr
        unfold tyAt
        dsimp only
        rw [List.getElem?_set]
        by_cases hab : addr = b
        · subst hab
          rw [if_pos rfl, ho]
          split
          · rfl
          · rename_i hlt
            rw [List.getElem?_eq_none (by omega)] at ho; cases ho
        · rw [if_neg hab]

theorem add_sim {ts ts' : TypeSystem} (ci : Nat) (c : Cas) {hp hp' : Heap} (hh : HeapSim hp hp') (hd : Handle)
    (a : Nat) (keep : Bool) (hg : ∀ n, tyAt hp a = some n → Good ts ts' n) :
    ESim (fun r r' => r'.1 = r.1 ∧ HeapSim r.2 r'.2) (Cas.add ts ci c hp hd a keep) (Cas.add ts' ci c hp' hd a keep) := by
  rw [add_eq, add_eq]
  rcases hh.get a with ⟨h1, h2⟩ | ⟨o, o', h1, h2, ho⟩
  · rw [h1, h2]; exact ESim.err _
  · rw [h1, h2]
    dsimp only
    obtain ⟨gt, gt'⟩ := hg o.ty (by unfold tyAt; rw [h1]; rfl)
    rw [ho.1, gt, gt']
    simp only [Bool.not_true, Bool.and_false, Bool.false_eq_true, if_false]
    exact addCore_sim ci c hh hd a keep ho

theorem add_ty {ts : TypeSystem} {ci : Nat} {c : Cas} {hp : Heap} {hd : Handle} {a : Nat} {keep : Bool} {r : Cas × Heap}
    (hr : Cas.add ts ci c hp hd a keep = .ok r) (b : Nat) : tyAt r.2 b = tyAt hp b := by
  rw [add_eq] at hr
  cases ho : hp[a]? with
  | none => rw [ho] at hr; cases hr
  | some o =>
    rw [ho] at hr
    dsimp only at hr
    split at hr
    · cases hr
    · exact addCore_ty ho hr b

/-! ### deferred references -/

theorem fixUps_cons_eq : ∃ val : List (Int × Val) → Deferred → Val,
    ∀ (fss : List (Int × Val)) (d : Deferred) (rest : List Deferred) (heap : Heap),
      fixUps fss (d :: rest) heap =
        match Heap.setSlot heap d.addr d.slot (val fss d) with
        | .error e => .error e
        | .ok heap' => fixUps fss rest heap' := by
  refine ⟨?v, ?_⟩
  case v => exact fun fss d => match d.elems with
      | some ids => .refs (ids.map (fun oi => match oi.bind (lookup fss) with
          | some (.ref a) => some a
          | _ => none))
      | none => (d.target.bind (lookup fss)).getD .none
  intro fss d rest heap
  conv => lhs; unfold fixUps
  dsimp only
  cases hs : Heap.setSlot heap d.addr d.slot _ <;> rfl

theorem fixUps_sim (fss : List (Int × Val)) : ∀ (l : List Deferred) {hp hp' : Heap}, HeapSim hp hp' →
    ESim HeapSim (fixUps fss l hp) (fixUps fss l hp') := by
  obtain ⟨val, hval⟩ := fixUps_cons_eq
  intro l
  induction l with
  | nil => intro hp hp' h; exact ESim.ok h
  | cons d rest ih =>
    intro hp hp' h
    rw [hval, hval]
    rcases (setSlot_sim h d.addr d.slot (val fss d)).elim with ⟨e, h1, h2⟩ | ⟨x, y, h1, h2, hr⟩
    · rw [h1, h2]; exact ESim.err _
    · rw [h1, h2]; exact ih hr

theorem fixUps_ty (fss : List (Int × Val)) : ∀ (l : List Deferred) {hp hp1 : Heap}, fixUps fss l hp = .ok hp1 →
    ∀ b, tyAt hp1 b = tyAt hp b := by
  obtain ⟨val, hval⟩ := fixUps_cons_eq
  intro l
  induction l with
  | nil => intro hp hp1 h b; cases h; rfl
  | cons d rest ih =>
    intro hp hp1 h b
    rw [hval] at h
    cases hs : Heap.setSlot hp d.addr d.slot (val fss d) with
    | error e => rw [hs] at h; cases h
    | ok x =>
      rw [hs] at h
      rw [ih h b, tyAt_setSlot hs]

/-! ### the views -/

/-- similar states of the views pass -/
structure VSim (ts ts' : TypeSystem) (fss : List (Int × Val)) (v v' : VState) : Prop where
  cas : v'.cas = v.cas
  heap : HeapSim v.heap v'.heap
  ms : v'.memberSofas = v.memberSofas
  good : ∀ p ∈ fss, ∀ a, p.2 = .ref a → ∃ n, tyAt v.heap a = some n ∧ Good ts ts' n

theorem mem_of_lookup {fss : List (Int × Val)} {i : Int} {v : Val} (h : lookup fss i = some v) : (i, v) ∈ fss := by
  unfold lookup at h
  cases hf : fss.find? (fun p => p.1 == i) with
  | none => rw [hf] at h; cases h
  | some p =>
    rw [hf] at h
    simp only [Option.map_some, Option.some.injEq] at h
    have h1 := List.mem_of_find?_eq_some hf
    have h2 := List.find?_some hf
    have : p = (i, v) := by
      obtain ⟨k, w⟩ := p
      simp only [beq_iff_eq] at h2
      dsimp only at h
      rw [h2, h]
    rw [← this]; exact h1

theorem addJMembers_sim {ts ts' : TypeSystem} (ci : Nat) (hd : Handle) (fss : List (Int × Val)) :
    ∀ (ms : List Int) {v v' : VState}, VSim ts ts' fss v v' →
      ESim (VSim ts ts' fss) (addJMembers ts ci hd fss ms v) (addJMembers ts' ci hd fss ms v') := by
  intro ms
  induction ms with
  | nil => intro v v' hv; exact ESim.ok hv
  | cons m rest ih =>
    intro v v' hv
    obtain ⟨c, h, msf⟩ := v
    obtain ⟨c', h', msf'⟩ := v'
    obtain ⟨e1, hh, e3, hgood⟩ := hv
    dsimp only at e1 hh e3 hgood
    subst e1 e3
    unfold addJMembers
    cases hl : lookup fss m with
    | none => exact ESim.err _
    | some w =>
      cases w with
      | ref a =>
        dsimp only
        rw [hh.slot a "sofa"]
        obtain ⟨n, hn, hgn⟩ := hgood (m, .ref a) (mem_of_lookup hl) a rfl
        rcases (add_sim (ts := ts) (ts' := ts') ci c' hh hd a true
          (fun n' hn' => by rw [hn] at hn'; cases hn'; exact hgn)).elim with ⟨e, h1, h2⟩ | ⟨x, y, h1, h2, hc, hx⟩
        · rw [h1, h2]; exact ESim.err _
        · rw [h1, h2]
          obtain ⟨xc, xh⟩ := x
          obtain ⟨yc, yh⟩ := y
          dsimp only at hc hx ⊢
          subst hc
          have hty1 : ∀ b, tyAt xh b = tyAt h b := add_ty h1
          -- the optional restoration of the sofa the document names
          have cont : ∀ (own : Option Val) (ms' : List (Int × Option Val)),
              ESim (VSim ts ts' fss)
                (match (match own with
                    | some w => if w != .none then Heap.setSlot xh a "sofa" w else .ok xh
                    | none => .ok xh : Except Err Heap) with
                  | .error e => .error e
                  | .ok heap'' => addJMembers ts ci hd fss rest { cas := yc, heap := heap'', memberSofas := ms' })
                (match (match own with
                    | some w => if w != .none then Heap.setSlot yh a "sofa" w else .ok yh
                    | none => .ok yh : Except Err Heap) with
                  | .error e => .error e
                  | .ok heap'' => addJMembers ts' ci hd fss rest { cas := yc, heap := heap'', memberSofas := ms' }) := by
            intro own ms'
            have keep : VSim ts ts' fss { cas := yc, heap := xh, memberSofas := ms' }
                { cas := yc, heap := yh, memberSofas := ms' } :=
              ⟨rfl, hx, rfl, fun p hp b hb => by
                obtain ⟨n2, h3, h4⟩ := hgood p hp b hb
                exact ⟨n2, by rw [hty1]; exact h3, h4⟩⟩
            cases own with
            | none => exact ih keep
            | some w =>
              dsimp only
              by_cases hw : (w != Val.none) = true
              · rw [if_pos hw, if_pos hw]
                rcases (setSlot_sim hx a "sofa" w).elim with ⟨e, h5, h6⟩ | ⟨z, z', h5, h6, hz⟩
                · rw [h5, h6]; exact ESim.err _
                · rw [h5, h6]
                  refine ih ⟨rfl, hz, rfl, fun p hp b hb => ?_⟩
                  obtain ⟨n2, h3, h4⟩ := hgood p hp b hb
                  exact ⟨n2, by rw [tyAt_setSlot h5, hty1]; exact h3, h4⟩
              · rw [if_neg hw, if_neg hw]
                exact ih keep
          cases hfm : msf'.find? (fun q => q.1 == m) with
          | none => exact cont _ _
          | some q => exact cont _ _
      | _ => exact ESim.err _

theorem viewsPass_sim {ts ts' : TypeSystem} (ci : Nat) (lenient : Bool) (fss : List (Int × Val)) :
    ∀ (l : List JView) {v v' : VState}, VSim ts ts' fss v v' →
      ESim (VSim ts ts' fss) (viewsPass ts ci lenient fss l v) (viewsPass ts' ci lenient fss l v') := by
  intro l
  induction l with
  | nil => intro v v' hv; exact ESim.ok hv
  | cons jv rest ih =>
    intro v v' hv
    unfold viewsPass
    dsimp only
    rw [hv.cas]
    split
    · exact ESim.err _
    · rename_i c hc
      rcases (addJMembers_sim ci { view := jv.name, lenient := lenient } fss jv.members
        (v := { v with cas := c }) (v' := { v' with cas := c }) ⟨rfl, hv.heap, hv.ms, hv.good⟩).elim with
        ⟨e, h1, h2⟩ | ⟨x, y, h1, h2, hr⟩
      · rw [h1, h2]; exact ESim.err _
      · rw [h1, h2]; exact ih hr

/-! ### the reader -/

/-- **the reader depends on the type system only through the types the document names** -/
theorem loadJson_congr_aux (K : Consts) (ts ts' : TypeSystem) (tsIdx ci : Nat) (lenient : Bool) (hp : Heap) (doc : JDoc)
    (hag : ∀ j ∈ doc.fss, TypeAgree ts ts' (fsTypeName j)) :
    LoadSim (loadJson K ts tsIdx ci lenient false hp doc) (loadJson K ts' tsIdx ci lenient false hp doc) := by
  unfold loadJson loadTs
  simp only [Bool.false_eq_true, if_false]
  have h0 : RSim ts ts' { cas := Cas.empty, heap := hp } { cas := Cas.empty, heap := hp } :=
    ⟨rfl, HeapSim.refl hp, rfl, rfl, rfl, rfl, fun p hp' => by cases hp'⟩
  rcases (sofaPass_sim K tsIdx ci doc.fss hag doc.fss h0).elim with ⟨e, h1, h2⟩ | ⟨s1, s1', h1, h2, hr1⟩
  · rw [h1, h2]; rfl
  · rw [h1, h2]
    dsimp only
    rcases (fsPass_sim K tsIdx doc.fss hag hr1).elim with ⟨e, h3, h4⟩ | ⟨s, s', h3, h4, hr⟩
    · rw [h3, h4]; rfl
    · rw [h3, h4]
      dsimp only
      rw [hr.fss, hr.deferred]
      rcases (fixUps_sim s.fss s.deferred hr.heap).elim with ⟨e, h5, h6⟩ | ⟨x, y, h5, h6, hx⟩
      · rw [h5, h6]; rfl
      · rw [h5, h6]
        dsimp only
        rw [hr.cas, hr.maxId, hr.maxNum]
        rcases (viewsPass_sim (ts := ts) (ts' := ts') ci lenient s.fss doc.views
          (v := { cas := { s.cas with nextXid := s.maxId + 1, nextSofaNum := s.maxNum + 1 }, heap := x })
          (v' := { cas := { s.cas with nextXid := s.maxId + 1, nextSofaNum := s.maxNum + 1 }, heap := y })
          ⟨rfl, hx, rfl, fun p hp' a ha => by
            obtain ⟨n, hn1, hn2⟩ := hr.good p hp' a ha
            exact ⟨n, by rw [fixUps_ty _ _ h5]; exact hn1, hn2⟩⟩).elim with ⟨e, h7, h8⟩ | ⟨v, v', h7, h8, hv⟩
        · rw [h7, h8]; rfl
        · rw [h7, h8]
          exact ⟨hv.cas, hv.heap⟩

end Cassis.Json
