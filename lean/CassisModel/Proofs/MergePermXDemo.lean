/-
Non-vacuity of `merge_perm_leaf_compete` (`Properties/C13Perm.lean.proposed`): a Boolean test of its hypotheses, proved
sound, and a concrete declaration list with a name (`x.X`) declared below three different, comparable supertypes.
-/
import CassisModel.Proofs.MergePermXMain
import CassisModel.Proofs.MergePermDemo

namespace Cassis.TS

/-- Boolean test of the hypotheses of `merge_perm_leaf_compete`, for a given rank function -/
def competeHypsB (K : Consts) (rank : String → Nat) (decls : List Decl) : Bool :=
  decls.all (fun d => K.predefined.contains d.super || (decls.map (·.name)).contains d.super) &&
  decls.all (fun d => K.predefined.contains d.super || decide (rank d.super < rank d.name)) &&
  decls.all (fun d => !(K.predefined.contains d.name) && decide ('.' ∈ d.name.toList)) &&
  decls.all (fun d => d.name != DOCUMENT_ANNOTATION || d.super == ANNOTATION) &&
  decls.all (fun d => decls.all (fun d' => d.name != d'.name || d.super == d'.super ||
    (decls.all (fun e => e.super != d.name) && !(K.finalTypes.contains d.super))))

theorem competeHypsB_sound (K : Consts) (rank : String → Nat) (decls : List Decl)
    (h : competeHypsB K rank decls = true) :
    ClosedDecls K decls ∧ UserDecls K decls ∧ BaseAgree decls ∧ LeafCompete decls ∧ CompeteNonFinal K decls := by
  unfold competeHypsB at h
  simp only [Bool.and_eq_true, List.all_eq_true] at h
  obtain ⟨⟨⟨⟨h1, h2⟩, h3⟩, h4⟩, h5⟩ := h
  have key : ∀ d ∈ decls, ∀ d' ∈ decls, d.name = d'.name → d.super ≠ d'.super →
      (∀ e ∈ decls, e.super ≠ d.name) ∧ K.finalTypes.contains d.super = false := by
    intro d hd d' hd' hn hne
    have := h5 d hd d' hd'
    simp only [Bool.or_eq_true, bne_iff_ne, ne_eq, beq_iff_eq, Bool.and_eq_true, List.all_eq_true,
      Bool.not_eq_true'] at this
    rcases this with (h | h) | h
    · exact absurd hn h
    · exact absurd h hne
    · exact h
  refine ⟨⟨?_, rank, ?_⟩, ?_, ?_, ?_, ?_⟩
  · intro d hd
    have := h1 d hd
    simp only [Bool.or_eq_true, List.contains_eq_mem, decide_eq_true_eq] at this
    rcases this with h | h
    · exact Or.inl (by simpa using h)
    · exact Or.inr h
  · intro d hd hp
    have := h2 d hd
    rw [hp] at this
    simpa using this
  · intro d hd
    have := h3 d hd
    rw [String.contains_char_eq]
    simpa using this
  · intro d hd hn
    have := h4 d hd
    simp only [Bool.or_eq_true, bne_iff_ne, ne_eq, beq_iff_eq] at this
    rcases this with h | h
    · exact absurd hn h
    · exact h
  · rintro n ⟨d, hd, d', hd', h1', h2', hne⟩ e he
    rw [← h1']
    exact (key d hd d' hd' (h1'.trans h2'.symm) hne).1 e he
  · rintro d hd ⟨d1, hd1, d2, hd2, h1', h2', hne⟩
    -- `d` differs in its supertype from `d1` or from `d2`
    by_cases hs : d.super = d1.super
    · exact (key d hd d2 hd2 h2'.symm (by rw [hs]; exact hne)).2
    · exact (key d hd d1 hd1 h1'.symm hs).2

def demoRankX (n : String) : Nat :=
  if n == "x.A" then 1 else if n == "x.B" then 2 else if n == "x.X" then 3 else 0

/-- `x.X` is declared below `x.A`, below its subtype `x.B` and below `uima.tcas.Annotation` -/
def demoX : List Decl := [
  { name := "x.A", super := ANNOTATION, own := [demoFeat "f" "uima.cas.Integer"] },
  { name := "x.X", super := "x.A", own := [demoFeat "g" "uima.cas.String"] },
  { name := "x.B", super := "x.A", own := [demoFeat "h" "x.X"] },
  { name := "x.X", super := "x.B", own := [demoFeat "f" "uima.cas.Integer"] },
  { name := "x.X", super := ANNOTATION, descr := some "again", own := [demoFeat "k" "uima.cas.FSArray"] } ]

theorem demoX_hyps : competeHypsB Gen.consts demoRankX demoX = true := by decide +kernel

/-- the hypotheses hold on `demoX`, both orders succeed — hence, by the theorem, with the same hierarchy -/
theorem demoX_sameHier : ∃ ts ts', mergeDecls Gen.consts Gen.builtinTS demoX = .ok ts ∧
    mergeDecls Gen.consts Gen.builtinTS demoX.reverse = .ok ts' ∧ SameHier ts ts' := by
  obtain ⟨hc, hu, hb, hl, hnf⟩ := competeHypsB_sound _ _ _ demoX_hyps
  have key := merge_perm_leaf_compete_aux demoX demoX.reverse (List.reverse_perm demoX).symm hc hu hb hl hnf
  have e1 : (mergeDecls Gen.consts Gen.builtinTS demoX).toOption.isSome = true := by
    rw [mergeDecls_eq_S]; decide +kernel
  have e2 : (mergeDecls Gen.consts Gen.builtinTS demoX.reverse).toOption.isSome = true := by
    rw [mergeDecls_eq_S]; decide +kernel
  cases h : mergeDecls Gen.consts Gen.builtinTS demoX with
  | error e => rw [h] at e1; cases e1
  | ok ts =>
    cases h' : mergeDecls Gen.consts Gen.builtinTS demoX.reverse with
    | error e => rw [h'] at e2; cases e2
    | ok ts' =>
      rw [h, h'] at key
      exact ⟨ts, ts', rfl, rfl, key⟩

/-- `x.X` ends below the most specific of its declared supertypes, in either order -/
example : ((mergeDecls Gen.consts Gen.builtinTS demoX).toOption.bind (fun ts => find? ts "x.X")).map (·.super)
    = some (some "x.B") := by rw [mergeDecls_eq_S]; decide +kernel
example : ((mergeDecls Gen.consts Gen.builtinTS demoX.reverse).toOption.bind (fun ts => find? ts "x.X")).map (·.super)
    = some (some "x.B") := by rw [mergeDecls_eq_S]; decide +kernel

/-- the hypothesis on final types is needed: `x.X` below `uima.cas.ArrayBase` and below the final
    `uima.cas.IntegerArray` merges in one order (the re-parenting branch does not check finality) and fails in the
    other (`create_type` does) -/
def demoFinal : List Decl := [{ name := "x.X", super := "uima.cas.ArrayBase" }, { name := "x.X", super := "uima.cas.IntegerArray" }]
example : (mergeDecls Gen.consts Gen.builtinTS demoFinal).toOption.isSome = true ∧
    (mergeDecls Gen.consts Gen.builtinTS demoFinal.reverse).toOption.isSome = false := by
  rw [mergeDecls_eq_S, mergeDecls_eq_S]; decide +kernel

end Cassis.TS
