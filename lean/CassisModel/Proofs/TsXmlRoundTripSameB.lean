/-
C12 round trip, layer 7b: inherited features, children and effective features of the loaded type system; `SameXml`.
-/
import CassisModel.Proofs.TsXmlRoundTripSameA

namespace Cassis.TsXml
open Cassis.TS

/-! ### without shadowing, the effective features are own ++ inherited -/

theorem dedup_id : ∀ (l seen : List Feature), (fnames l).Nodup →
    (∀ s ∈ seen, ∀ f ∈ l, s.name ≠ f.name) → dedupFeatures l seen = l := by
  intro l
  induction l with
  | nil => intro _ _ _; rfl
  | cons f fs ih =>
    intro seen hn hs
    simp only [fnames, List.map_cons, List.nodup_cons] at hn
    have hany : seen.any (featureEq · f) = false := by
      rw [List.any_eq_false]
      intro s hsm he
      exact hs s hsm f List.mem_cons_self (featureEq_name (by simpa using he))
    unfold dedupFeatures
    rw [hany]
    simp only [Bool.false_eq_true, if_false]
    rw [ih (seen ++ [f]) hn.2 (by
      intro s hsm g hg
      rcases List.mem_append.mp hsm with h | h
      · exact hs s h g (List.mem_cons_of_mem _ hg)
      · simp only [List.mem_singleton] at h
        subst h
        intro e
        exact hn.1 (List.mem_map.mpr ⟨g, hg, e.symm⟩))]

theorem eff_names_nodup {ts : TypeSystem} (hf : FeatInv ts) (hns : NoShadow ts) {t : TypeRec} (ht : t ∈ ts.types) :
    (fnames (t.own ++ t.inh)).Nodup := by
  rw [fnames_append, List.nodup_append]
  refine ⟨hf.ownNodup t ht, hf.inhNodup t ht, ?_⟩
  intro a ha b hb e
  obtain ⟨f, hfm, hfn⟩ := mem_fnames.mp ha
  obtain ⟨g, hg, hgn⟩ := mem_fnames.mp hb
  exact hns t ht f hfm g hg (by rw [hgn, hfn, e])

theorem allFeatures_eq {ts : TypeSystem} (hf : FeatInv ts) (hns : NoShadow ts) {t : TypeRec} (ht : t ∈ ts.types) :
    allFeatures t = t.own ++ t.inh :=
  dedup_id _ [] (eff_names_nodup hf hns ht) (fun s hs => by cases hs)

/-- the inherited features are the supertype's effective features, as records -/
theorem inh_perm {ts : TypeSystem} (hf : FeatInv ts) (hi : InhSub ts) (hns : NoShadow ts) {t ps : TypeRec}
    {s : String} (ht : t ∈ ts.types) (hs : t.super = some s) (hps : find? ts s = some ps) :
    t.inh.Perm (ps.own ++ ps.inh) := by
  have hnd := eff_names_nodup hf hns (find?_mem hps)
  have n1 : t.inh.Nodup := List.Pairwise.of_map (·.name) (fun a b h e => h (e ▸ rfl)) (hf.inhNodup t ht)
  have n2 : (ps.own ++ ps.inh).Nodup := List.Pairwise.of_map (·.name) (fun a b h e => h (e ▸ rfl)) hnd
  rw [List.perm_ext_iff_of_nodup n1 n2]
  intro g
  constructor
  · exact hi t ht s ps hs hps g
  · intro hg
    have hn : g.name ∈ fnames t.inh := by
      rw [hf.inherit' ht hs hps, ← List.mem_append, ← fnames_append]
      exact mem_fnames_of_mem hg
    obtain ⟨g', hg', e⟩ := mem_fnames.mp hn
    have hg'' := hi t ht s ps hs hps g' hg'
    rw [← feat_inj_of_nodup _ hnd g' hg'' g hg e]
    exact hg'

/-! ### inherited features, parents first -/

theorem inh_corr {ts : TypeSystem} {d0 : Descriptor} {ts2 : TypeSystem} {R : List String}
    (L : Loaded ts d0 ts2 R) : ∀ (i : Nat) (hi : i < ts.types.length) (t' : TypeRec),
      find? ts2 (ts.types[i]).name = some t' →
      (t'.inh.map renderFeat).Perm ((ts.types[i]).inh.map (fun f => trimF (renderFeat f))) := by
  have hc := L.hx.hist.cons
  have hns2 := noShadow_loaded L
  intro i
  induction i using Nat.strongRecOn with
  | ind i ih =>
    intro hi t' ht'
    have htm : ts.types[i] ∈ ts.types := List.getElem_mem hi
    have ht : find? ts (ts.types[i]).name = some ts.types[i] := find?_getElem hc.nodup i hi
    obtain ⟨t'', ht'', hsup, _⟩ := rec_corr L ht
    rw [ht'] at ht''; cases ht''
    cases hs : (ts.types[i]).super with
    | none =>
      rw [L.hx.hist.feat.rootInh _ htm hs, L.inv.feat.rootInh t' (find?_mem ht') (by rw [hsup]; exact hs)]
      exact List.Perm.refl _
    | some s =>
      obtain ⟨j, hj, hjl, hjn⟩ := hc.topo i hi s hs
      have hps : find? ts s = some ts.types[j] := by rw [← hjn]; exact find?_getElem hc.nodup j hjl
      obtain ⟨ps', hps', _, _, hown, _⟩ := rec_corr L hps
      have ihj := ih j hj hjl ps' (by rw [hjn]; exact hps')
      have p1 := inh_perm L.hx.hist.feat L.hx.inhSub L.ns htm hs hps
      have p2 := inh_perm L.inv.feat L.inv.inhSub hns2 (find?_mem ht') (by rw [hsup]; exact hs) hps'
      have q1 := p1.map (fun f => trimF (renderFeat f))
      have q2 := p2.map renderFeat
      refine q2.trans (List.Perm.trans ?_ q1.symm)
      rw [List.map_append, List.map_append, hown, List.map_map]
      exact List.Perm.append_left _ ihj

/-! ### children -/

theorem children_corr {ts : TypeSystem} {d0 : Descriptor} {ts2 : TypeSystem} {R : List String}
    (L : Loaded ts d0 ts2 R) {n : String} {t t' : TypeRec} (ht : find? ts n = some t)
    (ht' : find? ts2 n = some t') : t'.children.Perm t.children := by
  have hc := L.hx.hist.cons
  rw [List.perm_ext_iff_of_nodup (L.inv.cons.childNodup t' (find?_mem ht')) (hc.childNodup t (find?_mem ht))]
  intro c
  constructor
  · intro hm
    obtain ⟨tc', htc', hsc'⟩ := (L.inv.cons.link n c).mp ⟨t', ht', hm⟩
    obtain ⟨tc, htc, hr⟩ := sub_trTs L.inv.sub htc'
    have hsc : tc.super = some n := by
      have := hr.super
      rw [hsc'] at this
      exact this
    obtain ⟨ta, hta, hmem⟩ := (hc.link n c).mpr ⟨tc, htc, hsc⟩
    rw [ht] at hta; cases hta
    exact hmem
  · intro hm
    obtain ⟨tc, htc, hsc⟩ := (hc.link n c).mp ⟨t, ht, hm⟩
    obtain ⟨tc', htc', hsup, _⟩ := rec_corr L htc
    obtain ⟨ta, hta, hmem⟩ := (L.inv.cons.link n c).mpr ⟨tc', htc', by rw [hsup]; exact hsc⟩
    rw [ht'] at hta; cases hta
    exact hmem

/-! ### the comparison -/

theorem render_corr {t t' : TypeRec} (hn : t'.name = t.name) (hs : t'.super = t.super)
    (hd : t'.descr = trD t.descr) (ho : t'.own.map renderFeat = (t.own.map renderFeat).map trimF) :
    renderType t' = trimT (renderType t) := by
  unfold renderType trimT
  simp only [TDesc.mk.injEq]
  exact ⟨hn, by rw [hd]; rfl, by rw [hs], ho⟩

theorem sameXml_loaded {ts : TypeSystem} {d0 : Descriptor} {ts2 : TypeSystem} {R : List String}
    (L : Loaded ts d0 ts2 R) : SameXml ts { ts2 with redeclared := R } := by
  intro n
  rw [find?_red ts2 R n]
  cases ht : find? ts n with
  | none =>
    cases ht' : find? ts2 n with
    | none => trivial
    | some t' =>
      have := (names_iff L n).mp ((hasExact_iff_find ts2 n).mpr ⟨t', ht'⟩)
      obtain ⟨t, ht0⟩ := (hasExact_iff_find ts n).mp this
      rw [ht] at ht0; cases ht0
  | some t =>
    obtain ⟨t', ht', hsup, hd, hown, _⟩ := rec_corr L ht
    rw [ht']
    show t'.super = t.super ∧ renderType t' = trimT (renderType t) ∧ t'.children.Perm t.children ∧
      ((allFeatures t').map renderFeat).Perm ((allFeatures t).map (fun f => trimF (renderFeat f)))
    refine ⟨hsup, render_corr ((find?_name ht').trans (find?_name ht).symm) hsup hd hown,
      children_corr L ht ht', ?_⟩
    rw [allFeatures_eq L.inv.feat (noShadow_loaded L) (find?_mem ht'),
      allFeatures_eq L.hx.hist.feat L.ns (find?_mem ht), List.map_append, List.map_append, hown, List.map_map]
    apply List.Perm.append_left
    obtain ⟨i, hi, e⟩ := find?_idx ht
    have := inh_corr L i hi t' (by rw [e, find?_name ht]; exact ht')
    rw [e] at this
    exact this

end Cassis.TsXml
