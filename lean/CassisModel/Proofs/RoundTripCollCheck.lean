/-
Soundness of the Boolean checkers of `Spec/RoundTripCollCheck.lean`: each `…B … = true` implies the corresponding
part of the fragment `CollFs` (`Spec/RoundTripCollFrag.lean`); `collAppliesB_hyps` gives every hypothesis of
`xmi_roundtrip_coll` from `collAppliesB … = true` (parallel to `rtAppliesB_hyps`, `Proofs/RoundTripCheck.lean`).
-/
import CassisModel.Spec.RoundTripCollCheck
import CassisModel.Proofs.RoundTripCheck

namespace Cassis.Xmi.CC
open Cassis.TS Cassis.Traverse Cassis.Xmi

/-! ### tokens, range kinds, array types -/

theorem tokOkB_sound (t : String) (h : tokOkB t = true) : TokOk t := by
  unfold tokOkB at h
  simp only [Bool.and_eq_true, Bool.not_eq_true', List.all_eq_true] at h
  obtain ⟨h1, h2⟩ := h
  refine ⟨?_, fun c hc => ?_⟩
  · intro he; rw [he] at h1; exact absurd h1 (by simp)
  · have := h2 c hc
    cases hw : Lex.isWs c with
    | false => rfl
    | true => rw [hw] at this; exact absurd this (by simp)

theorem rangeKindB_sound (K : Consts) (ts : TypeSystem) (r : String) (pa pl ar li sa sl : Bool)
    (h : rangeKindB K ts r pa pl ar li sa sl = true) : RangeKind K ts r pa pl ar li sa sl := by
  unfold rangeKindB at h
  simp only [Bool.and_eq_true, beq_iff_eq, Bool.not_eq_true'] at h
  obtain ⟨⟨⟨⟨⟨⟨h1, h2⟩, h3⟩, h4⟩, h5⟩, h6⟩, h7⟩ := h
  exact ⟨h1, h2, h3, h4, h5, h6, h7⟩

theorem intArrTyB_sound (r : String) (h : intArrTyB r = true) : IntArrTy r := by
  unfold intArrTyB at h
  simp only [Bool.or_eq_true, decide_eq_true_eq] at h
  rcases h with (h | h) | h
  · exact .inl h
  · exact .inr (.inl h)
  · exact .inr (.inr h)

theorem floatArrTyB_sound (r : String) (h : floatArrTyB r = true) : FloatArrTy r := by
  unfold floatArrTyB at h
  simp only [Bool.or_eq_true, decide_eq_true_eq] at h
  exact h

theorem primArrTyB_sound (r : String) (h : primArrTyB r = true) : PrimArrTy r := by
  unfold primArrTyB at h
  simp only [Bool.or_eq_true, decide_eq_true_eq] at h
  rcases h with ((h | h) | h) | h
  · exact .inl (intArrTyB_sound r h)
  · exact .inr (.inl h)
  · exact .inr (.inr (.inl h))
  · exact .inr (.inr (.inr (floatArrTyB_sound r h)))

/-! ### `elements` -/

theorem isEmpty_eq_nil {α : Type} (l : List α) (h : l.isEmpty = true) : l = [] := by
  cases l with
  | nil => rfl
  | cons a l => exact absurd h (by simp)

theorem primElemsB_sound (r : String) (ev : Val) (h : primElemsB r ev = true) : PrimElems r ev := by
  cases ev with
  | refs l =>
    simp only [primElemsB] at h
    exact .inl (by rw [isEmpty_eq_nil l h])
  | ints l =>
    simp only [primElemsB, Bool.or_eq_true, Bool.and_eq_true, decide_eq_true_eq, List.all_eq_true] at h
    rcases h with h | ⟨h1, h2⟩
    · exact .inr (.inl ⟨intArrTyB_sound r h, l, rfl⟩)
    · exact .inr (.inr (.inl ⟨h1, l, rfl, h2⟩))
  | bools l =>
    simp only [primElemsB, decide_eq_true_eq] at h
    exact .inr (.inr (.inr (.inl ⟨h, l, rfl⟩)))
  | floats l =>
    simp only [primElemsB, Bool.and_eq_true, List.all_eq_true] at h
    exact .inr (.inr (.inr (.inr ⟨floatArrTyB_sound r h.1, l, rfl, fun t ht => tokOkB_sound t (h.2 t ht)⟩)))
  | none => exact absurd h (by simp [primElemsB])
  | int i => exact absurd h (by simp [primElemsB])
  | str s => exact absurd h (by simp [primElemsB])
  | bool b => exact absurd h (by simp [primElemsB])
  | float t => exact absurd h (by simp [primElemsB])
  | ref a => exact absurd h (by simp [primElemsB])
  | sofa a b => exact absurd h (by simp [primElemsB])
  | strs l => exact absurd h (by simp [primElemsB])
  | attr t => exact absurd h (by simp [primElemsB])

theorem strElemsB_sound (ev : Val) (h : strElemsB ev = true) : StrElems ev := by
  cases ev with
  | refs l =>
    simp only [strElemsB] at h
    exact .inl (by rw [isEmpty_eq_nil l h])
  | strs l => exact .inr ⟨l, rfl⟩
  | none => exact absurd h (by simp [strElemsB])
  | int i => exact absurd h (by simp [strElemsB])
  | str s => exact absurd h (by simp [strElemsB])
  | bool b => exact absurd h (by simp [strElemsB])
  | float t => exact absurd h (by simp [strElemsB])
  | ref a => exact absurd h (by simp [strElemsB])
  | sofa a b => exact absurd h (by simp [strElemsB])
  | ints l => exact absurd h (by simp [strElemsB])
  | floats l => exact absurd h (by simp [strElemsB])
  | bools l => exact absurd h (by simp [strElemsB])
  | attr t => exact absurd h (by simp [strElemsB])

theorem refOkB'_sound (hp : Heap) (b : Nat) (h : refOkB' hp b = true) : RefOk hp b := by
  unfold refOkB' at h
  simp only [Bool.and_eq_true, decide_eq_true_eq] at h
  exact h

/-- a list of references without null elements, each target checked -/
theorem refsAll_sound (hp : Heap) (l : List (Option Nat))
    (h : l.all (fun r => match r with
      | some b => refOkB' hp b
      | none => false) = true) :
    ∃ l' : List Nat, l = l'.map some ∧ ∀ b ∈ l', RefOk hp b := by
  induction l with
  | nil => exact ⟨[], rfl, fun b hb => absurd hb (by simp)⟩
  | cons r l ih =>
    rw [List.all_cons, Bool.and_eq_true] at h
    obtain ⟨hr, hl⟩ := h
    obtain ⟨l', e, hl'⟩ := ih hl
    cases r with
    | none => exact absurd hr (by simp)
    | some b =>
      refine ⟨b :: l', by rw [e]; rfl, ?_⟩
      intro x hx
      rcases List.mem_cons.mp hx with hx | hx
      · rw [hx]; exact refOkB'_sound hp b hr
      · exact hl' x hx

theorem fsElemsB_sound (hp : Heap) (ev : Val) (h : fsElemsB hp ev = true) : FsElems hp ev := by
  cases ev with
  | refs l =>
    simp only [fsElemsB] at h
    obtain ⟨l', e, hl'⟩ := refsAll_sound hp l h
    exact ⟨l', by rw [e], hl'⟩
  | none => exact absurd h (by simp [fsElemsB])
  | int i => exact absurd h (by simp [fsElemsB])
  | str s => exact absurd h (by simp [fsElemsB])
  | bool b => exact absurd h (by simp [fsElemsB])
  | float t => exact absurd h (by simp [fsElemsB])
  | ref a => exact absurd h (by simp [fsElemsB])
  | sofa a b => exact absurd h (by simp [fsElemsB])
  | ints l => exact absurd h (by simp [fsElemsB])
  | floats l => exact absurd h (by simp [fsElemsB])
  | bools l => exact absurd h (by simp [fsElemsB])
  | strs l => exact absurd h (by simp [fsElemsB])
  | attr t => exact absurd h (by simp [fsElemsB])

/-! ### shared and inlined collection features -/

theorem sharedFeatB_sound (K : Consts) (ts : TypeSystem) (hp : Heap) (o : Obj) (f : Feature)
    (h : sharedFeatB K ts hp o f = true) : SharedFeat K ts hp o f := by
  unfold sharedFeatB at h
  simp only [Bool.and_eq_true, decide_eq_true_eq, Bool.or_eq_true, Bool.not_eq_true'] at h
  obtain ⟨⟨⟨⟨⟨⟨h1, h2⟩, h3⟩, h4⟩, h5⟩, h6⟩, h7⟩ := h
  refine ⟨h1, h2, h3, h4, h5, h6, ?_⟩
  cases hv : alistGet? o.slots f.name with
  | none => rw [hv] at h7; exact absurd h7 (by simp)
  | some v =>
    rw [hv] at h7
    refine ⟨v, rfl, ?_⟩
    cases v with
    | none => exact .inl rfl
    | ref b => exact .inr ⟨b, rfl, refOkB'_sound hp b h7⟩
    | int i => exact absurd h7 (by simp)
    | str s => exact absurd h7 (by simp)
    | bool b => exact absurd h7 (by simp)
    | float t => exact absurd h7 (by simp)
    | sofa a b => exact absurd h7 (by simp)
    | refs l => exact absurd h7 (by simp)
    | ints l => exact absurd h7 (by simp)
    | floats l => exact absurd h7 (by simp)
    | bools l => exact absurd h7 (by simp)
    | strs l => exact absurd h7 (by simp)
    | attr t => exact absurd h7 (by simp)

theorem inlArrB_sound (hp : Heap) (P : Val → Bool) (Q : Val → Prop) (hPQ : ∀ ev, P ev = true → Q ev) (v : Val)
    (h : inlArrB hp P v = true) : InlArr hp Q v := by
  cases v with
  | none => exact .inl rfl
  | ref arr =>
    simp only [inlArrB] at h
    cases he : slot hp arr "elements" with
    | none => rw [he] at h; exact absurd h (by simp)
    | some ev =>
      rw [he] at h
      exact .inr ⟨arr, ev, rfl, he, hPQ ev h⟩
  | int i => exact absurd h (by simp [inlArrB])
  | str s => exact absurd h (by simp [inlArrB])
  | bool b => exact absurd h (by simp [inlArrB])
  | float t => exact absurd h (by simp [inlArrB])
  | sofa a b => exact absurd h (by simp [inlArrB])
  | refs l => exact absurd h (by simp [inlArrB])
  | ints l => exact absurd h (by simp [inlArrB])
  | floats l => exact absurd h (by simp [inlArrB])
  | bools l => exact absurd h (by simp [inlArrB])
  | strs l => exact absurd h (by simp [inlArrB])
  | attr t => exact absurd h (by simp [inlArrB])

theorem inlListB_sound (hp : Heap) (P : List Val → Bool) (Q : List Val → Prop) (hPQ : ∀ hs, P hs = true → Q hs)
    (v : Val) (h : inlListB hp P v = true) : InlList hp Q v := by
  cases v with
  | none => exact .inl rfl
  | ref a =>
    simp only [inlListB] at h
    cases hc : collectList hp (hp.length + 1) (.ref a) with
    | error e => rw [hc] at h; exact absurd h (by simp)
    | ok hs =>
      rw [hc] at h
      exact .inr ⟨a, hs, rfl, hc, hPQ hs h⟩
  | int i => exact absurd h (by simp [inlListB])
  | str s => exact absurd h (by simp [inlListB])
  | bool b => exact absurd h (by simp [inlListB])
  | float t => exact absurd h (by simp [inlListB])
  | sofa a b => exact absurd h (by simp [inlListB])
  | refs l => exact absurd h (by simp [inlListB])
  | ints l => exact absurd h (by simp [inlListB])
  | floats l => exact absurd h (by simp [inlListB])
  | bools l => exact absurd h (by simp [inlListB])
  | strs l => exact absurd h (by simp [inlListB])
  | attr t => exact absurd h (by simp [inlListB])

theorem isIntV_sound (h : Val) (hh : isIntV h = true) : ∃ i : Int, h = .int i := by
  cases h <;> simp [isIntV] at hh ⊢

theorem isFloatTokV_sound (h : Val) (hh : isFloatTokV h = true) : ∃ t : String, h = .float t ∧ TokOk t := by
  cases h with
  | float t => exact ⟨t, rfl, tokOkB_sound t hh⟩
  | none => exact absurd hh (by simp [isFloatTokV])
  | int i => exact absurd hh (by simp [isFloatTokV])
  | str s => exact absurd hh (by simp [isFloatTokV])
  | bool b => exact absurd hh (by simp [isFloatTokV])
  | ref a => exact absurd hh (by simp [isFloatTokV])
  | sofa a b => exact absurd hh (by simp [isFloatTokV])
  | refs l => exact absurd hh (by simp [isFloatTokV])
  | ints l => exact absurd hh (by simp [isFloatTokV])
  | floats l => exact absurd hh (by simp [isFloatTokV])
  | bools l => exact absurd hh (by simp [isFloatTokV])
  | strs l => exact absurd hh (by simp [isFloatTokV])
  | attr t => exact absurd hh (by simp [isFloatTokV])

theorem isStrOrNoneV_sound (h : Val) (hh : isStrOrNoneV h = true) : h = .none ∨ ∃ s : String, h = .str s := by
  cases h <;> simp [isStrOrNoneV] at hh ⊢

theorem isRefOkV_sound (hp : Heap) (h : Val) (hh : isRefOkV hp h = true) : ∃ b : Nat, h = .ref b ∧ RefOk hp b := by
  cases h with
  | ref b => exact ⟨b, rfl, refOkB'_sound hp b hh⟩
  | none => exact absurd hh (by simp [isRefOkV])
  | int i => exact absurd hh (by simp [isRefOkV])
  | str s => exact absurd hh (by simp [isRefOkV])
  | bool b => exact absurd hh (by simp [isRefOkV])
  | float t => exact absurd hh (by simp [isRefOkV])
  | sofa a b => exact absurd hh (by simp [isRefOkV])
  | refs l => exact absurd hh (by simp [isRefOkV])
  | ints l => exact absurd hh (by simp [isRefOkV])
  | floats l => exact absurd hh (by simp [isRefOkV])
  | bools l => exact absurd hh (by simp [isRefOkV])
  | strs l => exact absurd hh (by simp [isRefOkV])
  | attr t => exact absurd hh (by simp [isRefOkV])

theorem all_sound {α : Type} (p : α → Bool) (Q : α → Prop) (hpQ : ∀ x, p x = true → Q x) (l : List α)
    (h : l.all p = true) : ∀ x ∈ l, Q x := by
  rw [List.all_eq_true] at h
  exact fun x hx => hpQ x (h x hx)

theorem inlineFeatB_sound (K : Consts) (ts : TypeSystem) (hp : Heap) (o : Obj) (f : Feature)
    (h : inlineFeatB K ts hp o f = true) : InlineFeat K ts hp o f := by
  unfold inlineFeatB at h
  rw [Bool.and_eq_true] at h
  obtain ⟨h0, h⟩ := h
  refine ⟨by simpa using h0, ?_⟩
  cases hv : alistGet? o.slots f.name with
  | none => rw [hv] at h; exact absurd h (by simp)
  | some v =>
    rw [hv] at h
    refine ⟨v, rfl, ?_⟩
    simp only [Bool.or_eq_true, Bool.and_eq_true, decide_eq_true_eq] at h
    rcases h with (((((⟨⟨a, b⟩, c⟩ | ⟨⟨a, b⟩, c⟩) | ⟨⟨a, b⟩, c⟩) | ⟨⟨a, b⟩, c⟩) | ⟨⟨a, b⟩, c⟩) | ⟨⟨a, b⟩, c⟩) | ⟨⟨a, b⟩, c⟩
    · exact .inl ⟨primArrTyB_sound _ a, rangeKindB_sound _ _ _ _ _ _ _ _ _ b,
        inlArrB_sound hp _ _ (primElemsB_sound f.range) v c⟩
    · exact .inr (.inl ⟨a, rangeKindB_sound _ _ _ _ _ _ _ _ _ b, inlArrB_sound hp _ _ strElemsB_sound v c⟩)
    · exact .inr (.inr (.inl ⟨a, rangeKindB_sound _ _ _ _ _ _ _ _ _ b,
        inlArrB_sound hp _ _ (fsElemsB_sound hp) v c⟩))
    · exact .inr (.inr (.inr (.inl ⟨a, rangeKindB_sound _ _ _ _ _ _ _ _ _ b,
        inlListB_sound hp _ _ (fun hs hh => all_sound _ _ isIntV_sound hs hh) v c⟩)))
    · exact .inr (.inr (.inr (.inr (.inl ⟨a, rangeKindB_sound _ _ _ _ _ _ _ _ _ b,
        inlListB_sound hp _ _ (fun hs hh => all_sound _ _ isFloatTokV_sound hs hh) v c⟩))))
    · refine .inr (.inr (.inr (.inr (.inr (.inl ⟨a, rangeKindB_sound _ _ _ _ _ _ _ _ _ b,
        inlListB_sound hp _ _ (fun hs hh => ?_) v c⟩)))))
      simp only [Bool.and_eq_true, Bool.not_eq_true'] at hh
      refine ⟨?_, all_sound _ _ isStrOrNoneV_sound hs hh.2⟩
      intro he; rw [he] at hh; exact absurd hh.1 (by simp)
    · exact .inr (.inr (.inr (.inr (.inr (.inr ⟨a, rangeKindB_sound _ _ _ _ _ _ _ _ _ b,
        inlListB_sound hp _ _ (fun hs hh => all_sound _ _ (isRefOkV_sound hp) hs hh) v c⟩)))))

theorem nameOkB_sound (f : Feature) (h : nameOkB f = true) : NameOk f := by
  unfold nameOkB at h
  simp only [Bool.and_eq_true, decide_eq_true_eq] at h
  obtain ⟨⟨⟨⟨⟨h1, h2⟩, h3⟩, h4⟩, h5⟩, h6⟩ := h
  exact ⟨h1, h2, h3, h4, h5, h6⟩

theorem collFeatB_sound (K : Consts) (ts : TypeSystem) (c : Cas) (ci : Nat) (hp : Heap) (isAnn : Bool) (o : Obj)
    (f : Feature) (h : collFeatB K ts c ci hp isAnn o f = true) : CollFeat K ts c ci hp isAnn o f := by
  unfold collFeatB at h
  simp only [Bool.or_eq_true, Bool.and_eq_true] at h
  rcases h with h | ⟨hn, h | h⟩
  · exact .inl (flatFeatB_sound K ts c ci hp isAnn o f h)
  · exact .inr ⟨nameOkB_sound f hn, .inl (sharedFeatB_sound K ts hp o f h)⟩
  · exact .inr ⟨nameOkB_sound f hn, .inr (inlineFeatB_sound K ts hp o f h)⟩

/-! ### structures -/

theorem genFsB_sound (K : Consts) (ts : TypeSystem) (c : Cas) (ci : Nat) (hp : Heap) (a : Nat)
    (h : genFsB K ts c ci hp a = true) : GenFs K ts c ci hp a := by
  unfold genFsB at h
  cases ho : hp[a]? with
  | none => rw [ho] at h; exact absurd h (by simp)
  | some o =>
    rw [ho] at h
    simp only at h
    cases ht : find? ts o.ty with
    | none => rw [ht] at h; exact absurd h (by simp)
    | some t =>
      rw [ht] at h
      simp only [Bool.and_eq_true, decide_eq_true_eq, List.all_eq_true, Bool.or_eq_true, Bool.not_eq_true'] at h
      obtain ⟨⟨⟨⟨⟨⟨⟨⟨⟨⟨⟨⟨h1, h2⟩, h3⟩, h4⟩, h5⟩, h6⟩, h7⟩, h8⟩, h9⟩, h10⟩, h11⟩, h12⟩, h13⟩ := h
      refine ⟨o, t, ho, ht, h1, h2, h3, h4, h5, h6, h7, h8, h9, h10, h11, ?_, ?_⟩
      · intro f hf; exact collFeatB_sound _ _ _ _ _ _ _ _ (h12 f hf)
      · intro hann
        rcases h13 with h13 | h13
        · rw [hann] at h13; exact absurd h13 (by simp)
        · exact annOkB_sound _ _ _ h13

theorem arrFsB_sound (K : Consts) (ts : TypeSystem) (hp : Heap) (a : Nat)
    (h : arrFsB K ts hp a = true) : ArrFs K ts hp a := by
  unfold arrFsB at h
  cases ho : hp[a]? with
  | none => rw [ho] at h; exact absurd h (by simp)
  | some o =>
    rw [ho] at h
    simp only at h
    cases ht : find? ts o.ty with
    | none => rw [ht] at h; exact absurd h (by simp)
    | some t =>
      rw [ht] at h
      simp only at h
      split at h
      · rename_i f n ev hfs hsl
        simp only [Bool.and_eq_true, decide_eq_true_eq] at h
        obtain ⟨⟨⟨⟨⟨⟨⟨h1, h2⟩, h3⟩, h4⟩, h5⟩, h6⟩, h7⟩, h8⟩ := h
        subst h6
        refine ⟨o, t, f, ev, ho, ht, h1, h2, hfs, h3, h4, h5, hsl, h7, ?_⟩
        simp only [Bool.or_eq_true, Bool.and_eq_true, decide_eq_true_eq] at h8
        rcases h8 with (⟨⟨⟨a1, a2⟩, a3⟩, a4⟩ | ⟨⟨a1, a2⟩, a3⟩) | ⟨⟨⟨a1, a2⟩, a3⟩, a4⟩
        · refine .inl ⟨a1, a2, a3, ?_⟩
          rcases a4 with a4 | a4
          · exact .inl a4
          · exact .inr (fsElemsB_sound hp ev a4)
        · exact .inr (.inl ⟨a1, a2, strElemsB_sound ev a3⟩)
        · refine .inr (.inr ⟨primArrTyB_sound _ a1, a2, a3, ?_⟩)
          rcases a4 with a4 | a4
          · exact .inl a4
          · exact .inr (primElemsB_sound _ ev a4)
      · exact absurd h (by simp)

end Cassis.Xmi.CC

namespace Cassis.Xmi
open Cassis.TS Cassis.Traverse

theorem collFsB_sound (K : Consts) (ts : TypeSystem) (c : Cas) (ci : Nat) (hp : Heap) (a : Nat)
    (h : collFsB K ts c ci hp a = true) : CollFs K ts c ci hp a := by
  unfold collFsB at h
  rw [Bool.or_eq_true] at h
  rcases h with h | h
  · exact .inl (CC.genFsB_sound K ts c ci hp a h)
  · exact .inr (CC.arrFsB_sound K ts hp a h)

/-- all hypotheses of `xmi_roundtrip_coll` -/
theorem collAppliesB_hyps (K : Consts) (ts : TypeSystem) (cass : List Cas) (ci : Nat) (hp : Heap)
    (h : collAppliesB K ts cass ci hp = true) :
    ∃ (c : Cas) (doc : XDoc) (st : Traverse.St), cass[ci]? = some c ∧ saveXmi K ts cass ci hp = .ok (doc, st) ∧
      RTWf c hp ∧ NullOk ts ∧ (∀ q ∈ st.allFs, CollFs K ts c ci st.heap q.2) ∧
      (∀ q ∈ st.allFs, ∀ nv ∈ c.views, q.1 ≠ nv.2.sofa.xid) ∧
      (∀ nv ∈ c.views, ∀ e ∈ Index.all nv.2.idx, slot st.heap e.oid "sofa" ≠ some .none) ∧
      MembersOk c st.heap := by
  unfold collAppliesB at h
  cases hc : cass[ci]? with
  | none => rw [hc] at h; exact absurd h (by simp)
  | some c =>
    rw [hc] at h
    simp only at h
    cases hs : saveXmi K ts cass ci hp with
    | error e => rw [hs] at h; exact absurd h (by simp)
    | ok r =>
      obtain ⟨doc, st⟩ := r
      rw [hs] at h
      simp only [Bool.and_eq_true, List.all_eq_true] at h
      obtain ⟨⟨⟨⟨⟨h1, h2⟩, h3⟩, h4⟩, h5⟩, h6⟩ := h
      exact ⟨c, doc, st, rfl, rfl, rtWfB_sound c hp h1, nullOkB_sound ts h2,
        fun q hq => collFsB_sound K ts c ci st.heap q.2 (h3 q hq),
        disjointB_sound st.allFs c h4, memSofaB_sound c st.heap h5, membersOkB_sound c st.heap h6⟩

end Cassis.Xmi
