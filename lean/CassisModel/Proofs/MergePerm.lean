/-
Entry point for `Properties/C13Perm.lean`: the proof (`merge_perm_one_super_aux`, `Proofs/MergePermMain.lean`, built on
the parts `MergePermA`, `T`, `R`, `R2`, `B`, `B2`, `B3`, `C`, `C2`, `C3`) and its non-vacuity instances
(`Proofs/MergePermDemo.lean`); and the proof of the extension proposed in `Properties/C13Perm.lean.proposed`
(`merge_perm_leaf_compete_aux`, `Proofs/MergePermXMain.lean`, parts `MergePermXB`, `XC`) with its instances
(`Proofs/MergePermXDemo.lean`).
-/
import CassisModel.Proofs.MergePermMain
import CassisModel.Proofs.MergePermDemo
import CassisModel.Proofs.MergePermXMain
import CassisModel.Proofs.MergePermXDemo
