/-
Fixpoint of the XMI round trip with collections, traversal part 1: on a structure of the fragment `CollFs` the successor
computation of `_find_all_fs` never fails, whatever the visited map, and pushes only `Target`s.  Together with
`CT.nodeSuccs_coll` (`Proofs/RoundTripCollTrav.lean`): the successors of such a structure are exactly its targets.
-/
import CassisModel.Proofs.RoundTripCollTrav
import CassisModel.Proofs.RoundTripCollFixVals

namespace Cassis.Xmi.CFX
open Cassis.TS Cassis.Traverse Cassis.Lex Cassis.Xmi

theorem mem_refsToPush (H : Heap) (allFs : List (Int × Nat)) {l : List (Option Nat)} {b : Nat}
    (h : b ∈ refsToPush H allFs l) : some b ∈ l := by
  unfold refsToPush at h
  obtain ⟨r, hr, hb⟩ := List.mem_filterMap.mp h
  cases r with
  | none => cases hb
  | some a =>
    simp only at hb
    split at hb
    · cases hb
    · cases hb; exact hr

/-! ### one feature: normal forms of `featureSuccs` against any visited map -/

theorem featureSuccs_none_any {K : Consts} {ts : TypeSystem} {H : Heap} {a : Nat} {f : Feature}
    (allFs : List (Int × Nat)) (fuel : Nat)
    (hn : f.name ≠ "sofa") (hs : Traverse.slot H a f.name = some .none) :
    featureSuccs K ts {} H allFs fuel a f = .ok ([], 0) := by
  unfold featureSuccs
  rw [CT.beq_false_of_ne hn]
  cases hp : isPrimitive K ts f.range
  · simp only [hs, Bool.false_eq_true, if_false]
  · simp only [if_true, Bool.false_eq_true, if_false]

theorem featureSuccs_shared_any {K : Consts} {ts : TypeSystem} {H : Heap} {a : Nat} {f : Feature} {b : Nat}
    (allFs : List (Int × Nat)) (fuel : Nat)
    (hn : f.name ≠ "sofa") (hp : isPrimitive K ts f.range = false) (hs : Traverse.slot H a f.name = some (.ref b))
    (hm : f.multi = some true) :
    ∃ ps, featureSuccs K ts {} H allFs fuel a f = .ok (ps, 0) ∧ ∀ b' ∈ ps, b' = b := by
  unfold featureSuccs
  rw [CT.beq_false_of_ne hn]
  by_cases hseen : seenId allFs (xidOf H b) b = true
  · exact ⟨[], by simp [hp, hs, hm, hseen], fun b' hb' => by cases hb'⟩
  · exact ⟨[b], by simp [hp, hs, hm, hseen], fun b' hb' => List.mem_singleton.mp hb'⟩

theorem featureSuccs_inl_other_any {K : Consts} {ts : TypeSystem} {H : Heap} {a : Nat} {f : Feature} {c : Nat}
    (allFs : List (Int × Nat)) (fuel : Nat)
    (hn : f.name ≠ "sofa") (hp : isPrimitive K ts f.range = false) (hs : Traverse.slot H a f.name = some (.ref c))
    (hm : f.multi.getD false = false) (hal : (isArray K f.range || isList K f.range) = true)
    (h1 : f.range ≠ FS_ARRAY) (h2 : f.range ≠ FS_LIST) :
    featureSuccs K ts {} H allFs fuel a f = .ok ([], 0) := by
  unfold featureSuccs
  rw [CT.beq_false_of_ne hn]
  simp [hp, hs, hm, hal, CT.beq_false_of_ne h1, CT.beq_false_of_ne h2]

theorem featureSuccs_inl_arr_any {K : Consts} {ts : TypeSystem} {H : Heap} {a : Nat} {f : Feature} {c : Nat}
    {l : List (Option Nat)} (allFs : List (Int × Nat)) (fuel : Nat)
    (hn : f.name ≠ "sofa") (hp : isPrimitive K ts f.range = false) (hs : Traverse.slot H a f.name = some (.ref c))
    (hm : f.multi.getD false = false) (hal : (isArray K f.range || isList K f.range) = true)
    (h1 : f.range = FS_ARRAY) (he : Traverse.slot H c "elements" = some (.refs l)) :
    featureSuccs K ts {} H allFs fuel a f = .ok (refsToPush H allFs l, 0) := by
  unfold featureSuccs
  rw [CT.beq_false_of_ne hn]
  rw [h1] at hp hal
  simp [hp, hs, hm, hal, h1, he]

theorem featureSuccs_inl_list_any {K : Consts} {ts : TypeSystem} {H : Heap} {a : Nat} {f : Feature} {c : Nat}
    {r : List Nat × Nat} (allFs : List (Int × Nat)) (fuel : Nat)
    (hn : f.name ≠ "sofa") (hp : isPrimitive K ts f.range = false) (hs : Traverse.slot H a f.name = some (.ref c))
    (hm : f.multi.getD false = false) (hal : (isArray K f.range || isList K f.range) = true)
    (h1 : f.range = FS_LIST) (hw : walkList H allFs fuel (.ref c) = some r) :
    featureSuccs K ts {} H allFs fuel a f = .ok r := by
  unfold featureSuccs
  rw [CT.beq_false_of_ne hn]
  have h3 : (FS_LIST == FS_ARRAY) = false := by decide
  rw [h1] at hp hal
  simp [hp, hs, hm, hal, h1, hw, h3]

/-! ### one feature of a general structure -/

/-- a flat feature that holds a reference is not inlined -/
theorem flat_ref_notInline {K : Consts} {ts : TypeSystem} {c : Cas} {ci : Nat} {H : Heap} {isAnn : Bool} {o : Obj}
    {f : Feature} (hf : FlatFeat K ts c ci H isAnn o f) {b : Nat} (hb : alistGet? o.slots f.name = some (.ref b)) :
    isInline K f = false := by
  obtain ⟨_, _, _, _, _, _, _, _, _, _, _, v, hv, hcase⟩ := hf
  rw [hb] at hv
  cases hv
  rcases hcase with ⟨_, hs⟩ | ⟨_, _, h3⟩ | ⟨_, _, hna, hnl, _⟩
  · rcases hs with ⟨vn, h, _⟩ | ⟨h, _⟩ <;> cases h
  · rcases h3 with h | ⟨_, i, h⟩ | ⟨_, s, h⟩ | ⟨_, b', h⟩ | ⟨_, t', h⟩ <;> cases h
  · unfold isInline; rw [hna, hnl]; simp

theorem ft_inl_other {K : Consts} {H : Heap} {o : Obj} {f : Feature} (hi : isInline K f = true)
    (h1 : f.range ≠ FS_ARRAY) (h2 : f.range ≠ FS_LIST) (b : Nat) : ¬ CT.FT K H o f b := by
  intro hb
  rcases hb with ⟨hni, _⟩ | ⟨_, hr, _⟩ | ⟨_, hr, _⟩
  · rw [hi] at hni; cases hni
  · exact h1 hr
  · exact h2 hr

/-- what a feature of a general structure contributes, against any visited map -/
theorem featureSuccs_coll_any {K : Consts} {ts : TypeSystem} {c : Cas} {ci : Nat} {H : Heap} {a : Nat} {o : Obj}
    {isAnn : Bool} {f : Feature} (allFs : List (Int × Nat)) (ho : H[a]? = some o)
    (hf : CollFeat K ts c ci H isAnn o f) :
    ∃ (ps : List Nat) (n : Nat), featureSuccs K ts {} H allFs (H.length + 1) a f = .ok (ps, n) ∧
      ∀ b ∈ ps, CT.FT K H o f b := by
  rcases hf with hflat | ⟨hname, hsh | hinl⟩
  · obtain ⟨ps, hps, hm⟩ := featureSuccs_flat_any allFs (H.length + 1) ho hflat
    exact ⟨ps, 0, hps, fun b hb => Or.inl ⟨flat_ref_notInline hflat (hm b hb), hm b hb⟩⟩
  · obtain ⟨_, _, _, _, _, hn⟩ := hname
    obtain ⟨hm, _, hp, _, _, _, v, hv, hval⟩ := hsh
    have hni := CT.isInline_shared (K := K) hm
    rcases hval with rfl | ⟨b, rfl, _⟩
    · exact ⟨[], 0, featureSuccs_none_any allFs _ hn (CT.slot_of ho hv), fun b hb => by cases hb⟩
    · obtain ⟨ps, hps, hmem⟩ := featureSuccs_shared_any (K := K) (ts := ts) allFs (H.length + 1) hn hp
        (CT.slot_of ho hv) hm
      refine ⟨ps, 0, hps, fun b' hb' => ?_⟩
      rw [hmem b' hb']
      exact Or.inl ⟨hni, hv⟩
  · obtain ⟨_, _, _, _, _, hn⟩ := hname
    obtain ⟨hm, v, hv, hcase⟩ := hinl
    have other : (isArray K f.range || isList K f.range) = true → isPrimitive K ts f.range = false →
        f.range ≠ FS_ARRAY → f.range ≠ FS_LIST → (v = .none ∨ ∃ c, v = .ref c) →
        ∃ (ps : List Nat) (n : Nat), featureSuccs K ts {} H allFs (H.length + 1) a f = .ok (ps, n) ∧
          ∀ b ∈ ps, CT.FT K H o f b := by
      intro hal hp h1 h2 hvv
      refine ⟨[], 0, ?_, fun b hb => by cases hb⟩
      rcases hvv with rfl | ⟨c, rfl⟩
      · exact featureSuccs_none_any allFs _ hn (CT.slot_of ho hv)
      · exact featureSuccs_inl_other_any allFs _ hn hp (CT.slot_of ho hv) hm hal h1 h2
    rcases hcase with ⟨hr, rk, hvv⟩ | ⟨hr, rk, hvv⟩ | ⟨hr, rk, hvv⟩ | ⟨hr, rk, hvv⟩ | ⟨hr, rk, hvv⟩ | ⟨hr, rk, hvv⟩ |
      ⟨hr, rk, hvv⟩
    · exact other (CT.or_true_left rk.arr) rk.prim (CT.primArr_ne hr).1 (CT.primArr_ne hr).2 (CT.inlArr_shape hvv)
    · exact other (CT.or_true_left rk.arr) rk.prim (by rw [hr]; decide) (by rw [hr]; decide) (CT.inlArr_shape hvv)
    · have hal := CT.or_true_left (y := isList K f.range) rk.arr
      have hinl := CT.isInline_inl (K := K) hm hal
      rcases hvv with rfl | ⟨arr, ev, rfl, he, l, rfl, _⟩
      · exact ⟨[], 0, featureSuccs_none_any allFs _ hn (CT.slot_of ho hv), fun b hb => by cases hb⟩
      · refine ⟨_, 0, featureSuccs_inl_arr_any allFs _ hn rk.prim (CT.slot_of ho hv) hm hal hr he, ?_⟩
        intro b hb
        exact Or.inr (Or.inl ⟨hinl, hr, arr, l.map some, hv, he, mem_refsToPush H allFs hb⟩)
    · exact other (CT.or_true_right rk.list) rk.prim (by rw [hr]; decide) (by rw [hr]; decide) (CT.inlList_shape hvv)
    · exact other (CT.or_true_right rk.list) rk.prim (by rw [hr]; decide) (by rw [hr]; decide) (CT.inlList_shape hvv)
    · exact other (CT.or_true_right rk.list) rk.prim (by rw [hr]; decide) (by rw [hr]; decide) (CT.inlList_shape hvv)
    · have hal := CT.or_true_right (x := isArray K f.range) rk.list
      have hinl := CT.isInline_inl (K := K) hm hal
      rcases hvv with rfl | ⟨cc, hs, rfl, hcl, _⟩
      · exact ⟨[], 0, featureSuccs_none_any allFs _ hn (CT.slot_of ho hv), fun b hb => by cases hb⟩
      · obtain ⟨ps, n, hw, hmem⟩ := walkList_collect_any H allFs _ _ _ hcl
        refine ⟨ps, n, featureSuccs_inl_list_any allFs _ hn rk.prim (CT.slot_of ho hv) hm hal hr hw, ?_⟩
        intro b hb
        exact Or.inr (Or.inr ⟨hinl, hr, cc, hs, hv, hcl, hmem b hb⟩)

theorem featuresSuccs_coll_any {K : Consts} {ts : TypeSystem} {c : Cas} {ci : Nat} {H : Heap} {a : Nat} {o : Obj}
    {isAnn : Bool} (allFs : List (Int × Nat)) (ho : H[a]? = some o) :
    ∀ (fs : List Feature), (∀ f ∈ fs, CollFeat K ts c ci H isAnn o f) →
    ∃ (ps : List Nat) (n : Nat), featuresSuccs K ts {} H allFs (H.length + 1) a fs = .ok (ps, n) ∧
      ∀ b ∈ ps, ∃ f ∈ fs, CT.FT K H o f b := by
  intro fs
  induction fs with
  | nil => intro _; exact ⟨[], 0, rfl, fun b hb => by cases hb⟩
  | cons f fs ih =>
    intro hall
    obtain ⟨p1, n1, h1, m1⟩ := featureSuccs_coll_any allFs ho (hall f List.mem_cons_self)
    obtain ⟨p2, n2, h2, m2⟩ := ih (fun g hg => hall g (List.mem_cons_of_mem _ hg))
    refine ⟨p1 ++ p2, n1 + n2, ?_, ?_⟩
    · unfold featuresSuccs
      simp only [h1, h2, bind, Except.bind, pure, Except.pure]
    · intro b hb
      rcases List.mem_append.mp hb with hb | hb
      · exact ⟨f, List.mem_cons_self, m1 b hb⟩
      · obtain ⟨g, hg, hgb⟩ := m2 b hb
        exact ⟨g, List.mem_cons_of_mem _ hg, hgb⟩

/-! ### one structure -/

/-- `FT` is the part of `Target` that speaks about one feature -/
theorem target_of_ft {K : Consts} {ts : TypeSystem} {H : Heap} {a : Nat} {o : Obj} {t : TypeRec} {f : Feature} {b : Nat}
    (ho : H[a]? = some o) (ht : find? ts o.ty = some t) (hf : f ∈ allFeatures t) (h : CT.FT K H o f b) :
    Target K ts H a b := by
  refine ⟨o, t, ho, ht, ?_⟩
  rcases h with ⟨h1, h2⟩ | ⟨h1, h2, c, l, h3, h4, h5⟩ | ⟨h1, h2, c, hs, h3, h4, h5⟩
  · exact Or.inl ⟨f, hf, h1, h2⟩
  · exact Or.inr (Or.inl ⟨f, hf, h1, h2, c, l, h3, h4, h5⟩)
  · exact Or.inr (Or.inr (Or.inl ⟨f, hf, h1, h2, c, hs, h3, h4, h5⟩))

theorem nodeSuccs_gen_any {K : Consts} {ts : TypeSystem} {c : Cas} {ci : Nat} {H : Heap} {a : Nat}
    (hg : GenFs K ts c ci H a) (allFs : List (Int × Nat)) :
    ∃ (o : Obj) (t : TypeRec) (ps : List Nat) (n : Nat), H[a]? = some o ∧ find? ts o.ty = some t ∧
      nodeSuccs K ts {} H allFs (H.length + 1) a t = .ok (ps, n) ∧ ∀ b ∈ ps, Target K ts H a b := by
  obtain ⟨o, t, ho, ht, _, _, _, hsup, _, hnfa, _, _, _, _, _, hfeat, _⟩ := hg
  obtain ⟨ps, n, hps, hm⟩ := featuresSuccs_coll_any allFs ho (allFeatures t) hfeat
  refine ⟨o, t, ps, n, ho, ht, ?_, ?_⟩
  · unfold nodeSuccs
    have : (t.super == some ARRAY_BASE) = false := by
      cases hh : (t.super == some ARRAY_BASE)
      · rfl
      · exact absurd (eq_of_beq hh) hsup
    rw [this]
    exact hps
  · intro b hb
    obtain ⟨f, hf, hft⟩ := hm b hb
    exact target_of_ft ho ht hf hft

theorem nodeSuccs_arr_any {K : Consts} {ts : TypeSystem} {H : Heap} {a : Nat} (fuel : Nat)
    (hg : ArrFs K ts H a) (allFs : List (Int × Nat)) :
    ∃ (o : Obj) (t : TypeRec) (ps : List Nat) (n : Nat), H[a]? = some o ∧ find? ts o.ty = some t ∧
      nodeSuccs K ts {} H allFs fuel a t = .ok (ps, n) ∧ ∀ b ∈ ps, Target K ts H a b := by
  obtain ⟨o, t, f, ev, ho, ht, htn, hsup, hall, hfn, hfr, _, hsl, _, hcase⟩ := hg
  have hsupb : (t.super == some ARRAY_BASE) = true := by rw [hsup]; exact beq_self_eq_true _
  have hel : alistGet? o.slots "elements" = some ev := by
    rw [hsl]; unfold alistGet?; rw [if_pos rfl]
  have hslot : Traverse.slot H a "elements" = some ev := CT.slot_of ho hel
  by_cases hfa : o.ty = FS_ARRAY
  · have hnb : (t.name == FS_ARRAY) = true := by rw [htn, hfa]; exact beq_self_eq_true _
    cases ev with
    | refs l =>
      refine ⟨o, t, refsToPush H allFs l, 0, ho, ht, ?_, ?_⟩
      · unfold nodeSuccs
        simp only [hsupb, hnb, hslot, if_true]
      · intro b hb
        exact ⟨o, t, ho, ht, Or.inr (Or.inr (Or.inr ⟨hfa, l, hel, mem_refsToPush H allFs hb⟩))⟩
    | _ =>
      refine ⟨o, t, [], 0, ho, ht, ?_, fun b hb => by cases hb⟩
      unfold nodeSuccs
      simp only [hsupb, hnb, hslot, if_true]
  · have hnb : (t.name == FS_ARRAY) = false := by rw [htn]; exact CT.beq_false_of_ne hfa
    refine ⟨o, t, [], 0, ho, ht, ?_, fun b hb => by cases hb⟩
    unfold nodeSuccs
    simp only [hsupb, hnb, if_true, Bool.false_eq_true, if_false]

theorem nodeSuccs_coll_any {K : Consts} {ts : TypeSystem} {c : Cas} {ci : Nat} {H : Heap} {a : Nat}
    (hc : CollFs K ts c ci H a) (allFs : List (Int × Nat)) :
    ∃ (o : Obj) (t : TypeRec) (ps : List Nat) (n : Nat), H[a]? = some o ∧ find? ts o.ty = some t ∧
      nodeSuccs K ts {} H allFs (H.length + 1) a t = .ok (ps, n) ∧ ∀ b ∈ ps, Target K ts H a b := by
  rcases hc with hg | ha
  · exact nodeSuccs_gen_any hg allFs
  · exact nodeSuccs_arr_any _ ha allFs

/-- the successors of a structure of the fragment are exactly its targets -/
theorem succsOf_coll {K : Consts} {ts : TypeSystem} {c : Cas} {ci : Nat} {H : Heap} {a : Nat}
    (hc : CollFs K ts c ci H a) (b : Nat) :
    b ∈ succsOf K ts {} H (H.length + 1) a ↔ Target K ts H a b := by
  obtain ⟨o, t, ps, n, ho, ht, hnode, hm⟩ := nodeSuccs_coll_any hc []
  rw [succsOf_eq K ts {} ho (getType_of_find ht) hnode]
  constructor
  · exact hm b
  · intro hb
    obtain ⟨o', t', ps', n', ho', ht', hnode', hm'⟩ := CT.nodeSuccs_coll hc
    rw [ho] at ho'; cases ho'
    rw [ht] at ht'; cases ht'
    rw [hnode] at hnode'; cases hnode'
    exact hm' b hb

end Cassis.Xmi.CFX
