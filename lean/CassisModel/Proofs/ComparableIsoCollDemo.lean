/-
Non-vacuity for `Properties/C20IsoColl.lean`: the test `renderCollAppliesB` answers `true` (evaluated by the kernel) on
the instance `IsoCollCheck.good` — the instance `CollDemo` of `Spec/RoundTripCollCheck.lean` (every collection kind,
inlined and shared) without the empty string element of its inlined StringArray — hence every hypothesis of
`render_xmi_roundtrip_coll` holds there.
-/
import CassisModel.Proofs.ComparableIsoCollChk

namespace Cassis.Comparable
open Cassis.TS Cassis.Traverse Cassis.Xmi

theorem collGood_applies :
    renderCollAppliesB CollDemo.K CollDemo.ts [CollDemo.cas] 0 IsoCollCheck.good = true := by
  decide +kernel

/-- the test is not constantly true: the instance with the empty string element is rejected -/
theorem collDemo_rejected :
    renderCollAppliesB CollDemo.K CollDemo.ts [CollDemo.cas] 0 CollDemo.hp = false := by
  decide +kernel

theorem collGood_hyps :
    ∃ (c : Cas) (doc : XDoc) (st : Traverse.St), [CollDemo.cas][0]? = some c ∧
      saveXmi CollDemo.K CollDemo.ts [CollDemo.cas] 0 IsoCollCheck.good = .ok (doc, st) ∧
      RTWf c IsoCollCheck.good ∧ NullOk CollDemo.ts ∧
      (∀ q ∈ st.allFs, CollFs CollDemo.K CollDemo.ts c 0 st.heap q.2) ∧
      (∀ nv ∈ c.views, ∀ e ∈ Index.all nv.2.idx, Xmi.slot st.heap e.oid "sofa" ≠ some .none) ∧
      MembersOk c st.heap ∧
      Distinct st.heap (st.allFs.map (·.2)) ∧ NodeTysNotArr CollDemo.K ∧
      (∀ q ∈ st.allFs, InlOk CollDemo.K CollDemo.ts st.heap (st.allFs.map (·.2)) q.2) :=
  renderCollAppliesB_hyps _ _ _ _ _ collGood_applies

end Cassis.Comparable
