/-
C16 with an embedded type system, the chain JSON → CAS → XMI → CAS, part 3: the traversal of the XMI writer does not
tell apart two type systems that answer the XMI codec alike (`TsLe` in both directions) on heaps that are the same up to
slot order, when the first traversal leaves the heap alone and collects structures of the XMI fragment: the second
traversal succeeds, leaves its heap alone, and collects the same structures under the same ids (the *order* of
collection may differ — the features are visited in the order of the type system — but the writer sorts by id).
-/
import CassisModel.Proofs.ChainEmbFrag
import CassisModel.Proofs.RoundTripCollFixTrav

namespace Cassis.ChainE
open Cassis.TS Cassis.Traverse Cassis.Xmi Cassis.Json Cassis.Xmi.CFX

theorem fst_inj_of_nodup : ∀ {l : List (Int × Nat)}, (l.map (·.1)).Nodup → ∀ {p q : Int × Nat}, p ∈ l → q ∈ l →
    p.1 = q.1 → p = q
  | [], _, _, _, hp, _, _ => by cases hp
  | x :: rest, h, p, q, hp, hq, e => by
    simp only [List.map_cons, List.nodup_cons, List.mem_map] at h
    rcases List.mem_cons.mp hp with hp1 | hp1
    · rcases List.mem_cons.mp hq with hq1 | hq1
      · rw [hp1, hq1]
      · exact absurd ⟨q, hq1, by rw [← e, hp1]⟩ h.1
    · rcases List.mem_cons.mp hq with hq1 | hq1
      · exact absurd ⟨p, hp1, by rw [e, hq1]⟩ h.1
      · exact fst_inj_of_nodup h.2 hp1 hq1 e

section
variable {K : Consts} {ts ts' : TypeSystem} {c : Cas} {ci : Nat} {hp hp' : Heap}

/-- what is reachable under `ts` is reachable under `ts'` -/
theorem reach_le (hle : TsLe K ts ts') (hh : HeapSim hp hp') {nx : Int} (hnx : 0 < nx) {st : St}
    (hfa : findAllFs K ts {} hp nx (defaultSeeds c) = .ok st) (hheap : st.heap = hp)
    (hL : LOkC K ts c ci hp (sortById st.allFs)) (hL' : LOkC K ts' c ci hp' (sortById st.allFs)) {a : Nat}
    (hr : Reach K ts {} hp (hp.length + 1) (defaultSeeds c) a) :
    Reach K ts' {} hp' (hp'.length + 1) (defaultSeeds c) a := by
  induction hr with
  | seed a hs => exact Reach.seed _ hs
  | step a b hra hnull hsucc ih =>
    have hmem := findAllFs_complete_aux K ts {} hp nx _ st hnx hfa a (by rw [hheap]; exact hra)
      (by rw [hheap]; exact hnull)
    obtain ⟨⟨xa, a2⟩, hq, rfl⟩ := List.mem_map.mp hmem
    have hqa : (xa, a2) ∈ sortById st.allFs := mem_sortById.mpr hq
    have htg : Target K ts hp a2 b := (succsOf_coll (hL.coll _ hqa) b).mp hsucc
    refine Reach.step a2 b ih ?_ ?_
    · rw [hh.xidOf]; exact hnull
    · exact (succsOf_coll (hL'.coll _ hqa) b).mpr (target_le hle hh htg)

/-- **the traversal under the other type system** -/
theorem traversal_le (hle : TsLe K ts ts') (hle' : TsLe K ts' ts) (hh : HeapSim hp hp') {nx : Int} (hnx : 0 < nx)
    {st : St} (hfa : findAllFs K ts {} hp nx (defaultSeeds c) = .ok st) (hheap : st.heap = hp)
    (hL : LOkC K ts c ci hp (sortById st.allFs)) (hk : ∀ q ∈ st.allFs, SlotsOk ts' hp' q.2) :
    ∃ st' : St, findAllFs K ts' {} hp' nx (defaultSeeds c) = .ok st' ∧ st'.heap = hp' ∧
      sortById st'.allFs = sortById st.allFs ∧ LOkC K ts' c ci hp' (sortById st.allFs) := by
  have hL' : LOkC K ts' c ci hp' (sortById st.allFs) :=
    lokC_le hle hle' hh (fun q hq => hk q (mem_sortById.mp hq)) hL
  obtain ⟨st', hfa', hheap', hsub⟩ := Traverse.findAllFs_succeeds K ts' {} hp' nx (defaultSeeds c)
    (fun b => ∃ q ∈ sortById st.allFs, b = q.2)
    (by
      intro a ha
      unfold defaultSeeds at ha
      obtain ⟨nv, hnv, ha⟩ := List.mem_flatMap.mp ha
      obtain ⟨e, he, rfl⟩ := List.mem_map.mp ha
      obtain ⟨x, hx⟩ := hL.members nv hnv e he
      exact ⟨_, hx, rfl⟩)
    (by
      rintro a ⟨q, hq, rfl⟩
      obtain ⟨o', t, _, _, ho', ht, _, _⟩ := nodeSuccs_coll_any (hL'.coll q hq) []
      have hx := (hL'.ids q hq).1
      refine ⟨o', q.1, t, ho', ?_, Xmi.getType_of_find ht, ?_⟩
      · unfold xidOf at hx; rw [ho'] at hx; exact hx
      · intro allFs
        obtain ⟨o2, t2, ps, n, ho2, ht2, hns, hps⟩ := nodeSuccs_coll_any (hL'.coll q hq) allFs
        rw [ho'] at ho2; cases ho2
        rw [ht] at ht2; cases ht2
        refine ⟨ps, n, hns, fun b' hb' => ?_⟩
        obtain ⟨x, _, hxl⟩ := hL'.closed q hq b' (hps b' hb')
        exact ⟨_, hxl, rfl⟩)
    (by
      rintro a b ⟨q, hq, rfl⟩ ⟨q', hq', rfl⟩ h
      rw [(hL'.ids q hq).1, (hL'.ids q' hq').1] at h
      rw [fst_inj_of_nodup hL.nodup hq hq' (Option.some.inj h)])
  refine ⟨st', hfa', hheap', ?_, hL'⟩
  have inv' := (findAllFs_inv K ts' {} hp' nx _ st' hfa').1
  have inv := (findAllFs_inv K ts {} hp nx _ st hfa).1
  have hnd' : st'.allFs.Nodup := nodup_of_nodup_map _ _ inv'.nodupK
  have hnd : st.allFs.Nodup := nodup_of_nodup_map _ _ inv.nodupK
  apply sortById_perm_invariant_aux _ _ _ inv'.nodupK
  rw [List.perm_ext_iff_of_nodup hnd' hnd]
  rintro ⟨x, b⟩
  constructor
  · intro hr
    obtain ⟨q, hq, hb⟩ := hsub _ hr
    have h1 := inv'.link x b hr
    simp only at hb
    subst hb
    rw [hheap', (hL'.ids q hq).1] at h1
    have : q = (x, q.2) := Prod.ext (Option.some.inj h1) rfl
    rw [← this]
    exact mem_sortById.mp hq
  · intro hm
    have hqL : (x, b) ∈ sortById st.allFs := mem_sortById.mpr hm
    have hreach := findAllFs_sound_aux K ts {} hp nx _ st hnx hfa b (List.mem_map.mpr ⟨_, hm, rfl⟩)
    rw [hheap] at hreach
    have hreach' := reach_le hle hh hnx hfa hheap hL hL' hreach
    have hxq : xidOf st'.heap b = some x := by rw [hheap']; exact (hL'.ids _ hqL).1
    have hmem := findAllFs_complete_aux K ts' {} hp' nx _ st' hnx hfa' b
      (by rw [hheap']; exact hreach')
      (by rw [hxq]; intro h; exact (hL'.ids _ hqL).2 (Option.some.inj h))
    obtain ⟨⟨y, b'⟩, hr, hb⟩ := List.mem_map.mp hmem
    simp only at hb
    subst hb
    have := inv'.link y _ hr
    rw [hxq] at this
    cases this
    exact hr

end

end Cassis.ChainE
