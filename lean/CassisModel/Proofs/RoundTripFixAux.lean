/-
Fixpoint of the round trip: auxiliary lemmas for `saveXmi_again` (`RoundTripFix.lean`).
-/
import CassisModel.Proofs.RoundTripDefs
import CassisModel.Proofs.RoundTripGlue
import CassisModel.Proofs.RoundTripWriter
import CassisModel.Proofs.RoundTripFixTrav
import CassisModel.Proofs.RoundTripFixFlat
import CassisModel.Proofs.Determinism

namespace Cassis.Xmi
open Cassis.TS Cassis.Traverse Cassis.Lex

/-! ### lists -/

theorem nodup_of_nodup_map {α β : Type} (f : α → β) (l : List α) (h : (l.map f).Nodup) : l.Nodup := by
  unfold List.Nodup at h ⊢
  exact (List.pairwise_map.mp h).imp (fun hne heq => hne (by rw [heq]))

theorem insertById_map (g : Int × Nat → Int × Nat) (hg : ∀ p, (g p).1 = p.1) (p : Int × Nat) :
    ∀ l : List (Int × Nat), insertById (g p) (l.map g) = (insertById p l).map g
  | [] => rfl
  | q :: qs => by
    simp only [List.map_cons, insertById, hg]
    split
    · simp
    · simp [insertById_map g hg p qs]

theorem sortById_map (g : Int × Nat → Int × Nat) (hg : ∀ p, (g p).1 = p.1) :
    ∀ l : List (Int × Nat), sortById (l.map g) = (sortById l).map g
  | [] => rfl
  | p :: l => by
    show insertById (g p) (sortById (l.map g)) = (insertById p (sortById l)).map g
    rw [sortById_map g hg l, insertById_map g hg]

theorem alistGet?_of_keys {β γ} : ∀ (l : List (String × β)) (l' : List (String × γ)) (n : String) (w : γ),
    l.map (·.1) = l'.map (·.1) → alistGet? l' n = some w → ∃ v, alistGet? l n = some v
  | [], [], n, w, _, h => by simp [alistGet?] at h
  | [], _ :: _, _, _, hk, _ => by simp at hk
  | _ :: _, [], _, _, hk, _ => by simp at hk
  | (k, v) :: r, (k', v') :: r', n, w, hk, h => by
    simp only [List.map_cons, List.cons.injEq] at hk
    obtain ⟨hkk, hr⟩ := hk
    subst hkk
    unfold alistGet? at h ⊢
    by_cases hn : k = n
    · exact ⟨v, by rw [if_pos hn]⟩
    · rw [if_neg hn] at h ⊢
      exact alistGet?_of_keys r r' n w hr h

/-! ### views -/

theorem viewsRelL_fwd (H : Heap) (na : Int → Nat) : ∀ (l l' : List (String × View)), ViewsRelL H na l l' →
    ∀ nv ∈ l, ∃ nv' ∈ l', ViewRel H na nv nv'
  | [], [], _, nv, h => by cases h
  | [], _ :: _, h, _, _ => h.elim
  | _ :: _, [], h, _, _ => h.elim
  | v :: r, v' :: r', h, nv, hm => by
    obtain ⟨h1, h2⟩ := h
    rcases List.mem_cons.mp hm with rfl | hm
    · exact ⟨v', List.mem_cons_self, h1⟩
    · obtain ⟨nv', hm', hr⟩ := viewsRelL_fwd H na r r' h2 nv hm
      exact ⟨nv', List.mem_cons_of_mem _ hm', hr⟩

theorem viewsRelL_bwd (H : Heap) (na : Int → Nat) : ∀ (l l' : List (String × View)), ViewsRelL H na l l' →
    ∀ nv' ∈ l', ∃ nv ∈ l, ViewRel H na nv nv'
  | [], [], _, nv, h => by cases h
  | [], _ :: _, h, _, _ => h.elim
  | _ :: _, [], h, _, _ => h.elim
  | v :: r, v' :: r', h, nv', hm => by
    obtain ⟨h1, h2⟩ := h
    rcases List.mem_cons.mp hm with rfl | hm
    · exact ⟨v, List.mem_cons_self, h1⟩
    · obtain ⟨nv, hm', hr⟩ := viewsRelL_bwd H na r r' h2 nv' hm
      exact ⟨nv, List.mem_cons_of_mem _ hm', hr⟩

theorem renderSofa_rel {H : Heap} {na : Int → Nat} {nv nv' : String × View} (h : ViewRel H na nv nv') :
    renderSofa nv'.2.sofa = renderSofa nv.2.sofa := by
  obtain ⟨_, h1, h2, h3, h4, h5, _⟩ := h
  unfold renderSofa
  rw [h1, h2, h3, h4, h5]

theorem viewsRelL_sofas (H : Heap) (na : Int → Nat) : ∀ (l l' : List (String × View)), ViewsRelL H na l l' →
    l'.map (fun p => renderSofa p.2.sofa) = l.map (fun p => renderSofa p.2.sofa)
  | [], [], _ => rfl
  | [], _ :: _, h => h.elim
  | _ :: _, [], h => h.elim
  | v :: r, v' :: r', h => by
    obtain ⟨h1, h2⟩ := h
    simp only [List.map_cons]
    rw [renderSofa_rel h1, viewsRelL_sofas H na r r' h2]

theorem renderView_content (hp hp' : Heap) (nv nv' : String × View) (h : viewContent hp' nv' = viewContent hp nv) :
    renderView hp' nv'.2 = renderView hp nv.2 := by
  have h1 : nv'.2.sofa.xid = nv.2.sofa.xid := congrArg ViewContent.xid h
  have h2 := congrArg ViewContent.members h
  simp only [viewContent, xidOf] at h2
  unfold renderView
  simp only [h1, h2]

theorem renderView_map (hp hp' : Heap) : ∀ (l l' : List (String × View)),
    l'.map (viewContent hp') = l.map (viewContent hp) →
    l'.map (fun p => renderView hp' p.2) = l.map (fun p => renderView hp p.2)
  | [], [], _ => rfl
  | [], _ :: _, h => by simp at h
  | _ :: _, [], h => by simp at h
  | v :: r, v' :: r', h => by
    simp only [List.map_cons, List.cons.injEq] at h
    simp only [List.map_cons]
    rw [renderView_content hp hp' v v' h.1, renderView_map hp hp' r r' h.2]

/-! ### the loaded heap -/

theorem rel_xid {H : Heap} {L : List (Int × Nat)} {na : Int → Nat} {ci' : Nat} {hpL : Heap}
    (hrel : HeapRel H L na (E3 H na ci') hpL) {q : Int × Nat} (hq : q ∈ L) : xidOf hpL (na q.1) = some q.1 := by
  obtain ⟨o, o', _, ho', _, hx, _⟩ := hrel q hq
  unfold xidOf; rw [ho']; exact hx

theorem exp3_ref {H : Heap} {na : Int → Nat} {ci' : Nat} {v : Val} {b' : Nat} (h : exp3 H na ci' v = .ref b') :
    ∃ bb xb, v = .ref bb ∧ xidOf H bb = some xb ∧ b' = na xb := by
  cases v <;> simp only [exp3] at h <;> try (exact absurd h (by simp))
  rename_i bb
  cases hx : xidOf H bb with
  | none => rw [hx] at h; exact absurd h (by simp)
  | some xb =>
    rw [hx] at h
    simp only [Val.ref.injEq] at h
    exact ⟨bb, xb, rfl, hx, h.symm⟩

/-- a reference held by a loaded structure points to a loaded structure -/
theorem rel_succ_fwd {K : Consts} {ts : TypeSystem} {c : Cas} {ci : Nat} {H : Heap} {L : List (Int × Nat)}
    {na : Int → Nat} {ci' : Nat} {hpL : Heap} (hL : LOk K ts c ci H L) (hrel : HeapRel H L na (E3 H na ci') hpL)
    {q : Int × Nat} (hq : q ∈ L) {o' : Obj} (ho' : hpL[na q.1]? = some o') {n : String} {b' : Nat}
    (hb : alistGet? o'.slots n = some (.ref b')) : ∃ q' ∈ L, b' = na q'.1 := by
  obtain ⟨o, o2, ho, ho2, _, _, hkeys, hslots⟩ := hrel q hq
  rw [ho'] at ho2; cases ho2
  obtain ⟨v, hv⟩ := alistGet?_of_keys o.slots o'.slots n _ hkeys.symm hb
  have := hslots n v hv
  rw [hb] at this
  obtain ⟨bb, xb, rfl, hxb, rfl⟩ := exp3_ref (Option.some.inj this).symm
  obtain ⟨x, hx, hm⟩ := hL.closed q hq o ho n bb hv
  rw [hxb] at hx; cases hx
  exact ⟨(xb, bb), hm, rfl⟩

/-- a reference between written structures is a reference between their loaded counterparts -/
theorem rel_succ_bwd {K : Consts} {ts : TypeSystem} {c : Cas} {ci : Nat} {H : Heap} {L : List (Int × Nat)}
    {na : Int → Nat} {ci' : Nat} {hpL : Heap} (hL : LOk K ts c ci H L) (hrel : HeapRel H L na (E3 H na ci') hpL)
    {xa : Int} {a : Nat} (ha : (xa, a) ∈ L) {xb : Int} {b : Nat} (hb : (xb, b) ∈ L) {o : Obj} (ho : H[a]? = some o)
    {n : String} (hn : alistGet? o.slots n = some (.ref b)) :
    ∃ o', hpL[na xa]? = some o' ∧ alistGet? o'.slots n = some (.ref (na xb)) := by
  obtain ⟨o1, o', ho1, ho', _, _, _, hslots⟩ := hrel (xa, a) ha
  rw [show H[(xa, a).2]? = H[a]? from rfl, ho] at ho1; cases ho1
  refine ⟨o', ho', ?_⟩
  have := hslots n _ hn
  rw [this]
  show some (exp3 H na ci' (.ref b)) = _
  simp only [exp3, (hL.ids (xb, b) hb).1]

/-! ### seeds -/

theorem mem_members {H : Heap} {nv : String × View} {m : Int} :
    m ∈ (pviewOf H nv).members ↔ ∃ e ∈ Index.all nv.2.idx, xidOf H e.oid = some m := by
  unfold pviewOf
  simp only
  rw [(sortInts_perm _).mem_iff, List.mem_filterMap]

theorem seed_fwd {K : Consts} {ts : TypeSystem} {c : Cas} {ci : Nat} {H : Heap} {L : List (Int × Nat)}
    {na : Int → Nat} {c' : Cas} (hL : LOk K ts c ci H L) (hviews : ViewsRel H na c c') {a : Nat}
    (ha : a ∈ defaultSeeds c') : ∃ q ∈ L, a = na q.1 := by
  unfold defaultSeeds at ha
  obtain ⟨nv', hnv', ha⟩ := List.mem_flatMap.mp ha
  obtain ⟨nv, hnv, hr⟩ := viewsRelL_bwd H na _ _ hviews nv' hnv'
  have hperm := hr.2.2.2.2.2.2.2
  have := hperm.mem_iff.mp ha
  obtain ⟨m, hm, rfl⟩ := List.mem_map.mp this
  obtain ⟨e0, he0, hx0⟩ := mem_members.mp hm
  obtain ⟨x, hx⟩ := hL.members nv hnv e0 he0
  have := (hL.ids _ hx).1
  rw [show ((x, e0.oid) : Int × Nat).2 = e0.oid from rfl, hx0] at this
  cases this
  exact ⟨_, hx, rfl⟩

theorem seed_bwd {K : Consts} {ts : TypeSystem} {c : Cas} {ci : Nat} {H : Heap} {L : List (Int × Nat)}
    {na : Int → Nat} {c' : Cas} (hL : LOk K ts c ci H L) (hviews : ViewsRel H na c c') {x : Int} {a : Nat}
    (hx : (x, a) ∈ L) (ha : a ∈ defaultSeeds c) : na x ∈ defaultSeeds c' := by
  unfold defaultSeeds at ha ⊢
  obtain ⟨nv, hnv, ha⟩ := List.mem_flatMap.mp ha
  obtain ⟨e, he, rfl⟩ := List.mem_map.mp ha
  obtain ⟨nv', hnv', hr⟩ := viewsRelL_fwd H na _ _ hviews nv hnv
  have hperm := hr.2.2.2.2.2.2.2
  refine List.mem_flatMap.mpr ⟨nv', hnv', hperm.mem_iff.mpr ?_⟩
  exact List.mem_map.mpr ⟨x, mem_members.mpr ⟨e, he, (hL.ids _ hx).1⟩, rfl⟩

/-! ### the traversal of the loaded CAS -/

theorem new_traversal {K : Consts} {ts : TypeSystem} {cass : List Cas} {ci : Nat} {c : Cas} {hp H : Heap}
    {L : List (Int × Nat)} {na : Int → Nat} {ci' : Nat} {c' : Cas} {hpL : Heap}
    (hc : cass[ci]? = some c) (hwf : RTWf c hp) (hL : LOk K ts c ci H L)
    (hrel : HeapRel H L na (E3 H na ci') hpL) (hviews : ViewsRel H na c c') :
    ∃ st' : St, findAllFs K ts {} hpL c'.nextXid (defaultSeeds c') = .ok st' ∧ st'.heap = hpL ∧
      ∀ r ∈ st'.allFs, ∃ q ∈ L, r.2 = na q.1 := by
  have hflat := new_flat K ts cass ci c hp H L na ci' c' hpL hc hwf hL hrel hviews
  apply Traverse.findAllFs_succeeds K ts {} hpL c'.nextXid (defaultSeeds c') (fun b => ∃ q ∈ L, b = na q.1)
  · intro a ha
    exact seed_fwd hL hviews ha
  · rintro a ⟨q, hq, rfl⟩
    obtain ⟨o', t, _, ho', hty, _, _⟩ := nodeSuccs_flat_any (hflat q hq) [] (hpL.length + 1)
    have hx := rel_xid hrel hq
    refine ⟨o', q.1, t, ho', ?_, hty, ?_⟩
    · unfold xidOf at hx; rw [ho'] at hx; exact hx
    · intro allFs
      obtain ⟨o2, t2, ps, ho2, hty2, hns, hps⟩ := nodeSuccs_flat_any (hflat q hq) allFs (hpL.length + 1)
      rw [ho'] at ho2; cases ho2
      rw [hty] at hty2; cases hty2
      refine ⟨ps, 0, hns, ?_⟩
      intro b' hb'
      obtain ⟨n, hn⟩ := hps b' hb'
      exact rel_succ_fwd hL hrel hq ho' hn
  · rintro a b ⟨q, hq, rfl⟩ ⟨q', hq', rfl⟩ h
    rw [rel_xid hrel hq, rel_xid hrel hq'] at h
    rw [Option.some.inj h]

theorem reach_transfer {K : Consts} {ts : TypeSystem} {cass : List Cas} {ci : Nat} {c : Cas} {hp : Heap}
    {st : St} {na : Int → Nat} {ci' : Nat} {c' : Cas} {hpL : Heap}
    (hc : cass[ci]? = some c) (hwf : RTWf c hp)
    (hfa : findAllFs K ts {} hp c.nextXid (defaultSeeds c) = .ok st)
    (hL : LOk K ts c ci st.heap (sortById st.allFs))
    (hrel : HeapRel st.heap (sortById st.allFs) na (E3 st.heap na ci') hpL) (hviews : ViewsRel st.heap na c c')
    (lf' : Nat) {a : Nat} (hr : Reach K ts {} st.heap (hp.length + 1) (defaultSeeds c) a) :
    ∀ x, (x, a) ∈ sortById st.allFs → Reach K ts {} hpL lf' (defaultSeeds c') (na x) := by
  have hflat := new_flat K ts cass ci c hp st.heap _ na ci' c' hpL hc hwf hL hrel hviews
  induction hr with
  | seed a hs =>
    intro x hx
    exact Reach.seed _ (seed_bwd hL hviews hx hs)
  | step a b hra hnull hsucc ih =>
    intro xb hxb
    have hmem := findAllFs_complete_aux K ts {} hp c.nextXid _ st hwf.next_pos hfa a hra hnull
    obtain ⟨⟨xa, a2⟩, hq, rfl⟩ := List.mem_map.mp hmem
    have hqa : (xa, a2) ∈ sortById st.allFs := mem_sortById.mpr hq
    have hfl := hL.flat _ hqa
    obtain ⟨o, _, ho, _⟩ := id hfl
    obtain ⟨n, hn⟩ := (succsOf_flat hfl ho _ b).mp hsucc
    obtain ⟨o', ho', hn'⟩ := rel_succ_bwd hL hrel hqa hxb ho hn
    refine Reach.step (na xa) (na xb) (ih xa hqa) ?_ ?_
    · rw [rel_xid hrel hqa]
      intro h
      exact (hL.ids _ hqa).2 (Option.some.inj h)
    · exact (succsOf_flat (hflat _ hqa) ho' lf' (na xb)).mpr ⟨n, hn'⟩

theorem new_allFs_perm {K : Consts} {ts : TypeSystem} {cass : List Cas} {ci : Nat} {c : Cas} {hp : Heap}
    {st : St} {na : Int → Nat} {ci' : Nat} {c' : Cas} {hpL : Heap} {st' : St}
    (hc : cass[ci]? = some c) (hwf : RTWf c hp)
    (hfa : findAllFs K ts {} hp c.nextXid (defaultSeeds c) = .ok st)
    (hL : LOk K ts c ci st.heap (sortById st.allFs))
    (hrel : HeapRel st.heap (sortById st.allFs) na (E3 st.heap na ci') hpL) (hviews : ViewsRel st.heap na c c')
    (hnx : 0 < c'.nextXid)
    (hfa' : findAllFs K ts {} hpL c'.nextXid (defaultSeeds c') = .ok st') (hheap : st'.heap = hpL)
    (hS : ∀ r ∈ st'.allFs, ∃ q ∈ sortById st.allFs, r.2 = na q.1) :
    st'.allFs.Perm (st.allFs.map (fun q => (q.1, na q.1))) := by
  have inv' := (findAllFs_inv K ts {} hpL c'.nextXid _ st' hfa').1
  have inv := (findAllFs_inv K ts {} hp c.nextXid _ st hfa).1
  have hnd' : st'.allFs.Nodup := nodup_of_nodup_map _ _ inv'.nodupK
  have hnd : (st.allFs.map (fun q => (q.1, na q.1))).Nodup := by
    apply nodup_of_nodup_map (·.1)
    rw [List.map_map]
    exact inv.nodupK
  rw [List.perm_ext_iff_of_nodup hnd' hnd]
  rintro ⟨x, b⟩
  constructor
  · intro hr
    obtain ⟨q, hq, hb⟩ := hS _ hr
    have h1 := inv'.link x b hr
    rw [hheap, show ((x, b) : Int × Nat).2 = b from rfl] at *
    subst hb
    rw [rel_xid hrel hq] at h1
    cases h1
    exact List.mem_map.mpr ⟨q, mem_sortById.mp hq, rfl⟩
  · intro hm
    obtain ⟨q, hq, heq⟩ := List.mem_map.mp hm
    cases heq
    have hqL : q ∈ sortById st.allFs := mem_sortById.mpr hq
    have hreach := findAllFs_sound_aux K ts {} hp c.nextXid _ st hwf.next_pos hfa q.2
      (List.mem_map.mpr ⟨q, hq, rfl⟩)
    have hreach' := reach_transfer hc hwf hfa hL hrel hviews (hpL.length + 1) hreach q.1 hqL
    rw [← hheap] at hreach'
    have hxid : xidOf st'.heap (na q.1) = some q.1 := by rw [hheap]; exact rel_xid hrel hqL
    have hmem := findAllFs_complete_aux K ts {} hpL c'.nextXid _ st' hnx hfa' (na q.1)
      (by rw [hheap] at hreach' ⊢; exact hreach')
      (by rw [hxid]; intro h; exact (hL.ids _ hqL).2 (Option.some.inj h))
    obtain ⟨⟨y, b⟩, hr, hb⟩ := List.mem_map.mp hmem
    simp only at hb
    subst hb
    have := inv'.link y _ hr
    rw [hxid] at this
    cases this
    exact hr

/-! ### rendering -/

theorem renderFs_of_flat {K : Consts} {ts : TypeSystem} {cass : List Cas} {c : Cas} {ci : Nat} {H : Heap} {a : Nat}
    {x : Int} (hc : cass[ci]? = some c) (hflat : FlatFs K ts c ci H a) (hid : xidOf H a = some x) :
    ∃ (o : Obj) (t : TypeRec), H[a]? = some o ∧ find? ts o.ty = some t ∧
      renderFs K ts cass H a = .ok (flatElem ts cass H x o t) := by
  obtain ⟨o, t, ho, ht, _, _, _, _, hpa, hfa, _, _, _, _, _, hfeat, hann⟩ := hflat
  have hox : o.xid = some x := by
    unfold xidOf at hid; rw [ho] at hid; exact hid
  have hAnn : AnnSofa cass (isInstanceOf ts o.ty ANNOTATION) o := by
    intro h
    obtain ⟨vn, v, _, _, _, hs, hv, _⟩ := hann h
    exact ⟨ci, vn, v, hs, by rw [hc]; exact hv⟩
  exact ⟨o, t, ho, ht, renderFs_flat K ts cass c ci H a x o t hc ho ht hox hpa hfa hfeat hAnn⟩

theorem renderAll_transfer {K : Consts} {ts : TypeSystem} {cass : List Cas} {ci : Nat} {c : Cas} {hp H : Heap}
    {L : List (Int × Nat)} {na : Int → Nat} {cass' : List Cas} {ci' : Nat} {c' : Cas} {hpL : Heap}
    (hc : cass[ci]? = some c) (hc' : cass'[ci']? = some c') (hwf : RTWf c hp) (hL : LOk K ts c ci H L)
    (hrel : HeapRel H L na (E3 H na ci') hpL) (hviews : ViewsRel H na c c') :
    ∀ (M : List (Int × Nat)), (∀ q ∈ M, q ∈ L) → ∀ es, renderAll K ts cass H M = .ok es →
      renderAll K ts cass' hpL (M.map (fun q => (q.1, na q.1))) = .ok es := by
  have hflat := new_flat K ts cass ci c hp H L na ci' c' hpL hc hwf hL hrel hviews
  have helem := new_elem K ts cass ci c hp H L na cass' ci' c' hpL hc hc' hwf hL hrel hviews
  intro M
  induction M with
  | nil => intro _ es h; exact h
  | cons q M ih =>
    intro hM es h
    have hq : q ∈ L := hM q List.mem_cons_self
    obtain ⟨o, t, ho, ht, hr⟩ := renderFs_of_flat (cass := cass) hc (hL.flat q hq) (hL.ids q hq).1
    obtain ⟨o', t', ho', ht', hr'⟩ := renderFs_of_flat (cass := cass') hc' (hflat q hq) (rel_xid hrel hq)
    obtain ⟨o1, o2, ho1, ho2, hty, _⟩ := hrel q hq
    rw [ho] at ho1; cases ho1
    rw [ho'] at ho2; cases ho2
    rw [hty, ht] at ht'; cases ht'
    rw [helem q hq o o' t ho ho' ht] at hr'
    simp only [renderAll, bind, Except.bind, pure, Except.pure, hr] at h
    simp only [List.map_cons, renderAll, bind, Except.bind, pure, Except.pure, hr']
    cases hrest : renderAll K ts cass H M with
    | error e => rw [hrest] at h; cases h
    | ok es' =>
      rw [hrest] at h
      rw [ih (fun q' hq' => hM q' (List.mem_cons_of_mem _ hq')) es' hrest]
      exact h

end Cassis.Xmi
