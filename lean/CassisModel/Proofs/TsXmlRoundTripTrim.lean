/-
C12 round trip, layer 3: the type system with all descriptions as the descriptor round trip leaves them
(`trTs`: an empty description is none, the others are stripped).  It has the same tree and satisfies `FeatInv`;
it is the target `o` of the simulation invariant `Sub o ·` under which the loader is run.
-/
import CassisModel.Proofs.TsXmlRoundTripInv

namespace Cassis.TsXml
open Cassis.TS

/-- a description after `to_xml` and `load_typesystem` -/
def trD (d : Option String) : Option String := normDescr (noEmpty d)
def trFeat (f : Feature) : Feature := { f with descr := trD f.descr }
def trRec (t : TypeRec) : TypeRec :=
  { t with descr := trD t.descr, own := t.own.map trFeat, inh := t.inh.map trFeat }
def trTs (ts : TypeSystem) : TypeSystem := { ts with types := ts.types.map trRec }

@[simp] theorem trRec_name (t : TypeRec) : (trRec t).name = t.name := rfl
@[simp] theorem trRec_super (t : TypeRec) : (trRec t).super = t.super := rfl
@[simp] theorem trRec_children (t : TypeRec) : (trRec t).children = t.children := rfl
@[simp] theorem trFeat_name (f : Feature) : (trFeat f).name = f.name := rfl

theorem find?_trTs (ts : TypeSystem) (x : String) : find? (trTs ts) x = (find? ts x).map trRec :=
  find_map_of_name ts ts.redeclared trRec (fun _ => rfl) x

theorem hasExact_trTs (ts : TypeSystem) (x : String) : hasExact (trTs ts) x = hasExact ts x := by
  unfold hasExact
  rw [find?_trTs]
  cases find? ts x <;> rfl

theorem fnames_map_trFeat (l : List Feature) : fnames (l.map trFeat) = fnames l := by
  simp [fnames, List.map_map, Function.comp_def]

theorem featureEq_trFeat {f g : Feature} (h : featureEq f g = true) : featureEq (trFeat f) (trFeat g) = true := by
  rw [featureEq_iff] at h ⊢
  obtain ⟨h1, h2, h3, h4⟩ := h
  exact ⟨h1, by show trD f.descr = trD g.descr; rw [h2], h3, h4⟩

theorem eff_trRec (t : TypeRec) : (trRec t).own ++ (trRec t).inh = (t.own ++ t.inh).map trFeat := by
  simp [trRec]

theorem featInv_trTs (ts : TypeSystem) (hf : FeatInv ts) : FeatInv (trTs ts) := by
  have hmem : ∀ t' ∈ (trTs ts).types, ∃ t ∈ ts.types, t' = trRec t := by
    intro t' ht'
    obtain ⟨t, ht, e⟩ := List.mem_map.mp ht'
    exact ⟨t, ht, e.symm⟩
  refine ⟨?_, ?_, ?_, ?_, ?_, ?_⟩
  · intro t' ht'
    obtain ⟨t, ht, rfl⟩ := hmem t' ht'
    show (fnames (t.own.map trFeat)).Nodup
    rw [fnames_map_trFeat]; exact hf.ownNodup t ht
  · intro t' ht'
    obtain ⟨t, ht, rfl⟩ := hmem t' ht'
    show (fnames (t.inh.map trFeat)).Nodup
    rw [fnames_map_trFeat]; exact hf.inhNodup t ht
  · intro t' ht' f hfm g hg e
    obtain ⟨t, ht, rfl⟩ := hmem t' ht'
    obtain ⟨f0, hf0, rfl⟩ := List.mem_map.mp hfm
    obtain ⟨g0, hg0, rfl⟩ := List.mem_map.mp hg
    exact featureEq_trFeat (hf.compat t ht f0 hf0 g0 hg0 e)
  · intro t' ht' s ps' hs hps' n
    obtain ⟨t, ht, rfl⟩ := hmem t' ht'
    rw [find?_trTs] at hps'
    cases hps : find? ts s with
    | none => rw [hps] at hps'; cases hps'
    | some ps =>
      rw [hps] at hps'
      simp only [Option.map_some, Option.some.injEq] at hps'
      subst hps'
      rw [mem_fnames_allFeatures]
      show n ∈ fnames (t.inh.map trFeat) ↔ n ∈ fnames (ps.own.map trFeat) ∨ n ∈ fnames (ps.inh.map trFeat)
      rw [fnames_map_trFeat, fnames_map_trFeat, fnames_map_trFeat]
      exact hf.inherit' ht hs hps n
  · intro t' ht' s ps' hs hps' g hg f hfm e
    obtain ⟨t, ht, rfl⟩ := hmem t' ht'
    rw [find?_trTs] at hps'
    cases hps : find? ts s with
    | none => rw [hps] at hps'; cases hps'
    | some ps =>
      rw [hps] at hps'
      simp only [Option.map_some, Option.some.injEq] at hps'
      subst hps'
      have hfm' := allFeatures_sub hfm
      rw [eff_trRec] at hfm'
      obtain ⟨f0, hf0, rfl⟩ := List.mem_map.mp hfm'
      obtain ⟨g0, hg0, rfl⟩ := List.mem_map.mp hg
      exact featureEq_trFeat (hf.inheritEq' ht hs hps g0 hg0 f0 hf0 e)
  · intro t' ht' hs
    obtain ⟨t, ht, rfl⟩ := hmem t' ht'
    show t.inh.map trFeat = []
    rw [hf.rootInh t ht hs]; rfl

end Cassis.TsXml
