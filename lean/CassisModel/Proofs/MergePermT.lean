/-
Helper lemmas for `Properties/C13Perm.lean`, part T: the ancestor relation of one tree against that of a tree it is a
part of (`SubP`).
-/
import CassisModel.Proofs.MergePermA

namespace Cassis.TS

theorem anc_antisymm {ts : TypeSystem} (hc : Consistent ts) {a b : String} (h1 : Anc ts a b) (h2 : Anc ts b a) :
    a = b := by
  obtain ⟨ta, hta⟩ := (hasExact_iff_find ts a).mp h1.left_reg
  obtain ⟨tb, htb⟩ := (hasExact_iff_find ts b).mp h1.right_reg
  obtain ⟨i, hi, ei⟩ := find?_idx hta
  obtain ⟨j, hj, ej⟩ := find?_idx htb
  have hia : (ts.types[i]).name = a := by rw [ei]; exact find?_name hta
  have hjb : (ts.types[j]).name = b := by rw [ej]; exact find?_name htb
  have l1 := h1.idx_le hc i j hi hj hia hjb
  have l2 := h2.idx_le hc j i hj hi hjb hia
  have : i = j := by omega
  subst this
  rw [← hia, ← hjb]

/-- the ancestors in `o` of a type registered in the part `m` are its ancestors in `m` — provided the chain does not
    pass through the document annotation type while that still sits at its initial place in `m` -/
theorem anc_down_sub {o m : TypeSystem} (hs : SubP o isDA m) (hcm : Consistent m) {a b : String} (h : Anc o a b) :
    hasExact m b = true →
    ((∀ to tm, find? o DOCUMENT_ANNOTATION = some to → find? m DOCUMENT_ANNOTATION = some tm → to.super = tm.super) ∨
      ¬ Anc o DOCUMENT_ANNOTATION b) →
    Anc m a b := by
  induction h with
  | refl _ => intro hb _; exact Anc.refl _ hb
  | step b s tb hfb hsb hab ih =>
    intro hb hx
    obtain ⟨tm, htm⟩ := (hasExact_iff_find m b).mp hb
    obtain ⟨to, hto, hr⟩ := hs b tm htm
    rw [hfb] at hto
    cases hto
    have hsm : tm.super = some s := by
      by_cases hbd : b = DOCUMENT_ANNOTATION
      · rcases hx with hx | hx
        · subst hbd
          rw [← hx tb tm hfb htm]; exact hsb
        · exfalso
          apply hx
          rw [← hbd]
          exact Anc.refl b ((hasExact_iff_find o b).mpr ⟨tb, hfb⟩)
      · rw [← hr.super hbd]; exact hsb
    have hsreg : hasExact m s = true := hcm.superReg tm (find?_mem htm) s hsm
    refine Anc.step a b s tm htm hsm (ih hsreg ?_)
    rcases hx with hx | hx
    · exact Or.inl hx
    · exact Or.inr (fun h' => hx (Anc.step _ b s tb hfb hsb h'))

end Cassis.TS
