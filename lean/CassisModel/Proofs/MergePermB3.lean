/-
Helper lemmas for `Properties/C13Perm.lean`, part B3: the replay invariant of the readiness loop.
-/
import CassisModel.Proofs.MergePermB2

namespace Cassis.TS

structure MInvP (K : Consts) (o : TypeSystem) (s : MState) : Prop where
  cons : Consistent s.ts
  feat : FeatInv s.ts
  sub : SubP o isDA s.ts
  pre : ∀ p, K.predefined.contains p = true → hasExact s.ts p = true
  mer : ∀ x ∈ s.merged, hasExact s.ts x = true
  /-- the document annotation type has its final supertype, or is still an unmerged leaf below `uima.tcas.Annotation` -/
  da : ∃ t, find? s.ts DOCUMENT_ANNOTATION = some t ∧
    ((∀ to, find? o DOCUMENT_ANNOTATION = some to → to.super = t.super) ∨
     (DOCUMENT_ANNOTATION ∉ s.merged ∧ t.super = some ANNOTATION ∧ t.children = []))

theorem processDecl_invP (K : Consts) (o : TypeSystem) (hfo : FeatInv o) (hco : Consistent o)
    (hann : K.predefined.contains ANNOTATION = true) (hdap : K.predefined.contains DOCUMENT_ANNOTATION = false)
    (s : MState) (d : Decl) (hi : MInvP K o s) (hd : DeclOkP K o d)
    (hready : (K.predefined.contains d.super || s.merged.contains d.super) = true) :
    ∃ s', processDecl K s d = .ok s' ∧ MInvP K o s' := by
  have hsup : hasExact s.ts d.super = true := by
    rcases Bool.or_eq_true _ _ |>.mp hready with h | h
    · exact hi.pre _ h
    · exact hi.mer _ (by simpa using h)
  have hdsup : DOCUMENT_ANNOTATION ∉ s.merged → d.super ≠ DOCUMENT_ANNOTATION := by
    intro hnm e
    rcases Bool.or_eq_true _ _ |>.mp hready with h | h
    · rw [e, hdap] at h; cases h
    · rw [e] at h; exact hnm (by simpa using h)
  have hregann : hasExact s.ts ANNOTATION = true := hi.pre _ hann
  obtain ⟨tn, htn, hcov, hdisj⟩ := hd.ex
  have hregosup : hasExact o d.super = true := by
    obtain ⟨ns, hns⟩ := (hasExact_iff_find _ _).mp hsup
    obtain ⟨so, hso, _⟩ := hi.sub d.super ns hns
    exact (hasExact_iff_find _ _).mpr ⟨so, hso⟩
  have hancOf : tn.super = some d.super → Anc o d.super d.name :=
    fun h => Anc.step _ _ _ tn htn h (Anc.refl _ hregosup)
  obtain ⟨t, ht, hset⟩ := hi.da
  -- how a tree-preserving step re-establishes the invariant
  have finish : ∀ s', StepOut K o isDA s d s' →
      (∃ t', find? s'.ts DOCUMENT_ANNOTATION = some t' ∧
        ((∀ to, find? o DOCUMENT_ANNOTATION = some to → to.super = t'.super) ∨
         (DOCUMENT_ANNOTATION ∉ s'.merged ∧ t'.super = some ANNOTATION ∧ t'.children = []))) → MInvP K o s' := by
    intro s' hout hda
    refine ⟨hout.cons, hout.feat, hout.sub, fun p hp => hout.grow.reg p (hi.pre p hp), ?_, hda⟩
    intro x hx
    rcases (mem_merged_step hout.merged x).mp hx with h | rfl
    · exact hout.grow.reg x (hi.mer x h)
    · exact hout.reg
  -- … and settles the document annotation type if it had, or now has, its final supertype
  have settled : ∀ s', StepOut K o isDA s d s' → tn.super = t.super → d.name = DOCUMENT_ANNOTATION →
      ∃ t', find? s'.ts DOCUMENT_ANNOTATION = some t' ∧
        ((∀ to, find? o DOCUMENT_ANNOTATION = some to → to.super = t'.super) ∨
         (DOCUMENT_ANNOTATION ∉ s'.merged ∧ t'.super = some ANNOTATION ∧ t'.children = [])) := by
    intro s' hout hts hdn
    obtain ⟨t', ht', hs', _⟩ := hout.grow DOCUMENT_ANNOTATION t ht
    refine ⟨t', ht', Or.inl ?_⟩
    intro to hto
    rw [hdn] at htn
    rw [htn] at hto; cases hto
    rw [hs']; exact hts
  by_cases hdn : d.name = DOCUMENT_ANNOTATION
  · -- the document annotation type
    have he : find? s.ts d.name = some t := by rw [hdn]; exact ht
    have htn' : find? o DOCUMENT_ANNOTATION = some tn := by rw [← hdn]; exact htn
    rcases hdisj with ⟨htns, hax⟩ | ⟨_, htns, hax⟩
    · have hax := hax hdn
      by_cases hts : t.super = some d.super
      · obtain ⟨s', h', hout⟩ := stepP_same K o hfo s d hi.cons hi.feat hi.sub t he hts tn htn hcov hd.user
        exact ⟨s', h', finish s' hout (settled s' hout (by rw [htns, hts]) hdn)⟩
      · rcases hset with hset | ⟨hnm, hts', hleaf⟩
        · exfalso
          apply hts
          rw [← hset tn htn']; exact htns
        · have hne : d.super ≠ ANNOTATION := fun e => hts (by rw [hts', e])
          have hnd : ¬ Anc o DOCUMENT_ANNOTATION d.super := not_anc_of_super hco htn' htns
          have hmax : Anc s.ts ANNOTATION d.super := anc_down_sub hi.sub hi.cons hax hsup (Or.inr hnd)
          have hxn : d.super ≠ d.name := by
            intro e
            apply hnd
            rw [e, hdn]
            exact Anc.refl _ ((hasExact_iff_find _ _).mpr ⟨tn, htn'⟩)
          obtain ⟨s', h', hc', hf', hs', hreg', _, hm', ⟨t', ht', hsup', _⟩, _⟩ :=
            stepP_reparent K o hfo s d hi.cons hi.feat hi.sub hdn t he ANNOTATION hts' hleaf hsup hmax hne tn htn
              (hancOf htns) hxn hcov hd.user
          rw [hdn] at ht'
          refine ⟨s', h', hc', hf', hs', fun p hp => hreg' p (hi.pre p hp), ?_, t', ht', Or.inl ?_⟩
          · intro x hx
            rcases (mem_merged_step hm' x).mp hx with h | rfl
            · exact hreg' x (hi.mer x h)
            · rw [hdn]; exact (hasExact_iff_find _ _).mpr ⟨t', ht'⟩
          · intro to hto
            rw [htn'] at hto; cases hto
            rw [hsup']; exact htns
    · have hts : t.super = some ANNOTATION := by
        rcases hset with hset | ⟨_, hts', _⟩
        · rw [← hset tn htn']; exact htns
        · exact hts'
      by_cases hds : d.super = ANNOTATION
      · obtain ⟨s', h', hout⟩ :=
          stepP_same K o hfo s d hi.cons hi.feat hi.sub t he (by rw [hts, hds]) tn htn hcov hd.user
        exact ⟨s', h', finish s' hout (settled s' hout (by rw [htns, hts]) hdn)⟩
      · have hnd : ¬ Anc o DOCUMENT_ANNOTATION ANNOTATION := not_anc_of_super hco htn' htns
        have h2 : Anc s.ts d.super ANNOTATION := anc_down_sub hi.sub hi.cons hax hregann (Or.inr hnd)
        have h1 : ¬ Anc s.ts ANNOTATION d.super := by
          intro h
          exact hds (anc_antisymm hco hax (anc_subP hi.sub h))
        obtain ⟨s', h', hout⟩ := stepP_noop K o hfo s d hi.cons hi.feat hi.sub t ANNOTATION he hts hds hregann hsup
          h1 h2 tn htn hcov hd.user
        exact ⟨s', h', finish s' hout (settled s' hout (by rw [htns, hts]) hdn)⟩
  · -- any other name
    have htns : tn.super = some d.super := by
      rcases hdisj with ⟨h, _⟩ | ⟨h, _⟩
      · exact h
      · exact absurd h hdn
    have hbranch : ∃ s', processDecl K s d = .ok s' ∧ StepOut K o isDA s d s' ∧
        (hasExact s.ts d.name = false ∨ ∃ ex, find? s.ts d.name = some ex ∧ ex.super = some d.super) := by
      cases hx : hasExact s.ts d.name with
      | false =>
        obtain ⟨s', h', hout⟩ := stepP_new K o hfo s d hi.cons hi.feat hi.sub hx hsup tn htn (fun _ => htns)
          (hancOf htns) hcov (hd.nonfinal hdn) hd.user
        exact ⟨s', h', hout, Or.inl rfl⟩
      | true =>
        obtain ⟨ex, he⟩ := (hasExact_iff_find _ _).mp hx
        obtain ⟨to, hto, hr⟩ := hi.sub d.name ex he
        rw [htn] at hto; cases hto
        have hss : ex.super = some d.super := by rw [← hr.super hdn]; exact htns
        obtain ⟨s', h', hout⟩ := stepP_same K o hfo s d hi.cons hi.feat hi.sub ex he hss tn htn hcov hd.user
        exact ⟨s', h', hout, Or.inr ⟨ex, he, hss⟩⟩
    obtain ⟨s', h', hout, hbr⟩ := hbranch
    refine ⟨s', h', finish s' hout ?_⟩
    obtain ⟨t', ht', hs', _⟩ := hout.grow DOCUMENT_ANNOTATION t ht
    refine ⟨t', ht', ?_⟩
    rcases hset with hset | ⟨hnm, hts', hleaf⟩
    · left
      intro to hto
      rw [hs']; exact hset to hto
    · right
      refine ⟨?_, by rw [hs']; exact hts', ?_⟩
      · intro hm
        rcases (mem_merged_step hout.merged _).mp hm with h | h
        · exact hnm h
        · exact hdn h.symm
      · obtain ⟨t'', ht'', hk⟩ := processDecl_children K s s' d hi.cons hi.feat h' hbr hsup
          DOCUMENT_ANNOTATION t ht (fun e => hdsup hnm e.symm)
        rw [ht'] at ht''; cases ht''
        rw [hk]; exact hleaf

theorem mergeRound_replay (K : Consts) (o : TypeSystem) (hfo : FeatInv o) (hco : Consistent o)
    (hann : K.predefined.contains ANNOTATION = true) (hdap : K.predefined.contains DOCUMENT_ANNOTATION = false) :
    ∀ (ds : List Decl) (s : MState) (n : Nat), MInvP K o s → (∀ d ∈ ds, DeclOkP K o d) →
      ∃ s' n', mergeRound K ds s n = .ok (s', n') ∧ MInvP K o s' := by
  intro ds
  induction ds with
  | nil => intro s n hi _; exact ⟨s, n, rfl, hi⟩
  | cons d ds ih =>
    intro s n hi hok
    simp only [mergeRound]
    split
    · rename_i hready
      obtain ⟨s1, h1, hi1⟩ := processDecl_invP K o hfo hco hann hdap s d hi (hok d List.mem_cons_self) hready
      rw [h1]
      exact ih s1 (n + 1) hi1 (fun d' hd' => hok d' (List.mem_cons_of_mem _ hd'))
    · exact ih s n hi (fun d' hd' => hok d' (List.mem_cons_of_mem _ hd'))

theorem mergeLoop_replay (K : Consts) (o : TypeSystem) (hfo : FeatInv o) (hco : Consistent o)
    (hann : K.predefined.contains ANNOTATION = true) (hdap : K.predefined.contains DOCUMENT_ANNOTATION = false)
    (decls : List Decl) (hok : ∀ d ∈ decls, DeclOkP K o d) :
    ∀ (fuel : Nat) (s : MState), MInvP K o s →
      (∃ s', mergeLoop K decls fuel s = .ok s' ∧ MInvP K o s') ∨ mergeLoop K decls fuel s = .error .outOfFuel := by
  intro fuel
  induction fuel with
  | zero => intro s _; exact Or.inr rfl
  | succ fuel ih =>
    intro s hi
    obtain ⟨s1, n1, h1, hi1⟩ := mergeRound_replay K o hfo hco hann hdap decls s 0 hi hok
    simp only [mergeLoop, h1]
    split
    · exact Or.inl ⟨s1, rfl, hi1⟩
    · exact ih s1 hi1

/-- replaying declarations that `o` makes too, in any order, succeeds with a part of `o` -/
theorem mergeDecls_replay (K : Consts) (o base : TypeSystem) (hfo : FeatInv o) (hco : Consistent o)
    (hann : K.predefined.contains ANNOTATION = true) (hdap : K.predefined.contains DOCUMENT_ANNOTATION = false)
    (decls : List Decl)
    (hinv : MInvP K o { ts := base, merged := [] }) (hok : ∀ d ∈ decls, DeclOkP K o d)
    (hterm : mergeDecls K base decls ≠ .error .outOfFuel) :
    ∃ s', mergeLoop K decls (decls.length + 1) { ts := base, merged := [] } = .ok s' ∧
      mergeDecls K base decls = .ok s'.ts ∧ MInvP K o s' := by
  rcases mergeLoop_replay K o hfo hco hann hdap decls hok (decls.length + 1) _ hinv with ⟨s', h, hi⟩ | h
  · exact ⟨s', h, by simp only [mergeDecls, h], hi⟩
  · exfalso
    apply hterm
    simp only [mergeDecls, h]

end Cassis.TS
