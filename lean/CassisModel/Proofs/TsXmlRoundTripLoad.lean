/-
C12 round trip, layer 5: `load` succeeds on every descriptor whose declarations are declarations of a consistent
type system `o`, and the result is a part of `o` (`LInv o ·`).
-/
import CassisModel.Proofs.TsXmlRoundTripRun
import CassisModel.Proofs.TsXmlRoundTripTopo

namespace Cassis.TsXml
open Cassis.TS

/-! ### the checks before the loops -/

theorem featsResolvable_of (ok : String → Bool) : ∀ (fs : List FDesc),
    (∀ f ∈ fs, ok f.range = true ∧ ∀ e, f.elem = some e → ok e = true) → featsResolvable ok fs = true := by
  intro fs
  induction fs with
  | nil => intro _; rfl
  | cons g gs ih =>
    intro h
    unfold featsResolvable
    obtain ⟨h1, h2⟩ := h g List.mem_cons_self
    rw [h1, ih (fun f hf => h f (List.mem_cons_of_mem _ hf))]
    cases he : g.elem with
    | none => rfl
    | some e => simp [h2 e he]

theorem allResolvable_of (ok : String → Bool) : ∀ (d : Descriptor),
    (∀ t ∈ d, ok t.super = true ∧ ∀ f ∈ t.feats, ok f.range = true ∧ ∀ e, f.elem = some e → ok e = true) →
    allResolvable ok d = true := by
  intro d
  induction d with
  | nil => intro _; rfl
  | cons u us ih =>
    intro h
    unfold allResolvable
    obtain ⟨h1, h2⟩ := h u List.mem_cons_self
    rw [h1, featsResolvable_of ok _ h2, ih (fun t ht => h t (List.mem_cons_of_mem _ ht))]
    rfl

theorem checkPredefined_ok (K : Consts) (base : TypeSystem) : ∀ (E : Descriptor),
    (∀ t ∈ E, K.predefined.contains t.name = true → ∃ pt, find? base t.name = some pt ∧ pt.super = some t.super ∧
      t.feats.map (fun f => featKey f.name f.descr f.range f.elem) =
        pt.own.map (fun f => featKey f.name f.descr f.range f.elem)) →
    checkPredefined K base E = .ok ((E.filter (fun t => K.predefined.contains t.name)).map (·.name)) := by
  intro E
  induction E with
  | nil => intro _; rfl
  | cons u us ih =>
    intro h
    have ihu := ih (fun t ht => h t (List.mem_cons_of_mem _ ht))
    unfold checkPredefined
    cases hp : K.predefined.contains u.name with
    | false =>
      rw [List.filter_cons, hp]
      simp only [Bool.false_eq_true, if_false]
      exact ihu
    | true =>
      obtain ⟨pt, hpt, hsup, hkeys⟩ := h u List.mem_cons_self hp
      have hne : (pt.super != some u.super) = false := by rw [hsup]; simp
      simp only [List.filter_cons, hp, if_true, List.map_cons, hpt, hne, Bool.false_eq_true, if_false]
      rw [hkeys]
      simp only [bne_self_eq_false, Bool.false_eq_true, if_false, ihu]

/-- the loader, assembled from its parts -/
theorem load_of_parts (K : Consts) (d0 : Descriptor) (redecl order created : List String) (ts1 ts2 : TypeSystem)
    (hres : allResolvable (fun n => K.predefined.contains n || ((effective d0).map (·.name)).contains n)
      (effective d0) = true)
    (hchk : checkPredefined K Gen.builtinTSNoDoc (effective d0) = .ok redecl)
    (hord : creationOrder (effective d0) = .ok order)
    (hct : createTypes K (effective d0) order Gen.builtinTSNoDoc = .ok (ts1, created))
    (haf : addAllFeats (effective d0) created ts1 = .ok ts2) :
    load K d0 = .ok { ts2 with redeclared :=
      (if ((normalize d0).map (·.name)).contains DOCUMENT_ANNOTATION then [DOCUMENT_ANNOTATION] else []) ++ redecl } := by
  unfold load
  have he : effective d0 = if ((normalize d0).map (·.name)).contains DOCUMENT_ANNOTATION then normalize d0
      else normalize d0 ++ [{ name := DOCUMENT_ANNOTATION, super := ANNOTATION,
                              feats := [{ name := "language", range := "uima.cas.String" }] }] := rfl
  rw [he] at hres hchk hord hct haf
  cases hc : ((normalize d0).map (·.name)).contains DOCUMENT_ANNOTATION
  all_goals
    simp only [hc, if_true, Bool.false_eq_true, if_false] at hres hchk hord hct haf ⊢
    simp only [hres, hchk, hord, hct, haf, Bool.not_true, Bool.false_eq_true, if_false]

/-! ### supertypes come first in the registry of a consistent type system -/

theorem rank_lt {o : TypeSystem} (hco : Consistent o) {a s : String} {ta : TypeRec}
    (hta : find? o a = some ta) (hs : ta.super = some s) :
    List.idxOf s (o.types.map (·.name)) < List.idxOf a (o.types.map (·.name)) := by
  obtain ⟨i, hi, e⟩ := find?_idx hta
  obtain ⟨j, hji, hj, hjn⟩ := hco.topo i hi s (by rw [e]; exact hs)
  have hi' : i < (o.types.map (·.name)).length := by simpa using hi
  have hj' : j < (o.types.map (·.name)).length := by simpa using hj
  have e1 : (o.types.map (·.name))[i] = a := by
    simp only [List.getElem_map, e]; exact find?_name hta
  have e2 : (o.types.map (·.name))[j] = s := by
    simp only [List.getElem_map]; exact hjn
  have r1 := hco.nodup.idxOf_getElem i hi'
  have r2 := hco.nodup.idxOf_getElem j hj'
  rw [e1] at r1
  rw [e2] at r2
  omega

/-! ### success -/

theorem load_succeeds (o : TypeSystem) (hco : Consistent o) (hfo : FeatInv o) (d0 : Descriptor)
    (hdecl : ∀ t ∈ effective d0, ∃ tn, find? o t.name = some tn ∧ tn.super = some t.super ∧
      (Gen.consts.predefined.contains t.name = false →
        tn.descr = t.descr ∧ Gen.consts.finalTypes.contains t.super = false ∧
        ∀ f ∈ t.feats, CovIn o t.name (mkFeat t.name f)) ∧
      (∀ f ∈ t.feats, hasExact o f.range = true ∧ ∀ e, f.elem = some e → hasExact o e = true))
    (hall : ∀ x, hasExact o x = true →
      Gen.consts.predefined.contains x = true ∨ x ∈ (effective d0).map (·.name))
    (hchk : ∀ t ∈ effective d0, Gen.consts.predefined.contains t.name = true →
      ∃ pt, find? Gen.builtinTSNoDoc t.name = some pt ∧ pt.super = some t.super ∧
        t.feats.map (fun f => featKey f.name f.descr f.range f.elem) =
          pt.own.map (fun f => featKey f.name f.descr f.range f.elem))
    (hbase : Sub o Gen.builtinTSNoDoc) :
    ∃ ts2, load Gen.consts d0 = .ok { ts2 with redeclared :=
        (if ((normalize d0).map (·.name)).contains DOCUMENT_ANNOTATION then [DOCUMENT_ANNOTATION] else []) ++
          ((effective d0).filter (fun t => Gen.consts.predefined.contains t.name)).map (·.name) } ∧
      LInv o ts2 ∧ Grow Gen.consts Gen.builtinTSNoDoc ts2 := by
  have hnd := effective_nodup d0
  have hfindE : ∀ t ∈ effective d0, (effective d0).find? (fun u => u.name == t.name) = some t :=
    dfind_of_mem _ hnd
  -- registered names of `o` pass the resolvability test
  have hok : ∀ x, hasExact o x = true →
      (Gen.consts.predefined.contains x || ((effective d0).map (·.name)).contains x) = true := by
    intro x hx
    rcases hall x hx with h | h
    · rw [h]; rfl
    · rw [List.contains_iff_mem.mpr h]; simp
  have hsupreg : ∀ t ∈ effective d0, hasExact o t.super = true := by
    intro t ht
    obtain ⟨tn, hftn, htns, _⟩ := hdecl t ht
    exact hco.superReg tn (find?_mem hftn) t.super htns
  have hres : allResolvable (fun n => Gen.consts.predefined.contains n || ((effective d0).map (·.name)).contains n)
      (effective d0) = true := by
    apply allResolvable_of
    intro t ht
    obtain ⟨tn, hftn, htns, _, hr⟩ := hdecl t ht
    refine ⟨hok _ (hsupreg t ht), ?_⟩
    intro f hf
    exact ⟨hok _ (hr f hf).1, fun e he => hok _ ((hr f hf).2 e he)⟩
  have hchk' := checkPredefined_ok Gen.consts Gen.builtinTSNoDoc (effective d0) hchk
  -- the dependency order
  have hsne : ∀ t ∈ effective d0, t.super ≠ t.name := by
    intro t ht e
    obtain ⟨tn, hftn, htns, _⟩ := hdecl t ht
    have := rank_lt hco hftn htns
    rw [e] at this
    omega
  obtain ⟨order, hord, hordnd, hordmem⟩ := Json.toposort_ok
    ((effective d0).map (fun t => ({ name := t.name, super := t.super } : Json.JType)))
    (fun n => List.idxOf n (o.types.map (·.name))) (by
      intro jt hjt _
      obtain ⟨t, ht, rfl⟩ := List.mem_map.mp hjt
      obtain ⟨tn, hftn, htns, _⟩ := hdecl t ht
      exact rank_lt hco hftn htns)
  have hord' : creationOrder (effective d0) = .ok order := hord
  have hsound := creationOrder_sound_aux (effective d0) order hord'
  have hordE : ∀ x ∈ order, Gen.consts.predefined.contains x = false → ∃ t ∈ effective d0, t.name = x := by
    intro x hx hpx
    rcases hordmem x hx with h | h
    · simp only [List.map_map, List.mem_map, Function.comp] at h
      obtain ⟨t, ht, e⟩ := h
      exact ⟨t, ht, e⟩
    · simp only [List.map_map, List.mem_map, Function.comp] at h
      obtain ⟨t, ht, e⟩ := h
      rcases hall x (e ▸ hsupreg t ht) with h1 | h1
      · rw [hpx] at h1; cases h1
      · obtain ⟨u, hu, hun⟩ := List.mem_map.mp h1
        exact ⟨u, hu, hun⟩
  have hE : ∀ n t, (effective d0).find? (fun u => u.name == n) = some t →
      Gen.consts.predefined.contains n = false →
      ∃ tn, find? o n = some tn ∧ tn.super = some t.super ∧ tn.descr = t.descr ∧
        Gen.consts.finalTypes.contains t.super = false := by
    intro n t hfd hpn
    obtain ⟨htm, htn⟩ := dfind_some hfd
    obtain ⟨tn, hftn, htns, hu, _⟩ := hdecl t htm
    rw [htn] at hftn hu
    obtain ⟨h1, h2, _⟩ := hu hpn
    exact ⟨tn, hftn, htns, h1, h2⟩
  have hbinv : LInv o Gen.builtinTSNoDoc := ⟨base_inv.1, base_inv.2, inhSub_builtins.2, hbase⟩
  obtain ⟨ts1, created, hct, hi1, hg1⟩ := createTypes_ok Gen.consts o hfo (effective d0) hE order
    Gen.builtinTSNoDoc hordnd hbinv
    (by
      intro n hn hpn
      refine ⟨?_, ?_⟩
      · cases hx : hasExact Gen.builtinTSNoDoc n with
        | false => rfl
        | true =>
          obtain ⟨t0, ht0⟩ := (hasExact_iff_find _ n).mp hx
          have := base_all_predef t0 (find?_mem ht0)
          rw [find?_name ht0, hpn] at this
          cases this
      · obtain ⟨t, ht, e⟩ := hordE n hn hpn
        exact ⟨t, e ▸ hfindE t ht⟩)
    (by
      intro pre n post hsplit hpn t hfd
      obtain ⟨htm, htn⟩ := dfind_some hfd
      cases hps : Gen.consts.predefined.contains t.super with
      | true => exact Or.inl (base_predef_reg _ hps)
      | false =>
        right
        have hi : order[pre.length]? = some t.name := by rw [hsplit, htn]; simp
        obtain ⟨u, hu, hun⟩ : ∃ u ∈ effective d0, u.name = t.super := by
          rcases hall _ (hsupreg t htm) with h1 | h1
          · rw [hps] at h1; cases h1
          · obtain ⟨u, hu, hun⟩ := List.mem_map.mp h1
            exact ⟨u, hu, hun⟩
        have hso : t.super ∈ order := hun ▸ hsound.1 u hu
        obtain ⟨j, hj⟩ := List.mem_iff_getElem?.mp hso
        have hlt := hsound.2 t htm (hsne t htm) pre.length j hi hj
        rw [hsplit, List.getElem?_append_left hlt] at hj
        exact List.mem_of_getElem? hj)
    (fun p _ hp => base_predef_reg p hp)
  have S := createTypes_spec Gen.consts (effective d0) order Gen.builtinTSNoDoc ts1 created base_inv hct
  have hcreated : ∀ t ∈ effective d0, Gen.consts.predefined.contains t.name = false → t.name ∈ created := by
    intro t ht hp
    rw [S.filt, List.mem_filter]
    exact ⟨hsound.1 t ht, by rw [hp]; rfl⟩
  have hreg1 : ∀ x, hasExact o x = true → hasExact ts1 x = true := by
    intro x hx
    rcases hall x hx with h | h
    · exact hg1.reg x (base_predef_reg x h)
    · cases hp : Gen.consts.predefined.contains x with
      | true => exact hg1.reg x (base_predef_reg x hp)
      | false =>
        obtain ⟨u, hu, hun⟩ := List.mem_map.mp h
        have hmc : x ∈ created := hun ▸ hcreated u hu (by rw [hun]; exact hp)
        obtain ⟨u', hu'⟩ := S.decl x hmc
        obtain ⟨r, hr, _⟩ := S.made x hmc u' hu'
        exact (hasExact_iff_find ts1 x).mpr ⟨r, hr⟩
  obtain ⟨ts2, haf, hi2, hsk2, hg2⟩ := addAllFeats_ok Gen.consts o hfo (effective d0) created ts1 hi1
    (by
      intro n hn
      rw [S.filt, List.mem_filter] at hn
      simpa using hn.2)
    (by
      intro n hn t hfd
      obtain ⟨htm, htn⟩ := dfind_some hfd
      have hpn : Gen.consts.predefined.contains n = false := by
        rw [S.filt, List.mem_filter] at hn
        simpa using hn.2
      obtain ⟨tn, hftn, _, hu, hr⟩ := hdecl t htm
      rw [htn] at hftn hu
      obtain ⟨_, _, hcov⟩ := hu hpn
      refine ⟨hreg1 n ((hasExact_iff_find o n).mpr ⟨tn, hftn⟩), ?_⟩
      intro f hf
      exact ⟨hreg1 _ (hr f hf).1, fun e he => hreg1 _ ((hr f hf).2 e he), hcov f hf⟩)
  exact ⟨ts2, load_of_parts Gen.consts d0 _ order created ts1 ts2 hres hchk' hord' hct haf, hi2, hg1.trans hg2⟩

end Cassis.TsXml
