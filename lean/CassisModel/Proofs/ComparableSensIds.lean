/-
The side condition `XidInj` of the sensitivity theorems holds for what `_find_all_fs` delivers.
-/
import CassisModel.Spec.ComparableSens
import CassisModel.Proofs.Traverse

namespace Cassis.Comparable
open Cassis.TS Cassis.Traverse

theorem pair_eq_of_nodup_keys {l : List (Int × Nat)} (hn : (l.map (·.1)).Nodup) {x : Int} {a b : Nat}
    (ha : (x, a) ∈ l) (hb : (x, b) ∈ l) : a = b := by
  induction l with
  | nil => cases ha
  | cons p rest ih =>
    simp only [List.map_cons, List.nodup_cons] at hn
    rcases List.mem_cons.1 ha with h1 | h1 <;> rcases List.mem_cons.1 hb with h2 | h2
    · rw [← h1] at h2
      exact (Prod.mk.inj h2).2.symm
    · exfalso
      apply hn.1
      rw [← h1]
      exact List.mem_map_of_mem (f := (·.1)) h2
    · exfalso
      apply hn.1
      rw [← h2]
      exact List.mem_map_of_mem (f := (·.1)) h1
    · exact ih hn.2 h1 h2

theorem xidInj_of_findAllFs_aux (K : Consts) (ts : TypeSystem) (o : Traverse.Opts) (hp : Heap) (nx : Int)
    (seeds : List Nat) (st : St) (h : findAllFs K ts o hp nx seeds = .ok st) :
    XidInj st.heap (st.allFs.map (·.2)) := by
  have inv := (findAllFs_inv K ts o hp nx seeds st h).1
  intro a ha b hb e
  obtain ⟨⟨x, a'⟩, hxa, rfl⟩ := List.mem_map.1 ha
  obtain ⟨⟨y, b'⟩, hyb, rfl⟩ := List.mem_map.1 hb
  simp only [] at e ⊢
  rw [inv.link x a' hxa, inv.link y b' hyb] at e
  have : x = y := Option.some.inj e
  subst this
  exact pair_eq_of_nodup_keys inv.nodupK hxa hyb

end Cassis.Comparable
