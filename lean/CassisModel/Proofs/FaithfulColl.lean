/-
C04, faithfulness of the XMI writer on the whole format (`Properties/C04FaithfulColl.lean`): two CASes that are written
to the same document have the same content, inlined and shared collections included.

Method as in `Proofs/Faithful.lean`: both written heaps are padded to a common length (by blank objects,
`Proofs/FaithfulPad.lean`, `Proofs/FaithfulCollPad.lean`), the document is loaded over one base heap of that length —
the first pass is redone over an arbitrary base heap (`pass1_coll_base`), the other layers of
`Proofs/RoundTripColl.lean` know the written heap only through its length and its contents — and the two round trips
compose.
-/
import CassisModel.Proofs.FaithfulCollPad
import CassisModel.Proofs.RoundTripColl
import CassisModel.Proofs.RoundTripCollDemo

namespace Cassis.Xmi
open Cassis.TS Cassis.Traverse Cassis.Lex CAS

namespace FaithfulColl

/-- the first pass (`pass1_coll`) with the document given by its parts and the reader starting from any heap as long
    as `H` -/
theorem pass1_coll_base (K : Consts) (ts : TypeSystem) (cass : List Cas) (c : Cas) (H hb : Heap)
    (L : List (Int × Nat)) (tsIdx : Nat) (doc : XDoc) (es : List XElem)
    (hnd : (c.views.map (·.2.sofa.xid)).Nodup) (hnull : NullOk ts)
    (hnodup : (L.map (·.1)).Nodup) (hne0 : ∀ q ∈ L, q.1 ≠ 0)
    (hpair : Pair (ElemC K ts cass H tsIdx) L es)
    (hdoc : doc = [{ ty := NULL_T, attrs := [(ID, "0")] }] ++ es ++ c.views.map (fun p => renderSofa p.2.sofa) ++
      c.views.map (fun p => renderView H p.2))
    (hlen : hb.length = H.length) :
    ∃ (na : Int → Nat) (p : Pass1), pass1 K ts tsIdx false doc { heap := hb } = .ok p ∧
      NaOk H.length L na ∧ P1W c H L na p ∧
      HeapRelP H L na (Obj1 K ts cass H p.heap) p.heap := by
  obtain ⟨o0, h0ty, h0x, h0s, h0p⟩ := null_elem K ts tsIdx hnull
  have hstep0 := step1_fs K ts tsIdx { ty := NULL_T, attrs := [(ID, "0")] } { heap := hb } o0 0
    (by decide) (by decide) (h0p hb) (by intro h; cases h)
  obtain ⟨tl, A, m1, hrun1, hkeys, hge, hinj, hobjs⟩ := pass1_fsC K ts cass H tsIdx
    (c.views.map (fun p => renderSofa p.2.sofa) ++ (c.views.map (fun p => renderView H p.2) ++ [])) L es
    { heap := hb ++ [o0], fss := [] ++ [((0 : Int), hb.length)], maxId := max 0 0 } hpair hnodup
    (by
      intro q hq
      simp only [List.nil_append, List.map_cons, List.map_nil, List.mem_singleton]
      exact hne0 q hq)
  dsimp only at hrun1 hge hobjs
  obtain ⟨m2, m2', hrun2⟩ := pass1_sofa_list K ts tsIdx (c.views.map (fun p => renderView H p.2) ++ []) c.views
    { heap := (hb ++ [o0]) ++ tl, fss := ([] ++ [((0 : Int), hb.length)]) ++ A, maxId := m1 }
    hnd (by intro nv _ h; cases h)
  have hrun3 := pass1_view_list K ts tsIdx H [] c.views
    { heap := (hb ++ [o0]) ++ tl, fss := ([] ++ [((0 : Int), hb.length)]) ++ A,
      sofas := [] ++ c.views.map (fun nv => (nv.2.sofa.xid, psofaOf nv)), maxId := m2, maxNum := m2' }
    hnd (by intro nv _ h; cases h)
  have hAn : (A.map (·.1)).Nodup := by rw [hkeys]; exact hnodup
  have hA : A = L.map (fun q => (q.1, naOf A q.1)) := naOf_table A L hAn hkeys
  have hmemA : ∀ q ∈ L, (q.1, naOf A q.1) ∈ A := by
    intro q hq
    rw [hA]
    exact List.mem_map.2 ⟨q, hq, by rw [← hA]⟩
  refine ⟨naOf A,
    { heap := (hb ++ [o0]) ++ tl, fss := ([] ++ [((0 : Int), hb.length)]) ++ A,
      sofas := [] ++ c.views.map (fun nv => (nv.2.sofa.xid, psofaOf nv)),
      views := [] ++ c.views.map (fun nv => (nv.2.sofa.xid, pviewOf H nv)), maxId := m2, maxNum := m2' }, ?_, ?_, ?_, ?_⟩
  · rw [hdoc, List.append_assoc, List.append_assoc, List.singleton_append, pass1_cons, hstep0]
    show pass1 K ts tsIdx false _ _ = _
    rw [← List.append_nil (c.views.map (fun p => renderView H p.2))]
    exact hrun1.trans (hrun2.trans (hrun3.trans (pass1_nil K ts tsIdx false _)))
  · refine ⟨?_, ?_⟩
    · intro q hq q' hq' h
      exact hinj (q.1, naOf A q.1) (hmemA q hq) (q'.1, naOf A q'.1) (hmemA q' hq') h
    · intro q hq
      have := hge _ (hmemA q hq)
      rw [List.length_append, List.length_singleton, hlen] at this
      exact this
  · refine ⟨?_, ?_, ?_, rfl, ?_⟩
    · show ([] ++ [((0 : Int), hb.length)]) ++ A = _
      rw [← hA, hlen]
      rfl
    · show [] ++ c.views.map (fun nv => (nv.2.sofa.xid, psofaOf nv)) = _
      rfl
    · show [] ++ c.views.map (fun nv => (nv.2.sofa.xid, pviewOf H nv)) = _
      rfl
    · refine ⟨o0, ?_, h0ty, h0x, h0s⟩
      show ((hb ++ [o0]) ++ tl)[H.length]? = some o0
      rw [← hlen, List.append_assoc, List.getElem?_append_right (Nat.le_refl _), Nat.sub_self]
      rfl
  · intro q hq
    obtain ⟨a, o, o1, hmem, ho, ho1, hobj⟩ := hobjs q hq
    have ha : naOf A q.1 = a := naOf_mem A hAn q.1 a hmem
    refine ⟨o, o1, ho, ?_, hobj⟩
    show ((hb ++ [o0]) ++ tl)[naOf A q.1]? = some o1
    rw [ha]
    exact ho1

/-- the round trip of a CAS written in `H`, the document being read over a base heap as long as `H` padded by `n`
    blank objects (cf. `xmi_roundtrip_coll_aux`, `Faithful.concl_pad`) -/
theorem concl_pad (K : Consts) (ts : TypeSystem) (cass : List Cas) (ci : Nat) (c : Cas) (hp0 H hb : Heap) (n : Nat)
    (L : List (Int × Nat)) (tsIdx ci' : Nat) (doc : XDoc) (es : List XElem)
    (hc : cass[ci]? = some c) (hwf : RTWf c hp0) (hnull : NullOk ts) (hL : LOkC K ts c ci H L)
    (hr : renderAll K ts cass H L = .ok es)
    (hdoc : doc = [{ ty := NULL_T, attrs := [(ID, "0")] }] ++ es ++ c.views.map (fun p => renderSofa p.2.sofa) ++
      c.views.map (fun p => renderView H p.2))
    (hlen : hb.length = H.length + n)
    (hmem : ∀ nv ∈ c.views, ∀ e ∈ Index.all nv.2.idx, slot H e.oid "sofa" ≠ some .none)
    (hmok : MembersOk c H) :
    ∃ (p : Pass1) (ld : Loaded),
      pass1 K ts tsIdx false doc { heap := hb } = .ok p ∧
      loadXmi K ts tsIdx ci' false hb doc = .ok ld ∧
      p.fss.map (·.1) = 0 :: L.map (·.1) ∧
      (∀ q ∈ L, ∃ (a' : Nat) (o o' : Obj), lookupFs p.fss q.1 = .ok a' ∧
          H[q.2]? = some o ∧ ld.heap[a']? = some o' ∧ o'.ty = o.ty ∧
          ∀ t : TypeRec, find? ts o.ty = some t → ∀ f ∈ allFeatures t,
            featContentC K ld.heap a' f = featContentC K H q.2 f) ∧
      ld.cas.views.map (viewContent ld.heap) = c.views.map (viewContent H) := by
  -- the elements of the document, as the first pass over the padded heap sees them
  have helem0 : Elem1Stmt K ts cass H tsIdx (CollFs K ts c ci H) := by
    intro a x hP hx
    rcases hP with hg | ha
    · exact gen_elem1 K ts cass ci c H tsIdx hc a x hg hx
    · exact arr_elem1 K ts cass H tsIdx a x ha hx
  obtain ⟨es', hes, hpair0⟩ := renderAll_pair K ts cass H tsIdx _ helem0 L hL.coll (fun q hq => (hL.ids q hq).1)
  rw [hr] at hes
  cases hes
  have hpair := Pad.pair_pad n hpair0
  have hLp := Pad.lokC_pad n hL
  have hviewsEq : c.views.map (fun p => renderView H p.2) = c.views.map (fun p => renderView (H ++ Pad.pad n) p.2) := by
    apply List.map_congr_left
    intro nv _
    exact (Pad.renderView_pad H n nv.2).symm
  rw [hviewsEq] at hdoc
  generalize hH' : H ++ Pad.pad n = H' at hpair hLp hdoc
  have hlen' : hb.length = H'.length := by rw [← hH', Pad.length_pad]; exact hlen
  have hmem' : ∀ nv ∈ c.views, ∀ e ∈ Index.all nv.2.idx, slot H' e.oid "sofa" ≠ some .none := by
    rw [← hH']; exact Pad.hmem_pad n hmem
  have hmok' : MembersOk c H' := by rw [← hH']; exact Pad.membersOk_pad n hmok
  -- first pass
  obtain ⟨na, p, hp1, hna, hp1w, hrel1⟩ :=
    pass1_coll_base K ts cass c H' hb L tsIdx doc es hwf.sofa_ids_nodup hnull hLp.nodup
      (fun q hq => (hLp.ids q hq).2) hpair hdoc hlen'
  -- second pass
  have hI : PostInlineStmt K ts cass H' na tsIdx ci' p.sofas p.fss (fun _ => True) := by
    intro a o t f h1 h2 h3 h4 h5 h6 _
    rcases inlineFeat_range h6 with h | h
    · exact postInline_arr K ts cass H' na tsIdx ci' p.sofas p.fss a o t f h1 h2 h3 h4 h5 h6 h
    · exact postInline_list K ts cass H' na tsIdx ci' p.sofas p.fss a o t f h1 h2 h3 h4 h5 h6 h
  have hpost : Post2Stmt K ts cass H' L na tsIdx ci' p.sofas p.fss (CollFs K ts c ci H') := by
    intro q hq hP
    rcases hP with hg | ha
    · exact gen_post K ts cass ci c hp0 H' _ na tsIdx ci' p.sofas p.fss hc hwf hLp hp1w.sofas hp1w.fss hI q hq hg
    · exact arr_post K ts cass ci c H' _ na tsIdx ci' p.sofas p.fss hLp hp1w.fss q hq ha
  obtain ⟨hp2, hpa, hnull2, _, hrel2⟩ :=
    postAll_coll K ts cass ci c H' _ na tsIdx ci' p hnull hLp hna hp1w hrel1 hpost
  obtain ⟨hE2, hcolls2⟩ := obj2_to_E2c hLp hrel2
  -- third pass
  obtain ⟨ld, hbuild, hrel3, hviews, _, hfrz3⟩ :=
    buildCas_coll K ts cass ci c hp0 H' _ na (iaOf hp2 na) ci' p hp2 hc hwf hnull (lokW_of_lokC hLp) hna hp1w
      hmem' hmok' hnull2 hE2
  have hcolls3 := collsAt_frz hcolls2 hfrz3
  have hload : loadXmi K ts tsIdx ci' false hb doc = .ok ld := by
    unfold loadXmi
    simp only [hp1, hpa, bind, Except.bind]
    exact hbuild
  have hxid : ∀ q ∈ L, xidOf ld.heap (na q.1) = some q.1 := by
    intro q hq
    obtain ⟨o, o', _, ho', _, hx, _⟩ := hrel3 q hq
    unfold xidOf; rw [ho']; exact hx
  refine ⟨p, ld, hp1, hload, ?_, ?_, ?_⟩
  · rw [hp1w.fss]
    simp only [List.map_cons, List.map_map]
    rfl
  · intro q hq
    obtain ⟨o, o', ho, ho', hty, _, _, hslots⟩ := hrel3 q hq
    have hoH : H[q.2]? = some o := by
      rcases hL.coll q hq with ⟨o2, _, ho2, _⟩ | ⟨o2, _, _, _, ho2, _⟩ <;>
        (rw [← hH'] at ho; have := Pad.get_eq n ho2 ho; subst this; exact ho2)
    have hqm : q.1 ∈ L.map (·.1) := List.mem_map.mpr ⟨q, hq, rfl⟩
    refine ⟨na q.1, o, o', ?_, hoH, ho', hty, ?_⟩
    · rw [hp1w.fss]
      exact lookupFs_fss_na na _ _ q.1 hqm (hL.ids q hq).2
    · intro t ht f hf
      rw [CF.content_eq hLp hxid hcolls3 q hq o o' ho ho' hslots t ht f hf, ← hH']
      exact Pad.featContentC_collFs n (hL.coll q hq) hoH ht hf
  · rw [hviews, ← hH']
    apply List.map_congr_left
    intro nv _
    exact Pad.viewContent_pad H n nv

end FaithfulColl

/-- **faithfulness of the XMI writer, collections included**: the same document, hence the same content -/
theorem saveXmi_faithful_coll_aux (K : Consts) (ts : TypeSystem)
    (cass₁ cass₂ : List Cas) (ci₁ ci₂ : Nat) (c₁ c₂ : Cas) (hp₁ hp₂ : Heap) (doc : XDoc) (st₁ st₂ : St)
    (hnull : NullOk ts)
    (hc₁ : cass₁[ci₁]? = some c₁) (hwf₁ : RTWf c₁ hp₁) (hsave₁ : saveXmi K ts cass₁ ci₁ hp₁ = .ok (doc, st₁))
    (hcoll₁ : ∀ q ∈ st₁.allFs, CollFs K ts c₁ ci₁ st₁.heap q.2)
    (_hdis₁ : ∀ q ∈ st₁.allFs, ∀ nv ∈ c₁.views, q.1 ≠ nv.2.sofa.xid)
    (hmem₁ : ∀ nv ∈ c₁.views, ∀ e ∈ Index.all nv.2.idx, slot st₁.heap e.oid "sofa" ≠ some .none)
    (hmok₁ : MembersOk c₁ st₁.heap)
    (hc₂ : cass₂[ci₂]? = some c₂) (hwf₂ : RTWf c₂ hp₂) (hsave₂ : saveXmi K ts cass₂ ci₂ hp₂ = .ok (doc, st₂))
    (hcoll₂ : ∀ q ∈ st₂.allFs, CollFs K ts c₂ ci₂ st₂.heap q.2)
    (_hdis₂ : ∀ q ∈ st₂.allFs, ∀ nv ∈ c₂.views, q.1 ≠ nv.2.sofa.xid)
    (hmem₂ : ∀ nv ∈ c₂.views, ∀ e ∈ Index.all nv.2.idx, slot st₂.heap e.oid "sofa" ≠ some .none)
    (hmok₂ : MembersOk c₂ st₂.heap) :
    (sortById st₁.allFs).map (·.1) = (sortById st₂.allFs).map (·.1) ∧
    (∀ q₁ ∈ st₁.allFs, ∀ q₂ ∈ st₂.allFs, q₁.1 = q₂.1 →
      ∃ o₁ o₂ : Obj, st₁.heap[q₁.2]? = some o₁ ∧ st₂.heap[q₂.2]? = some o₂ ∧ o₁.ty = o₂.ty ∧
        ∀ t : TypeRec, find? ts o₁.ty = some t → ∀ f ∈ allFeatures t,
          featContentC K st₁.heap q₁.2 f = featContentC K st₂.heap q₂.2 f) ∧
    c₁.views.map (viewContent st₁.heap) = c₂.views.map (viewContent st₂.heap) := by
  have hL₁ := lokC_of_save hc₁ hwf₁ hsave₁ hcoll₁
  have hL₂ := lokC_of_save hc₂ hwf₂ hsave₂ hcoll₂
  obtain ⟨es₁, hr₁, hdoc₁⟩ := saveXmi_doc K ts cass₁ ci₁ c₁ hp₁ doc st₁ hc₁ hsave₁
  obtain ⟨es₂, hr₂, hdoc₂⟩ := saveXmi_doc K ts cass₂ ci₂ c₂ hp₂ doc st₂ hc₂ hsave₂
  -- both documents are read over the same base heap, as long as both padded heaps
  obtain ⟨p, ld, hp1, hload, hf₁, hq₁, hv₁⟩ :=
    FaithfulColl.concl_pad K ts cass₁ ci₁ c₁ hp₁ st₁.heap (st₁.heap ++ st₂.heap) st₂.heap.length (sortById st₁.allFs)
      0 0 doc es₁ hc₁ hwf₁ hnull hL₁ hr₁ hdoc₁ (by rw [List.length_append]) hmem₁ hmok₁
  obtain ⟨p', ld', hp1', hload', hf₂, hq₂, hv₂⟩ :=
    FaithfulColl.concl_pad K ts cass₂ ci₂ c₂ hp₂ st₂.heap (st₁.heap ++ st₂.heap) st₁.heap.length (sortById st₂.allFs)
      0 0 doc es₂ hc₂ hwf₂ hnull hL₂ hr₂ hdoc₂ (by rw [List.length_append, Nat.add_comm]) hmem₂ hmok₂
  rw [hp1] at hp1'
  cases hp1'
  rw [hload] at hload'
  cases hload'
  refine ⟨?_, ?_, ?_⟩
  · rw [hf₁] at hf₂
    exact (List.cons.inj hf₂).2
  · intro q₁ hm₁ q₂ hm₂ hid
    obtain ⟨a₁, o₁, o₁', hl₁, ho₁, ho₁', hty₁, hfc₁⟩ := hq₁ q₁ (mem_sortById.mpr hm₁)
    obtain ⟨a₂, o₂, o₂', hl₂, ho₂, ho₂', hty₂, hfc₂⟩ := hq₂ q₂ (mem_sortById.mpr hm₂)
    rw [hid, hl₂] at hl₁
    cases hl₁
    rw [ho₂'] at ho₁'
    cases ho₁'
    have hty : o₁.ty = o₂.ty := hty₁.symm.trans hty₂
    refine ⟨o₁, o₂, ho₁, ho₂, hty, ?_⟩
    intro t ht f hf
    exact (hfc₁ t ht f hf).symm.trans (hfc₂ t (by rw [← hty]; exact ht) f hf)
  · rw [← hv₁, hv₂]

/-! ### Non-vacuity: the instance `CollDemo` in two heap layouts

`CollDemo.hpB` is the heap `CollDemo.hp` (`Spec/RoundTripCollCheck.lean`; every collection kind, inlined and shared) in
another layout: the inlined ShortArray and LongArray objects have changed places (addresses 3 and 4), the inlined
StringArray `["a b", "", null, "c"]` has become `["a b", null, "", "c"]` (null and `""` coincide inside string
collections — exactly what `featContentC` identifies), and an unreachable object is appended (the heaps differ in
length).  Both heaps satisfy the hypotheses (`collAppliesB`, evaluated by the kernel) and are written to the same
document. -/

namespace CollDemo

def hpB : Heap :=
  [ /- 0 -/ { ty := "x.Doc", ts := 0, xid := some 2, slots :=
      [ ("n", .int 7), ("next", .ref 1),
        ("ia", .ref 2), ("sha", .ref 4), ("la", .ref 3), ("ba", .ref 5), ("boa", .ref 6), ("fa", .ref 7), ("da", .ref 8),
        ("sa", .ref 9), ("se", .ref 10), ("fsa", .ref 11), ("fsl", .ref 13), ("il", .ref 16), ("fl", .ref 18),
        ("sl", .ref 21),
        ("mfa", .ref 23), ("mia", .ref 24), ("msa", .ref 25), ("mfl", .ref 27), ("mil", .ref 29), ("msl", .ref 31) ]
      ++ tailSlots 0 2 },
    /- 1 -/ { ty := "x.Doc", ts := 0, xid := none, slots := [("n", .none), ("next", .ref 0)] ++ noColl ++ tailSlots 2 3 },
    /- 2 -/ arr "uima.cas.IntegerArray" (.ints [1, -2, 30]),
    /- 3 -/ arr "uima.cas.LongArray" (.refs []),
    /- 4 -/ arr "uima.cas.ShortArray" (.ints []),
    /- 5 -/ arr "uima.cas.ByteArray" (.ints [0, 255, 16]),
    /- 6 -/ arr "uima.cas.BooleanArray" (.bools [true, false]),
    /- 7 -/ arr "uima.cas.FloatArray" (.floats ["1.5", "-2.0"]),
    /- 8 -/ arr "uima.cas.DoubleArray" (.floats ["1e-05"]),
    /- 9 -/ arr "uima.cas.StringArray" (.strs [some "a b", none, some "", some "c"]),
    /- 10 -/ arr "uima.cas.StringArray" (.strs []),
    /- 11 -/ arr "uima.cas.FSArray" (.refs [some 1, some 0, some 1]),
    /- 12 -/ enode "uima.cas.EmptyFSList",
    /- 13 -/ node "uima.cas.NonEmptyFSList" (.ref 1) (.ref 14),
    /- 14 -/ node "uima.cas.NonEmptyFSList" (.ref 0) (.ref 12),
    /- 15 -/ enode "uima.cas.EmptyIntegerList",
    /- 16 -/ node "uima.cas.NonEmptyIntegerList" (.int 5) (.ref 17),
    /- 17 -/ node "uima.cas.NonEmptyIntegerList" (.int (-6)) (.ref 15),
    /- 18 -/ node "uima.cas.NonEmptyFloatList" (.float "0.25") (.ref 19),
    /- 19 -/ enode "uima.cas.EmptyFloatList",
    /- 20 -/ enode "uima.cas.EmptyStringList",
    /- 21 -/ node "uima.cas.NonEmptyStringList" (.str "x y") (.ref 22),
    /- 22 -/ node "uima.cas.NonEmptyStringList" (.str "") (.ref 20),
    /- 23 -/ arr "uima.cas.FSArray" (.refs [some 0, some 1]),
    /- 24 -/ arr "uima.cas.IntegerArray" (.ints [4, 5]),
    /- 25 -/ arr "uima.cas.StringArray" (.strs [some "p", none]),
    /- 26 -/ enode "uima.cas.EmptyFSList",
    /- 27 -/ node "uima.cas.NonEmptyFSList" (.ref 1) (.ref 26),
    /- 28 -/ enode "uima.cas.EmptyIntegerList",
    /- 29 -/ node "uima.cas.NonEmptyIntegerList" (.int 9) (.ref 28),
    /- 30 -/ enode "uima.cas.EmptyStringList",
    /- 31 -/ node "uima.cas.NonEmptyStringList" (.str "q") (.ref 30),
    /- 32 -/ enode "uima.cas.EmptyStringList" ]

theorem hpB_ne : hp ≠ hpB := by decide +kernel

theorem hpB_length : hpB.length = hp.length + 1 := by decide +kernel

theorem hpB_applies : collAppliesB K ts [cas] 0 hpB = true := by decide +kernel

theorem hpB_same_doc :
    (saveXmi K ts [cas] 0 hp).toOption.map (·.1) = (saveXmi K ts [cas] 0 hpB).toOption.map (·.1) := by
  decide +kernel

/-- both layouts satisfy the hypotheses of `saveXmi_faithful_coll` and are written to the same document -/
theorem two_layouts :
    ∃ (doc : XDoc) (st₁ st₂ : Traverse.St),
      saveXmi K ts [cas] 0 hp = .ok (doc, st₁) ∧ saveXmi K ts [cas] 0 hpB = .ok (doc, st₂) ∧
      NullOk ts ∧
      RTWf cas hp ∧ (∀ q ∈ st₁.allFs, CollFs K ts cas 0 st₁.heap q.2) ∧
      (∀ q ∈ st₁.allFs, ∀ nv ∈ cas.views, q.1 ≠ nv.2.sofa.xid) ∧
      (∀ nv ∈ cas.views, ∀ e ∈ Index.all nv.2.idx, slot st₁.heap e.oid "sofa" ≠ some .none) ∧
      MembersOk cas st₁.heap ∧
      RTWf cas hpB ∧ (∀ q ∈ st₂.allFs, CollFs K ts cas 0 st₂.heap q.2) ∧
      (∀ q ∈ st₂.allFs, ∀ nv ∈ cas.views, q.1 ≠ nv.2.sofa.xid) ∧
      (∀ nv ∈ cas.views, ∀ e ∈ Index.all nv.2.idx, slot st₂.heap e.oid "sofa" ≠ some .none) ∧
      MembersOk cas st₂.heap := by
  obtain ⟨c₁, doc₁, st₁, hc₁, hs₁, hwf₁, hn, hf₁, hd₁, hm₁, hmo₁⟩ := collDemo_hyps
  obtain ⟨c₂, doc₂, st₂, hc₂, hs₂, hwf₂, _, hf₂, hd₂, hm₂, hmo₂⟩ := collAppliesB_hyps _ _ _ _ _ hpB_applies
  cases hc₁
  cases hc₂
  have hd := hpB_same_doc
  rw [hs₁, hs₂] at hd
  have : doc₁ = doc₂ := by simpa [Except.toOption] using hd
  subst this
  exact ⟨doc₁, st₁, st₂, hs₁, hs₂, hn, hwf₁, hf₁, hd₁, hm₁, hmo₁, hwf₂, hf₂, hd₂, hm₂, hmo₂⟩

end CollDemo

end Cassis.Xmi
