/-
C16 with an embedded type system, the LOCAL condition `FlagCoherentChain`: the core of `json_full_ts_multi_chain`.

`MultiResAgree o m` follows from `FlagCoherentChain o` and a provenance invariant that knows the ANCESTOR relation:
* `InhAnc`: every inherited record of a type is an own record of a strict ancestor (in `o` and in `m`),
* `OwnLike o m`: every own record of a type of `m` agrees in name, `multipleReferencesAllowed` and reserved flag with
  an own record of the type of `o` of the same name,
* `SameTs o m`, `Consistent`, `FeatInv o`.
-/
import CassisModel.Proofs.ChainEmb3
import CassisModel.Proofs.MergeSelf

namespace Cassis.ChainE
open Cassis.TS

/-- every inherited record is an own record of a strict ancestor -/
def InhAnc (ts : TypeSystem) : Prop :=
  ∀ t ∈ ts.types, ∀ r ∈ t.inh, ∃ a ta, a ≠ t.name ∧ Anc ts a t.name ∧ find? ts a = some ta ∧ r ∈ ta.own

/-- own records of `m` are like own records of the type of `o` of the same name -/
def OwnLike (o m : TypeSystem) : Prop :=
  ∀ t' ∈ m.types, ∀ r ∈ t'.own, ∃ t, find? o t'.name = some t ∧
    ∃ g ∈ t.own, r.name = g.name ∧ r.multi = g.multi ∧ r.reserved = g.reserved

/-- agreement of two records on what the XMI codec consults -/
def Eqv (f g : Feature) : Prop :=
  f.reserved = g.reserved ∧ f.range = g.range ∧
    ((isArray Gen.consts g.range = true ∨ isList Gen.consts g.range = true) → f.multi.getD false = g.multi.getD false)

theorem Eqv.rfl' (f : Feature) : Eqv f f := ⟨rfl, rfl, fun _ => rfl⟩
theorem Eqv.symm {f g : Feature} (h : Eqv f g) : Eqv g f :=
  ⟨h.1.symm, h.2.1.symm, fun hc => (h.2.2 (by rw [← h.2.1]; exact hc)).symm⟩
theorem Eqv.trans {f g k : Feature} (h1 : Eqv f g) (h2 : Eqv g k) : Eqv f k :=
  ⟨h1.1.trans h2.1, h1.2.1.trans h2.2.1,
    fun hc => (h1.2.2 (by rw [h2.2.1]; exact hc)).trans (h2.2.2 hc)⟩

theorem anc_super {ts : TypeSystem} {a b s : String} {tb : TypeRec} (h : Anc ts a b) (hne : a ≠ b)
    (hfb : find? ts b = some tb) (hs : tb.super = some s) : Anc ts a s := by
  cases h with
  | refl _ => exact absurd rfl hne
  | step =>
    rename_i s' tb' hs' hab hfb'
    rw [hfb] at hfb'; cases hfb'
    rw [hs] at hs'; cases hs'
    exact hab

/-- own and inherited record of the same name on one type -/
theorem eqv_own_inh {o : TypeSystem} (hfo : FeatInv o) (hfc : FlagCoherentChain Gen.consts o) {t : TypeRec}
    (ht : t ∈ o.types) {g h : Feature} (hg : g ∈ t.own) (hh : h ∈ t.inh) (e : h.name = g.name) : Eqv h g := by
  obtain ⟨c1, c2⟩ := hfc t ht g hg h hh e
  have := (featureEq_iff g h).mp (hfo.compat t ht g hg h hh e.symm)
  exact ⟨c1, this.2.2.1.symm, c2⟩

/-- **in a `FlagCoherentChain` type system, an effective feature agrees with every own record of the same name of
    every ancestor** -/
theorem eqv_anc {o : TypeSystem} (hco : Consistent o) (hfo : FeatInv o) (hao : InhAnc o)
    (hfc : FlagCoherentChain Gen.consts o) : ∀ (i : Nat) (hi : i < o.types.length),
    ∀ f ∈ allFeatures o.types[i], ∀ a ta, Anc o a o.types[i].name → find? o a = some ta →
      ∀ g ∈ ta.own, g.name = f.name → Eqv f g := by
  intro i
  induction i using Nat.strongRecOn with
  | _ i ih =>
    intro hi f hf a ta hab hta g hg hn
    have htm : o.types[i] ∈ o.types := List.getElem_mem hi
    have hfb : find? o o.types[i].name = some o.types[i] := find?_of_mem hco.nodup htm
    have hfm := List.mem_append.mp (allFeatures_sub hf)
    by_cases hne : a = o.types[i].name
    · -- `g` is an own record of the type itself
      rw [hne, hfb] at hta; cases hta
      rcases hfm with h0 | h0
      · rw [feat_inj_of_nodup _ (hfo.ownNodup _ htm) f h0 g hg hn.symm]; exact Eqv.rfl' g
      · exact eqv_own_inh hfo hfc htm hg h0 hn.symm
    · -- `g` is an own record of a strict ancestor
      cases hsup : o.types[i].super with
      | none =>
        cases hab with
        | refl _ => exact absurd rfl hne
        | step => rename_i s' tb' hs' _ hfb'; rw [hfb] at hfb'; cases hfb'; rw [hsup] at hs'; cases hs'
      | some s =>
        have has : Anc o a s := anc_super hab hne hfb hsup
        obtain ⟨j, hji, hj, hjn⟩ := hco.topo i hi s hsup
        have hps : find? o s = some o.types[j] := by
          rw [← hjn]; exact find?_of_mem hco.nodup (List.getElem_mem hj)
        -- the effective feature of that name of the supertype
        have hne' : f.name ∈ fnames (allFeatures o.types[j]) := by
          apply inherited_down_aux o hfo a s ta _ has hta hps
          rw [mem_fnames_allFeatures]
          exact Or.inl (mem_fnames.mpr ⟨g, hg, hn⟩)
        obtain ⟨e, he, hen⟩ := mem_fnames.mp hne'
        have heg : Eqv e g := ih j hji hj e he a ta (by rw [hjn]; exact has) hta g hg (hn.trans hen.symm)
        -- the inherited record of that name
        have hni : f.name ∈ fnames o.types[i].inh := by
          rw [hfo.inherit _ htm s _ hsup hps]; exact hne'
        obtain ⟨h, hh, hhn⟩ := mem_fnames.mp hni
        obtain ⟨c, tc, hcne, hcb, hfc', hhc⟩ := hao _ htm h hh
        have hcs : Anc o c s := anc_super hcb hcne hfb hsup
        have heh : Eqv e h := ih j hji hj e he c tc (by rw [hjn]; exact hcs) hfc' h hhc (hhn.trans hen.symm)
        have hhg : Eqv h g := heh.symm.trans heg
        rcases hfm with h0 | h0
        · exact (eqv_own_inh hfo hfc htm h0 hh hhn).symm.trans hhg
        · rw [feat_inj_of_nodup _ (hfo.inhNodup _ htm) f h0 h hh hhn.symm]; exact hhg

/-- the ancestor relation of `m` is that of `o` -/
theorem anc_of_sameTs {o m : TypeSystem} (hs : SameTs o m) {a b : String} (h : Anc m a b) : Anc o a b := by
  induction h with
  | refl ha =>
    obtain ⟨t', ht'⟩ := (hasExact_iff_find m a).mp ha
    have := hs a
    rw [ht'] at this
    cases ho : find? o a with
    | none => rw [ho] at this; exact this.elim
    | some t => exact Anc.refl a ((hasExact_iff_find o a).mpr ⟨t, ho⟩)
  | step b s tb hfb hsup _ ih =>
    have := hs b
    rw [hfb] at this
    cases ho : find? o b with
    | none => rw [ho] at this; exact this.elim
    | some t =>
      rw [ho] at this
      exact Anc.step _ b s t ho (by rw [← this.2.1]; exact hsup) ih

/-- **`MultiResAgree` from the local condition and the provenance along the ancestor chains** -/
theorem multiRes_of_chain {o m : TypeSystem} (hco : Consistent o) (hfo : FeatInv o) (hao : InhAnc o)
    (hcm : Consistent m) (ham : InhAnc m) (hlike : OwnLike o m) (hs : SameTs o m)
    (hfc : FlagCoherentChain Gen.consts o) : MultiResAgree Gen.consts o m := by
  intro t ht t' ht' hnn f hf f' hf' hn
  -- `f'` is an own record of an ancestor-or-self `a` of `t'` in `m`
  obtain ⟨a, ta', hab, hta', hfa⟩ : ∃ a ta', Anc m a t'.name ∧ find? m a = some ta' ∧ f' ∈ ta'.own := by
    rcases List.mem_append.mp (allFeatures_sub hf') with h0 | h0
    · exact ⟨t'.name, t', Anc.refl _ ((hasExact_iff_find m _).mpr ⟨t', find?_of_mem hcm.nodup ht'⟩),
        find?_of_mem hcm.nodup ht', h0⟩
    · obtain ⟨a, ta, _, h1, h2, h3⟩ := ham t' ht' f' h0
      exact ⟨a, ta, h1, h2, h3⟩
  obtain ⟨ta, hta, g, hg, k1, k2, k3⟩ := hlike ta' (find?_mem hta') f' hfa
  rw [find?_name hta'] at hta
  have habo : Anc o a t.name := by rw [← hnn]; exact anc_of_sameTs hs hab
  obtain ⟨i, hi, rfl⟩ := List.getElem_of_mem ht
  obtain ⟨c1, c2, c3⟩ := eqv_anc hco hfo hao hfc i hi f hf a ta habo hta g hg (by rw [← k1, hn])
  exact ⟨by rw [k3, c1], fun hc => by rw [k2, c3 (by rw [← c2]; exact hc)]⟩

end Cassis.ChainE
