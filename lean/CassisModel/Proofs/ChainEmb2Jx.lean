/-
C16 with an embedded type system that is only a part of the original (mode MINIMAL), part 3 (assembly): the composition
step `chain_json_xmi_emb_core` (`Proofs/ChainEmbJx.lean`) with `SameTs` replaced by agreement on a closed list of type
names that contains the types of the collected structures (`PartOn`, `TyIn`) plus `TypeAgree` on the `%TYPE`s of the
document (what the JSON reader consults).  The proof is the proof of `chain_json_xmi_emb_core` with `traversal_le_on`
in place of `traversal_le`.
-/
import CassisModel.Proofs.ChainEmbJx
import CassisModel.Proofs.ChainEmb2Frag

namespace Cassis
open Cassis.TS Cassis.Traverse Cassis.Xmi Cassis.Chain Cassis.ChainC Cassis.ChainE

/-- JSON (any mode) → CAS loaded without the original type system → XMI written and read under the rebuilt type
    system → CAS, for a rebuilt type system that agrees with the original on a closed list `N` of type names containing
    the types of the collected structures (`PartOn`), answers the reader alike on the `%TYPE`s of the document
    (`TypeAgree`) and agrees on `multipleReferencesAllowed` and the reserved flag -/
theorem chain_json_xmi_part_core (K : Consts) (N : List String) (ts ts' tsArg : TypeSystem) (mode : Json.Mode)
    (cass : List Cas) (ci : Nat)
    (c : Cas) (hp : Heap) (tsIdx : Nat) (docj : Json.JDoc) (st stx : St)
    (hc : cass[ci]? = some c) (hwf : RTWf c hp) (hnull : NullOk ts)
    (hsave : Json.saveJson K ts cass ci hp mode = .ok (docj, st))
    (hlts : Json.loadTs K tsArg true docj = .ok ts')
    (hag : ∀ j ∈ docj.fss, Json.TypeAgree ts ts' (Json.fsTypeName j))
    (hpart : PartOn N ts ts') (hN : ∀ q ∈ st.allFs, TyIn N st.heap q.2) (hnull' : NullOk ts')
    (hcons : Consistent ts) (hcons' : Consistent ts') (hmr : MultiResAgree K ts ts')
    (hcoll : ∀ q ∈ st.allFs, CollFs K ts c ci st.heap q.2)
    (hjson : ∀ q ∈ st.allFs, Json.JsonFs ts st.heap q.2)
    (harr : ∀ q ∈ st.allFs, Json.ArrElemsSome st.heap q.2)
    (hids : ∀ nv ∈ c.views, ∀ e ∈ Index.all nv.2.idx, (xidOf hp e.oid).isSome = true)
    (hdis : ∀ q ∈ st.allFs, ∀ nv ∈ c.views, q.1 ≠ nv.2.sofa.xid)
    (hmem : ∀ nv ∈ c.views, ∀ e ∈ Index.all nv.2.idx, Xmi.slot st.heap e.oid "sofa" ≠ some .none)
    (hmok : MembersOk c st.heap)
    (hx : findAllFs K ts {} st.heap c.nextXid (defaultSeeds c) = .ok stx) :
    ∃ (ld1 : Json.Loaded) (docx : XDoc) (st2 : St) (p2 : Pass1) (ld2 : Xmi.Loaded),
      Json.loadJson K tsArg tsIdx cass.length false true st.heap docj = .ok ld1 ∧ ld1.ts = ts' ∧
      saveXmi K ts' (cass ++ [ld1.cas]) cass.length ld1.heap = .ok (docx, st2) ∧
      pass1 K ts' tsIdx false docx { heap := st2.heap } = .ok p2 ∧
      loadXmi K ts' tsIdx (cass.length + 1) false st2.heap docx = .ok ld2 ∧
      ld2.cas.views.map (viewContent ld2.heap) = c.views.map (viewContent st.heap) ∧
      (∀ q ∈ stx.allFs, ∃ (a2 : Nat) (o o2 : Obj), lookupFs p2.fss q.1 = .ok a2 ∧
          st.heap[q.2]? = some o ∧ ld2.heap[a2]? = some o2 ∧ o2.ty = o.ty ∧ o2.xid = some q.1 ∧
          ∀ t : TypeRec, find? ts o.ty = some t → ∀ f ∈ allFeatures t,
            featContentC K ld2.heap a2 f = featContentC K st.heap q.2 f) := by
  -- the NONE document: same structures, views, ids
  obtain ⟨doc0, hsave0, hf0, hv0⟩ := Json.saveJson_to_none_aux K ts cass ci hp mode docj st hsave
  -- the first half of `chain_json_xmi_coll_aux`, under the original type system
  have harr0 : ∀ nv ∈ c.views, nv.2.sofa.arr = .none := fun nv hnv => (hwf.text_sofa nv hnv).1
  obtain ⟨hfa, fsElems, hr, hdfss, hdviews, _⟩ := Json.saveJson_parts hc harr0 hsave0
  have hjcoll : ∀ q ∈ st.allFs, Json.JCollFs K ts c ci st.heap q.2 := fun q hq =>
    Json.jcollFs_of_collFs_aux K ts c ci st.heap q.2 (hcoll q hq) (hjson q hq) (harr q hq)
  have hLJ : Json.LOkJ K ts c ci st.heap (sortById st.allFs) := Json.trav_collJ K ts ci c hp st hwf hfa hjcoll
  have hdisL : ∀ q ∈ sortById st.allFs, ∀ nv ∈ c.views, q.1 ≠ nv.2.sofa.xid :=
    fun q hq => hdis q (mem_sortById.mp hq)
  have g : Json.GCtxJ K ts cass c ci hp st.heap (sortById st.allFs) := ⟨hc, hwf, hLJ, hdisL⟩
  have hfs : fsElems = (sortById st.allFs).map (Json.elemOfJ K ts cass st.heap) :=
    Json.renderAll_eq_mapJ K ts cass st.heap _ _ fsElems hr
      (fun q hq e he => Json.writer_collJ K ts cass c ci hp st.heap _ g q hq e he)
  subst hfs
  have hviewsJ : doc0.views = c.views.map (Json.jviewH st.heap) := by
    rw [hdviews]
    apply List.map_congr_left
    intro nv hnv
    unfold Json.jviewOf Json.jviewH pviewOf
    congr 2
    apply Json.filterMap_congr'
    intro e he
    obtain ⟨y, hy⟩ := Option.isSome_iff_exists.mp (hids nv hnv e he)
    show xidOf hp e.oid = xidOf st.heap e.oid
    rw [hy, Json.jst_ids_kept hwf hfa e.oid y hy]
  obtain ⟨ld0, hload0, hrel, hvc1, hvrelJ, m, hnx, hm0, hmq, hms⟩ :=
    json_core_coll_weak K ts cass ci c hp st.heap (sortById st.allFs) tsIdx cass.length doc0 hc hwf hLJ hdisL hmem hmok
      hdfss hviewsJ
  have x : JLd K ts c ci st.heap (sortById st.allFs) cass.length ld0 :=
    ⟨hLJ, fun q hq => hcoll q (mem_sortById.mp hq), hrel, hvrelJ⟩
  have hnx2 : 0 < ld0.cas.nextXid := by omega
  obtain ⟨st20, hfa20, hheap20, hall20, hL20⟩ := x.traversal hnx2
  have hcomp := x.complete hwf.next_pos hx hnx2 hfa20 hheap20 hL20
  -- the CAS loaded without the original type system
  obtain ⟨ld1, hload1, hlt1, hcas1, hsim⟩ :=
    Json.emb_load_of_none_load K ts ts' tsArg tsIdx cass.length false st.heap docj doc0 ld0 hlts hag hf0 hv0 hload0
  have hload1' : Json.loadJson K ts' tsIdx cass.length false false st.heap docj = .ok ld1 := by
    rw [← Json.loadJson_merge_eq K tsArg ts' tsIdx cass.length false st.heap docj hlts]
    exact hload1
  have hle : TsLeOn K N ts ts' := tsLeOn_of_part K hpart hcons hcons' hmr
  have hle' : TsLeOn K N ts' ts := tsLeOn_of_part' K hpart hcons hcons' hmr
  have hN20 : ∀ r ∈ st20.allFs, TyIn N ld0.heap r.2 := by
    intro r hr o' ho'
    obtain ⟨q, hq, rfl⟩ := hall20 r hr
    obtain ⟨o, o2, ho, ho2, hty, _⟩ := x.obj hq
    rw [ho2] at ho'; cases ho'
    rw [hty]
    exact hN q (mem_sortById.mp hq) o ho
  have hslots : ∀ r ∈ st20.allFs, SlotsOk ts' ld1.heap r.2 := by
    intro r hr
    obtain ⟨q, _, rfl⟩ := hall20 r hr
    exact loadJson_slotsOk hcons'.nodup hload1' (Nat.le_add_right _ _)
  -- its traversal under the rebuilt type system
  obtain ⟨st2, hfa2, hheap2, hsort, hL2⟩ :=
    traversal_le_on hle hle' hsim hnx2 hfa20 hheap20 hL20 hslots hN20
  have hc' : (cass ++ [ld1.cas])[cass.length]? = some ld1.cas := List.getElem?_concat_length
  have hL2' : LOkC K ts' ld1.cas cass.length ld1.heap (sortById st2.allFs) := by
    rw [hsort, hcas1]; exact hL2
  -- … and the document
  have helem : Elem1Stmt K ts' (cass ++ [ld1.cas]) ld1.heap tsIdx (CollFs K ts' ld1.cas cass.length ld1.heap) := by
    intro a y hP hy
    rcases hP with hg | ha
    · exact gen_elem1 K ts' _ cass.length ld1.cas ld1.heap tsIdx hc' a y hg hy
    · exact arr_elem1 K ts' _ ld1.heap tsIdx a y ha hy
  obtain ⟨es, hes, _⟩ := Cassis.Xmi.CAS.renderAll_pair K ts' (cass ++ [ld1.cas]) ld1.heap tsIdx _ helem
    (sortById st2.allFs) hL2'.coll (fun q hq => (hL2'.ids q hq).1)
  have hfa2' : findAllFs K ts' {} ld1.heap ld1.cas.nextXid (defaultSeeds ld1.cas) = .ok st2 := by
    rw [hcas1]; exact hfa2
  have hsave2 : saveXmi K ts' (cass ++ [ld1.cas]) cass.length ld1.heap =
      .ok ([{ ty := NULL_T, attrs := [(ID, "0")] }] ++ es ++
        ld1.cas.views.map (fun p => renderSofa p.2.sofa) ++ ld1.cas.views.map (fun p => renderView st2.heap p.2), st2) := by
    unfold saveXmi
    rw [hc']
    simp only [bind, Except.bind, pure, Except.pure, hfa2', hheap2, hes]
  -- the views of the loaded CAS are well-formed
  have hvrl : VRL st.heap (Json.naOf st.heap (sortById st.allFs)) c.views ld0.cas.views := VRL.of_json hvrelJ
  obtain ⟨w1, w2, w3, w4, w5, w6⟩ := views_wf hwf hvrl
  have hwf0 : RTWf ld0.cas [] :=
    { init_first := w1, names := w2, names_nodup := w3, sofa_ids_nodup := w4,
      text_sofa := by
        intro nv' hnv'
        obtain ⟨nv, hnv, hr⟩ := Json.viewsRelJ_bwd _ _ _ _ hvrelJ nv' hnv'
        rw [hr.2.1]; exact hwf.text_sofa nv hnv
      conv := by
        intro nv' hnv' t ht
        obtain ⟨nv, hnv, hr⟩ := Json.viewsRelJ_bwd _ _ _ _ hvrelJ nv' hnv'
        rw [hr.2.1] at ht ⊢; exact hwf.conv nv hnv t ht
      conv_none := by
        intro nv' hnv' ht
        obtain ⟨nv, hnv, hr⟩ := Json.viewsRelJ_bwd _ _ _ _ hvrelJ nv' hnv'
        rw [hr.2.1] at ht ⊢; exact hwf.conv_none nv hnv ht
      scalar := w5
      next_pos := hnx2
      ids_below := by intro a ob _ ha; cases ha
      sofa_ids := by
        intro nv' hnv'
        refine ⟨w6 nv' hnv', ?_⟩
        obtain ⟨nv, hnv, hr⟩ := VRL.bwd hvrl nv' hnv'
        rw [hr.2.2.1]
        have := hms nv hnv
        omega
      ids_pos := by intro a ob _ ha; cases ha }
  have hwf1 : RTWf ld1.cas [] := by rw [hcas1]; exact hwf0
  have hmem1 : ∀ nv ∈ ld1.cas.views, ∀ e ∈ Index.all nv.2.idx, Xmi.slot st2.heap e.oid "sofa" ≠ some .none := by
    rw [hheap2, hcas1, slot_sim hsim]
    exact x.mem_sofa hmem
  have hmok1 : MembersOk ld1.cas st2.heap := by
    rw [hheap2, hcas1]
    exact membersOk_sim hsim (x.membersOk hmok)
  obtain ⟨p2, ld2, hp2, hload2, hfs2, hvc2⟩ :=
    xmi_roundtrip_coll_weak K ts' (cass ++ [ld1.cas]) cass.length ld1.cas [] ld1.heap tsIdx (cass.length + 1) _ st2
      hc' hwf1 hnull' hsave2 (by rw [hheap2]; exact hL2') hmem1 hmok1
  refine ⟨ld1, _, st2, p2, ld2, hload1, hlt1, hsave2, hp2, hload2, ?_, ?_⟩
  · rw [hvc2, hheap2, hcas1, ← hvc1]
    apply List.map_congr_left
    intro nv _
    exact Json.viewContent_sim hsim nv
  · intro q hq0
    obtain ⟨hq, hq2⟩ := hcomp q hq0
    rw [← hsort] at hq2
    obtain ⟨o, o', ho, ho', hty, _, _, _⟩ := x.obj hq
    obtain ⟨a2, o1, o2, hlk, ho1, ho2, hty2, hx2, hfc2⟩ := hfs2 _ hq2
    -- the object under `ts'` is the object under `ts` up to slot order
    have ho1' : ld1.heap[Json.naOf st.heap (sortById st.allFs) q.1]? = some o1 := by rw [← hheap2]; exact ho1
    have hty1 : o1.ty = o'.ty := by
      rcases hsim.get (Json.naOf st.heap (sortById st.allFs) q.1) with ⟨g1, _⟩ | ⟨y, y', g1, g2, gy⟩
      · rw [g1] at ho'; cases ho'
      · rw [g1] at ho'; cases ho'
        rw [g2] at ho1'; cases ho1'
        exact gy.1
    refine ⟨a2, o, o2, hlk, ho, ho2, hty2.trans (hty1.trans hty), hx2, ?_⟩
    intro t ht f hf
    obtain ⟨t', ht', _, _, _, hfwd, _⟩ := hle.find _ t (hN q (mem_sortById.mp hq) o ho) ht
    obtain ⟨f', hf', hl⟩ := hfwd f hf
    rw [← featContentC_like K ld2.heap a2 hl, hfc2 t' (by rw [hty1, hty]; exact ht') f' hf', hheap2,
      featContentC_like K ld1.heap _ hl, Json.featContentC_sim K hsim]
    exact Json.content_collJ K ts c ci st.heap (sortById st.allFs) cass.length ld0.heap hLJ hrel q hq o t ho ht f hf

end Cassis
