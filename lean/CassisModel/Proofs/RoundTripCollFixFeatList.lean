/-
Fixpoint of the XMI round trip with collections, per feature (3): inlined lists (integer and float lists, string
lists, FSLists), and the case distinction over all kinds of features (`fix_feat`).
-/
import CassisModel.Proofs.RoundTripCollFixFeatArr

namespace Cassis.Xmi.CFX
open Cassis.TS Cassis.Traverse Cassis.Lex Cassis.Xmi

section
variable {K : Consts} {ts : TypeSystem} {cass cass' : List Cas} {c c' : Cas} {ci ci' : Nat} {hp H hpL : Heap}
  {L : List (Int × Nat)} {na : Int → Nat} {ia : Int → String → Nat} {q : Int × Nat} {o o' : Obj} {t : TypeRec}
  {isAnn : Bool}

/-! ### integer and float lists -/

theorem fix_primlist (h : Loc K ts c ci H L na ia ci' hpL q o o' t)
    (r : RCtx cass cass' c c' ci ci' hp H na isAnn o) (hnd : (ctorFields t).Nodup) {f : Feature}
    (hf : f ∈ allFeatures t) (hname : NameOk f) (hm : f.multi.getD false = false) {v : Val}
    (hv : alistGet? o.slots f.name = some v) (h1 : f.range ≠ FS_ARRAY) (h2 : f.range ≠ FS_LIST)
    (rk : RangeKind K ts f.range false true false true false false) {P : List Val → Prop}
    (hvv : InlList H P v)
    (hprim : ∀ hs, P hs → ∀ x ∈ hs, (∃ i : Int, x = .int i) ∨ (∃ t : String, x = .float t))
    (mk : ∀ w, alistGet? o'.slots f.name = some w → InlList hpL P w → InlineFeat K ts hpL o' f) :
    FeatFix K ts cass cass' c' ci' H hpL L na q.2 (na q.1) isAnn o o' f := by
  have hi : isInline K f = true := CT.isInline_inl hm (CT.or_true_right rk.list)
  rcases hvv with rfl | ⟨cc, hs, rfl, hcl, hP⟩
  · exact fix_inl_none h hname hi hv (fun hv' => mk _ hv' (.inl rfl))
  · obtain ⟨c1, hv', _, hcl'⟩ := h.listAt hnd hf hi rk.arr hv hcl
    rw [headExp_prim H na hs (hprim hs hP)] at hcl'
    have htoks : hs.mapM showPrim = .ok (hs.map CG1.primTok) :=
      CG1.mapM_ok _ _ hs (by
        intro x hx
        rcases hprim hs hP x hx with ⟨i, rfl⟩ | ⟨t', rfl⟩ <;> rfl)
    refine ⟨.inr ⟨hname, .inr (mk _ hv' (.inr ⟨c1, hs, rfl, hcl', hP⟩))⟩, ?_, ?_, ?_⟩
    · rw [CG1.render_primlist K ts cass' hpL _ isAnn f o' c1 hs _ h.ho' hname hm hv' rk.strArr rk.strList rk.primArr
          rk.primList hcl' htoks (r.annSofa' h),
        CG1.render_primlist K ts cass H _ isAnn f o cc hs _ h.ho hname hm hv rk.strArr rk.strList rk.primArr
          rk.primList hcl htoks r.annSofa]
    · intro b' hb'
      exact absurd hb' (ft_inl_other hi h1 h2 b')
    · intro b x hb _
      exact absurd hb (ft_inl_other hi h1 h2 b)

/-! ### string lists -/

theorem fix_strlist (h : Loc K ts c ci H L na ia ci' hpL q o o' t)
    (r : RCtx cass cass' c c' ci ci' hp H na isAnn o) (hnd : (ctorFields t).Nodup) {f : Feature}
    (hf : f ∈ allFeatures t) (hname : NameOk f) (hm : f.multi.getD false = false) {v : Val}
    (hv : alistGet? o.slots f.name = some v) (hr : f.range = STRING_LIST)
    (rk : RangeKind K ts f.range false true false true false true)
    (hvv : InlList H (fun hs => hs ≠ [] ∧ ∀ h ∈ hs, h = .none ∨ ∃ s : String, h = .str s) v) :
    FeatFix K ts cass cass' c' ci' H hpL L na q.2 (na q.1) isAnn o o' f := by
  have hi : isInline K f = true := CT.isInline_inl hm (CT.or_true_right rk.list)
  have h1 : f.range ≠ FS_ARRAY := by rw [hr]; decide
  have h2 : f.range ≠ FS_LIST := by rw [hr]; decide
  rcases hvv with rfl | ⟨cc, hs, rfl, hcl, hne, hP⟩
  · exact fix_inl_none h hname hi hv (fun hv' => ⟨hm, .none, hv', .inr (.inr (.inr (.inr (.inr (.inl
      ⟨hr, rk, .inl rfl⟩)))))⟩)
  · obtain ⟨c1, hv', _, hcl'⟩ := h.listAt hnd hf hi rk.arr hv hcl
    rw [headExp_str H na hs hP] at hcl'
    have hP' : ∀ x ∈ hs.map strHead, x = .none ∨ ∃ s : String, x = .str s := by
      intro x hx
      obtain ⟨y, hy, rfl⟩ := List.mem_map.mp hx
      exact strHead_ok y (hP y hy)
    have hne' : hs.map strHead ≠ [] := fun e => hne (List.map_eq_nil_iff.mp e)
    refine ⟨.inr ⟨hname, .inr ⟨hm, .ref c1, hv', .inr (.inr (.inr (.inr (.inr (.inl
      ⟨hr, rk, .inr ⟨c1, _, rfl, hcl', hne', hP'⟩⟩)))))⟩⟩, ?_, ?_, ?_⟩
    · rw [CG1.render_strlist K ts cass' hpL _ isAnn f o' c1 _ h.ho' hname hm hv' rk.strArr rk.strList hcl' hP'
          (r.annSofa' h),
        CG1.render_strlist K ts cass H _ isAnn f o cc hs h.ho hname hm hv rk.strArr rk.strList hcl hP r.annSofa]
      rw [List.map_map]
      congr 2
      apply List.map_congr_left
      intro x _
      simp only [Function.comp, kidTxt_strHead]
    · intro b' hb'
      exact absurd hb' (ft_inl_other hi h1 h2 b')
    · intro b x hb _
      exact absurd hb (ft_inl_other hi h1 h2 b)

/-! ### FSLists -/

theorem refs_of_heads (H : Heap) : ∀ hs : List Val, (∀ h ∈ hs, ∃ b : Nat, h = .ref b ∧ RefOk H b) →
    ∃ bs : List Nat, hs = bs.map Val.ref ∧ ∀ b ∈ bs, RefOk H b
  | [], _ => ⟨[], rfl, fun b hb => by cases hb⟩
  | x :: hs, hh => by
    obtain ⟨b, rfl, hb⟩ := hh x List.mem_cons_self
    obtain ⟨bs, h1, h2⟩ := refs_of_heads H hs (fun y hy => hh y (List.mem_cons_of_mem _ hy))
    refine ⟨b :: bs, by rw [h1]; rfl, ?_⟩
    intro b' hb'
    rcases List.mem_cons.mp hb' with rfl | hb'
    · exact hb
    · exact h2 b' hb'

theorem fix_fslist (h : Loc K ts c ci H L na ia ci' hpL q o o' t)
    (r : RCtx cass cass' c c' ci ci' hp H na isAnn o) (hnd : (ctorFields t).Nodup) {f : Feature}
    (hf : f ∈ allFeatures t) (hname : NameOk f) (hm : f.multi.getD false = false) {v : Val}
    (hv : alistGet? o.slots f.name = some v) (hr : f.range = FS_LIST)
    (rk : RangeKind K ts f.range false false false true false false)
    (hvv : InlList H (fun hs => ∀ h ∈ hs, ∃ b : Nat, h = .ref b ∧ RefOk H b) v) :
    FeatFix K ts cass cass' c' ci' H hpL L na q.2 (na q.1) isAnn o o' f := by
  have hi : isInline K f = true := CT.isInline_inl hm (CT.or_true_right rk.list)
  have hne : FS_LIST ≠ FS_ARRAY := by decide
  rcases hvv with rfl | ⟨cc, hs, rfl, hcl, hP⟩
  · exact fix_inl_none h hname hi hv (fun hv' => ⟨hm, .none, hv', .inr (.inr (.inr (.inr (.inr (.inr
      ⟨hr, rk, .inl rfl⟩)))))⟩)
  · obtain ⟨bs, rfl, hok⟩ := refs_of_heads H hs hP
    obtain ⟨c1, hv', _, hcl'⟩ := h.listAt hnd hf hi rk.arr hv hcl
    -- the heads are collected
    have hres : ∀ b ∈ bs, ∃ x, xidOf H b = some x ∧ (x, b) ∈ L ∧ xidOf hpL (na x) = some x ∧ x ≠ 0 := by
      intro b hb
      exact h.res ⟨o, t, h.ho, h.ht, .inr (.inr (.inl ⟨f, hf, hi, hr, cc, bs.map Val.ref, hv, hcl,
        List.mem_map_of_mem hb⟩))⟩
    rw [headExp_refs H na bs (fun b hb => (hres b hb).imp (fun x hx => hx.1))] at hcl'
    have hP' : ∀ x ∈ (bs.map (fun b => na (CAR.idOf H b))).map Val.ref, ∃ b : Nat, x = .ref b ∧ RefOk hpL b := by
      intro x hx
      obtain ⟨b', hb', rfl⟩ := List.mem_map.mp hx
      obtain ⟨b, hb, rfl⟩ := List.mem_map.mp hb'
      obtain ⟨y, h1, _, h3, h4⟩ := hres b hb
      refine ⟨_, rfl, ?_⟩
      rw [idOf_eq h1]
      exact refOk_new h3 h4
    refine ⟨.inr ⟨hname, .inr ⟨hm, .ref c1, hv', .inr (.inr (.inr (.inr (.inr (.inr
      ⟨hr, rk, .inr ⟨c1, _, rfl, hcl', hP'⟩⟩)))))⟩⟩, ?_, ?_, ?_⟩
    · rw [CG1.render_fslist K ts cass' hpL _ isAnn f o' c1 _ h.ho' hname hm hv' rk.strArr rk.strList rk.primArr
          rk.primList hr hcl' hP' (r.annSofa' h),
        CG1.render_fslist K ts cass H _ isAnn f o cc _ h.ho hname hm hv rk.strArr rk.strList rk.primArr
          rk.primList hr hcl hP r.annSofa]
      rw [List.map_map, List.map_map, List.map_map]
      congr 5
      apply List.map_congr_left
      intro b hb
      obtain ⟨x, h1, _, h3, _⟩ := hres b hb
      simp only [Function.comp, CG1.refTok, idOf_eq h1]
      exact idTok_new h1 h3
    · intro b' hb'
      rcases hb' with ⟨hni, _⟩ | ⟨_, hr', _⟩ | ⟨_, _, c2, hs2, hc2, hcl2, hb2⟩
      · rw [hi] at hni; cases hni
      · rw [hr] at hr'; exact absurd hr' hne
      · rw [hv'] at hc2; cases hc2
        rw [hcl'] at hcl2; cases hcl2
        obtain ⟨b1, hb1, hbe⟩ := List.mem_map.mp hb2
        cases hbe
        obtain ⟨b, hb, rfl⟩ := List.mem_map.mp hb1
        obtain ⟨x, h1, h2, _⟩ := hres b hb
        exact ⟨_, h2, by rw [idOf_eq h1]⟩
    · intro b x hb hx
      rcases hb with ⟨hni, _⟩ | ⟨_, hr', _⟩ | ⟨_, _, c2, hs2, hc2, hcl2, hb2⟩
      · rw [hi] at hni; cases hni
      · rw [hr] at hr'; exact absurd hr' hne
      · rw [hv] at hc2; cases hc2
        rw [hcl] at hcl2; cases hcl2
        obtain ⟨b1, hb1, hbe⟩ := List.mem_map.mp hb2
        cases hbe
        refine Or.inr (Or.inr ⟨hi, hr, c1, _, hv', hcl', ?_⟩)
        refine List.mem_map_of_mem (List.mem_map.mpr ⟨b, hb1, ?_⟩)
        rw [idOf_eq (h.idOf hx)]

/-! ### every kind of feature -/

theorem fix_feat (h : Loc K ts c ci H L na ia ci' hpL q o o' t)
    (r : RCtx cass cass' c c' ci ci' hp H na isAnn o) (hnd : (ctorFields t).Nodup) {f : Feature}
    (hf : f ∈ allFeatures t) (hcf : CollFeat K ts c ci H isAnn o f) :
    FeatFix K ts cass cass' c' ci' H hpL L na q.2 (na q.1) isAnn o o' f := by
  rcases hcf with hflat | ⟨hname, hsh | hinl⟩
  · exact fix_flat h r hnd hf hflat
  · exact fix_shared h r hnd hf hname hsh
  · obtain ⟨hm, v, hv, hcase⟩ := hinl
    rcases hcase with ⟨hr, rk, hvv⟩ | ⟨hr, rk, hvv⟩ | ⟨hr, rk, hvv⟩ | ⟨hr, rk, hvv⟩ | ⟨hr, rk, hvv⟩ | ⟨hr, rk, hvv⟩ |
      ⟨hr, rk, hvv⟩
    · exact fix_primarr h r hnd hf hname hm hv hr rk hvv
    · exact fix_strarr h r hnd hf hname hm hv hr rk hvv
    · exact fix_fsarr h r hnd hf hname hm hv hr rk hvv
    · exact fix_primlist h r hnd hf hname hm hv (by rw [hr]; decide) (by rw [hr]; decide) rk hvv
        (fun hs hP x hx => .inl (hP x hx))
        (fun w hw hil => ⟨hm, w, hw, .inr (.inr (.inr (.inl ⟨hr, rk, hil⟩)))⟩)
    · exact fix_primlist h r hnd hf hname hm hv (by rw [hr]; decide) (by rw [hr]; decide) rk hvv
        (fun hs hP x hx => .inr ((hP x hx).imp (fun t' ht' => ht'.1)))
        (fun w hw hil => ⟨hm, w, hw, .inr (.inr (.inr (.inr (.inl ⟨hr, rk, hil⟩))))⟩)
    · exact fix_strlist h r hnd hf hname hm hv hr rk hvv
    · exact fix_fslist h r hnd hf hname hm hv hr rk hvv

end

end Cassis.Xmi.CFX
