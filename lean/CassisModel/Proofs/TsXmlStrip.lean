/-
What the reader's whitespace stripping (`strip`, `stripF`, `stripT` of `Model/TsXml.lean`) does to texts that carry no
surrounding whitespace: nothing.  `noPad` is a Boolean test that the kernel can evaluate on string literals
(`String.Slice.dropWhile` itself does not reduce in the kernel).
-/
import CassisModel.Spec.TsXml

namespace Cassis.TsXml
open Cassis.TS

/-- neither the first nor the last character is whitespace (`isPySpace`: Python's `str.isspace`) -/
def noPad (s : String) : Bool :=
  !(s.toList.head?.any isPySpace) && !(s.toList.getLast?.any isPySpace)

theorem strip_eq_self (s : String) (h1 : s.toList.head?.any isPySpace = false)
    (h2 : s.toList.getLast?.any isPySpace = false) : strip s = s := by
  unfold strip
  have a : s.toSlice.dropWhile isPySpace = s.toSlice := by
    rw [String.dropWhile_toSlice]
    exact String.dropWhile_eq_toSlice (by rw [String.startsWith_bool_eq_head?]; exact h1)
  rw [a, String.dropEndWhile_toSlice,
    String.dropEndWhile_eq_toSlice (by rw [String.endsWith_bool_eq_getLast?]; exact h2)]
  simp

theorem strip_of_noPad {s : String} (h : noPad s = true) : strip s = s := by
  unfold noPad at h
  simp only [Bool.and_eq_true, Bool.not_eq_true'] at h
  exact strip_eq_self s h.1 h.2

/-- the feature texts other than the description carry no surrounding whitespace -/
def noPadF (f : FDesc) : Bool :=
  noPad f.name && noPad f.range && (match f.elem with | none => true | some e => noPad e)

/-- the texts of a declaration other than the descriptions carry no surrounding whitespace -/
def noPadT (t : TDesc) : Bool := noPad t.name && noPad t.super && t.feats.all noPadF

/-- the reader changes nothing but the descriptions -/
def NamesStrippedF (f : FDesc) : Prop := strip f.name = f.name ∧ strip f.range = f.range ∧ f.elem.map strip = f.elem
def NamesStrippedT (t : TDesc) : Prop :=
  strip t.name = t.name ∧ strip t.super = t.super ∧ ∀ f ∈ t.feats, NamesStrippedF f

theorem namesStrippedF_of_noPad {f : FDesc} (h : noPadF f = true) : NamesStrippedF f := by
  unfold noPadF at h
  simp only [Bool.and_eq_true] at h
  refine ⟨strip_of_noPad h.1.1, strip_of_noPad h.1.2, ?_⟩
  cases he : f.elem with
  | none => rfl
  | some e =>
    rw [he] at h
    simp only [Option.map_some, strip_of_noPad h.2]

theorem namesStrippedT_of_noPad {t : TDesc} (h : noPadT t = true) : NamesStrippedT t := by
  unfold noPadT at h
  simp only [Bool.and_eq_true] at h
  exact ⟨strip_of_noPad h.1.1, strip_of_noPad h.1.2,
    fun f hf => namesStrippedF_of_noPad (List.all_eq_true.mp h.2 f hf)⟩

theorem stripF_of_stripped {f : FDesc} (h : NamesStrippedF f) : stripF f = { f with descr := normDescr f.descr } := by
  unfold stripF
  rw [h.1, h.2.1, h.2.2]

theorem stripT_of_stripped {t : TDesc} (h : NamesStrippedT t) :
    stripT t = { t with descr := normDescr t.descr,
                        feats := t.feats.map (fun f => { f with descr := normDescr f.descr }) } := by
  unfold stripT
  rw [h.1, h.2.1]
  congr 1
  exact List.map_congr_left (fun f hf => stripF_of_stripped (h.2.2 f hf))

/-- a description-free declaration without padding goes through the reader unchanged -/
theorem stripT_of_noPad_nodescr {t : TDesc} (h : noPadT t = true) (hd : t.descr = none)
    (hf : t.feats.all (fun f => f.descr.isNone) = true) : stripT t = t := by
  rw [stripT_of_stripped (namesStrippedT_of_noPad h)]
  cases t with
  | mk n d s fs =>
    simp only at hd hf ⊢
    subst hd
    simp only [normDescr, TDesc.mk.injEq, true_and]
    conv => rhs; rw [← List.map_id fs]
    apply List.map_congr_left
    intro f hfm
    have := List.all_eq_true.mp hf f hfm
    cases f with
    | mk fn fd fr fm fe =>
      simp only [Option.isNone_iff_eq_none] at this
      subst this
      rfl

end Cassis.TsXml
