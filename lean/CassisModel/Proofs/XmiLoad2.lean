/-
Helper lemmas about the third pass of the XMI reader (`buildCas`) and the end-to-end statement of C17
(lenient load = strict load of the filtered document), used by `Properties/C17.lean`.
-/
import CassisModel.Proofs.XmiLoad
import CassisModel.Spec.XmiLoad
import CassisModel.Proofs.Cas
import CassisModel.Proofs.Heap
import CassisModel.Proofs.Lex
import CassisModel.Proofs.TypeSystem

namespace Cassis.Xmi
open Cassis.TS Cassis.Lex

/-! ### one member of one view -/

/-- the member's own sofa value (first seen) and the updated record of them -/
def memberOwn (m : Int) (a : Nat) (b : Build) : Option Val × List (Int × Val) :=
  match b.memberSofas.find? (fun q => q.1 == m) with
  | some q => (some q.2, b.memberSofas)
  | none =>
    match slot b.heap a "sofa" with
    | some v => (some v, b.memberSofas ++ [(m, v)])
    | none => (none, b.memberSofas)

def addMember1 (ts : TypeSystem) (ci : Nat) (h : Handle) (conv : Offsets.Conv) (sofas : List (Int × PSofa))
    (fss : List (Int × Nat)) (m : Int) (b : Build) : Except Err Build :=
  match lookupFs fss m with
  | .error e => .error e
  | .ok a =>
    match b.heap[a]? with
    | none => .error .attributeError
    | some o =>
      let r : Except Err (Heap × List Int) :=
        if (!(b.converted.contains m) && isInstanceOf ts o.ty ANNOTATION) = true then
          match convertOffsets (ownConv sofas conv (memberOwn m a b).1) b.heap a with
          | .error e => .error e
          | .ok hp' => .ok (hp', b.converted ++ [m])
        else .ok (b.heap, b.converted)
      match r with
      | .error e => .error e
      | .ok (hp1, cv1) =>
        match Cas.add ts ci b.cas hp1 h a true with
        | .error e => .error e
        | .ok (c', hp2) => .ok { cas := c', heap := hp2, converted := cv1, memberSofas := (memberOwn m a b).2 }

theorem addMembers_nil (ts : TypeSystem) (ci : Nat) (h : Handle) (conv : Offsets.Conv) (sofas : List (Int × PSofa))
    (L : List Int) (fss : List (Int × Nat)) (b : Build) : addMembers ts ci h conv sofas L fss [] b = .ok b := by
  rw [addMembers]

theorem addMembers_cons (ts : TypeSystem) (ci : Nat) (h : Handle) (conv : Offsets.Conv) (sofas : List (Int × PSofa))
    (L : List Int) (fss : List (Int × Nat)) (m : Int) (ms : List Int) (b : Build) :
    addMembers ts ci h conv sofas L fss (m :: ms) b =
      if L.contains m then addMembers ts ci h conv sofas L fss ms b
      else (addMember1 ts ci h conv sofas fss m b).bind (addMembers ts ci h conv sofas L fss ms) := by
  rw [addMembers]
  unfold addMember1
  split
  · rfl
  · cases lookupFs fss m with
    | error e => rfl
    | ok a =>
      dsimp only
      cases b.heap[a]? with
      | none => rfl
      | some o =>
        dsimp only
        have key : ∀ X : Option Val × List (Int × Val), X = memberOwn m a b →
            (match X with
              | (own, ms') =>
                match (if (!(b.converted.contains m) && isInstanceOf ts o.ty ANNOTATION) = true then
                    match convertOffsets (ownConv sofas conv own) b.heap a with
                    | .error e => Except.error e
                    | .ok hp' => .ok (hp', b.converted ++ [m])
                  else .ok (b.heap, b.converted) : Except Err (Heap × List Int)) with
                | .error e => Except.error e
                | .ok (hp1, cv1) =>
                  match Cas.add ts ci b.cas hp1 h a true with
                  | .error e => .error e
                  | .ok (c', hp2) =>
                    addMembers ts ci h conv sofas L fss ms { cas := c', heap := hp2, converted := cv1, memberSofas := ms' }) =
              ((match (if (!(b.converted.contains m) && isInstanceOf ts o.ty ANNOTATION) = true then
                    match convertOffsets (ownConv sofas conv (memberOwn m a b).1) b.heap a with
                    | .error e => Except.error e
                    | .ok hp' => .ok (hp', b.converted ++ [m])
                  else .ok (b.heap, b.converted) : Except Err (Heap × List Int)) with
                | .error e => Except.error e
                | .ok (hp1, cv1) =>
                  match Cas.add ts ci b.cas hp1 h a true with
                  | .error e => .error e
                  | .ok (c', hp2) => .ok { cas := c', heap := hp2, converted := cv1, memberSofas := (memberOwn m a b).2 } :
                  Except Err Build).bind (addMembers ts ci h conv sofas L fss ms)) := by
          intro X hX
          subst hX
          generalize memberOwn m a b = Y
          obtain ⟨own, ms'⟩ := Y
          dsimp only
          by_cases hi : (!(b.converted.contains m) && isInstanceOf ts o.ty ANNOTATION) = true
          · rw [if_pos hi]
            cases convertOffsets (ownConv sofas conv own) b.heap a with
            | error e => rfl
            | ok hp' =>
              dsimp only
              cases Cas.add ts ci b.cas hp' h a true with
              | error e => rfl
              | ok r => rfl
          · rw [if_neg hi]
            dsimp only
            cases Cas.add ts ci b.cas b.heap h a true with
            | error e => rfl
            | ok r => rfl
        exact key _ (by unfold memberOwn; rfl)

/-! ### `buildCas_skip_eq_dropped` -/

theorem addMembers_skip_eq (ts : TypeSystem) (ci : Nat) (h : Handle) (conv : Offsets.Conv) (sofas : List (Int × PSofa))
    (L : List Int) (fss : List (Int × Nat)) (ms : List Int) (b : Build) :
    addMembers ts ci h conv sofas L fss ms b =
      addMembers ts ci h conv sofas [] fss (ms.filter (fun m => !(L.contains m))) b := by
  induction ms generalizing b with
  | nil => rfl
  | cons m ms ih =>
    rw [addMembers_cons]
    by_cases hm : L.contains m = true
    · rw [if_pos hm, List.filter_cons_of_neg (by rw [hm]; exact Bool.false_ne_true)]
      exact ih b
    · rw [if_neg hm, List.filter_cons_of_pos (by rw [Bool.not_eq_true] at hm; rw [hm]; rfl), addMembers_cons,
        if_neg (by exact Bool.false_ne_true)]
      cases addMember1 ts ci h conv sofas fss m b with
      | error e => rfl
      | ok b' => exact ih b'


/-- the part of `buildView` before the members: it does not look at the leniency flag -/
def viewCas (s : PSofa) (c : Cas) : Except Err Cas :=
  let h0 : Handle := { view := Cas.INITIAL_VIEW, lenient := false }
  let h : Handle := { view := s.sofaID, lenient := false }
  let c1 : Except Err Cas :=
    if s.sofaID == Cas.INITIAL_VIEW then
      Cas.updSofa c h0 (fun so => { so with xid := s.xid, sofaNum := s.num })
    else
      match Cas.createView c h0 s.sofaID (some s.xid) (some s.num) with
      | .error e => .error e
      | .ok (c', _) => .ok c'
  match c1 with
  | .error e => .error e
  | .ok c1 =>
    Cas.updSofa c1 h (fun so => { so with text := s.text.map (fun t => t.toList.map Char.toNat), conv := convOfText s.text, mime := s.mime })

def membersOf (views : List (Int × PView)) (s : PSofa) : List Int :=
  match views.find? (fun q => q.1 == s.xid) with
  | some q => q.2.members
  | none => []

theorem buildView_eq (ts : TypeSystem) (ci : Nat) (lenient : Bool) (p : Pass1) (s : PSofa) (b : Build) :
    buildView ts ci lenient p s b =
      match viewCas s b.cas with
      | .error e => .error e
      | .ok c2 => addMembers ts ci { view := s.sofaID, lenient := lenient } (convOfText s.text) p.sofas p.lenientIds p.fss
          (membersOf p.views s) { b with cas := c2 } := by
  unfold buildView viewCas membersOf
  dsimp only
  have e1 : ∀ (c : Cas) (v : String) (f : Sofa → Sofa),
      Cas.updSofa c { view := v, lenient := lenient } f = Cas.updSofa c { view := v, lenient := false } f :=
    fun _ _ _ => rfl
  simp only [e1]
  by_cases hv : (s.sofaID == Cas.INITIAL_VIEW) = true
  · rw [if_pos hv, if_pos hv]
    generalize Cas.updSofa b.cas { view := Cas.INITIAL_VIEW, lenient := false } _ = X
    cases X <;> rfl
  · rw [if_neg hv, if_neg hv]
    unfold Cas.createView
    by_cases hs : (Cas.getViewRec b.cas s.sofaID).isSome = true
    · rw [if_pos hs, if_pos hs]
    · rw [if_neg hs, if_neg hs]
      rfl

theorem membersOf_drop (L : List Int) (views : List (Int × PView)) (s : PSofa) :
    membersOf (views.map (fun q => (q.1, dropMembersPV L q.2))) s =
      (membersOf views s).filter (fun m => !(L.contains m)) := by
  unfold membersOf
  rw [List.find?_map]
  have : ((fun q : Int × PView => q.1 == s.xid) ∘ fun q : Int × PView => (q.1, dropMembersPV L q.2)) = fun q => q.1 == s.xid := rfl
  rw [this]
  cases views.find? (fun q => q.1 == s.xid) with
  | none => rfl
  | some q => rfl

theorem buildView_drop (ts : TypeSystem) (ci : Nat) (lenient : Bool) (p : Pass1) (s : PSofa) (b : Build) :
    buildView ts ci lenient p s b = buildView ts ci lenient (dropMembers p.lenientIds p) s b := by
  rw [buildView_eq, buildView_eq]
  cases viewCas s b.cas with
  | error e => rfl
  | ok c2 =>
    dsimp only
    rw [addMembers_skip_eq]
    show _ = addMembers ts ci _ _ p.sofas [] p.fss (membersOf (p.views.map (fun q => (q.1, dropMembersPV p.lenientIds q.2))) s) _
    rw [membersOf_drop]

theorem buildViews_drop (ts : TypeSystem) (ci : Nat) (lenient : Bool) (p : Pass1) (l : List (Int × PSofa)) (b : Build) :
    buildViews ts ci lenient p l b = buildViews ts ci lenient (dropMembers p.lenientIds p) l b := by
  induction l generalizing b with
  | nil => rw [buildViews, buildViews]
  | cons q rest ih =>
    obtain ⟨i, s⟩ := q
    rw [buildViews, buildViews, ← buildView_drop]
    cases buildView ts ci lenient p s b with
    | error e => rfl
    | ok b' => exact ih b'

theorem convertReferenced_congr (ts : TypeSystem) (p p' : Pass1) (hs : p'.sofas = p.sofas) (cv : List Int)
    (l : List (Int × Nat)) (hp : Heap) :
    convertReferenced ts p' cv l hp = convertReferenced ts p cv l hp := by
  induction l generalizing hp with
  | nil => rw [convertReferenced, convertReferenced]
  | cons q rest ih =>
    obtain ⟨i, a⟩ := q
    rw [convertReferenced, convertReferenced, hs]
    simp only [ih]

theorem buildCas_skip_eq_dropped_aux (K : Consts) (ts : TypeSystem) (ci : Nat) (lenient : Bool) (p : Pass1) (hp : Heap) :
    buildCas K ts ci lenient p hp = buildCas K ts ci lenient (dropMembers p.lenientIds p) hp := by
  unfold buildCas
  rw [← buildViews_drop]
  have hs : (dropMembers p.lenientIds p).sofas = p.sofas := rfl
  rw [hs]
  cases buildViews ts ci lenient p p.sofas { cas := Cas.empty, heap := hp } with
  | error e => rfl
  | ok b =>
    dsimp only
    have hf : (dropMembers p.lenientIds p).fss = p.fss := rfl
    rw [hf]
    cases rehome p.fss b.memberSofas b.heap with
    | error e => rfl
    | ok hpR =>
      dsimp only
      rw [convertReferenced_congr ts p (dropMembers p.lenientIds p) rfl]
      rfl


/-! ### frames: the type of an object never changes -/

/-- every object of the later heap was there before, with the same type -/
def TyBack (hp hp' : Heap) : Prop := ∀ (a : Nat) (o' : Obj), hp'[a]? = some o' → ∃ o, hp[a]? = some o ∧ o.ty = o'.ty

/-- every object of the earlier heap is still there, with the same type -/
def TyExt (hp hp' : Heap) : Prop := ∀ (a : Nat) (o : Obj), hp[a]? = some o → ∃ o', hp'[a]? = some o' ∧ o'.ty = o.ty

theorem TyBack.refl (hp : Heap) : TyBack hp hp := fun _ o h => ⟨o, h, rfl⟩
theorem TyExt.refl (hp : Heap) : TyExt hp hp := fun _ o h => ⟨o, h, rfl⟩

theorem TyBack.trans {h1 h2 h3 : Heap} (a : TyBack h1 h2) (b : TyBack h2 h3) : TyBack h1 h3 := by
  intro i o3 h
  obtain ⟨o2, h2', e2⟩ := b i o3 h
  obtain ⟨o1, h1', e1⟩ := a i o2 h2'
  exact ⟨o1, h1', e1.trans e2⟩

theorem TyExt.trans {h1 h2 h3 : Heap} (a : TyExt h1 h2) (b : TyExt h2 h3) : TyExt h1 h3 := by
  intro i o1 h
  obtain ⟨o2, h2', e2⟩ := a i o1 h
  obtain ⟨o3, h3', e3⟩ := b i o2 h2'
  exact ⟨o3, h3', e3.trans e2⟩

theorem set_ty {hp : Heap} {t : Nat} {o o1 : Obj} (ho : hp[t]? = some o) (hty : o1.ty = o.ty) :
    TyBack hp (hp.set t o1) ∧ TyExt hp (hp.set t o1) := by
  have hlt : t < hp.length := (List.getElem?_eq_some_iff.mp ho).1
  constructor
  · intro a o' h
    by_cases hat : t = a
    · subst hat
      rw [List.getElem?_set_self hlt] at h
      cases h
      exact ⟨o, ho, hty.symm⟩
    · rw [List.getElem?_set_ne hat] at h
      exact ⟨o', h, rfl⟩
  · intro a o' h
    by_cases hat : t = a
    · subst hat
      rw [ho] at h
      cases h
      exact ⟨o1, List.getElem?_set_self hlt, hty⟩
    · exact ⟨o', by rw [List.getElem?_set_ne hat]; exact h, rfl⟩

theorem setSlot_ty {hp hp' : Heap} {t : Nat} {n : String} {v : Val} (h : Heap.setSlot hp t n v = .ok hp') :
    TyBack hp hp' ∧ TyExt hp hp' := by
  obtain ⟨o, ho, hc⟩ := Heap.setSlot_ok_cases hp hp' t n v h
  rcases hc with ⟨w, _, rfl⟩ | ⟨_, _, x, rfl⟩
  · exact set_ty ho rfl
  · exact set_ty ho rfl

theorem convertOffsets_ty {conv : Offsets.Conv} {hp hp' : Heap} {a : Nat} (h : convertOffsets conv hp a = .ok hp') :
    TyBack hp hp' := by
  unfold convertOffsets at h
  simp only [bind, Except.bind, throw, throwThe, MonadExceptOf.throw] at h
  split at h
  · split at h
    · cases h
    · rename_i hp1 h1
      split at h
      · exact (setSlot_ty h1).1.trans (setSlot_ty h).1
      · cases h
  · cases h

theorem add_ty {ts : TypeSystem} {ci : Nat} {c c' : Cas} {hp hp' : Heap} {h : Handle} {a : Nat} {keep : Bool}
    (hadd : Cas.add ts ci c hp h a keep = .ok (c', hp')) : TyBack hp hp' := by
  obtain ⟨_, hne, o, o', ho, ho', hty, _⟩ := Cas.add_heap_aux ts ci c c' hp hp' h a keep hadd
  intro i oi hi
  by_cases hia : i = a
  · subst hia
    rw [ho'] at hi
    cases hi
    exact ⟨o, ho, hty.symm⟩
  · rw [hne i hia] at hi
    exact ⟨oi, hi, rfl⟩


/-! ### `buildCas_flag_irrelevant` -/

def FssK (ts : TypeSystem) (fss : List (Int × Nat)) (hp : Heap) : Prop :=
  ∀ q ∈ fss, ∀ o : Obj, hp[q.2]? = some o → containsType ts o.ty = true

theorem FssK.back {ts : TypeSystem} {fss : List (Int × Nat)} {hp hp' : Heap} (h : FssK ts fss hp)
    (t : TyBack hp hp') : FssK ts fss hp' := by
  intro q hq o' ho'
  obtain ⟨o, ho, e⟩ := t q.2 o' ho'
  rw [← e]
  exact h q hq o ho

theorem lookupFs_mem {fss : List (Int × Nat)} {i : Int} {a : Nat} (h : lookupFs fss i = .ok a) :
    ∃ q ∈ fss, q.2 = a := by
  unfold lookupFs at h
  split at h
  · rename_i p hf
    cases h
    exact ⟨p, List.mem_of_find?_eq_some hf, rfl⟩
  · cases h

theorem addMember1_flag (ts : TypeSystem) (ci : Nat) (v : String) (conv : Offsets.Conv) (sofas : List (Int × PSofa))
    (fss : List (Int × Nat)) (m : Int) (b : Build) (hk : FssK ts fss b.heap) :
    addMember1 ts ci { view := v, lenient := false } conv sofas fss m b =
      addMember1 ts ci { view := v, lenient := true } conv sofas fss m b := by
  unfold addMember1
  cases hl : lookupFs fss m with
  | error e => rfl
  | ok a =>
    obtain ⟨q, hq, rfl⟩ := lookupFs_mem hl
    dsimp only
    cases ho : b.heap[q.2]? with
    | none => rfl
    | some o =>
      dsimp only
      by_cases hi : (!(b.converted.contains m) && isInstanceOf ts o.ty ANNOTATION) = true
      · rw [if_pos hi]
        cases hc : convertOffsets (ownConv sofas conv (memberOwn m q.2 b).1) b.heap q.2 with
        | error e => rfl
        | ok hp' =>
          dsimp only
          rw [Cas.add_lenient_eq (h := { view := v, lenient := false }) ((hk.back (convertOffsets_ty hc)) q hq)]
      · rw [if_neg hi]
        dsimp only
        rw [Cas.add_lenient_eq (h := { view := v, lenient := false }) (hk q hq)]

theorem addMember1_ty {ts : TypeSystem} {ci : Nat} {h : Handle} {conv : Offsets.Conv} {sofas : List (Int × PSofa)}
    {fss : List (Int × Nat)} {m : Int} {b b' : Build} (hb : addMember1 ts ci h conv sofas fss m b = .ok b') :
    TyBack b.heap b'.heap := by
  unfold addMember1 at hb
  cases hl : lookupFs fss m with
  | error e => rw [hl] at hb; cases hb
  | ok a =>
    rw [hl] at hb
    dsimp only at hb
    cases ho : b.heap[a]? with
    | none => rw [ho] at hb; cases hb
    | some o =>
      rw [ho] at hb
      dsimp only at hb
      by_cases hi : (!(b.converted.contains m) && isInstanceOf ts o.ty ANNOTATION) = true
      · rw [if_pos hi] at hb
        cases hc : convertOffsets (ownConv sofas conv (memberOwn m a b).1) b.heap a with
        | error e => rw [hc] at hb; cases hb
        | ok hp' =>
          rw [hc] at hb
          dsimp only at hb
          cases hadd : Cas.add ts ci b.cas hp' h a true with
          | error e => rw [hadd] at hb; cases hb
          | ok r =>
            obtain ⟨c', hp2⟩ := r
            rw [hadd] at hb
            cases hb
            exact (convertOffsets_ty hc).trans (add_ty hadd)
      · rw [if_neg hi] at hb
        dsimp only at hb
        cases hadd : Cas.add ts ci b.cas b.heap h a true with
        | error e => rw [hadd] at hb; cases hb
        | ok r =>
          obtain ⟨c', hp2⟩ := r
          rw [hadd] at hb
          cases hb
          exact add_ty hadd

theorem addMembers_ty {ts : TypeSystem} {ci : Nat} {h : Handle} {conv : Offsets.Conv} {sofas : List (Int × PSofa)}
    {L : List Int} {fss : List (Int × Nat)} {ms : List Int} {b b' : Build}
    (hb : addMembers ts ci h conv sofas L fss ms b = .ok b') : TyBack b.heap b'.heap := by
  induction ms generalizing b with
  | nil => rw [addMembers_nil] at hb; cases hb; exact TyBack.refl _
  | cons m ms ih =>
    rw [addMembers_cons] at hb
    by_cases hm : L.contains m = true
    · rw [if_pos hm] at hb; exact ih hb
    · rw [if_neg hm] at hb
      cases h1 : addMember1 ts ci h conv sofas fss m b with
      | error e => rw [h1] at hb; cases hb
      | ok b1 =>
        rw [h1] at hb
        exact (addMember1_ty h1).trans (ih hb)

theorem addMembers_flag (ts : TypeSystem) (ci : Nat) (v : String) (conv : Offsets.Conv) (sofas : List (Int × PSofa))
    (L : List Int) (fss : List (Int × Nat)) (ms : List Int) (b : Build) (hk : FssK ts fss b.heap) :
    addMembers ts ci { view := v, lenient := false } conv sofas L fss ms b =
      addMembers ts ci { view := v, lenient := true } conv sofas L fss ms b := by
  induction ms generalizing b with
  | nil => rw [addMembers_nil, addMembers_nil]
  | cons m ms ih =>
    rw [addMembers_cons, addMembers_cons]
    by_cases hm : L.contains m = true
    · rw [if_pos hm, if_pos hm]; exact ih b hk
    · rw [if_neg hm, if_neg hm, addMember1_flag ts ci v conv sofas fss m b hk]
      cases h1 : addMember1 ts ci { view := v, lenient := true } conv sofas fss m b with
      | error e => rfl
      | ok b1 => exact ih b1 (hk.back (addMember1_ty h1))

theorem buildView_flag (ts : TypeSystem) (ci : Nat) (p : Pass1) (s : PSofa) (b : Build) (hk : FssK ts p.fss b.heap) :
    buildView ts ci false p s b = buildView ts ci true p s b := by
  rw [buildView_eq, buildView_eq]
  cases viewCas s b.cas with
  | error e => rfl
  | ok c2 => exact addMembers_flag ts ci _ _ _ _ _ _ _ hk

theorem buildView_ty {ts : TypeSystem} {ci : Nat} {lenient : Bool} {p : Pass1} {s : PSofa} {b b' : Build}
    (hb : buildView ts ci lenient p s b = .ok b') : TyBack b.heap b'.heap := by
  rw [buildView_eq] at hb
  cases hv : viewCas s b.cas with
  | error e => rw [hv] at hb; cases hb
  | ok c2 =>
    rw [hv] at hb
    exact addMembers_ty (b := { b with cas := c2 }) hb

theorem buildViews_flag (ts : TypeSystem) (ci : Nat) (p : Pass1) (l : List (Int × PSofa)) (b : Build)
    (hk : FssK ts p.fss b.heap) :
    buildViews ts ci false p l b = buildViews ts ci true p l b := by
  induction l generalizing b with
  | nil => rw [buildViews, buildViews]
  | cons q rest ih =>
    obtain ⟨i, s⟩ := q
    rw [buildViews, buildViews, buildView_flag ts ci p s b hk]
    cases h1 : buildView ts ci true p s b with
    | error e => rfl
    | ok b' => exact ih b' (hk.back (buildView_ty h1))

theorem buildCas_flag_irrelevant_aux (K : Consts) (ts : TypeSystem) (ci : Nat) (p : Pass1) (hp : Heap)
    (hk : ∀ q ∈ p.fss, ∀ o : Obj, hp[q.2]? = some o → containsType ts o.ty = true) :
    buildCas K ts ci true p hp = buildCas K ts ci false p hp := by
  unfold buildCas
  rw [buildViews_flag ts ci p p.sofas { cas := Cas.empty, heap := hp } hk]


/-! ### the `members` attribute without the dropped ids -/

theorem splitWsAux_tok (cs : List Char) : ∀ (cur : List Char), (∀ c ∈ cur, isWs c = false) →
    ∀ t ∈ splitWsAux cs cur, t ≠ [] ∧ ∀ c ∈ t, isWs c = false := by
  have hrev : ∀ cur : List Char, (∀ c ∈ cur, isWs c = false) → ¬ (cur.isEmpty = true) →
      cur.reverse ≠ [] ∧ ∀ c ∈ cur.reverse, isWs c = false := by
    intro cur hcur hne
    refine ⟨?_, fun c hc => hcur c (List.mem_reverse.mp hc)⟩
    intro e
    apply hne
    rw [List.reverse_eq_nil_iff.mp e]
    rfl
  induction cs with
  | nil =>
    intro cur hcur t ht
    unfold splitWsAux at ht
    split at ht
    · cases ht
    · rename_i hne
      rw [List.mem_singleton] at ht
      subst ht
      exact hrev cur hcur hne
  | cons c cs ih =>
    intro cur hcur t ht
    unfold splitWsAux at ht
    split at ht
    · split at ht
      · exact ih [] (fun c hc => by cases hc) t ht
      · rename_i hne
        rcases List.mem_cons.mp ht with rfl | ht
        · exact hrev cur hcur hne
        · exact ih [] (fun c hc => by cases hc) t ht
    · rename_i hws
      refine ih (c :: cur) ?_ t ht
      intro x hx
      rcases List.mem_cons.mp hx with rfl | hx
      · cases hw : isWs x with
        | false => rfl
        | true => exact absurd hw hws
      · exact hcur x hx

theorem splitWs_isTok (s : String) : ∀ t ∈ splitWs s, IsTokL t := by
  intro t ht
  unfold splitWs at ht
  obtain ⟨l, hl, rfl⟩ := List.mem_map.mp ht
  unfold IsTokL
  rw [toList_ofList]
  exact splitWsAux_tok s.toList [] (fun c hc => by cases hc) l hl

def keepTok (L : List Int) (t : String) : Bool :=
  match parseInt t with
  | some i => !(L.contains i)
  | none => true

theorem parseInts_nil : parseInts [] = .ok [] := by rw [parseInts]

theorem parseInts_cons_ok {s : String} {ss : List String} {ms : List Int} (h : parseInts (s :: ss) = .ok ms) :
    ∃ i is, parseInt s = some i ∧ parseInts ss = .ok is ∧ ms = i :: is := by
  rw [parseInts] at h
  unfold parseIntE at h
  cases hi : parseInt s with
  | none => rw [hi] at h; cases h
  | some i =>
    rw [hi] at h
    cases hr : parseInts ss with
    | error e => rw [hr] at h; cases h
    | ok is =>
      rw [hr] at h
      cases h
      exact ⟨i, is, rfl, rfl, rfl⟩

theorem parseInts_cons_of {s : String} {ss : List String} {i : Int} {is : List Int} (hi : parseInt s = some i)
    (hr : parseInts ss = .ok is) : parseInts (s :: ss) = .ok (i :: is) := by
  rw [parseInts]
  unfold parseIntE
  rw [hi, hr]
  rfl

theorem parseInts_filter (L : List Int) (toks : List String) : ∀ (ms : List Int), parseInts toks = .ok ms →
    parseInts (toks.filter (keepTok L)) = .ok (ms.filter (fun m => !(L.contains m))) := by
  induction toks with
  | nil =>
    intro ms h
    rw [parseInts_nil] at h
    cases h
    exact parseInts_nil
  | cons s ss ih =>
    intro ms h
    obtain ⟨i, is, hi, hr, rfl⟩ := parseInts_cons_ok h
    have h2 := ih is hr
    have hk : keepTok L s = !(L.contains i) := by unfold keepTok; rw [hi]
    by_cases hc : L.contains i = true
    · rw [List.filter_cons_of_neg (by rw [hk, hc]; exact Bool.false_ne_true),
        List.filter_cons_of_neg (by rw [hc]; exact Bool.false_ne_true)]
      exact h2
    · rw [Bool.not_eq_true] at hc
      rw [List.filter_cons_of_pos (by rw [hk, hc]; rfl), List.filter_cons_of_pos (by rw [hc]; rfl)]
      exact parseInts_cons_of hi h2

/-- what `dropMembersElem` does to the value of the attribute `k` of a view element -/
def dropG (L : List Int) (k v : String) : String :=
  if k == "members" then joinSp ((splitWs v).filter (keepTok L)) else v

theorem dropMembersElem_ty (L : List Int) (e : XElem) : (dropMembersElem L e).ty = e.ty := by
  unfold dropMembersElem
  split <;> rfl

theorem dropMembersElem_of_not_view (L : List Int) (e : XElem) (hv : ¬ (e.ty == VIEW_T) = true) :
    dropMembersElem L e = e := by
  unfold dropMembersElem
  rw [if_neg hv]

theorem dropMembersElem_attrs (L : List Int) (e : XElem) (hv : (e.ty == VIEW_T) = true) :
    (dropMembersElem L e).attrs = e.attrs.map (fun kv => (kv.1, dropG L kv.1 kv.2)) := by
  unfold dropMembersElem
  rw [if_pos hv]
  dsimp only
  apply List.map_congr_left
  intro kv _
  unfold dropG
  split <;> rfl

theorem alistGet?_mapVal {β γ} (g : String → β → γ) (l : List (String × β)) (k : String) :
    alistGet? (l.map (fun kv => (kv.1, g kv.1 kv.2))) k = (alistGet? l k).map (g k) := by
  induction l with
  | nil => rfl
  | cons p rest ih =>
    obtain ⟨k', v'⟩ := p
    rw [List.map_cons]
    unfold alistGet?
    by_cases hk : k' = k
    · subst hk
      rw [if_pos rfl, if_pos rfl]
      rfl
    · rw [if_neg hk, if_neg hk]
      exact ih

theorem attr_drop (L : List Int) (e : XElem) (hv : (e.ty == VIEW_T) = true) (k : String) :
    attr (dropMembersElem L e) k = (attr e k).map (dropG L k) := by
  unfold attr
  rw [dropMembersElem_attrs L e hv, alistGet?_mapVal]

theorem parseView_drop (L : List Int) (e : XElem) (v : PView) (hv : (e.ty == VIEW_T) = true)
    (h : parseView e = .ok v) : parseView (dropMembersElem L e) = .ok (dropMembersPV L v) := by
  unfold parseView at h ⊢
  rw [attr_drop L e hv "sofa", attr_drop L e hv "members"]
  cases hs : attr e "sofa" with
  | none => rw [hs] at h; cases h
  | some sS =>
    rw [hs] at h
    have e1 : dropG L "sofa" sS = sS := rfl
    rw [Option.map_some, e1]
    simp only [bind, Except.bind, pure, Except.pure] at h ⊢
    cases hi : parseIntE sS with
    | error err => rw [hi] at h; cases h
    | ok sI =>
      rw [hi] at h
      dsimp only at h ⊢
      cases hm : parseInts (splitWs ((attr e "members").getD "")) with
      | error err => rw [hm] at h; cases h
      | ok ms =>
        rw [hm] at h
        cases h
        have h2 : parseInts (splitWs (((attr e "members").map (dropG L "members")).getD "")) =
            .ok (ms.filter (fun m => !(L.contains m))) := by
          cases ha : attr e "members" with
          | none =>
            rw [ha] at hm
            have e0 : splitWs ((none : Option String).getD "") = [] := rfl
            rw [e0, parseInts_nil] at hm
            cases hm
            exact parseInts_nil
          | some mv =>
            rw [ha] at hm
            have e2 : ((some mv).map (dropG L "members")).getD "" = joinSp ((splitWs mv).filter (keepTok L)) := rfl
            rw [e2, splitWs_joinSp_aux _ (fun t ht => splitWs_isTok mv t (List.mem_filter.mp ht).1)]
            exact parseInts_filter L _ ms hm
        rw [h2]
        rfl

theorem alistSetI_map {β γ} (g : β → γ) (l : List (Int × β)) (k : Int) (v : β) :
    pass1.alistSetI (l.map (fun q => (q.1, g q.2))) k (g v) =
      (pass1.alistSetI l k v).map (fun q => (q.1, g q.2)) := by
  induction l with
  | nil => rfl
  | cons p rest ih =>
    obtain ⟨k', v'⟩ := p
    rw [List.map_cons]
    unfold pass1.alistSetI
    by_cases hk : (k' == k) = true
    · rw [if_pos hk, if_pos hk]
      rfl
    · rw [if_neg hk, if_neg hk, List.map_cons, ih]


/-! ### the first pass over the document with the trimmed `members` attributes -/

def dropV (L : List Int) (s : Pass1) : Pass1 :=
  { s with views := s.views.map (fun q => (q.1, dropMembersPV L q.2)) }

theorem sofa_ne_view : (SOFA == VIEW_T) = false := by decide

theorem step1_drop_nonview (K : Consts) (ts : TypeSystem) (tsIdx : Nat) (b : Bool) (L : List Int) (e : XElem) (s : Pass1)
    (hv : ¬ (e.ty == VIEW_T) = true) :
    step1 K ts tsIdx b e (dropV L s) = (step1 K ts tsIdx b e s).map (dropV L) := by
  unfold step1
  by_cases h1 : (e.ty == SOFA) = true
  · rw [if_pos h1, if_pos h1]
    cases parseSofa e <;> rfl
  · rw [if_neg h1, if_neg h1, if_neg hv, if_neg hv]
    show (match parseFsElem K ts tsIdx s.heap e with | .ok (hp, i, a) => _ | .error .typeNotFound => _ | .error err => _) = _
    cases parseFsElem K ts tsIdx s.heap e with
    | ok r => rfl
    | error err => cases err <;> cases b <;> rfl

theorem step1_drop (K : Consts) (ts : TypeSystem) (tsIdx : Nat) (b : Bool) (L : List Int) (e : XElem) (s s' : Pass1)
    (h : step1 K ts tsIdx b e s = .ok s') :
    step1 K ts tsIdx b (dropMembersElem L e) (dropV L s) = .ok (dropV L s') := by
  by_cases hv : (e.ty == VIEW_T) = true
  · have h1 : ¬ (e.ty == SOFA) = true := by
      intro h1
      have e1 : e.ty = SOFA := eq_of_beq h1
      have e2 : e.ty = VIEW_T := eq_of_beq hv
      rw [e1] at e2
      have := sofa_ne_view
      rw [e2] at this
      simp at this
    unfold step1 at h ⊢
    rw [dropMembersElem_ty, if_neg h1, if_pos hv] at *
    cases hp : parseView e with
    | error err => rw [hp] at h; cases h
    | ok v =>
      rw [hp] at h
      cases h
      rw [parseView_drop L e v hv hp]
      show Except.ok _ = Except.ok _
      congr 1
      unfold dropV
      have := alistSetI_map (dropMembersPV L) s.views v.sofa v
      have e3 : (dropMembersPV L v).sofa = v.sofa := rfl
      rw [e3]
      dsimp only
      rw [this]
  · rw [dropMembersElem_of_not_view L e hv, step1_drop_nonview K ts tsIdx b L e s hv, h]
    rfl

theorem pass1_drop (K : Consts) (ts : TypeSystem) (tsIdx : Nat) (b : Bool) (L : List Int) (d : XDoc) :
    ∀ (s s' : Pass1), pass1 K ts tsIdx b d s = .ok s' →
      pass1 K ts tsIdx b (d.map (dropMembersElem L)) (dropV L s) = .ok (dropV L s') := by
  induction d with
  | nil =>
    intro s s' h
    rw [pass1_nil] at h
    cases h
    rw [List.map_nil, pass1_nil]
  | cons e es ih =>
    intro s s' h
    rw [pass1_cons] at h
    rw [List.map_cons, pass1_cons]
    cases hs : step1 K ts tsIdx b e s with
    | error err => rw [hs] at h; cases h
    | ok s1 =>
      rw [hs] at h
      rw [step1_drop K ts tsIdx b L e s s1 hs]
      exact ih s1 s' h


/-! ### every structure the first pass registers has a registered type, and keeps it -/

theorem containsType_of_getType {ts : TypeSystem} {n : String} {t : TypeRec} (h : getType ts n = .ok t) :
    containsType ts t.name = true := by
  have hm := getType_mem h
  have he : hasExact ts t.name = true := (hasExact_iff_mem ts t.name).mpr (List.mem_map.mpr ⟨t, hm, rfl⟩)
  unfold containsType
  split
  · exact he
  · obtain ⟨t', ht'⟩ := (hasExact_iff_find ts t.name).mp he
    unfold getType
    rw [ht']

theorem bind_ok {α β} {x : Except Err α} {f : α → Except Err β} {r : β} (h : x >>= f = .ok r) :
    ∃ a, x = .ok a ∧ f a = .ok r := by
  cases x with
  | error e => cases h
  | ok a => exact ⟨a, rfl, h⟩

theorem prefix_tyExt {hp hp' : Heap} (h : hp <+: hp') : TyExt hp hp' := by
  obtain ⟨t, rfl⟩ := h
  intro a o ho
  have hlt : a < hp.length := (List.getElem?_eq_some_iff.mp ho).1
  exact ⟨o, by rw [List.getElem?_append_left hlt]; exact ho, rfl⟩

theorem foldl_prefix {α} (g : Heap × Nat → α → Obj) (l : List α) : ∀ (acc : Heap × Nat),
    acc.1 <+: (l.foldl (fun acc v => (acc.1 ++ [g acc v], acc.1.length)) acc).1 := by
  induction l with
  | nil => intro acc; exact List.prefix_refl _
  | cons v l ih =>
    intro acc
    rw [List.foldl_cons]
    exact List.IsPrefix.trans (List.prefix_append _ _) (ih (acc.1 ++ [g acc v], acc.1.length))

theorem listFold_prefix {α} {hp hp' : Heap} {l : Nat} (e0 : Obj) (g : Heap × Nat → α → Obj) (vals : List α)
    (h : vals.foldl (fun acc v => (acc.1 ++ [g acc v], acc.1.length)) (hp ++ [e0], hp.length) = (hp', l)) :
    hp <+: hp' := by
  have := foldl_prefix g vals (hp ++ [e0], hp.length)
  rw [h] at this
  exact List.IsPrefix.trans (List.prefix_append _ _) this

theorem buildFsList_prefix {hp hp' : Heap} {tsIdx : Nat} {targets : List Nat} {l : Nat}
    (h : buildFsList hp tsIdx targets = (hp', l)) : hp <+: hp' := by
  unfold buildFsList at h
  exact listFold_prefix _ (fun (acc : Heap × Nat) (t : Nat) =>
      ({ ty := "uima.cas.NonEmptyFSList", ts := tsIdx, xid := none,
         slots := [("head", Val.ref t), ("tail", Val.ref acc.2)] } : Obj)) targets.reverse h

theorem buildPrimList_prefix {hp hp' : Heap} {tsIdx : Nat} {rn : String} {elems : List (Option String)} {l : Nat}
    (h : buildPrimList hp tsIdx rn elems = .ok (hp', l)) : hp <+: hp' := by
  unfold buildPrimList at h
  simp only [bind, Except.bind, pure, Except.pure, throw, throwThe, MonadExceptOf.throw] at h
  repeat' split at h
  all_goals first
    | (cases h; done)
    | (rename_i vals _
       exact listFold_prefix _ (fun (acc : Heap × Nat) (v : Val) =>
         ({ ty := _, ts := tsIdx, xid := none, slots := [("head", v), ("tail", Val.ref acc.2)] } : Obj)) vals.reverse
         (Except.ok.inj h))


theorem foldlM_inv {α β} (R : β → β → Prop) (hr : ∀ b, R b b) (ht : ∀ a b c, R a b → R b c → R a c)
    (f : β → α → Except Err β) (hf : ∀ b a b', f b a = .ok b' → R b b') :
    ∀ (l : List α) (b b' : β), l.foldlM f b = .ok b' → R b b' := by
  intro l
  induction l with
  | nil =>
    intro b b' h
    rw [List.foldlM_nil] at h
    cases h
    exact hr b
  | cons a l ih =>
    intro b b' h
    rw [List.foldlM_cons] at h
    obtain ⟨b1, h1, h2⟩ := bind_ok h
    exact ht _ _ _ (hf b a b1 h1) (ih b1 b' h2)

/-- a property of the successful results of a computation -/
def OkP {α} (P : α → Prop) (x : Except Err α) : Prop := ∀ a, x = .ok a → P a

theorem OkP.pure {α} {P : α → Prop} {a : α} (h : P a) : OkP P (Pure.pure a : Except Err α) := by
  intro b hb; cases hb; exact h

theorem OkP.ok {α} {P : α → Prop} {a : α} (h : P a) : OkP P (Except.ok a : Except Err α) := by
  intro b hb; cases hb; exact h

theorem OkP.err {α} {P : α → Prop} (e : Err) : OkP P (Except.error e : Except Err α) := by
  intro b hb; cases hb

theorem OkP.throw {α} {P : α → Prop} (e : Err) : OkP P (throw e : Except Err α) := by
  intro b hb; cases hb

theorem OkP.bind {α β} {P : β → Prop} {x : Except Err α} {f : α → Except Err β}
    (hf : ∀ a, x = .ok a → OkP P (f a)) : OkP P (x >>= f) := by
  intro b hb
  obtain ⟨a, ha, h⟩ := bind_ok hb
  exact hf a ha b h

/-- what matters about the result of `parseFsElem` -/
def FsRes (ts : TypeSystem) (hp : Heap) (r : Heap × Int × Nat) : Prop :=
  hp <+: r.1 ∧ ∃ o, r.1[r.2.2]? = some o ∧ containsType ts o.ty = true

theorem fs_tail {ts : TypeSystem} {t : TypeRec} {tsIdx : Nat} {idV : Int} {hp X : Heap} {merged : List (String × Val)}
    (ht : containsType ts t.name = true) (hX : hp <+: X) :
    OkP (FsRes ts hp) (do let o ← construct t tsIdx (some idV) merged; pure (X ++ [o], idV, X.length)) := by
  refine OkP.bind (fun o ho => ?_)
  apply OkP.pure
  refine ⟨List.IsPrefix.trans hX (List.prefix_append _ _), o, ?_, ?_⟩
  · show (X ++ [o])[X.length]? = some o
    rw [List.getElem?_append_right (Nat.le_refl _), Nat.sub_self]
    rfl
  · rw [(Cas.construct_ok ho).1]
    exact ht

theorem parseFsElem_okp (K : Consts) (ts : TypeSystem) (tsIdx : Nat) (hp : Heap) (e : XElem) :
    OkP (FsRes ts hp) (parseFsElem K ts tsIdx hp e) := by
  unfold parseFsElem
  refine OkP.bind (fun t ht => ?_)
  have hct := containsType_of_getType (getType_of_getTypeExact ht)
  dsimp only
  split
  all_goals (
    refine OkP.bind (fun idV _ => ?_)
    refine OkP.bind (fun merged _ => ?_)
    split
    · refine OkP.bind (fun x hx => ?_)
      cases hx
      exact fs_tail hct (List.prefix_refl _)
    · refine OkP.bind (fun x hx => ?_)
      refine fs_tail hct ?_
      refine foldlM_inv (fun a b => a.1 <+: b.1) (fun _ => List.prefix_refl _)
        (fun _ _ _ => List.IsPrefix.trans) _ ?_ _ _ _ hx
      intro acc p
      show OkP (fun (acc' : Heap × List (String × Val)) => acc.1 <+: acc'.1) _
      split
      · refine OkP.bind (fun f _ => ?_)
        split
        · exact OkP.pure (List.prefix_append _ _)
        · split
          · refine OkP.bind (fun y hy => ?_)
            exact OkP.pure (buildPrimList_prefix (l := y.2) hy)
          · exact OkP.pure (List.prefix_refl _)
      · refine OkP.bind (fun f hf => ?_)
        cases hf)


theorem setSlot_okp {hp X : Heap} {a : Nat} {n : String} {v : Val} (h : TyExt hp X) :
    OkP (TyExt hp) (Heap.setSlot X a n v) := fun _ h' => h.trans (setSlot_ty h').2

theorem postFeature_okp (K : Consts) (ts : TypeSystem) (tsIdx ci : Nat) (sofas : List (Int × PSofa))
    (fss : List (Int × Nat)) (hp : Heap) (a : Nat) (tyName : String) (isStrArr : Bool) (f : Feature) :
    OkP (TyExt hp) (postFeature K ts tsIdx ci sofas fss hp a tyName isStrArr f) := by
  unfold postFeature
  dsimp only
  repeat' (first
    | exact OkP.pure (TyExt.refl _)
    | exact OkP.throw _
    | exact OkP.err _
    | exact setSlot_okp (TyExt.refl _)
    | exact setSlot_okp (prefix_tyExt (List.prefix_append _ _))
    | exact setSlot_okp (prefix_tyExt (buildPrimList_prefix (l := Prod.snd _) ‹_›))
    | exact setSlot_okp (prefix_tyExt (buildFsList_prefix (l := (buildFsList _ _ _).2) rfl))
    | refine OkP.bind (fun _ _ => ?_)
    | split)


theorem postFeatures_okp (K : Consts) (ts : TypeSystem) (tsIdx ci : Nat) (sofas : List (Int × PSofa))
    (fss : List (Int × Nat)) (a : Nat) (tyName : String) (isStrArr : Bool) (fs : List Feature) :
    ∀ hp : Heap, OkP (TyExt hp) (postFeatures K ts tsIdx ci sofas fss a tyName isStrArr fs hp) := by
  induction fs with
  | nil => intro hp; rw [postFeatures]; exact OkP.ok (TyExt.refl _)
  | cons f fs ih =>
    intro hp
    rw [postFeatures]
    refine OkP.bind (fun hp1 h1 => ?_)
    intro hp2 h2
    exact (postFeature_okp K ts tsIdx ci sofas fss hp a tyName isStrArr f hp1 h1).trans (ih hp1 hp2 h2)

theorem postAll_okp (K : Consts) (ts : TypeSystem) (tsIdx ci : Nat) (sofas : List (Int × PSofa))
    (fss : List (Int × Nat)) (l : List (Int × Nat)) :
    ∀ hp : Heap, OkP (TyExt hp) (postAll K ts tsIdx ci sofas fss l hp) := by
  induction l with
  | nil => intro hp; rw [postAll]; exact OkP.ok (TyExt.refl _)
  | cons q rest ih =>
    intro hp
    obtain ⟨i, a⟩ := q
    rw [postAll]
    split
    · refine OkP.bind (fun o _ => ?_)
      refine OkP.bind (fun t _ => ?_)
      refine OkP.bind (fun hp1 h1 => ?_)
      intro hp2 h2
      exact (postFeatures_okp K ts tsIdx ci sofas fss a _ _ _ hp hp1 h1).trans (ih hp1 hp2 h2)
    · refine OkP.bind (fun o ho => ?_)
      cases ho

def FssGood (ts : TypeSystem) (fss : List (Int × Nat)) (hp : Heap) : Prop :=
  ∀ q ∈ fss, ∃ o : Obj, hp[q.2]? = some o ∧ containsType ts o.ty = true

theorem FssGood.ext {ts : TypeSystem} {fss : List (Int × Nat)} {hp hp' : Heap} (h : FssGood ts fss hp)
    (t : TyExt hp hp') : FssGood ts fss hp' := by
  intro q hq
  obtain ⟨o, ho, hc⟩ := h q hq
  obtain ⟨o', ho', e⟩ := t q.2 o ho
  exact ⟨o', ho', by rw [e]; exact hc⟩

theorem FssGood.toK {ts : TypeSystem} {fss : List (Int × Nat)} {hp : Heap} (h : FssGood ts fss hp) :
    FssK ts fss hp := by
  intro q hq o' ho'
  obtain ⟨o, ho, hc⟩ := h q hq
  rw [ho] at ho'
  cases ho'
  exact hc

theorem mem_alistSetI {β} {l : List (Int × β)} {k : Int} {v : β} {q : Int × β}
    (h : q ∈ pass1.alistSetI l k v) : q ∈ l ∨ q = (k, v) := by
  induction l with
  | nil =>
    unfold pass1.alistSetI at h
    exact Or.inr (List.mem_singleton.mp h)
  | cons p rest ih =>
    obtain ⟨k', v'⟩ := p
    unfold pass1.alistSetI at h
    split at h
    · rcases List.mem_cons.mp h with h | h
      · exact Or.inr h
      · exact Or.inl (List.mem_cons_of_mem _ h)
    · rcases List.mem_cons.mp h with h | h
      · exact Or.inl (h ▸ List.mem_cons_self)
      · rcases ih h with h | h
        · exact Or.inl (List.mem_cons_of_mem _ h)
        · exact Or.inr h

theorem step1_good (K : Consts) (ts : TypeSystem) (tsIdx : Nat) (b : Bool) (e : XElem) (s s' : Pass1)
    (h : step1 K ts tsIdx b e s = .ok s') (hg : FssGood ts s.fss s.heap) : FssGood ts s'.fss s'.heap := by
  unfold step1 at h
  by_cases h1 : (e.ty == SOFA) = true
  · rw [if_pos h1] at h
    cases hp : parseSofa e with
    | error err => rw [hp] at h; cases h
    | ok p => rw [hp] at h; cases h; exact hg
  · rw [if_neg h1] at h
    by_cases h2 : (e.ty == VIEW_T) = true
    · rw [if_pos h2] at h
      cases hp : parseView e with
      | error err => rw [hp] at h; cases h
      | ok p => rw [hp] at h; cases h; exact hg
    · rw [if_neg h2] at h
      cases hp : parseFsElem K ts tsIdx s.heap e with
      | ok r =>
        obtain ⟨hp', i, a⟩ := r
        rw [hp] at h
        cases h
        obtain ⟨hpre, o, ho, hc⟩ := parseFsElem_okp K ts tsIdx s.heap e _ hp
        intro q hq
        rcases mem_alistSetI hq with hq | rfl
        · exact (hg.ext (prefix_tyExt hpre)) q hq
        · exact ⟨o, ho, hc⟩
      | error err =>
        rw [hp] at h
        cases err <;> cases b <;> first | (cases h; done) | (cases h; exact hg)

theorem pass1_good (K : Consts) (ts : TypeSystem) (tsIdx : Nat) (b : Bool) (d : XDoc) : ∀ (s s' : Pass1),
    pass1 K ts tsIdx b d s = .ok s' → FssGood ts s.fss s.heap → FssGood ts s'.fss s'.heap := by
  induction d with
  | nil => intro s s' h hg; rw [pass1_nil] at h; cases h; exact hg
  | cons e es ih =>
    intro s s' h hg
    rw [pass1_cons] at h
    cases hs : step1 K ts tsIdx b e s with
    | error err => rw [hs] at h; cases h
    | ok s1 =>
      rw [hs] at h
      exact ih s1 s' h (step1_good K ts tsIdx b e s s1 hs hg)

/-! ### end to end -/

theorem loadXmi_lenient_eq_strict_filtered_aux (K : Consts) (ts : TypeSystem) (tsIdx ci : Nat) (hp : Heap) (doc : XDoc)
    (ld : Loaded) (h : loadXmi K ts tsIdx ci true hp doc = .ok ld) :
    ∃ r : Pass1, pass1 K ts tsIdx true doc { heap := hp } = .ok r ∧
      ∃ ld' : Loaded, loadXmi K ts tsIdx ci false hp
          ((doc.filter (knownElemL ts)).map (dropMembersElem r.lenientIds)) = .ok ld' ∧
        ld'.cas = ld.cas ∧ ld'.heap = ld.heap := by
  unfold loadXmi at h
  obtain ⟨r, hr, h⟩ := bind_ok h
  obtain ⟨hp2, hpost, h⟩ := bind_ok h
  refine ⟨r, hr, ld, ?_, rfl, rfl⟩
  have h1 := pass1_lenient_filtered_gen K ts tsIdx doc { heap := hp } r hr false []
  have h2 := pass1_drop K ts tsIdx false r.lenientIds _ _ _ h1
  have h3 : pass1 K ts tsIdx false ((doc.filter (knownElemL ts)).map (dropMembersElem r.lenientIds)) { heap := hp } =
      .ok (dropMembers r.lenientIds r) := h2
  have hgood : FssGood ts r.fss r.heap :=
    pass1_good K ts tsIdx true doc _ r hr (fun q hq => by cases hq)
  have hk : FssK ts r.fss hp2 := (hgood.ext (postAll_okp K ts tsIdx ci r.sofas r.fss r.fss r.heap hp2 hpost)).toK
  unfold loadXmi
  rw [h3]
  show (postAll K ts tsIdx ci r.sofas r.fss r.fss r.heap >>=
      fun hp2 => buildCas K ts ci false (dropMembers r.lenientIds r) hp2) = _
  rw [hpost]
  show buildCas K ts ci false (dropMembers r.lenientIds r) hp2 = .ok ld
  rw [← buildCas_flag_irrelevant_aux K ts ci (dropMembers r.lenientIds r) hp2 hk, ← buildCas_skip_eq_dropped_aux]
  exact h

end Cassis.Xmi
