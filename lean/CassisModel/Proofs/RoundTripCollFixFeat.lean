/-
Fixpoint of the XMI round trip with collections, per feature (1): the setting (`Loc`: one collected structure `o` and
its loaded counterpart `o'`), the statement proved per feature (`FeatFix`: the loaded feature is in the fragment again,
is rendered identically, and refers to the loaded counterparts of the structures the written one refers to), and the
flat and shared features.
-/
import CassisModel.Proofs.RoundTripCollFinal
import CassisModel.Proofs.RoundTripCollFixSucc
import CassisModel.Proofs.RoundTripFixAux

namespace Cassis.Xmi.CFX
open Cassis.TS Cassis.Traverse Cassis.Lex Cassis.Xmi

/-- one collected structure (`o` at `q.2` in the written heap `H`, of type `t`) and its loaded counterpart (`o'` at
    `na q.1` in the loaded heap `hpL`) -/
structure Loc (K : Consts) (ts : TypeSystem) (c : Cas) (ci : Nat) (H : Heap) (L : List (Int × Nat)) (na : Int → Nat)
    (ia : Int → String → Nat) (ci' : Nat) (hpL : Heap) (q : Int × Nat) (o o' : Obj) (t : TypeRec) : Prop where
  hL : LOkC K ts c ci H L
  hxid : ∀ q ∈ L, xidOf hpL (na q.1) = some q.1
  hcolls : CollsAt K ts H L na ia hpL
  hq : q ∈ L
  ho : H[q.2]? = some o
  ho' : hpL[na q.1]? = some o'
  hty : o'.ty = o.ty
  hkeys : o'.slots.map (·.1) = o.slots.map (·.1)
  hslots : ∀ n v, alistGet? o.slots n = some v → alistGet? o'.slots n = some (E3c K ts H na ia ci' o n v)
  ht : find? ts o.ty = some t

/-- what the writer needs of the CAS on both sides -/
structure RCtx (cass cass' : List Cas) (c c' : Cas) (ci ci' : Nat) (hp H : Heap) (na : Int → Nat) (isAnn : Bool)
    (o : Obj) : Prop where
  hc : cass[ci]? = some c
  hc' : cass'[ci']? = some c'
  hwf : RTWf c hp
  hviews : ViewsRel H na c c'
  hann : isAnn = true →
    ∃ (vn : String) (v : View) (text : List Nat) (b e : Nat),
      alistGet? o.slots "sofa" = some (.sofa ci vn) ∧ Cas.getViewRec c vn = some v ∧ v.sofa.text = some text ∧
      alistGet? o.slots "begin" = some (.int b) ∧ alistGet? o.slots "end" = some (.int e) ∧
      b ≤ text.length ∧ e ≤ text.length

/-- the statement per feature -/
structure FeatFix (K : Consts) (ts : TypeSystem) (cass cass' : List Cas) (c' : Cas) (ci' : Nat) (H hpL : Heap)
    (L : List (Int × Nat)) (na : Int → Nat) (a a' : Nat) (isAnn : Bool) (o o' : Obj) (f : Feature) : Prop where
  coll : CollFeat K ts c' ci' hpL isAnn o' f
  render : renderFeature K ts cass' hpL a' isAnn f = renderFeature K ts cass H a isAnn f
  fwd : ∀ b', CT.FT K hpL o' f b' → ∃ q' ∈ L, b' = na q'.1
  bwd : ∀ b x, CT.FT K H o f b → (x, b) ∈ L → CT.FT K hpL o' f (na x)

section
variable {K : Consts} {ts : TypeSystem} {cass cass' : List Cas} {c c' : Cas} {ci ci' : Nat} {hp H hpL : Heap}
  {L : List (Int × Nat)} {na : Int → Nat} {ia : Int → String → Nat} {q : Int × Nat} {o o' : Obj} {t : TypeRec}
  {isAnn : Bool}

theorem Loc.ox (h : Loc K ts c ci H L na ia ci' hpL q o o' t) : o.xid = some q.1 := by
  have := (h.hL.ids q h.hq).1
  unfold xidOf at this; rw [h.ho] at this; exact this

/-- a target of the written structure is collected, and its loaded counterpart carries its id -/
theorem Loc.res (h : Loc K ts c ci H L na ia ci' hpL q o o' t) {b : Nat} (hb : Target K ts H q.2 b) :
    ∃ x, xidOf H b = some x ∧ (x, b) ∈ L ∧ xidOf hpL (na x) = some x ∧ x ≠ 0 := by
  obtain ⟨x, hx, hxl⟩ := h.hL.closed q h.hq b hb
  exact ⟨x, hx, hxl, h.hxid _ hxl, (h.hL.ids _ hxl).2⟩

theorem Loc.idOf (h : Loc K ts c ci H L na ia ci' hpL q o o' t) {x : Int} {b : Nat} (hx : (x, b) ∈ L) :
    xidOf H b = some x := (h.hL.ids _ hx).1

/-- a reference held by a feature that is not inlined -/
theorem Loc.ref (h : Loc K ts c ci H L na ia ci' hpL q o o' t) (hnd : (ctorFields t).Nodup) {f : Feature}
    (hf : f ∈ allFeatures t) (hni : isInline K f = false) {b : Nat} (hv : alistGet? o.slots f.name = some (.ref b)) :
    ∃ x, xidOf H b = some x ∧ (x, b) ∈ L ∧ xidOf hpL (na x) = some x ∧ x ≠ 0 ∧
      alistGet? o'.slots f.name = some (.ref (na x)) := by
  obtain ⟨x, hx, hxl, hx', hx0⟩ := h.res ⟨o, t, h.ho, h.ht, .inl ⟨f, hf, hni, hv⟩⟩
  refine ⟨x, hx, hxl, hx', hx0, ?_⟩
  rw [h.hslots _ _ hv]
  have hinl : inlineSlot K ts o f.name = false := (CF.inlineSlot_eq (K := K) h.ht hnd hf).trans hni
  simp only [E3c, hinl, Bool.false_eq_true, if_false, exp3, hx]

/-- the array inlined in a feature -/
theorem Loc.arrAt (h : Loc K ts c ci H L na ia ci' hpL q o o' t) (hnd : (ctorFields t).Nodup) {f : Feature}
    (hf : f ∈ allFeatures t) (hi : isInline K f = true) (ha : isArray K f.range = true) {cc : Nat} {ev : Val}
    (hv : alistGet? o.slots f.name = some (.ref cc)) (hev : slot H cc "elements" = some ev) :
    ∃ c' : Nat, alistGet? o'.slots f.name = some (.ref c') ∧ ArrAt hpL c' (elemsExp H na ev) := by
  have hinl : inlineSlot K ts o f.name = true := (CF.inlineSlot_eq (K := K) h.ht hnd hf).trans hi
  refine ⟨ia q.1 f.name, ?_, ?_⟩
  · rw [h.hslots _ _ hv, CF.E3c_inl o f.name cc q.1 hinl h.ox]
  · obtain ⟨t', f', ht', hf', hn', hdisj⟩ := h.hcolls q h.hq o h.ho f.name cc hv hinl
    rw [h.ht] at ht'; cases ht'
    have := CF.feat_unique hnd hf hf' hn'; subst this
    rcases hdisj with ⟨_, ev', hev', hat⟩ | ⟨hno, _⟩
    · rw [hev] at hev'; cases hev'
      exact hat
    · rw [ha] at hno; cases hno

/-- the list inlined in a feature -/
theorem Loc.listAt (h : Loc K ts c ci H L na ia ci' hpL q o o' t) (hnd : (ctorFields t).Nodup) {f : Feature}
    (hf : f ∈ allFeatures t) (hi : isInline K f = true) (ha : isArray K f.range = false) {cc : Nat} {hs : List Val}
    (hv : alistGet? o.slots f.name = some (.ref cc)) (hcl : collectList H (H.length + 1) (.ref cc) = .ok hs) :
    ∃ c' : Nat, alistGet? o'.slots f.name = some (.ref c') ∧ ListAt hpL c' (hs.map (headExp H na)) ∧
      collectList hpL (hpL.length + 1) (.ref c') = .ok (hs.map (headExp H na)) := by
  have hinl : inlineSlot K ts o f.name = true := (CF.inlineSlot_eq (K := K) h.ht hnd hf).trans hi
  obtain ⟨t', f', ht', hf', hn', hdisj⟩ := h.hcolls q h.hq o h.ho f.name cc hv hinl
  rw [h.ht] at ht'; cases ht'
  have := CF.feat_unique hnd hf hf' hn'; subst this
  rcases hdisj with ⟨hyes, _⟩ | ⟨_, hs', hcl', hat, hlen⟩
  · rw [ha] at hyes; cases hyes
  · rw [hcl] at hcl'; cases hcl'
    refine ⟨ia q.1 f'.name, ?_, hat, ?_⟩
    · rw [h.hslots _ _ hv, CF.E3c_inl o f'.name cc q.1 hinl h.ox]
    · exact collectList_listAt hat _ (by rw [List.length_map]; omega)

/-- `None` stays `None` -/
theorem Loc.none (h : Loc K ts c ci H L na ia ci' hpL q o o' t) {n : String}
    (hv : alistGet? o.slots n = some .none) : alistGet? o'.slots n = some .none := by
  rw [h.hslots _ _ hv]; rfl

theorem slot_at {hp : Heap} {a : Nat} {o : Obj} (ho : hp[a]? = some o) (n : String) :
    slot hp a n = alistGet? o.slots n := CF.slot_of n ho

/-! ### the sofa of an annotation, on both sides -/

theorem RCtx.annSofa (r : RCtx cass cass' c c' ci ci' hp H na isAnn o) : AnnSofa cass isAnn o := by
  intro h
  obtain ⟨vn, v, _, _, _, hs, hv, _⟩ := r.hann h
  exact ⟨ci, vn, v, hs, by rw [r.hc]; exact hv⟩

theorem RCtx.annSofa' (r : RCtx cass cass' c c' ci ci' hp H na isAnn o)
    (h : Loc K ts c ci H L na ia ci' hpL q o o' t) : AnnSofa cass' isAnn o' := by
  intro hA
  obtain ⟨vn, v, _, _, _, hs, hv, _⟩ := r.hann hA
  obtain ⟨v', hv', _⟩ := viewsRelL_get _ _ vn v r.hviews hv
  refine ⟨ci', vn, v', ?_, by rw [r.hc']; exact hv'⟩
  rw [h.hslots _ _ hs]; rfl

/-- the loaded annotation has its offsets inside the text of its sofa -/
theorem RCtx.ann' (r : RCtx cass cass' c c' ci ci' hp H na isAnn o)
    (h : Loc K ts c ci H L na ia ci' hpL q o o' t) (hA : isAnn = true) :
    ∃ (vn : String) (v : View) (text : List Nat) (b e : Nat),
      alistGet? o'.slots "sofa" = some (.sofa ci' vn) ∧ Cas.getViewRec c' vn = some v ∧ v.sofa.text = some text ∧
      alistGet? o'.slots "begin" = some (.int b) ∧ alistGet? o'.slots "end" = some (.int e) ∧
      b ≤ text.length ∧ e ≤ text.length := by
  obtain ⟨vn, v, text, b, e, hs, hv, ht, hb, he, hbl, hel⟩ := r.hann hA
  obtain ⟨v', hv', hvr⟩ := viewsRelL_get _ _ vn v r.hviews hv
  refine ⟨vn, v', text, b, e, ?_, hv', hvr.2.2.2.2.1.trans ht, ?_, ?_, hbl, hel⟩
  · rw [h.hslots _ _ hs]; rfl
  · rw [h.hslots _ _ hb]; rfl
  · rw [h.hslots _ _ he]; rfl

/-- the offset written for an integer slot is the same on both sides -/
theorem extInt_fix (r : RCtx cass cass' c c' ci ci' hp H na isAnn o)
    (h : Loc K ts c ci H L na ia ci' hpL q o o' t) {n : String} {i : Int}
    (hi : alistGet? o.slots n = some (.int i)) :
    extInt cass' isAnn o' n i = extInt cass isAnn o n i := by
  unfold extInt
  by_cases hcond : (isAnn && (n == "begin" || n == "end")) = true
  · rw [if_pos hcond, if_pos hcond]
    have hA : isAnn = true := by
      simp only [Bool.and_eq_true] at hcond
      exact hcond.1
    have hN : n = "begin" ∨ n = "end" := by
      simp only [Bool.and_eq_true, Bool.or_eq_true, beq_iff_eq] at hcond
      exact hcond.2
    obtain ⟨vn, v, text, b, e, hs, hv, ht, hb, he, hbl, hel⟩ := r.hann hA
    have hs' : alistGet? o'.slots "sofa" = some (.sofa ci' vn) := by rw [h.hslots _ _ hs]; rfl
    obtain ⟨v', hv', hvr⟩ := viewsRelL_get _ _ vn v r.hviews hv
    have hmem : (vn, v) ∈ c.views := alistGet?_mem _ _ _ hv
    have hconv : v.sofa.conv = some (Offsets.table text) := r.hwf.conv _ hmem text ht
    have hconv' : v'.sofa.conv = convOfText (some (docText text)) := by
      have := hvr.2.2.2.2.2.2.1
      simp only [ht, Option.map_some] at this
      exact this
    have hsc : ∀ cp ∈ text, Offsets.IsScalar cp := r.hwf.scalar _ hmem text ht
    have key : ∃ k : Nat, k ≤ text.length ∧ i = (k : Int) := by
      rcases hN with rfl | rfl
      · rw [hb] at hi; cases hi; exact ⟨b, hbl, rfl⟩
      · rw [he] at hi; cases hi; exact ⟨e, hel, rfl⟩
    obtain ⟨k, hk, rfl⟩ := key
    rw [hs, hs']
    simp only [r.hc, r.hc', Option.bind_some]
    have e1 : Cas.getViewRec c vn = some v := hv
    have e2 : Cas.getViewRec c' vn = some v' := hv'
    rw [e1, e2]
    simp only [hconv, hconv', Int.toNat_natCast, conv_p2e_eq text hsc k hk]
  · rw [if_neg hcond, if_neg hcond]

/-! ### flat features -/

theorem fix_flat (h : Loc K ts c ci H L na ia ci' hpL q o o' t)
    (r : RCtx cass cass' c c' ci ci' hp H na isAnn o) (hnd : (ctorFields t).Nodup) {f : Feature}
    (hf : f ∈ allFeatures t) (hflat : FlatFeat K ts c ci H isAnn o f) :
    FeatFix K ts cass cass' c' ci' H hpL L na q.2 (na q.1) isAnn o o' f := by
  have hflat0 := hflat
  obtain ⟨a1, a2, a3, a4, a5, a6, a7, a8, a9, a10, a11, v, hv, hd⟩ := hflat
  -- the loaded value
  have hv' : alistGet? o'.slots f.name = some (exp3 H na ci' v) := by
    rw [h.hslots _ _ hv]
    congr 1
    rcases hd with ⟨_, ⟨vn, rfl, _⟩ | ⟨rfl, _⟩⟩ |
      ⟨_, _, rfl | ⟨_, i, rfl⟩ | ⟨_, s, rfl⟩ | ⟨_, b, rfl⟩ | ⟨_, t', rfl⟩⟩ |
      ⟨_, _, hna, hnl, _, _, _, rfl | ⟨b, rfl, _⟩⟩
    all_goals first
      | rfl
      | (have hni := flat_ref_notInline hflat0 hv
         have hinl : inlineSlot K ts o f.name = false := (CF.inlineSlot_eq (K := K) h.ht hnd hf).trans hni
         simp only [E3c, hinl, Bool.false_eq_true, if_false])
  have refcase : ∀ b, v = .ref b → ∃ x, xidOf H b = some x ∧ (x, b) ∈ L ∧ xidOf hpL (na x) = some x ∧ x ≠ 0 := by
    intro b hb
    subst hb
    obtain ⟨x, h1, h2, h3, h4, _⟩ := h.ref hnd hf (flat_ref_notInline hflat0 hv) hv
    exact ⟨x, h1, h2, h3, h4⟩
  -- the loaded feature is flat
  have hflat' : FlatFeat K ts c' ci' hpL isAnn o' f := by
    refine ⟨a1, a2, a3, a4, a5, a6, a7, a8, a9, a10, a11, exp3 H na ci' v, hv', ?_⟩
    rcases hd with ⟨hn, hs⟩ | ⟨hn, hp, hs⟩ | ⟨hn, hp, ha, hl, hb1, hb2, hb3, hs⟩
    · left
      refine ⟨hn, ?_⟩
      rcases hs with ⟨vn, rfl, hsome⟩ | ⟨rfl, hA⟩
      · left
        refine ⟨vn, rfl, ?_⟩
        cases hg : Cas.getViewRec c vn with
        | none => rw [hg] at hsome; cases hsome
        | some w =>
          obtain ⟨w', hw', _⟩ := viewsRelL_get _ _ vn w r.hviews hg
          show (alistGet? c'.views vn).isSome = true
          rw [hw']
          rfl
      · right
        exact ⟨rfl, hA⟩
    · right; left
      refine ⟨hn, hp, ?_⟩
      rcases hs with rfl | ⟨hr, i, rfl⟩ | ⟨hr, s, rfl⟩ | ⟨hr, b, rfl⟩ | ⟨hr, t', rfl⟩
      · left; rfl
      · right; left; exact ⟨hr, i, rfl⟩
      · right; right; left; exact ⟨hr, s, rfl⟩
      · right; right; right; left; exact ⟨hr, b, rfl⟩
      · right; right; right; right; exact ⟨hr, t', rfl⟩
    · right; right
      refine ⟨hn, hp, ha, hl, hb1, hb2, hb3, ?_⟩
      rcases hs with rfl | ⟨b, rfl, hsome, hne0⟩
      · left; rfl
      · right
        obtain ⟨x, h1, _, h3, h4⟩ := refcase b rfl
        refine ⟨na x, ?_, ?_, ?_⟩
        · simp only [exp3, h1]
        · rw [h3]; rfl
        · rw [h3]
          intro he
          exact h4 (Option.some.inj he)
  -- the tokens
  have htok : flatTok cass' hpL isAnn o' f.name ((alistGet? o'.slots f.name).getD .none)
      = flatTok cass H isAnn o f.name ((alistGet? o.slots f.name).getD .none) := by
    rw [hv, hv']
    simp only [Option.getD_some]
    rcases hd with ⟨hn, hs⟩ | ⟨hn, hp, hs⟩ | ⟨hn, hp, ha, hl, hb1, hb2, hb3, hs⟩
    · rcases hs with ⟨vn, rfl, hsome⟩ | ⟨rfl, hA⟩
      · cases hg : Cas.getViewRec c vn with
        | none => rw [hg] at hsome; cases hsome
        | some w =>
          obtain ⟨w', hw', hvr⟩ := viewsRelL_get _ _ vn w r.hviews hg
          have e2 : Cas.getViewRec c' vn = some w' := hw'
          simp only [exp3, flatTok, r.hc, r.hc', Option.bind_some, hg, e2, Option.map_some]
          have : w'.sofa.xid = w.sofa.xid := hvr.2.2.1
          rw [this]
      · rfl
    · rcases hs with rfl | ⟨hr, i, rfl⟩ | ⟨hr, s, rfl⟩ | ⟨hr, b, rfl⟩ | ⟨hr, t', rfl⟩
      · rfl
      · simp only [exp3, flatTok]
        rw [extInt_fix r h hv]
      · rfl
      · rfl
      · rfl
    · rcases hs with rfl | ⟨b, rfl, hsome, hne0⟩
      · rfl
      · obtain ⟨x, h1, _, h3, _⟩ := refcase b rfl
        simp only [exp3, flatTok, h1, h3]
  refine ⟨.inl hflat', ?_, ?_, ?_⟩
  · rw [renderFeature_flat K ts cass' c' ci' hpL (na q.1) isAnn f o' r.hc' h.ho' hflat' (r.annSofa' h),
      renderFeature_flat K ts cass c ci H q.2 isAnn f o r.hc h.ho hflat0 r.annSofa, htok]
  · intro b' hb'
    rcases hb' with ⟨_, hb'⟩ | ⟨_, hr, _⟩ | ⟨_, hr, _⟩
    · rw [hv'] at hb'
      obtain ⟨bb, xb, rfl, hxb, rfl⟩ := exp3_ref (Option.some.inj hb')
      obtain ⟨x, h1, h2, _⟩ := refcase bb rfl
      rw [hxb] at h1; cases h1
      exact ⟨_, h2, rfl⟩
    · exact absurd hr a8
    · exact absurd hr a9
  · intro b x hb hx
    rcases hb with ⟨hni, hb⟩ | ⟨_, hr, _⟩ | ⟨_, hr, _⟩
    · rw [hv] at hb; cases hb
      refine Or.inl ⟨hni, ?_⟩
      rw [hv']
      simp only [exp3, h.idOf hx]
    · exact absurd hr a8
    · exact absurd hr a9

/-! ### shared collection features -/

theorem fix_shared (h : Loc K ts c ci H L na ia ci' hpL q o o' t)
    (r : RCtx cass cass' c c' ci ci' hp H na isAnn o) (hnd : (ctorFields t).Nodup) {f : Feature}
    (hf : f ∈ allFeatures t) (hname : NameOk f) (hsh : SharedFeat K ts H o f) :
    FeatFix K ts cass cass' c' ci' H hpL L na q.2 (na q.1) isAnn o o' f := by
  obtain ⟨hm, hal, hp, hb1, hb2, hb3, v, hv, hval⟩ := hsh
  have hni := CT.isInline_shared (K := K) hm
  rcases hval with rfl | ⟨b, rfl, hok⟩
  · have hv' := h.none hv
    refine ⟨.inr ⟨hname, .inl ⟨hm, hal, hp, hb1, hb2, hb3, .none, hv', .inl rfl⟩⟩, ?_, ?_, ?_⟩
    · rw [renderFeature_none K ts cass' hpL _ isAnn f hname.2.1 hname.2.2.1 (by rw [slot_at h.ho', hv']; rfl),
        renderFeature_none K ts cass H _ isAnn f hname.2.1 hname.2.2.1 (by rw [slot_at h.ho, hv]; rfl)]
    · intro b' hb'
      rcases hb' with ⟨_, hb'⟩ | ⟨hi, _⟩ | ⟨hi, _⟩
      · rw [hv'] at hb'; cases hb'
      · rw [hni] at hi; cases hi
      · rw [hni] at hi; cases hi
    · intro b x hb _
      rcases hb with ⟨_, hb⟩ | ⟨hi, _⟩ | ⟨hi, _⟩
      · rw [hv] at hb; cases hb
      · rw [hni] at hi; cases hi
      · rw [hni] at hi; cases hi
  · obtain ⟨x, h1, h2, h3, h4, hv'⟩ := h.ref hnd hf hni hv
    have hok' : RefOk hpL (na x) := refOk_new h3 h4
    refine ⟨.inr ⟨hname, .inl ⟨hm, hal, hp, hb1, hb2, hb3, .ref (na x), hv', .inr ⟨_, rfl, hok'⟩⟩⟩, ?_, ?_, ?_⟩
    · rw [CG1.render_shared_ref K ts cass' hpL _ isAnn f o' (na x) h.ho' hname hm hv' hok' hp ⟨hb1, hb2, hb3⟩
          (r.annSofa' h),
        CG1.render_shared_ref K ts cass H _ isAnn f o b h.ho hname hm hv hok hp ⟨hb1, hb2, hb3⟩ r.annSofa,
        idTok_new h1 h3]
    · intro b' hb'
      rcases hb' with ⟨_, hb'⟩ | ⟨hi, _⟩ | ⟨hi, _⟩
      · rw [hv'] at hb'; cases hb'
        exact ⟨_, h2, rfl⟩
      · rw [hni] at hi; cases hi
      · rw [hni] at hi; cases hi
    · intro b0 x0 hb hx0
      rcases hb with ⟨_, hb⟩ | ⟨hi, _⟩ | ⟨hi, _⟩
      · rw [hv] at hb; cases hb
        have := h.idOf hx0
        rw [h1] at this; cases this
        exact Or.inl ⟨hni, hv'⟩
      · rw [hni] at hi; cases hi
      · rw [hni] at hi; cases hi

end

end Cassis.Xmi.CFX
