/-
Helper lemmas for `Properties/C13Perm.lean.proposed` (competing supertypes on leaves), part XC: what a successful run of
the merge loop leaves behind.  `E` is the set of names declared with competing supertypes: they stay leaves, every other
name sits below its one declared supertype, and after a declaration `d` has been processed `d.super` is an ancestor
of `d.name` — and remains one.
-/
import CassisModel.Spec.MergePermCompete
import CassisModel.Proofs.MergePermC

namespace Cassis.TS

variable {E : String → Prop}

/-- record by record, `ts'` extends `ts`; only the names in `E` may change their supertype -/
def GrowX (E : String → Prop) (ts ts' : TypeSystem) : Prop :=
  ∀ x t, find? ts x = some t → ∃ t', find? ts' x = some t' ∧
    (¬ E x → t'.super = t.super) ∧ (∀ g ∈ eff t, g ∈ eff t')

theorem GrowX.refl (ts : TypeSystem) : GrowX E ts ts := fun _ t hx => ⟨t, hx, fun _ => rfl, fun _ h => h⟩

theorem GrowX.trans {a b c : TypeSystem} (h1 : GrowX E a b) (h2 : GrowX E b c) : GrowX E a c := by
  intro x t hx
  obtain ⟨t1, ht1, s1, e1⟩ := h1 x t hx
  obtain ⟨t2, ht2, s2, e2⟩ := h2 x t1 ht1
  exact ⟨t2, ht2, fun h => (s2 h).trans (s1 h), fun g hg => e2 g (e1 g hg)⟩

theorem GrowX.of_grow {K : Consts} {a b : TypeSystem} (h : Grow K a b) : GrowX E a b := by
  intro x t hx
  obtain ⟨t', ht', hs, _, ho, hi, _⟩ := h x t hx
  refine ⟨t', ht', fun _ => hs, ?_⟩
  intro g hg
  rcases List.mem_append.mp hg with hg | hg
  · exact List.mem_append_left _ (ho g hg)
  · exact List.mem_append_right _ (hi g hg)

theorem GrowX.reg {a b : TypeSystem} (h : GrowX E a b) (x : String) (hx : hasExact a x = true) :
    hasExact b x = true := by
  obtain ⟨t, ht⟩ := (hasExact_iff_find a x).mp hx
  obtain ⟨t', ht', _⟩ := h x t ht
  exact (hasExact_iff_find b x).mpr ⟨t', ht'⟩

theorem CovD.growX {a b : TypeSystem} {d : Decl} (h : CovD a d) (hg : GrowX E a b) : CovD b d := by
  obtain ⟨t, ht, hcov⟩ := h
  obtain ⟨t', ht', _, hsub⟩ := hg d.name t ht
  refine ⟨t', ht', ?_⟩
  intro f hf
  obtain ⟨g, hg, hgf⟩ := hcov f hf
  exact ⟨g, hsub g hg, hgf⟩

/-- `d` has been processed: its features are covered and its supertype is an ancestor -/
def DoneX (ts : TypeSystem) (d : Decl) : Prop := CovD ts d ∧ Anc ts d.super d.name

structure RInvX (K : Consts) (decls : List Decl) (E : String → Prop) (s : MState) : Prop where
  cons : Consistent s.ts
  feat : FeatInv s.ts
  pre : ∀ p, K.predefined.contains p = true → hasExact s.ts p = true
  mer : ∀ x ∈ s.merged, hasExact s.ts x = true
  sup : ∀ d ∈ decls, ¬ E d.name → ∀ t, find? s.ts d.name = some t →
    t.super = some d.super ∧ K.finalTypes.contains d.super = false
  leafE : ∀ n, E n → ∀ t, find? s.ts n = some t → t.children = []

/-- the conclusion of one step -/
def StepX (K : Consts) (decls : List Decl) (E : String → Prop) (s s' : MState) (d : Decl) : Prop :=
  RInvX K decls E s' ∧ GrowX E s.ts s'.ts ∧ (∀ a b, Anc s.ts a b → Anc s'.ts a b) ∧ DoneX s'.ts d

/-- a step that adds features to a registered name and leaves the tree alone -/
theorem runX_feats (K : Consts) (decls : List Decl) (s s' : MState) (d : Decl)
    (hi : RInvX K decls E s) (hu : K.predefined.contains d.name = false)
    (hmer : s'.merged = (if s.merged.contains d.name then s.merged else s.merged ++ [d.name]))
    (hx : hasExact s.ts d.name = true) (hanc : Anc s.ts d.super d.name)
    (hadd : addOwnFeatures s.ts d.name d.own = .ok s'.ts) : StepX K decls E s s' d := by
  obtain ⟨hc2, hf2, hg2, hcov⟩ := addOwnFeatures_run K d.name hu d.own s.ts s'.ts hi.cons hi.feat hx hadd
  obtain ⟨b2, k2⟩ := addOwn_frame s.ts s'.ts d.name d.own hi.cons hadd
  have hback : ∀ y t', find? s'.ts y = some t' → ∃ t, find? s.ts y = some t ∧ t'.children = t.children ∧
      t'.super = t.super := by
    intro y t' hy
    have : hasExact s.ts y = true := by rw [← b2 y]; exact (hasExact_iff_find _ _).mpr ⟨t', hy⟩
    obtain ⟨t, ht⟩ := (hasExact_iff_find _ _).mp this
    obtain ⟨t'', ht'', hk, hs⟩ := k2 y t ht
    rw [hy] at ht''; cases ht''
    exact ⟨t, ht, hk, hs⟩
  refine ⟨⟨hc2, hf2, fun p hp => hg2.reg p (hi.pre p hp), ?_, ?_, ?_⟩, GrowX.of_grow hg2,
    fun a b h => anc_grow hg2 h, hcov, anc_grow hg2 hanc⟩
  · intro x hx'
    rcases (mem_merged_step hmer x).mp hx' with h | rfl
    · exact hg2.reg x (hi.mer x h)
    · exact hg2.reg _ hx
  · intro d' hd' hE' t' ht'
    obtain ⟨t, ht, _, hs⟩ := hback d'.name t' ht'
    rw [hs]; exact hi.sup d' hd' hE' t ht
  · intro n hn t' ht'
    obtain ⟨t, ht, hk, _⟩ := hback n t' ht'
    rw [hk]; exact hi.leafE n hn t ht

/-- a name seen for the first time -/
theorem runX_new (K : Consts) (decls : List Decl)
    (E1 : ∀ d ∈ decls, ¬ E d.super)
    (E2 : ∀ d ∈ decls, ∀ d' ∈ decls, d.name = d'.name → ¬ E d.name → d.super = d'.super)
    (s s' : MState) (d : Decl)
    (hi : RInvX K decls E s) (hd : d ∈ decls) (hu : K.predefined.contains d.name = false)
    (hmer : s'.merged = (if s.merged.contains d.name then s.merged else s.merged ++ [d.name]))
    (hx : hasExact s.ts d.name = false) (hsup : hasExact s.ts d.super = true)
    (h : processDecl K s d = .ok s') : StepX K decls E s s' d := by
  obtain ⟨ts1, hct, hadd⟩ := processDecl_new_aux K s s' d hx h
  obtain ⟨sup, hsupf⟩ := (hasExact_iff_find _ _).mp hsup
  obtain ⟨hc1, hf1, hg1, hnf, ⟨tn, htn, htns⟩, hrest⟩ :=
    createType_run K s.ts ts1 d.name d.super d.descr sup hi.cons hi.feat hx hsupf hct
  obtain ⟨b1, ⟨tl, htl, hkl⟩, k1⟩ := create_frame K s.ts ts1 d.name d.super d.descr sup hi.cons hi.feat hx hsupf hct
  have hreg1 : hasExact ts1 d.name = true := (hasExact_iff_find _ _).mpr ⟨tn, htn⟩
  obtain ⟨hc2, hf2, hg2, hcov⟩ := addOwnFeatures_run K d.name hu d.own ts1 s'.ts hc1 hf1 hreg1 hadd
  obtain ⟨b2, k2⟩ := addOwn_frame ts1 s'.ts d.name d.own hc1 hadd
  have hg : Grow K s.ts s'.ts := hg1.trans hg2
  have hback : ∀ y t', find? s'.ts y = some t' → ∃ t1, find? ts1 y = some t1 ∧ t'.children = t1.children ∧
      t'.super = t1.super := by
    intro y t' hy
    have : hasExact ts1 y = true := by rw [← b2 y]; exact (hasExact_iff_find _ _).mpr ⟨t', hy⟩
    obtain ⟨t, ht⟩ := (hasExact_iff_find _ _).mp this
    obtain ⟨t'', ht'', hk, hs⟩ := k2 y t ht
    rw [hy] at ht''; cases ht''
    exact ⟨t, ht, hk, hs⟩
  have hanc : Anc s'.ts d.super d.name := by
    obtain ⟨t2, ht2, _, hs2⟩ := k2 d.name tn htn
    exact Anc.step _ _ _ t2 ht2 (by rw [hs2]; exact htns) (Anc.refl _ (hg.reg _ hsup))
  refine ⟨⟨hc2, hf2, fun p hp => hg.reg p (hi.pre p hp), ?_, ?_, ?_⟩, GrowX.of_grow hg,
    fun a b h => anc_grow hg h, hcov, hanc⟩
  · intro x hx'
    rcases (mem_merged_step hmer x).mp hx' with h | rfl
    · exact hg.reg x (hi.mer x h)
    · exact hg2.reg _ hreg1
  · intro d' hd' hE' t' ht'
    obtain ⟨t1, ht1, _, hs⟩ := hback d'.name t' ht'
    rw [hs]
    by_cases hn : d'.name = d.name
    · have hss : d'.super = d.super := E2 d' hd' d hd hn hE'
      rw [hn, htn] at ht1
      cases ht1
      rw [hss]; exact ⟨htns, hnf⟩
    · obtain ⟨t0, ht0, hs0⟩ := hrest d'.name hn t1 ht1
      rw [hs0]; exact hi.sup d' hd' hE' t0 ht0
  · intro n hn t' ht'
    obtain ⟨t1, ht1, hk, _⟩ := hback n t' ht'
    rw [hk]
    rcases b1 n ((hasExact_iff_find _ _).mpr ⟨t1, ht1⟩) with hreg | rfl
    · obtain ⟨t0, ht0⟩ := (hasExact_iff_find _ _).mp hreg
      obtain ⟨t1', ht1', hk1⟩ := k1 n t0 ht0 (fun e => E1 d hd (e ▸ hn))
      rw [ht1] at ht1'; cases ht1'
      rw [hk1]; exact hi.leafE n hn t0 ht0
    · rw [htl] at ht1; cases ht1
      exact hkl

/-- a movable leaf is moved from its present supertype `c` to the declared one below `c` -/
theorem runX_reparent (K : Consts) (decls : List Decl) (E1 : ∀ d ∈ decls, ¬ E d.super)
    (s s' : MState) (d : Decl) (hi : RInvX K decls E s) (hd : d ∈ decls) (hE : E d.name)
    (hu : K.predefined.contains d.name = false)
    (hmer : s'.merged = (if s.merged.contains d.name then s.merged else s.merged ++ [d.name]))
    (t : TypeRec) (he : find? s.ts d.name = some t) (c : String) (hts : t.super = some c)
    (hsup : hasExact s.ts d.super = true) (hne : d.super ≠ c) (hsub : subsumes s.ts c d.super = true)
    (ts1 : TypeSystem) (hrep : reparent s.ts d.name c d.super = .ok ts1)
    (hadd : addOwnFeatures ts1 d.name d.own = .ok s'.ts) : StepX K decls E s s' d := by
  have hleaf := hi.leafE d.name hE t he
  have hregn : hasExact s.ts d.name = true := (hasExact_iff_find _ _).mpr ⟨t, he⟩
  have hregc : hasExact s.ts c = true := hi.cons.superReg t (find?_mem he) c hts
  have hmax : Anc s.ts c d.super := (subsumes_iff_ancestor_aux s.ts hi.cons _ _ hregc hsup).mp hsub
  obtain ⟨hnot, ns, hns, _⟩ := reparent_ok s.ts ts1 _ _ _ hrep
  have hnanc : ¬ Anc s.ts d.name d.super := by
    intro ha
    have := (subsumes_iff_ancestor_aux s.ts hi.cons _ _ hregn hsup).mpr ha
    rw [hnot] at this; cases this
  have hxn : d.super ≠ d.name := fun e => hnanc (by rw [e]; exact Anc.refl _ hregn)
  have hcn : d.name ≠ c := by
    intro e
    exact not_anc_of_super hi.cons he hts (by rw [← e]; exact Anc.refl _ hregn)
  obtain ⟨t', ht', hs', hk', hown', hoth, hmono, _, _, _, _⟩ :=
    reparent_leaf s.ts ts1 d.name c d.super t ns hi.cons.nodup he hleaf hns hrep
  have hc1 : Consistent ts1 :=
    consistent_reparent s.ts ts1 d.name c d.super t hi.cons he (by rw [hts]; rfl) hne hrep
  have hf1 : FeatInv ts1 :=
    featInv_reparent_leaf s.ts ts1 d.name c d.super t ns hi.cons hi.feat hc1 he hleaf hts hns hmax hxn hrep
  have hgx1 : GrowX E s.ts ts1 := by
    intro y r hr
    by_cases hy : y = d.name
    · subst hy
      rw [he] at hr; cases hr
      refine ⟨t', ht', fun h => absurd hE h, ?_⟩
      intro g hg
      rcases List.mem_append.mp hg with hg | hg
      · exact List.mem_append_left _ (by rw [hown']; exact hg)
      · exact List.mem_append_right _ (hmono g hg)
    · refine ⟨relinkRec d.name c d.super r, by rw [hoth y hy, hr]; rfl, ?_, ?_⟩
      · intro _
        rw [relinkRec_super, if_neg (by rw [find?_name hr]; exact hy)]
      · intro g hg
        simpa only [eff, relinkRec_own, relinkRec_inh] using hg
  have hanc1 := anc_reparent_leaf s.ts ts1 d.name c d.super t t' hi.cons he hleaf hts hmax hxn ht' hs' hoth
  have hreg1 : hasExact ts1 d.name = true := (hasExact_iff_find _ _).mpr ⟨t', ht'⟩
  obtain ⟨hc2, hf2, hg2, hcov⟩ := addOwnFeatures_run K d.name hu d.own ts1 s'.ts hc1 hf1 hreg1 hadd
  obtain ⟨b2, k2⟩ := addOwn_frame ts1 s'.ts d.name d.own hc1 hadd
  have hgx : GrowX E s.ts s'.ts := hgx1.trans (GrowX.of_grow hg2)
  -- every record of the result against the record before the step
  have hback : ∀ y r', find? s'.ts y = some r' →
      (y = d.name ∧ r'.children = [] ∧ r'.super = some d.super) ∨
      (y ≠ d.name ∧ ∃ r0, find? s.ts y = some r0 ∧ r'.super = r0.super ∧
        r'.children = (relinkRec d.name c d.super r0).children) := by
    intro y r' hy
    have : hasExact ts1 y = true := by rw [← b2 y]; exact (hasExact_iff_find _ _).mpr ⟨r', hy⟩
    obtain ⟨r1, hr1⟩ := (hasExact_iff_find _ _).mp this
    obtain ⟨r'', hr'', hk, hs⟩ := k2 y r1 hr1
    rw [hy] at hr''; cases hr''
    by_cases hyn : y = d.name
    · left
      rw [hyn, ht'] at hr1; cases hr1
      exact ⟨hyn, by rw [hk, hk'], by rw [hs, hs']⟩
    · right
      rw [hoth y hyn] at hr1
      cases hr0 : find? s.ts y with
      | none => rw [hr0] at hr1; cases hr1
      | some r0 =>
        rw [hr0] at hr1
        simp only [Option.map_some, Option.some.injEq] at hr1
        subst hr1
        refine ⟨hyn, r0, rfl, ?_, hk⟩
        rw [hs, relinkRec_super, if_neg (by rw [find?_name hr0]; exact hyn)]
  have hanc : Anc s'.ts d.super d.name := by
    obtain ⟨t2, ht2, _, hs2⟩ := k2 d.name t' ht'
    exact Anc.step _ _ _ t2 ht2 (by rw [hs2, hs']) (Anc.refl _ (hgx.reg _ hsup))
  refine ⟨⟨hc2, hf2, fun p hp => hgx.reg p (hi.pre p hp), ?_, ?_, ?_⟩, hgx,
    fun a b h => anc_grow hg2 (hanc1 a b h), hcov, hanc⟩
  · intro x hx'
    rcases (mem_merged_step hmer x).mp hx' with h | rfl
    · exact hgx.reg x (hi.mer x h)
    · exact hg2.reg _ hreg1
  · intro d' hd' hE' r' hr'
    rcases hback d'.name r' hr' with ⟨hn, _, _⟩ | ⟨_, r0, hr0, hs, _⟩
    · exact absurd (hn ▸ hE) hE'
    · rw [hs]; exact hi.sup d' hd' hE' r0 hr0
  · intro n hn r' hr'
    rcases hback n r' hr' with ⟨_, hk, _⟩ | ⟨hyn, r0, hr0, _, hk⟩
    · exact hk
    · rw [hk]
      apply List.eq_nil_iff_forall_not_mem.mpr
      intro b hb
      rcases (relinkRec_children d.name c d.super r0 b hcn (fun e => hxn e.symm) (fun e => hne e.symm)).mp hb with
        ⟨h1, _⟩ | ⟨h1, _⟩
      · rw [hi.leafE n hn r0 hr0] at h1; cases h1
      · rw [find?_name hr0] at h1
        exact E1 d hd (h1 ▸ hn)

/-- one successful step of the loop -/
theorem processDecl_runX (K : Consts) (decls : List Decl) (htop : K.predefined.contains TOP = true)
    (E1 : ∀ d ∈ decls, ¬ E d.super)
    (E2 : ∀ d ∈ decls, ∀ d' ∈ decls, d.name = d'.name → ¬ E d.name → d.super = d'.super)
    (s s' : MState) (d : Decl)
    (hi : RInvX K decls E s) (hd : d ∈ decls) (hu : K.predefined.contains d.name = false)
    (hready : (K.predefined.contains d.super || s.merged.contains d.super) = true)
    (h : processDecl K s d = .ok s') : StepX K decls E s s' d := by
  have hsup : hasExact s.ts d.super = true := by
    rcases Bool.or_eq_true _ _ |>.mp hready with h | h
    · exact hi.pre _ h
    · exact hi.mer _ (by simpa using h)
  have hmer := (processDecl_ok K s s' d h).1
  cases hx : hasExact s.ts d.name with
  | false => exact runX_new K decls E1 E2 s s' d hi hd hu hmer hx hsup h
  | true =>
    obtain ⟨t, he⟩ := (hasExact_iff_find _ _).mp hx
    by_cases hE : E d.name
    · cases hts : t.super with
      | none =>
        exfalso
        have hn := hi.cons.onlyRoot t (find?_mem he) hts
        rw [find?_name he] at hn
        rw [hn, htop] at hu; cases hu
      | some c =>
        have hregc : hasExact s.ts c = true := hi.cons.superReg t (find?_mem he) c hts
        have hedge : Anc s.ts c d.name := Anc.step _ _ _ t he hts (Anc.refl _ hregc)
        rcases processDecl_ex_cases K s s' d t he h with ⟨hsame, hadd⟩ | ⟨hne, hsub, ts1, hrep, hadd⟩ |
          ⟨hne, _, hs2, hadd⟩
        · rw [hts] at hsame
          simp only [Option.getD_some] at hsame
          exact runX_feats K decls s s' d hi hu hmer hx (by rw [hsame]; exact hedge) hadd
        · rw [hts] at hne hsub hrep
          simp only [Option.getD_some] at hne hsub hrep
          exact runX_reparent K decls E1 s s' d hi hd hE hu hmer t he c hts hsup hne hsub ts1 hrep hadd
        · rw [hts] at hs2
          simp only [Option.getD_some] at hs2
          have h2 : Anc s.ts d.super c := (subsumes_iff_ancestor_aux s.ts hi.cons _ _ hsup hregc).mp hs2
          exact runX_feats K decls s s' d hi hu hmer hx (h2.trans hedge) hadd
    · have hss := (hi.sup d hd hE t he).1
      have hadd := processDecl_same_super_aux K s s' d t he hss h
      exact runX_feats K decls s s' d hi hu hmer hx
        (Anc.step _ _ _ t he hss (Anc.refl _ hsup)) hadd

/-- one successful pass; a pass that processes everything completes everything -/
theorem mergeRound_runX (K : Consts) (decls : List Decl) (htop : K.predefined.contains TOP = true)
    (E1 : ∀ d ∈ decls, ¬ E d.super)
    (E2 : ∀ d ∈ decls, ∀ d' ∈ decls, d.name = d'.name → ¬ E d.name → d.super = d'.super)
    (hu : ∀ d ∈ decls, K.predefined.contains d.name = false) :
    ∀ (ds : List Decl) (s s' : MState) (n n' : Nat), (∀ d ∈ ds, d ∈ decls) → RInvX K decls E s →
      mergeRound K ds s n = .ok (s', n') →
      RInvX K decls E s' ∧ GrowX E s.ts s'.ts ∧ (∀ a b, Anc s.ts a b → Anc s'.ts a b) ∧ n' ≤ n + ds.length ∧
        (n' = n + ds.length → ∀ d ∈ ds, DoneX s'.ts d) := by
  intro ds
  induction ds with
  | nil =>
    intro s s' n n' _ hi h
    simp only [mergeRound] at h
    cases h
    exact ⟨hi, GrowX.refl _, fun _ _ h => h, Nat.le_refl _, fun _ d hd => by cases hd⟩
  | cons d ds ih =>
    intro s s' n n' hsub hi h
    simp only [mergeRound] at h
    have hsub' : ∀ d' ∈ ds, d' ∈ decls := fun d' hd' => hsub d' (List.mem_cons_of_mem _ hd')
    split at h
    · rename_i hready
      split at h
      · cases h
      · rename_i s1 hp
        have hd := hsub d List.mem_cons_self
        obtain ⟨hi1, hg1, ha1, hcov1, hanc1⟩ :=
          processDecl_runX K decls htop E1 E2 s s1 d hi hd (hu d hd) hready hp
        obtain ⟨hi2, hg2, ha2, hle, hall⟩ := ih s1 s' (n + 1) n' hsub' hi1 h
        refine ⟨hi2, hg1.trans hg2, fun a b h => ha2 a b (ha1 a b h), by simp only [List.length_cons]; omega, ?_⟩
        intro hn x hx
        simp only [List.length_cons] at hn
        rcases List.mem_cons.mp hx with rfl | hx
        · exact ⟨hcov1.growX hg2, ha2 _ _ hanc1⟩
        · exact hall (by omega) x hx
    · obtain ⟨hi2, hg2, ha2, hle, hall⟩ := ih s s' n n' hsub' hi h
      refine ⟨hi2, hg2, ha2, by simp only [List.length_cons]; omega, ?_⟩
      intro hn
      simp only [List.length_cons] at hn
      omega

theorem mergeLoop_runX (K : Consts) (decls : List Decl) (htop : K.predefined.contains TOP = true)
    (E1 : ∀ d ∈ decls, ¬ E d.super)
    (E2 : ∀ d ∈ decls, ∀ d' ∈ decls, d.name = d'.name → ¬ E d.name → d.super = d'.super)
    (hu : ∀ d ∈ decls, K.predefined.contains d.name = false) :
    ∀ (fuel : Nat) (s s' : MState), RInvX K decls E s → mergeLoop K decls fuel s = .ok s' →
      RInvX K decls E s' ∧ GrowX E s.ts s'.ts ∧ ∀ d ∈ decls, DoneX s'.ts d := by
  intro fuel
  induction fuel with
  | zero => intro s s' _ h; simp only [mergeLoop] at h; cases h
  | succ fuel ih =>
    intro s s' hi h
    simp only [mergeLoop] at h
    split at h
    · cases h
    · rename_i s1 n hr
      obtain ⟨hi1, hg1, _, _, hall⟩ :=
        mergeRound_runX K decls htop E1 E2 hu decls s s1 0 n (fun _ hd => hd) hi hr
      split at h
      · rename_i hn
        cases h
        exact ⟨hi1, hg1, hall (by simpa using hn)⟩
      · obtain ⟨hi2, hg2, hall2⟩ := ih s1 s' hi1 h
        exact ⟨hi2, hg1.trans hg2, hall2⟩

end Cassis.TS
