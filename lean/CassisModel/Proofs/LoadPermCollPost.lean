/-
Element-order independence of the XMI reader on the whole format: the second pass (`postAll`) on the state after the
first pass over a PERMUTED document (`P1WP`).

The per-structure statements of the round-trip proof (`Post2Stmt`, `RoundTripCollStmts.lean`) are abstract in the two
tables; their proofs use the id table through lookups only (`gen_postP`, `arr_postP`: `gen_post` / `arr_post` with the
lookups as hypothesis) and the sofa table through `find?` by id only (`postFeatures_sofas_congr`).  The work list is
processed in an arbitrary order, the `cas:NULL` entry anywhere (`postAll_permC_aux`, cf. `LP.postAll_perm_aux`).
-/
import CassisModel.Proofs.LoadPermCollDefs
import CassisModel.Proofs.RoundTripCollAsm
import CassisModel.Proofs.RoundTripCollArr
import CassisModel.Proofs.RoundTripCollPostArr
import CassisModel.Proofs.RoundTripCollPostList
import CassisModel.Proofs.RoundTripCollPostGen

namespace Cassis.Xmi.LPC
open Cassis.TS Cassis.Traverse Cassis.Lex Cassis.Xmi Cassis.Xmi.LP

/-! ### the sofa table is used through `find?` by id only -/

theorem postFeature_sofas_congr (K : Consts) (ts : TypeSystem) (tsIdx ci : Nat) (sofas sofas' : List (Int × PSofa))
    (fss : List (Int × Nat)) (h : ∀ i : Int, sofas.find? (fun p => p.1 == i) = sofas'.find? (fun p => p.1 == i))
    (hp : Heap) (a : Nat) (ty : String) (b : Bool) (f : Feature) :
    postFeature K ts tsIdx ci sofas fss hp a ty b f = postFeature K ts tsIdx ci sofas' fss hp a ty b f := by
  unfold postFeature
  simp only [h]

theorem postFeatures_sofas_congr (K : Consts) (ts : TypeSystem) (tsIdx ci : Nat) (sofas sofas' : List (Int × PSofa))
    (fss : List (Int × Nat)) (h : ∀ i : Int, sofas.find? (fun p => p.1 == i) = sofas'.find? (fun p => p.1 == i))
    (a : Nat) (ty : String) (b : Bool) : ∀ (fs : List Feature) (hp : Heap),
    postFeatures K ts tsIdx ci sofas fss a ty b fs hp = postFeatures K ts tsIdx ci sofas' fss a ty b fs hp
  | [], _ => rfl
  | f :: fs, hp => by
    rw [postFeatures, postFeatures, postFeature_sofas_congr K ts tsIdx ci sofas sofas' fss h]
    cases postFeature K ts tsIdx ci sofas' fss hp a ty b f with
    | error e => rfl
    | ok hp' => exact postFeatures_sofas_congr K ts tsIdx ci sofas sofas' fss h a ty b fs hp'

theorem post2_sofas_congr {K : Consts} {ts : TypeSystem} {cass : List Cas} {H : Heap} {L : List (Int × Nat)}
    {na : Int → Nat} {tsIdx ci' : Nat} {sofas sofas' : List (Int × PSofa)} {fss : List (Int × Nat)} {P : Nat → Prop}
    (h : ∀ i : Int, sofas.find? (fun p => p.1 == i) = sofas'.find? (fun p => p.1 == i))
    (hpost : Post2Stmt K ts cass H L na tsIdx ci' sofas fss P) : Post2Stmt K ts cass H L na tsIdx ci' sofas' fss P := by
  intro q hq hP hpX o o1 ho ho1 hobj
  obtain ⟨t, hpY, hgt, hpf, hrest⟩ := hpost q hq hP hpX o o1 ho ho1 hobj
  refine ⟨t, hpY, hgt, ?_, hrest⟩
  rw [← postFeatures_sofas_congr K ts tsIdx ci' sofas sofas' fss h]
  exact hpf

/-! ### the per-structure statements with the id table used through its lookups -/

/-- second pass on a general structure (`gen_post` with the lookups as hypothesis) -/
theorem gen_postP (K : Consts) (ts : TypeSystem) (cass : List Cas) (ci : Nat) (c : Cas) (hp H : Heap)
    (L : List (Int × Nat)) (na : Int → Nat) (tsIdx ci' : Nat) (sofas : List (Int × PSofa)) (fss : List (Int × Nat))
    (hc : cass[ci]? = some c) (hwf : RTWf c hp) (hL : LOkC K ts c ci H L)
    (hsofas : sofas = c.views.map (fun nv => (nv.2.sofa.xid, psofaOf nv)))
    (hfss : ∀ q ∈ L, lookupFs fss q.1 = .ok (na q.1))
    (hI : PostInlineStmt K ts cass H na tsIdx ci' sofas fss (fun _ => True)) :
    Post2Stmt K ts cass H L na tsIdx ci' sofas fss (GenFs K ts c ci H) := by
  intro q hq hgen hpX o o1 ho ho1 hrel
  obtain ⟨o_, t, ho_, hfind, _, _, _, _, hty1, hty2, hsa, _, _, hnodup, hkeysT, hcf, _⟩ := hgen
  rw [ho] at ho_; cases ho_
  obtain ⟨hty, hxid, hkeys, hslots⟩ := hrel
  have hres : ∀ b, Target K ts H q.2 b → Resolves H fss na b := by
    intro b hb
    obtain ⟨x, hx, hxL⟩ := hL.closed q hq b hb
    exact ⟨x, hx, hfss _ hxL⟩
  obtain ⟨hpY, hpf, hext, o2, ho2, hrel2⟩ :=
    CGM.gen_features K ts cass ci c H na tsIdx ci' sofas fss hc hwf.names hwf.sofa_ids_nodup hsofas hI
      q.2 o t ho hfind hnodup hty1 hty2 hres hcf q.1 (na q.1) (allFeatures t) hnodup (fun _ h => h) hpX o1 ho1 hty hxid
      hkeys (by
        intro n v hv
        have hmem : n ∈ (allFeatures t).map (·.name) := by
          have h1 := rtp_alistGet?_key _ _ _ hv
          rw [hkeysT] at h1
          exact List.mem_eraseDups.1 h1
        obtain ⟨w, hw, hs⟩ := hslots n v hv
        exact ⟨w, hw, fun _ => hs, fun hn => absurd hmem hn⟩)
  refine ⟨t, hpY, ?_, ?_, hext, o2, ho2, hrel2⟩
  · rw [hty]; exact rtp_getType hfind
  · rw [hty, hsa]; exact hpf

/-- second pass on an array object (`arr_post` with the lookups as hypothesis) -/
theorem arr_postP (K : Consts) (ts : TypeSystem) (cass : List Cas) (ci : Nat) (c : Cas) (H : Heap)
    (L : List (Int × Nat)) (na : Int → Nat) (tsIdx ci' : Nat) (sofas : List (Int × PSofa)) (fss : List (Int × Nat))
    (hL : LOkC K ts c ci H L) (hfss : ∀ q ∈ L, lookupFs fss q.1 = .ok (na q.1)) :
    Post2Stmt K ts cass H L na tsIdx ci' sofas fss (ArrFs K ts H) := by
  intro q hq hP hpX o o1 hH h1 hobj1
  obtain ⟨o', t, f, ev, hH', hfind, htn, _, hfeat, hfn, hfr, _, hs, _, hcase⟩ := hP
  rw [hH] at hH'
  cases hH'
  obtain ⟨hty1, hxid1, hnames1, hslots1⟩ := hobj1
  obtain ⟨w, h2, hS⟩ := hslots1 "elements" ev (by rw [hs]; exact CAR.get_elems ev)
  have key : CAR.Key K ts tsIdx ci' sofas fss H na hpX (na q.1) o1.ty (isInstanceOf ts o1.ty STRING_ARRAY) f ev := by
    rw [hty1]
    rcases hcase with ⟨hty, hpa, hsa, hev⟩ | ⟨hty, hpa, hev⟩ | ⟨hty, hpa, hsa, hev⟩
    · rw [hty, hsa]
      refine CAR.key_fs K ts cass tsIdx ci' sofas fss H na hpX _ f o o1 ev w hfn hfr h1 h2 hty hpa ?_ hS
      rcases hev with rfl | ⟨l, rfl, _⟩
      · exact Or.inl rfl
      · refine Or.inr ⟨l, rfl, ?_⟩
        intro b hb
        have htg : Target K ts H q.2 b :=
          ⟨o, t, hH, hfind, Or.inr (Or.inr (Or.inr ⟨hty, l.map some, by rw [hs]; exact CAR.get_elems _,
            List.mem_map_of_mem hb⟩))⟩
        obtain ⟨x, hx, hmem⟩ := hL.closed q hq b htg
        exact ⟨x, hx, hfss _ hmem⟩
    · rw [hty, CAR.strArr_self]
      exact CAR.key_str K ts cass tsIdx ci' sofas fss H na hpX _ f o o1 ev w hfn h1 h2 hty hev hS
    · rw [hsa]
      exact CAR.key_prim K ts cass tsIdx ci' sofas fss H na hpX _ f o o1 ev w hfn hfr h1 h2 hty hpa hev hS
  obtain ⟨hpY, w', hpost, hstep, hw⟩ := key
  refine ⟨t, hpY, by rw [hty1]; exact rtp_getType hfind, ?_, ?_⟩
  · rw [hfeat]
    exact CAR.postFeatures_one K ts tsIdx ci' sofas fss _ _ _ f hpX hpY hpost
  · exact CAR.post_pack K ts cass H na ci' hpX hpY _ o o1 q.1 ev w' hs h1 hty1 hxid1 hnames1 hstep hw

/-- the per-structure statement of the second pass for the tables of a permuted document -/
theorem post2_permC (K : Consts) (ts : TypeSystem) (cass : List Cas) (ci : Nat) (c : Cas) (hp H : Heap)
    (L : List (Int × Nat)) (na : Int → Nat) (n0 : Nat) (tsIdx ci' : Nat) (p : Pass1)
    (hc : cass[ci]? = some c) (hwf : RTWf c hp) (hL : LOkC K ts c ci H L) (hp1 : P1WP c H L na n0 p) :
    Post2Stmt K ts cass H L na tsIdx ci' p.sofas p.fss (CollFs K ts c ci H) := by
  have hfss : ∀ q ∈ L, lookupFs p.fss q.1 = .ok (na q.1) := fun q hq => hp1.lookup (idsOk_of_lokC hL) hq
  apply post2_sofas_congr (sofas := c.views.map (fun nv => (nv.2.sofa.xid, psofaOf nv)))
    (fun i => (hp1.find_sofa_any hwf.sofa_ids_nodup i).symm)
  have hI : PostInlineStmt K ts cass H na tsIdx ci' (c.views.map (fun nv => (nv.2.sofa.xid, psofaOf nv))) p.fss
      (fun _ => True) := by
    intro a o t f h1 h2 h3 h4 h5 h6 _
    rcases inlineFeat_range' h6 with h | h
    · exact postInline_arr K ts cass H na tsIdx ci' _ p.fss a o t f h1 h2 h3 h4 h5 h6 h
    · exact postInline_list K ts cass H na tsIdx ci' _ p.fss a o t f h1 h2 h3 h4 h5 h6 h
  intro q hq hP
  rcases hP with hg | ha
  · exact gen_postP K ts cass ci c hp H L na tsIdx ci' _ p.fss hc hwf hL rfl hfss hI q hq hg
  · exact arr_postP K ts cass ci c H L na tsIdx ci' _ p.fss hL hfss q hq ha
where
  inlineFeat_range' {K : Consts} {ts : TypeSystem} {H : Heap} {o : Obj} {f : Feature}
      (h : InlineFeat K ts H o f) : ArrRange f ∨ ListRange f := by
    obtain ⟨_, v, _, hk⟩ := h
    rcases hk with ⟨h, _⟩ | ⟨h, _⟩ | ⟨h, _⟩ | ⟨h, _⟩ | ⟨h, _⟩ | ⟨h, _⟩ | ⟨h, _⟩
    · exact .inl (.inl h)
    · exact .inl (.inr (.inl h))
    · exact .inl (.inr (.inr h))
    · exact .inr (.inl h)
    · exact .inr (.inr (.inl h))
    · exact .inr (.inr (.inr (.inl h)))
    · exact .inr (.inr (.inr (.inr h)))

/-! ### all structures, in an arbitrary order -/

/-- the loop over an arbitrary work list: structures whose entry is still to come are in the state after the first
    pass (`Obj1`), the others in the state after the second pass (`Obj2`) -/
theorem postAll_permC_aux (K : Consts) (ts : TypeSystem) (cass : List Cas) (H : Heap)
    (L : List (Int × Nat)) (na : Int → Nat) (n0 : Nat) (tsIdx ci' : Nat) (sofas : List (Int × PSofa))
    (fss : List (Int × Nat)) (P : Nat → Prop) (hP : ∀ q ∈ L, P q.2)
    (hnull : NullOk ts) (hL : IdsOk L) (hna : NaOkP n0 L na)
    (hpost : Post2Stmt K ts cass H L na tsIdx ci' sofas fss P)
    (o0 : Obj) (hty0 : o0.ty = NULL_T) :
    ∀ (w : List (Int × Nat)), (∀ r ∈ w, FssEntry n0 L na r) → (w.map (·.1)).Nodup → ∀ (hpX : Heap),
      hpX[n0]? = some o0 →
      (∀ q ∈ L, ∃ (o o' : Obj), H[q.2]? = some o ∧ hpX[na q.1]? = some o' ∧
        (q.1 ∈ w.map (·.1) → Obj1 K ts cass H hpX o o' q.1) ∧
        (q.1 ∉ w.map (·.1) → Obj2 K ts cass H na ci' hpX o o' q.1)) →
      ∃ hpY, postAll K ts tsIdx ci' sofas fss w hpX = .ok hpY ∧ Frz hpX hpY ∧
        hpY[n0]? = hpX[n0]? ∧ HeapRelP H L na (Obj2 K ts cass H na ci' hpY) hpY := by
  obtain ⟨t0, hfind0, hfeat0⟩ := hnull
  intro w
  induction w with
  | nil =>
    intro _ _ hpX _ hinv
    refine ⟨hpX, ?_, Frz.refl _, rfl, ?_⟩
    · rw [postAll]
    · intro q hq
      obtain ⟨o, o', ho, ho', _, h2⟩ := hinv q hq
      exact ⟨o, o', ho, ho', h2 (by simp)⟩
  | cons r w ih =>
    intro hent hnodup hpX h0 hinv
    rw [List.map_cons, List.nodup_cons] at hnodup
    have hent' : ∀ r' ∈ w, FssEntry n0 L na r' := fun r' hr' => hent r' (List.mem_cons_of_mem _ hr')
    rcases hent r List.mem_cons_self with rfl | ⟨q0, hq0, rfl⟩
    · -- the `cas:NULL` entry: nothing happens
      have hstep := postAll_cons K ts tsIdx ci' sofas fss 0 n0 w hpX hpX o0 t0 h0
        (by rw [hty0]; exact rtp_getType hfind0) (by rw [hfeat0]; rfl)
      obtain ⟨hpY, hpa, hfrzY, h0Y, hrelY⟩ := ih hent' hnodup.2 hpX h0 (by
        intro q hq
        obtain ⟨o, o', ho, ho', h1, h2⟩ := hinv q hq
        have hq0 : q.1 ≠ 0 := hL.ne0 q hq
        refine ⟨o, o', ho, ho', fun hm => h1 ?_, fun hm => h2 ?_⟩
        · rw [List.map_cons]; exact List.mem_cons_of_mem _ hm
        · intro hm'
          rw [List.map_cons] at hm'
          rcases List.mem_cons.1 hm' with e | e
          · exact hq0 e
          · exact hm e)
      exact ⟨hpY, by rw [hstep]; exact hpa, hfrzY, h0Y, hrelY⟩
    · -- the entry of a collected structure
      obtain ⟨o, o1, ho, ho1, hE1, _⟩ := hinv q0 hq0
      have hobj1 : Obj1 K ts cass H hpX o o1 q0.1 := hE1 (by simp)
      obtain ⟨t, hp1, hgt, hpf, hext, o2, ho2, hobj2⟩ := hpost q0 hq0 (hP q0 hq0) hpX o o1 ho ho1 hobj1
      have hx1 : o1.xid ≠ none := by rw [hobj1.2.1]; exact fun h => by cases h
      have hfrz1 : Frz hpX hp1 := hext.frz ho1 hx1
      have hlt0 : n0 < hpX.length := (List.getElem?_eq_some_iff.mp h0).1
      have h01 : hp1[n0]? = hpX[n0]? := hext.2.1 n0 hlt0 (hna.ne0 q0 hq0)
      obtain ⟨hpY, hpa, hfrzY, h0Y, hrelY⟩ := ih hent' hnodup.2 hp1 (h01.trans h0) (by
        intro q hq
        by_cases hqq : q.1 = q0.1
        · have hqe : q = q0 := nodup_map_inj (fun q : Int × Nat => q.1) hL.nodup q hq q0 hq0 hqq
          subst hqe
          exact ⟨o, o2, ho, ho2, fun hm => absurd hm hnodup.1, fun _ => hobj2⟩
        · obtain ⟨p, p', hp_, hp', h1, h2⟩ := hinv q hq
          have hne : na q.1 ≠ na q0.1 := fun he => hqq (hna.inj q hq q0 hq0 he)
          have hlt' : na q.1 < hpX.length := (List.getElem?_eq_some_iff.mp hp').1
          refine ⟨p, p', hp_, by rw [hext.2.1 _ hlt' hne]; exact hp', fun hm => (h1 ?_).frz hfrz1,
            fun hm => (h2 ?_).frz hfrz1⟩
          · rw [List.map_cons]; exact List.mem_cons_of_mem _ hm
          · intro hm'
            rw [List.map_cons] at hm'
            rcases List.mem_cons.1 hm' with e | e
            · exact hqq e
            · exact hm e)
      refine ⟨hpY, ?_, hfrz1.trans hfrzY, h0Y.trans h01, hrelY⟩
      rw [postAll_cons K ts tsIdx ci' sofas fss q0.1 (na q0.1) w hpX hp1 o1 t ho1 hgt hpf]
      exact hpa

/-- the second pass on the state after the first pass over a permuted document -/
theorem postAll_permC (K : Consts) (ts : TypeSystem) (cass : List Cas) (ci : Nat) (c : Cas) (hp H : Heap)
    (L : List (Int × Nat)) (na : Int → Nat) (n0 : Nat) (tsIdx ci' : Nat) (p : Pass1)
    (hc : cass[ci]? = some c) (hwf : RTWf c hp) (hnull : NullOk ts) (hL : LOkC K ts c ci H L)
    (hna : NaOkP n0 L na) (hp1 : P1WP c H L na n0 p)
    (hrel : HeapRelP H L na (Obj1 K ts cass H p.heap) p.heap) :
    ∃ hp2 : Heap, postAll K ts tsIdx ci' p.sofas p.fss p.fss p.heap = .ok hp2 ∧ Frz p.heap hp2 ∧
      hp2[n0]? = p.heap[n0]? ∧ HeapRelP H L na (Obj2 K ts cass H na ci' hp2) hp2 := by
  obtain ⟨o0, ho0, hty0, _, _⟩ := hp1.null
  have hI := idsOk_of_lokC hL
  refine postAll_permC_aux K ts cass H L na n0 tsIdx ci' p.sofas p.fss _ hL.coll hnull hI hna
    (post2_permC K ts cass ci c hp H L na n0 tsIdx ci' p hc hwf hL hp1) o0 hty0
    p.fss hp1.fss_entry (hp1.fss_nodup hI) p.heap ho0 ?_
  intro q hq
  obtain ⟨o, o', ho, ho', hor⟩ := hrel q hq
  refine ⟨o, o', ho, ho', fun _ => hor, fun hm => absurd ?_ hm⟩
  exact List.mem_map.2 ⟨(q.1, na q.1), hp1.mem_fss hq, rfl⟩

end Cassis.Xmi.LPC
