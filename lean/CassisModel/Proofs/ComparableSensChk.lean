/-
Soundness of the Boolean checkers of `Spec/ComparableSens.lean`.
-/
import CassisModel.Spec.ComparableSens

namespace Cassis.Comparable
open Cassis.TS Cassis.Traverse

theorem fuelOkB_sound {need : Nat → Nat} {v : Val} {F : Nat} (h : fuelOkB need v F = true) : FuelOk need v F := by
  cases v <;> simp only [FuelOk] <;> try trivial
  case ref x => simpa [fuelOkB] using h
  case refs l =>
    simp only [fuelOkB, Bool.and_eq_true, decide_eq_true_eq, List.all_eq_true] at h
    refine ⟨h.1, fun e he => ?_⟩
    have := h.2 (some e) he
    simpa using this

theorem alistGet?_mem {β} (l : List (String × β)) (k : String) (v : β) (h : alistGet? l k = some v) :
    (k, v) ∈ l := by
  induction l with
  | nil => simp [alistGet?] at h
  | cons p rest ih =>
    obtain ⟨k', v'⟩ := p
    simp only [alistGet?] at h
    split at h
    · rename_i hk
      cases h
      rw [hk]
      exact List.mem_cons_self
    · exact List.mem_cons_of_mem _ (ih h)

theorem isArrayFs_oob {K : Consts} {hp : Heap} {x : Nat} (h2 : isArray K "" = false) (hx : hp.length ≤ x) :
    isArrayFs K hp x = false := by
  unfold isArrayFs tyOf
  rw [List.getElem?_eq_none hx]
  exact h2

theorem wellNested_of_check {K : Consts} {hp : Heap} {need : Nat → Nat} (h1 : ∀ x, 1 ≤ need x)
    (h2 : isArray K "" = false) (h3 : wellNestedB K hp need = true) : WellNested K hp need := by
  intro x
  refine ⟨h1 x, fun harr => ?_⟩
  rcases Nat.lt_or_ge x hp.length with hx | hx
  · unfold wellNestedB at h3
    rw [List.all_eq_true] at h3
    have := h3 x (List.mem_range.2 hx)
    rw [harr] at this
    simp only [Bool.not_true, Bool.false_or] at this
    split at this
    · rename_i v hv
      exact ⟨v, hv, fuelOkB_sound this⟩
    · cases this
  · rw [isArrayFs_oob h2 hx] at harr
    cases harr

theorem sofaOkB_sound {cass : List Cas} {hp : Heap} {a : Nat} (h : sofaOkB cass hp a = true) : SofaOk cass hp a := by
  unfold sofaOkB at h
  unfold SofaOk
  split at h
  · trivial
  · rename_i ci vn hs
    split at h
    · rename_i c hc
      cases hv : Cas.getViewRec c vn with
      | none => rw [hv] at h; cases h
      | some v => exact ⟨c, v, hc, hv⟩
    · cases h
  · cases h

theorem rowOkB_sound {K : Consts} {ts : TypeSystem} {cass : List Cas} {hp : Heap} {o : Opts} {need : Nat → Nat}
    {a : Nat} (h : rowOkB K ts cass hp o need a = true) : RowOk K ts cass hp o need a := by
  unfold rowOkB at h
  cases ht : getType ts (tyOf hp a) with
  | error e => rw [ht] at h; cases h
  | ok t =>
    rw [ht] at h
    simp only [Bool.and_eq_true] at h
    obtain ⟨⟨hsofa, hcov⟩, hrest⟩ := h
    refine ⟨⟨t, ht⟩, sofaOkB_sound hsofa, ?_, ?_, ?_⟩
    · intro t' ht' hflag hann
      rw [ht] at ht'
      have : t' = t := (Except.ok.inj ht').symm
      subst this
      rw [hflag, hann] at hcov
      simp only [Bool.and_self, Bool.not_true, Bool.false_or, Bool.and_eq_true, decide_eq_true_eq] at hcov
      obtain ⟨⟨hs, hb⟩, he⟩ := hcov
      refine ⟨?_, hb, he⟩
      split at hs
      · rename_i ci vn hs'
        exact ⟨ci, vn, hs'⟩
      · cases hs
    · intro harr
      rw [harr] at hrest
      simp only [if_true] at hrest
      split at hrest
      · rename_i v hv
        exact ⟨v, hv, fuelOkB_sound hrest⟩
      · cases hrest
    · intro harr n
      rw [harr] at hrest
      simp only [Bool.false_eq_true, if_false] at hrest
      unfold slot
      cases hob : hp[a]? with
      | none => simp only [Option.bind_none, Option.getD_none, FuelOk]
      | some ob =>
        rw [hob] at hrest
        simp only [Option.bind_some]
        cases hv : alistGet? ob.slots n with
        | none => simp only [Option.getD_none, FuelOk]
        | some v =>
          simp only [Option.getD_some]
          rw [List.all_eq_true] at hrest
          exact fuelOkB_sound (hrest (n, v) (alistGet?_mem _ _ _ hv))

end Cassis.Comparable
