/-
Round trip, layer 3 (`buildCas`), part B: the heap invariant of the third pass and what the primitive steps do to it.
-/
import CassisModel.Proofs.RoundTripBuildA
import CassisModel.Proofs.XmiOffsets
import CassisModel.Proofs.Cas

namespace Cassis.Xmi.RTB
open Cassis.TS Cassis.Traverse Cassis.Lex Cassis.Xmi

/-! ### expectations -/

theorem exp2_eq_exp3 (cass : List Cas) (H : Heap) (na : Int → Nat) (ci' : Nat) (isAnn : Bool) (o : Obj) (n : String)
    (v : Val) (h : (isAnn && (n == "begin" || n == "end")) = false) :
    exp2 cass H na ci' isAnn o n v = exp3 H na ci' v := by
  cases v <;> try rfl
  case int i =>
    unfold exp2 exp3 extInt
    simp only [h]
    rfl

theorem exp2_sofa (cass : List Cas) (H : Heap) (na : Int → Nat) (ci' : Nat) (isAnn : Bool) (o : Obj) (v : Val) :
    exp2 cass H na ci' isAnn o "sofa" v = exp3 H na ci' v :=
  exp2_eq_exp3 cass H na ci' isAnn o "sofa" v (by
    have : (("sofa" : String) == "begin" || ("sofa" : String) == "end") = false := by decide
    rw [this]; simp)

section
variable (ts : TypeSystem) (cass : List Cas) (H : Heap) (na : Int → Nat) (ci' : Nat)

/-- what slot `n` of the new object may hold (`w`) when the old object holds `v`; `C`: offsets already internal;
    `K`: the member's own sofa is on record (the slot then names the view the member was added to last) -/
def SlotOk (C K : Prop) (o : Obj) (n : String) (v w : Val) : Prop :=
  if n = "sofa" then (w = exp3 H na ci' v ∨ (K ∧ ∃ u, w = .sofa ci' u))
  else ((C → w = exp3 H na ci' v) ∧ (¬ C → w = E2 ts cass H na ci' o n v))

def ObjOk (C K : Prop) (o o' : Obj) (x : Int) : Prop :=
  o'.ty = o.ty ∧ o'.xid = some x ∧ o'.slots.map (·.1) = o.slots.map (·.1) ∧
  ∀ (n : String) (v : Val), alistGet? o.slots n = some v →
    ∃ w, alistGet? o'.slots n = some w ∧ SlotOk ts cass H na ci' C K o n v w

variable {ts cass H na ci'}

theorem ObjOk.mono {C K C' K' : Prop} {o o' : Obj} {x : Int} (h : ObjOk ts cass H na ci' C K o o' x)
    (hC : C ↔ C') (hK : K → K') : ObjOk ts cass H na ci' C' K' o o' x := by
  obtain ⟨h1, h2, h3, h4⟩ := h
  refine ⟨h1, h2, h3, fun n v hv => ?_⟩
  obtain ⟨w, hw, hs⟩ := h4 n v hv
  refine ⟨w, hw, ?_⟩
  unfold SlotOk at hs ⊢
  split
  · rename_i hn
    rw [if_pos hn] at hs
    rcases hs with hs | ⟨k, hu⟩
    · exact Or.inl hs
    · exact Or.inr ⟨hK k, hu⟩
  · rename_i hn
    rw [if_neg hn] at hs
    exact ⟨fun c => hs.1 (hC.mpr c), fun c => hs.2 (fun c' => c (hC.mp c'))⟩

theorem ObjOk.nonann {C K C' : Prop} {o o' : Obj} {x : Int} (h : ObjOk ts cass H na ci' C K o o' x)
    (hann : isInstanceOf ts o.ty ANNOTATION = false) : ObjOk ts cass H na ci' C' K o o' x := by
  obtain ⟨h1, h2, h3, h4⟩ := h
  refine ⟨h1, h2, h3, fun n v hv => ?_⟩
  obtain ⟨w, hw, hs⟩ := h4 n v hv
  refine ⟨w, hw, ?_⟩
  unfold SlotOk at hs ⊢
  split
  · rename_i hn
    rw [if_pos hn] at hs
    exact hs
  · rename_i hn
    rw [if_neg hn] at hs
    have e : E2 ts cass H na ci' o n v = exp3 H na ci' v := by
      unfold E2
      apply exp2_eq_exp3
      rw [hann]; rfl
    rw [e] at hs ⊢
    have hw' : w = exp3 H na ci' v := by
      by_cases c : C
      · exact hs.1 c
      · exact hs.2 c
    exact ⟨fun _ => hw', fun _ => hw'⟩

/-- slots present in the new object are present in the old one -/
theorem ObjOk.old_slot {C K : Prop} {o o' : Obj} {x : Int} (h : ObjOk ts cass H na ci' C K o o' x) {n : String}
    (hn : (alistGet? o'.slots n).isSome = true) : ∃ v, alistGet? o.slots n = some v := by
  have : (alistGet? o.slots n).isSome = true := by
    rw [aget_isSome_iff] at hn ⊢
    rw [← h.2.2.1]; exact hn
  exact Option.isSome_iff_exists.mp this

theorem ObjOk.none_slot {C K : Prop} {o o' : Obj} {x : Int} (h : ObjOk ts cass H na ci' C K o o' x) {n : String}
    (hn : alistGet? o.slots n = none) : alistGet? o'.slots n = none := by
  rw [aget_none_iff] at hn ⊢
  rw [h.2.2.1]; exact hn

/-- the step of `Cas.add` -/
theorem ObjOk.add {C K K' : Prop} {o o' : Obj} {x : Int} (h : ObjOk ts cass H na ci' C K o o' x) (hd : Handle)
    (hK : K → K') (hK' : (alistGet? o'.slots "sofa").isSome = true → K') :
    ObjOk ts cass H na ci' C K' o (Cas.addObj ci' hd o' x) x := by
  obtain ⟨h1, h2, h3, h4⟩ := h
  unfold Cas.addObj
  by_cases hs : (alistGet? o'.slots "sofa").isSome = true
  · simp only [hs, if_true]
    refine ⟨h1, rfl, ?_, fun n v hv => ?_⟩
    · show (alistSet o'.slots "sofa" _).map (·.1) = _
      rw [aset_keys _ _ _ ((aget_isSome_iff _ _).mp hs)]; exact h3
    · obtain ⟨w, hw, hso⟩ := h4 n v hv
      show ∃ w, alistGet? (alistSet o'.slots "sofa" _) n = some w ∧ _
      rw [aget_set]
      by_cases hn : n = "sofa"
      · rw [if_pos hn]
        refine ⟨_, rfl, ?_⟩
        unfold SlotOk
        rw [if_pos hn]
        exact Or.inr ⟨hK' hs, _, rfl⟩
      · rw [if_neg hn]
        refine ⟨w, hw, ?_⟩
        unfold SlotOk at hso ⊢
        rw [if_neg hn] at hso ⊢
        exact hso
  · simp only [hs]
    exact ObjOk.mono (C := C) (K := K) ⟨h1, rfl, h3, h4⟩ Iff.rfl hK

/-- the step of `rehome` -/
theorem ObjOk.rehome {C K K' : Prop} {o o' : Obj} {x : Int} (h : ObjOk ts cass H na ci' C K o o' x) {v : Val}
    (hv : alistGet? o.slots "sofa" = some v) :
    ObjOk ts cass H na ci' C K' o { o' with slots := alistSet o'.slots "sofa" (exp3 H na ci' v) } x := by
  obtain ⟨h1, h2, h3, h4⟩ := h
  have hs : "sofa" ∈ o'.slots.map (·.1) := by
    rw [h3, ← aget_isSome_iff, hv]; rfl
  refine ⟨h1, h2, ?_, fun n v' hv' => ?_⟩
  · show (alistSet o'.slots "sofa" _).map (·.1) = _
    rw [aset_keys _ _ _ hs]; exact h3
  · obtain ⟨w, hw, hso⟩ := h4 n v' hv'
    show ∃ w, alistGet? (alistSet o'.slots "sofa" _) n = some w ∧ _
    rw [aget_set]
    by_cases hn : n = "sofa"
    · rw [if_pos hn]
      refine ⟨_, rfl, ?_⟩
      unfold SlotOk
      rw [if_pos hn]
      subst hn
      rw [hv] at hv'
      cases hv'
      exact Or.inl rfl
    · rw [if_neg hn]
      refine ⟨w, hw, ?_⟩
      unfold SlotOk at hso ⊢
      rw [if_neg hn] at hso ⊢
      exact hso

/-- the step of `convertOffsets` on an annotation whose old offsets are `bI`, `eI` -/
theorem ObjOk.convert {C K C' : Prop} {o o' : Obj} {x : Int} (h : ObjOk ts cass H na ci' C K o o' x) (hC : ¬ C)
    (hC' : C')
    {bI eI : Int} (hb : alistGet? o.slots "begin" = some (.int bI)) (he : alistGet? o.slots "end" = some (.int eI)) :
    ObjOk ts cass H na ci' C' K o
      { o' with slots := alistSet (alistSet o'.slots "begin" (.int bI)) "end" (.int eI) } x := by
  obtain ⟨h1, h2, h3, h4⟩ := h
  have hsb : "begin" ∈ o'.slots.map (·.1) := by
    rw [h3, ← aget_isSome_iff, hb]; rfl
  have hse : "end" ∈ o'.slots.map (·.1) := by
    rw [h3, ← aget_isSome_iff, he]; rfl
  have k1 : (alistSet o'.slots "begin" (Val.int bI)).map (·.1) = o'.slots.map (·.1) := aset_keys _ _ _ hsb
  refine ⟨h1, h2, ?_, fun n v hv => ?_⟩
  · show (alistSet (alistSet o'.slots "begin" _) "end" _).map (·.1) = _
    rw [aset_keys _ _ _ (k1 ▸ hse), k1]; exact h3
  · obtain ⟨w, hw, hso⟩ := h4 n v hv
    show ∃ w, alistGet? (alistSet (alistSet o'.slots "begin" _) "end" _) n = some w ∧ _
    rw [aget_set, aget_set]
    by_cases hne : n = "end"
    · rw [if_pos hne]
      refine ⟨_, rfl, ?_⟩
      subst hne
      rw [he] at hv; cases hv
      unfold SlotOk
      rw [if_neg (by decide)]
      exact ⟨fun _ => rfl, fun c => (c hC').elim⟩
    · rw [if_neg hne]
      by_cases hnb : n = "begin"
      · rw [if_pos hnb]
        refine ⟨_, rfl, ?_⟩
        subst hnb
        rw [hb] at hv; cases hv
        unfold SlotOk
        rw [if_neg (by decide)]
        exact ⟨fun _ => rfl, fun c => (c hC').elim⟩
      · rw [if_neg hnb]
        refine ⟨w, hw, ?_⟩
        unfold SlotOk at hso ⊢
        by_cases hns : n = "sofa"
        · rw [if_pos hns] at hso ⊢; exact hso
        · rw [if_neg hns] at hso ⊢
          refine ⟨fun _ => ?_, fun c => (c hC').elim⟩
          rw [hso.2 hC]
          unfold E2
          apply exp2_eq_exp3
          have e1 : (n == "begin") = false := by simpa using hnb
          have e2 : (n == "end") = false := by simpa using hne
          rw [e1, e2]; simp

end

/-! ### the heap invariant -/

section
variable (ts : TypeSystem) (cass : List Cas) (H : Heap) (L : List (Int × Nat)) (na : Int → Nat) (ci' : Nat)

def HInv (Cp Kp : Int → Prop) (hp : Heap) : Prop :=
  ∀ q ∈ L, ∃ (o o' : Obj), H[q.2]? = some o ∧ hp[na q.1]? = some o' ∧
    ObjOk ts cass H na ci' (Cp q.1) (Kp q.1) o o' q.1

variable {ts cass H L na ci'}

theorem addr_unique (hnd : (L.map (·.1)).Nodup) {x : Int} {a a' : Nat} (h : (x, a) ∈ L) (h' : (x, a') ∈ L) :
    a = a' := by
  induction L with
  | nil => cases h
  | cons p rest ih =>
    simp only [List.map_cons, List.nodup_cons] at hnd
    rcases List.mem_cons.mp h with e | hr
    · rcases List.mem_cons.mp h' with e' | hr'
      · rw [← e] at e'; cases e'; rfl
      · exact absurd (List.mem_map.mpr ⟨(x, a'), hr', rfl⟩) (by rw [← e] at hnd; exact hnd.1)
    · rcases List.mem_cons.mp h' with e' | hr'
      · exact absurd (List.mem_map.mpr ⟨(x, a), hr, rfl⟩) (by rw [← e'] at hnd; exact hnd.1)
      · exact ih hnd.2 hr hr'

theorem HInv.mono {Cp Kp Cp' Kp' : Int → Prop} {hp : Heap} (h : HInv ts cass H L na ci' Cp Kp hp)
    (hC : ∀ q ∈ L, (Cp q.1 ↔ Cp' q.1)) (hK : ∀ q ∈ L, Kp q.1 → Kp' q.1) : HInv ts cass H L na ci' Cp' Kp' hp := by
  intro q hq
  obtain ⟨o, o', ho, ho', hr⟩ := h q hq
  exact ⟨o, o', ho, ho', hr.mono (hC q hq) (hK q hq)⟩

/-- one object is replaced -/
theorem HInv.step (hna : NaOk H.length L na) (hnd : (L.map (·.1)).Nodup) {Cp Kp Cp' Kp' : Int → Prop} {hp : Heap}
    (h : HInv ts cass H L na ci' Cp Kp hp) {m : Int} {am : Nat} (hm : (m, am) ∈ L) {o o' o1 : Obj}
    (ho : H[am]? = some o) (ho' : hp[na m]? = some o')
    (h1 : ObjOk ts cass H na ci' (Cp' m) (Kp' m) o o1 m)
    (hC : ∀ q ∈ L, q.1 ≠ m → (Cp q.1 ↔ Cp' q.1)) (hK : ∀ q ∈ L, q.1 ≠ m → Kp q.1 → Kp' q.1) :
    HInv ts cass H L na ci' Cp' Kp' (hp.set (na m) o1) := by
  intro q hq
  by_cases hqm : q.1 = m
  · obtain ⟨x, a⟩ := q
    simp only at hqm
    subst hqm
    have : a = am := addr_unique hnd hq hm
    subst this
    exact ⟨o, o1, ho, set_get_self ho', h1⟩
  · obtain ⟨p, p', hp1, hp2, hr⟩ := h q hq
    have hne : na m ≠ na q.1 := fun e => hqm (hna.inj q hq (m, am) hm e.symm)
    refine ⟨p, p', hp1, ?_, hr.mono (hC q hq hqm) (hK q hq hqm)⟩
    rw [set_get_ne hne]; exact hp2

end

/-! ### what the primitive operations compute -/

def cvI (conv : Offsets.Conv) (i : Int) : Int :=
  if i < 0 then i else (Offsets.externalToPython conv i.toNat : Nat)

theorem convertOffsets_eq (conv : Offsets.Conv) {hp : Heap} {a : Nat} {o : Obj} {bx ex : Int} (ha : hp[a]? = some o)
    (hb : alistGet? o.slots "begin" = some (.int bx)) (he : alistGet? o.slots "end" = some (.int ex)) :
    convertOffsets conv hp a =
      .ok (hp.set a { o with slots := alistSet (alistSet o.slots "begin" (.int (cvI conv bx))) "end" (.int (cvI conv ex)) }) := by
  have hne : ("end" : String) ≠ "begin" := by decide
  let o1 : Obj := { o with slots := alistSet o.slots "begin" (.int (cvI conv bx)) }
  have h1 : (hp.set a o1)[a]? = some o1 := set_get_self ha
  have hse1 : alistGet? o1.slots "end" = some (.int ex) := by
    show alistGet? (alistSet o.slots "begin" _) "end" = _
    rw [alistGet?_set_other _ _ _ _ hne, he]
  unfold convertOffsets
  have s1 : slot hp a "begin" = some (.int bx) := by
    show (hp[a]?).bind _ = _
    rw [ha]; exact hb
  simp only [bind, Except.bind]
  rw [s1]
  dsimp only
  rw [setSlot_existing _ ha hb]
  dsimp only
  have s2 : slot (hp.set a o1) a "end" = some (.int ex) := by
    show ((hp.set a o1)[a]?).bind _ = _
    rw [h1]; exact hse1
  show (match slot (hp.set a o1) a "end" with | some v => _ | none => _) = _
  rw [s2]
  dsimp only
  show Heap.setSlot (hp.set a o1) a "end" (.int (cvI conv ex)) = _
  rw [setSlot_existing _ h1 hse1, List.set_set]

theorem cvI_restores (t : List Nat) (hs : ∀ c ∈ t, Offsets.IsScalar c) (i : Nat) (hi : i ≤ t.length) :
    cvI (convOfText (some (docText t))) ((Offsets.pythonToExternal (some (Offsets.table t)) i : Nat) : Int) = i := by
  unfold cvI
  rw [cv_nat]
  have := xmi_offset_roundtrip_aux t hs i hi
  have e : Offsets.createMapping none (some t) = some (Offsets.table t) := rfl
  rw [e] at this
  rw [this]

theorem add_eq (ts : TypeSystem) (ci : Nat) (c : Cas) {hp : Heap} (h : Handle) {a : Nat} {o : Obj} {v : View} {x : Int}
    {e : Index.Entry} (ho : hp[a]? = some o) (hct : containsType ts o.ty = true)
    (hv : Cas.getViewRec c h.view = some v) (hx : o.xid = some x)
    (he : Cas.entryOf (Cas.addObj ci h o x) a = .ok e)
    (hk : (Index.get v.idx o.ty).any
      (fun y => decide (y.b = Index.NONE_KEY) != decide (e.b = Index.NONE_KEY)) = false) :
    Cas.add ts ci c hp h a true =
      .ok (Cas.setViewRec c h.view { v with idx := Index.add v.idx o.ty e }, hp.set a (Cas.addObj ci h o x)) := by
  unfold Cas.add
  simp only [bind, Except.bind, pure, Except.pure]
  rw [ho]
  dsimp only
  rw [hct]
  simp only [Bool.not_true, Bool.and_false, Bool.false_eq_true, if_false]
  rw [Cas.cur_of_get hv]
  dsimp only
  rw [hx]
  dsimp only
  unfold Cas.addObj at he
  rw [he]
  dsimp only
  rw [hk]
  rfl

theorem containsType_of_find {ts : TypeSystem} {n : String} {t : TypeRec} (h : find? ts n = some t) :
    containsType ts n = true := by
  unfold containsType
  split
  · unfold hasExact; rw [h]; rfl
  · unfold getType; rw [h]

end Cassis.Xmi.RTB
