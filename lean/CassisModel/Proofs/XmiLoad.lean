/-
Helper lemmas about the first pass of the XMI reader (`Model/Xmi.lean`, `pass1`) and the id-keyed
lookups of both loaders, used by `Properties/C17.lean` and `Properties/C05.lean`.
-/
import CassisModel.Model.Xmi
import CassisModel.Model.Json
import CassisModel.Proofs.GetTypeExact

namespace Cassis.Xmi
open Cassis.TS Cassis.Lex

/-! ### never `typeNotFound` -/

structure NoTnf {α} (x : Except Err α) : Prop where
  ne : x ≠ .error .typeNotFound

theorem NoTnf.ok {α} (a : α) : NoTnf (Except.ok a : Except Err α) := ⟨by intro h; cases h⟩

theorem NoTnf.pure {α} (a : α) : NoTnf (Pure.pure a : Except Err α) := ⟨by intro h; cases h⟩

theorem NoTnf.err {α} (e : Err) (h : e ≠ .typeNotFound) : NoTnf (Except.error e : Except Err α) :=
  ⟨by intro h'; cases h'; exact h rfl⟩

theorem NoTnf.throw {α} (e : Err) (h : e ≠ .typeNotFound) : NoTnf (throw e : Except Err α) :=
  ⟨by intro h'; cases h'; exact h rfl⟩

theorem NoTnf.bind {α β} {x : Except Err α} {f : α → Except Err β}
    (hx : NoTnf x) (hf : ∀ a, NoTnf (f a)) : NoTnf (x >>= f) := by
  cases x with
  | error e => exact ⟨by intro h; apply hx.ne; cases h; rfl⟩
  | ok a => exact hf a

theorem NoTnf.map {α β} {x : Except Err α} (f : α → β) (hx : NoTnf x) : NoTnf (x.map f) := by
  cases x with
  | error e => exact ⟨by intro h; apply hx.ne; cases h; rfl⟩
  | ok a => exact ⟨by intro h; cases h⟩

theorem NoTnf.mapM {α β} (f : α → Except Err β) (hf : ∀ a, NoTnf (f a)) (l : List α) : NoTnf (l.mapM f) := by
  induction l with
  | nil => rw [List.mapM_nil]; exact NoTnf.pure _
  | cons a l ih =>
    rw [List.mapM_cons]
    exact NoTnf.bind (hf a) (fun b => NoTnf.bind ih (fun bs => NoTnf.pure _))

theorem NoTnf.foldlM {α β} (f : β → α → Except Err β) (hf : ∀ b a, NoTnf (f b a)) (l : List α) (b : β) :
    NoTnf (l.foldlM f b) := by
  induction l generalizing b with
  | nil => rw [List.foldlM_nil]; exact NoTnf.pure _
  | cons a l ih =>
    rw [List.foldlM_cons]
    exact NoTnf.bind (hf b a) (fun b' => ih b')

theorem parseIntE_noTnf (s : String) : NoTnf (parseIntE s) := by
  unfold parseIntE
  split
  · exact NoTnf.ok _
  · exact NoTnf.err _ (by decide)

theorem construct_noTnf (t : TypeRec) (tsIdx : Nat) (xid : Option Int) (kw : List (String × Val)) :
    NoTnf (construct t tsIdx xid kw) := by
  unfold construct
  simp only []
  split
  · exact NoTnf.err _ (by decide)
  · exact NoTnf.ok _

macro "notnf_step" : tactic => `(tactic| first
  | exact NoTnf.pure _ | exact NoTnf.ok _ | exact NoTnf.err _ (by decide) | exact NoTnf.throw _ (by decide)
  | exact parseIntE_noTnf _ | exact NoTnf.map _ (parseIntE_noTnf _) | exact construct_noTnf _ _ _ _
  | intro _
  | refine NoTnf.bind ?_ ?_
  | apply NoTnf.mapM
  | apply NoTnf.foldlM
  | split
  | dsimp only)

theorem buildPrimList_noTnf (hp : Heap) (tsIdx : Nat) (rn : String) (elems : List (Option String)) :
    NoTnf (buildPrimList hp tsIdx rn elems) := by
  unfold buildPrimList
  repeat' notnf_step

theorem parseFsElem_noTnf (K : Consts) (ts : TypeSystem) (tsIdx : Nat) (hp : Heap) (e : XElem) (t : TypeRec)
    (ht : getTypeExact ts e.ty = .ok t) : NoTnf (parseFsElem K ts tsIdx hp e) := by
  unfold parseFsElem
  rw [ht]
  repeat' (first | exact buildPrimList_noTnf _ _ _ _ | notnf_step)


theorem parseFsElem_getType_error (K : Consts) (ts : TypeSystem) (tsIdx : Nat) (hp : Heap) (e : XElem) (err : Err)
    (ht : getTypeExact ts e.ty = .error err) : parseFsElem K ts tsIdx hp e = .error err := by
  simp only [parseFsElem, bind, Except.bind]
  rw [ht]

theorem getType_error (ts : TypeSystem) (n : String) (err : Err) (h : getType ts n = .error err) :
    err = .typeNotFound := by
  unfold getType at h
  split at h
  · cases h
  · split at h
    · cases h; rfl
    · split at h
      · cases h
      · cases h; rfl

/-! ### one step of the first pass -/

def knownElemL (ts : TypeSystem) (e : XElem) : Bool :=
  e.ty == SOFA || e.ty == VIEW_T || (find? ts e.ty).isSome

def lenIds (e : XElem) : List Int := match (attr e ID).bind parseInt with | some i => [i] | none => []

def step1 (K : Consts) (ts : TypeSystem) (tsIdx : Nat) (lenient : Bool) (e : XElem) (s : Pass1) : Except Err Pass1 :=
  if e.ty == SOFA then
    match parseSofa e with
    | .ok p => .ok { s with sofas := pass1.alistSetI s.sofas p.xid p, maxId := max s.maxId p.xid, maxNum := max s.maxNum p.num }
    | .error err => .error err
  else if e.ty == VIEW_T then
    match parseView e with
    | .ok v => .ok { s with views := pass1.alistSetI s.views v.sofa v }
    | .error err => .error err
  else
    match parseFsElem K ts tsIdx s.heap e with
    | .ok (hp, i, a) => .ok { s with heap := hp, fss := pass1.alistSetI s.fss i a, maxId := max s.maxId i }
    | .error .typeNotFound =>
      if lenient then .ok { s with lenientIds := s.lenientIds ++ lenIds e } else .error .typeNotFound
    | .error err => .error err

theorem pass1_cons (K : Consts) (ts : TypeSystem) (tsIdx : Nat) (lenient : Bool) (e : XElem) (es : List XElem) (s : Pass1) :
    pass1 K ts tsIdx lenient (e :: es) s = (step1 K ts tsIdx lenient e s).bind (pass1 K ts tsIdx lenient es) := by
  rw [pass1]
  unfold step1
  split
  · cases parseSofa e <;> rfl
  · split
    · cases parseView e <;> rfl
    · split
      · rename_i h; rw [h]; rfl
      · rename_i h; rw [h]; cases lenient <;> rfl
      · rename_i err h2 h1; rw [h1]
        split
        · rename_i h3; cases h3
        · rename_i h3; cases h3; exact absurd rfl h2
        · rename_i h3; cases h3; rfl


theorem pass1_nil (K : Consts) (ts : TypeSystem) (tsIdx : Nat) (lenient : Bool) (s : Pass1) :
    pass1 K ts tsIdx lenient [] s = .ok s := by
  rw [pass1]

def setL (s : Pass1) (l : List Int) : Pass1 := { s with lenientIds := l }

theorem step1_unknown (K : Consts) (ts : TypeSystem) (tsIdx : Nat) (b : Bool) (e : XElem) (s : Pass1)
    (hu : knownElemL ts e = false) :
    step1 K ts tsIdx b e s = if b then .ok (setL s (s.lenientIds ++ lenIds e)) else .error .typeNotFound := by
  unfold knownElemL at hu
  simp only [Bool.or_eq_false_iff] at hu
  obtain ⟨⟨h1, h2⟩, h3⟩ := hu
  unfold step1
  simp only [h1, h2, Bool.false_eq_true, if_false]
  have hf : find? ts e.ty = none := by
    cases hf : find? ts e.ty with
    | none => rfl
    | some t => rw [hf] at h3; cases h3
  rw [parseFsElem_getType_error K ts tsIdx s.heap e _ (getTypeExact_of_find_none hf)]
  rfl

theorem step1_known (K : Consts) (ts : TypeSystem) (tsIdx : Nat) (b b' : Bool) (e : XElem) (s : Pass1) (l : List Int)
    (hk : knownElemL ts e = true) :
    step1 K ts tsIdx b e (setL s l) = (step1 K ts tsIdx b' e s).map (fun r => setL r l) := by
  unfold step1
  by_cases h1 : (e.ty == SOFA) = true
  · simp only [h1, if_true]
    cases parseSofa e <;> rfl
  · by_cases h2 : (e.ty == VIEW_T) = true
    · simp only [h1, h2, if_true]
      cases parseView e <;> rfl
    · unfold knownElemL at hk
      rw [Bool.not_eq_true] at h1 h2
      simp only [h1, h2, Bool.false_or] at hk
      simp only [h1, h2, Bool.false_eq_true, if_false]
      cases hf : find? ts e.ty with
      | none => rw [hf] at hk; cases hk
      | some t =>
        have hg := getTypeExact_of_find hf
        have hn := (parseFsElem_noTnf K ts tsIdx s.heap e t hg).ne
        show (match parseFsElem K ts tsIdx s.heap e with | .ok (hp, i, a) => _ | .error .typeNotFound => _ | .error err => _) = _
        cases hp : parseFsElem K ts tsIdx s.heap e with
        | ok r => rfl
        | error err =>
          rw [hp] at hn
          cases err <;> first | rfl | exact absurd rfl hn

theorem step1_known_lenientIds (K : Consts) (ts : TypeSystem) (tsIdx : Nat) (b : Bool) (e : XElem) (s s1 : Pass1)
    (hk : knownElemL ts e = true) (h : step1 K ts tsIdx b e s = .ok s1) : s1.lenientIds = s.lenientIds := by
  have := step1_known K ts tsIdx b b e s s.lenientIds hk
  have hs : setL s s.lenientIds = s := rfl
  rw [hs, h] at this
  have this' : Except.ok s1 = (Except.ok (setL s1 s.lenientIds) : Except Err Pass1) := this
  have h3 := congrArg Pass1.lenientIds (Except.ok.inj this')
  exact h3

theorem step1_known_indep (K : Consts) (ts : TypeSystem) (tsIdx : Nat) (b b' : Bool) (e : XElem) (s : Pass1)
    (hk : knownElemL ts e = true) : step1 K ts tsIdx b e s = step1 K ts tsIdx b' e s := by
  have h1 := step1_known K ts tsIdx b b' e s s.lenientIds hk
  have h2 := step1_known K ts tsIdx b' b' e s s.lenientIds hk
  have hs : setL s s.lenientIds = s := rfl
  rw [hs] at h1 h2
  rw [h1, ← h2]


/-! ### the C17 helpers -/

theorem pass1_strict_all_known_aux (K : Consts) (ts : TypeSystem) (tsIdx : Nat) (doc : XDoc) (s r : Pass1)
    (h : pass1 K ts tsIdx false doc s = .ok r) : ∀ e ∈ doc, knownElemL ts e = true := by
  induction doc generalizing s with
  | nil => intro e he; cases he
  | cons e es ih =>
    rw [pass1_cons] at h
    cases hk : knownElemL ts e with
    | false =>
      rw [step1_unknown K ts tsIdx false e s hk] at h
      cases h
    | true =>
      cases hs : step1 K ts tsIdx false e s with
      | error err => rw [hs] at h; cases h
      | ok s1 =>
        rw [hs] at h
        intro e' he'
        cases he' with
        | head => exact hk
        | tail _ hm => exact ih s1 h e' hm

theorem pass1_strict_unknown_error_aux (K : Consts) (ts : TypeSystem) (tsIdx : Nat) (pre post : XDoc) (e : XElem)
    (s s1 : Pass1) (hpre : pass1 K ts tsIdx false pre s = .ok s1) (hu : knownElemL ts e = false) :
    pass1 K ts tsIdx false (pre ++ e :: post) s = .error .typeNotFound := by
  induction pre generalizing s with
  | nil =>
    rw [List.nil_append, pass1_cons, step1_unknown K ts tsIdx false e s hu]
    rfl
  | cons p ps ih =>
    rw [pass1_cons] at hpre
    rw [List.cons_append, pass1_cons]
    cases hs : step1 K ts tsIdx false p s with
    | error err => rw [hs] at hpre; cases hpre
    | ok s2 =>
      rw [hs] at hpre
      exact ih s2 hpre

theorem pass1_known_same_aux (K : Consts) (ts : TypeSystem) (tsIdx : Nat) (doc : XDoc) (s : Pass1)
    (hk : ∀ e ∈ doc, knownElemL ts e = true) :
    pass1 K ts tsIdx true doc s = pass1 K ts tsIdx false doc s := by
  induction doc generalizing s with
  | nil => rw [pass1_nil, pass1_nil]
  | cons e es ih =>
    rw [pass1_cons, pass1_cons]
    rw [step1_known_indep K ts tsIdx true false e s (hk e (List.mem_cons_self ..))]
    cases step1 K ts tsIdx false e s with
    | error err => rfl
    | ok s1 =>
      exact ih s1 (fun e' he' => hk e' (List.mem_cons_of_mem _ he'))

theorem pass1_lenient_filtered_gen (K : Consts) (ts : TypeSystem) (tsIdx : Nat) (doc : XDoc) (s r : Pass1)
    (h : pass1 K ts tsIdx true doc s = .ok r) (b : Bool) (l : List Int) :
    pass1 K ts tsIdx b (doc.filter (knownElemL ts)) (setL s l) = .ok (setL r l) := by
  induction doc generalizing s with
  | nil =>
    rw [pass1_nil] at h
    cases h
    rw [List.filter_nil, pass1_nil]
  | cons e es ih =>
    rw [pass1_cons] at h
    cases hk : knownElemL ts e with
    | false =>
      rw [step1_unknown K ts tsIdx true e s hk, if_pos rfl] at h
      rw [List.filter_cons_of_neg (by rw [hk]; exact Bool.false_ne_true)]
      exact ih (setL s (s.lenientIds ++ lenIds e)) h
    | true =>
      rw [List.filter_cons_of_pos hk, pass1_cons, step1_known K ts tsIdx b true e s l hk]
      cases hs : step1 K ts tsIdx true e s with
      | error err => rw [hs] at h; cases h
      | ok s1 =>
        rw [hs] at h
        exact ih s1 h

theorem pass1_lenient_eq_filtered_aux (K : Consts) (ts : TypeSystem) (tsIdx : Nat) (doc : XDoc) (s r : Pass1)
    (h : pass1 K ts tsIdx true doc s = .ok r) (strict : Bool) :
    pass1 K ts tsIdx (!strict) (doc.filter (knownElemL ts)) s = .ok { r with lenientIds := s.lenientIds } :=
  pass1_lenient_filtered_gen K ts tsIdx doc s r h (!strict) s.lenientIds

theorem pass1_lenient_ids_aux (K : Consts) (ts : TypeSystem) (tsIdx : Nat) (doc : XDoc) (s r : Pass1)
    (h : pass1 K ts tsIdx true doc s = .ok r) :
    r.lenientIds = s.lenientIds ++
      (doc.filter (fun e => !(knownElemL ts e))).filterMap (fun e => (attr e ID).bind Lex.parseInt) := by
  induction doc generalizing s with
  | nil =>
    rw [pass1_nil] at h
    cases h
    simp only [List.filter_nil, List.filterMap_nil, List.append_nil]
  | cons e es ih =>
    rw [pass1_cons] at h
    cases hk : knownElemL ts e with
    | false =>
      rw [step1_unknown K ts tsIdx true e s hk, if_pos rfl] at h
      have := ih (setL s (s.lenientIds ++ lenIds e)) h
      rw [this, List.filter_cons_of_pos (by rw [hk]; rfl)]
      show (s.lenientIds ++ lenIds e) ++ _ = _
      rw [List.append_assoc]
      congr 1
      unfold lenIds
      rw [List.filterMap_cons]
      cases (attr e ID).bind parseInt <;> rfl
    | true =>
      rw [List.filter_cons_of_neg (by rw [hk]; exact Bool.false_ne_true)]
      cases hs : step1 K ts tsIdx true e s with
      | error err => rw [hs] at h; cases h
      | ok s1 =>
        rw [hs] at h
        rw [ih s1 h, step1_known_lenientIds K ts tsIdx true e s s1 hk hs]

/-! ### id-keyed lookups do not depend on the order of recording -/

theorem findKey_of_mem {β} : ∀ (l : List (Int × β)) (p : Int × β),
    (l.map (·.1)).Nodup → p ∈ l → l.find? (fun q => q.1 == p.1) = some p := by
  intro l
  induction l with
  | nil => intro p _ hm; cases hm
  | cons a l ih =>
    intro p hn hm
    rw [List.map_cons, List.nodup_cons] at hn
    rw [List.find?_cons]
    cases hm with
    | head => simp only [BEq.rfl]
    | tail _ hm =>
      have hne : (a.1 == p.1) = false := by
        cases hb : a.1 == p.1 with
        | false => rfl
        | true =>
          have : a.1 = p.1 := eq_of_beq hb
          exact absurd (this ▸ List.mem_map_of_mem (f := (·.1)) hm) hn.1
      rw [hne]
      exact ih p hn.2 hm

theorem findKey_fst {β} {l : List (Int × β)} {i : Int} {p : Int × β}
    (h : l.find? (fun q => q.1 == i) = some p) : p.1 = i := by
  have := List.find?_some h
  exact eq_of_beq this

theorem findKey_perm {β} (l l' : List (Int × β)) (hp : l.Perm l') (hn : (l.map (·.1)).Nodup) (i : Int) :
    l.find? (fun q => q.1 == i) = l'.find? (fun q => q.1 == i) := by
  have hn' : (l'.map (·.1)).Nodup := (hp.map (·.1)).nodup_iff.mp hn
  cases hf : l.find? (fun q => q.1 == i) with
  | some p =>
    have h1 := findKey_of_mem l' p hn' (hp.mem_iff.mp (List.mem_of_find?_eq_some hf))
    rw [findKey_fst hf] at h1
    exact h1.symm
  | none =>
    cases hf' : l'.find? (fun q => q.1 == i) with
    | none => rfl
    | some p =>
      have h1 := findKey_of_mem l p hn (hp.mem_iff.mpr (List.mem_of_find?_eq_some hf'))
      rw [findKey_fst hf', hf] at h1
      cases h1

theorem lookupFs_perm_aux (fss fss' : List (Int × Nat)) (hp : fss.Perm fss') (hn : (fss.map (·.1)).Nodup) (i : Int) :
    lookupFs fss i = lookupFs fss' i := by
  unfold lookupFs
  rw [findKey_perm fss fss' hp hn i]

theorem resolveIds_perm_aux (fss fss' : List (Int × Nat)) (hp : fss.Perm fss') (hn : (fss.map (·.1)).Nodup)
    (toks : List String) : resolveIds fss toks = resolveIds fss' toks := by
  induction toks with
  | nil => rfl
  | cons s ss ih =>
    simp only [resolveIds]
    rw [ih]
    simp only [lookupFs_perm_aux fss fss' hp hn]

/-! ### the recorded sofas -/

theorem alistSetI_of_mem {β} (l : List (Int × β)) (k : Int) (v : β) (h : k ∈ l.map (·.1)) :
    (pass1.alistSetI l k v).length = l.length := by
  induction l with
  | nil => cases h
  | cons a l ih =>
    obtain ⟨k', v'⟩ := a
    unfold pass1.alistSetI
    split
    · rfl
    · rename_i hne
      rw [List.map_cons, List.mem_cons] at h
      cases h with
      | inl h => subst h; exact absurd BEq.rfl hne
      | inr h => rw [List.length_cons, List.length_cons, ih h]

theorem alistSetI_of_not_mem {β} (l : List (Int × β)) (k : Int) (v : β) (h : k ∉ l.map (·.1)) :
    pass1.alistSetI l k v = l ++ [(k, v)] := by
  induction l with
  | nil => rfl
  | cons a l ih =>
    obtain ⟨k', v'⟩ := a
    rw [List.map_cons, List.mem_cons, not_or] at h
    unfold pass1.alistSetI
    split
    · rename_i heq
      exact absurd (eq_of_beq heq).symm h.1
    · rw [ih h.2]; rfl

def setAll {β} (acc : List (Int × β)) (l : List (Int × β)) : List (Int × β) :=
  l.foldl (fun a p => pass1.alistSetI a p.1 p.2) acc

theorem setAll_cons {β} (acc : List (Int × β)) (p : Int × β) (l : List (Int × β)) :
    setAll acc (p :: l) = setAll (pass1.alistSetI acc p.1 p.2) l := rfl

theorem setAll_length_le {β} (l : List (Int × β)) : ∀ acc : List (Int × β),
    (setAll acc l).length ≤ acc.length + l.length := by
  induction l with
  | nil => intro acc; exact Nat.le_refl _
  | cons p l ih =>
    intro acc
    rw [setAll_cons]
    have h1 := ih (pass1.alistSetI acc p.1 p.2)
    by_cases hm : p.1 ∈ acc.map (·.1)
    · rw [alistSetI_of_mem acc p.1 p.2 hm] at h1
      rw [List.length_cons]; omega
    · rw [alistSetI_of_not_mem acc p.1 p.2 hm] at h1 ⊢
      rw [List.length_append] at h1
      rw [List.length_cons]
      simp only [List.length_cons, List.length_nil] at h1
      omega

theorem setAll_length_eq {β} (l : List (Int × β)) : ∀ acc : List (Int × β),
    (setAll acc l).length = acc.length + l.length → (acc.map (·.1)).Nodup → ((acc ++ l).map (·.1)).Nodup := by
  induction l with
  | nil => intro acc _ hn; rw [List.append_nil]; exact hn
  | cons p l ih =>
    intro acc hlen hn
    obtain ⟨k, v⟩ := p
    have hlen : (setAll (pass1.alistSetI acc k v) l).length = acc.length + ((k, v) :: l).length := hlen
    by_cases hm : k ∈ acc.map (·.1)
    · have h1 := setAll_length_le l (pass1.alistSetI acc k v)
      rw [alistSetI_of_mem acc k v hm] at h1
      rw [List.length_cons] at hlen
      omega
    · rw [alistSetI_of_not_mem acc k v hm] at hlen
      have hn2 : ((acc ++ [(k, v)]).map (·.1)).Nodup := by
        rw [List.map_append, List.nodup_append]
        refine ⟨hn, by simp, ?_⟩
        intro a ha b hb
        simp only [List.map_cons, List.map_nil, List.mem_singleton] at hb
        subst hb
        intro hab; subst hab; exact hm ha
      have := ih (acc ++ [(k, v)]) (by rw [hlen, List.length_append, List.length_cons, List.length_cons, List.length_nil]; omega) hn2
      rw [List.append_assoc] at this
      exact this

theorem setAll_nodup {β} (l : List (Int × β)) : ∀ acc : List (Int × β),
    ((acc ++ l).map (·.1)).Nodup → setAll acc l = acc ++ l := by
  induction l with
  | nil => intro acc _; rw [List.append_nil]; rfl
  | cons p l ih =>
    intro acc hn
    have hm : p.1 ∉ acc.map (·.1) := by
      rw [List.map_append, List.nodup_append] at hn
      intro hm
      exact hn.2.2 _ hm _ (List.mem_map_of_mem (f := fun q : Int × β => q.1) (List.mem_cons_self ..)) rfl
    obtain ⟨k, v⟩ := p
    rw [setAll_cons, alistSetI_of_not_mem acc k v hm]
    have : acc ++ (k, v) :: l = (acc ++ [(k, v)]) ++ l := by rw [List.append_assoc]; rfl
    rw [this] at hn ⊢
    exact ih (acc ++ [(k, v)]) hn

def sofaEntry (e : XElem) : Option (Int × PSofa) :=
  if e.ty == SOFA then
    match parseSofa e with
    | .ok p => some (p.xid, p)
    | .error _ => none
  else none

theorem step1_sofas (K : Consts) (ts : TypeSystem) (tsIdx : Nat) (b : Bool) (e : XElem) (s s1 : Pass1)
    (h : step1 K ts tsIdx b e s = .ok s1) :
    s1.sofas = setAll s.sofas (sofaEntry e).toList ∧
      ([e].filter (fun e => e.ty == SOFA)).length = (sofaEntry e).toList.length := by
  unfold step1 at h
  unfold sofaEntry
  by_cases h1 : (e.ty == SOFA) = true
  · rw [if_pos h1] at h
    rw [if_pos h1, List.filter_cons_of_pos (p := fun e : XElem => e.ty == SOFA) h1]
    cases hp : parseSofa e with
    | error err => rw [hp] at h; cases h
    | ok p =>
      rw [hp] at h
      cases h
      exact ⟨rfl, rfl⟩
  · rw [if_neg h1] at h
    rw [if_neg h1, List.filter_cons_of_neg (p := fun e : XElem => e.ty == SOFA) h1]
    refine ⟨?_, rfl⟩
    show s1.sofas = s.sofas
    split at h
    · split at h
      · cases h; rfl
      · cases h
    · split at h
      · cases h; rfl
      · split at h
        · cases h; rfl
        · cases h
      · cases h

theorem setAll_append {β} (acc l1 l2 : List (Int × β)) : setAll acc (l1 ++ l2) = setAll (setAll acc l1) l2 := by
  unfold setAll; rw [List.foldl_append]

theorem pass1_sofas (K : Consts) (ts : TypeSystem) (tsIdx : Nat) (b : Bool) (doc : XDoc) : ∀ (s r : Pass1),
    pass1 K ts tsIdx b doc s = .ok r →
    r.sofas = setAll s.sofas (doc.filterMap sofaEntry) ∧
      (doc.filter (fun e => e.ty == SOFA)).length = (doc.filterMap sofaEntry).length := by
  induction doc with
  | nil => intro s r h; rw [pass1_nil] at h; cases h; exact ⟨rfl, rfl⟩
  | cons e es ih =>
    intro s r h
    rw [pass1_cons] at h
    cases hs : step1 K ts tsIdx b e s with
    | error err => rw [hs] at h; cases h
    | ok s1 =>
      rw [hs] at h
      obtain ⟨h1, h2⟩ := step1_sofas K ts tsIdx b e s s1 hs
      obtain ⟨h3, h4⟩ := ih s1 r h
      have hfm : (e :: es).filterMap sofaEntry = (sofaEntry e).toList ++ es.filterMap sofaEntry := by
        rw [List.filterMap_cons]; cases sofaEntry e <;> rfl
      have hf : (e :: es).filter (fun e => e.ty == SOFA) = [e].filter (fun e => e.ty == SOFA) ++ es.filter (fun e => e.ty == SOFA) := by
        rw [← List.filter_append]; rfl
      rw [hfm, hf, setAll_append, ← h1, ← h3, List.length_append, List.length_append, h2, h4]
      exact ⟨rfl, rfl⟩

theorem pass1_sofas_perm_aux (K : Consts) (ts : TypeSystem) (tsIdx : Nat) (lenient : Bool) (doc doc' : XDoc)
    (hperm : doc.Perm doc') (s r r' : Pass1)
    (h : pass1 K ts tsIdx lenient doc s = .ok r) (h' : pass1 K ts tsIdx lenient doc' s = .ok r')
    (hs : s.sofas = []) (_hn : (r.sofas.map (·.1)).Nodup)
    (hlen : r.sofas.length = (doc.filter (fun e => e.ty == SOFA)).length) :
    r.sofas.Perm r'.sofas := by
  obtain ⟨h1, h2⟩ := pass1_sofas K ts tsIdx lenient doc s r h
  obtain ⟨h1', _⟩ := pass1_sofas K ts tsIdx lenient doc' s r' h'
  rw [hs] at h1 h1'
  have hP : (doc.filterMap sofaEntry).Perm (doc'.filterMap sofaEntry) := hperm.filterMap _
  have hnd : ((([] : List (Int × PSofa)) ++ doc.filterMap sofaEntry).map (·.1)).Nodup := by
    apply setAll_length_eq
    · rw [← h1, hlen, h2, List.length_nil, Nat.zero_add]
    · exact List.nodup_nil
  rw [List.nil_append] at hnd
  have hnd' : ((([] : List (Int × PSofa)) ++ doc'.filterMap sofaEntry).map (·.1)).Nodup := by
    rw [List.nil_append]
    exact (hP.map (·.1)).nodup_iff.mp hnd
  rw [h1, h1', setAll_nodup _ [] (by rw [List.nil_append]; exact hnd), setAll_nodup _ [] hnd',
    List.nil_append, List.nil_append]
  exact hP

end Cassis.Xmi

namespace Cassis.Json

theorem lookup_perm_aux (fss fss' : List (Int × Val)) (hp : fss.Perm fss') (hn : (fss.map (·.1)).Nodup) (i : Int) :
    lookup fss i = lookup fss' i := by
  unfold lookup
  rw [Cassis.Xmi.findKey_perm fss fss' hp hn i]

end Cassis.Json
