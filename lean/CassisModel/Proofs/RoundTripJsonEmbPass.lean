/-
Layer 3 of `loadJson_congr`: the sofa of a view (`parseSofa` — does not consult the type system or the heap) and the two
passes over the feature structures of the document.
-/
import CassisModel.Proofs.RoundTripJsonEmbParse

namespace Cassis.Json
open Cassis.TS

theorem parseSofa_sim {ts ts' : TypeSystem} (ci : Nat) {s s' : RState} (hs : RSim ts ts' s s') (j : JFs) :
    ESim (RSim ts ts') (parseSofa ci s j) (parseSofa ci s' j) := by
  obtain ⟨c, h, f, d, m, n⟩ := s
  obtain ⟨c', h', f', d', m', n'⟩ := s'
  obtain ⟨e1, hh, e3, e4, e5, e6, hgood⟩ := hs
  dsimp only at e1 hh e3 e4 e5 e6 hgood
  subst e1 e3 e4 e5 e6
  unfold parseSofa
  simp only [bind, Except.bind, pure, Except.pure]
  repeat' split
  all_goals first
    | exact ESim.err _
    | (refine ESim.ok ⟨rfl, hh, rfl, rfl, rfl, rfl, ?_⟩
       intro p hp a hpa
       rcases mem_setFs hp with hp | hp
       · exact hgood p hp a hpa
       · subst hp; cases hpa)

/-- the type systems agree on the type names of these feature structures -/
def AgreeOn (ts ts' : TypeSystem) (l : List JFs) : Prop := ∀ j ∈ l, TypeAgree ts ts' (fsTypeName j)

theorem parseById_sim (K : Consts) {ts ts' : TypeSystem} (tsIdx : Nat) (i : Int) :
    ∀ (l : List JFs), AgreeOn ts ts' l → ∀ {s s' : RState}, RSim ts ts' s s' →
      ESim (RSim ts ts') (parseById K ts tsIdx i l s) (parseById K ts' tsIdx i l s') := by
  intro l
  induction l with
  | nil => intro _ s s' hs; exact ESim.ok hs
  | cons j rest ih =>
    intro ha s s' hs
    unfold parseById
    split
    · rcases (parseFs_sim K tsIdx hs j (ha j List.mem_cons_self)).elim with ⟨e, h1, h2⟩ | ⟨x, y, h1, h2, hr⟩
      · rw [h1, h2]; exact ESim.err _
      · rw [h1, h2]; exact ih (fun j' hj' => ha j' (List.mem_cons_of_mem _ hj')) hr
    · exact ih (fun j' hj' => ha j' (List.mem_cons_of_mem _ hj')) hs

theorem sofaPass_sim (K : Consts) {ts ts' : TypeSystem} (tsIdx ci : Nat) (all : List JFs) (hall : AgreeOn ts ts' all) :
    ∀ (l : List JFs) {s s' : RState}, RSim ts ts' s s' →
      ESim (RSim ts ts') (sofaPass K ts tsIdx ci all l s) (sofaPass K ts' tsIdx ci all l s') := by
  intro l
  induction l with
  | nil => intro s s' hs; exact ESim.ok hs
  | cons j rest ih =>
    intro s s' hs
    unfold sofaPass
    split
    · dsimp only
      -- after the optional parse of the sofa array
      have cont : ∀ {x y : RState}, RSim ts ts' x y →
          ESim (RSim ts ts')
            (match parseSofa ci x j with
              | .error e => .error e
              | .ok s2 => sofaPass K ts tsIdx ci all rest s2)
            (match parseSofa ci y j with
              | .error e => .error e
              | .ok s2 => sofaPass K ts' tsIdx ci all rest s2) := by
        intro x y hr1
        rcases (parseSofa_sim ci hr1 j).elim with ⟨e, h3, h4⟩ | ⟨x2, y2, h3, h4, hr2⟩
        · rw [h3, h4]; exact ESim.err _
        · rw [h3, h4]; exact ih hr2
      generalize ((j.feats.find? (fun p => p.1 == "@sofaArray")).map (·.2) : Option JV) = q
      cases q with
      | none => exact cont hs
      | some jv =>
        cases jv with
        | int i =>
          dsimp only
          rw [hs.fss]
          by_cases hc : (lookup s.fss i).isNone = true
          · rw [if_pos hc, if_pos hc]
            rcases (parseById_sim K tsIdx i all hall hs).elim with ⟨e, h1, h2⟩ | ⟨x, y, h1, h2, hr1⟩
            · rw [h1, h2]; exact ESim.err _
            · rw [h1, h2]; exact cont hr1
          · rw [if_neg hc, if_neg hc]
            exact cont hs
        | _ => exact cont hs
    · exact ih hs

theorem fsPass_sim (K : Consts) {ts ts' : TypeSystem} (tsIdx : Nat) :
    ∀ (l : List JFs), AgreeOn ts ts' l → ∀ {s s' : RState}, RSim ts ts' s s' →
      ESim (RSim ts ts') (fsPass K ts tsIdx l s) (fsPass K ts' tsIdx l s') := by
  intro l
  induction l with
  | nil => intro _ s s' hs; exact ESim.ok hs
  | cons j rest ih =>
    intro ha s s' hs
    unfold fsPass
    split
    · rcases (parseFs_sim K tsIdx hs j (ha j List.mem_cons_self)).elim with ⟨e, h1, h2⟩ | ⟨x, y, h1, h2, hr⟩
      · rw [h1, h2]; exact ESim.err _
      · rw [h1, h2]; exact ih (fun j' hj' => ha j' (List.mem_cons_of_mem _ hj')) hr
    · exact ih (fun j' hj' => ha j' (List.mem_cons_of_mem _ hj')) hs

end Cassis.Json
