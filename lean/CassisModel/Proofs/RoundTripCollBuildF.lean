/-
Round trip with collections, layer 3 (`buildCas`), part F: `rehome`, `convertReferenced` (copy of
`RoundTripBuildF.lean`; both also keep the objects without id frozen).
-/
import CassisModel.Proofs.RoundTripCollBuildE
import CassisModel.Proofs.RoundTripBuildF

namespace Cassis.Xmi.RTCB
open Cassis.TS Cassis.Traverse Cassis.Lex Cassis.Xmi Cassis.Xmi.RTB

section
variable {K : Consts} {ts : TypeSystem} {cass : List Cas} {ci : Nat} {c : Cas} {hp H : Heap}
  {L : List (Int × Nat)} {na : Int → Nat} {p : Pass1} {ia : Int → String → Nat} {ci' : Nat} {o0 : Obj}

theorem HInv.mono2 {Cp Kp Cp' Kp' : Int → Prop} {hpX : Heap} (h : HInv K ts cass H L na ia ci' Cp Kp hpX)
    (hC : ∀ q ∈ L, (Cp q.1 ↔ Cp' q.1) ∨ (∀ o, H[q.2]? = some o → isInstanceOf ts o.ty ANNOTATION = false))
    (hK : ∀ q ∈ L, Kp q.1 → Kp' q.1) : HInv K ts cass H L na ia ci' Cp' Kp' hpX := by
  intro q hq
  obtain ⟨o, o', ho, ho', hr⟩ := h q hq
  refine ⟨o, o', ho, ho', ?_⟩
  rcases hC q hq with e | e
  · exact hr.mono e (hK q hq)
  · exact (hr.nonann (e o ho)).mono Iff.rfl (hK q hq)

/-- `rehome`: every recorded own sofa is written back -/
theorem Ctx.rehome_ok (ctx : Ctx K ts cass ci c hp H L na p) (Cp : Int → Prop) :
    ∀ (ms : List (Int × Val)), (∀ r ∈ ms, MSOk K ts H L na ia ci' r) → ∀ (hpX : Heap),
      HInv K ts cass H L na ia ci' Cp (fun x => x ∈ ms.map (·.1)) hpX → hpX[H.length]? = some o0 →
      ∃ hpR, rehome p.fss ms hpX = .ok hpR ∧ HInv K ts cass H L na ia ci' Cp (fun _ => False) hpR ∧
        hpR[H.length]? = some o0 ∧ Frz hpX hpR := by
  intro ms
  induction ms with
  | nil =>
    intro _ hpX hinv hnull
    refine ⟨hpX, by rw [rehome], hinv.mono (fun _ _ => Iff.rfl) (fun _ _ h => by cases h), hnull, Frz.refl _⟩
  | cons r ms ih =>
    intro hms hpX hinv hnull
    obtain ⟨m, v⟩ := r
    obtain ⟨am, o, v0, vn, hq, ho, hv0, h4, h5⟩ := hms (m, v) List.mem_cons_self
    simp only at hq h4 h5
    subst h5
    obtain ⟨o_, o', ho_, ho', hok⟩ := hinv (m, am) hq
    simp only at ho_ ho' hok
    rw [ho] at ho_; cases ho_
    have hs' : (alistGet? o'.slots "sofa").isSome = true := (hok.isSome_iff "sofa").mpr (by rw [hv0]; rfl)
    obtain ⟨w, hw⟩ := Option.isSome_iff_exists.mp hs'
    have hgt : H.length ≠ na m := Nat.ne_of_lt (ctx.nok.gt _ hq)
    have hok1 : ObjOk K ts cass H na ia ci' (Cp m) (m ∈ ms.map (·.1)) o
        { o' with slots := alistSet o'.slots "sofa" (.sofa ci' vn) } m := by
      have := hok.rehome (Kp' := m ∈ ms.map (·.1)) hv0
      rw [← h4] at this
      exact this
    have hinv1 := hinv.step ctx.nok ctx.lok.nodup hq ho ho' hok1 (fun _ _ _ => Iff.rfl)
      (fun q _ hne hk => by
        rw [List.map_cons, List.mem_cons] at hk
        exact hk.resolve_left hne)
    obtain ⟨hpR, h1, h2, h3, h6⟩ := ih (fun r hr => hms r (List.mem_cons_of_mem _ hr)) _ hinv1
      (by rw [set_get_ne hgt.symm]; exact hnull)
    refine ⟨hpR, ?_, h2, h3, (Frz.set_some ho' hok.2.1).trans h6⟩
    rw [rehome]
    rw [ctx.lookup hq]
    dsimp only
    rw [setSlot_existing _ ho' hw]
    exact h1

/-- `convertReferenced` over the collected structures -/
theorem Ctx.convRef_ok (ctx : Ctx K ts cass ci c hp H L na p) (cv : List Int) :
    ∀ (l l0 : List (Int × Nat)), L = l0 ++ l → ∀ (hpX : Heap),
      HInv K ts cass H L na ia ci' (fun x => x ∈ cv ∨ x ∉ l.map (·.1)) (fun _ => False) hpX →
      ∃ hpF, convertReferenced ts p cv (l.map (fun q => (q.1, na q.1))) hpX = .ok hpF ∧
        HInv K ts cass H L na ia ci' (fun _ => True) (fun _ => False) hpF ∧ Frz hpX hpF := by
  intro l
  induction l with
  | nil =>
    intro _ _ hpX hinv
    refine ⟨hpX, by rw [List.map_nil, convertReferenced], hinv.mono (fun _ _ => ?_) (fun _ _ h => h), Frz.refl _⟩
    simp
  | cons r l ih =>
    intro l0 hsplit hpX hinv
    obtain ⟨i, ai⟩ := r
    have hq : (i, ai) ∈ L := by rw [hsplit]; simp
    have hnd := ctx.lok.nodup
    rw [hsplit, List.map_append, List.map_cons] at hnd
    have hil : i ∉ l.map (·.1) := (List.nodup_cons.mp (List.nodup_append.mp hnd).2.1).1
    have hsplit' : L = (l0 ++ [(i, ai)]) ++ l := by rw [hsplit, List.append_assoc]; rfl
    obtain ⟨o, o', ho, ho', hok⟩ := hinv (i, ai) hq
    simp only at ho ho' hok
    rw [List.map_cons, convertReferenced]
    by_cases hc : cv.contains i = true
    · rw [if_pos hc]
      have hic : i ∈ cv := List.contains_iff_mem.mp hc
      refine ih _ hsplit' hpX (hinv.mono (fun q _ => ?_) (fun _ _ h => h))
      by_cases e : q.1 = i
      · rw [e]; simp [hic]
      · simp [e]
    · rw [if_neg hc]
      have hic : i ∉ cv := fun h => hc (List.contains_iff_mem.mpr h)
      have hnC : ¬ (i ∈ cv ∨ i ∉ ((i, ai) :: l).map (·.1)) := by simp [hic]
      rw [ho']
      dsimp only
      cases hann : isInstanceOf ts o.ty ANNOTATION
      · rw [hok.1, hann]
        simp only [Bool.false_eq_true, if_false]
        refine ih _ hsplit' hpX (hinv.mono2 (fun q hq' => ?_) (fun _ _ h => h))
        by_cases e : q.1 = i
        · right
          intro o2 ho2
          obtain ⟨x, a⟩ := q
          simp only at e
          subst e
          have := addr_unique ctx.lok.nodup hq' hq
          subst this
          rw [ho] at ho2; cases ho2
          exact hann
        · left; simp [e]
      · rw [hok.1, hann]
        simp only [if_true]
        obtain ⟨vn, v, text, o1, hs, hv, ht, hconv, hok1⟩ := ctx.convert_ann hq ho ho' hok hnC hann
        have hslot : slot hpX (na i) "sofa" = some (.sofa ci' vn) := by
          show (hpX[na i]?).bind _ = _
          rw [ho']
          obtain ⟨w, hw, hso⟩ := hok.2.2.2 "sofa" _ hs
          unfold SlotOk at hso
          rw [if_pos rfl] at hso
          have : w = E3c K ts H na ia ci' o "sofa" (.sofa ci vn) := hso.resolve_right (fun h => h.1)
          rw [this] at hw
          exact hw
        rw [hslot]
        dsimp only
        rw [ctx.find_sofa hv]
        dsimp only
        have htext : (psofaOf (vn, v)).text = some (docText text) := by
          show (v.sofa.text).map docText = _
          rw [ht]; rfl
        rw [htext, hconv]
        dsimp only
        obtain ⟨hpF, g1, g2, g3⟩ := ih _ hsplit' _ (hinv.step ctx.nok ctx.lok.nodup hq ho ho' (hok1 _ (Or.inr hil))
          (fun q _ hne => by simp [hne]) (fun _ _ _ h => h))
        exact ⟨hpF, g1, g2, (Frz.set_some ho' hok.2.1).trans g3⟩

end

end Cassis.Xmi.RTCB
