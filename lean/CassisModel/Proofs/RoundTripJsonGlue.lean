/-
JSON round trip, glue: what the traversal of the writer guarantees about the collected structures (`LOk`), for arbitrary
traversal options (the JSON writer includes inlinable structures; on the flat fragment the option makes no difference).
The lemmas on successors are those of `RoundTripGlue.lean`, with the options generalised.
-/
import CassisModel.Spec.RoundTripJson
import CassisModel.Proofs.RoundTripGlue

namespace Cassis.Json
open Cassis.TS Cassis.Traverse Cassis.Lex Cassis.Xmi

variable {op : Opts}

theorem jfeatureSuccs_flat {K : Consts} {ts : TypeSystem} {c : Cas} {ci : Nat} {H : Heap} {a : Nat} {o : Obj}
    {isAnn : Bool} {f : Feature} (fuel : Nat) (ho : H[a]? = some o) (hf : FlatFeat K ts c ci H isAnn o f) :
    ∃ ps : List Nat, featureSuccs K ts op H [] fuel a f = .ok (ps, 0) ∧
      ∀ b, alistGet? o.slots f.name = some (.ref b) → b ∈ ps := by
  obtain ⟨_, _, _, _, _, _, _, _, _, _, _, v, hv, hcase⟩ := hf
  have hslot : Traverse.slot H a f.name = some v := by
    unfold Traverse.slot; rw [ho]; exact hv
  unfold featureSuccs
  rcases hcase with ⟨hn, hs⟩ | ⟨hn, hprim, _⟩ | ⟨hn, hprim, harr, hlist, _, _, _, hval⟩
  · refine ⟨[], ?_, ?_⟩
    · simp [hn]
    · intro b hb
      rw [hv] at hb
      rcases hs with ⟨vn, rfl, _⟩ | ⟨rfl, _⟩ <;> cases hb
  · have hn' : (f.name == "sofa") = false := by simpa using hn
    refine ⟨[], ?_, ?_⟩
    · simp [hn', hprim]
    · intro b hb
      rw [hv] at hb
      rename_i h3
      rcases h3 with rfl | ⟨_, i, rfl⟩ | ⟨_, s, rfl⟩ | ⟨_, b', rfl⟩ | ⟨_, t, rfl⟩ <;> cases hb
  · have hn' : (f.name == "sofa") = false := by simpa using hn
    rcases hval with rfl | ⟨b, rfl, _, _⟩
    · refine ⟨[], ?_, ?_⟩
      · simp [hn', hprim, hslot]
      · intro b hb; rw [hv] at hb; cases hb
    · refine ⟨[b], ?_, ?_⟩
      · simp [hn', hprim, hslot, harr, hlist, seenId_nil]
      · intro b' hb; rw [hv] at hb; cases hb; exact List.mem_singleton.mpr rfl

theorem jfeaturesSuccs_flat {K : Consts} {ts : TypeSystem} {c : Cas} {ci : Nat} {H : Heap} {a : Nat} {o : Obj}
    {isAnn : Bool} (fuel : Nat) (ho : H[a]? = some o) :
    ∀ (fs : List Feature), (∀ f ∈ fs, FlatFeat K ts c ci H isAnn o f) →
    ∃ ps : List Nat, featuresSuccs K ts op H [] fuel a fs = .ok (ps, 0) ∧
      ∀ f ∈ fs, ∀ b, alistGet? o.slots f.name = some (.ref b) → b ∈ ps := by
  intro fs
  induction fs with
  | nil => intro _; exact ⟨[], rfl, fun f hf => by cases hf⟩
  | cons f fs ih =>
    intro hall
    obtain ⟨p1, h1, m1⟩ := jfeatureSuccs_flat (op := op) fuel ho (hall f List.mem_cons_self)
    obtain ⟨p2, h2, m2⟩ := ih (fun g hg => hall g (List.mem_cons_of_mem _ hg))
    refine ⟨p1 ++ p2, ?_, ?_⟩
    · unfold featuresSuccs
      simp only [h1, h2, bind, Except.bind, pure, Except.pure]
    · intro g hg b hb
      rcases List.mem_cons.mp hg with rfl | hg
      · exact List.mem_append_left _ (m1 b hb)
      · exact List.mem_append_right _ (m2 g hg b hb)

/-- the same against an arbitrary visited map: the traversal never fails on a flat feature, and pushes only targets of
    references -/
theorem jfeatureSuccs_flat_any {K : Consts} {ts : TypeSystem} {c : Cas} {ci : Nat} {H : Heap} {a : Nat} {o : Obj}
    {isAnn : Bool} {f : Feature} (allFs : List (Int × Nat)) (fuel : Nat) (ho : H[a]? = some o)
    (hf : FlatFeat K ts c ci H isAnn o f) :
    ∃ ps : List Nat, featureSuccs K ts op H allFs fuel a f = .ok (ps, 0) ∧
      ∀ b ∈ ps, alistGet? o.slots f.name = some (.ref b) := by
  obtain ⟨_, _, _, _, _, _, _, _, _, _, _, v, hv, hcase⟩ := hf
  have hslot : Traverse.slot H a f.name = some v := by
    unfold Traverse.slot; rw [ho]; exact hv
  unfold featureSuccs
  rcases hcase with ⟨hn, hs⟩ | ⟨hn, hprim, _⟩ | ⟨hn, hprim, harr, hlist, _, _, _, hval⟩
  · exact ⟨[], by simp [hn], fun b hb => by cases hb⟩
  · have hn' : (f.name == "sofa") = false := by simpa using hn
    exact ⟨[], by simp [hn', hprim], fun b hb => by cases hb⟩
  · have hn' : (f.name == "sofa") = false := by simpa using hn
    rcases hval with rfl | ⟨b, rfl, _, _⟩
    · exact ⟨[], by simp [hn', hprim, hslot], fun b hb => by cases hb⟩
    · by_cases hseen : seenId allFs (xidOf H b) b = true
      · exact ⟨[], by simp [hn', hprim, hslot, harr, hlist, hseen], fun b hb => by cases hb⟩
      · refine ⟨[b], by simp [hn', hprim, hslot, harr, hlist, hseen], ?_⟩
        intro b' hb'
        rw [List.mem_singleton.mp hb']
        exact hv

theorem jfeaturesSuccs_flat_any {K : Consts} {ts : TypeSystem} {c : Cas} {ci : Nat} {H : Heap} {a : Nat} {o : Obj}
    {isAnn : Bool} (allFs : List (Int × Nat)) (fuel : Nat) (ho : H[a]? = some o) :
    ∀ (fs : List Feature), (∀ f ∈ fs, FlatFeat K ts c ci H isAnn o f) →
    ∃ ps : List Nat, featuresSuccs K ts op H allFs fuel a fs = .ok (ps, 0) ∧
      ∀ b ∈ ps, ∃ f ∈ fs, alistGet? o.slots f.name = some (.ref b) := by
  intro fs
  induction fs with
  | nil => intro _; exact ⟨[], rfl, fun b hb => by cases hb⟩
  | cons f fs ih =>
    intro hall
    obtain ⟨p1, h1, m1⟩ := jfeatureSuccs_flat_any (op := op) allFs fuel ho (hall f List.mem_cons_self)
    obtain ⟨p2, h2, m2⟩ := ih (fun g hg => hall g (List.mem_cons_of_mem _ hg))
    refine ⟨p1 ++ p2, ?_, ?_⟩
    · unfold featuresSuccs
      simp only [h1, h2, bind, Except.bind, pure, Except.pure]
    · intro b hb
      rcases List.mem_append.mp hb with hb | hb
      · exact ⟨f, List.mem_cons_self, m1 b hb⟩
      · obtain ⟨g, hg, hgb⟩ := m2 b hb
        exact ⟨g, List.mem_cons_of_mem _ hg, hgb⟩

/-! ### the parts of a written document -/

/-- the view records of the document -/
def jviewOf (hp : Heap) (p : String × View) : JView :=
  { name := p.2.sofa.sofaID, sofa := some p.2.sofa.xid,
    members := Xmi.sortInts ((Index.all p.2.idx).filterMap (fun e => idOf hp e.oid)) }

theorem sofaFss_fold (hp : Heap) (f : List JFs → String × View → Except Err (List JFs)) :
    ∀ (views : List (String × View)) (acc : List JFs),
    (∀ acc, ∀ nv ∈ views, f acc nv = .ok (acc ++ [renderSofa hp nv.2.sofa])) →
    views.foldlM f acc = Except.ok (acc ++ views.map (fun p => renderSofa hp p.2.sofa))
  | [], acc, _ => by simp [List.foldlM, pure, Except.pure]
  | nv :: rest, acc, h => by
    rw [List.foldlM_cons, h acc nv List.mem_cons_self]
    simp only [bind, Except.bind]
    rw [sofaFss_fold hp f rest _ (fun acc nv' hnv' => h acc nv' (List.mem_cons_of_mem _ hnv'))]
    simp

/-- the parts of a successful `saveJson` without embedded type system, for text sofas -/
theorem saveJson_parts {K : Consts} {ts : TypeSystem} {cass : List Cas} {ci : Nat} {c : Cas} {hp : Heap}
    {doc : JDoc} {st : St} (hc : cass[ci]? = some c) (harr : ∀ nv ∈ c.views, nv.2.sofa.arr = .none)
    (h : saveJson K ts cass ci hp .none = .ok (doc, st)) :
    findAllFs K ts { includeInlinable := true } hp c.nextXid (defaultSeeds c) = .ok st ∧
    ∃ fsElems : List JFs, renderAll K ts cass st.heap (sortById st.allFs) = .ok fsElems ∧
      doc.fss = c.views.map (fun p => renderSofa hp p.2.sofa) ++ fsElems ∧
      doc.views = c.views.map (jviewOf hp) ∧ doc.types = none := by
  unfold saveJson at h
  rw [hc] at h
  simp only [bind, Except.bind, pure, Except.pure] at h
  rw [sofaFss_fold hp _ c.views [] (by
    intro acc nv hnv
    simp only [harr nv hnv, List.append_nil])] at h
  simp only [List.nil_append] at h
  cases hst : Traverse.findAllFs K ts { includeInlinable := true } hp c.nextXid (Traverse.defaultSeeds c) with
  | error err => rw [hst] at h; cases h
  | ok st' =>
    rw [hst] at h
    simp only at h
    cases hr : renderAll K ts cass st'.heap (sortById st'.allFs) with
    | error err => rw [hr] at h; cases h
    | ok fsElems =>
      rw [hr] at h
      simp only at h
      cases h
      exact ⟨rfl, fsElems, hr, rfl, rfl, rfl⟩

/-- ids in the heap after id assignment are positive -/
theorem jst_ids_pos {K : Consts} {ts : TypeSystem} {c : Cas} {hp : Heap} {st : St} (hwf : RTWf c hp)
    (h : findAllFs K ts op hp c.nextXid (defaultSeeds c) = .ok st) (a : Nat) (y : Int)
    (hy : xidOf st.heap a = some y) : 0 < y := by
  unfold findAllFs at h
  obtain ⟨fut, _⟩ := run_fut K ts op _ _ _ st hwf.next_pos hwf.ids_below h
  simp only at fut
  cases h0 : xidOf hp a with
  | none =>
    have := fut.fresh a y h0 hy
    have hp' := hwf.next_pos
    omega
  | some y' =>
    have h1 := fut.shape.xidOf h0
    rw [hy] at h1
    cases h1
    unfold xidOf at h0
    cases hob : hp[a]? with
    | none => rw [hob] at h0; cases h0
    | some ob =>
      rw [hob] at h0
      exact hwf.ids_pos a ob y hob h0

/-- ids present before the traversal are kept -/
theorem jst_ids_kept {K : Consts} {ts : TypeSystem} {c : Cas} {hp : Heap} {st : St} (hwf : RTWf c hp)
    (h : findAllFs K ts op hp c.nextXid (defaultSeeds c) = .ok st) (a : Nat) (y : Int)
    (hy : xidOf hp a = some y) : xidOf st.heap a = some y := by
  unfold findAllFs at h
  obtain ⟨fut, _⟩ := run_fut K ts op _ _ _ st hwf.next_pos hwf.ids_below h
  exact fut.shape.xidOf hy

/-- what the traversal guarantees about the written structures -/
theorem lok_of_findAllFs {K : Consts} {ts : TypeSystem} {ci : Nat} {c : Cas} {hp : Heap}
    {st : St} (hwf : RTWf c hp)
    (hfa : findAllFs K ts op hp c.nextXid (defaultSeeds c) = .ok st)
    (hflat : ∀ q ∈ st.allFs, FlatFs K ts c ci st.heap q.2) :
    LOk K ts c ci st.heap (sortById st.allFs) := by
  have hpos := hwf.next_pos
  have hids : ∀ q ∈ sortById st.allFs, xidOf st.heap q.2 = some q.1 ∧ q.1 ≠ 0 := fun q hq =>
    findAllFs_ids_aux K ts op hp c.nextXid _ st hpos hfa q.1 q.2 (mem_sortById.mp hq)
  refine ⟨fun q hq => hflat q (mem_sortById.mp hq), hids, ?_, ?_, ?_⟩
  · exact ((sortById_perm_aux st.allFs).map (·.1)).nodup_iff.mpr
      (findAllFs_nodup_aux K ts op hp c.nextXid _ st hfa).1
  · intro q hq o ho n b hb
    obtain ⟨o', t, ho', ht, _, _, _, hsup, _, _, _, _, _, _, hsl, hfeat, _⟩ := hflat q (mem_sortById.mp hq)
    rw [ho] at ho'; cases ho'
    obtain ⟨f, hf, rfl⟩ := flat_slot_feature hsl hb
    obtain ⟨ps, hps, hm⟩ := jfeaturesSuccs_flat (op := op) (K := K) (ts := ts) (hp.length + 1) ho (allFeatures t) hfeat
    have hbps : b ∈ ps := hm f hf b hb
    have hnode : nodeSuccs K ts op st.heap [] (hp.length + 1) q.2 t = .ok (ps, 0) := by
      unfold nodeSuccs
      have : (t.super == some ARRAY_BASE) = false := by
        cases hh : (t.super == some ARRAY_BASE)
        · rfl
        · exact absurd (eq_of_beq hh) hsup
      rw [this]
      exact hps
    have hsucc : b ∈ succsOf K ts op st.heap (hp.length + 1) q.2 := by
      rw [succsOf_eq K ts op ho (getType_of_find ht) hnode]; exact hbps
    have hnz : xidOf st.heap b ≠ some 0 := by
      intro h0
      have := jst_ids_pos hwf hfa b 0 h0
      omega
    have hbm := findAllFs_closed_aux K ts op hp c.nextXid _ st hpos hfa q.1 q.2 b
      (mem_sortById.mp hq) hsucc hnz
    obtain ⟨p, hp1, hp2⟩ := List.mem_map.mp hbm
    obtain ⟨x, b'⟩ := p
    simp only at hp2
    subst hp2
    exact ⟨x, (hids (x, b') (mem_sortById.mpr hp1)).1, mem_sortById.mpr hp1⟩
  · intro nv hnv e he
    have hseed : e.oid ∈ defaultSeeds c := by
      unfold defaultSeeds
      exact List.mem_flatMap.mpr ⟨nv, hnv, List.mem_map.mpr ⟨e, he, rfl⟩⟩
    have hnz : xidOf st.heap e.oid ≠ some 0 := by
      intro h0
      have := jst_ids_pos hwf hfa e.oid 0 h0
      omega
    have hbm := findAllFs_complete_aux K ts op hp c.nextXid _ st hpos hfa e.oid (.seed _ hseed) hnz
    obtain ⟨p, hp1, hp2⟩ := List.mem_map.mp hbm
    obtain ⟨x, b'⟩ := p
    simp only at hp2
    subst hp2
    exact ⟨x, mem_sortById.mpr hp1⟩

end Cassis.Json
