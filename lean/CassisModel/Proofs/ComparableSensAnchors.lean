/-
The anchor map of `_generate_anchors`, characterised: every collected structure is mapped (under its xmi:id) to its
anchor text plus a counter, and two structures with the same anchor text get different counters.
-/
import CassisModel.Proofs.ComparableSensStr
import CassisModel.Proofs.Comparable

namespace Cassis.Comparable
open Cassis.TS Cassis.Traverse

/-! ### the id-keyed map -/

theorem getById_setById_same (l : List (Option Int × String)) (k : Option Int) (v : String) :
    getById (setById l k v) k = some v := by
  induction l with
  | nil => simp [setById, getById]
  | cons kv rest ih =>
    obtain ⟨k', v'⟩ := kv
    cases h : (k' == k) with
    | true => simp [setById, getById, h]
    | false =>
      simp only [setById, h, Bool.false_eq_true, if_false, getById]
      exact ih

theorem getById_setById_other (l : List (Option Int × String)) (k k2 : Option Int) (v : String) (hne : k2 ≠ k) :
    getById (setById l k v) k2 = getById l k2 := by
  have hk : (k == k2) = false := by simp [Ne.symm hne]
  induction l with
  | nil => simp [setById, getById, hk]
  | cons kv rest ih =>
    obtain ⟨k', v'⟩ := kv
    cases h : (k' == k) with
    | true =>
      have hk' : k' = k := by simpa using h
      subst hk'
      simp [setById, getById, hk]
    | false =>
      simp only [setById, h, Bool.false_eq_true, if_false, getById]
      rw [ih]

/-! ### one step -/

/-- how many structures got the anchor text `s` so far -/
def cnt (st : AnchorSt) (s : String) : Nat := (alistGet? st.counts s).getD 0

theorem anchorStep_ok {cass : List Cas} {hp : Heap} {indexed : List Nat} {o : Opts} {st st' : AnchorSt} {a : Nat}
    (h : anchorStep cass hp indexed o st a = .ok st') :
    ∃ s, anchorOf cass hp indexed o a = .ok s ∧
      st' = { counts := alistSet st.counts s (cnt st s + 1),
              byId := setById st.byId (xidOf hp a) (withCount s (cnt st s)) } := by
  unfold anchorStep at h
  cases hs : anchorOf cass hp indexed o a with
  | error e => rw [hs] at h; cases h
  | ok s =>
    rw [hs] at h
    refine ⟨s, rfl, ?_⟩
    have h' : Except.ok _ = Except.ok st' := h
    cases h'
    rfl

theorem cnt_set_same (st : AnchorSt) (s : String) (n : Nat) (b : List (Option Int × String)) :
    cnt { counts := alistSet st.counts s n, byId := b } s = n := by
  unfold cnt
  simp only [alistGet?_set_same, Option.getD_some]

theorem cnt_set_other (st : AnchorSt) (s s2 : String) (n : Nat) (b : List (Option Int × String)) (h : s2 ≠ s) :
    cnt { counts := alistSet st.counts s n, byId := b } s2 = cnt st s2 := by
  unfold cnt
  simp only [alistGet?_set_other _ _ _ _ h]

/-- the invariant of the loop over the structures processed so far -/
structure AInv (cass : List Cas) (hp : Heap) (indexed : List Nat) (o : Opts) (P : List Nat) (st : AnchorSt) : Prop where
  has : ∀ a ∈ P, ∃ s n, anchorOf cass hp indexed o a = .ok s ∧
    getById st.byId (xidOf hp a) = some (withCount s n) ∧ n < cnt st s
  ne : ∀ a ∈ P, ∀ b ∈ P, a ≠ b → anchorOf cass hp indexed o a = anchorOf cass hp indexed o b →
    getById st.byId (xidOf hp a) ≠ getById st.byId (xidOf hp b)

theorem AInv.mono {cass : List Cas} {hp : Heap} {indexed : List Nat} {o : Opts} {P P' : List Nat} {st : AnchorSt}
    (h : AInv cass hp indexed o P st) (hsub : ∀ a ∈ P', a ∈ P) : AInv cass hp indexed o P' st :=
  ⟨fun a ha => h.has a (hsub a ha), fun a ha b hb => h.ne a (hsub a ha) b (hsub b hb)⟩

theorem AInv.nil (cass : List Cas) (hp : Heap) (indexed : List Nat) (o : Opts) (st : AnchorSt) :
    AInv cass hp indexed o [] st :=
  ⟨fun a ha => (by cases ha), fun a ha => (by cases ha)⟩

theorem AInv.step {cass : List Cas} {hp : Heap} {indexed : List Nat} {o : Opts} {addrs P : List Nat}
    {st st' : AnchorSt} {c : Nat} (hx : XidInj hp addrs) (hP : ∀ a ∈ P, a ∈ addrs) (hc : c ∈ addrs)
    (inv : AInv cass hp indexed o P st) (h : anchorStep cass hp indexed o st c = .ok st') :
    AInv cass hp indexed o (c :: P) st' := by
  obtain ⟨sc, hsc, rfl⟩ := anchorStep_ok h
  -- facts about an old member different from `c`
  have old : ∀ a ∈ P, a ≠ c → ∃ s n, anchorOf cass hp indexed o a = .ok s ∧
      getById (setById st.byId (xidOf hp c) (withCount sc (cnt st sc))) (xidOf hp a) = some (withCount s n) ∧
      n < cnt st s := by
    intro a ha hac
    obtain ⟨s, n, h1, h2, h3⟩ := inv.has a ha
    refine ⟨s, n, h1, ?_, h3⟩
    rw [getById_setById_other _ _ _ _ (fun e => hac (hx a (hP a ha) c hc e))]
    exact h2
  have new : getById (setById st.byId (xidOf hp c) (withCount sc (cnt st sc))) (xidOf hp c) =
      some (withCount sc (cnt st sc)) := getById_setById_same _ _ _
  -- `c` against an old member with the same text
  have clash : ∀ a ∈ P, a ≠ c → anchorOf cass hp indexed o a = anchorOf cass hp indexed o c →
      getById (setById st.byId (xidOf hp c) (withCount sc (cnt st sc))) (xidOf hp a) ≠
      getById (setById st.byId (xidOf hp c) (withCount sc (cnt st sc))) (xidOf hp c) := by
    intro a ha hac he
    obtain ⟨s, n, h1, h2, h3⟩ := old a ha hac
    rw [h2, new]
    intro heq
    have hss : s = sc := by
      rw [h1, hsc] at he
      exact Except.ok.inj he
    subst hss
    have := withCount_inj_right s n (cnt st s) (Option.some.inj heq)
    omega
  constructor
  · intro a ha
    by_cases hac : a = c
    · subst hac
      refine ⟨sc, cnt st sc, hsc, new, ?_⟩
      rw [cnt_set_same]
      omega
    · have haP : a ∈ P := by
        rcases List.mem_cons.1 ha with h | h
        · exact absurd h hac
        · exact h
      obtain ⟨s, n, h1, h2, h3⟩ := old a haP hac
      refine ⟨s, n, h1, h2, ?_⟩
      by_cases hs : s = sc
      · subst hs
        rw [cnt_set_same]
        omega
      · rw [cnt_set_other _ _ _ _ _ hs]
        exact h3
  · intro a ha b hb hab he
    have memP : ∀ x, x ∈ c :: P → x ≠ c → x ∈ P := by
      intro x hx' hxc
      rcases List.mem_cons.1 hx' with h | h
      · exact absurd h hxc
      · exact h
    by_cases hac : a = c
    · subst hac
      have hbc : b ≠ a := fun e => hab e.symm
      exact fun e => clash b (memP b hb hbc) hbc he.symm e.symm
    · by_cases hbc : b = c
      · subst hbc
        exact clash a (memP a ha hac) hac he
      · have haP := memP a ha hac
        have hbP := memP b hb hbc
        show getById (setById _ _ _) _ ≠ getById (setById _ _ _) _
        rw [getById_setById_other _ _ _ _ (fun e => hac (hx a (hP a haP) c hc e)),
          getById_setById_other _ _ _ _ (fun e => hbc (hx b (hP b hbP) c hc e))]
        exact inv.ne a haP b hbP hab he

theorem AInv.list {cass : List Cas} {hp : Heap} {indexed : List Nat} {o : Opts} {addrs : List Nat}
    (hx : XidInj hp addrs) (l : List Nat) (hl : ∀ a ∈ l, a ∈ addrs) (P : List Nat) (st st' : AnchorSt)
    (hP : ∀ a ∈ P, a ∈ addrs) (inv : AInv cass hp indexed o P st)
    (h : anchorsOfList cass hp indexed o l st = .ok st') : AInv cass hp indexed o (l ++ P) st' := by
  induction l generalizing P st with
  | nil =>
    simp only [anchorsOfList] at h
    cases h
    exact inv
  | cons c cs ih =>
    rw [anchorsOfList] at h
    split at h
    · cases h
    · rename_i st1 h1
      have hc : c ∈ addrs := hl c List.mem_cons_self
      have inv1 := AInv.step hx hP hc inv h1
      have := ih (fun a ha => hl a (List.mem_cons_of_mem _ ha)) (c :: P) st1
        (fun a ha => by
          rcases List.mem_cons.1 ha with h | h
          · subst h; exact hc
          · exact hP a h) inv1 h
      refine this.mono ?_
      intro a ha
      simp only [List.cons_append, List.mem_cons, List.mem_append] at ha ⊢
      rcases ha with h | h | h
      · exact Or.inr (Or.inl h)
      · exact Or.inl h
      · exact Or.inr (Or.inr h)

theorem AInv.gen {ts : TypeSystem} {cass : List Cas} {hp : Heap} {indexed : List Nat} {o : Opts} {addrs : List Nat}
    (hx : XidInj hp addrs) (sorted L : List (String × List Nat)) (hL : ∀ p ∈ L, ∀ a ∈ p.2, a ∈ addrs)
    (P : List Nat) (st st' : AnchorSt) (hP : ∀ a ∈ P, a ∈ addrs) (inv : AInv cass hp indexed o P st)
    (h : genAnchors ts cass hp indexed o sorted L st = .ok st') :
    AInv cass hp indexed o (L.flatMap (·.2) ++ P) st' := by
  induction L generalizing P st with
  | nil =>
    simp only [genAnchors] at h
    cases h
    exact inv
  | cons p rest ih =>
    obtain ⟨t, fss⟩ := p
    rw [genAnchors] at h
    split at h
    · cases h
    · split at h
      · cases h
      · rename_i st1 h1
        have hfss : ∀ a ∈ fss, a ∈ addrs := hL (t, fss) List.mem_cons_self
        have inv1 := AInv.list hx fss hfss P st st1 hP inv h1
        have := ih (fun q hq => hL q (List.mem_cons_of_mem _ hq)) (fss ++ P) st1
          (fun a ha => by
            rcases List.mem_append.1 ha with h | h
            · exact hfss a h
            · exact hP a h) inv1 h
        refine this.mono ?_
        intro a ha
        simp only [List.flatMap_cons, List.mem_append] at ha ⊢
        rcases ha with (h | h) | h
        · exact Or.inr (Or.inl h)
        · exact Or.inl h
        · exact Or.inr (Or.inr h)

/-! ### the list `renderFrom` works on -/

/-- types in name order, the structures of a type sorted -/
def sortedOf (lt : Nat → Nat → Bool) (hp : Heap) (addrs : List Nat) : List (String × List Nat) :=
  (sortNames (typeKeys hp addrs)).map (fun t => (t, sortFs lt (group hp addrs t)))

theorem mem_typeKeys (hp : Heap) (addrs : List Nat) (a : Nat) (ha : a ∈ addrs) :
    tyOf hp a ∈ sortNames (typeKeys hp addrs) := by
  apply (sortNames_perm _).symm.subset
  unfold typeKeys
  rw [List.mem_eraseDups]
  exact List.mem_map_of_mem ha

theorem mem_sortedOf (lt : Nat → Nat → Bool) (hp : Heap) (addrs : List Nat) (a : Nat) :
    a ∈ (sortedOf lt hp addrs).flatMap (·.2) ↔ a ∈ addrs := by
  unfold sortedOf
  simp only [List.mem_flatMap, List.mem_map]
  constructor
  · rintro ⟨p, ⟨t, _, rfl⟩, ha⟩
    have := (sortFs_perm_aux lt _).subset ha
    exact (List.mem_filter.1 this).1
  · intro ha
    refine ⟨_, ⟨tyOf hp a, mem_typeKeys hp addrs a ha, rfl⟩, ?_⟩
    apply (sortFs_perm_aux lt _).symm.subset
    unfold group
    rw [List.mem_filter]
    exact ⟨ha, by simp⟩

/-- **the anchor map**: what `_generate_anchors` leaves behind for the collected structures -/
theorem genAnchors_spec {ts : TypeSystem} {cass : List Cas} {hp : Heap} {indexed : List Nat} {o : Opts}
    {addrs : List Nat} (lt : Nat → Nat → Bool) (hx : XidInj hp addrs) (st : AnchorSt)
    (h : genAnchors ts cass hp indexed o (sortedOf lt hp addrs) (sortedOf lt hp addrs) {} = .ok st) :
    AInv cass hp indexed o addrs st := by
  have := AInv.gen hx (sortedOf lt hp addrs) (sortedOf lt hp addrs)
    (fun p hp' a ha => (mem_sortedOf lt hp addrs a).1 (List.mem_flatMap.2 ⟨p, hp', ha⟩))
    [] {} st (fun a ha => by cases ha) (AInv.nil _ _ _ _ _) h
  refine this.mono ?_
  intro a ha
  rw [List.append_nil]
  exact (mem_sortedOf lt hp addrs a).2 ha

/-- two different collected structures whose anchor texts do not end in `)` have different anchors -/
theorem anchors_distinct {cass : List Cas} {hp : Heap} {indexed : List Nat} {o : Opts} {addrs : List Nat}
    {st : AnchorSt} (inv : AInv cass hp indexed o addrs st) (x y : Nat) (hx : x ∈ addrs) (hy : y ∈ addrs)
    (hxy : x ≠ y) (px : AnchorPlain cass hp indexed o x) (py : AnchorPlain cass hp indexed o y) :
    ∃ s s', getById st.byId (xidOf hp x) = some s ∧ getById st.byId (xidOf hp y) = some s' ∧ s ≠ s' := by
  obtain ⟨s, n, h1, h2, _⟩ := inv.has x hx
  obtain ⟨s', m, h1', h2', _⟩ := inv.has y hy
  refine ⟨_, _, h2, h2', ?_⟩
  intro heq
  obtain ⟨hs, _⟩ := withCount_inj s s' n m (px s h1) (py s' h1') heq
  subst hs
  have := inv.ne x hx y hy hxy (by rw [h1, h1'])
  rw [h2, h2', heq] at this
  exact this rfl

end Cassis.Comparable
