/-
Helper lemmas for `Properties/C13Perm.lean`, part A: the simulation invariant `SubP o X m` ("the merged type system so
far is a part of the type system `o`, descriptions of types aside") and what `pushInherited`, `addFeature`, `createType`
do to it.  This is `Sub` of `Proofs/MergeSelfA.lean` without the clause about type descriptions (the description of a
merged type is that of the declaration processed first, hence order dependent).
-/
import CassisModel.Proofs.MergeSelfA

namespace Cassis.TS

/-- the record `tm` (named `n`) of the merged type system against the record `to` of `o` -/
structure SubRecP (o : TypeSystem) (X : String → Prop) (n : String) (tm to : TypeRec) : Prop where
  /-- the same supertype — except for the names in `X`, which the merge may still move down: the document annotation
      type, which a fresh type system registers below `uima.tcas.Annotation` (`isDA`), or names declared with
      competing supertypes -/
  super : ¬ X n → to.super = tm.super
  superW : ∀ s, tm.super = some s → Anc o s n
  feats : ∀ f ∈ eff tm, ∃ g ∈ eff to, featureEq g f = true
  kids : ∀ c ∈ tm.children, Anc o n c

/-- everything `m` declares, `o` declares too -/
def SubP (o : TypeSystem) (X : String → Prop) (m : TypeSystem) : Prop :=
  ∀ n tm, find? m n = some tm → ∃ to, find? o n = some to ∧ SubRecP o X n tm to

/-- the exception set of `Properties/C13Perm.lean` -/
abbrev isDA : String → Prop := fun n => n = DOCUMENT_ANNOTATION

variable {X : String → Prop}

theorem anc_subP {o m : TypeSystem} (hs : SubP o X m) {a b : String} (h : Anc m a b) : Anc o a b := by
  induction h with
  | refl ha =>
    obtain ⟨ta, hta⟩ := (hasExact_iff_find m a).mp ha
    obtain ⟨to, hto, _⟩ := hs a ta hta
    exact Anc.refl a ((hasExact_iff_find o a).mpr ⟨to, hto⟩)
  | step b s tb hfb hsb _ ih =>
    obtain ⟨to, hto, hr⟩ := hs b tb hfb
    exact ih.trans (hr.superW s hsb)

/-- `Sub` after replacing one record -/
theorem subP_setRec {o ts : TypeSystem} (hs : SubP o X ts) {c : String} {t r to : TypeRec}
    (hf : find? ts c = some t) (hrn : r.name = c) (hto : find? o c = some to) (hr : SubRecP o X c r to) :
    SubP o X (setRec ts r) := by
  intro n tm hn
  by_cases hnc : n = c
  · subst hnc
    rw [find?_setRec_eq ts r t hrn hf] at hn
    cases hn
    exact ⟨to, hto, hr⟩
  · rw [find_setRec_other ts r n (by rw [hrn]; exact hnc)] at hn
    exact hs n tm hn

/-! ### `pushInherited` neither clashes nor leaves the invariant -/

theorem push_subP (o : TypeSystem) (hfo : FeatInv o) (f : Feature) (fuel : Nat) (ts : TypeSystem)
    (cs : List String) :
    SubP o X ts → (∀ c ∈ cs, CovIn o c f) →
      (∀ e, pushInherited f fuel ts cs = .error e → e = .outOfFuel) ∧
      (∀ ts', pushInherited f fuel ts cs = .ok ts' → SubP o X ts') := by
  fun_induction pushInherited f fuel ts cs with
  | case1 =>
    intro _ _
    exact ⟨fun e h => (by cases h; rfl), fun ts' h => (by cases h)⟩
  | case2 =>
    intro hs _
    exact ⟨fun e h => (by cases h), fun ts' h => (by cases h; exact hs)⟩
  | case3 fuel ts c cs hf ih =>
    intro hs hcov
    exact ih hs (fun c' hc' => hcov c' (List.mem_cons_of_mem _ hc'))
  | case4 fuel ts c cs t hf hchk =>
    intro hs hcov
    exfalso
    obtain ⟨g, hg, hgn, hgf⟩ := addCheck_true_conflict hchk
    obtain ⟨to, hto, hr⟩ := hs c t hf
    obtain ⟨g0, hg0, hgg⟩ := hr.feats g (List.mem_append_right _ hg)
    obtain ⟨tc, htc, f0, hf0, hff⟩ := hcov c List.mem_cons_self
    rw [hto] at htc; cases htc
    have := cov_agree hfo hto hg0 hf0 hgg hff hgn
    rw [this] at hgf; cases hgf
  | case5 fuel ts c cs t hf hchk ih =>
    intro hs hcov
    exact ih hs (fun c' hc' => hcov c' (List.mem_cons_of_mem _ hc'))
  | case6 fuel ts c cs t hf hchk ts1 ih2 ih1 =>
    intro hs hcov
    obtain ⟨to, hto, hr⟩ := hs c t hf
    have hcovc := hcov c List.mem_cons_self
    have hs1 : SubP o X ts1 := by
      show SubP o X (setRec ts { t with inh := t.inh ++ [f] })
      have htn : t.name = c := find?_name hf
      apply subP_setRec (r := { t with inh := t.inh ++ [f] }) hs hf htn hto
      refine ⟨hr.super, hr.superW, ?_, hr.kids⟩
      intro x hx
      rcases List.mem_append.mp hx with hx | hx
      · exact hr.feats x (List.mem_append_left _ hx)
      · rcases List.mem_append.mp hx with hx | hx
        · exact hr.feats x (List.mem_append_right _ hx)
        · simp only [List.mem_singleton] at hx; subst hx
          obtain ⟨tc, htc, f0, hf0, hff⟩ := hcovc
          rw [hto] at htc; cases htc
          exact ⟨f0, hf0, hff⟩
    have hkids : ∀ d ∈ t.children, CovIn o d f := by
      intro d hd
      exact covIn_anc hfo hcovc (hr.kids d hd)
    obtain ⟨a1, a2⟩ := ih2 hs1 hkids
    cases h2 : pushInherited f fuel ts1 t.children with
    | error e =>
      simp only [bind, Except.bind]
      refine ⟨?_, fun ts' h => by cases h⟩
      intro e' h; cases h; exact a1 e h2
    | ok ts2 =>
      simp only [bind, Except.bind]
      exact ih1 ts2 (a2 ts2 h2) (fun c' hc' => hcov c' (List.mem_cons_of_mem _ hc'))

/-! ### `addFeature` succeeds on what the original declares -/

theorem addFeature_subP (o : TypeSystem) (hfo : FeatInv o) (ts : TypeSystem) (dom : String) (f : Feature)
    (hc : Consistent ts) (hs : SubP o X ts) (hreg : hasExact ts dom = true)
    (hcov : CovIn o dom f) : ∃ ts', addFeature ts dom f = .ok ts' ∧ SubP o X ts' := by
  obtain ⟨t, ht⟩ := (hasExact_iff_find ts dom).mp hreg
  obtain ⟨to, hto, hr⟩ := hs dom t ht
  obtain ⟨tc, htc, f0, hf0, hff⟩ := hcov
  rw [hto] at htc; cases htc
  unfold addFeature
  rw [ht]
  simp only
  cases hchk : addCheck t f false with
  | conflict =>
    exfalso
    obtain ⟨g, hg, hgn, hgf⟩ := addCheck_false_conflict_inv hchk
    obtain ⟨g0, hg0, hgg⟩ := hr.feats g hg
    have := cov_agree hfo hto hg0 hf0 hgg hff hgn
    rw [this] at hgf; cases hgf
  | same => exact ⟨ts, rfl, hs⟩
  | fresh =>
    simp only
    have hdc : descendantConflict ts dom f = false := by
      cases hd : descendantConflict ts dom f with
      | false => rfl
      | true =>
        exfalso
        unfold descendantConflict at hd
        obtain ⟨d, hdm, hdp⟩ := List.any_eq_true.mp hd
        simp only [Bool.and_eq_true] at hdp
        obtain ⟨_, hdp⟩ := hdp
        cases hfd : find? ts d with
        | none => rw [hfd] at hdp; cases hdp
        | some td =>
          rw [hfd] at hdp
          simp only at hdp
          cases hfg : td.own.find? (·.name == f.name) with
          | none => rw [hfg] at hdp; cases hdp
          | some g =>
            rw [hfg] at hdp
            simp only at hdp
            have hanc : Anc ts dom d := (descendants_eq_closure_aux ts hc dom d hreg).mp hdm
            have hanco : Anc o dom d := anc_subP hs hanc
            obtain ⟨tdo, htdo, f1, hf1, hff1⟩ := covIn_anc hfo ⟨to, hto, f0, hf0, hff⟩ hanco
            obtain ⟨tdo', htdo', hrd⟩ := hs d td hfd
            rw [htdo] at htdo'; cases htdo'
            obtain ⟨g0, hg0, hgg⟩ := hrd.feats g (List.mem_append_left _ (find_name_some hfg).1)
            have := cov_agree hfo htdo hg0 hf1 hgg hff1 (find_name_some hfg).2
            rw [this] at hdp; cases hdp
    rw [hdc]
    simp only [Bool.false_eq_true, if_false]
    have htn : t.name = dom := find?_name ht
    have hs1 : SubP o X (setRec ts { t with own := t.own ++ [f] }) := by
      apply subP_setRec (r := { t with own := t.own ++ [f] }) hs ht htn hto
      refine ⟨hr.super, hr.superW, ?_, hr.kids⟩
      intro x hx
      rcases List.mem_append.mp hx with hx | hx
      · rcases List.mem_append.mp hx with hx | hx
        · exact hr.feats x (List.mem_append_left _ hx)
        · simp only [List.mem_singleton] at hx; subst hx
          exact ⟨f0, hf0, hff⟩
      · exact hr.feats x (List.mem_append_right _ hx)
    have hkids : ∀ d ∈ t.children, CovIn o d f := by
      intro d hd
      exact covIn_anc hfo ⟨to, hto, f0, hf0, hff⟩ (hr.kids d hd)
    obtain ⟨a1, a2⟩ := push_subP o hfo f (ts.types.length + 1) _ t.children hs1 hkids
    cases hp : pushInherited f (ts.types.length + 1) (setRec ts { t with own := t.own ++ [f] }) t.children with
    | ok ts' => exact ⟨ts', rfl, a2 ts' hp⟩
    | error e =>
      exfalso
      have he := a1 e hp
      subst he
      have := pushInherited_ne_fuel f (setRec ts { t with own := t.own ++ [f] }) t.children
      have hl : (setRec ts { t with own := t.own ++ [f] }).types.length = ts.types.length := by
        simp [setRec]
      rw [hl] at this
      exact this hp

theorem createType_stepP (K : Consts) (o : TypeSystem) (hfo : FeatInv o) (ts : TypeSystem) (n s : String)
    (dsc : Option String) (tn sup : TypeRec) (hc : Consistent ts) (hf : FeatInv ts) (hs : SubP o X ts)
    (hnew : hasExact ts n = false) (hsup : find? ts s = some sup) (hnf : K.finalTypes.contains s = false)
    (htn : find? o n = some tn) (hex : ¬ X n → tn.super = some s) (hanc : Anc o s n) :
    ∃ ts', createType K ts n s dsc = .ok ts' ∧ Consistent ts' ∧ FeatInv ts' ∧ SubP o X ts' ∧ Grow K ts ts' ∧
      hasExact ts' n = true := by
  obtain ⟨ts', h⟩ := createType_succeeds K ts n s dsc sup hf hnew hsup hnf
  refine ⟨ts', h, consistent_createType_aux K ts ts' n s _ hc hnew h,
    featInv_createType_aux K ts ts' n s _ hc hf hnew h, ?_⟩
  obtain ⟨sup', hsup', _, rfl⟩ := createType_shape K ts ts' n s _ hc hf hnew h
  rw [getType_of_find hsup] at hsup'
  have e : sup = sup' := by injection hsup'
  subst e
  have hsn : sup.name = s := find?_name hsup
  have hfind := find_create ts ts.redeclared n sup.name
    { name := n, super := some sup.name, descr := dsc, inh := allFeatures sup } rfl hnew
  refine ⟨?_, ?_, ?_⟩
  · -- Sub
    intro x tm hx
    rw [hfind] at hx
    by_cases hxn : x = n
    · subst hxn
      simp only [if_true, Option.some.injEq] at hx
      subst hx
      refine ⟨tn, htn, ?_, ?_, ?_, ?_⟩
      · intro hx; rw [hex hx, hsn]
      · intro s' hs'
        simp only [Option.some.injEq] at hs'
        rw [← hs', hsn]; exact hanc
      · intro g hg
        simp only [eff, List.nil_append] at hg
        have hg' : g ∈ eff sup := allFeatures_sub hg
        obtain ⟨so, hso, hrs⟩ := hs s sup hsup
        obtain ⟨g0, hg0, hgg⟩ := hrs.feats g hg'
        obtain ⟨tn', htn', g1, hg1, hgg1⟩ := covIn_anc hfo ⟨so, hso, g0, hg0, hgg⟩ hanc
        rw [htn] at htn'; cases htn'
        exact ⟨g1, hg1, hgg1⟩
      · intro c hc; cases hc
    · simp only [hxn, if_false] at hx
      cases hfx : find? ts x with
      | none => rw [hfx] at hx; cases hx
      | some t0 =>
        rw [hfx] at hx
        simp only [Option.map_some, Option.some.injEq] at hx
        subst hx
        obtain ⟨to, hto, hr⟩ := hs x t0 hfx
        refine ⟨to, hto, ?_, ?_, ?_, ?_⟩
        · rw [upd_super]; exact hr.super
        · rw [upd_super]; exact hr.superW
        · intro g hg
          simp only [eff, upd_own, upd_inh] at hg
          exact hr.feats g hg
        · intro c hc
          rcases upd_children _ _ _ _ hc with hc | ⟨h1, h2⟩
          · exact hr.kids c hc
          · subst h2
            rw [← find?_name hfx, h1, hsn]; exact hanc
  · -- Grow
    intro x t hx
    have hxn : x ≠ n := by
      intro e; subst e
      rw [find?_none_of_not_has hnew] at hx; cases hx
    refine ⟨upd sup.name n t, ?_, upd_super _ _ _, upd_descr _ _ _, ?_, ?_, ?_⟩
    · rw [hfind, if_neg hxn, hx]; rfl
    · intro g hg; rw [upd_own]; exact hg
    · intro g hg; rw [upd_inh]; exact hg
    · intro _; rw [upd_own]
  · rw [hasExact_iff_find]
    exact ⟨_, by rw [hfind, if_pos rfl]⟩

end Cassis.TS
