/-
Point updates of the heap (`Heap.setSlot`, the model of `fs.f = v`) and what they leave untouched: the types, the ids,
every other slot — hence, when the slot is not an offset, the sort order, and, when it is neither an offset nor the
sofa, the whole anchor map.
-/
import CassisModel.Proofs.ComparableSensTable

namespace Cassis.Comparable
open Cassis.TS Cassis.Traverse

/-- `hp'` is `hp` with the (existing) slot `f` of `a` set to `v` -/
structure HeapUpd (hp hp' : Heap) (a : Nat) (f : String) (v : Val) : Prop where
  len : hp'.length = hp.length
  ty : ∀ c, tyOf hp' c = tyOf hp c
  xid : ∀ c, xidOf hp' c = xidOf hp c
  same : slot hp' a f = some v
  other : ∀ c n, (c ≠ a ∨ n ≠ f) → slot hp' c n = slot hp c n

theorem setSlot_upd {hp hp' : Heap} {a : Nat} {f : String} {p v : Val} (hs : slot hp a f = some p)
    (h : Heap.setSlot hp a f v = .ok hp') : HeapUpd hp hp' a f v := by
  unfold slot at hs
  cases ho : hp[a]? with
  | none => rw [ho] at hs; cases hs
  | some ob =>
    rw [ho] at hs
    simp only [Option.bind_some] at hs
    unfold Heap.setSlot at h
    rw [ho] at h
    simp only [hs, Except.ok.injEq] at h
    subst h
    have hlt : a < hp.length := by
      rcases Nat.lt_or_ge a hp.length with h | h
      · exact h
      · rw [List.getElem?_eq_none h] at ho; cases ho
    have get : ∀ c, (hp.set a { ob with slots := alistSet ob.slots f v })[c]? =
        if a = c then some { ob with slots := alistSet ob.slots f v } else hp[c]? := by
      intro c
      rw [List.getElem?_set]
      by_cases hac : a = c
      · subst hac; simp [hlt]
      · simp [hac]
    refine ⟨by simp, ?_, ?_, ?_, ?_⟩
    · intro c
      unfold tyOf
      rw [get]
      by_cases hac : a = c
      · subst hac; simp [ho]
      · simp [hac]
    · intro c
      unfold xidOf
      rw [get]
      by_cases hac : a = c
      · subst hac; simp [ho]
      · simp [hac]
    · unfold slot
      rw [get]
      simp [alistGet?_set_same]
    · intro c n hcn
      unfold slot
      rw [get]
      by_cases hac : a = c
      · subst hac
        have hn : n ≠ f := by
          rcases hcn with h | h
          · exact absurd rfl h
          · exact h
        simp [ho, alistGet?_set_other _ _ _ _ hn]
      · simp [hac]

/-! ### agreement of two heaps on what sorting looks at -/

structure AgreeSort (hp hp' : Heap) : Prop where
  ty : ∀ c, tyOf hp' c = tyOf hp c
  ann : ∀ c, isAnnot hp' c = isAnnot hp c
  beg : ∀ c, beginOf hp' c = beginOf hp c
  en : ∀ c, endOf hp' c = endOf hp c

theorem HeapUpd.agreeSort {hp hp' : Heap} {a : Nat} {f : String} {v : Val} (u : HeapUpd hp hp' a f v)
    (hb : f ≠ "begin") (he : f ≠ "end") : AgreeSort hp hp' := by
  have sb : ∀ c, slot hp' c "begin" = slot hp c "begin" := fun c => u.other c _ (Or.inr (Ne.symm hb))
  have se : ∀ c, slot hp' c "end" = slot hp c "end" := fun c => u.other c _ (Or.inr (Ne.symm he))
  refine ⟨u.ty, ?_, ?_, ?_⟩
  · intro c; unfold isAnnot; rw [sb, se]
  · intro c; unfold beginOf; rw [sb]
  · intro c; unfold endOf; rw [se]

theorem AgreeSort.refl (hp : Heap) : AgreeSort hp hp := ⟨fun _ => rfl, fun _ => rfl, fun _ => rfl, fun _ => rfl⟩

theorem AgreeSort.ltFs {hp hp' : Heap} (ag : AgreeSort hp hp') (hsh : Nat → Int) : ltFs hp' hsh = ltFs hp hsh := by
  funext a b
  unfold Comparable.ltFs cmpFs
  simp only [ag.ann, ag.beg, ag.en]

theorem typeKeys_congr {hp hp' : Heap} (hty : ∀ c, tyOf hp' c = tyOf hp c) (addrs : List Nat) :
    typeKeys hp' addrs = typeKeys hp addrs := by
  unfold typeKeys
  rw [show tyOf hp' = tyOf hp from funext hty]

theorem group_congr {hp hp' : Heap} (hty : ∀ c, tyOf hp' c = tyOf hp c) (addrs : List Nat) (t : String) :
    group hp' addrs t = group hp addrs t := by
  unfold group
  rw [show tyOf hp' = tyOf hp from funext hty]

theorem AgreeSort.sortedOf {hp hp' : Heap} (ag : AgreeSort hp hp') (hsh : Nat → Int) (addrs : List Nat) :
    sortedOf (Comparable.ltFs hp' hsh) hp' addrs = sortedOf (Comparable.ltFs hp hsh) hp addrs := by
  unfold Comparable.sortedOf
  rw [ag.ltFs, typeKeys_congr ag.ty]
  simp only [group_congr ag.ty]

theorem AgreeSort.distinct {hp hp' : Heap} (ag : AgreeSort hp hp') {addrs : List Nat} (hd : Distinct hp addrs) :
    Distinct hp' addrs := by
  intro a ha b hb hab hty
  rw [ag.ty, ag.ty] at hty
  rw [ag.ann, ag.ann, ag.beg, ag.beg, ag.en, ag.en]
  exact hd a ha b hb hab hty

theorem isArrayFs_congr {hp hp' : Heap} (hty : ∀ c, tyOf hp' c = tyOf hp c) (K : Consts) (c : Nat) :
    isArrayFs K hp' c = isArrayFs K hp c := by
  unfold isArrayFs
  rw [hty]

/-! ### agreement on what the anchors look at -/

structure AgreeAnchor (hp hp' : Heap) : Prop extends AgreeSort hp hp' where
  xid : ∀ c, xidOf hp' c = xidOf hp c
  sofa : ∀ c, slot hp' c "sofa" = slot hp c "sofa"

theorem HeapUpd.agreeAnchor {hp hp' : Heap} {a : Nat} {f : String} {v : Val} (u : HeapUpd hp hp' a f v)
    (hb : f ≠ "begin") (he : f ≠ "end") (hs : f ≠ "sofa") : AgreeAnchor hp hp' :=
  { u.agreeSort hb he with xid := u.xid, sofa := fun c => u.other c _ (Or.inr (Ne.symm hs)) }

theorem AgreeAnchor.anchorOf {hp hp' : Heap} (ag : AgreeAnchor hp hp') (cass : List Cas) (indexed : List Nat)
    (o : Opts) (a : Nat) : anchorOf cass hp' indexed o a = anchorOf cass hp indexed o a := by
  unfold Comparable.anchorOf
  rw [ag.ty, ag.ann, ag.beg, ag.en, ag.sofa]

theorem AgreeAnchor.anchorsOfList {hp hp' : Heap} (ag : AgreeAnchor hp hp') (cass : List Cas) (indexed : List Nat)
    (o : Opts) (l : List Nat) (st : AnchorSt) :
    anchorsOfList cass hp' indexed o l st = anchorsOfList cass hp indexed o l st := by
  induction l generalizing st with
  | nil => rfl
  | cons a as ih =>
    rw [Comparable.anchorsOfList, Comparable.anchorsOfList]
    have : anchorStep cass hp' indexed o st a = anchorStep cass hp indexed o st a := by
      unfold anchorStep
      rw [ag.anchorOf, ag.xid]
    rw [this]
    cases anchorStep cass hp indexed o st a with
    | error e => rfl
    | ok st' => exact ih st'

theorem AgreeAnchor.genAnchors {hp hp' : Heap} (ag : AgreeAnchor hp hp') (ts : TypeSystem) (cass : List Cas)
    (indexed : List Nat) (o : Opts) (sorted l : List (String × List Nat)) (st : AnchorSt) :
    genAnchors ts cass hp' indexed o sorted l st = genAnchors ts cass hp indexed o sorted l st := by
  induction l generalizing st with
  | nil => rfl
  | cons p rest ih =>
    obtain ⟨t, fss⟩ := p
    rw [Comparable.genAnchors, Comparable.genAnchors, ag.anchorsOfList]
    cases getType ts t with
    | error e => rfl
    | ok _ =>
      simp only []
      cases Comparable.anchorsOfList cass hp indexed o fss st with
      | error e => rfl
      | ok st' => exact ih st'

end Cassis.Comparable
