/-
Round trip with collections, layer IL: the second pass of the reader (`postFeature`) on one inlined LIST feature of a
general structure (`PostInlineStmt … ListRange`, `Proofs/RoundTripCollStmts.lean`).

IntegerList / FloatList: the first pass left the blank-separated tokens; the second pass builds the list
(`buildPrimList`) and stores its address.  StringList: the first pass built the list already; nothing changes.
FSList: the first pass left the ids; the second pass resolves them and builds the list (`buildFsList`).
Helper files: `RoundTripCollPostListA` (builders), `…B` (slots, `postFeature`), `…C` (`Inl1R` by range, heads).
-/
import CassisModel.Proofs.RoundTripCollPostListC

namespace Cassis.Xmi.CIL
open Cassis.TS Cassis.Traverse Cassis.Lex Cassis.Xmi

/-! ### the four kinds of list -/

theorem post_intList (K : Consts) (ts : TypeSystem) (cass : List Cas) (H : Heap) (na : Int → Nat)
    (tsIdx ci' : Nat) (sofas : List (Int × PSofa)) (fss : List (Int × Nat))
    (o : Obj) (t : TypeRec) (f : Feature)
    (ht : find? ts o.ty = some t) (hf : f ∈ allFeatures t) (hnd : (ctorFields t).Nodup) (hname : NameOk f)
    (hm : f.multi.getD false = false) (hr : f.range = INTEGER_LIST)
    (hk : RangeKind K ts f.range false true false true false false)
    (v : Val) (hil : InlList H (fun hs => ∀ h ∈ hs, ∃ i : Int, h = .int i) v)
    (hpa : isPrimitiveArray K o.ty = false)
    (hpX : Heap) (a' : Nat) (o' : Obj) (ho' : hpX[a']? = some o') (hx : o'.xid ≠ none)
    (w : Val) (hw : alistGet? o'.slots f.name = some w) (hs1 : Slot1 K ts cass H hpX o f.name v w) :
    ∃ (hpY : Heap) (w' : Val), postFeature K ts tsIdx ci' sofas fss hpX a' o.ty false f = .ok hpY ∧
      StepX hpX hpY a' f.name w' ∧ Slot2 K ts cass H na ci' hpY o f.name v w' := by
  have hi := isInline_list hm hk.list
  have hsofa : f.name ≠ "sofa" := hname.2.2.2.2.2
  rcases hil with rfl | ⟨c, hs, rfl, hc, hP⟩
  · have := slot1_none hs1; subst this
    exact conclude_none K ts cass H na tsIdx ci' sofas fss hpX a' o o' f ho' hw
      (postFeature_primList_none K ts tsIdx ci' sofas fss hpX a' o.ty f o' hsofa hk.prim hpa hk.primArr hk.primList
        hm ho' hw)
  · have h1 := inl1R_of_slot1 ht hf hnd hi hs1
    rw [hr] at h1
    obtain ⟨hs', toks, hc', hmap, rfl⟩ := inl1R_int h1
    rw [hc] at hc'; cases hc'
    obtain ⟨is, rfl⟩ := all_int hP
    rw [showPrim_ints] at hmap; cases hmap
    obtain ⟨nodes, l, hb, hn, hlen, hl⟩ := buildPrimList_int_at hpX tsIdx is
    have hsp : splitWs (joinSp (is.map showInt)) = is.map showInt :=
      splitWs_joinSp _ (fun t ht => by obtain ⟨i, _, rfl⟩ := List.mem_map.1 ht; exact showInt_isTok i)
    refine conclude_build K ts cass H na tsIdx ci' sofas fss hpX a' o o' t f c (is.map Val.int) _ nodes l ht hf hnd hi
      hk.arr hc ho' hx hw hn (by rw [hlen, List.length_map]) (by rw [headExp_ints]; exact hl) ?_
    exact postFeature_primList_str K ts tsIdx ci' sofas fss hpX a' o.ty f o' _ _ l hsofa hk.prim hpa hk.primArr
      hk.primList hm ho' hw (by rw [hsp, hr]; exact hb)

theorem post_floatList (K : Consts) (ts : TypeSystem) (cass : List Cas) (H : Heap) (na : Int → Nat)
    (tsIdx ci' : Nat) (sofas : List (Int × PSofa)) (fss : List (Int × Nat))
    (o : Obj) (t : TypeRec) (f : Feature)
    (ht : find? ts o.ty = some t) (hf : f ∈ allFeatures t) (hnd : (ctorFields t).Nodup) (hname : NameOk f)
    (hm : f.multi.getD false = false) (hr : f.range = FLOAT_LIST)
    (hk : RangeKind K ts f.range false true false true false false)
    (v : Val) (hil : InlList H (fun hs => ∀ h ∈ hs, ∃ t : String, h = .float t ∧ TokOk t) v)
    (hpa : isPrimitiveArray K o.ty = false)
    (hpX : Heap) (a' : Nat) (o' : Obj) (ho' : hpX[a']? = some o') (hx : o'.xid ≠ none)
    (w : Val) (hw : alistGet? o'.slots f.name = some w) (hs1 : Slot1 K ts cass H hpX o f.name v w) :
    ∃ (hpY : Heap) (w' : Val), postFeature K ts tsIdx ci' sofas fss hpX a' o.ty false f = .ok hpY ∧
      StepX hpX hpY a' f.name w' ∧ Slot2 K ts cass H na ci' hpY o f.name v w' := by
  have hi := isInline_list hm hk.list
  have hsofa : f.name ≠ "sofa" := hname.2.2.2.2.2
  rcases hil with rfl | ⟨c, hs, rfl, hc, hP⟩
  · have := slot1_none hs1; subst this
    exact conclude_none K ts cass H na tsIdx ci' sofas fss hpX a' o o' f ho' hw
      (postFeature_primList_none K ts tsIdx ci' sofas fss hpX a' o.ty f o' hsofa hk.prim hpa hk.primArr hk.primList
        hm ho' hw)
  · have h1 := inl1R_of_slot1 ht hf hnd hi hs1
    rw [hr] at h1
    obtain ⟨hs', toks, hc', hmap, rfl⟩ := inl1R_float h1
    rw [hc] at hc'; cases hc'
    obtain ⟨tl, rfl, htl⟩ := all_float hP
    rw [showPrim_floats] at hmap
    have hts : tl = toks := Except.ok.inj hmap
    subst hts
    obtain ⟨nodes, l, hb, hn, hlen, hl⟩ := buildPrimList_float_at hpX tsIdx tl
    have hsp : splitWs (joinSp tl) = tl := splitWs_joinSp _ htl
    refine conclude_build K ts cass H na tsIdx ci' sofas fss hpX a' o o' t f c (tl.map Val.float) _ nodes l ht hf hnd
      hi hk.arr hc ho' hx hw hn (by rw [hlen, List.length_map]) (by rw [headExp_floats]; exact hl) ?_
    exact postFeature_primList_str K ts tsIdx ci' sofas fss hpX a' o.ty f o' _ _ l hsofa hk.prim hpa hk.primArr
      hk.primList hm ho' hw (by rw [hsp, hr]; exact hb)

theorem post_strList (K : Consts) (ts : TypeSystem) (cass : List Cas) (H : Heap) (na : Int → Nat)
    (tsIdx ci' : Nat) (sofas : List (Int × PSofa)) (fss : List (Int × Nat))
    (o : Obj) (t : TypeRec) (f : Feature)
    (ht : find? ts o.ty = some t) (hf : f ∈ allFeatures t) (hnd : (ctorFields t).Nodup) (hname : NameOk f)
    (hm : f.multi.getD false = false) (hr : f.range = STRING_LIST)
    (hk : RangeKind K ts f.range false true false true false true)
    (v : Val) (hil : InlList H (fun hs => hs ≠ [] ∧ ∀ h ∈ hs, h = .none ∨ ∃ s : String, h = .str s) v)
    (hpa : isPrimitiveArray K o.ty = false)
    (hpX : Heap) (a' : Nat) (o' : Obj) (ho' : hpX[a']? = some o')
    (w : Val) (hw : alistGet? o'.slots f.name = some w) (hs1 : Slot1 K ts cass H hpX o f.name v w) :
    ∃ (hpY : Heap) (w' : Val), postFeature K ts tsIdx ci' sofas fss hpX a' o.ty false f = .ok hpY ∧
      StepX hpX hpY a' f.name w' ∧ Slot2 K ts cass H na ci' hpY o f.name v w' := by
  have hi := isInline_list hm hk.list
  have hsofa : f.name ≠ "sofa" := hname.2.2.2.2.2
  rcases hil with rfl | ⟨c, hs, rfl, hc, _, hP⟩
  · have := slot1_none hs1; subst this
    exact conclude_none K ts cass H na tsIdx ci' sofas fss hpX a' o o' f ho' hw
      (postFeature_primList_none K ts tsIdx ci' sofas fss hpX a' o.ty f o' hsofa hk.prim hpa hk.primArr hk.primList
        hm ho' hw)
  · have h1 := inl1R_of_slot1 ht hf hnd hi hs1
    rw [hr] at h1
    obtain ⟨hs', addr, hc', _, rfl, hl, hlen⟩ := inl1R_str h1
    rw [hc] at hc'; cases hc'
    exact conclude_same K ts cass H na tsIdx ci' sofas fss hpX a' o o' t f c addr hs ht hf hnd hi hk.arr hc ho' hw
      (by rw [headExp_strs H na hs hP]; exact hl) hlen
      (postFeature_primList_ref K ts tsIdx ci' sofas fss hpX a' o.ty f o' addr hsofa hk.prim hpa hk.primArr
        hk.primList hm ho' hw)

theorem post_fsList (K : Consts) (ts : TypeSystem) (cass : List Cas) (H : Heap) (na : Int → Nat)
    (tsIdx ci' : Nat) (sofas : List (Int × PSofa)) (fss : List (Int × Nat))
    (a : Nat) (o : Obj) (t : TypeRec) (f : Feature) (ho : H[a]? = some o)
    (ht : find? ts o.ty = some t) (hf : f ∈ allFeatures t) (hnd : (ctorFields t).Nodup) (hname : NameOk f)
    (hm : f.multi.getD false = false) (hr : f.range = FS_LIST)
    (hk : RangeKind K ts f.range false false false true false false)
    (v : Val) (hil : InlList H (fun hs => ∀ h ∈ hs, ∃ b : Nat, h = .ref b ∧ RefOk H b) v)
    (hpa : isPrimitiveArray K o.ty = false) (hfa : o.ty ≠ FS_ARRAY)
    (htg : ∀ b, Target K ts H a b → Resolves H fss na b)
    (hpX : Heap) (a' : Nat) (o' : Obj) (ho' : hpX[a']? = some o') (hx : o'.xid ≠ none)
    (hv : alistGet? o.slots f.name = some v)
    (w : Val) (hw : alistGet? o'.slots f.name = some w) (hs1 : Slot1 K ts cass H hpX o f.name v w) :
    ∃ (hpY : Heap) (w' : Val), postFeature K ts tsIdx ci' sofas fss hpX a' o.ty false f = .ok hpY ∧
      StepX hpX hpY a' f.name w' ∧ Slot2 K ts cass H na ci' hpY o f.name v w' := by
  have hi := isInline_list hm hk.list
  have hsofa : f.name ≠ "sofa" := hname.2.2.2.2.2
  rcases hil with rfl | ⟨c, hs, rfl, hc, _⟩
  · have := slot1_none hs1; subst this
    exact conclude_none K ts cass H na tsIdx ci' sofas fss hpX a' o o' f ho' hw
      (postFeature_ref_none K ts tsIdx ci' sofas fss hpX a' o.ty f o' hsofa hk.prim hpa hk.primArr hk.primList
        ho' hw)
  · have h1 := inl1R_of_slot1 ht hf hnd hi hs1
    rw [hr] at h1
    obtain ⟨bs, hc', rfl⟩ := inl1R_fs h1
    rw [hc] at hc'; cases hc'
    have hres : ∀ b ∈ bs, Resolves H fss na b := fun b hb =>
      htg b ⟨o, t, ho, ht, .inr (.inr (.inl ⟨f, hf, hi, hr, c, _, hv, hc, List.mem_map.2 ⟨b, hb, rfl⟩⟩))⟩
    obtain ⟨nodes, l, hb, hn, hlen, hl⟩ := buildFsList_at hpX tsIdx (bs.map (fun b => na (idOf H b)))
    refine conclude_build K ts cass H na tsIdx ci' sofas fss hpX a' o o' t f c (bs.map Val.ref) _ nodes l ht hf hnd
      hi hk.arr hc ho' hx hw hn (by rw [hlen, List.length_map, List.length_map])
      (by rw [headExp_refs H fss na bs hres]; exact hl) ?_
    rw [postFeature_fsList_str K ts tsIdx ci' sofas fss hpX a' o.ty f o' _ _ hsofa hk.prim hpa hk.primArr
      hk.primList hfa hr hm ho' hw (resolve_fs H fss na bs hres), hb]

end Cassis.Xmi.CIL

namespace Cassis.Xmi
open Cassis.TS Cassis.Traverse Cassis.Lex

theorem postInline_list (K : Consts) (ts : TypeSystem) (cass : List Cas) (H : Heap) (na : Int → Nat)
    (tsIdx ci' : Nat) (sofas : List (Int × PSofa)) (fss : List (Int × Nat)) :
    PostInlineStmt K ts cass H na tsIdx ci' sofas fss ListRange := by
  intro a o t f ho ht hf hnd hname hinl hlr hpa hfa htg hpX a' o' ho' hx v w hv hw hs1
  obtain ⟨hm, v0, hv0, hcases⟩ := hinl
  rw [hv] at hv0
  cases hv0
  rcases hcases with ⟨h, _⟩ | ⟨h, _⟩ | ⟨h, _⟩ | ⟨hr, hk, hil⟩ | ⟨hr, hk, hil⟩ | ⟨hr, hk, hil⟩ | ⟨hr, hk, hil⟩
  · exact absurd h (CIL.not_primArrTy_list hlr)
  · unfold ListRange at hlr
    rw [h] at hlr
    rcases hlr with h | h | h | h <;> exact absurd h (by decide)
  · unfold ListRange at hlr
    rw [h] at hlr
    rcases hlr with h | h | h | h <;> exact absurd h (by decide)
  · exact CIL.post_intList K ts cass H na tsIdx ci' sofas fss o t f ht hf hnd hname hm hr hk v hil hpa hpX a' o' ho' hx
      w hw hs1
  · exact CIL.post_floatList K ts cass H na tsIdx ci' sofas fss o t f ht hf hnd hname hm hr hk v hil hpa hpX a' o' ho'
      hx w hw hs1
  · exact CIL.post_strList K ts cass H na tsIdx ci' sofas fss o t f ht hf hnd hname hm hr hk v hil hpa hpX a' o' ho'
      w hw hs1
  · exact CIL.post_fsList K ts cass H na tsIdx ci' sofas fss a o t f ho ht hf hnd hname hm hr hk v hil hpa hfa htg hpX
      a' o' ho' hx hv w hw hs1

end Cassis.Xmi
