/-
JSON round trip with collections, layer **PG**: `parseFs` on the element written for a general structure (`JGenFs`).
This is `parseFs_flat` (`RoundTripJsonParse3.lean`) with `JGenFs` / `JFeatOk` in place of `FlatFs` / `FlatFeat`; the id of
the target of a reference comes from the closure of the collected structures (`ClosedL`) instead of the fragment.
-/
import CassisModel.Proofs.RoundTripJsonCollDefs

namespace Cassis.Json
open Cassis.TS Cassis.Traverse Cassis.Lex Cassis.Xmi Cassis.Xmi.RTB

theorem resolved_slotJ {K : Consts} {ts : TypeSystem} {cass : List Cas} {c : Cas} {ci : Nat} {H : Heap}
    {L : List (Int × Nat)} {na : Int → Nat} {ci' : Nat} {fss : List (Int × Val)} {cas' : Cas}
    (ctx : PCtx cass c ci H L na ci' fss cas') (q : Int × Nat) (hq : q ∈ L) (o : Obj) (ho : H[q.2]? = some o)
    (isAnn : Bool) (F : List Feature) (hnd : (F.map (·.name)).Nodup) (addr : Nat) (oc : Obj)
    (hoc : ∀ f ∈ F, alistGet? oc.slots f.name = some (baseJ cass isAnn o f.name (valF o f)))
    (f : Feature) (hf : f ∈ F) (v : Val) (hv : alistGet? o.slots f.name = some v)
    (hff : JFeatOk K ts c ci H isAnn o f) :
    alistGet? (resObj fss (tgtF cass H o) F oc).slots f.name = some (exp2 cass H na ci' isAnn o f.name v) ∨
      Pend H addr (resDef fss (tgtF cass H o) addr F) f.name v := by
  have hval : valF o f = v := by unfold valF; rw [hv]; rfl
  rw [resObj_at fss _ F oc hnd f hf, hoc f hf, hval]
  obtain ⟨_, _, _, _, _, v', hv', hcase⟩ := hff
  rw [hv] at hv'; cases hv'
  have htg : tgtF cass H o f = refTarget cass H v := by unfold tgtF; rw [hval]
  rcases hcase with ⟨_, hs⟩ | ⟨_, _, h3⟩ | ⟨_, _, _, _, _, hr⟩
  · rcases hs with ⟨vn, rfl, hsome⟩ | ⟨rfl, _⟩
    · obtain ⟨view, hview⟩ := Option.isSome_iff_exists.mp hsome
      have hmem : (vn, view) ∈ c.views := aget_mem _ _ _ hview
      have ht : refTarget cass H (.sofa ci vn) = some view.sofa.xid := by
        unfold refTarget
        dsimp only
        rw [ctx.hc]
        show (Cas.getViewRec c vn).map _ = _
        rw [hview]; rfl
      rw [htg, ht]
      dsimp only [Option.bind_some]
      rw [ctx.fss_sofa _ hmem]
      exact Or.inl rfl
    · rw [htg]; exact Or.inl rfl
  · rw [htg]
    rcases h3 with rfl | ⟨_, i, rfl⟩ | ⟨_, x, rfl⟩ | ⟨_, x, rfl⟩ | ⟨_, x, rfl⟩ <;> exact Or.inl rfl
  · rcases hr with rfl | ⟨b, rfl, _⟩
    · rw [htg]; exact Or.inl rfl
    · obtain ⟨y, hy, hyL⟩ := ctx.closed q hq o ho f.name b hv
      have ht : refTarget cass H (.ref b) = some y := hy
      rw [htg, ht]
      dsimp only [Option.bind_some]
      cases hl : lookup fss y with
      | some tv =>
        left
        dsimp only
        rw [ctx.fss_ref _ hyL tv hl]
        unfold exp2
        dsimp only
        rw [hy]
      | none =>
        right
        exact ⟨b, y, rfl, hy, resDef_mem fss _ addr F f hf y (by rw [htg, ht]) hl⟩

/-- only references to structures are ever deferred -/
theorem deferred_is_refJ {K : Consts} {ts : TypeSystem} {cass : List Cas} {c : Cas} {ci : Nat} {H : Heap}
    {L : List (Int × Nat)} {na : Int → Nat} {ci' : Nat} {fss : List (Int × Val)} {cas' : Cas}
    (ctx : PCtx cass c ci H L na ci' fss cas') (o : Obj) (isAnn : Bool) (f : Feature)
    (hff : JFeatOk K ts c ci H isAnn o f) (y : Int) (ht : tgtF cass H o f = some y) (hl : lookup fss y = none) :
    ∃ b, alistGet? o.slots f.name = some (.ref b) ∧ xidOf H b = some y := by
  obtain ⟨_, _, _, _, _, v, hv, hcase⟩ := hff
  have hval : valF o f = v := by unfold valF; rw [hv]; rfl
  unfold tgtF at ht
  rw [hval] at ht
  rcases hcase with ⟨_, hs⟩ | ⟨_, _, h3⟩ | ⟨_, _, _, _, _, hr⟩
  · rcases hs with ⟨vn, rfl, hsome⟩ | ⟨rfl, _⟩
    · obtain ⟨view, hview⟩ := Option.isSome_iff_exists.mp hsome
      have hmem : (vn, view) ∈ c.views := aget_mem _ _ _ hview
      have ht' : refTarget cass H (.sofa ci vn) = some view.sofa.xid := by
        unfold refTarget
        dsimp only
        rw [ctx.hc]
        show (Cas.getViewRec c vn).map _ = _
        rw [hview]; rfl
      rw [ht'] at ht
      cases ht
      rw [ctx.fss_sofa _ hmem] at hl
      cases hl
    · cases ht
  · rcases h3 with rfl | ⟨_, i, rfl⟩ | ⟨_, x, rfl⟩ | ⟨_, x, rfl⟩ | ⟨_, x, rfl⟩ <;> cases ht
  · rcases hr with rfl | ⟨b, rfl, _⟩
    · cases ht
    · exact ⟨b, hv, ht⟩

/-- everything but the conversion of the offsets -/
theorem parse_preJ {K : Consts} {ts : TypeSystem} {cass : List Cas} {c : Cas} {ci : Nat} {H : Heap}
    {L : List (Int × Nat)} {na : Int → Nat} {ci' : Nat} {fss : List (Int × Val)} {cas' : Cas} (tsIdx : Nat)
    (ctx : PCtx cass c ci H L na ci' fss cas') (s : RState) (hsf : s.fss = fss)
    (q : Int × Nat) (hq : q ∈ L) (o : Obj) (t : TypeRec) (ho : H[q.2]? = some o) (ht : find? ts o.ty = some t)
    (hfl : JGenFs K ts c ci H q.2) (hj : JsonFs ts H q.2) :
    ∃ (o1 : Obj) (ds : List Deferred),
      (∀ heapF, convStep ts s.cas t (s.heap ++ [o1]) s.heap.length = .ok heapF →
        parseFs K ts tsIdx s (flatJFs ts cass H q.1 o t) =
          .ok { s with heap := heapF, fss := setFs s.fss q.1 (.ref s.heap.length),
                       deferred := s.deferred ++ ds, maxId := max s.maxId q.1 }) ∧
      o1.ty = o.ty ∧ o1.xid = some q.1 ∧ o1.slots.map (·.1) = o.slots.map (·.1) ∧
      (∀ f ∈ allFeatures t, ∀ v, alistGet? o.slots f.name = some v →
        alistGet? o1.slots f.name = some (exp2 cass H na ci' (isInstanceOf ts o.ty ANNOTATION) o f.name v) ∨
          Pend H s.heap.length ds f.name v) ∧
      (∀ d ∈ ds, DefOk H s.heap.length o d) := by
  obtain ⟨o_, t_, ho_, ht_, htn, _, _, _, hpa, hfa, _, _, _, hnd, hslots, hfeat, hann⟩ := hfl
  rw [ho] at ho_; cases ho_
  rw [ht] at ht_; cases ht_
  obtain ⟨hend, hjf⟩ := hj o t ho ht
  have hNJ : NamesJ t := by
    intro f hf
    obtain ⟨h1, h2, h3, _⟩ := hjf f hf
    obtain ⟨hr, _, h5, h6, _⟩ := hfeat f hf
    exact ⟨hr, h6, h5, h1, h2, h3⟩
  have hnames : ∀ f ∈ allFeatures t, NameOk f.name := by
    intro f hf
    obtain ⟨h1, h2, h3, _⟩ := hjf f hf
    obtain ⟨_, _, h5, h6, _⟩ := hfeat f hf
    exact ⟨h1, h2, h3, h6, h5⟩
  have hndF : ((allFeatures t).map (·.name)).Nodup := hnd
  obtain ⟨hA, hR, hN⟩ := feats_parts cass H (isInstanceOf ts o.ty ANNOTATION) o (allFeatures t) hnames
  have hfield : ∀ f ∈ allFeatures t, f.name ∈ (ctorFields t).eraseDups := by
    intro f hf
    rw [List.mem_eraseDups]
    exact List.mem_map_of_mem hf
  have hk : ∀ p ∈ (allFeatures t).flatMap (kwA cass (isInstanceOf ts o.ty ANNOTATION) o) ++ (allFeatures t).flatMap (kwB o),
      p.1 ∈ (ctorFields t).eraseDups := by
    intro p hp
    rcases List.mem_append.mp hp with hp | hp
    · obtain ⟨f, hf, hpf⟩ := List.mem_flatMap.mp hp
      rw [kwA_keys _ _ _ f p hpf]; exact hfield f hf
    · obtain ⟨f, hf, hpf⟩ := List.mem_flatMap.mp hp
      rw [kwB_keys _ f p hpf]; exact hfield f hf
  have hcons := construct_flat t tsIdx q.1 _ hk
  have hkeys0 := consObj_keys t tsIdx q.1
    ((allFeatures t).flatMap (kwA cass (isInstanceOf ts o.ty ANNOTATION) o) ++ (allFeatures t).flatMap (kwB o))
  have hoc : ∀ f ∈ allFeatures t, alistGet? (consObj t tsIdx q.1
      ((allFeatures t).flatMap (kwA cass (isInstanceOf ts o.ty ANNOTATION) o) ++ (allFeatures t).flatMap (kwB o))).slots f.name =
        some (baseJ cass (isInstanceOf ts o.ty ANNOTATION) o f.name (valF o f)) := by
    intro f hf
    rw [consObj_get _ _ _ _ _ (hfield f hf), kwargs_get cass (isInstanceOf ts o.ty ANNOTATION) o _ hndF f hf]
  generalize hO0 : consObj t tsIdx q.1
    ((allFeatures t).flatMap (kwA cass (isInstanceOf ts o.ty ANNOTATION) o) ++ (allFeatures t).flatMap (kwB o)) = o0 at hcons hkeys0 hoc
  have hres := resolveRefs_flat s.fss (tgtF cass H o) s.heap (allFeatures t) o0 s.deferred (by
    intro f hf
    obtain ⟨_, _, h5, h6, _⟩ := hfeat f hf
    exact ⟨h6, h5, by rw [hkeys0]; exact hfield f hf⟩)
  have hk1 := resObj_keys s.fss (tgtF cass H o) (allFeatures t) o0 (by
    intro f hf; rw [hkeys0]; exact hfield f hf)
  obtain ⟨hty1, hxid1, _⟩ := resObj_fields s.fss (tgtF cass H o) (allFeatures t) o0
  refine ⟨resObj s.fss (tgtF cass H o) (allFeatures t) o0, resDef s.fss (tgtF cass H o) s.heap.length (allFeatures t),
    ?_, ?_, ?_, ?_, ?_, ?_⟩
  · intro heapF hconv
    rw [parseFs_flatJFs K ts tsIdx s cass H q.1 o t hNJ]
    have hgt : getTypeExact ts (flatJFsS ts cass H q.1 o t).ty = .ok t := getTypeExact_of_find ht
    have hpa' : isPrimitiveArray K t.name = false := by rw [htn]; exact hpa
    have hfa' : t.name ≠ FS_ARRAY := by rw [htn]; exact hfa
    refine parseFs_steps K ts tsIdx s _ t q.1 _ o0 _ heapF _ hend hgt rfl hpa' hfa' hN ?_ ?_ hconv
    · show construct t tsIdx (some q.1) (List.map kw (List.filter plainP ((allFeatures t).flatMap _)) ++ _) = _
      rw [hA]; exact hcons
    · show resolveRefs renameReserved s.fss s.heap.length (List.filter refP ((allFeatures t).flatMap _)) _ = _
      rw [hR]; exact hres
  · rw [hty1, ← hO0]; exact htn
  · rw [hxid1, ← hO0]; rfl
  · rw [hk1, hkeys0, hslots]
  · intro f hf v hv
    rw [← hsf] at ctx
    exact resolved_slotJ ctx q hq o ho _ (allFeatures t) hndF s.heap.length o0 hoc f hf v hv (hfeat f hf)
  · intro d hd
    obtain ⟨f, hf, y, h1, h2, h3⟩ := resDef_sound s.fss _ s.heap.length _ d hd
    rw [← hsf] at ctx
    obtain ⟨b, hb1, hb2⟩ := deferred_is_refJ ctx o _ f (hfeat f hf) y h1 h2
    exact ⟨f.name, b, y, h3, hb1, hb2⟩

theorem parseFs_genJ {K : Consts} {ts : TypeSystem} {cass : List Cas} {c : Cas} {ci : Nat} {H : Heap}
    {L : List (Int × Nat)} {na : Int → Nat} {ci' : Nat} {fss : List (Int × Val)} {cas' : Cas} (tsIdx : Nat)
    (ctx : PCtx cass c ci H L na ci' fss cas') (s : RState) (hsf : s.fss = fss) (hsc : s.cas = cas')
    (q : Int × Nat) (hq : q ∈ L) (o : Obj) (t : TypeRec) (ho : H[q.2]? = some o) (ht : find? ts o.ty = some t)
    (hfl : JGenFs K ts c ci H q.2) (hj : JsonFs ts H q.2) :
    ∃ (o' : Obj) (ds : List Deferred),
      parseFs K ts tsIdx s (flatJFs ts cass H q.1 o t) =
        .ok { s with heap := s.heap ++ [o'], fss := setFs s.fss q.1 (.ref s.heap.length),
                     deferred := s.deferred ++ ds, maxId := max s.maxId q.1 } ∧
      ObjPend H na ci' s.heap.length ds o o' q.1 ∧ (∀ d ∈ ds, DefOk H s.heap.length o d) := by
  obtain ⟨o1, ds, hparse, hty1, hxid1, hk1, hsl1, hdef⟩ := parse_preJ tsIdx ctx s hsf q hq o t ho ht hfl hj
  obtain ⟨o_, t_, ho_, ht_, htn, _, _, _, _, _, _, _, _, _, hslots, _, hann⟩ := hfl
  rw [ho] at ho_; cases ho_
  rw [ht] at ht_; cases ht_
  cases hA : isInstanceOf ts o.ty ANNOTATION with
  | false =>
    refine ⟨o1, ds, hparse _ ?_, ⟨hty1, hxid1, hk1, ?_⟩, hdef⟩
    · unfold convStep
      rw [htn, hA]
      rfl
    · intro n v hv
      obtain ⟨f, hf, rfl⟩ := flat_slot_feature hslots hv
      rcases hsl1 f hf v hv with h | h
      · left
        rw [h, hA, exp2_eq_exp3 cass H na ci' false o f.name v rfl]
      · exact Or.inr h
  | true =>
    obtain ⟨vn, view, text, b, e, hs, hview, htext, hb, he, hbl, hel⟩ := hann hA
    have hmem : (vn, view) ∈ c.views := aget_mem _ _ _ hview
    have hconv : view.sofa.conv = some (Offsets.table text) := ctx.conv _ hmem text htext
    -- the three slots of the new object
    obtain ⟨fs_, hfs, hfsn⟩ := flat_slot_feature hslots hs
    obtain ⟨fb, hfb, hfbn⟩ := flat_slot_feature hslots hb
    obtain ⟨fe, hfe, hfen⟩ := flat_slot_feature hslots he
    have hs1 : alistGet? o1.slots "sofa" = some (.sofa ci' vn) := by
      rcases hsl1 fs_ hfs _ (by rw [hfsn]; exact hs) with h | ⟨b', y, h', _⟩
      · rw [hfsn] at h; exact h
      · cases h'
    have hb1 : alistGet? o1.slots "begin" = some (.int ((Offsets.pythonToExternal (some (Offsets.table text)) b : Nat) : Int)) := by
      rcases hsl1 fb hfb _ (by rw [hfbn]; exact hb) with h | ⟨b', y, h', _⟩
      · rw [hfbn, hA] at h
        rw [h]
        unfold exp2
        dsimp only
        rw [extInt_ann cass ctx.hc hs hview "begin" (Or.inl rfl) b, hconv]
      · cases h'
    have he1 : alistGet? o1.slots "end" = some (.int ((Offsets.pythonToExternal (some (Offsets.table text)) e : Nat) : Int)) := by
      rcases hsl1 fe hfe _ (by rw [hfen]; exact he) with h | ⟨b', y, h', _⟩
      · rw [hfen, hA] at h
        rw [h]
        unfold exp2
        dsimp only
        rw [extInt_ann cass ctx.hc hs hview "end" (Or.inr rfl) e, hconv]
      · cases h'
    have hget : (s.heap ++ [o1])[s.heap.length]? = some o1 := get_last _ _
    have hcv := convertOffsets_eq (some (Offsets.table text)) hget hb1 he1
    rw [cvI_table text b hbl, cvI_table text e hel, set_last] at hcv
    have hgv : Cas.getViewRec s.cas vn = some { sofa := view.sofa, idx := [] } := by
      unfold Cas.getViewRec
      rw [hsc, ctx.views, bare_get]
      have : alistGet? c.views vn = some view := hview
      rw [this]; rfl
    refine ⟨{ o1 with slots := alistSet (alistSet o1.slots "begin" (Val.int b)) "end" (Val.int e) }, ds,
      hparse _ ?_, ⟨hty1, hxid1, ?_, ?_⟩, hdef⟩
    · unfold convStep
      rw [htn, hA]
      simp only [if_true]
      have hslot : Xmi.slot (s.heap ++ [o1]) s.heap.length "sofa" = some (.sofa ci' vn) := by
        unfold Xmi.slot Traverse.slot
        rw [hget]; exact hs1
      rw [hslot]
      dsimp only
      rw [hgv]
      dsimp only
      rw [hconv]
      exact hcv
    · dsimp only
      have k1 : "begin" ∈ o1.slots.map (·.1) := (aget_isSome_iff _ _).mp (by rw [hb1]; rfl)
      have k2 : "end" ∈ (alistSet o1.slots "begin" (Val.int b)).map (·.1) := by
        rw [aset_keys _ _ _ k1]; exact (aget_isSome_iff _ _).mp (by rw [he1]; rfl)
      rw [aset_keys _ _ _ k2, aset_keys _ _ _ k1, hk1]
    · intro n v hv
      dsimp only
      by_cases hne : n = "end"
      · subst hne
        left
        rw [alistGet?_set_same, he] at *
        cases hv
        rfl
      · rw [alistGet?_set_other _ _ _ _ hne]
        by_cases hnb : n = "begin"
        · subst hnb
          left
          rw [alistGet?_set_same]
          rw [hb] at hv
          cases hv
          rfl
        · rw [alistGet?_set_other _ _ _ _ hnb]
          obtain ⟨f, hf, rfl⟩ := flat_slot_feature hslots hv
          rcases hsl1 f hf v hv with h | h
          · left
            rw [h]
            congr 1
            apply exp2_eq_exp3
            have : (f.name == "begin" || f.name == "end") = false := by simp [hne, hnb]
            rw [this]; simp
          · exact Or.inr h

theorem parseGen_collJ : ParseGenStmt := by
  intro K ts cass c ci H L na ci' fss cas' tsIdx ctx s hsf hsc q hq o t ho ht hfl hj
  exact parseFs_genJ tsIdx ctx s hsf hsc q hq o t ho ht hfl hj

end Cassis.Json
