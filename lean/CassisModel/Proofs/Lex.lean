/-
Proofs about the lexical layer (`Model/Lex.lean`): `int(str(i)) = i`, `" ".join(toks).split() = toks` for
tokens, `bytearray.fromhex(hex(bs)) = bs`.
-/
import CassisModel.Model.Lex

namespace Cassis.Lex

/-! ### natural numbers -/

theorem charDigit_digitChar (d : Nat) (h : d < 10) : charDigit? (digitChar d) = some d := by
  have : ∀ d, d < 10 → charDigit? (digitChar d) = some d := by decide
  exact this d h

theorem digitChar_ne_minus (d : Nat) (h : d < 10) : digitChar d ≠ '-' := by
  have : ∀ d, d < 10 → digitChar d ≠ '-' := by decide
  exact this d h

theorem digitChar_not_ws (d : Nat) (h : d < 10) : isWs (digitChar d) = false := by
  have : ∀ d, d < 10 → isWs (digitChar d) = false := by decide
  exact this d h

/-- value of least-significant-first digits -/
def valRev : List Nat → Nat
  | [] => 0
  | d :: ds => d + 10 * valRev ds

theorem digitsRev_val (fuel n : Nat) (h : n < fuel) : valRev (digitsRev fuel n) = n := by
  induction fuel generalizing n with
  | zero => omega
  | succ f ih =>
    unfold digitsRev
    split
    · simp only [valRev]; omega
    · have : n / 10 < f := by omega
      simp only [valRev, ih _ this]; omega

theorem digitsRev_lt (fuel n : Nat) : ∀ d ∈ digitsRev fuel n, d < 10 := by
  induction fuel generalizing n with
  | zero => intro d hd; unfold digitsRev at hd; cases hd
  | succ f ih =>
    unfold digitsRev
    split
    · intro d hd
      simp only [List.mem_singleton] at hd
      omega
    · intro d hd
      simp only [List.mem_cons] at hd
      rcases hd with h | h
      · omega
      · exact ih _ d h

theorem digitsRev_ne_nil (fuel n : Nat) (h : 0 < fuel) : digitsRev fuel n ≠ [] := by
  cases fuel with
  | zero => omega
  | succ f => unfold digitsRev; split <;> exact List.cons_ne_nil _ _

theorem parseNatAux_map (ds : List Nat) (hd : ∀ d ∈ ds, d < 10) (acc : Nat) :
    parseNatAux (ds.map digitChar) acc = some (ds.foldl (fun a d => a * 10 + d) acc) := by
  induction ds generalizing acc with
  | nil => rfl
  | cons d ds ih =>
    have hd0 : d < 10 := hd d List.mem_cons_self
    simp only [List.map_cons, parseNatAux, charDigit_digitChar d hd0, List.foldl_cons]
    exact ih (fun x hx => hd x (List.mem_cons_of_mem _ hx)) _

theorem foldl_reverse_val (ds : List Nat) :
    ds.reverse.foldl (fun a d => a * 10 + d) 0 = valRev ds := by
  induction ds with
  | nil => rfl
  | cons d ds ih =>
    simp only [List.reverse_cons, List.foldl_append, List.foldl_cons, List.foldl_nil, ih, valRev]
    omega

/-- the digits of `showNatL n` -/
def digitsOf (n : Nat) : List Nat := (digitsRev (n+1) n).reverse

theorem showNatL_eq (n : Nat) : showNatL n = (digitsOf n).map digitChar := rfl

theorem digitsOf_lt (n : Nat) : ∀ d ∈ digitsOf n, d < 10 := by
  intro d hd
  exact digitsRev_lt _ _ d (List.mem_reverse.mp hd)

theorem digitsOf_ne_nil (n : Nat) : digitsOf n ≠ [] := by
  unfold digitsOf
  intro h
  exact digitsRev_ne_nil (n+1) n (by omega) (List.reverse_eq_nil_iff.mp h)

theorem showNatL_ne_nil (n : Nat) : showNatL n ≠ [] := by
  rw [showNatL_eq]
  intro h
  exact digitsOf_ne_nil n (List.map_eq_nil_iff.mp h)

theorem showNatL_mem (n : Nat) (c : Char) (h : c ∈ showNatL n) : ∃ d, d < 10 ∧ c = digitChar d := by
  rw [showNatL_eq] at h
  obtain ⟨d, hd, rfl⟩ := List.mem_map.mp h
  exact ⟨d, digitsOf_lt n d hd, rfl⟩

theorem parseNatL_showNatL (n : Nat) : parseNatL (showNatL n) = some n := by
  have hne := showNatL_ne_nil n
  unfold parseNatL
  split
  · rename_i h; exact absurd h hne
  · rw [showNatL_eq, parseNatAux_map _ (digitsOf_lt n)]
    unfold digitsOf
    rw [foldl_reverse_val, digitsRev_val _ _ (by omega)]

/-! ### integers -/

theorem parseIntL_showNatL (n : Nat) : parseIntL (showNatL n) = some (n : Int) := by
  unfold parseIntL
  split
  · rename_i rest h
    have hm : '-' ∈ showNatL n := by rw [h]; exact List.mem_cons_self
    obtain ⟨d, hd, e⟩ := showNatL_mem n _ hm
    exact absurd e.symm (digitChar_ne_minus d hd)
  · rw [parseNatL_showNatL]; rfl

theorem parseIntL_showIntL (i : Int) : parseIntL (showIntL i) = some i := by
  cases i with
  | ofNat n => exact parseIntL_showNatL n
  | negSucc n =>
    show parseIntL ('-' :: showNatL (n + 1)) = some (Int.negSucc n)
    unfold parseIntL
    simp only [parseNatL_showNatL]
    rfl

theorem toList_ofList (l : List Char) : (String.ofList l).toList = l := String.toList_ofList

theorem parseInt_showInt_aux (i : Int) : parseInt (showInt i) = some i := by
  unfold parseInt showInt
  rw [toList_ofList]
  exact parseIntL_showIntL i

theorem showInt_injective {i j : Int} (h : showInt i = showInt j) : i = j := by
  have := parseInt_showInt_aux i
  rw [h, parseInt_showInt_aux] at this
  exact (Option.some.inj this).symm

/-! ### tokens -/

/-- a token: non-empty, no whitespace -/
def IsTokL (t : String) : Prop := t.toList ≠ [] ∧ ∀ c ∈ t.toList, isWs c = false

theorem showIntL_ne_nil (i : Int) : showIntL i ≠ [] := by
  cases i with
  | ofNat n => exact showNatL_ne_nil n
  | negSucc n => exact List.cons_ne_nil _ _

theorem showNatL_not_ws (n : Nat) : ∀ c ∈ showNatL n, isWs c = false := by
  intro c hc
  obtain ⟨d, hd, rfl⟩ := showNatL_mem n c hc
  exact digitChar_not_ws d hd

theorem showIntL_not_ws (i : Int) : ∀ c ∈ showIntL i, isWs c = false := by
  cases i with
  | ofNat n => exact showNatL_not_ws n
  | negSucc n =>
    intro c hc
    have hc' : c ∈ '-' :: showNatL (n + 1) := hc
    rcases List.mem_cons.mp hc' with rfl | h
    · decide
    · exact showNatL_not_ws _ c h

theorem showInt_isTok_aux (i : Int) : IsTokL (showInt i) := by
  unfold IsTokL showInt
  rw [toList_ofList]
  exact ⟨showIntL_ne_nil i, showIntL_not_ws i⟩

/-! ### split / join -/

theorem isWs_space : isWs ' ' = true := by decide

/-- a whitespace-free run is accumulated -/
theorem splitWsAux_run (t : List Char) (ht : ∀ c ∈ t, isWs c = false) (rest cur : List Char) :
    splitWsAux (t ++ rest) cur = splitWsAux rest (t.reverse ++ cur) := by
  induction t generalizing cur with
  | nil => rfl
  | cons c t ih =>
    have hc : isWs c = false := ht c List.mem_cons_self
    simp only [List.cons_append, splitWsAux, hc, Bool.false_eq_true, if_false]
    rw [ih (fun x hx => ht x (List.mem_cons_of_mem _ hx))]
    simp only [List.reverse_cons, List.append_assoc, List.singleton_append]

theorem splitWsAux_tok_end (t : List Char) (hne : t ≠ []) (ht : ∀ c ∈ t, isWs c = false) :
    splitWsAux t [] = [t] := by
  have := splitWsAux_run t ht [] []
  rw [List.append_nil, List.append_nil] at this
  rw [this]
  unfold splitWsAux
  have : t.reverse.isEmpty = false := by
    cases h : t.reverse with
    | nil => exact absurd (List.reverse_eq_nil_iff.mp h) hne
    | cons a b => rfl
  simp only [this, Bool.false_eq_true, if_false, List.reverse_reverse]

theorem splitWsAux_tok_sp (t : List Char) (hne : t ≠ []) (ht : ∀ c ∈ t, isWs c = false) (rest : List Char) :
    splitWsAux (t ++ ' ' :: rest) [] = t :: splitWsAux rest [] := by
  rw [splitWsAux_run t ht, List.append_nil]
  have : t.reverse.isEmpty = false := by
    cases h : t.reverse with
    | nil => exact absurd (List.reverse_eq_nil_iff.mp h) hne
    | cons a b => rfl
  simp only [splitWsAux, isWs_space, if_true, this, Bool.false_eq_true, if_false, List.reverse_reverse]

theorem splitWsL_joinSpL (toks : List (List Char))
    (h : ∀ t ∈ toks, t ≠ [] ∧ ∀ c ∈ t, isWs c = false) : splitWsL (joinSpL toks) = toks := by
  unfold splitWsL
  induction toks with
  | nil => rfl
  | cons t ts ih =>
    obtain ⟨hne, hws⟩ := h t List.mem_cons_self
    cases ts with
    | nil =>
      show splitWsAux t [] = [t]
      exact splitWsAux_tok_end t hne hws
    | cons t' ts' =>
      show splitWsAux (t ++ ' ' :: joinSpL (t' :: ts')) [] = t :: t' :: ts'
      rw [splitWsAux_tok_sp t hne hws, ih (fun x hx => h x (List.mem_cons_of_mem _ hx))]

theorem ofList_toList (s : String) : String.ofList s.toList = s := String.ofList_toList

theorem splitWs_joinSp_aux (toks : List String) (h : ∀ t ∈ toks, IsTokL t) : splitWs (joinSp toks) = toks := by
  unfold splitWs joinSp
  rw [toList_ofList, splitWsL_joinSpL]
  · rw [List.map_map]
    have : (String.ofList ∘ fun (x : String) => x.toList) = id := by
      funext s; exact ofList_toList s
    rw [this, List.map_id]
  · intro t ht
    obtain ⟨s, hs, rfl⟩ := List.mem_map.mp ht
    exact h s hs

/-- the joined string of a non-empty list of non-empty tokens is non-empty -/
theorem joinSpL_ne_nil (toks : List (List Char)) (hne : toks ≠ []) (h : ∀ t ∈ toks, t ≠ []) :
    joinSpL toks ≠ [] := by
  cases toks with
  | nil => exact absurd rfl hne
  | cons t ts =>
    have ht := h t List.mem_cons_self
    cases ts with
    | nil => exact ht
    | cons t' ts' =>
      show t ++ ' ' :: joinSpL (t' :: ts') ≠ []
      intro e
      exact ht (List.append_eq_nil_iff.mp e).1

theorem joinSp_toList_ne_nil (toks : List String) (hne : toks ≠ []) (h : ∀ t ∈ toks, t.toList ≠ []) :
    (joinSp toks).toList ≠ [] := by
  unfold joinSp
  rw [toList_ofList]
  apply joinSpL_ne_nil
  · intro e; exact hne (List.map_eq_nil_iff.mp e)
  · intro t ht
    obtain ⟨s, hs, rfl⟩ := List.mem_map.mp ht
    exact h s hs

/-! ### hex -/

theorem hexVal_hexDigit (d : Nat) (h : d < 16) : hexVal? (hexDigit d) = some d := by
  have : ∀ d, d < 16 → hexVal? (hexDigit d) = some d := by decide
  exact this d h

theorem hexDecL_hexEncL (bs : List Nat) (h : ∀ b ∈ bs, b < 256) : hexDecL (hexEncL bs) = some bs := by
  induction bs with
  | nil => rfl
  | cons b bs ih =>
    have hb : b < 256 := h b List.mem_cons_self
    have h1 : b / 16 < 16 := by omega
    have h2 : b % 16 < 16 := by omega
    have h3 : b / 16 * 16 + b % 16 = b := by omega
    simp only [hexEncL, hexDecL, hexVal_hexDigit _ h1, hexVal_hexDigit _ h2,
      ih (fun x hx => h x (List.mem_cons_of_mem _ hx)), h3]

theorem hexDec_hexEnc_aux (bs : List Nat) (h : ∀ b ∈ bs, b < 256) : hexDec (hexEnc bs) = some bs := by
  unfold hexDec hexEnc
  rw [toList_ofList]
  exact hexDecL_hexEncL bs h

theorem hexEnc_toList_ne_nil (bs : List Nat) (hne : bs ≠ []) : (hexEnc bs).toList ≠ [] := by
  unfold hexEnc
  rw [toList_ofList]
  cases bs with
  | nil => exact absurd rfl hne
  | cons b bs => exact List.cons_ne_nil _ _

end Cassis.Lex
