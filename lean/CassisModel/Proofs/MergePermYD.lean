/-
Helper lemmas for `Properties/C13PermSub.lean`, part YD: the replay invariant.  `E` is the set of names that may still
move down (the names declared with competing supertypes) — now with their subtrees.  What makes the comparison of
supertypes on the partially merged tree agree with `o` is that no name of `E` lies, in `o`, above a declared supertype of
a name of `E` (`DeclOkY.noE`).
-/
import CassisModel.Proofs.MergePermYC
import CassisModel.Proofs.MergePermXB

namespace Cassis.TS

variable {E : String → Prop}

/-- a declaration that `o` makes too: registered below the declared supertype (directly, unless the name is movable),
    the declared features covered; above a declared supertype of a movable name nothing is movable -/
structure DeclOkY (K : Consts) (o : TypeSystem) (E : String → Prop) (d : Decl) : Prop where
  ex : ∃ t, find? o d.name = some t ∧ (∀ f ∈ d.own, ∃ g ∈ eff t, featureEq g f = true) ∧
    Anc o d.super d.name ∧ d.super ≠ d.name ∧ (¬ E d.name → t.super = some d.super)
  nonfinal : K.finalTypes.contains d.super = false
  user : K.predefined.contains d.name = false
  noE : E d.name → ∀ n, E n → ¬ Anc o n d.super

structure MInvY (K : Consts) (base : TypeSystem) (decls : List Decl) (o : TypeSystem) (E : String → Prop)
    (s : MState) : Prop where
  run : RInvY K base decls E s
  sub : SubP o E s.ts

theorem processDecl_invY (K : Consts) (base : TypeSystem) (decls : List Decl) (o : TypeSystem)
    (hfo : FeatInv o) (hco : Consistent o) (htop : K.predefined.contains TOP = true)
    (E2 : ∀ d ∈ decls, ∀ d' ∈ decls, d.name = d'.name → ¬ E d.name → d.super = d'.super)
    (hEb : ∀ x tb, find? base x = some tb → ¬ E x)
    (hall : ∀ d ∈ decls, DeclOkY K o E d)
    (s : MState) (d : Decl) (hi : MInvY K base decls o E s) (hdm : d ∈ decls)
    (hready : (K.predefined.contains d.super || s.merged.contains d.super) = true) :
    ∃ s', processDecl K s d = .ok s' ∧ MInvY K base decls o E s' := by
  have hd := hall d hdm
  have hcons := hi.run.cons
  have hfeat := hi.run.feat
  have hsup : hasExact s.ts d.super = true := by
    rcases Bool.or_eq_true _ _ |>.mp hready with h | h
    · exact hi.run.pre _ h
    · exact hi.run.mer _ (by simpa using h)
  obtain ⟨tn, htn, hcov, hanc, hxn, hex⟩ := hd.ex
  -- success and `SubP` suffice: the rest of the invariant follows from the successful step
  suffices hsuff : ∃ s', processDecl K s d = .ok s' ∧ SubP o E s'.ts by
    obtain ⟨s', h', hs'⟩ := hsuff
    exact ⟨s', h', (processDecl_runY K base decls htop E2 s s' d hi.run hdm hd.user hready h').1, hs'⟩
  cases hx : hasExact s.ts d.name with
  | false =>
    obtain ⟨s', h', hout⟩ := stepP_new K o hfo s d hcons hfeat hi.sub hx hsup tn htn hex hanc hcov
      hd.nonfinal hd.user
    exact ⟨s', h', hout.sub⟩
  | true =>
    obtain ⟨tm, he⟩ := (hasExact_iff_find _ _).mp hx
    obtain ⟨to, hto, hr⟩ := hi.sub d.name tm he
    rw [htn] at hto; cases hto
    by_cases hE : E d.name
    · -- a movable name: compare its present supertype with the declared one
      have hEx := hd.noE hE
      cases hts : tm.super with
      | none =>
        exfalso
        have hn := hcons.onlyRoot tm (find?_mem he) hts
        rw [find?_name he] at hn
        have hu := hd.user
        rw [hn, htop] at hu
        cases hu
      | some c =>
        have hancc : Anc o c d.name := hr.superW c hts
        have hregc : hasExact s.ts c = true := hcons.superReg tm (find?_mem he) c hts
        have hEc : ∀ n, E n → ¬ Anc o n c := by
          rcases hi.run.edge d.name tm he with ⟨tb, htb, _⟩ | ⟨d', hd', hn', hs'⟩
          · exact absurd hE (hEb d.name tb htb)
          · have : c = d'.super := by rw [hts] at hs'; exact Option.some.inj hs'
            rw [this]
            exact (hall d' hd').noE (by rw [hn']; exact hE)
        by_cases hxc : d.super = c
        · obtain ⟨s', h', hout⟩ := stepP_same K o hfo s d hcons hfeat hi.sub tm he (by rw [hts, hxc]) tn htn
            hcov hd.user
          exact ⟨s', h', hout.sub⟩
        · rcases Anc.linear hancc hanc with hcx | hxc'
          · -- the declared supertype is the lower one: re-parent the type with its subtree
            have hmax : Anc s.ts c d.super := anc_down_subX hi.sub hcons hcx hsup hEx
            exact stepP_reparentY K o hfo hco s d hcons hfeat hi.sub hE tm he c hts hsup hmax hxc tn htn
              hanc hxn hcov hd.user
          · -- the declared supertype is the higher one: nothing moves
            have h2 : Anc s.ts d.super c := anc_down_subX hi.sub hcons hxc' hregc hEc
            have h1 : ¬ Anc s.ts c d.super := by
              intro h
              exact hxc (anc_antisymm hco hxc' (anc_subP hi.sub h))
            obtain ⟨s', h', hout⟩ := stepP_noop K o hfo s d hcons hfeat hi.sub tm c he hts hxc hregc hsup
              h1 h2 tn htn hcov hd.user
            exact ⟨s', h', hout.sub⟩
    · have hss : tm.super = some d.super := by rw [← hr.super hE]; exact hex hE
      obtain ⟨s', h', hout⟩ := stepP_same K o hfo s d hcons hfeat hi.sub tm he hss tn htn hcov hd.user
      exact ⟨s', h', hout.sub⟩

theorem mergeRound_replayY (K : Consts) (base : TypeSystem) (decls : List Decl) (o : TypeSystem)
    (hfo : FeatInv o) (hco : Consistent o) (htop : K.predefined.contains TOP = true)
    (E2 : ∀ d ∈ decls, ∀ d' ∈ decls, d.name = d'.name → ¬ E d.name → d.super = d'.super)
    (hEb : ∀ x tb, find? base x = some tb → ¬ E x)
    (hall : ∀ d ∈ decls, DeclOkY K o E d) :
    ∀ (ds : List Decl) (s : MState) (n : Nat), (∀ d ∈ ds, d ∈ decls) → MInvY K base decls o E s →
      ∃ s' n', mergeRound K ds s n = .ok (s', n') ∧ MInvY K base decls o E s' := by
  intro ds
  induction ds with
  | nil => intro s n _ hi; exact ⟨s, n, rfl, hi⟩
  | cons d ds ih =>
    intro s n hsub hi
    have hsub' : ∀ d' ∈ ds, d' ∈ decls := fun d' hd' => hsub d' (List.mem_cons_of_mem _ hd')
    simp only [mergeRound]
    split
    · rename_i hready
      obtain ⟨s1, h1, hi1⟩ := processDecl_invY K base decls o hfo hco htop E2 hEb hall s d hi
        (hsub d List.mem_cons_self) hready
      rw [h1]
      exact ih s1 (n + 1) hsub' hi1
    · exact ih s n hsub' hi

theorem mergeLoop_replayY (K : Consts) (base : TypeSystem) (decls : List Decl) (o : TypeSystem)
    (hfo : FeatInv o) (hco : Consistent o) (htop : K.predefined.contains TOP = true)
    (E2 : ∀ d ∈ decls, ∀ d' ∈ decls, d.name = d'.name → ¬ E d.name → d.super = d'.super)
    (hEb : ∀ x tb, find? base x = some tb → ¬ E x)
    (hall : ∀ d ∈ decls, DeclOkY K o E d) :
    ∀ (fuel : Nat) (s : MState), MInvY K base decls o E s →
      (∃ s', mergeLoop K decls fuel s = .ok s' ∧ MInvY K base decls o E s') ∨
        mergeLoop K decls fuel s = .error .outOfFuel := by
  intro fuel
  induction fuel with
  | zero => intro s _; exact Or.inr rfl
  | succ fuel ih =>
    intro s hi
    obtain ⟨s1, n1, h1, hi1⟩ := mergeRound_replayY K base decls o hfo hco htop E2 hEb hall decls s 0
      (fun _ h => h) hi
    simp only [mergeLoop, h1]
    split
    · exact Or.inl ⟨s1, rfl, hi1⟩
    · exact ih s1 hi1

/-- replaying declarations that `o` makes too, in any order, succeeds with a part of `o` -/
theorem mergeDecls_replayY (K : Consts) (base : TypeSystem) (decls : List Decl) (o : TypeSystem)
    (hfo : FeatInv o) (hco : Consistent o) (htop : K.predefined.contains TOP = true)
    (E2 : ∀ d ∈ decls, ∀ d' ∈ decls, d.name = d'.name → ¬ E d.name → d.super = d'.super)
    (hEb : ∀ x tb, find? base x = some tb → ¬ E x)
    (hall : ∀ d ∈ decls, DeclOkY K o E d)
    (hinv : MInvY K base decls o E { ts := base, merged := [] })
    (hterm : mergeDecls K base decls ≠ .error .outOfFuel) :
    ∃ s', mergeDecls K base decls = .ok s'.ts ∧ MInvY K base decls o E s' := by
  rcases mergeLoop_replayY K base decls o hfo hco htop E2 hEb hall (decls.length + 1) _ hinv with ⟨s', h, hi⟩ | h
  · exact ⟨s', by simp only [mergeDecls, h], hi⟩
  · exfalso
    apply hterm
    simp only [mergeDecls, h]

end Cassis.TS
