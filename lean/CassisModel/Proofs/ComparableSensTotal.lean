/-
Totality of `renderFrom` on well-formed input (`renderFrom_total_aux`).
-/
import CassisModel.Proofs.ComparableSensText

namespace Cassis.Comparable
open Cassis.TS Cassis.Traverse

/-! ### anchors -/

theorem viewPart_total {cass : List Cas} {hp : Heap} {a : Nat} (h : SofaOk cass hp a) :
    ∃ view, viewPart cass hp a = .ok view := by
  unfold SofaOk at h
  unfold viewPart
  split at h
  · rename_i hs; rw [hs]; exact ⟨_, rfl⟩
  · rename_i ci vn hs
    obtain ⟨c, v, hc, hv⟩ := h
    rw [hs]
    simp only [hc, hv]
    exact ⟨_, rfl⟩
  · cases h

theorem anchorOf_total {cass : List Cas} {hp : Heap} (indexed : List Nat) (o : Opts) {a : Nat}
    (h : SofaOk cass hp a) : ∃ s, anchorOf cass hp indexed o a = .ok s := by
  obtain ⟨view, hv⟩ := viewPart_total h
  rw [anchorOf_eq, hv]
  exact ⟨_, rfl⟩

theorem anchorsOfList_total {cass : List Cas} {hp : Heap} (indexed : List Nat) (o : Opts) (l : List Nat)
    (hl : ∀ a ∈ l, SofaOk cass hp a) (st : AnchorSt) : ∃ st', anchorsOfList cass hp indexed o l st = .ok st' := by
  induction l generalizing st with
  | nil => exact ⟨st, rfl⟩
  | cons a as ih =>
    obtain ⟨s, hs⟩ := anchorOf_total indexed o (hl a List.mem_cons_self)
    rw [anchorsOfList]
    have : ∃ st1, anchorStep cass hp indexed o st a = .ok st1 := by
      unfold anchorStep
      rw [hs]
      exact ⟨_, rfl⟩
    obtain ⟨st1, h1⟩ := this
    rw [h1]
    exact ih (fun b hb => hl b (List.mem_cons_of_mem _ hb)) st1

theorem genAnchors_total {ts : TypeSystem} {cass : List Cas} {hp : Heap} (indexed : List Nat) (o : Opts)
    (sorted L : List (String × List Nat))
    (hL : ∀ p ∈ L, (∃ t, getType ts p.1 = .ok t) ∧ ∀ a ∈ p.2, SofaOk cass hp a) (st : AnchorSt) :
    ∃ st', genAnchors ts cass hp indexed o sorted L st = .ok st' := by
  induction L generalizing st with
  | nil => exact ⟨st, rfl⟩
  | cons p rest ih =>
    obtain ⟨tn, fss⟩ := p
    obtain ⟨⟨t, ht⟩, hs⟩ := hL (tn, fss) List.mem_cons_self
    obtain ⟨st1, h1⟩ := anchorsOfList_total indexed o fss hs st
    rw [genAnchors]
    simp only [] at ht
    rw [ht]
    simp only []
    rw [h1]
    exact ih (fun q hq => hL q (List.mem_cons_of_mem _ hq)) st1

/-! ### values -/

theorem FuelOk.mono {need : Nat → Nat} {v : Val} {F F' : Nat} (h : FuelOk need v F) (hle : F ≤ F') :
    FuelOk need v F' := by
  cases v <;> simp only [FuelOk] at h ⊢
  case ref x => omega
  case refs l => exact ⟨by omega, fun e he => by have := h.2 e he; omega⟩

theorem mapM_total {α β : Type} (g : α → Except Err β) (l : List α) (h : ∀ x ∈ l, ∃ c, g x = .ok c) :
    ∃ cs, l.mapM g = .ok cs := by
  induction l with
  | nil => exact ⟨[], rfl⟩
  | cons a as ih =>
    obtain ⟨c, hc⟩ := h a List.mem_cons_self
    obtain ⟨cs, hcs⟩ := ih (fun x hx => h x (List.mem_cons_of_mem _ hx))
    rw [List.mapM_cons, hc, hcs]
    exact ⟨c :: cs, rfl⟩

theorem renderVal_total {K : Consts} {hp : Heap} {need : Nat → Nat} (wn : WellNested K hp need)
    (byId : List (Option Int × String)) (F : Nat) (v : Val) (h : FuelOk need v F) :
    ∃ c, renderVal K hp byId F v = .ok c := by
  induction F generalizing v with
  | zero =>
    cases v <;> simp only [FuelOk] at h <;> try exact ⟨_, rfl⟩
    case ref x => have := (wn x).1; omega
    case refs l => omega
  | succ F ih =>
    cases v <;> try exact ⟨_, rfl⟩
    case ref x =>
      simp only [FuelOk] at h
      simp only [renderVal]
      cases hx : isArrayFs K hp x with
      | false =>
        simp only [Bool.false_eq_true, if_false]
        cases getById byId (xidOf hp x) <;> exact ⟨_, rfl⟩
      | true =>
        obtain ⟨v', hv', hf⟩ := (wn x).2 hx
        simp only [if_true, hv']
        have hf' : FuelOk need v' F := hf.mono (by omega)
        obtain ⟨c, hc⟩ := ih v' hf'
        cases v' <;> first | exact ⟨_, rfl⟩ | exact ⟨c, hc⟩
    case refs l =>
      simp only [FuelOk] at h
      simp only [renderVal]
      have aux : ∀ g : Option Nat → Except Err Cell, (∀ r ∈ l, ∃ c, g r = .ok c) →
          ∃ c, Except.map Cell.list (l.mapM g) = .ok c := by
        intro g hg
        obtain ⟨cs, hcs⟩ := mapM_total g l hg
        exact ⟨.list cs, by rw [hcs]; rfl⟩
      apply aux
      intro r hr
      cases r with
      | none => exact ⟨_, rfl⟩
      | some e =>
        have := h.2 e hr
        exact ih (.ref e) (by simp only [FuelOk]; omega)

theorem renderCols_total {K : Consts} {hp : Heap} {need : Nat → Nat} (wn : WellNested K hp need)
    (byId : List (Option Int × String)) (a : Nat) (cols : List String)
    (h : ∀ n, FuelOk need ((slot hp a n).getD .none) (2 * hp.length + 2)) :
    ∃ cs, renderCols K hp byId a cols = .ok cs := by
  induction cols with
  | nil => exact ⟨[], rfl⟩
  | cons n ns ih =>
    obtain ⟨c, hc⟩ := renderVal_total wn byId _ _ (h n)
    obtain ⟨cs, hcs⟩ := ih
    rw [renderCols, hc]
    simp only []
    rw [hcs]
    exact ⟨_, rfl⟩

/-! ### covered text -/

theorem isAnnot_slots {hp : Heap} {a : Nat} (h : isAnnot hp a = true) :
    slot hp a "begin" = some (.int (beginOf hp a)) ∧ slot hp a "end" = some (.int (endOf hp a)) := by
  unfold isAnnot at h
  unfold beginOf endOf
  split at h
  · rename_i b e hb he
    rw [hb, he]
    exact ⟨rfl, rfl⟩
  · cases h

theorem coveredText_total {cass : List Cas} {hp : Heap} {a ci : Nat} {vn : String} {c : Cas} {v : View}
    (hs : slot hp a "sofa" = some (.sofa ci vn)) (hc : cass[ci]? = some c) (hv : Cas.getViewRec c vn = some v)
    (hann : isAnnot hp a = true) (hb : 0 ≤ beginOf hp a) (he : 0 ≤ endOf hp a) :
    ∃ ct, Cas.coveredText cass hp a = .ok ct := by
  obtain ⟨sb, se⟩ := isAnnot_slots hann
  unfold slot at hs sb se
  cases hob : hp[a]? with
  | none => rw [hob] at hs; cases hs
  | some ob =>
    rw [hob] at hs sb se
    simp only [Option.bind_some] at hs sb se
    unfold Cas.coveredText
    simp only [hob, hs, sb, se, hc, hv, bind, Except.bind, pure, Except.pure]
    cases v.sofa.text with
    | none => exact ⟨_, rfl⟩
    | some txt =>
      simp only []
      have : (decide (beginOf hp a < 0) || decide (endOf hp a < 0)) = false := by
        simp only [Bool.or_eq_false_iff, decide_eq_false_iff_not]
        omega
      simp only [this, Bool.false_eq_true, if_false]
      exact ⟨_, rfl⟩

/-! ### rows, sections -/

theorem renderRow_total {K : Consts} {ts : TypeSystem} {cass : List Cas} {hp : Heap} {o : Opts} {need : Nat → Nat}
    (wn : WellNested K hp need) (byId : List (Option Int × String)) {a : Nat} {t : TypeRec}
    (ok : RowOk K ts cass hp o need a) (ht : getType ts (tyOf hp a) = .ok t) :
    ∃ r, renderRow K cass hp byId t (annFlag ts o t) a = .ok r := by
  rw [renderRow_eq]
  have hcov : ∃ cov, covOf cass hp (annFlag ts o t) a = .ok cov := by
    unfold covOf
    cases hc : (annFlag ts o t && isAnnot hp a) with
    | false => exact ⟨[], rfl⟩
    | true =>
      simp only [if_true]
      rw [Bool.and_eq_true] at hc
      obtain ⟨⟨ci, vn, hs⟩, hb, he⟩ := ok.cov t ht hc.1 hc.2
      have hso := ok.sofa
      unfold SofaOk at hso
      rw [hs] at hso
      obtain ⟨c, v, hc', hv⟩ := hso
      obtain ⟨ct, hct⟩ := coveredText_total hs hc' hv hc.2 hb he
      simp only [hct, bind, Except.bind, pure, Except.pure]
      exact ⟨_, rfl⟩
  obtain ⟨cov, hcov⟩ := hcov
  rw [hcov]
  simp only []
  cases harr : isArrayFs K hp a with
  | true =>
    obtain ⟨v, hv, hf⟩ := ok.arr harr
    obtain ⟨c, hc⟩ := renderVal_total wn byId _ _ hf
    simp only [if_true, hv, hc]
    exact ⟨_, rfl⟩
  | false =>
    obtain ⟨cs, hcs⟩ := renderCols_total wn byId a (columns t) (ok.cols harr)
    simp only [Bool.false_eq_true, if_false, hcs]
    exact ⟨_, rfl⟩

theorem renderRows_total {K : Consts} {ts : TypeSystem} {cass : List Cas} {hp : Heap} {o : Opts} {need : Nat → Nat}
    (wn : WellNested K hp need) (byId : List (Option Int × String)) (t : TypeRec) (l : List Nat)
    (hl : ∀ a ∈ l, RowOk K ts cass hp o need a ∧ getType ts (tyOf hp a) = .ok t) :
    ∃ rows, renderRows K cass hp byId t (annFlag ts o t) l = .ok rows := by
  induction l with
  | nil => exact ⟨[], rfl⟩
  | cons a as ih =>
    obtain ⟨ok, ht⟩ := hl a List.mem_cons_self
    obtain ⟨r, hr⟩ := renderRow_total wn byId ok ht
    obtain ⟨rs, hrs⟩ := ih (fun b hb => hl b (List.mem_cons_of_mem _ hb))
    rw [renderRows, hr]
    simp only []
    rw [hrs]
    exact ⟨_, rfl⟩

theorem renderSections_total {K : Consts} {ts : TypeSystem} {cass : List Cas} {hp : Heap} {o : Opts}
    {need : Nat → Nat} (wn : WellNested K hp need) (byId : List (Option Int × String))
    (L : List (String × List Nat))
    (hL : ∀ p ∈ L, (∃ t, getType ts p.1 = .ok t) ∧ ∀ a ∈ p.2, RowOk K ts cass hp o need a ∧ tyOf hp a = p.1) :
    ∃ secs, renderSections K ts cass hp o byId L = .ok secs := by
  induction L with
  | nil => exact ⟨[], rfl⟩
  | cons p rest ih =>
    obtain ⟨tn, fss⟩ := p
    obtain ⟨ss, hss⟩ := ih (fun q hq => hL q (List.mem_cons_of_mem _ hq))
    rw [renderSections]
    cases o.exclude.contains tn with
    | true => simp only [if_true]; exact ⟨ss, hss⟩
    | false =>
      simp only [Bool.false_eq_true, if_false]
      obtain ⟨⟨t, ht⟩, hm⟩ := hL (tn, fss) List.mem_cons_self
      simp only [] at ht hm
      rw [ht]
      simp only []
      obtain ⟨rows, hrows⟩ := renderRows_total wn byId t fss
        (fun a ha => ⟨(hm a ha).1, by rw [(hm a ha).2]; exact ht⟩)
      unfold annFlag at hrows
      rw [hrows, hss]
      exact ⟨_, rfl⟩

theorem mem_sortedOf_pair (lt : Nat → Nat → Bool) (hp : Heap) (addrs : List Nat) (p : String × List Nat)
    (h : p ∈ sortedOf lt hp addrs) :
    (∃ a ∈ addrs, tyOf hp a = p.1) ∧ ∀ a ∈ p.2, a ∈ addrs ∧ tyOf hp a = p.1 := by
  unfold sortedOf at h
  obtain ⟨t, ht, rfl⟩ := List.mem_map.1 h
  have ht' : t ∈ typeKeys hp addrs := (sortNames_perm _).subset ht
  unfold typeKeys at ht'
  rw [List.mem_eraseDups] at ht'
  obtain ⟨a, ha, rfl⟩ := List.mem_map.1 ht'
  exact ⟨⟨a, ha, rfl⟩, fun b hb => (mem_sortFs_group lt hp addrs b _).1 hb⟩

theorem renderFrom_total_aux (K : Consts) (ts : TypeSystem) (cass : List Cas) (hp : Heap) (o : Opts) (hsh : Nat → Int)
    (indexed addrs : List Nat) (need : Nat → Nat) (wn : WellNested K hp need)
    (hrow : ∀ a ∈ addrs, RowOk K ts cass hp o need a) :
    ∃ secs, renderFrom K ts cass hp o hsh indexed addrs = .ok secs := by
  have hty : ∀ p ∈ sortedOf (ltFs hp hsh) hp addrs, ∃ t, getType ts p.1 = .ok t := by
    intro p hp'
    obtain ⟨⟨a, ha, hta⟩, _⟩ := mem_sortedOf_pair _ hp addrs p hp'
    rw [← hta]
    exact (hrow a ha).ty
  obtain ⟨st, hst⟩ := genAnchors_total (ts := ts) (cass := cass) (hp := hp) indexed o
    (sortedOf (ltFs hp hsh) hp addrs) (sortedOf (ltFs hp hsh) hp addrs)
    (fun p hp' => ⟨hty p hp', fun a ha => (hrow a ((mem_sortedOf_pair _ hp addrs p hp').2 a ha).1).sofa⟩) {}
  obtain ⟨secs, hsecs⟩ := renderSections_total (ts := ts) (cass := cass) (o := o) wn st.byId
    (sortedOf (ltFs hp hsh) hp addrs)
    (fun p hp' => ⟨hty p hp', fun a ha =>
      ⟨hrow a ((mem_sortedOf_pair _ hp addrs p hp').2 a ha).1, ((mem_sortedOf_pair _ hp addrs p hp').2 a ha).2⟩⟩)
  refine ⟨secs, ?_⟩
  unfold renderFrom
  simp only []
  unfold sortedOf at hst hsecs
  rw [hst]
  exact hsecs

end Cassis.Comparable
