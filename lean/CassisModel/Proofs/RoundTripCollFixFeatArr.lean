/-
Fixpoint of the XMI round trip with collections, per feature (2): inlined arrays (primitive arrays, string arrays,
FSArrays).
-/
import CassisModel.Proofs.RoundTripCollFixFeat

namespace Cassis.Xmi.CFX
open Cassis.TS Cassis.Traverse Cassis.Lex Cassis.Xmi

section
variable {K : Consts} {ts : TypeSystem} {cass cass' : List Cas} {c c' : Cas} {ci ci' : Nat} {hp H hpL : Heap}
  {L : List (Int × Nat)} {na : Int → Nat} {ia : Int → String → Nat} {q : Int × Nat} {o o' : Obj} {t : TypeRec}
  {isAnn : Bool}

/-- an inlined collection feature that is unset -/
theorem fix_inl_none (h : Loc K ts c ci H L na ia ci' hpL q o o' t) {f : Feature} (hname : NameOk f)
    (hi : isInline K f = true) (hv : alistGet? o.slots f.name = some .none)
    (hcoll : alistGet? o'.slots f.name = some .none → InlineFeat K ts hpL o' f) :
    FeatFix K ts cass cass' c' ci' H hpL L na q.2 (na q.1) isAnn o o' f := by
  have hv' := h.none hv
  refine ⟨.inr ⟨hname, .inr (hcoll hv')⟩, ?_, ?_, ?_⟩
  · rw [renderFeature_none K ts cass' hpL _ isAnn f hname.2.1 hname.2.2.1 (by rw [slot_at h.ho', hv']; rfl),
      renderFeature_none K ts cass H _ isAnn f hname.2.1 hname.2.2.1 (by rw [slot_at h.ho, hv]; rfl)]
  · intro b' hb'
    rcases hb' with ⟨hni, _⟩ | ⟨_, _, cc, l, hc, _⟩ | ⟨_, _, cc, l, hc, _⟩
    · rw [hi] at hni; cases hni
    · rw [hv'] at hc; cases hc
    · rw [hv'] at hc; cases hc
  · intro b x hb _
    rcases hb with ⟨hni, _⟩ | ⟨_, _, cc, l, hc, _⟩ | ⟨_, _, cc, l, hc, _⟩
    · rw [hi] at hni; cases hni
    · rw [hv] at hc; cases hc
    · rw [hv] at hc; cases hc

theorem slot_arrAt {hpL : Heap} {c' : Nat} {ev : Val} (h : ArrAt hpL c' ev) : slot hpL c' "elements" = some ev := by
  obtain ⟨ob, h1, _, h3⟩ := h
  rw [slot_at h1, h3]

/-! ### primitive arrays -/

theorem fix_primarr (h : Loc K ts c ci H L na ia ci' hpL q o o' t)
    (r : RCtx cass cass' c c' ci ci' hp H na isAnn o) (hnd : (ctorFields t).Nodup) {f : Feature}
    (hf : f ∈ allFeatures t) (hname : NameOk f) (hm : f.multi.getD false = false) {v : Val}
    (hv : alistGet? o.slots f.name = some v) (hr : PrimArrTy f.range)
    (rk : RangeKind K ts f.range true false true false false false) (hvv : InlArr H (PrimElems f.range) v) :
    FeatFix K ts cass cass' c' ci' H hpL L na q.2 (na q.1) isAnn o o' f := by
  have hi : isInline K f = true := CT.isInline_inl hm (CT.or_true_left rk.arr)
  rcases hvv with rfl | ⟨cc, ev, rfl, hev, hP⟩
  · exact fix_inl_none h hname hi hv (fun hv' => ⟨hm, .none, hv', .inl ⟨hr, rk, .inl rfl⟩⟩)
  · obtain ⟨c1, hv', hat⟩ := h.arrAt hnd hf hi rk.arr hv hev
    have hev' := slot_arrAt hat
    have hP' := primElems_exp H na hP
    obtain ⟨hne, s, hsp⟩ := CG1.showPrimArray_ok hP
    obtain ⟨hne', _, _⟩ := CG1.showPrimArray_ok hP'
    have hsp' : showPrimArray f.range (elemsExp H na ev) = .ok s := by rw [showPrimArray_exp H na hP, hsp]
    refine ⟨.inr ⟨hname, .inr ⟨hm, .ref c1, hv', .inl ⟨hr, rk, .inr ⟨c1, _, rfl, hev', hP'⟩⟩⟩⟩, ?_, ?_, ?_⟩
    · rw [CG1.render_primarr K ts cass' hpL _ isAnn f o' c1 _ s h.ho' hname hm hv' rk.strArr rk.strList rk.primArr
          hev' hne' hsp' (r.annSofa' h),
        CG1.render_primarr K ts cass H _ isAnn f o cc ev s h.ho hname hm hv rk.strArr rk.strList rk.primArr
          hev hne hsp r.annSofa]
    · intro b' hb'
      exact absurd hb' (ft_inl_other hi (CT.primArr_ne hr).1 (CT.primArr_ne hr).2 b')
    · intro b x hb _
      exact absurd hb (ft_inl_other hi (CT.primArr_ne hr).1 (CT.primArr_ne hr).2 b)

/-! ### string arrays -/

theorem fix_strarr (h : Loc K ts c ci H L na ia ci' hpL q o o' t)
    (r : RCtx cass cass' c c' ci ci' hp H na isAnn o) (hnd : (ctorFields t).Nodup) {f : Feature}
    (hf : f ∈ allFeatures t) (hname : NameOk f) (hm : f.multi.getD false = false) {v : Val}
    (hv : alistGet? o.slots f.name = some v) (hr : f.range = STRING_ARRAY)
    (rk : RangeKind K ts f.range true false true false true false) (hvv : InlArr H StrElems v) :
    FeatFix K ts cass cass' c' ci' H hpL L na q.2 (na q.1) isAnn o o' f := by
  have hi : isInline K f = true := CT.isInline_inl hm (CT.or_true_left rk.arr)
  have h1 : f.range ≠ FS_ARRAY := by rw [hr]; decide
  have h2 : f.range ≠ FS_LIST := by rw [hr]; decide
  rcases hvv with rfl | ⟨cc, ev, rfl, hev, hP⟩
  · exact fix_inl_none h hname hi hv (fun hv' => ⟨hm, .none, hv', .inr (.inl ⟨hr, rk, .inl rfl⟩)⟩)
  · obtain ⟨c1, hv', hat⟩ := h.arrAt hnd hf hi rk.arr hv hev
    have hev' := slot_arrAt hat
    have hP' := strElems_exp H na hP
    refine ⟨.inr ⟨hname, .inr ⟨hm, .ref c1, hv', .inr (.inl ⟨hr, rk, .inr ⟨c1, _, rfl, hev', hP'⟩⟩)⟩⟩, ?_, ?_, ?_⟩
    · have hempty : (ev = .refs [] ∨ ev = .strs []) →
          renderFeature K ts cass' hpL (na q.1) isAnn f = renderFeature K ts cass H q.2 isAnn f := by
        intro hemp
        have hemp' : elemsExp H na ev = .refs [] ∨ elemsExp H na ev = .strs [] := by
          rcases hemp with rfl | rfl <;> exact .inl rfl
        rw [CG1.render_strarr_empty K ts cass' hpL _ isAnn f o' c1 _ h.ho' hname hm hv' rk.strArr hev' hemp'
            (r.annSofa' h),
          CG1.render_strarr_empty K ts cass H _ isAnn f o cc ev h.ho hname hm hv rk.strArr hev hemp r.annSofa]
      rcases hP with he | ⟨l, rfl⟩
      · exact hempty (.inl he)
      · cases l with
        | nil => exact hempty (.inr rfl)
        | cons e l =>
          have hl : (e :: l) ≠ [] := List.cons_ne_nil _ _
          have hev'' : slot hpL c1 "elements" = some (.strs ((e :: l).map normTxt)) := hev'
          rw [CG1.render_strarr_cons K ts cass' hpL _ isAnn f o' c1 _ h.ho' hname hm hv' rk.strArr hev''
              (by simp) (r.annSofa' h),
            CG1.render_strarr_cons K ts cass H _ isAnn f o cc _ h.ho hname hm hv rk.strArr hev hl r.annSofa]
          rw [List.map_map]
          congr 2
          apply List.map_congr_left
          intro e' _
          simp only [Function.comp, normTxt_idem]
    · intro b' hb'
      exact absurd hb' (ft_inl_other hi h1 h2 b')
    · intro b x hb _
      exact absurd hb (ft_inl_other hi h1 h2 b)

/-! ### FSArrays -/

theorem fix_fsarr (h : Loc K ts c ci H L na ia ci' hpL q o o' t)
    (r : RCtx cass cass' c c' ci ci' hp H na isAnn o) (hnd : (ctorFields t).Nodup) {f : Feature}
    (hf : f ∈ allFeatures t) (hname : NameOk f) (hm : f.multi.getD false = false) {v : Val}
    (hv : alistGet? o.slots f.name = some v) (hr : f.range = FS_ARRAY)
    (rk : RangeKind K ts f.range false false true false false false) (hvv : InlArr H (FsElems H) v) :
    FeatFix K ts cass cass' c' ci' H hpL L na q.2 (na q.1) isAnn o o' f := by
  have hi : isInline K f = true := CT.isInline_inl hm (CT.or_true_left rk.arr)
  have hne : FS_ARRAY ≠ FS_LIST := by decide
  rcases hvv with rfl | ⟨cc, ev, rfl, hev, l, rfl, hok⟩
  · exact fix_inl_none h hname hi hv (fun hv' => ⟨hm, .none, hv', .inr (.inr (.inl ⟨hr, rk, .inl rfl⟩))⟩)
  · obtain ⟨c1, hv', hat⟩ := h.arrAt hnd hf hi rk.arr hv hev
    have hev' := slot_arrAt hat
    -- the elements are collected
    have hres : ∀ b ∈ l, ∃ x, xidOf H b = some x ∧ (x, b) ∈ L ∧ xidOf hpL (na x) = some x ∧ x ≠ 0 := by
      intro b hb
      exact h.res ⟨o, t, h.ho, h.ht, .inr (.inl ⟨f, hf, hi, hr, cc, l.map some, hv, hev, List.mem_map_of_mem hb⟩)⟩
    have hex := fs_exp H na l (fun b hb => (hres b hb).imp (fun x hx => hx.1))
    rw [hex] at hev'
    have hok' : ∀ b' ∈ l.map (fun b => na (CAR.idOf H b)), RefOk hpL b' := by
      intro b' hb'
      obtain ⟨b, hb, rfl⟩ := List.mem_map.mp hb'
      obtain ⟨x, h1, _, h3, h4⟩ := hres b hb
      rw [idOf_eq h1]
      exact refOk_new h3 h4
    refine ⟨.inr ⟨hname, .inr ⟨hm, .ref c1, hv', .inr (.inr (.inl ⟨hr, rk,
      .inr ⟨c1, _, rfl, hev', _, rfl, hok'⟩⟩))⟩⟩, ?_, ?_, ?_⟩
    · rw [CG1.render_fsarr K ts cass' hpL _ isAnn f o' c1 _ _ h.ho' hname hm hv' rk.strArr rk.strList rk.primArr
          rk.primList hr hev' (CG1.refIds_ok hpL _ hok') (r.annSofa' h),
        CG1.render_fsarr K ts cass H _ isAnn f o cc _ _ h.ho hname hm hv rk.strArr rk.strList rk.primArr
          rk.primList hr hev (CG1.refIds_ok H l hok) r.annSofa]
      rw [List.map_map]
      congr 5
      apply List.map_congr_left
      intro b hb
      obtain ⟨x, h1, _, h3, _⟩ := hres b hb
      simp only [Function.comp, idOf_eq h1]
      exact idTok_new h1 h3
    · intro b' hb'
      rcases hb' with ⟨hni, _⟩ | ⟨_, _, c2, l2, hc2, hl2, hb2⟩ | ⟨_, hr', _⟩
      · rw [hi] at hni; cases hni
      · rw [hv'] at hc2; cases hc2
        have hev2 : Traverse.slot hpL c1 "elements" = some (.refs ((l.map (fun b => na (CAR.idOf H b))).map some)) := hev'
        rw [hev2] at hl2; cases hl2
        obtain ⟨b1, hb1, hbe⟩ := List.mem_map.mp hb2
        cases hbe
        obtain ⟨b, hb, rfl⟩ := List.mem_map.mp hb1
        obtain ⟨x, h1, h2, _⟩ := hres b hb
        exact ⟨_, h2, by rw [idOf_eq h1]⟩
      · rw [hr] at hr'; exact absurd hr' hne
    · intro b x hb hx
      rcases hb with ⟨hni, _⟩ | ⟨_, _, c2, l2, hc2, hl2, hb2⟩ | ⟨_, hr', _⟩
      · rw [hi] at hni; cases hni
      · rw [hv] at hc2; cases hc2
        have hev2 : Traverse.slot H cc "elements" = some (.refs (l.map some)) := hev
        rw [hev2] at hl2; cases hl2
        obtain ⟨b1, hb1, hbe⟩ := List.mem_map.mp hb2
        cases hbe
        refine Or.inr (Or.inl ⟨hi, hr, c1, _, hv', hev', ?_⟩)
        refine List.mem_map_of_mem (List.mem_map.mpr ⟨b, hb1, ?_⟩)
        rw [idOf_eq (h.idOf hx)]
      · rw [hr] at hr'; exact absurd hr' hne

end

end Cassis.Xmi.CFX
